package c19

// writes.go — assignments to option variables made AFTER parsing: `v = …` (not `:=`) inside the
// function literals of a command or the helpers they call, where `v` is bound to some flag.  Each
// one is a place where the value a command uses may stop being what the option holds (and hence
// what its documented default says): `if seed == -1 { seed = time… }`, the thread clamp of
// `compare trees`, `if !edgecomments && !nodecomments { both = true }`, …  Table (e) of C19:
// regenerated into lean/Gotree/Gen/C19Writes.lean; Proofs/C19.lean decides that every site is one
// the models account for, so that a new one cannot appear unnoticed.

import (
	"fmt"
	"go/ast"
	"go/parser"
	"go/token"
	"os"
	"path/filepath"
	"sort"
	"strings"
)

type optWrite struct {
	Path, GoVar, File string // command path ("gotree comment clear"), variable, file
	Via               string
	Rhs               string // source text of the right-hand side
}

func optionWrites(repo string) (out []optWrite, problems []string) {
	sites, paths, problems := initSites(repo)
	bound := map[string]bool{}
	for _, s := range sites {
		if s.GoVar != "" {
			bound[s.GoVar] = true
		}
	}
	dir := filepath.Join(repo, "cmd")
	ents, _ := os.ReadDir(dir)
	fset := token.NewFileSet()
	var files []*ast.File
	srcs := map[string][]byte{}
	for _, e := range ents {
		n := e.Name()
		if !strings.HasSuffix(n, ".go") || strings.HasSuffix(n, "_test.go") || !compiled(dir, n) {
			continue
		}
		src, err := os.ReadFile(filepath.Join(dir, n))
		if err != nil {
			continue
		}
		f, err := parser.ParseFile(fset, filepath.Join(dir, n), src, 0)
		if err != nil {
			problems = append(problems, err.Error())
			continue
		}
		files = append(files, f)
		srcs[filepath.Join(dir, n)] = src
	}
	funcs := map[string]*ast.FuncDecl{}
	for _, f := range files {
		for _, d := range f.Decls {
			if fd, ok := d.(*ast.FuncDecl); ok && fd.Recv == nil && fd.Name.Name != "init" {
				funcs[fd.Name.Name] = fd
			}
		}
	}
	text := func(n ast.Node) string {
		p, q := fset.Position(n.Pos()), fset.Position(n.End())
		src := srcs[p.Filename]
		if src == nil || q.Offset > len(src) {
			return ""
		}
		return strings.Join(strings.Fields(string(src[p.Offset:q.Offset])), " ")
	}
	for _, f := range files {
		for _, d := range f.Decls {
			gd, ok := d.(*ast.GenDecl)
			if !ok {
				continue
			}
			for _, sp := range gd.Specs {
				vs, ok := sp.(*ast.ValueSpec)
				if !ok {
					continue
				}
				for i, id := range vs.Names {
					if i >= len(vs.Values) {
						continue
					}
					u, ok := vs.Values[i].(*ast.UnaryExpr)
					if !ok {
						continue
					}
					cl, ok := u.X.(*ast.CompositeLit)
					if !ok {
						continue
					}
					path, ok := paths[id.Name]
					if !ok {
						continue
					}
					visited := map[string]bool{}
					var scan func(ft *ast.FuncType, body *ast.BlockStmt, via string, depth int)
					scan = func(ft *ast.FuncType, body *ast.BlockStmt, via string, depth int) {
						if body == nil || depth > 6 {
							return
						}
						local := localNames(ft, body)
						ast.Inspect(body, func(n ast.Node) bool {
							switch x := n.(type) {
							case *ast.AssignStmt:
								if x.Tok == token.DEFINE {
									return true
								}
								for k, l := range x.Lhs {
									li, ok := l.(*ast.Ident)
									if !ok || local[li.Name] || !bound[li.Name] {
										continue
									}
									rhs := ""
									if len(x.Rhs) == len(x.Lhs) {
										rhs = text(x.Rhs[k])
									} else if len(x.Rhs) > 0 {
										rhs = text(x.Rhs[0])
									}
									out = append(out, optWrite{Path: path, GoVar: li.Name, File: filepath.Base(fset.Position(li.Pos()).Filename), Via: via, Rhs: x.Tok.String() + " " + rhs})
								}
							case *ast.IncDecStmt:
								if li, ok := x.X.(*ast.Ident); ok && !local[li.Name] && bound[li.Name] {
									out = append(out, optWrite{Path: path, GoVar: li.Name, File: filepath.Base(fset.Position(li.Pos()).Filename), Via: via, Rhs: x.Tok.String()})
								}
							case *ast.CallExpr:
								if fn, ok := x.Fun.(*ast.Ident); ok && !local[fn.Name] {
									if fd, ok := funcs[fn.Name]; ok && !visited[fn.Name] {
										visited[fn.Name] = true
										v := fn.Name
										if via != "" {
											v = via + ">" + fn.Name
										}
										scan(fd.Type, fd.Body, v, depth+1)
									}
								}
							}
							return true
						})
					}
					for _, el := range cl.Elts {
						if kv, ok := el.(*ast.KeyValueExpr); ok {
							if fl, ok := kv.Value.(*ast.FuncLit); ok {
								scan(fl.Type, fl.Body, "", 0)
							}
						}
					}
				}
			}
		}
	}
	sort.SliceStable(out, func(i, j int) bool {
		if out[i].Path != out[j].Path {
			return out[i].Path < out[j].Path
		}
		return out[i].GoVar < out[j].GoVar
	})
	return
}

func debugWrites(repo string) {
	ws, pr := optionWrites(repo)
	for _, w := range ws {
		fmt.Fprintf(os.Stderr, "%s | %s | %s | %s | %s\n", w.Path, w.GoVar, w.File, w.Via, w.Rhs)
	}
	fmt.Fprintln(os.Stderr, pr)
}
