/-
  C14 (round 7) — the model of `TipBag` meets the documentation of tree/tipbags.go as the oracle
  `bagSpecOK` states it (the oracle keeps the list of the nodes in the bag and no map).
-/
import Gotree.Lemmas.C14Bag

namespace Gotree.C14
open Gotree Gotree.C14.Go

theorem bag_mem_of_lookup_some : ∀ (b : Bag) (k : String) (v : Nat), b.lookup k = some v → (k, v) ∈ b
  | [], _, _, h => by simp [List.lookup] at h
  | (k', v') :: r, k, v, h => by
    by_cases hk : k = k'
    · subst hk
      have : v' = v := by simpa [List.lookup] using h
      subst this; simp
    · have hb : (k == k') = false := by simpa using hk
      have h' : r.lookup k = some v := by simpa [List.lookup, hb] using h
      exact List.mem_cons_of_mem _ (bag_mem_of_lookup_some r k v h')

theorem bag_val_unique : ∀ (b : Bag) (k : String) (v v' : Nat), (bagKeys b).Nodup → (k, v) ∈ b → (k, v') ∈ b → v = v'
  | [], _, _, _, _, h, _ => by simp at h
  | (k0, v0) :: r, k, v, v', hn, h1, h2 => by
    have hn' : k0 ∉ r.map (·.1) ∧ (r.map (·.1)).Nodup := List.nodup_cons.1 hn
    have key_in : ∀ w, (k, w) ∈ r → k ∈ r.map (·.1) := fun w hw => List.mem_map.2 ⟨(k, w), hw, rfl⟩
    rcases List.mem_cons.1 h1 with e1 | m1 <;> rcases List.mem_cons.1 h2 with e2 | m2
    · injection e1 with _ a; injection e2 with _ c; rw [a, c]
    · injection e1 with a _; exact absurd (a ▸ key_in v' m2) hn'.1
    · injection e2 with a _; exact absurd (a ▸ key_in v m1) hn'.1
    · exact bag_val_unique r k v v' hn'.2 m1 m2

/-- what ties the model's map to the oracle's list of nodes -/
structure BagInv (g : G) (b : Bag) (st : List Nat) : Prop where
  perm : (b.map (·.2)).Perm st
  names : ∀ p ∈ b, g.name p.2 = p.1 ∧ g.tip p.2 = true
  nodup : (bagKeys b).Nodup

theorem BagInv.empty (g : G) : BagInv g [] [] := ⟨by simp, by simp, by simp [bagKeys]⟩

theorem BagInv.mem_st {g : G} {b : Bag} {st : List Nat} (h : BagInv g b st) {n : Nat} (hn : n ∈ st) :
    (g.name n, n) ∈ b := by
  obtain ⟨p, hp, e⟩ := List.mem_map.1 (h.perm.mem_iff.2 hn)
  have := (h.names p hp).1
  rw [e] at this
  have hp' : p = (g.name n, n) := by
    cases p with
    | mk a c => simp only at e this; rw [e, this]
  rw [← hp']; exact hp

theorem bagNames_eq_sortNames (b : Bag) : bagNames b = sortNames (bagKeys b) := by
  have h := insSort_names (fun (s : String) => s) (b.map (fun (x : String × Nat) => x.1))
  simp only [List.map_id'] at h
  unfold bagNames bagKeys
  exact h

theorem BagInv.tips {g : G} {b : Bag} {st : List Nat} (h : BagInv g b st) : bagNames b = sortNames (st.map g.name) := by
  rw [bagNames_eq_sortNames]
  apply sortNames_eq_of_perm
  have e : bagKeys b = (b.map (·.2)).map g.name := by
    unfold bagKeys
    rw [List.map_map]
    exact List.map_congr_left fun p hp => ((h.names p hp).1).symm
  rw [e]
  exact h.perm.map g.name

theorem gtip_of_node {g : G} {n : Nat} {nd : GNode} (hn : g.nodes[n]? = some nd) : g.tip n = (nd.neigh.length == 1) := by
  simp [G.tip, hn]

theorem gname_of_node {g : G} {n : Nat} {nd : GNode} (hn : g.nodes[n]? = some nd) : g.name n = nd.name := by
  simp [G.name, hn]

/-- the model's results satisfy the oracle, from any state in which map and list agree -/
theorem bagRun_spec (g : G) : ∀ (ops : List BagOp) (b : Bag) (st : List Nat), BagInv g b st →
    bagSpecOK g ops (bagRun g ops b) st = true
  | [], _, _, _ => by simp [bagRun, bagSpecOK]
  | .add none :: r, b, st, h => by
    simp only [bagRun, bagSpecOK]
    simp [bagRun_spec g r b st h]
  | .clear :: r, b, st, _ => by
    simp only [bagRun, bagSpecOK]
    exact bagRun_spec g r [] [] (BagInv.empty g)
  | .size :: r, b, st, h => by
    simp only [bagRun, bagSpecOK]
    have : b.length = st.length := by simpa using h.perm.length_eq
    simp [this, bagRun_spec g r b st h]
  | .tips :: r, b, st, h => by
    simp only [bagRun, bagSpecOK]
    simp [h.tips, bagRun_spec g r b st h]
  | .add (some n) :: r, b, st, h => by
    cases hn : g.nodes[n]? with
    | none =>
      have ha : addTip g b n = .error "Nil node given to TipBag.AddTip" := by simp [addTip, hn]
      have ht : g.tip n = false := by simp [G.tip, hn]
      simp only [bagRun, ha, bagSpecOK, ht]
      simp [bagRun_spec g r b st h]
    | some nd =>
      have hc := addTip_cases g b n nd hn
      have ht := gtip_of_node hn
      have hname := gname_of_node hn
      by_cases h1 : nd.neigh.length != 1
      · have ha : addTip g b n = .error "Internal node given to TipBag.AddTip" := by rw [hc]; simp [h1]
        have ht' : g.tip n = false := by
          rw [ht]; simpa using h1
        simp only [bagRun, ha, bagSpecOK, ht']
        simp [bagRun_spec g r b st h]
      · have ht' : g.tip n = true := by
          rw [ht]; simpa using h1
        simp only [h1, Bool.false_eq_true, if_false] at hc
        cases hl : b.lookup nd.name with
        | none =>
          rw [hl] at hc
          have hnk := bag_not_mem_of_lookup_none b nd.name hl
          have hcont : st.contains n = false := by
            cases hcn : st.contains n with
            | false => rfl
            | true =>
              have := h.mem_st (List.contains_iff_mem.1 hcn)
              rw [hname] at this
              exact absurd (List.mem_map.2 ⟨_, this, rfl⟩) hnk
          have hany : st.any (fun m => g.name m == g.name n) = false := by
            cases ha : st.any (fun m => g.name m == g.name n) with
            | false => rfl
            | true =>
              obtain ⟨m, hm, e⟩ := List.any_eq_true.1 ha
              have e' : g.name m = nd.name := by rw [← hname]; simpa using e
              have := h.mem_st hm
              rw [e'] at this
              exact absurd (List.mem_map.2 ⟨_, this, rfl⟩) hnk
          have hinv : BagInv g (b ++ [(nd.name, n)]) (n :: st) := by
            refine ⟨?_, ?_, addTip_keys_nodup g b _ n h.nodup hc⟩
            · simp only [List.map_append, List.map_cons, List.map_nil]
              exact (List.perm_append_comm.trans (List.Perm.cons n h.perm))
            · intro p hp
              rcases List.mem_append.1 hp with hp | hp
              · exact h.names p hp
              · simp only [List.mem_singleton] at hp
                subst hp
                exact ⟨hname, ht'⟩
          simp only [bagRun, hc, bagSpecOK, ht', hcont, hany]
          simp [bagRun_spec g r _ _ hinv]
        | some m =>
          rw [hl] at hc
          have hmem := bag_mem_of_lookup_some b nd.name m hl
          have hmst : m ∈ st := h.perm.mem_iff.1 (List.mem_map.2 ⟨_, hmem, rfl⟩)
          by_cases hmn : m != n
          · have ha : addTip g b n = .error "TipBag.AddTip: TipBag already contains another tip of the tree having the same name: May be several tips have the same name?" := by
              rw [hc]; simp [hmn]
            have hcont : st.contains n = false := by
              cases hcn : st.contains n with
              | false => rfl
              | true =>
                have := h.mem_st (List.contains_iff_mem.1 hcn)
                rw [hname] at this
                have e := bag_val_unique b nd.name m n h.nodup hmem this
                simp [e] at hmn
            have hany : st.any (fun k => g.name k == g.name n) = true := by
              refine List.any_eq_true.2 ⟨m, hmst, ?_⟩
              have := (h.names _ hmem).1
              simp only at this
              simp [this, hname]
            simp only [bagRun, ha, bagSpecOK, ht', hcont, hany]
            simp [bagRun_spec g r b st h]
          · have hmn' : m = n := by simpa using hmn
            have ha : addTip g b n = .ok b := by rw [hc]; simp [hmn']
            have hcont : st.contains n = true := List.contains_iff_mem.2 (hmn' ▸ hmst)
            simp only [bagRun, ha, bagSpecOK, ht', hcont]
            simp [bagRun_spec g r b st h]

end Gotree.C14
