/-
  C06 — the vocabulary of the table `Gotree/Gen/C06Sites.lean`, regenerated from the source by
  `harness/c06/extract.go` on every run, and what the hand-written model (`Model/C06.lean`) expects
  to find there.  Conditions are kept as small boolean expressions `Ex` over printed Go atoms, so that
  the two conditions that DECIDE something in the model — which tips `RemoveTips` selects, which source
  of names `gotree prune` uses — can be evaluated in Lean and proved equal to the model's definitions
  (`Proofs/C06.lean`: `sites_select`, `sites_source`).  Core Lean only.
-/
import Gotree.Model.C06

namespace Gotree.C06.Sites
open Gotree

/-- a Go condition: `!`, `&&`, `||` over comparisons and other atoms, printed on one line -/
inductive Ex where
  | atom (s : String)
  | cmp (op l r : String)
  | not (e : Ex)
  | and (a b : Ex)
  | or (a b : Ex)
  deriving DecidableEq, Repr, Inhabited

/-- value of a condition, given the value of its leaves (`none`: a leaf the valuation does not know) -/
def Ex.eval (ρ : Ex → Option Bool) : Ex → Option Bool
  | .not e => (e.eval ρ).map (!·)
  | .and a b => match a.eval ρ, b.eval ρ with
    | some x, some y => some (x && y)
    | _, _ => none
  | .or a b => match a.eval ρ, b.eval ρ with
    | some x, some y => some (x || y)
    | _, _ => none
  | .cmp op l r =>
    match ρ (.cmp op l r) with
    | some b => some b
    | none =>
      -- `a == b` / `a != b` between two boolean atoms the valuation knows
      match op, ρ (.atom l), ρ (.atom r) with
      | "==", some x, some y => some (x == y)
      | "!=", some x, some y => some (x != y)
      | _, _, _ => none
  | e => ρ e

/-- one branch of the if / else-if chain of `RunE` (cmd/prune.go): its condition (`none` for the final
    else), the statements before the call, the arguments of `RemoveTips` -/
structure Branch where
  cond : Option Ex
  before : List String
  call : List String
  deriving DecidableEq, Repr

/-- a flag of `gotree prune`: bound variable, name, shorthand, registration function, default -/
structure Flag where
  var : String
  name : String
  short : String
  reg : String
  dflt : String
  deriving DecidableEq, Repr

/-- the arguments of the `RemoveTips` call of the first branch of the chain whose condition holds -/
def pick (ρ : Ex → Option Bool) : List Branch → Option (List String)
  | [] => none
  | b :: r =>
    match b.cond with
    | none => some b.call
    | some c =>
      match c.eval ρ with
      | some true => some b.call
      | some false => pick ρ r
      | none => none

/- ## the valuations -/

/-- `RemoveTips`, selection of a tip: `revert` is the parameter, `ok` = the tip's name is in `namemap` -/
def ρSelect (revert ok : Bool) : Ex → Option Bool
  | .atom "revert" => some revert
  | .atom "ok" => some ok
  | _ => none

/-- `RunE`: `-f` given / `-c` given (the compared tree was read) / `--random` positive -/
def ρFlags (hasFile hasComp randomPos : Bool) : Ex → Option Bool
  | .cmp "!=" "tipfile" "\"none\"" => some hasFile
  | .cmp "!=" "comptree" "nil" => some hasComp
  | .cmp ">" "randomtips" "0" => some randomPos
  | _ => none

/-- what each `Source` of the model hands to `RemoveTips` in the source text -/
def callOf : Source → List String
  | .file => ["revert, tips..."]
  | .comp => ["revert, specificTipNames..."]
  | .random => ["revert, sampled..."]
  | .args => ["revert, args..."]

/-- value of a string of decimal digits -/
def digitsVal (cs : List Char) : Option Nat :=
  if cs.isEmpty || !cs.all Char.isDigit then none
  else some (cs.foldl (fun n c => 10 * n + (c.toNat - '0'.toNat)) 0)

/-- a decimal literal such as `-1.0` as an exact value (sentinels) -/
def litRat? (s : String) : Option Rat :=
  let cs := s.toList
  let (neg, cs) := match cs with
    | '-' :: r => (true, r)
    | _ => (false, cs)
  let ip := cs.takeWhile (· != '.')
  let fp := (cs.dropWhile (· != '.')).drop 1
  match digitsVal ip, (if fp.isEmpty then some 0 else digitsVal fp) with
  | some i, some f =>
    let v : Rat := (i : Rat) + (f : Rat) / ((10 ^ fp.length : Nat) : Rat)
    some (if neg then -v else v)
  | _, _ => none

/- ## what the model expects -/

/-- `RemoveTips`: the rootedness is read once before the loop -/
def expRtPre : List String := ["rooted := t.Rooted()"]
def expRtRange : String := "t.Tips()"
def expRtGuards : List (Ex × List String) :=
  [(.cmp "!=" "len(tip.neigh)" "1", ["return errors.New(\"The node named \" + tip.Name() + \" is not a tip\")"])]
def expRtCallArgs : List String := ["tip, rooted"]
/-- the tip index first, then the branch indexes (bitsets, hashes, depths) that depend on it -/
def expRtPost : List String := ["t.UpdateTipIndex()", "t.ReinitInternalIndexes()"]

/-- `removeTip`: not a tip / the tip is the root / delNeighbor failed / case 1 / case 2 with the
    rooted-root exception (50ed682) -/
def expTipIfs : List Ex :=
  [.cmp "!=" "len(tip.neigh)" "1",
   .cmp "==" "internal" "tip",
   .cmp "!=" "err" "nil",
   .cmp "==" "len(internal.neigh)" "1",
   .and (.cmp "==" "len(internal.neigh)" "2") (.not (.and (.atom "rooted") (.cmp "==" "internal" "t.Root()")))]
def expTipChain : List Ex := [.and (.cmp "!=" "t.Root()" "internal") (.cmp "==" "len(internal.neigh)" "1")]
/-- `fuseEdge`: length -/
def expSetLength : List (Ex × String) :=
  [(.or (.cmp "!=" "length1" "NIL_LENGTH") (.cmp "!=" "length2" "NIL_LENGTH"), "math.Max(0, length1) + math.Max(0, length2)")]
/-- `fuseEdge`: support -/
def expSetSupport : List (Ex × String) :=
  [(.and (.and (.or (.cmp "!=" "sup1" "NIL_SUPPORT") (.cmp "!=" "sup2" "NIL_SUPPORT")) (.cmp ">" "len(n1.neigh)" "1"))
      (.cmp ">" "len(n2.neigh)" "1"), "math.Max(sup1, sup2)")]
/-- who becomes the parent of whom (the child is appended at the end of the parent's neighbours) -/
def expConnect : List (Ex × String) :=
  [(.and (.atom "dir1") (.atom "dir2"), "n1, n2"),
   (.and (.not (.atom "dir1")) (.not (.atom "dir2")), "n2, n1"),
   (.cmp ">" "len(n1.neigh)" "1", "n1, n2"),
   (.cmp ">" "len(n2.neigh)" "1", "n2, n1")]
def expSetRoot : List (Ex × String) :=
  [(.cmp ">" "len(n1.neigh)" "1", "n1"), (.cmp ">" "len(n2.neigh)" "1", "n2")]

/-- cmd/prune.go: the file of `-f` and the tree of `-c` are read once, before the loop -/
def expPruneReads : List (Ex × String) :=
  [(.cmp "!=" "intree2file" "\"none\"", "comptree, err = readTree(intree2file)"),
   (.cmp "!=" "tipfile" "\"none\"", "tips, err = parseTipsFile(tipfile)")]
def expPruneRange : String := "treechan"
def expPruneChain : List Branch :=
  [⟨some (.cmp "!=" "tipfile" "\"none\""), [], ["revert, tips..."]⟩,
   ⟨some (.cmp "!=" "comptree" "nil"), ["specificTipNames = specificTips(reftree.Tree, comptree)"], ["revert, specificTipNames..."]⟩,
   ⟨some (.cmp ">" "randomtips" "0"), ["sampled := randomTips(reftree.Tree, randomtips)"], ["revert, sampled..."]⟩,
   ⟨none, [], ["revert, args..."]⟩]
/-- the loop body: a failed input stops the command, then the chain, a failure stops the command (`pruneAll`),
    the result is written at once -/
def expPruneBody : List String :=
  ["if reftree.Err != nil { io.LogError(reftree.Err); return reftree.Err }", "<chain>",
   "if err != nil { io.LogError(err); return }", "f.WriteString(reftree.Tree.Newick() + \"\\n\")"]
def expPruneFlags : List Flag :=
  [⟨"intreefile", "ref", "i", "StringVarP", "\"stdin\""⟩,
   ⟨"intree2file", "comp", "c", "StringVarP", "\"none\""⟩,
   ⟨"outtreefile", "output", "o", "StringVarP", "\"stdout\""⟩,
   ⟨"tipfile", "tipfile", "f", "StringVarP", "\"none\""⟩,
   ⟨"revert", "revert", "r", "BoolVarP", "false"⟩,
   ⟨"randomtips", "random", "", "IntVar", "0"⟩]
/-- `specificTips(ref, comp)`: nodes with one neighbour of `comp`, then of `ref`, kept when unknown -/
def expSpecParams : List String := ["ref", "comp"]
def expSpecRanges : List String := ["comp.Nodes()", "ref.Nodes()"]
def expSpecConds : List Ex := [.cmp "==" "n.Nneigh()" "1", .cmp "==" "n.Nneigh()" "1", .not (.atom "ok")]

end Gotree.C06.Sites
