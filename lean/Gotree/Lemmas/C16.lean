/-
  C16 — helper lemmas for Proofs/C16.lean (core Lean + Std only).
-/
import Gotree.Spec.C16
import Std.Data.String.ToNat

namespace Gotree.C16
open Gotree

/-! ### tip names are pairwise different -/

theorem tipName_inj {i j : Nat} (h : tipName i = tipName j) : i = j := by
  unfold tipName at h
  have h2 : ("Tip" ++ toString i).toList = ("Tip" ++ toString j).toList := by rw [h]
  rw [String.toList_append, String.toList_append] at h2
  have h3 := List.append_cancel_left h2
  have h4 : toString i = toString j := String.toList_inj.mp h3
  exact Nat.repr_injective h4

theorem tipNamesUpTo_nodup (n : Nat) : (tipNamesUpTo n).Nodup := by
  unfold tipNamesUpTo List.Nodup
  rw [List.pairwise_map]
  exact List.Pairwise.imp (fun hab h => hab (tipName_inj h)) List.nodup_range


/-! ### `applyAt`: what a change at one branch preserves -/

theorem applyAtL_length (f : EdgeD × T → EdgeD × T) : ∀ (ks : Kids) (k : Nat), (applyAtL f k ks).length = ks.length
  | [], k => by simp [applyAtL]
  | (e, t) :: r, k => by
    unfold applyAtL
    split
    · simp
    · split
      · simp
      · simp [applyAtL_length f r]

theorem numEdges_node (d : NodeD) (p : Nat) (ks : Kids) : numEdges (.node d p ks) = numEdgesL ks := by
  simp [numEdges]

mutual
theorem numEdges_applyAt (f : EdgeD × T → EdgeD × T) (c : Nat)
    (hf : ∀ e t, 1 + numEdges (f (e, t)).2 = 1 + numEdges t + c) :
    ∀ (t : T) (k : Nat), k < numEdges t → numEdges (applyAt f k t) = numEdges t + c
  | .node d p ks, k, h => by
    simp only [applyAt, numEdges] at *
    exact numEdgesL_applyAtL f c hf ks k h
theorem numEdgesL_applyAtL (f : EdgeD × T → EdgeD × T) (c : Nat)
    (hf : ∀ e t, 1 + numEdges (f (e, t)).2 = 1 + numEdges t + c) :
    ∀ (ks : Kids) (k : Nat), k < numEdgesL ks → numEdgesL (applyAtL f k ks) = numEdgesL ks + c
  | [], k, h => by simp [numEdgesL] at h
  | (e, t) :: r, k, h => by
    unfold applyAtL
    split
    · have := hf e t
      cases hx : f (e, t) with
      | mk e' t' => rw [hx] at this; simp only [numEdgesL] at *; omega
    · split
      · rename_i h1 h2
        have := numEdges_applyAt f c hf t (k - 1) h2
        simp only [numEdgesL] at *; omega
      · rename_i h1 h2
        simp only [numEdgesL] at h
        have := numEdgesL_applyAtL f c hf r (k - 1 - numEdges t) (by omega)
        simp only [numEdgesL] at *; omega
end

mutual
theorem binaryBelow_applyAt (f : EdgeD × T → EdgeD × T)
    (hf : ∀ e t, t.binaryBelow = true → (f (e, t)).2.binaryBelow = true) :
    ∀ (t : T) (k : Nat), t.binaryBelow = true → (applyAt f k t).binaryBelow = true
  | .node d p ks, k, h => by
    simp only [applyAt, T.binaryBelow, Bool.and_eq_true] at *
    rw [applyAtL_length]
    exact ⟨h.1, binaryL_applyAtL f hf ks k h.2⟩
theorem binaryL_applyAtL (f : EdgeD × T → EdgeD × T)
    (hf : ∀ e t, t.binaryBelow = true → (f (e, t)).2.binaryBelow = true) :
    ∀ (ks : Kids) (k : Nat), binaryL ks = true → binaryL (applyAtL f k ks) = true
  | [], k, h => by simp [applyAtL, binaryL]
  | (e, t) :: r, k, h => by
    simp only [binaryL, Bool.and_eq_true] at h
    unfold applyAtL
    split
    · have := hf e t h.1
      cases hx : f (e, t) with
      | mk e' t' => rw [hx] at this; simp only [binaryL, Bool.and_eq_true]; exact ⟨this, h.2⟩
    · split
      · simp only [binaryL, Bool.and_eq_true]; exact ⟨binaryBelow_applyAt f hf t (k - 1) h.1, h.2⟩
      · simp only [binaryL, Bool.and_eq_true]; exact ⟨h.1, binaryL_applyAtL f hf r _ h.2⟩
end

theorem leaves_node_cons (d : NodeD) (p : Nat) (x : EdgeD × T) (ks : Kids) :
    (T.node d p (x :: ks)).leaves = leavesL (x :: ks) := by
  simp [T.leaves]

theorem leaves_node_of_pos (d : NodeD) (p : Nat) (ks : Kids) (h : 0 < ks.length) :
    (T.node d p ks).leaves = leavesL ks := by
  cases ks with
  | nil => simp at h
  | cons x r => exact leaves_node_cons d p x r

theorem numEdgesL_pos_length : ∀ (ks : Kids), 0 < numEdgesL ks → 0 < ks.length
  | [], h => by simp [numEdgesL] at h
  | _ :: _, _ => by simp

mutual
theorem leaves_applyAt (f : EdgeD × T → EdgeD × T) (name : String)
    (hf : ∀ e t, ((f (e, t)).2.leaves).Perm (name :: t.leaves)) :
    ∀ (t : T) (k : Nat), k < numEdges t → ((applyAt f k t).leaves).Perm (name :: t.leaves)
  | .node d p ks, k, h => by
    simp only [applyAt, numEdges] at *
    have hp := numEdgesL_pos_length ks (by omega)
    rw [leaves_node_of_pos _ _ _ hp, leaves_node_of_pos _ _ _ (by rw [applyAtL_length]; exact hp)]
    exact leavesL_applyAtL f name hf ks k h
theorem leavesL_applyAtL (f : EdgeD × T → EdgeD × T) (name : String)
    (hf : ∀ e t, ((f (e, t)).2.leaves).Perm (name :: t.leaves)) :
    ∀ (ks : Kids) (k : Nat), k < numEdgesL ks → (leavesL (applyAtL f k ks)).Perm (name :: leavesL ks)
  | [], k, h => by simp [numEdgesL] at h
  | (e, t) :: r, k, h => by
    unfold applyAtL
    split
    · have := hf e t
      cases hx : f (e, t) with
      | mk e' t' =>
        rw [hx] at this; simp only [leavesL]
        exact (List.Perm.append_right _ this)
    · split
      · rename_i h1 h2
        have := leaves_applyAt f name hf t (k - 1) h2
        simp only [leavesL]
        exact (List.Perm.append_right _ this)
      · rename_i h1 h2
        simp only [numEdgesL] at h
        have := leavesL_applyAtL f name hf r (k - 1 - numEdges t) (by omega)
        simp only [leavesL]
        exact (List.Perm.append_left _ this).trans List.perm_middle
end


/-! ### a predicate on every branch -/

mutual
def edgesAllT (p : EdgeD → Bool) : T → Bool
  | .node _ _ ks => edgesAllL p ks
def edgesAllL (p : EdgeD → Bool) : Kids → Bool
  | [] => true
  | (e, t) :: r => p e && edgesAllT p t && edgesAllL p r
end

mutual
theorem splitsBelow_all (p : EdgeD → Bool) : ∀ (t : T), (t.splitsBelow.all fun s => p s.e) = edgesAllT p t
  | .node d pp ks => by simp only [T.splitsBelow, edgesAllT]; exact splitsL_all p ks
theorem splitsL_all (p : EdgeD → Bool) : ∀ (ks : Kids), ((splitsL ks).all fun s => p s.e) = edgesAllL p ks
  | [] => by simp [splitsL, edgesAllL]
  | (e, t) :: r => by
    simp only [splitsL, edgesAllL, List.all_cons, List.all_append]
    rw [splitsBelow_all p t, splitsL_all p r, Bool.and_assoc]
end

def nonneg (e : EdgeD) : Bool := decide (0 ≤ e.len)

theorem lensOk_eq (t : T) : lensOk t = edgesAllL nonneg t.kids := by
  unfold lensOk T.edges T.splits
  rw [List.all_map]
  exact splitsL_all nonneg t.kids

mutual
theorem edgesAllT_applyAt (p : EdgeD → Bool) (f : EdgeD × T → EdgeD × T)
    (hf : ∀ e t, p e = true → edgesAllT p t = true → p (f (e, t)).1 = true ∧ edgesAllT p (f (e, t)).2 = true) :
    ∀ (t : T) (k : Nat), edgesAllT p t = true → edgesAllT p (applyAt f k t) = true
  | .node d pp ks, k, h => by
    simp only [applyAt, edgesAllT] at *
    exact edgesAllL_applyAtL p f hf ks k h
theorem edgesAllL_applyAtL (p : EdgeD → Bool) (f : EdgeD × T → EdgeD × T)
    (hf : ∀ e t, p e = true → edgesAllT p t = true → p (f (e, t)).1 = true ∧ edgesAllT p (f (e, t)).2 = true) :
    ∀ (ks : Kids) (k : Nat), edgesAllL p ks = true → edgesAllL p (applyAtL f k ks) = true
  | [], k, h => by simp [applyAtL, edgesAllL]
  | (e, t) :: r, k, h => by
    simp only [edgesAllL, Bool.and_eq_true] at h
    unfold applyAtL
    split
    · have := hf e t h.1.1 h.1.2
      cases hx : f (e, t) with
      | mk e' t' => rw [hx] at this; simp only [edgesAllL, Bool.and_eq_true]; exact ⟨this, h.2⟩
    · split
      · simp only [edgesAllL, Bool.and_eq_true]; exact ⟨⟨h.1.1, edgesAllT_applyAt p f hf t (k - 1) h.1.2⟩, h.2⟩
      · simp only [edgesAllL, Bool.and_eq_true]; exact ⟨h.1, edgesAllL_applyAtL p f hf r _ h.2⟩
end

/-! ### the graft -/

theorem graftLen_eq (name : String) (l0 l1 l2 : Rat) (e : EdgeD) (c : T) :
    graftLen name l0 l1 l2 (e, c) =
      ({ e with len := l0 },
       .node newNodeD 1 [({ newEdge 1 with len := l1 }, T.leaf name), ({ newEdge (e.len / 2) with len := l2 }, c)]) := by
  simp [graftLen, graftF, relen]

theorem graftLen_numEdges (name : String) (l0 l1 l2 : Rat) (e : EdgeD) (c : T) :
    1 + numEdges (graftLen name l0 l1 l2 (e, c)).2 = 1 + numEdges c + 2 := by
  rw [graftLen_eq]; simp [numEdges, numEdgesL, T.leaf]; omega

theorem graftLen_binary (name : String) (l0 l1 l2 : Rat) (e : EdgeD) (c : T) (h : c.binaryBelow = true) :
    (graftLen name l0 l1 l2 (e, c)).2.binaryBelow = true := by
  rw [graftLen_eq]; simp [T.binaryBelow, binaryL, T.leaf, h]

theorem graftLen_leaves (name : String) (l0 l1 l2 : Rat) (e : EdgeD) (c : T) :
    ((graftLen name l0 l1 l2 (e, c)).2.leaves).Perm (name :: c.leaves) := by
  rw [graftLen_eq]; simp [T.leaves, leavesL, T.leaf]

theorem graftLen_nonneg (name : String) (l0 l1 l2 : Rat) (h0 : 0 ≤ l0) (h1 : 0 ≤ l1) (h2 : 0 ≤ l2) (e : EdgeD) (c : T)
    (_ : nonneg e = true) (hc : edgesAllT nonneg c = true) :
    nonneg (graftLen name l0 l1 l2 (e, c)).1 = true ∧ edgesAllT nonneg (graftLen name l0 l1 l2 (e, c)).2 = true := by
  rw [graftLen_eq]; simp [edgesAllT, edgesAllL, nonneg, T.leaf, h0, h1, h2]
  simpa [edgesAllT] using hc


/-! ### finding the branch of a tip -/

mutual
theorem splitsBelow_length : ∀ (t : T), t.splitsBelow.length = numEdges t
  | .node d p ks => by simp only [T.splitsBelow, numEdges]; exact splitsL_length ks
theorem splitsL_length : ∀ (ks : Kids), (splitsL ks).length = numEdgesL ks
  | [] => by simp [splitsL, numEdgesL]
  | (e, t) :: r => by
    simp only [splitsL, numEdgesL, List.length_cons, List.length_append]
    rw [splitsBelow_length t, splitsL_length r]; omega
end

mutual
theorem tipSplit_of_mem (name : String) : ∀ (t : T), name ∈ leavesL t.kids →
    ∃ s ∈ t.splitsBelow, s.tip = true ∧ s.below = [name]
  | .node d p ks, h => by simp only [T.splitsBelow]; exact tipSplitL_of_mem name ks h
theorem tipSplitL_of_mem (name : String) : ∀ (ks : Kids), name ∈ leavesL ks →
    ∃ s ∈ splitsL ks, s.tip = true ∧ s.below = [name]
  | [], h => by simp [leavesL] at h
  | (e, .node d p []) :: r, h => by
    simp only [leavesL, T.leaves, List.mem_append, List.mem_singleton] at h
    cases h with
    | inl h1 => exact ⟨⟨[name], e, true⟩, by simp [splitsL, T.leaves, T.isLeaf, h1], rfl, rfl⟩
    | inr h2 =>
      obtain ⟨s, hs, h3⟩ := tipSplitL_of_mem name r h2
      exact ⟨s, by simp [splitsL, hs], h3⟩
  | (e, .node d p (x :: ks')) :: r, h => by
    change name ∈ (T.node d p (x :: ks')).leaves ++ leavesL r at h
    rw [List.mem_append] at h
    cases h with
    | inl h1 =>
      rw [leaves_node_cons] at h1
      obtain ⟨s, hs, h3⟩ := tipSplit_of_mem name (.node d p (x :: ks')) h1
      exact ⟨s, by simp only [splitsL, List.mem_cons, List.mem_append]; exact Or.inr (Or.inl hs), h3⟩
    | inr h2 =>
      obtain ⟨s, hs, h3⟩ := tipSplitL_of_mem name r h2
      exact ⟨s, by simp only [splitsL, List.mem_cons, List.mem_append]; exact Or.inr (Or.inr hs), h3⟩
end

theorem findIdx?_some_of_mem {α : Type} (p : α → Bool) : ∀ (l : List α), (∃ x ∈ l, p x = true) →
    ∃ k, l.findIdx? p = some k ∧ k < l.length
  | [], h => by simp at h
  | a :: r, h => by
    rw [List.findIdx?_cons]
    by_cases ha : p a = true
    · simp [ha]
    · have : ∃ x ∈ r, p x = true := by
        obtain ⟨x, hx, hp⟩ := h
        cases hx with
        | head => exact absurd hp ha
        | tail _ hx' => exact ⟨x, hx', hp⟩
      obtain ⟨k, hk, hlt⟩ := findIdx?_some_of_mem p r this
      simp [ha, hk, hlt]

theorem numEdgesL_pos_of_length : ∀ (ks : Kids), 0 < ks.length → 0 < numEdgesL ks
  | [], h => by simp at h
  | (_, _) :: _, _ => by simp [numEdgesL]; omega

theorem edgeOfTip_found (t : T) (name : String) (h : name ∈ t.tipNames) :
    ∃ k, edgeOfTip t name = some k ∧ k < numEdges t := by
  unfold edgeOfTip
  cases t with
  | node d p ks =>
    split
    next hc =>
      refine ⟨0, rfl, ?_⟩
      simp only [T.kids_node, Bool.and_eq_true, beq_iff_eq] at hc
      rw [numEdges_node]; exact numEdgesL_pos_of_length ks (by omega)
    next hc =>
      have hl : name ∈ leavesL ks := by
        unfold T.tipNames at h
        simp only [T.kids_node, List.mem_append] at h
        cases h with
        | inr h2 => exact h2
        | inl h1 =>
          exfalso; apply hc
          simp at h1
          simp only [T.kids_node, Bool.and_eq_true, beq_iff_eq]
          exact ⟨h1.1, h1.2.symm⟩
      obtain ⟨s, hs, h1, h2⟩ := tipSplitL_of_mem name ks hl
      have := findIdx?_some_of_mem (fun s => s.tip && s.below == [name]) (splitsL ks) ⟨s, hs, by simp [h1, h2]⟩
      obtain ⟨k, hk, hlt⟩ := this
      refine ⟨k, ?_, ?_⟩
      · simpa [T.splits] using hk
      · rw [numEdges_node, ← splitsL_length]; exact hlt


/-! ### the invariant of the three insertion loops -/

theorem applyAt_kids (f : EdgeD × T → EdgeD × T) (k : Nat) (t : T) : (applyAt f k t).kids = applyAtL f k t.kids := by
  cases t; simp [applyAt]

theorem applyAt_name (f : EdgeD × T → EdgeD × T) (k : Nat) (t : T) : (applyAt f k t).name = t.name := by
  cases t; simp [applyAt, T.name]

theorem tipNames_applyAt (f : EdgeD × T → EdgeD × T) (name : String)
    (hf : ∀ e t, ((f (e, t)).2.leaves).Perm (name :: t.leaves)) (t : T) (k : Nat) (h : k < numEdges t) :
    ((applyAt f k t).tipNames).Perm (name :: t.tipNames) := by
  unfold T.tipNames
  rw [applyAt_kids, applyAt_name, applyAtL_length]
  have h2 : k < numEdgesL t.kids := by cases t; simpa [numEdges] using h
  exact (List.Perm.append_left _ (leavesL_applyAtL f name hf t.kids k h2)).trans List.perm_middle

/-- state of the tree under construction when tips `0 … i-1` are in -/
structure InvT (rooted : Bool) (i : Nat) (t : T) : Prop where
  bin : binaryL t.kids = true
  deg : t.kids.length = if rooted then 2 else 1
  tips : (t.tipNames).Perm (tipNamesUpTo i)
  lens : edgesAllL nonneg t.kids = true
  ne : numEdges t = (if rooted then 2 else 1) + 2 * (i - 2)

theorem tipNamesUpTo_succ (i : Nat) : tipNamesUpTo (i + 1) = tipNamesUpTo i ++ [tipName i] := by
  simp [tipNamesUpTo, List.range_succ]

theorem graftAt_inv (rooted : Bool) (i : Nat) (t : T) (l0 l1 l2 : Rat) (k : Nat)
    (h : InvT rooted i t) (hi : 2 ≤ i) (hk : k < numEdges t) (h0 : 0 ≤ l0) (h1 : 0 ≤ l1) (h2 : 0 ≤ l2) :
    ∃ t', graftAt (tipName i) l0 l1 l2 k t = .ok t' ∧ InvT rooted (i + 1) t' ∧ numEdges t' = numEdges t + 2 := by
  refine ⟨applyAt (graftLen (tipName i) l0 l1 l2) k t, by simp [graftAt, hk], ?_, ?_⟩
  · have hne := numEdges_applyAt _ 2 (graftLen_numEdges (tipName i) l0 l1 l2) t k hk
    constructor
    · rw [applyAt_kids]; exact binaryL_applyAtL _ (graftLen_binary (tipName i) l0 l1 l2) _ _ h.bin
    · rw [applyAt_kids, applyAtL_length]; exact h.deg
    · rw [tipNamesUpTo_succ]
      exact (tipNames_applyAt _ (tipName i) (graftLen_leaves (tipName i) l0 l1 l2) t k hk).trans
        ((List.Perm.cons _ h.tips).trans (List.perm_append_singleton _ _).symm)
    · rw [applyAt_kids]; exact edgesAllL_applyAtL nonneg _ (graftLen_nonneg (tipName i) l0 l1 l2 h0 h1 h2) _ _ h.lens
    · rw [hne, h.ne]; omega
  · exact numEdges_applyAt _ 2 (graftLen_numEdges (tipName i) l0 l1 l2) t k hk

theorem lenAt_nonneg (lens : List Rat) (h : lensNonneg lens = true) (j : Nat) : 0 ≤ lenAt lens j := by
  unfold lenAt
  rw [List.getD_eq_getElem?_getD]
  cases hx : lens[j]? with
  | none => simp
  | some x =>
    have hm : x ∈ lens := List.mem_of_getElem? hx
    unfold lensNonneg at h
    rw [List.all_eq_true] at h
    simpa using h x hm

theorem iter_inv (step : Nat → St → Res St) (P : Nat → St → Prop) (n : Nat)
    (hstep : ∀ i s, 2 ≤ i → i < n → P i s → ∃ s', step i s = .ok s' ∧ P (i + 1) s') :
    ∀ (c i : Nat) (s : St), 2 ≤ i → i + c ≤ n → P i s → ∃ s', iter step c i s = .ok s' ∧ P (i + c) s'
  | 0, i, s, _, _, hp => ⟨s, rfl, hp⟩
  | c + 1, i, s, h2, hn, hp => by
    obtain ⟨s1, hs1, hp1⟩ := hstep i s h2 (by omega) hp
    obtain ⟨s2, hs2, hp2⟩ := iter_inv step P n hstep c (i + 1) s1 (by omega) (by omega) hp1
    refine ⟨s2, ?_, ?_⟩
    · simp only [iter, hs1]; exact hs2
    · have : i + (c + 1) = i + 1 + c := by omega
      rw [this]; exact hp2

theorem initTree_inv (rooted : Bool) (lens : List Rat) (hl : lensNonneg lens = true) :
    InvT rooted 2 (initTree rooted lens).1 := by
  have h0 := lenAt_nonneg lens hl 0
  have h1 := lenAt_nonneg lens hl 1
  cases rooted
  · constructor <;> simp [initTree, binaryL, T.binaryBelow, T.leaf, T.tipNames, leavesL, T.leaves, T.name,
      tipNamesUpTo, List.range_succ, edgesAllL, edgesAllT, nonneg, newEdge, numEdges, numEdgesL, h0]
  · constructor <;> simp [initTree, binaryL, T.binaryBelow, T.leaf, T.tipNames, leavesL, T.leaves, T.name,
      tipNamesUpTo, List.range_succ, edgesAllL, edgesAllT, nonneg, newEdge, numEdges, numEdgesL, h0, h1]
    exact List.Perm.swap _ _ _


/-! ### the three loop bodies keep the invariant -/

theorem drawsInRange_lt (g : GenKind) (n : Nat) (rooted : Bool) (ints : List Nat)
    (h : drawsInRange g n rooted ints = true) (j : Nat) (hj : j < g.nints n) :
    ints.getD j 0 < g.bound rooted j := by
  unfold drawsInRange at h
  rw [List.all_eq_true] at h
  simpa using h j (List.mem_range.mpr hj)

def PU (rooted : Bool) (i : Nat) (s : St) : Prop :=
  InvT rooted i s.t ∧ s.edges.length = numEdges s.t ∧ ∀ x ∈ s.edges, x < numEdges s.t

def PY (rooted : Bool) (i : Nat) (s : St) : Prop :=
  InvT rooted i s.t ∧ s.tips = tipNamesUpTo i

def PC (rooted : Bool) (i : Nat) (s : St) : Prop := InvT rooted i s.t

theorem shiftPos_le (k x : Nat) : shiftPos k x ≤ x + 2 := by
  unfold shiftPos; split <;> omega

theorem uniformStep_inv (n : Nat) (rooted : Bool) (ints : List Nat) (lens : List Rat)
    (hd : drawsInRange .uniform n rooted ints = true) (hl : lensNonneg lens = true)
    (i : Nat) (s : St) (h2 : 2 ≤ i) (hn : i < n) (hp : PU rooted i s) :
    ∃ s', uniformStep ints lens i s = .ok s' ∧ PU rooted (i + 1) s' := by
  obtain ⟨hI, hlen, hall⟩ := hp
  have hj := drawsInRange_lt .uniform n rooted ints hd (i - 2) (by simp [GenKind.nints]; omega)
  have hj2 : ints.getD (i - 2) 0 < s.edges.length := by
    rw [hlen, hI.ne]; simpa [GenKind.bound] using hj
  have hget : s.edges[ints.getD (i - 2) 0]? = some (s.edges[ints.getD (i - 2) 0]) := List.getElem?_eq_getElem hj2
  have hk : s.edges[ints.getD (i - 2) 0] < numEdges s.t := hall _ (List.getElem_mem hj2)
  obtain ⟨t', hg, hI', hne'⟩ := graftAt_inv rooted i s.t _ _ _ _ hI h2 hk
    (lenAt_nonneg lens hl s.li) (lenAt_nonneg lens hl (s.li + 1)) (lenAt_nonneg lens hl (s.li + 2))
  refine ⟨_, by simp only [uniformStep, hget, hg]; rfl, hI', ?_, ?_⟩
  · simp [hne', hlen]
  · intro x hx
    simp only [List.mem_append, List.mem_map, List.mem_cons, List.not_mem_nil, or_false] at hx
    rw [hne']
    rcases hx with ⟨y, hy, rfl⟩ | rfl | rfl
    · have := hall y hy; have := shiftPos_le (s.edges[ints.getD (i - 2) 0]) y; omega
    · omega
    · omega

theorem tipNamesUpTo_length (n : Nat) : (tipNamesUpTo n).length = n := by simp [tipNamesUpTo]

theorem yuleStep_inv (n : Nat) (rooted : Bool) (ints : List Nat) (lens : List Rat)
    (hd : drawsInRange .yule n rooted ints = true) (hl : lensNonneg lens = true)
    (i : Nat) (s : St) (h2 : 2 ≤ i) (hn : i < n) (hp : PY rooted i s) :
    ∃ s', yuleStep ints lens i s = .ok s' ∧ PY rooted (i + 1) s' := by
  obtain ⟨hI, htips⟩ := hp
  have hj := drawsInRange_lt .yule n rooted ints hd (i - 2) (by simp [GenKind.nints]; omega)
  have hj2 : ints.getD (i - 2) 0 < s.tips.length := by
    rw [htips, tipNamesUpTo_length]; simp only [GenKind.bound] at hj; omega
  have hget : s.tips[ints.getD (i - 2) 0]? = some (s.tips[ints.getD (i - 2) 0]) := List.getElem?_eq_getElem hj2
  have hmem : s.tips[ints.getD (i - 2) 0] ∈ s.t.tipNames := by
    have : s.tips[ints.getD (i - 2) 0] ∈ tipNamesUpTo i := htips ▸ List.getElem_mem hj2
    exact hI.tips.symm.subset this
  obtain ⟨k, hk, hlt⟩ := edgeOfTip_found s.t _ hmem
  obtain ⟨t', hg, hI', _⟩ := graftAt_inv rooted i s.t _ _ _ _ hI h2 hlt
    (lenAt_nonneg lens hl s.li) (lenAt_nonneg lens hl (s.li + 1)) (lenAt_nonneg lens hl (s.li + 2))
  refine ⟨_, by simp only [yuleStep, hget, hk, hg]; rfl, hI', ?_⟩
  simp [htips, tipNamesUpTo_succ]

theorem tipName_mem_upTo (i j : Nat) (h : j < i) : tipName j ∈ tipNamesUpTo i := by
  unfold tipNamesUpTo
  exact List.mem_map.mpr ⟨j, List.mem_range.mpr h, rfl⟩

theorem caterStep_inv (n : Nat) (rooted : Bool) (lens : List Rat) (hl : lensNonneg lens = true)
    (i : Nat) (s : St) (h2 : 2 ≤ i) (_ : i < n) (hp : PC rooted i s) :
    ∃ s', caterStep lens i s = .ok s' ∧ PC rooted (i + 1) s' := by
  have hI : InvT rooted i s.t := hp
  have hmem : tipName (i - 1) ∈ s.t.tipNames := hI.tips.symm.subset (tipName_mem_upTo i (i - 1) (by omega))
  obtain ⟨k, hk, hlt⟩ := edgeOfTip_found s.t _ hmem
  obtain ⟨t', hg, hI', _⟩ := graftAt_inv rooted i s.t _ _ _ _ hI h2 hlt
    (lenAt_nonneg lens hl s.li) (lenAt_nonneg lens hl (s.li + 1)) (lenAt_nonneg lens hl (s.li + 2))
  refine ⟨{ s with t := t', li := s.li + 3 }, by simp only [caterStep, hk, hg], ?_⟩
  exact hI'


/-! ### the tip index -/

theorem hasDup_false_of_nodup : ∀ (l : List String), l.Nodup → hasDup l = false
  | [], _ => rfl
  | a :: r, h => by
    rw [List.nodup_cons] at h
    simp [hasDup, h.1, hasDup_false_of_nodup r h.2]

theorem indexReady_of_perm (t : T) (n : Nat) (h : t.tipNames.Perm (tipNamesUpTo n)) :
    indexReady (finishOut t) = true := by
  have hn : t.tipNames.Nodup := h.nodup_iff.mpr (tipNamesUpTo_nodup n)
  simp [indexReady, finishOut, updateTipIndex, hasDup_false_of_nodup _ hn]

/-! ### the end of the insertion generators -/

/-- what `gen_ok` promises about a returned tree -/
def GoodOut (rooted : Bool) (n : Nat) (o : Out) : Prop :=
  o.t.binary = true ∧ o.t.tipNames.Perm (tipNamesUpTo n) ∧ o.t.rooted = rooted ∧ lensOk o.t = true ∧
    indexReady o = true

theorem finish_rooted (i : Nat) (t : T) (h : InvT true i t) :
    ∃ o, finishIns true t = .ok o ∧ GoodOut true i o := by
  refine ⟨finishOut t, rfl, ?_, h.tips, ?_, ?_, indexReady_of_perm t i h.tips⟩
  · have := h.deg; simp at this
    simp [T.binary, finishOut, this, h.bin]
  · have := h.deg; simp at this
    simp [T.rooted, finishOut, this]
  · rw [lensOk_eq]; exact h.lens

theorem finish_unrooted (i : Nat) (t : T) (hi : 3 ≤ i) (h : InvT false i t) :
    ∃ o, finishIns false t = .ok o ∧ GoodOut false i o := by
  obtain ⟨hbin, hdeg, htips, hlens, hne⟩ := h
  cases t with
  | node d p ks =>
    simp only [T.kids_node] at hbin hdeg hlens
    match ks, hdeg with
    | [(e, .node dc pc kc)], _ =>
      simp only [binaryL, T.binaryBelow, Bool.and_eq_true, Bool.or_eq_true, beq_iff_eq] at hbin
      simp only [numEdges, numEdgesL] at hne
      have hkc : kc.length = 2 := by
        rcases hbin.1.1 with h0 | h2
        · have : kc = [] := List.length_eq_zero_iff.mp h0
          subst this; simp [numEdgesL] at hne; omega
        · exact h2
      match kc, hkc with
      | [(ea, a), (eb, b)], _ =>
        simp only [binaryL, Bool.and_eq_true] at hbin
        simp only [edgesAllL, edgesAllT, Bool.and_eq_true] at hlens
        simp only [T.tipNames, T.kids_node, List.length_cons, List.length_nil, T.name, T.d_node,
          leavesL, leaves_node_cons] at htips
        have hfd : firstDeg3 0 (.node d p [(e, .node dc pc [(ea, a), (eb, b)])]) = some [0] := by
          simp [firstDeg3, firstDeg3L]
        have hidx : ∀ (K : Kids), K.length = 3 → (K.length == 1) = false := by
          intro K hK; simp [hK]
        match pc with
        | 0 =>
          refine ⟨finishOut (.node dc 0 [(e, .node d 0 []), (ea, a), (eb, b)]), ?_, ?_⟩
          · simp [finishIns, rerootFirst, hfd, rerootPath, rerootGo, moveRoot]
          · have hp : (T.node dc 0 [(e, .node d 0 []), (ea, a), (eb, b)]).tipNames.Perm (tipNamesUpTo i) := by
              simp only [T.tipNames, T.kids_node, leavesL, T.leaves]
              simpa using htips
            refine ⟨?_, hp, ?_, ?_, indexReady_of_perm _ i hp⟩
            · simp [finishOut, T.binary, binaryL, T.binaryBelow, hbin.1.2.1, hbin.1.2.2.1]
            · simp [finishOut, T.rooted]
            · rw [lensOk_eq]; simp [finishOut, edgesAllL, edgesAllT, hlens.1.1, hlens.1.2.1.1, hlens.1.2.1.2, hlens.1.2.2.1.1, hlens.1.2.2.1.2]
        | 1 =>
          refine ⟨finishOut (.node dc 0 [(ea, a), (e, .node d 0 []), (eb, b)]), ?_, ?_⟩
          · simp [finishIns, rerootFirst, hfd, rerootPath, rerootGo, moveRoot]
          · have hp : (T.node dc 0 [(ea, a), (e, .node d 0 []), (eb, b)]).tipNames.Perm (tipNamesUpTo i) := by
              simp only [T.tipNames, T.kids_node, leavesL, T.leaves]
              refine List.Perm.trans ?_ htips
              simp
            refine ⟨?_, hp, ?_, ?_, indexReady_of_perm _ i hp⟩
            · simp [finishOut, T.binary, binaryL, T.binaryBelow, hbin.1.2.1, hbin.1.2.2.1]
            · simp [finishOut, T.rooted]
            · rw [lensOk_eq]; simp [finishOut, edgesAllL, edgesAllT, hlens.1.1, hlens.1.2.1.1, hlens.1.2.1.2, hlens.1.2.2.1.1, hlens.1.2.2.1.2]
        | pc + 2 =>
          refine ⟨finishOut (.node dc 0 [(ea, a), (eb, b), (e, .node d 0 [])]), ?_, ?_⟩
          · simp [finishIns, rerootFirst, hfd, rerootPath, rerootGo, moveRoot]
          · have hp : (T.node dc 0 [(ea, a), (eb, b), (e, .node d 0 [])]).tipNames.Perm (tipNamesUpTo i) := by
              simp only [T.tipNames, T.kids_node, leavesL, T.leaves]
              refine List.Perm.trans ?_ htips
              simp
              rw [← List.append_assoc]
              exact (List.perm_append_singleton _ _)
            refine ⟨?_, hp, ?_, ?_, indexReady_of_perm _ i hp⟩
            · simp [finishOut, T.binary, binaryL, T.binaryBelow, hbin.1.2.1, hbin.1.2.2.1]
            · simp [finishOut, T.rooted]
            · rw [lensOk_eq]; simp [finishOut, edgesAllL, edgesAllT, hlens.1.1, hlens.1.2.1.1, hlens.1.2.1.2, hlens.1.2.2.1.1, hlens.1.2.2.1.2]


/-! ### the insertion generators as a whole -/

theorem initSt_t (rooted : Bool) (lens : List Rat) : (initSt rooted lens).t = (initTree rooted lens).1 := by
  simp [initSt]

theorem initSt_edges (rooted : Bool) (lens : List Rat) :
    (initSt rooted lens).edges = List.range (numEdges (initTree rooted lens).1) := by
  simp [initSt]

theorem initSt_tips (rooted : Bool) (lens : List Rat) : (initSt rooted lens).tips = tipNamesUpTo 2 := by
  simp [initSt, tipNamesUpTo, List.range_succ]

theorem insertionGenDoc2_ok (step : Nat → St → Res St) (P : Nat → St → Prop) (n : Nat) (rooted : Bool)
    (lens : List Rat) (h3 : 3 ≤ n)
    (hP0 : P 2 (initSt rooted lens)) (hPI : ∀ i s, P i s → InvT rooted i s.t)
    (hstep : ∀ i s, 2 ≤ i → i < n → P i s → ∃ s', step i s = .ok s' ∧ P (i + 1) s') :
    ∃ o, insertionGenDoc2 step (n : Int) rooted lens = .ok o ∧ GoodOut rooted n o := by
  obtain ⟨s, hs, hp⟩ := iter_inv step P n hstep (n - 2) 2 (initSt rooted lens) (by omega) (by omega) hP0
  have hn : 2 + (n - 2) = n := by omega
  rw [hn] at hp
  have hI := hPI n s hp
  have h1 : ¬ ((n : Int) < 2) := by omega
  have h2 : ¬ ((n : Int) < 3) := by omega
  have h4 : (n : Int).toNat - 2 = n - 2 := by simp
  unfold insertionGenDoc2
  simp only [h1, h2, if_false, decide_false, Bool.false_and, h4, hs]
  cases rooted
  · exact finish_unrooted n s.t h3 hI
  · exact finish_rooted n s.t hI

theorem insertionGen_ok (step : Nat → St → Res St) (P : Nat → St → Prop) (n : Nat) (rooted : Bool)
    (lens : List Rat) (h3 : 3 ≤ n)
    (hP0 : P 2 (initSt rooted lens)) (hPI : ∀ i s, P i s → InvT rooted i s.t)
    (hstep : ∀ i s, 2 ≤ i → i < n → P i s → ∃ s', step i s = .ok s' ∧ P (i + 1) s') :
    ∃ o, insertionGen step (n : Int) rooted lens = .ok o ∧ GoodOut rooted n o := by
  have h : ¬ ((n : Int) < 3) := by omega
  unfold insertionGen
  rw [if_neg h]
  exact insertionGenDoc2_ok step P n rooted lens h3 hP0 hPI hstep

theorem uniform_ok (n : Nat) (rooted : Bool) (ints : List Nat) (lens : List Rat) (h3 : 3 ≤ n)
    (hd : drawsInRange .uniform n rooted ints = true) (hl : lensNonneg lens = true) :
    ∃ o, uniform (n : Int) rooted ints lens = .ok o ∧ GoodOut rooted n o := by
  unfold uniform
  refine insertionGen_ok _ (PU rooted) n rooted lens h3 ?_ (fun i s h => h.1) (uniformStep_inv n rooted ints lens hd hl)
  refine ⟨?_, ?_, ?_⟩
  · rw [initSt_t]; exact initTree_inv rooted lens hl
  · rw [initSt_t, initSt_edges]; simp
  · rw [initSt_t, initSt_edges]; intro x hx; exact List.mem_range.mp hx

theorem yule_ok (n : Nat) (rooted : Bool) (ints : List Nat) (lens : List Rat) (h3 : 3 ≤ n)
    (hd : drawsInRange .yule n rooted ints = true) (hl : lensNonneg lens = true) :
    ∃ o, yule (n : Int) rooted ints lens = .ok o ∧ GoodOut rooted n o := by
  unfold yule
  refine insertionGen_ok _ (PY rooted) n rooted lens h3 ?_ (fun i s h => h.1) (yuleStep_inv n rooted ints lens hd hl)
  exact ⟨by rw [initSt_t]; exact initTree_inv rooted lens hl, initSt_tips rooted lens⟩

theorem caterpillar_ok (n : Nat) (rooted : Bool) (lens : List Rat) (h3 : 3 ≤ n) (hl : lensNonneg lens = true) :
    ∃ o, caterpillar (n : Int) rooted lens = .ok o ∧ GoodOut rooted n o := by
  unfold caterpillar
  refine insertionGen_ok _ (PC rooted) n rooted lens h3 ?_ (fun i s h => h) (caterStep_inv n rooted lens hl)
  show InvT rooted 2 (initSt rooted lens).t
  rw [initSt_t]; exact initTree_inv rooted lens hl


/-! ### the balanced generator -/

/-- what the two children built by `randomBalancedBinaryTreeRecur` look like -/
structure BalOK (f id : Nat) (ks : Kids) : Prop where
  bin : binaryL ks = true
  len : ks.length = 2
  leaves : leavesL ks = (List.range' id (2 ^ (f + 1))).map tipName
  lens : edgesAllL nonneg ks = true
  perfect : ∀ x ∈ ks, perfectH x.2 = some f

theorem perfectH_node_two (d : NodeD) (p : Nat) (ea eb : EdgeD) (a b : T) (f : Nat)
    (ha : perfectH a = some f) (hb : perfectH b = some f) :
    perfectH (.node d p [(ea, a), (eb, b)]) = some (f + 1) := by
  simp [perfectH, ha, hb]

theorem balKids_ok (lens : List Rat) (hl : lensNonneg lens = true) :
    ∀ (f id li : Nat), BalOK f id (balKids lens f id li).1 ∧ (balKids lens f id li).2.1 = id + 2 ^ (f + 1)
  | 0, id, li => by
    have h0 := lenAt_nonneg lens hl li
    have h1 := lenAt_nonneg lens hl (li + 1)
    refine ⟨⟨?_, ?_, ?_, ?_, ?_⟩, ?_⟩ <;>
      simp [balKids, binaryL, T.binaryBelow, T.leaf, leavesL, T.leaves, edgesAllL, edgesAllT, nonneg, newEdge,
        h0, h1, perfectH, List.range'_succ]
  | f + 1, id, li => by
    obtain ⟨h1, e1⟩ := balKids_ok lens hl f id (li + 2)
    obtain ⟨h2, e2⟩ := balKids_ok lens hl f (balKids lens f id (li + 2)).2.1 (balKids lens f id (li + 2)).2.2
    have hl0 := lenAt_nonneg lens hl li
    have hl1 := lenAt_nonneg lens hl (li + 1)
    generalize hr1 : balKids lens f id (li + 2) = r1 at *
    generalize hr2 : balKids lens f r1.2.1 r1.2.2 = r2 at *
    have hb : balKids lens (f + 1) id li =
        ([(newEdge (lenAt lens li), .node newNodeD 0 r1.1), (newEdge (lenAt lens (li + 1)), .node newNodeD 0 r2.1)],
          r2.2.1, r2.2.2) := by
      simp [balKids, hr1, hr2]
    rw [hb]
    have p1 : 0 < r1.1.length := by rw [h1.len]; omega
    have p2 : 0 < r2.1.length := by rw [h2.len]; omega
    refine ⟨⟨?_, rfl, ?_, ?_, ?_⟩, ?_⟩
    · simp [binaryL, T.binaryBelow, h1.len, h2.len, h1.bin, h2.bin]
    · simp only [leavesL, List.append_nil]
      rw [leaves_node_of_pos _ _ _ p1, leaves_node_of_pos _ _ _ p2, h1.leaves, h2.leaves, e1, ← List.map_append,
        List.range'_append_1]
      congr 2
      rw [Nat.pow_succ 2 (f + 1)]; omega
    · simp [edgesAllL, edgesAllT, nonneg, newEdge, hl0, hl1, h1.lens, h2.lens]
    · intro x hx
      have hp1 : perfectH (.node newNodeD 0 r1.1) = some (f + 1) := by
        match hk : r1.1, h1.len, h1.perfect with
        | [(ea, a), (eb, b)], _, hpf =>
          exact perfectH_node_two _ _ _ _ _ _ _ (hpf (ea, a) (by simp)) (hpf (eb, b) (by simp))
      have hp2 : perfectH (.node newNodeD 0 r2.1) = some (f + 1) := by
        match hk : r2.1, h2.len, h2.perfect with
        | [(ea, a), (eb, b)], _, hpf =>
          exact perfectH_node_two _ _ _ _ _ _ _ (hpf (ea, a) (by simp)) (hpf (eb, b) (by simp))
      simp only [List.mem_cons, List.not_mem_nil, or_false] at hx
      rcases hx with rfl | rfl
      · exact hp1
      · exact hp2
    · show r2.2.1 = id + 2 ^ (f + 1 + 1)
      rw [e2, e1, Nat.pow_succ 2 (f + 1)]; omega


theorem balKids_succ (lens : List Rat) (f id li : Nat) :
    balKids lens (f + 1) id li =
      ([(newEdge (lenAt lens li), .node newNodeD 0 (balKids lens f id (li + 2)).1),
        (newEdge (lenAt lens (li + 1)), .node newNodeD 0
          (balKids lens f (balKids lens f id (li + 2)).2.1 (balKids lens f id (li + 2)).2.2).1)],
       (balKids lens f (balKids lens f id (li + 2)).2.1 (balKids lens f id (li + 2)).2.2).2.1,
       (balKids lens f (balKids lens f id (li + 2)).2.1 (balKids lens f id (li + 2)).2.2).2.2) := by
  simp [balKids]

theorem sortNat_sorted (l : List Nat) (h : l.Pairwise (· ≤ ·)) : sortNat l = l := by
  unfold sortNat
  apply List.mergeSort_of_pairwise
  exact h.imp (by intro a b hab; simpa using hab)

theorem tipNamesUpTo_eq_range' (n : Nat) : tipNamesUpTo n = (List.range' 0 n).map tipName := by
  simp [tipNamesUpTo, List.range_eq_range']

theorem nonneg_ne_NIL (x : Rat) (h : 0 ≤ x) : (x != NIL) = true := by
  simp only [bne_iff_ne, ne_eq, NIL]
  intro hx; rw [hx] at h; exact absurd h (by decide)

theorem balanced_rooted_ok (d : Nat) (lens : List Rat) (hd : 1 ≤ d) (hl : lensNonneg lens = true) :
    ∃ o, balanced (d : Int) true lens = .ok o ∧ GoodOut true (2 ^ d) o ∧ balancedShape true d o.t = true := by
  have h1 : ¬ ((d : Int) < 1) := by omega
  obtain ⟨hb, _⟩ := balKids_ok lens hl (d - 1) 0 0
  have hd1 : d - 1 + 1 = d := by omega
  have ht : (d : Int).toNat - 1 = d - 1 := by simp
  refine ⟨finishOut (.node newNodeD 0 (balKids lens (d - 1) 0 0).1), ?_, ?_, ?_⟩
  · simp [balanced, h1]
  · have hp : (T.node newNodeD 0 (balKids lens (d - 1) 0 0).1).tipNames.Perm (tipNamesUpTo (2 ^ d)) := by
      simp only [T.tipNames, T.kids_node, hb.len]
      rw [tipNamesUpTo_eq_range', hb.leaves, hd1]
      simp
    refine ⟨?_, hp, ?_, ?_, indexReady_of_perm _ _ hp⟩
    · simp [finishOut, T.binary, hb.len, hb.bin]
    · simp [finishOut, T.rooted, hb.len]
    · rw [lensOk_eq]; exact hb.lens
  · match hk : (balKids lens (d - 1) 0 0).1, hb.len, hb.perfect with
    | [(ea, a), (eb, b)], _, hpf =>
      have ha := hpf (ea, a) (by simp)
      have hb' := hpf (eb, b) (by simp)
      simp only at ha hb'
      have hs : sortNat [d - 1, d - 1] = [d - 1, d - 1] :=
        sortNat_sorted _ (List.pairwise_cons.mpr ⟨fun x hx => by simp at hx; omega, List.pairwise_singleton _ _⟩)
      simp [balancedShape, finishOut, ha, hb', hs]


theorem max0_of_nonneg (x : Rat) (h : 0 ≤ x) : max0 x = x := by simp [max0, h]

theorem balanced_unrooted_ok (d : Nat) (lens : List Rat) (hd : 2 ≤ d) (hl : lensNonneg lens = true) :
    ∃ o, balanced (d : Int) false lens = .ok o ∧ GoodOut false (2 ^ d) o ∧ balancedShape false d o.t = true := by
  have h1 : ¬ ((d : Int) < 1) := by omega
  have h2 : ¬ ((d : Int) < 2) := by omega
  obtain ⟨f, rfl⟩ : ∃ f, d = f + 2 := ⟨d - 2, by omega⟩
  have ht : ((f + 2 : Nat) : Int).toNat - 1 = f + 1 := by omega
  obtain ⟨hb, _⟩ := balKids_ok lens hl (f + 1) 0 0
  obtain ⟨hb1, e1⟩ := balKids_ok lens hl f 0 (0 + 2)
  obtain ⟨hb2, _⟩ := balKids_ok lens hl f (balKids lens f 0 (0 + 2)).2.1 (balKids lens f 0 (0 + 2)).2.2
  have hl0 := lenAt_nonneg lens hl 0
  have hl1 := lenAt_nonneg lens hl (0 + 1)
  have hleaves := hb.leaves
  have hlensK := hb.lens
  rw [balKids_succ] at hleaves hlensK
  generalize hr1 : balKids lens f 0 (0 + 2) = r1 at *
  generalize hr2 : balKids lens f r1.2.1 r1.2.2 = r2 at *
  match hk1 : r1.1, hb1.len, hb1.perfect, hb1.bin with
  | [(ea, a), (eb, b)], _, hpf1, hbin1 =>
  match hk2 : r2.1, hb2.len, hb2.perfect, hb2.bin with
  | [(ec, c), (ed, dd)], _, hpf2, hbin2 =>
    have hpa := hpf1 (ea, a) (by simp)
    have hpb := hpf1 (eb, b) (by simp)
    have hpc := hpf2 (ec, c) (by simp)
    have hpd := hpf2 (ed, dd) (by simp)
    simp only at hpa hpb hpc hpd
    simp only [hk1, hk2, leavesL, leaves_node_cons, List.append_nil] at hleaves
    simp only [hk1, hk2, edgesAllL, edgesAllT, Bool.and_eq_true, Bool.and_true] at hlensK
    simp only [binaryL, Bool.and_eq_true, Bool.and_true] at hbin1 hbin2
    let e3 : EdgeD := { EdgeD.blank with len := lenAt lens 0 + lenAt lens (0 + 1), sup := NIL }
    refine ⟨finishOut (.node newNodeD 0 [(ea, a), (eb, b), (e3, .node newNodeD 2 [(ec, c), (ed, dd)])]), ?_, ?_, ?_⟩
    · simp only [balanced, h1, h2, if_false, ht, decide_false, Bool.false_and, Bool.false_eq_true]
      rw [balKids_succ, hr1, hr2, hk1, hk2]
      have hne : ¬ lenAt lens 0 = -1 := by intro hx; rw [hx] at hl0; exact absurd hl0 (by decide)
      simp [unroot, T.isLeaf, newEdge, hne, max0_of_nonneg _ hl0, max0_of_nonneg _ hl1, EdgeD.blank, e3, NIL]
    · have hp : (T.node newNodeD 0 [(ea, a), (eb, b), (e3, .node newNodeD 2 [(ec, c), (ed, dd)])]).tipNames.Perm
          (tipNamesUpTo (2 ^ (f + 2))) := by
        simp only [T.tipNames, T.kids_node, leavesL, leaves_node_cons, List.append_nil]
        rw [tipNamesUpTo_eq_range', ← hleaves]
        simp
      refine ⟨?_, hp, ?_, ?_, indexReady_of_perm _ _ hp⟩
      · simp [finishOut, T.binary, binaryL, T.binaryBelow, hbin1.1, hbin1.2, hbin2.1, hbin2.2]
      · simp [finishOut, T.rooted]
      · rw [lensOk_eq]
        have : 0 ≤ lenAt lens 0 + lenAt lens (0 + 1) := Rat.add_nonneg hl0 hl1
        have he3 : nonneg e3 = true := by simp [nonneg, e3, this]
        obtain ⟨⟨_, ⟨h_ea, h_a⟩, h_eb, h_b⟩, _, ⟨h_ec, h_c⟩, h_ed, h_d⟩ := hlensK
        simp [finishOut, edgesAllL, edgesAllT, h_ea, h_a, h_eb, h_b, h_ec, h_c, h_ed, h_d, he3]
    · have hpn : perfectH (.node newNodeD 2 [(ec, c), (ed, dd)]) = some (f + 1) :=
        perfectH_node_two _ _ _ _ _ _ _ hpc hpd
      have hs : sortNat [f, f, f + 1] = [f, f, f + 1] :=
        sortNat_sorted _ (by simp)
      simp [balancedShape, finishOut, hpa, hpb, hpn, hs]


/-! ### the star -/

theorem leavesL_map_leaf (e : Nat → EdgeD) (g : Nat → String) : ∀ (l : List Nat),
    leavesL (l.map fun i => (e i, T.leaf (g i))) = l.map g
  | [] => rfl
  | a :: r => by
    have ih := leavesL_map_leaf e g r
    simp only [List.map_cons, leavesL, T.leaf, T.leaves] at ih ⊢
    rw [ih]; simp

theorem edgesAllL_map_leaf (p : EdgeD → Bool) (e : Nat → EdgeD) (g : Nat → String) (h : ∀ i, p (e i) = true) :
    ∀ (l : List Nat), edgesAllL p (l.map fun i => (e i, T.leaf (g i))) = true
  | [] => rfl
  | a :: r => by
    have ih := edgesAllL_map_leaf p e g h r
    simp only [List.map_cons, edgesAllL, edgesAllT, T.leaf] at ih ⊢
    rw [ih]; simp [h a]

theorem star_ok (n : Nat) (h2 : 2 ≤ n) :
    ∃ o, star (n : Int) = .ok o ∧ o.t.tipNames.Perm (tipNamesUpTo n) ∧ lensOk o.t = true ∧
      indexReady o = true ∧ starShape n o.t = true := by
  have h1 : ¬ ((n : Int) < 2) := by omega
  refine ⟨_, by simp only [star, h1, if_false]; rfl, ?_⟩
  have hlen : ((List.range ((n : Int).toNat)).map fun i => (newEdge 1, T.leaf (tipName i))).length = n := by simp
  have hp : (finishOut (.node newNodeD 0 ((List.range ((n : Int).toNat)).map fun i => (newEdge 1, T.leaf (tipName i))))).t.tipNames.Perm
      (tipNamesUpTo n) := by
    have hn1 : (n == 1) = false := by simp; omega
    simp only [finishOut, T.tipNames, T.kids_node, hlen, hn1]
    rw [leavesL_map_leaf (fun _ => newEdge 1) tipName]
    simp [tipNamesUpTo]
  refine ⟨hp, ?_, indexReady_of_perm _ n hp, ?_⟩
  · rw [lensOk_eq]
    exact edgesAllL_map_leaf nonneg (fun _ => newEdge 1) tipName (by intro i; simp only [nonneg, newEdge]; decide) _
  · simp [starShape, finishOut, T.isLeaf, T.leaf]

/-! ### rejection -/

theorem insertionGen_rejects (step : Nat → St → Res St) (n : Int) (rooted : Bool) (lens : List Rat) (h : n < 3) :
    (insertionGen step n rooted lens).isErr = true := by
  simp [insertionGen, h, Res.isErr]

/-- the frame before f417e91 rejected the same sizes (n = 2 unrooted through `RerootFirst`) -/
theorem insertionGenDoc2_rejects (step : Nat → St → Res St) (n : Int) (rooted : Bool) (lens : List Rat) (h : n < 3) :
    (insertionGenDoc2 step n rooted lens).isErr = true := by
  by_cases h2 : n < 2
  · simp [insertionGenDoc2, h2, Res.isErr]
  · have : n = 2 := by omega
    subst this
    cases rooted
    · simp [insertionGenDoc2, iter, initSt, initTree, finishIns, rerootFirst, firstDeg3, firstDeg3L, T.leaf, Res.isErr]
    · simp [insertionGenDoc2, Res.isErr]

/-! ### counting the enumeration -/

def cnt : Nat → Nat → Nat
  | 0, _ => 1
  | f + 1, m => m * cnt f (m + 2)

theorem sum_map_const {α : Type} (g : α → Nat) (c : Nat) : ∀ (l : List α), (∀ x ∈ l, g x = c) → (l.map g).sum = l.length * c
  | [], _ => by simp
  | a :: r, h => by
    have h1 := h a (by simp)
    have h2 := sum_map_const g c r (fun x hx => h x (by simp [hx]))
    simp [h1, h2, Nat.add_mul]; omega

/-- the backtracking without the final copy: the trees on which `Clone` (and the removal of the
    start node) are called, in order -/
def allTopoRaw (nm : Nat → String) : Nat → T → Nat → List T
  | 0, t, _ => [t]
  | f + 1, t, total =>
    (List.range (numEdges t)).flatMap fun k =>
      allTopoRaw nm f (applyAt (graftLen (nm total) NIL NIL NIL) k t) (total + 1)

theorem allTopoRec_eq_map (nm : Nat → String) : ∀ (f : Nat) (t : T) (total : Nat),
    allTopoRec nm f t total = (allTopoRaw nm f t total).map (fun v => dropStem (clone v))
  | 0, t, total => by simp [allTopoRec, allTopoRaw]
  | f + 1, t, total => by
    simp only [allTopoRec, allTopoRaw, List.map_flatMap]
    congr 1
    funext k
    exact allTopoRec_eq_map nm f _ (total + 1)

theorem allTopoRaw_length (nm : Nat → String) : ∀ (f : Nat) (t : T) (total : Nat),
    (allTopoRaw nm f t total).length = cnt f (numEdges t)
  | 0, t, total => by simp [allTopoRaw, cnt]
  | f + 1, t, total => by
    simp only [allTopoRaw, cnt, List.length_flatMap]
    rw [sum_map_const _ (cnt f (numEdges t + 2))]
    · simp
    · intro k hk
      rw [allTopoRaw_length nm f _ (total + 1),
        numEdges_applyAt _ 2 (graftLen_numEdges (nm total) NIL NIL NIL) t k (List.mem_range.mp hk)]

theorem allTopoRec_length (nm : Nat → String) (f : Nat) (t : T) (total : Nat) :
    (allTopoRec nm f t total).length = cnt f (numEdges t) := by
  rw [allTopoRec_eq_map, List.length_map, allTopoRaw_length]

theorem dfact_succ_succ (n : Nat) : dfact (n + 2) = (n + 2) * dfact n := by simp [dfact]

theorem cnt_dfact : ∀ (f m : Nat), cnt f (m + 2) * dfact m = dfact (m + 2 * f)
  | 0, m => by simp [cnt]
  | f + 1, m => by
    have ih := cnt_dfact f (m + 2)
    rw [dfact_succ_succ] at ih
    have e : m + 2 * (f + 1) = m + 2 + 2 * f := by omega
    rw [e, ← ih]
    simp only [cnt]
    rw [Nat.mul_assoc, Nat.mul_left_comm]


/-! ### ExistsTip on a ready index -/

theorem mem_insertSorted (a x : String) : ∀ (l : List String), x ∈ insertSorted a l ↔ x = a ∨ x ∈ l
  | [] => by simp [insertSorted]
  | b :: r => by
    unfold insertSorted
    split
    · simp
    · simp only [List.mem_cons, mem_insertSorted a x r]
      constructor
      · rintro (h | h | h) <;> simp [h]
      · rintro (h | h | h) <;> simp [h]

theorem mem_sortNames (x : String) : ∀ (l : List String), x ∈ sortNames l ↔ x ∈ l
  | [] => by simp [sortNames]
  | a :: r => by
    have ih := mem_sortNames x r
    unfold sortNames at ih ⊢
    simp only [List.foldr_cons, mem_insertSorted, ih, List.mem_cons]

theorem sortNames_length : ∀ (l : List String), (sortNames l).length = l.length
  | [] => rfl
  | a :: r => by
    have ih := sortNames_length r
    unfold sortNames at ih ⊢
    simp only [List.foldr_cons, List.length_cons]
    rw [← ih]
    generalize List.foldr insertSorted [] r = m
    induction m with
    | nil => simp [insertSorted]
    | cons b m' ihm =>
      unfold insertSorted; split
      · simp
      · simp [ihm]

theorem ntips_pos (g : GenKind) (n : Nat) (rooted : Bool) (h : g.min rooted ≤ n) : 0 < g.ntips n := by
  cases g <;> simp [GenKind.ntips, GenKind.min] at * <;> try omega
  exact Nat.pow_pos (by decide)

theorem existsTip_of_ready (o : Out) (m : Nat) (hp : o.t.tipNames.Perm (tipNamesUpTo m))
    (hix : indexReady o = true) (hm : 0 < m) (name : String) :
    o.existsTip name = some (decide (name ∈ tipNamesUpTo m)) := by
  unfold indexReady at hix
  have hi : o.index = some (sortNames o.t.tipNames) := by simpa using hix
  unfold Out.existsTip
  rw [hi]
  have hlen : (sortNames o.t.tipNames).length = m := by
    rw [sortNames_length, hp.length_eq, tipNamesUpTo_length]
  match hs : sortNames o.t.tipNames with
  | [] => rw [hs] at hlen; simp at hlen; omega
  | a :: r =>
    simp only
    congr 1
    have : (name ∈ a :: r) ↔ name ∈ tipNamesUpTo m := by
      rw [← hs, mem_sortNames]; exact hp.mem_iff
    simp only [List.contains_eq_mem, this]

end Gotree.C16
