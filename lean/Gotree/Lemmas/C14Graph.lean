/-
  C14 round 2 — the pointer graph `G.ofT t` of Model/C14Go.lean, laid out in pre-order, and
  the first walk on it: `Tips()` / `tipsRecur` lists exactly the tips of the rose tree, in
  the order of `T.tipNames` (the root first when it is a tip).
  Core Lean only.
-/
import Gotree.Lemmas.C14Avg

namespace Gotree.C14
open Gotree Gotree.C14.Go

/-! ## layout -/

/-- the list `l` sits in the array from position `n` on -/
def Sub {α : Type} (A : Array α) (n : Nat) (l : List α) : Prop :=
  ∃ pre post, A.toList = pre ++ l ++ post ∧ pre.length = n

theorem Sub.head {α : Type} {A : Array α} {n : Nat} {x : α} {l : List α} (h : Sub A n (x :: l)) : A[n]? = some x := by
  obtain ⟨pre, post, e, hn⟩ := h
  rw [← Array.getElem?_toList, e, ← hn]
  simp

theorem Sub.tail {α : Type} {A : Array α} {n : Nat} {x : α} {l : List α} (h : Sub A n (x :: l)) : Sub A (n + 1) l := by
  obtain ⟨pre, post, e, hn⟩ := h
  exact ⟨pre ++ [x], post, by simp [e], by simp [hn]⟩

theorem Sub.left {α : Type} {A : Array α} {n : Nat} {l₁ l₂ : List α} (h : Sub A n (l₁ ++ l₂)) : Sub A n l₁ := by
  obtain ⟨pre, post, e, hn⟩ := h
  exact ⟨pre, l₂ ++ post, by simp [e], hn⟩

theorem Sub.right {α : Type} {A : Array α} {n : Nat} {l₁ l₂ : List α} (h : Sub A n (l₁ ++ l₂)) :
    Sub A (n + l₁.length) l₂ := by
  obtain ⟨pre, post, e, hn⟩ := h
  exact ⟨pre ++ l₁, post, by simp [e], by simp [hn]⟩

theorem Sub.whole {α : Type} (l : List α) : Sub l.toArray 0 l := ⟨[], [], by simp, rfl⟩

theorem flatT_node (par : Option Nat) (n : Nat) (d : NodeD) (pp : Nat) (k : Kids) :
    flatT par n (.node d pp k) =
      ⟨d.name, match par with
        | none => (kidIdx (n + 1) k).map fun c => (c, c - 1)
        | some p => insAt ((kidIdx (n + 1) k).map fun c => (c, c - 1)) pp (p, n - 1)⟩ :: flatL n (n + 1) k := by
  cases par <;> simp only [flatT]

theorem flatL_nil (p n : Nat) : flatL p n [] = [] := by simp only [flatL]

theorem flatL_cons (p n : Nat) (e : EdgeD) (t : T) (r : Kids) :
    flatL p n ((e, t) :: r) = flatT (some p) n t ++ flatL p (n + t.size) r := by simp only [flatL]

theorem sizeL_cons (e : EdgeD) (t : T) (r : Kids) : T.sizeL ((e, t) :: r) = t.size + T.sizeL r := by simp only [T.sizeL]
theorem size_node (d : NodeD) (p : Nat) (k : Kids) : (T.node d p k).size = 1 + T.sizeL k := by simp only [T.size]

mutual
theorem flatT_length (par : Option Nat) (n : Nat) : ∀ (t : T), (flatT par n t).length = t.size
  | .node d pp k => by
    rw [flatT_node, size_node, List.length_cons, flatL_length n (n + 1) k]; omega
theorem flatL_length (p n : Nat) : ∀ (k : Kids), (flatL p n k).length = T.sizeL k
  | [] => by rw [flatL_nil]; rfl
  | (e, t) :: r => by
    rw [flatL_cons, sizeL_cons, List.length_append, flatT_length (some p) n t, flatL_length p (n + t.size) r]
end

theorem kidIdx_length : ∀ (n : Nat) (k : Kids), (kidIdx n k).length = k.length
  | _, [] => rfl
  | n, (_, t) :: r => by simp [kidIdx, kidIdx_length (n + t.size) r]

theorem kidIdx_gt : ∀ (n : Nat) (k : Kids), ∀ c ∈ kidIdx n k, n ≤ c
  | _, [], _, h => by simp [kidIdx] at h
  | n, (_, t) :: r, c, h => by
    simp only [kidIdx, List.mem_cons] at h
    rcases h with rfl | h
    · exact Nat.le_refl _
    · have := kidIdx_gt (n + t.size) r c h; omega

/-! ## `tipsRecur` -/

/- pre-order index of every leaf of a subtree whose top node has index `n` -/
mutual
def leafIdxT (n : Nat) : T → List Nat
  | .node _ _ [] => [n]
  | .node _ _ (k :: ks) => leafIdxL (n + 1) (k :: ks)
def leafIdxL : Nat → Kids → List Nat
  | _, [] => []
  | n, (_, t) :: r => leafIdxT n t ++ leafIdxL (n + t.size) r
end

theorem flatMap_insAt {α β : Type} (f : α → List β) (l : List α) (i : Nat) (x : α) (hx : f x = []) :
    (insAt l i x).flatMap f = l.flatMap f := by
  unfold insAt
  rw [List.flatMap_append, List.flatMap_cons, hx, List.nil_append, ← List.flatMap_append, List.take_append_drop]

theorem flatMap_congr' {α β : Type} {f g : α → List β} : ∀ {l : List α}, (∀ x ∈ l, f x = g x) → l.flatMap f = l.flatMap g
  | [], _ => rfl
  | x :: l, h => by
    rw [List.flatMap_cons, List.flatMap_cons, h x (by simp), flatMap_congr' (fun y hy => h y (by simp [hy]))]

mutual
theorem tipsRecur_sub (g : G) : ∀ (t : T) (fuel n p : Nat), t.size ≤ fuel → p < n →
    Sub g.nodes n (flatT (some p) n t) → tipsRecur g fuel n (some p) = leafIdxT n t
  | .node d pp k, fuel, n, p, hf, hp, hs => by
    rw [size_node] at hf
    cases fuel with
    | zero => omega
    | succ fuel =>
      rw [flatT_node] at hs
      rw [tipsRecur, hs.head]
      simp only
      let F : Nat × Nat → List Nat := fun cb => if (some cb.1 != some p) = true then tipsRecur g fuel cb.1 (some n) else []
      have hskip : F (p, n - 1) = [] := by simp [F]
      have h1 := flatMap_insAt F ((kidIdx (n + 1) k).map fun c => (c, c - 1)) pp (p, n - 1) hskip
      have hkids : ((kidIdx (n + 1) k).map fun c => (c, c - 1)).flatMap F
          = (kidIdx (n + 1) k).flatMap (fun c => tipsRecur g fuel c (some n)) := by
        rw [List.flatMap_map]
        apply flatMap_congr'
        intro c hc
        have := kidIdx_gt (n + 1) k c hc
        have hne : c ≠ p := by omega
        simp [F, hne]
      show (if _ then _ else _) ++ List.flatMap F _ = _
      rw [h1, hkids, tipsRecurL_sub g k fuel (n + 1) n (by omega) (by omega) hs.tail]
      have hlen : (insAt ((kidIdx (n + 1) k).map fun c => (c, c - 1)) pp (p, n - 1)).length = k.length + 1 := by
        simp [insAt, kidIdx_length]; omega
      cases k with
      | nil => simp [hlen, leafIdxT, leafIdxL]
      | cons x k => simp [hlen, leafIdxT]
theorem tipsRecurL_sub (g : G) : ∀ (k : Kids) (fuel n p : Nat), T.sizeL k ≤ fuel → p < n →
    Sub g.nodes n (flatL p n k) →
    (kidIdx n k).flatMap (fun c => tipsRecur g fuel c (some p)) = leafIdxL n k
  | [], _, _, _, _, _, _ => by simp [kidIdx, leafIdxL]
  | (e, t) :: r, fuel, n, p, hf, hp, hs => by
    rw [sizeL_cons] at hf
    rw [flatL_cons] at hs
    have h2 := hs.right
    rw [flatT_length] at h2
    simp only [kidIdx, List.flatMap_cons, leafIdxL]
    rw [tipsRecur_sub g t fuel n p (by omega) hp hs.left,
      tipsRecurL_sub g r fuel (n + t.size) p (by omega) (by omega) h2]
end

/-! ## names of the leaves -/

mutual
theorem leafIdxT_names (g : G) : ∀ (t : T) (n : Nat) (par : Option Nat), Sub g.nodes n (flatT par n t) →
    (leafIdxT n t).map g.name = t.leaves
  | .node d pp [], n, par, hs => by
    rw [flatT_node] at hs
    simp [leafIdxT, G.name, hs.head, T.leaves]
  | .node d pp (x :: k), n, par, hs => by
    rw [flatT_node] at hs
    simp only [leafIdxT, T.leaves]
    exact leafIdxL_names g (x :: k) (n + 1) n hs.tail
theorem leafIdxL_names (g : G) : ∀ (k : Kids) (n p : Nat), Sub g.nodes n (flatL p n k) →
    (leafIdxL n k).map g.name = leavesL k
  | [], _, _, _ => by simp [leafIdxL, leavesL]
  | (e, t) :: r, n, p, hs => by
    rw [flatL_cons] at hs
    have h2 := hs.right
    rw [flatT_length] at h2
    simp only [leafIdxL, leavesL, List.map_append]
    rw [leafIdxT_names g t n (some p) hs.left, leafIdxL_names g r (n + t.size) p h2]
end

/-- `Tips()` on the pointer graph: the root when it has exactly one neighbour, then the
    leaves in pre-order -/
theorem tips_ofT (t : T) :
    (G.ofT t).tips = (if t.kids.length == 1 then [0] else []) ++ leafIdxL 1 t.kids := by
  obtain ⟨d, pp, k⟩ := t
  have hs : Sub (G.ofT (.node d pp k)).nodes 0 (flatT none 0 (.node d pp k)) := Sub.whole _
  have hsize : (G.ofT (.node d pp k)).nodes.size = (T.node d pp k).size := by
    simp [G.ofT, flatT_length]
  rw [G.tips, hsize, size_node]
  rw [flatT_node] at hs
  rw [tipsRecur, hs.head]
  simp only [T.kids_node, List.length_map, kidIdx_length]
  congr 1
  rw [List.flatMap_map]
  have h1 := tipsRecurL_sub (G.ofT (.node d pp k)) k (1 + T.sizeL k) (0 + 1) 0 (by omega) (by omega) hs.tail
  rw [← h1]
  apply flatMap_congr'
  intro c _
  simp

/-- The order in which the code produces the tips: `Tips()` on the pointer graph names
    exactly `T.tipNames` of the rose tree, in the same order. -/
theorem tips_names_ofT (t : T) : (G.ofT t).tips.map (G.ofT t).name = t.tipNames := by
  rw [tips_ofT]
  obtain ⟨d, pp, k⟩ := t
  have hs : Sub (G.ofT (.node d pp k)).nodes 0 (flatT none 0 (.node d pp k)) := Sub.whole _
  rw [flatT_node] at hs
  simp only [T.kids_node, List.map_append, T.tipNames, T.name, T.d_node]
  rw [leafIdxL_names _ k (0 + 1) 0 hs.tail]
  congr 1
  by_cases h : (k.length == 1) = true
  · simp [h, G.name, hs.head]
  · simp [h]

end Gotree.C14

namespace Gotree.C14
open Gotree Gotree.C14.Go

/-! ## `pathLengths` going away from `prev`: the walk down a subtree -/

theorem gedgesT_node (n : Nat) (d : NodeD) (pp : Nat) (k : Kids) : gedgesT n (.node d pp k) = gedgesL n (n + 1) k := by
  simp only [gedgesT]
theorem gedgesL_nil (p n : Nat) : gedgesL p n [] = [] := by simp only [gedgesL]
theorem gedgesL_cons (p n : Nat) (e : EdgeD) (t : T) (r : Kids) :
    gedgesL p n ((e, t) :: r) = ⟨p, n, e⟩ :: (gedgesT n t ++ gedgesL p (n + t.size) r) := by simp only [gedgesL]

theorem size_pos (t : T) : 1 ≤ t.size := by
  obtain ⟨d, p, k⟩ := t; rw [size_node]; omega

mutual
theorem gedgesT_length (n : Nat) : ∀ (t : T), (gedgesT n t).length + 1 = t.size
  | .node d pp k => by rw [gedgesT_node, size_node, gedgesL_length n (n + 1) k]; omega
theorem gedgesL_length (p n : Nat) : ∀ (k : Kids), (gedgesL p n k).length = T.sizeL k
  | [] => by rw [gedgesL_nil]; rfl
  | (e, t) :: r => by
    have := gedgesT_length n t
    rw [gedgesL_cons, sizeL_cons, List.length_cons, List.length_append, gedgesL_length p (n + t.size) r]; omega
end

/- index-level `walkDown`: (pre-order index of the leaf, accumulated length) -/
mutual
def wdT (w : EdgeD → Rat) (n : Nat) : T → Rat → List (Nat × Rat)
  | .node _ _ [], acc => [(n, acc)]
  | .node _ _ (k :: ks), acc => wdL w (n + 1) (k :: ks) acc
def wdL (w : EdgeD → Rat) : Nat → Kids → Rat → List (Nat × Rat)
  | _, [], _ => []
  | n, (e, t) :: r, acc => wdT w n t (acc + w e) ++ wdL w (n + t.size) r acc
end

/-- `lengths[tip.Id()] = value`, one write after the other -/
def applyW (ids : Array Nat) (L : Array Rat) (ws : List (Nat × Rat)) : Array Rat :=
  ws.foldl (fun L iv => L.set! (ids.getD iv.1 0) iv.2) L

theorem applyW_size (ids : Array Nat) : ∀ (ws : List (Nat × Rat)) (L : Array Rat), (applyW ids L ws).size = L.size
  | [], _ => rfl
  | iv :: ws, L => by
    have := applyW_size ids ws (L.set! (ids.getD iv.1 0) iv.2)
    simpa [applyW] using this

theorem applyW_append (ids : Array Nat) (L : Array Rat) (a b : List (Nat × Rat)) :
    applyW ids L (a ++ b) = applyW ids (applyW ids L a) b := by
  simp [applyW, List.foldl_append]

mutual
theorem wdT_idx (w : EdgeD → Rat) : ∀ (t : T) (n : Nat) (acc : Rat), (wdT w n t acc).map (·.1) = leafIdxT n t
  | .node _ _ [], n, acc => by simp [wdT, leafIdxT]
  | .node _ _ (x :: k), n, acc => by simpa [wdT, leafIdxT] using wdL_idx w (x :: k) (n + 1) acc
theorem wdL_idx (w : EdgeD → Rat) : ∀ (k : Kids) (n : Nat) (acc : Rat), (wdL w n k acc).map (·.1) = leafIdxL n k
  | [], _, _ => by simp [wdL, leafIdxL]
  | (e, t) :: r, n, acc => by
    simp only [wdL, leafIdxL, List.map_append, wdT_idx w t n _, wdL_idx w r (n + t.size) acc]
end

/- with the names of the nodes the index-level walk is `walkDown` of the rose-tree model -/
mutual
theorem wdT_names (g : G) (w : EdgeD → Rat) : ∀ (t : T) (n : Nat) (par : Option Nat) (acc : Rat),
    Sub g.nodes n (flatT par n t) → (wdT w n t acc).map (fun iv => (g.name iv.1, iv.2)) = walkDown w t acc
  | .node d pp [], n, par, acc, hs => by
    rw [flatT_node] at hs
    simp [wdT, walkDown, G.name, hs.head]
  | .node d pp (x :: k), n, par, acc, hs => by
    rw [flatT_node] at hs
    simp only [wdT, walkDown]
    exact wdL_names g w (x :: k) (n + 1) n acc hs.tail
theorem wdL_names (g : G) (w : EdgeD → Rat) : ∀ (k : Kids) (n p : Nat) (acc : Rat),
    Sub g.nodes n (flatL p n k) → (wdL w n k acc).map (fun iv => (g.name iv.1, iv.2)) = walkDownL w k acc
  | [], _, _, _, _ => by simp [wdL, walkDownL]
  | (e, t) :: r, n, p, acc, hs => by
    rw [flatL_cons] at hs
    have h2 := hs.right
    rw [flatT_length] at h2
    simp only [wdL, walkDownL, List.map_append]
    rw [wdT_names g w t n (some p) _ hs.left, wdL_names g w r (n + t.size) p acc h2]
end

theorem foldlM_congr' {α σ : Type} {f g : σ → α → Option σ} : ∀ {l : List α} (s : σ), (∀ s, ∀ x ∈ l, f s x = g s x) →
    l.foldlM f s = l.foldlM g s
  | [], _, _ => rfl
  | x :: l, s, h => by
    rw [List.foldlM_cons, List.foldlM_cons, h s x (by simp)]
    cases g s x with
    | none => rfl
    | some s' => exact foldlM_congr' s' (fun s y hy => h s y (by simp [hy]))

theorem foldlM_insAt {α σ : Type} (f : σ → α → Option σ) (l : List α) (i : Nat) (x : α) (s : σ)
    (hx : ∀ s, f s x = some s) : (insAt l i x).foldlM f s = l.foldlM f s := by
  unfold insAt
  conv => rhs; rw [← List.take_append_drop i l]
  rw [List.foldlM_append, List.foldlM_append]
  cases (l.take i).foldlM f s with
  | none => rfl
  | some s' => simp [List.foldlM_cons, hx]

mutual
theorem pathLengths_down (g : G) (ids : Array Nat) (metric : Int) : ∀ (t : T) (fuel n p : Nat) (L : Array Rat) (acc : Rat),
    t.size ≤ fuel → p < n → Sub g.nodes n (flatT (some p) n t) → Sub g.edges n (gedgesT n t) →
    (∀ i ∈ leafIdxT n t, ids.getD i 0 < L.size) →
    pathLengths g ids metric fuel n (some p) L acc = some (applyW ids L (wdT (weight metric) n t acc))
  | .node d pp k, fuel, n, p, L, acc, hf, hp, hs, he, hid => by
    rw [size_node] at hf
    cases fuel with
    | zero => omega
    | succ fuel =>
      rw [flatT_node] at hs
      rw [gedgesT_node] at he
      rw [pathLengths, hs.head]
      simp only
      have hlen : (insAt ((kidIdx (n + 1) k).map fun c => (c, c - 1)) pp (p, n - 1)).length = k.length + 1 := by
        simp [insAt, kidIdx_length]; omega
      cases k with
      | nil =>
        have h1 : ids.getD n 0 < L.size := hid n (by simp [leafIdxT])
        simp [hlen, wdT, applyW]
        simpa using h1
      | cons x k =>
        have hl2 : ((insAt ((kidIdx (n + 1) (x :: k)).map fun c => (c, c - 1)) pp (p, n - 1)).length == 1) = false := by
          rw [hlen]; simp
        simp only [hl2, Bool.false_and, Bool.false_eq_true, if_false]
        let F : Array Rat → Nat × Nat → Option (Array Rat) := fun lengths cb =>
          if (some cb.1 != some p) = true then
            match g.edges[cb.2]? with
            | none => none
            | some e => pathLengths g ids metric fuel cb.1 (some n) lengths (acc + weight metric e.d)
          else some lengths
        show List.foldlM F L _ = _
        rw [foldlM_insAt F _ pp (p, n - 1) L (by intro s; simp [F]), List.foldlM_map]
        have hc : ∀ (s : Array Rat), ∀ c ∈ kidIdx (n + 1) (x :: k), F s (c, c - 1) =
            (match g.edges[c - 1]? with
              | none => none
              | some e => pathLengths g ids metric fuel c (some n) s (acc + weight metric e.d)) := by
          intro s c hc
          have := kidIdx_gt (n + 1) (x :: k) c hc
          have hne : c ≠ p := by omega
          simp [F, hne]
        rw [foldlM_congr' L hc]
        simp only [wdT]
        exact pathLengths_downL g ids metric (x :: k) fuel (n + 1) n L acc (by omega) (by omega) hs.tail
          (by simpa using he) (by simpa [leafIdxT] using hid)
theorem pathLengths_downL (g : G) (ids : Array Nat) (metric : Int) : ∀ (k : Kids) (fuel n p : Nat) (L : Array Rat) (acc : Rat),
    T.sizeL k ≤ fuel → p < n → Sub g.nodes n (flatL p n k) → Sub g.edges (n - 1) (gedgesL p n k) →
    (∀ i ∈ leafIdxL n k, ids.getD i 0 < L.size) →
    (kidIdx n k).foldlM (fun s c =>
      match g.edges[c - 1]? with
      | none => none
      | some e => pathLengths g ids metric fuel c (some p) s (acc + weight metric e.d)) L
      = some (applyW ids L (wdL (weight metric) n k acc))
  | [], _, _, _, _, _, _, _, _, _, _ => by simp [kidIdx, wdL, applyW]
  | (e, t) :: r, fuel, n, p, L, acc, hf, hp, hs, he, hid => by
    rw [sizeL_cons] at hf
    rw [flatL_cons] at hs
    rw [gedgesL_cons] at he
    have h2 := hs.right
    rw [flatT_length] at h2
    have hn1 : n - 1 + 1 = n := by omega
    have he1 := he.head
    have he2 := he.tail
    rw [hn1] at he2
    have he3 := he2.right
    have hsz := gedgesT_length n t
    have hidx : n + (gedgesT n t).length = n + t.size - 1 := by omega
    rw [hidx] at he3
    simp only [leafIdxL, List.mem_append] at hid
    simp only [kidIdx, List.foldlM_cons, he1, wdL]
    rw [pathLengths_down g ids metric t fuel n p L _ (by omega) hp hs.left he2.left (fun i hi => hid i (Or.inl hi))]
    simp only [Option.bind_eq_bind, Option.bind_some]
    rw [applyW_append]
    exact pathLengths_downL g ids metric r fuel (n + t.size) p _ acc (by omega) (by omega) h2 he3
      (fun i hi => by rw [applyW_size]; exact hid i (Or.inr hi))
end

end Gotree.C14
