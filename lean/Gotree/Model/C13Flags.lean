/-
  C13 — the command-line glue in front of the readers (round 7), and how the regenerated tables of
  `Gotree/Gen/C13Tables.lean` are read.

  * `formatOfFlag`: cmd/root.go `PersistentPreRun`: `switch rootInputFormat { case "newick": … default:
    treeformat = utils.FORMAT_NEWICK }` — statement by statement; a value that is none of the four words
    (another letter case, "nwk", "") silently selects the Newick reader.
  * `reformatNewickFlag`: `gotree reformat newick --format <flag> -i <file>`: the reader chosen by the flag
    (`readTrees` → `utils.ReadMultiTrees(reader, treeformat)`) followed by the glue of reformatnewick.go.
  * `tableLookup`, `Nex.kwOfName`, `Nex.keywordOfTable`, `identOfTable`: the meaning given to the rows of the
    tables (a Go `switch` on strings = first matching row, else the default).
  * `assumed…`: the facts about the source this hand-written model relies on and that have no other
    expression in it (xml tags, reader dispatch, reformat writers, flag defaults); `Proofs/C13.lean` decides
    that the regenerated tables are exactly these.

  Core Lean only.
-/
import Gotree.Model.C13Codec

namespace Gotree.C13

/-- the constants FORMAT_NEWICK … FORMAT_NEXTSTRAIN of io/utils/readtrees.go (iota 0..3) -/
inductive InFmt where
  | newick | nexus | phyloxml | nextstrain
  deriving DecidableEq, Repr

def InFmt.constName : InFmt → String
  | .newick => "FORMAT_NEWICK"
  | .nexus => "FORMAT_NEXUS"
  | .phyloxml => "FORMAT_PHYLOXML"
  | .nextstrain => "FORMAT_NEXTSTRAIN"

/-- cmd/root.go PersistentPreRun: the switch on `rootInputFormat` (flag `--format`, alias `-f, --input-format`
    of `gotree reformat`) -/
def formatOfFlag (s : String) : InFmt :=
  if s = "newick" then .newick
  else if s = "nexus" then .nexus
  else if s = "phyloxml" then .phyloxml
  else if s = "nextstrain" then .nextstrain
  else .newick

/-- what the reader selected by the flag is given: the text for the Newick and Nexus readers, the decoded
    element tree / JSON document (`none` = the std-lib decoder refused the text) for the other two -/
def docForFlag (f : InFmt) (text : Txt) (xml : Option Px.Xml) (ns : Option Ns.Node) : Doc :=
  match f with
  | .newick => .newick text
  | .nexus => .nexus text
  | .phyloxml => .phyloxml xml
  | .nextstrain => .nextstrain ns

/-- `gotree reformat newick --format <flag> -i <file>`: (exit status is 0, text written);
    `none` = the model does not follow the parser on this document -/
def reformatNewickFlag (E : Env) (flag : String) (text : Txt) (xml : Option Px.Xml) (ns : Option Ns.Node) :
    Option (Bool × Txt) :=
  (readMulti E (docForFlag (formatOfFlag flag) text xml ns)).map (reformatGlue E .newick false)

/-- a Go `switch` on a string with literal cases: the value of the first row whose key is the string,
    otherwise the default -/
def tableLookup (tbl : List (String × String)) (dflt : String) (s : String) : String :=
  match tbl with
  | [] => dflt
  | (k, v) :: r => if s = k then v else tableLookup r dflt s

namespace Nex

/-- the token constants of io/nexus/nexus_token.go that stand for key words -/
def kwOfName (n : String) : Option Kw :=
  if n = "NEXUS" then some .nexus else if n = "BEGIN" then some .begin_ else if n = "DATA" then some .data
  else if n = "TAXA" then some .taxa else if n = "TAXLABELS" then some .taxlabels else if n = "TREES" then some .trees
  else if n = "TREE" then some .tree else if n = "TRANSLATE" then some .translate
  else if n = "DIMENSIONS" then some .dimensions else if n = "NTAX" then some .ntax else if n = "NCHAR" then some .nchar
  else if n = "FORMAT" then some .format else if n = "DATATYPE" then some .datatype
  else if n = "MISSING" then some .missing else if n = "GAP" then some .gap else if n = "MATRIX" then some .matrix
  else if n = "END" then some .end_ else none

/-- `scanIdent`'s switch read off a table (case literal, token): upper-case the literal, first matching row;
    the default row is IDENT (no key word) -/
def keywordOfTable (tbl : List (String × String)) (s : String) : Option Kw :=
  kwOfName (tableLookup tbl "IDENT" (String.ofList (s.toList.map upperGo)))

/-- `isIdent` read off the two character tables -/
def identOfTable (stops ws : List Char) (c : Char) : Bool := stops.all (fun x => c != x) && !ws.any (fun x => c == x)

def wsOfTable (ws : List Char) (c : Char) : Bool := ws.any (fun x => c == x)

end Nex

/-- the `xml` tags `Px.decode` / `Px.decClade` / `Px.taxFields` / `Px.decPhylogeny` look for (they are written
    as string literals there): struct, field, tag.  The fields the model does not read (taxonomy id and
    provider, the Parser's reader) are listed as they are in the source so that a new field is noticed. -/
def assumedXmlTags : List (String × String × String) :=
  [("PhyloXML", "XMLName", "phyloxml"), ("PhyloXML", "Phylogenies", "phylogeny"),
   ("Phylogeny", "XMLName", "phylogeny"), ("Phylogeny", "Rooted", "rooted,attr"), ("Phylogeny", "Root", "clade"),
   ("Clade", "XMLName", "clade"), ("Clade", "Clades", "clade"), ("Clade", "BranchLength", "branch_length"),
   ("Clade", "Confidence", "confidence"), ("Clade", "Name", "name"), ("Clade", "Tax", "taxonomy"),
   ("Taxonomy", "XMLName", "taxonomy"), ("Taxonomy", "TaxId", "id"),
   ("Taxonomy", "ScientificName", "scientific_name"), ("Taxonomy", "Code", "code"),
   ("TaxonomyId", "Id", ""), ("TaxonomyId", "Provider", "provider,attr"), ("Parser", "reader", "")]

/-- `Px.Clade.label`: name, else scientific name, else code (cladeToTree's if / else-if chain) -/
def assumedNameOrder : List String :=
  ["c.Name != \"\" => c.Name", "c.Tax.ScientificName != \"\" => c.Tax.ScientificName",
   "c.Tax.Code != \"\" => c.Tax.Code"]

/-- `Px.toKids`: the support is kept for a clade that has children (`match k with | [] => NIL | _ :: _ => …`) -/
def assumedSupportGuard : String := "len(c.Clades) > 0"

/-- the same fact semantically: the guard evaluated on clades with 0, 1, 2, 3 children — what `Px.toKids`
    computes (`match k with | [] => NIL | _ :: _ => conf`): an equivalent spelling of the comparison
    (`>= 1`, `!= 0`) gives the same row -/
def assumedSupportProbes : List Bool := [0, 1, 2, 3].map fun n => decide (n > 0)

/-- `readMulti` / `readFirst`: which parser each format constant reaches (the Newick multi-reader goes
    through ReadUntilSemiColon, the single-tree reader hands the whole stream to one newick.Parser) -/
def assumedMultiReaders : List (String × String) :=
  [("FORMAT_NEWICK", "fileutils.ReadUntilSemiColon"), ("FORMAT_NEXUS", "nexus.NewParser"),
   ("FORMAT_PHYLOXML", "phyloxml.NewParser"), ("FORMAT_NEXTSTRAIN", "nextstrain.NewParser"), ("default", "?")]

def assumedFirstReaders : List (String × String) :=
  [("FORMAT_NEWICK", "newick.NewParser"), ("FORMAT_NEXUS", "nexus.NewParser"),
   ("FORMAT_PHYLOXML", "phyloxml.NewParser"), ("FORMAT_NEXTSTRAIN", "nextstrain.NewParser"), ("default", "?")]

def assumedFormatConsts : List String := ["FORMAT_NEWICK=iota", "FORMAT_NEXUS", "FORMAT_PHYLOXML", "FORMAT_NEXTSTRAIN"]

/-- `reformatGlue`: the writer of each output format, all three commands read with `readTrees` (the
    multi-tree reader), `--translate` is the second argument of WriteNexus and is false by default -/
def assumedReformat : List (String × String × String × String) :=
  [("reformatnewick.go", "Newick", "readTrees", "|"),
   ("reformatnexus.go", "WriteNexus", "readTrees", "nexusTranslate|translate=false:&nexusTranslate"),
   ("reformatphyloxml.go", "WritePhyloXML", "readTrees", "|")]

/-- `gotree reformat`: -f, --input-format is bound to the same variable as the global --format and is
    "newick" by default; -i stdin; -o stdout -/
def assumedReformatFlags : List (String × String) :=
  [("input-format/f:&rootInputFormat", "newick"), ("input/i:&intreefile", "stdin"),
   ("output/o:&outtreefile", "stdout")]

/-- `Nex.scanGo`: the punctuation switch of `Scanner.Scan` -/
def assumedPunct : List (String × String) :=
  [("eof", "EOF"), ("[", "OPENBRACK"), ("]", "CLOSEBRACK"), (";", "ENDOFCOMMAND"), ("=", "EQUAL"), (",", "COMMA")]

end Gotree.C13
