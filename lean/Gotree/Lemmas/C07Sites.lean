/-
  C07 — lemmas about the table vocabulary of Model/C07Sites.lean (none depends on the generated table):
  turning a comparison round is harmless (`eval_norm`); the reading of the source the model was written
  from (`exp…`) evaluates to the model's own selectors / branch decisions (`…_expected`).
-/
import Gotree.Model.C07Sites

namespace Gotree.C07.Sites
open Gotree Gotree.C07

theorem eval_norm (ρ : String → Option Rat) (β : String → Option Bool) :
    ∀ e : Ex, eval ρ β e.norm = eval ρ β e
  | .atom _ => rfl
  | .cmp op a b => by
    unfold Ex.norm
    generalize hx : ρ a = x
    generalize hy : ρ b = y
    by_cases h1 : op = ">="
    · subst h1
      cases x <;> cases y <;> simp [eval, cmpOp, hx, hy]
    · by_cases h2 : op = ">"
      · subst h2
        cases x <;> cases y <;> simp [eval, cmpOp, hx, hy]
      · simp [h1, h2]
  | .and a b => by simp only [Ex.norm, eval, eval_norm ρ β a, eval_norm ρ β b]
  | .or a b => by simp only [Ex.norm, eval, eval_norm ρ β a, eval_norm ρ β b]
  | .not a => by simp only [Ex.norm, eval, eval_norm ρ β a]

theorem g0 (rr rt ct : Bool) (deg : Nat) (ar : Bool) :
  eval (ρGuard deg) (βGuard rr rt ct deg ar) (.or (.atom "$e.Right().Tip()") (.atom "$e.Left().Tip()")) = some (ct || deg == 1) := by
  simp [eval, βGuard]

theorem g1 (rr rt ct : Bool) (deg : Nat) (ar : Bool) :
  eval (ρGuard deg) (βGuard rr rt ct deg ar) (.and (.and (.not (.atom "$0")) (.cmp "==" "$e.Left()" "t.Root()"))
      (.cmp "==" "$e.Left().Nneigh()" "2")) = some ((!rr && ar) && (((deg : Int) : Rat) == 2)) := by
  simp [eval, βGuard, ρGuard, cmpOp]
theorem natRat2 (deg : Nat) : (((deg : Int) : Rat) == (2 : Rat)) = (deg == 2) := by
  by_cases h : deg = 2
  · subst h; decide
  · have : ¬ ((deg : Int) : Rat) = 2 := by
      intro hc
      have h' : ((deg : Int) : Rat) = ((2 : Int) : Rat) := hc
      exact h (by exact_mod_cast (Rat.intCast_inj.mp h'))
    have a : (((deg : Int) : Rat) == (2 : Rat)) = false := by simpa using this
    have b : (deg == 2) = false := by simpa using h
    rw [a, b]

theorem natRat1 (deg : Nat) : (((deg : Int) : Rat) == (1 : Rat)) = (deg == 1) := by
  by_cases h : deg = 1
  · subst h; decide
  · have : ¬ ((deg : Int) : Rat) = 1 := by
      intro hc
      have h' : ((deg : Int) : Rat) = ((1 : Int) : Rat) := hc
      exact h (by exact_mod_cast (Rat.intCast_inj.mp h'))
    have a : (((deg : Int) : Rat) == (1 : Rat)) = false := by simpa using this
    have b : (deg == 1) = false := by simpa using h
    rw [a, b]

/-- `Tip()` as the source defines it is the `deg == 1` the guards are read with -/
theorem tip_expected (deg : Nat) : eval (ρDeg deg) βNone expTipDef = some (deg == 1) := by
  simp only [expTipDef, eval, ρDeg, cmpOp]
  simp [natRat1]

theorem fate_expected (rr rt ct : Bool) (deg : Nat) (ar : Bool) :
    fateOfGuards expGuards rr rt ct deg ar = fateOfModel rr rt ct deg ar := by
  have e0 := g0 rr rt ct deg ar
  have e1 := g1 rr rt ct deg ar
  rw [natRat2] at e1
  simp only [fateOfGuards, expGuards, e0, e1, fateOfModel]
  clear e0 e1
  generalize (deg == 1) = b1
  generalize (deg == 2) = b2
  cases rr <;> cases ct <;> cases ar <;> cases b1 <;> cases b2 <;> simp

def Guard.norm (g : Guard) : Guard := ⟨g.cond.norm, g.body⟩

theorem fateOfGuards_norm (gs : List Guard) (rr rt ct : Bool) (deg : Nat) (ar : Bool) :
    fateOfGuards (gs.map Guard.norm) rr rt ct deg ar = fateOfGuards gs rr rt ct deg ar := by
  match gs with
  | [] => rfl
  | [_] => rfl
  | [g0, g1] => simp only [List.map, fateOfGuards, Guard.norm, eval_norm]
  | _ :: _ :: _ :: _ => rfl

theorem selLen_expected (l : Rat) (s : SplitE) : eval (ρLen l s) βNone expSelLen = some (selLen l s) := by
  simp [expSelLen, eval, ρLen, cmpOp, selLen]

theorem selSup_expected (consts : List (String × String)) (x : Rat) (s : SplitE)
    (h : (consts.lookup "NIL_SUPPORT").bind litRat? = some NIL) :
    eval (ρSup consts x s) βNone expSelSup = some (selSup x s) := by
  simp [expSelSup, eval, ρSup, cmpOp, selSup, h]

theorem intRat_le (a b : Int) : decide ((a : Rat) ≤ (b : Rat)) = decide (a ≤ b) := by
  simp [Rat.intCast_le_intCast]

theorem selDepth_expected (total : Nat) (mn mx : Int) (s : SplitE) :
    eval (ρDepth (topoDepth total s) mn mx) βNone expSelDepth = some (selDepth total mn mx s) := by
  simp [expSelDepth, eval, ρDepth, cmpOp, selDepth, intRat_le]

theorem natRat0 (n : Nat) : (((n : Int) : Rat) == (0 : Rat)) = (n == 0) := by
  by_cases h : n = 0
  · subst h; decide
  · have : ¬ ((n : Int) : Rat) = 0 := by
      intro hc
      have h' : ((n : Int) : Rat) = ((0 : Int) : Rat) := hc
      exact h (by exact_mod_cast (Rat.intCast_inj.mp h'))
    have a : (((n : Int) : Rat) == (0 : Rat)) = false := by simpa using this
    have b : (n == 0) = false := by simpa using h
    rw [a, b]

theorem depthErr_expected (sz : Nat × Nat) :
    eval (ρSizes sz) βNone expDepthErr = some (sz.1 == 0 || sz.2 == 0) := by
  simp only [expDepthErr, eval, ρSizes, cmpOp]
  simp [natRat0]

theorem resolveCond_expected (n : Nat) :
    eval (ρNeigh n) βNone (.cmp "<" "3" "len($0.Neigh())") = some (decide (3 < n)) := by
  simp only [eval, ρNeigh, cmpOp]
  have : decide ((3 : Rat) < ((n : Int) : Rat)) = decide (3 < n) := by
    have h : ((3 : Rat) < ((n : Int) : Rat)) ↔ ((3 : Int) < (n : Int)) := by
      have : (3 : Rat) = ((3 : Int) : Rat) := rfl
      rw [this, Rat.intCast_lt_intCast]
    rw [decide_eq_decide]; rw [h]; omega
  simp [this]

end Gotree.C07.Sites
