/-
  C13 — executable instances of the two codecs the model is parametric in, used by the driver:

  * `decCodec` : `strconv.FormatFloat(x,'f',-1,64)` on values with a finite decimal expansion (every
                 float64 the harness generates: dyadic with ≤ 15 significant digits) and a decimal
                 `ParseFloat`, for the numbers in PhyloXML text;
  * `c01Go`    : the Newick reader/writer = property C01's verified model of io/newick and Node.Newick
                 (`Gotree.Newick.parse` / `Gotree.Newick.write`) with its Go-like float codec.
  Core Lean only.
-/
import Gotree.Model.C13
import Gotree.Model.C01

namespace Gotree.C13
open Gotree

/- ## decimal numbers -/

def fracDigits : Nat → Nat → Nat → List Char
  | 0, _, _ => []
  | f + 1, rem, den =>
    if rem == 0 then [] else
    let x := rem * 10
    Char.ofNat (48 + x / den) :: fracDigits f (x % den) den

/-- shortest decimal of a value with a finite expansion (no exponent, no trailing zeros) -/
def fmtRat (q : Rat) : Txt :=
  let n := q.num.natAbs
  let d := q.den
  (if q.num < 0 then ['-'] else []) ++ Nat.toDigits 10 (n / d) ++
  (let fr := fracDigits 1100 (n % d) d
   if fr.isEmpty then [] else '.' :: fr)

def digitsVal (ds : List Char) : Nat := ds.foldl (fun a c => 10 * a + (c.toNat - 48)) 0

def splitSign : Txt → Bool × Txt
  | '-' :: r => (true, r)
  | '+' :: r => (false, r)
  | l => (false, l)

/-- decimal floating-point literal: `[+-] digits [. digits] [(e|E) [+-] digits]`, at least one
    mantissa digit.  Returns the exact value. -/
def parseDec (s : Txt) : Option Rat :=
  let (neg, s1) := splitSign s
  let (ip, s2) := s1.span Char.isDigit
  let (fp, s3) : Txt × Txt := match s2 with
    | '.' :: r => r.span Char.isDigit
    | _ => ([], s2)
  if ip.isEmpty && fp.isEmpty then none else
  let mant : Rat := (digitsVal (ip ++ fp) : Nat) / ((10 ^ fp.length : Nat) : Rat)
  let exp? : Option Int := match s3 with
    | [] => some 0
    | c :: r =>
      if c == 'e' || c == 'E' then
        let (eneg, r1) := splitSign r
        if r1.isEmpty || !r1.all Char.isDigit then none
        else some (if eneg then - (digitsVal r1 : Int) else (digitsVal r1 : Int))
      else none
  match exp? with
  | none => none
  | some e =>
    let v : Rat := if e ≥ 0 then mant * ((10 ^ e.toNat : Nat) : Rat) else mant / ((10 ^ (-e).toNat : Nat) : Rat)
    some (if neg then -v else v)

def decCodec : NumCodec := ⟨fmtRat, parseDec⟩

/-- the number codec the driver runs for PhyloXML: C01's Go-like model of FormatFloat / ParseFloat -/
def goNum : NumCodec :=
  ⟨Newick.goCodec.fmt, fun s => if Newick.goCodec.isFloat s then Newick.goCodec.parse s else none⟩

/-- a float codec of property C01 (`FormatFloat` / `ParseFloat` behind the `isFloat` test) as this
    property's number codec; `goNum` is `numOf Newick.goCodec` -/
def numOf (C : Newick.Codec) : NumCodec :=
  ⟨C.fmt, fun s => if C.isFloat s then C.parse s else none⟩

/- ## the Newick codec -/

/-- the verified Newick model of property C01 (`Gotree.Newick.parse` / `write`) as a `NewickCodec` -/
def codecOf (C : Newick.Codec) : NewickCodec :=
  ⟨Newick.write C, fun s => match Newick.parse C s with | .ok t => some t | _ => none⟩

/-- the codec the driver runs: C01's model with the Go-like float codec -/
def c01Go : NewickCodec := codecOf Newick.goCodec

/- ## the `gotree reformat` glue (cmd/reformat*.go) as a function of the flags -/

/-- the trees received before the first error record, with their identifiers -/
def goodOf : List Rec → List (Nat × T)
  | [] => []
  | r :: rs => match r.out with
    | .ok t => (r.id, t) :: goodOf rs
    | .err => []

/-- is there an error record -/
def failedOf : List Rec → Bool
  | [] => false
  | r :: rs => match r.out with
    | .ok _ => failedOf rs
    | .err => true

/-- output format of `gotree reformat <newick|nexus|phyloxml>` -/
inductive OutFmt where
  | newick | nexus | phyloxml
  deriving DecidableEq, Repr

/-- `gotree reformat <out> [--translate] -f <in> -i doc [-o file]`: the records of `ReadMultiTrees` go to
    the writer; returns (exit status is 0, text written to the output).
    * newick (reformatnewick.go): each tree is written as it arrives; the first error record stops the
      command with a non-zero status, the trees before it stay written;
    * nexus / phyloxml (WriteNexus / WritePhyloXML): the writer returns the first error record's error
      and nothing at all is written;
    * `--translate` only exists for nexus; `-o` only chooses where the same text goes. -/
def reformatGlue (E : Env) (out : OutFmt) (translate : Bool) (recs : List Rec) : Bool × Txt :=
  let good := goodOf recs
  let failed := failedOf recs
  match out with
  | .newick => (!failed, Px.joinT (fun t => E.C.write t ++ ['\n']) (good.map (·.2)))
  | .nexus => if failed then (false, []) else (true, writeNexus E.C translate good)
  | .phyloxml => if failed then (false, []) else (true, Px.render E.N (good.map (·.2)))

end Gotree.C13
