/-
  C15 — what the property means, from the split list only (DESIGN §3.1):
  path lengths between pre-existing tips unchanged, exactly the requested tips
  added, identical tips at distance 0 from their model, copies equal to their
  source.  Bool-valued; core Lean only.
-/
import Gotree.Model.C15
import Gotree.Spec.Splits

namespace Gotree.C15
open Gotree

/-- same names, as multisets -/
def sameNames (a b : List String) : Bool := sortS a == sortS b

/-- every pair of `l` has the same path length in `t` and `u` -/
def distAgree (t u : T) (l : List String) : Bool :=
  l.all fun a => l.all fun b => t.dist a b == u.dist a b

/-- every branch length is absent or ≥ 0 (what the generator draws; `math.Max(0, l)` then
    equals "absent counts 0") -/
def lengthsOK (t : T) : Bool := t.edges.all fun e => e.len == NIL || e.len ≥ 0

/-- names of the leaves of the graft once it hangs in the tree -/
def graftLeaves (g : T) : List String := (asGraft g).leaves

/-- Spec of `GraftTreeOnTip`: tips = old tips − the tip + the leaves of the graft; distances
    unchanged inside the host and inside the graft; a host tip and a graft leaf are joined
    through the old tip's branch and the graft's root. -/
def graftOK (t : T) (tip : String) (g after : T) : Bool :=
  let host := t.tipNames.erase tip
  sameNames after.tipNames (host ++ graftLeaves g) &&
  distAgree t after host &&
  distAgree g after (leavesL g.kids) &&
  host.all fun a => (leavesL g.kids).all fun b => after.dist a b == t.dist a tip + g.rootDist b

/-- Spec of `Merge`: tips = union; distances unchanged inside each tree. -/
def mergeOK (t t2 after : T) : Bool :=
  sameNames after.tipNames (t.tipNames ++ t2.tipNames) &&
  distAgree t after t.tipNames && distAgree t2 after t2.tipNames &&
  -- "under a new root": the root has two children, one carrying each tree
  (match after.kids with
   | [(_, c1), (_, c2)] =>
     (sameNames c1.leaves t.tipNames && sameNames c2.leaves t2.tipNames) ||
     (sameNames c2.leaves t.tipNames && sameNames c1.leaves t2.tipNames)
   | _ => false)

/-- each name once (the last occurrence is kept; the order is irrelevant to `sameNames`) -/
def dedupS : List String → List String
  | [] => []
  | a :: r => if r.contains a then dedupS r else a :: dedupS r

/-- new names of a group list, given the tips already present (a name inserted by one group may be
    the existing member of a later one: counted once) -/
def newNames (tips : List String) (groups : List (List String)) : List String :=
  dedupS ((groups.flatten).filter fun n => !tips.contains n)

/-- Spec of `InsertIdenticalTips`: tips = old tips + the new names; distances between old tips
    unchanged; every member of a group at distance 0 from every other member. -/
def insertOK (t : T) (groups : List (List String)) (after : T) : Bool :=
  sameNames after.tipNames (t.tipNames ++ newNames t.tipNames groups) &&
  distAgree t after t.tipNames &&
  groups.all fun g => g.all fun a => g.all fun b => after.dist a b == 0

/-- Spec of `RemoveSingleNodes`: same tips, same distances, no single-child inner node left. -/
def removeSingleOK (t after : T) : Bool :=
  sameNames after.tipNames t.tipNames && distAgree t after t.tipNames && after.noSingle

/-- tips of the subtree rooted at node `n` of the source: the leaves below `n`; `n` itself
    when it has a single child (a root with one neighbour is a tip) -/
def subTips (n : T) : List String := (if n.kids.length == 1 then [n.name] else []) ++ leavesL n.kids

/-- Spec of `SubTree(n)`: tips = the leaves below `n`; distances between them as in the source. -/
def subTreeOK (t n sub : T) : Bool :=
  sameNames sub.tipNames (subTips n) && distAgree t sub (leavesL n.kids)

/-- Spec of `Clone`: equal to the source in everything but the parent positions
    (which no text shows). -/
def cloneOK (t c : T) : Bool := zeroPpos c == zeroPpos t

/- every parent is the first neighbour of its node (what the Newick parser builds) -/
mutual
def allPposZero : T → Bool
  | .node _ p k => p == 0 && allPposZeroL k
def allPposZeroL : Kids → Bool
  | [] => true
  | (_, t) :: r => allPposZero t && allPposZeroL r
end

/- a chain of at least two single-child nodes somewhere below -/
mutual
def hasChain : T → Bool
  | .node _ _ k => hasChainL k
def hasChainL : Kids → Bool
  | [] => false
  | (_, t) :: r => (t.kids.length == 1 && (match t.kids with | [(_, c)] => c.kids.length == 1 | _ => false)) || hasChain t || hasChainL r
end

/- some comment somewhere -/
mutual
def hasComments : T → Bool
  | .node d _ k => !d.comments.isEmpty || hasCommentsL k
def hasCommentsL : Kids → Bool
  | [] => false
  | (e, t) :: r => !e.comments.isEmpty || hasComments t || hasCommentsL r
end

/-- not the two-node tree "a root that is a tip above a single leaf" (reported as a tag only: before
    e4eb1d8 `InsertIdenticalTip` hung the new tip on that root, which then stopped being a tip) -/
def nondegB (t : T) : Bool := !(t.kids.length == 1 && (leavesL t.kids).length == 1)

/- labels of the nodes that are not tips (the root included unless it is a tip) -/
mutual
def innerLabels : T → List String
  | .node d _ k => (if k.isEmpty then [] else [d.name]) ++ innerLabelsL k
def innerLabelsL : Kids → List String
  | [] => []
  | (_, t) :: r => innerLabels t ++ innerLabelsL r
end

/-- the region of the open finding F79 `InsertIdenticalDuplicateInnerLabels`: two inner nodes of the host
    carry the same non-empty label, the tips are pairwise different -/
def dupInnerLabels (t : T) : Bool :=
  hasDup (((if t.kids.length == 1 then [] else [t.name]) ++ innerLabelsL t.kids).filter (· != "")) && t.uniqueTips

/-- the region of F79 as widened in round 6: `NewNodeIndex` refuses because two named nodes of ANY kind share a
    label (two inner nodes, or an inner node and a tip) while the tips are pairwise different -/
def dupLabels (t : T) : Bool := hasDup (t.nodeNames.filter (· != "")) && t.uniqueTips

/-- "a group with exactly one existing member on a tree with unique tip names must be accepted": the groups
    as such are acceptable — the insertion procedure itself (without the node-index precondition of the
    code) goes through -/
def groupsAcceptable (t : T) (groups : List (List String)) : Bool :=
  (insertGroups groups t t.tipNames).2.isNone

/-- hypotheses under which the distance statements are meant: unique tip names -/
def uniq (t : T) : Bool := t.uniqueTips

end Gotree.C15
