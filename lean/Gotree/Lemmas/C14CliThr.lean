/-
  C14 (round 7) — the rational stand-ins of `±Inf` / `NaN` (`Thr.forTree`) decide every threshold test of the
  cut as the float does.
-/
import Gotree.Model.C14CliThr

namespace Gotree.C14.Cli
open Gotree

theorem foldl_max_spec : ∀ (l : List EdgeD) (m0 : Rat),
    m0 ≤ l.foldl (fun m e => if e.len > m then e.len else m) m0 ∧
    ∀ e ∈ l, e.len ≤ l.foldl (fun m e => if e.len > m then e.len else m) m0
  | [], m0 => ⟨Rat.le_refl, fun _ h => by simp at h⟩
  | a :: l, m0 => by
    simp only [List.foldl_cons]
    obtain ⟨h1, h2⟩ := foldl_max_spec l (if a.len > m0 then a.len else m0)
    have hm : m0 ≤ (if a.len > m0 then a.len else m0) ∧ a.len ≤ (if a.len > m0 then a.len else m0) := by
      by_cases h : a.len > m0
      · simp only [h, if_true]; exact ⟨Rat.le_of_lt h, Rat.le_refl⟩
      · simp only [h, if_false]; exact ⟨Rat.le_refl, Rat.not_lt.1 h⟩
    refine ⟨Rat.le_trans hm.1 h1, fun e he => ?_⟩
    rcases List.mem_cons.1 he with rfl | he
    · exact Rat.le_trans hm.2 h1
    · exact h2 e he

theorem foldl_min_spec : ∀ (l : List EdgeD) (m0 : Rat),
    l.foldl (fun m e => if e.len < m then e.len else m) m0 ≤ m0 ∧
    ∀ e ∈ l, l.foldl (fun m e => if e.len < m then e.len else m) m0 ≤ e.len
  | [], m0 => ⟨Rat.le_refl, fun _ h => by simp at h⟩
  | a :: l, m0 => by
    simp only [List.foldl_cons]
    obtain ⟨h1, h2⟩ := foldl_min_spec l (if a.len < m0 then a.len else m0)
    have hm : (if a.len < m0 then a.len else m0) ≤ m0 ∧ (if a.len < m0 then a.len else m0) ≤ a.len := by
      by_cases h : a.len < m0
      · simp only [h, if_true]; exact ⟨Rat.le_of_lt h, Rat.le_refl⟩
      · simp only [h, if_false]; exact ⟨Rat.le_refl, Rat.not_lt.1 h⟩
    refine ⟨Rat.le_trans h1 hm.1, fun e he => ?_⟩
    rcases List.mem_cons.1 he with rfl | he
    · exact Rat.le_trans h1 hm.2
    · exact h2 e he

/-- with `-l inf` every branch (also one without length, sentinel −1) is shorter than the threshold; with
    `-l -inf` and `-l nan` none is: the tests `Length() < maxlen` of the model have the float's truth values -/
theorem forTree_special (t : T) (e : EdgeD) (he : e ∈ t.edges) :
    e.len < Thr.pinf.forTree t ∧ NIL < Thr.pinf.forTree t ∧
    ¬ (e.len < Thr.ninf.forTree t) ∧ ¬ (NIL < Thr.ninf.forTree t) ∧
    ¬ (e.len < Thr.nan.forTree t) ∧ ¬ (NIL < Thr.nan.forTree t) := by
  have hmax := foldl_max_spec t.edges 0
  have hmin := foldl_min_spec t.edges (-1)
  have h1 : e.len ≤ maxLen t := hmax.2 e he
  have h0 : (0 : Rat) ≤ maxLen t := hmax.1
  have h2 : minLen t ≤ e.len := hmin.2 e he
  have h3 : minLen t ≤ -1 := hmin.1
  simp only [Thr.forTree, NIL]
  refine ⟨by grind, by grind, by grind, by grind, by grind, by grind⟩

theorem cutEachThr_fin (q : Rat) : ∀ (l : List InTree) (id : Nat) (acc : String),
    cutEachThr (.fin q) l id acc = cutEach q l id acc
  | [], _, _ => rfl
  | .bad _ :: _, _, _ => rfl
  | .good t :: r, id, acc => by
    simp only [cutEachThr, cutEach, Thr.forTree]
    cases Go.cutGo q t with
    | ok bags => exact cutEachThr_fin q r _ _
    | err e => rfl
    | panic e => rfl

/-- on every spelling that is not `inf` / `infinity` / `nan` the extended command model IS the one of round 2 -/
theorem cutCmdThr_decimal (s : String) (input : Except String (List InTree)) (h : parseSpecial s = none) :
    cutCmdThr (some s) input = cutCmd (some s) input := by
  unfold cutCmdThr cutCmd
  simp only [parseThr, h]
  cases parseDec s with
  | none => rfl
  | some q =>
    cases input with
    | error p => rfl
    | ok trees => exact cutEachThr_fin q trees 0 ""

theorem cutCmdThr_omitted (input : Except String (List InTree)) : cutCmdThr none input = cutCmd none input := by
  unfold cutCmdThr cutCmd
  cases input with
  | error p => rfl
  | ok trees => exact cutEachThr_fin (1 / 2) trees 0 ""

/-- without an underscore and without a `0x` prefix the extended reading of `-l` is the one of round 7 -/
theorem parseThrX_plain (s : String) (h1 : s.toList.contains '_' = false) (h2 : hasHexPrefix s.toList = false) :
    parseThrX s = parseThr s := by
  unfold parseThrX
  simp only [h1, h2, Bool.not_false, Bool.and_self, if_true]

theorem cutCmdThrX_plain (s : String) (input : Except String (List InTree))
    (h1 : s.toList.contains '_' = false) (h2 : hasHexPrefix s.toList = false) :
    cutCmdThrX (some s) input = cutCmdThr (some s) input := by
  unfold cutCmdThrX cutCmdThr
  simp only [parseThrX_plain s h1 h2]

end Gotree.C14.Cli
