/-
  C16 — exhaustiveness of the enumeration (helper lemmas): every binary tree on the names is, up
  to the order of children, one of the backtracking trees.  `IsoL` is "same tree up to child order,
  branch data and inner names"; pruning the last tip and re-inserting it is the induction step.
-/
import Gotree.Lemmas.C16Nodup

namespace Gotree.C16
open Gotree

mutual
inductive IsoT : T → T → Prop where
  | leaf (d d' : NodeD) (p p' : Nat) : d.name = d'.name → IsoT (.node d p []) (.node d' p' [])
  | inner (d d' : NodeD) (p p' : Nat) (ks ks' : Kids) : ks ≠ [] → IsoL ks ks' → IsoT (.node d p ks) (.node d' p' ks')
inductive IsoL : Kids → Kids → Prop where
  | nil : IsoL [] []
  | cons (e e' : EdgeD) (t t' : T) (r r' : Kids) : IsoT t t' → IsoL r r' → IsoL ((e, t) :: r) ((e', t') :: r')
  | swap (a b : EdgeD × T) (r : Kids) : IsoL (a :: b :: r) (b :: a :: r)
  | trans (a b c : Kids) : IsoL a b → IsoL b c → IsoL a c
end

mutual
theorem IsoT.refl : ∀ (t : T), IsoT t t
  | .node d p [] => IsoT.leaf d d p p rfl
  | .node d p (k :: ks) => IsoT.inner d d p p (k :: ks) (k :: ks) (by simp) (IsoL.refl (k :: ks))
theorem IsoL.refl : ∀ (ks : Kids), IsoL ks ks
  | [] => IsoL.nil
  | (e, t) :: r => IsoL.cons e e t t r r (IsoT.refl t) (IsoL.refl r)
end

theorem IsoL.length_eq : ∀ {a b : Kids}, IsoL a b → a.length = b.length
  | _, _, .nil => rfl
  | _, _, .cons _ _ _ _ _ _ _ h => by simp [IsoL.length_eq h]
  | _, _, .swap _ _ _ => by simp
  | _, _, .trans _ _ _ h1 h2 => (IsoL.length_eq h1).trans (IsoL.length_eq h2)

mutual
theorem IsoT.leaves_perm : ∀ {t t' : T}, IsoT t t' → t.leaves.Perm t'.leaves
  | _, _, .leaf d d' p p' h => by simp [T.leaves, h]
  | _, _, .inner d d' p p' ks ks' hne h => by
    have hl := IsoL.length_eq h
    have p1 : 0 < ks.length := List.length_pos_iff.mpr hne
    rw [leaves_node_of_pos _ _ _ p1, leaves_node_of_pos _ _ _ (hl ▸ p1)]
    exact IsoL.leaves_perm h
theorem IsoL.leaves_perm : ∀ {a b : Kids}, IsoL a b → (leavesL a).Perm (leavesL b)
  | _, _, .nil => List.Perm.refl _
  | _, _, .cons _ _ _ _ _ _ ht hr => by
    simp only [leavesL]; exact (IsoT.leaves_perm ht).append (IsoL.leaves_perm hr)
  | _, _, .swap (ea, ta) (eb, tb) r => by
    simp only [leavesL]
    rw [← List.append_assoc, ← List.append_assoc]
    exact List.Perm.append_right _ List.perm_append_comm
  | _, _, .trans _ _ _ h1 h2 => (IsoL.leaves_perm h1).trans (IsoL.leaves_perm h2)
end

/-! ### families -/

theorem FamEq.refl (A : List (List String)) : FamEq A A :=
  ⟨fun a ha => ⟨a, ha, SetEq.refl a⟩, fun b hb => ⟨b, hb, SetEq.refl b⟩⟩

theorem SetEq.trans {a b c : List String} (h1 : SetEq a b) (h2 : SetEq b c) : SetEq a c :=
  fun y => (h1 y).trans (h2 y)

theorem FamEq.trans {A B C : List (List String)} (h1 : FamEq A B) (h2 : FamEq B C) : FamEq A C := by
  constructor
  · intro a ha
    obtain ⟨b, hb, hab⟩ := h1.1 a ha
    obtain ⟨c, hc, hbc⟩ := h2.1 b hb
    exact ⟨c, hc, hab.trans hbc⟩
  · intro c hc
    obtain ⟨b, hb, hbc⟩ := h2.2 c hc
    obtain ⟨a, ha, hab⟩ := h1.2 b hb
    exact ⟨a, ha, hab.trans hbc⟩

theorem FamEq.symm {A B : List (List String)} (h : FamEq A B) : FamEq B A :=
  ⟨fun b hb => by obtain ⟨a, ha, hab⟩ := h.2 b hb; exact ⟨a, ha, hab.symm⟩,
   fun a ha => by obtain ⟨b, hb, hab⟩ := h.1 a ha; exact ⟨b, hb, hab.symm⟩⟩

theorem FamEq.append {A B C D : List (List String)} (h1 : FamEq A B) (h2 : FamEq C D) : FamEq (A ++ C) (B ++ D) := by
  constructor
  · intro a ha
    rcases List.mem_append.mp ha with h | h
    · obtain ⟨b, hb, hab⟩ := h1.1 a h; exact ⟨b, List.mem_append_left _ hb, hab⟩
    · obtain ⟨b, hb, hab⟩ := h2.1 a h; exact ⟨b, List.mem_append_right _ hb, hab⟩
  · intro b hb
    rcases List.mem_append.mp hb with h | h
    · obtain ⟨a, ha, hab⟩ := h1.2 b h; exact ⟨a, List.mem_append_left _ ha, hab⟩
    · obtain ⟨a, ha, hab⟩ := h2.2 b h; exact ⟨a, List.mem_append_right _ ha, hab⟩

theorem famEq_of_perm {A B : List (List String)} (h : A.Perm B) : FamEq A B :=
  ⟨fun a ha => ⟨a, h.subset ha, SetEq.refl a⟩, fun b hb => ⟨b, h.symm.subset hb, SetEq.refl b⟩⟩

theorem setEq_of_perm {a b : List String} (h : a.Perm b) : SetEq a b := fun _ => h.mem_iff

mutual
theorem IsoT.famEq : ∀ {t t' : T}, IsoT t t' → FamEq (belowsT t) (belowsT t')
  | _, _, .leaf d d' p p' _ => by simp only [belowsT, belowsL]; exact FamEq.refl _
  | _, _, .inner d d' p p' ks ks' _ h => by simp only [belowsT]; exact IsoL.famEq h
theorem IsoL.famEq : ∀ {a b : Kids}, IsoL a b → FamEq (belowsL a) (belowsL b)
  | _, _, .nil => FamEq.refl _
  | _, _, .cons _ _ _ _ _ _ ht hr => by
    simp only [belowsL]
    exact FamEq.cons ((IsoT.famEq ht).append (IsoL.famEq hr)) _ _ (setEq_of_perm (IsoT.leaves_perm ht))
  | _, _, .swap (ea, ta) (eb, tb) r => by
    simp only [belowsL]
    apply famEq_of_perm
    have : ∀ (x y : List String) (X Y R : List (List String)),
        (x :: (X ++ y :: (Y ++ R))).Perm (y :: (Y ++ x :: (X ++ R))) := by
      intro x y X Y R
      have e1 : x :: (X ++ y :: (Y ++ R)) = (x :: X) ++ ((y :: Y) ++ R) := by simp
      have e2 : y :: (Y ++ x :: (X ++ R)) = (y :: Y) ++ ((x :: X) ++ R) := by simp
      rw [e1, e2, ← List.append_assoc, ← List.append_assoc]
      exact List.Perm.append_right _ List.perm_append_comm
    exact this _ _ _ _ _
  | _, _, .trans _ _ _ h1 h2 => (IsoL.famEq h1).trans (IsoL.famEq h2)
end

/-! ### grafting commutes with `Iso` -/

/-- the change at index `k` inside the block of the first child (`k ≤ numEdges t`) -/
def blockApply (f : EdgeD × T → EdgeD × T) (k : Nat) (x : EdgeD × T) : EdgeD × T :=
  if k = 0 then f x else (x.1, applyAt f (k - 1) x.2)

theorem applyAtL_head (f : EdgeD × T → EdgeD × T) (k : Nat) (e : EdgeD) (t : T) (r : Kids) (h : k < 1 + numEdges t) :
    applyAtL f k ((e, t) :: r) = blockApply f k (e, t) :: r := by
  by_cases h0 : k = 0
  · simp only [applyAtL, blockApply, h0, if_true]
  · have : k - 1 < numEdges t := by omega
    simp only [applyAtL, blockApply, h0, this, if_false, if_true]

theorem applyAtL_tail (f : EdgeD × T → EdgeD × T) (k : Nat) (e : EdgeD) (t : T) (r : Kids) (h : 1 + numEdges t ≤ k) :
    applyAtL f k ((e, t) :: r) = (e, t) :: applyAtL f (k - 1 - numEdges t) r := by
  have h0 : k ≠ 0 := by omega
  have : ¬ k - 1 < numEdges t := by omega
  simp only [applyAtL, h0, this, if_false]

theorem graftLen_isoT (x : String) (l0 l1 l2 : Rat) (e e' : EdgeD) (t t' : T) (h : IsoT t t') :
    IsoT (graftLen x l0 l1 l2 (e, t)).2 (graftLen x l0 l1 l2 (e', t')).2 := by
  rw [graftLen_eq, graftLen_eq]
  exact IsoT.inner _ _ _ _ _ _ (by simp) (IsoL.cons _ _ _ _ _ _ (IsoT.refl _) (IsoL.cons _ _ _ _ _ _ h IsoL.nil))

mutual
theorem IsoT.graft (x : String) (l0 l1 l2 : Rat) : ∀ {t t' : T}, IsoT t t' → ∀ k, k < numEdges t →
    ∃ k', k' < numEdges t' ∧ IsoT (applyAt (graftLen x l0 l1 l2) k t) (applyAt (graftLen x l0 l1 l2) k' t')
  | _, _, .leaf d d' p p' _, k, hk => by simp [numEdges, numEdgesL] at hk
  | _, _, .inner d d' p p' ks ks' hne h, k, hk => by
    simp only [numEdges] at hk
    obtain ⟨k', hk', hiso⟩ := IsoL.graft x l0 l1 l2 h k hk
    refine ⟨k', by simpa [numEdges] using hk', ?_⟩
    simp only [applyAt]
    refine IsoT.inner _ _ _ _ _ _ ?_ hiso
    intro hnil
    have := congrArg List.length hnil
    rw [applyAtL_length] at this
    exact hne (List.length_eq_zero_iff.mp (by simpa using this))
theorem IsoL.graft (x : String) (l0 l1 l2 : Rat) : ∀ {a b : Kids}, IsoL a b → ∀ k, k < numEdgesL a →
    ∃ k', k' < numEdgesL b ∧ IsoL (applyAtL (graftLen x l0 l1 l2) k a) (applyAtL (graftLen x l0 l1 l2) k' b)
  | _, _, .nil, k, hk => by simp [numEdgesL] at hk
  | _, _, .cons e e' t t' r r' ht hr, k, hk => by
    simp only [numEdgesL] at hk
    by_cases h0 : k = 0
    · subst h0
      refine ⟨0, by simp [numEdgesL]; omega, ?_⟩
      rw [applyAtL_head _ 0 e t r (by omega), applyAtL_head _ 0 e' t' r' (by omega)]
      simp only [blockApply, if_true]
      have := graftLen_isoT x l0 l1 l2 e e' t t' ht
      cases hg : graftLen x l0 l1 l2 (e, t) with
      | mk e1 t1 =>
        cases hg' : graftLen x l0 l1 l2 (e', t') with
        | mk e2 t2 =>
          rw [hg, hg'] at this
          exact IsoL.cons _ _ _ _ _ _ this hr
    · by_cases h1 : k < 1 + numEdges t
      · obtain ⟨k1, hk1, hiso⟩ := IsoT.graft x l0 l1 l2 ht (k - 1) (by omega)
        refine ⟨1 + k1, by simp only [numEdgesL]; omega, ?_⟩
        rw [applyAtL_head _ k e t r h1, applyAtL_head _ (1 + k1) e' t' r' (by omega)]
        have e1 : 1 + k1 - 1 = k1 := by omega
        have e2 : ¬ (1 + k1 = 0) := by omega
        simp only [blockApply, h0, e2, if_false, e1]
        exact IsoL.cons _ _ _ _ _ _ hiso hr
      · obtain ⟨k2, hk2, hiso⟩ := IsoL.graft x l0 l1 l2 hr (k - 1 - numEdges t) (by omega)
        refine ⟨1 + numEdges t' + k2, by simp only [numEdgesL]; omega, ?_⟩
        rw [applyAtL_tail _ k e t r (by omega), applyAtL_tail _ (1 + numEdges t' + k2) e' t' r' (by omega)]
        have e1 : 1 + numEdges t' + k2 - 1 - numEdges t' = k2 := by omega
        rw [e1]
        exact IsoL.cons _ _ _ _ _ _ ht hiso
  | _, _, .swap (ea, ta) (eb, tb) r, k, hk => by
    simp only [numEdgesL] at hk
    by_cases h1 : k < 1 + numEdges ta
    · -- inside the first block: it is the second block on the other side
      refine ⟨1 + numEdges tb + k, by simp only [numEdgesL]; omega, ?_⟩
      rw [applyAtL_head _ k ea ta _ h1, applyAtL_tail _ (1 + numEdges tb + k) eb tb _ (by omega)]
      have e1 : 1 + numEdges tb + k - 1 - numEdges tb = k := by omega
      rw [e1, applyAtL_head _ k ea ta r h1]
      exact IsoL.swap _ _ _
    · by_cases h2 : k < 1 + numEdges ta + (1 + numEdges tb)
      · -- inside the second block: first block on the other side
        refine ⟨k - 1 - numEdges ta, by simp only [numEdgesL]; omega, ?_⟩
        rw [applyAtL_tail _ k ea ta _ (by omega), applyAtL_head _ (k - 1 - numEdges ta) eb tb _ (by omega),
          applyAtL_head _ (k - 1 - numEdges ta) eb tb _ (by omega)]
        exact IsoL.swap _ _ _
      · -- behind both blocks
        refine ⟨k, by simp only [numEdgesL]; omega, ?_⟩
        rw [applyAtL_tail _ k ea ta _ (by omega), applyAtL_tail _ (k - 1 - numEdges ta) eb tb _ (by omega),
          applyAtL_tail _ k eb tb _ (by omega), applyAtL_tail _ (k - 1 - numEdges tb) ea ta _ (by omega)]
        have e1 : k - 1 - numEdges ta - 1 - numEdges tb = k - 1 - numEdges tb - 1 - numEdges ta := by omega
        rw [e1]
        exact IsoL.swap _ _ _
  | _, _, .trans a b c h1 h2, k, hk => by
    obtain ⟨k1, hk1, hi1⟩ := IsoL.graft x l0 l1 l2 h1 k hk
    obtain ⟨k2, hk2, hi2⟩ := IsoL.graft x l0 l1 l2 h2 k1 hk1
    exact ⟨k2, hk2, IsoL.trans _ _ _ hi1 hi2⟩
end

/-! ### pruning a tip: every tree is a graft of the tip on a smaller tree -/

/-- `t` (an inner binary node below branch `e`) holds the tip `x`: there is a smaller subtree `t'` and a
    branch index `k` inside the block of `(e, t')` such that grafting `x` there gives `t` back, up to
    child order -/
def PruneSpec (x : String) (l0 l1 l2 : Rat) (t : T) : Prop :=
  t.binaryBelow = true → t.leaves.Nodup → x ∈ t.leaves → t.kids ≠ [] → ∀ (e : EdgeD),
    ∃ t' k, t'.binaryBelow = true ∧ (x :: t'.leaves).Perm t.leaves ∧ k < 1 + numEdges t' ∧
      ∀ r, IsoL ((e, t) :: r) (applyAtL (graftLen x l0 l1 l2) k ((e, t') :: r))

theorem leaves_of_leaf (d : NodeD) (p : Nat) : (T.node d p []).leaves = [d.name] := by simp [T.leaves]

theorem prune_exists (x : String) (l0 l1 l2 : Rat) : ∀ (t : T), PruneSpec x l0 l1 l2 t := by
  apply T.induct
  intro d p ks ih hbin hnd hx hne e
  simp only [T.binaryBelow, Bool.and_eq_true, Bool.or_eq_true, beq_iff_eq] at hbin
  have hlen : ks.length = 2 := by
    rcases hbin.1 with h0 | h2
    · exact absurd (List.length_eq_zero_iff.mp h0) hne
    · exact h2
  match ks, hlen, ih, hbin, hnd, hx with
  | [(e1, a), (e2, b)], _, ih, hbin, hnd, hx =>
    have hba : a.binaryBelow = true := by have := hbin.2; simp only [binaryL, Bool.and_eq_true] at this; exact this.1
    have hbb : b.binaryBelow = true := by have := hbin.2; simp only [binaryL, Bool.and_eq_true] at this; exact this.2.1
    rw [leaves_node_cons] at hnd hx
    simp only [leavesL, List.append_nil] at hnd hx
    have hnda : a.leaves.Nodup := (List.nodup_append.mp hnd).1
    have hndb : b.leaves.Nodup := (List.nodup_append.mp hnd).2.1
    -- is `a` the tip x itself?
    by_cases hA : a.kids = [] ∧ a.name = x
    · -- case A: t' = b, graft on the branch itself
      cases a with
      | node da pa ka =>
        simp only [T.kids_node, T.name, T.d_node] at hA
        obtain ⟨rfl, hname⟩ := hA
        refine ⟨b, 0, hbb, ?_, by omega, ?_⟩
        · rw [leaves_node_cons]; simp only [leavesL, List.append_nil, leaves_of_leaf, hname]
          exact List.Perm.refl _
        · intro r
          rw [applyAtL_head _ 0 e b r (by omega)]
          simp only [blockApply, if_true]
          rw [graftLen_eq]
          exact IsoL.cons _ _ _ _ _ _
            (IsoT.inner _ _ _ _ _ _ (by simp)
              (IsoL.cons _ _ _ _ _ _ (IsoT.leaf _ _ _ _ (by simpa using hname)) (IsoL.cons _ _ _ _ _ _ (IsoT.refl b) IsoL.nil)))
            (IsoL.refl r)
    · by_cases hB : b.kids = [] ∧ b.name = x
      · -- case B: t' = a
        cases b with
        | node db pb kb =>
          simp only [T.kids_node, T.name, T.d_node] at hB
          obtain ⟨rfl, hname⟩ := hB
          refine ⟨a, 0, hba, ?_, by omega, ?_⟩
          · rw [leaves_node_cons]; simp only [leavesL, List.append_nil, leaves_of_leaf, hname]
            exact (List.perm_append_singleton _ _).symm
          · intro r
            rw [applyAtL_head _ 0 e a r (by omega)]
            simp only [blockApply, if_true]
            rw [graftLen_eq]
            refine IsoL.cons _ _ _ _ _ _ (IsoT.inner _ _ _ _ _ _ (by simp) ?_) (IsoL.refl r)
            exact IsoL.trans _ _ _ (IsoL.swap _ _ _)
              (IsoL.cons _ _ _ _ _ _ (IsoT.leaf _ _ _ _ (by simpa using hname)) (IsoL.cons _ _ _ _ _ _ (IsoT.refl a) IsoL.nil))
      · rcases List.mem_append.mp hx with hxa | hxb
        · -- case C: x is deeper inside a
          have hane : a.kids ≠ [] := by
            intro hk
            apply hA
            refine ⟨hk, ?_⟩
            cases a with
            | node da pa ka =>
              simp only [T.kids_node] at hk; subst hk
              rw [leaves_of_leaf] at hxa
              simpa [T.name] using (List.mem_singleton.mp hxa).symm
          obtain ⟨a', k1, hba', hpa, hk1, hiso⟩ := ih (e1, a) (by simp) hba hnda hxa hane e1
          refine ⟨.node d p [(e1, a'), (e2, b)], 1 + k1, ?_, ?_, ?_, ?_⟩
          · simp [T.binaryBelow, binaryL, hba', hbb]
          · rw [leaves_node_cons, leaves_node_cons]; simp only [leavesL, List.append_nil]
            exact List.Perm.append_right _ hpa
          · simp only [numEdges, numEdgesL]; omega
          · intro r
            rw [applyAtL_head _ (1 + k1) e _ r (by simp only [numEdges, numEdgesL]; omega)]
            have e1' : 1 + k1 - 1 = k1 := by omega
            have e2' : ¬ (1 + k1 = 0) := by omega
            simp only [blockApply, e2', if_false, e1', applyAt]
            exact IsoL.cons _ _ _ _ _ _ (IsoT.inner _ _ _ _ _ _ (by simp) (hiso [(e2, b)])) (IsoL.refl r)
        · -- case D: x is deeper inside b
          have hbne : b.kids ≠ [] := by
            intro hk
            apply hB
            refine ⟨hk, ?_⟩
            cases b with
            | node db pb kb =>
              simp only [T.kids_node] at hk; subst hk
              rw [leaves_of_leaf] at hxb
              simpa [T.name] using (List.mem_singleton.mp hxb).symm
          obtain ⟨b', k2, hbb', hpb, hk2, hiso⟩ := ih (e2, b) (by simp) hbb hndb hxb hbne e2
          refine ⟨.node d p [(e1, a), (e2, b')], 1 + (1 + numEdges a + k2), ?_, ?_, ?_, ?_⟩
          · simp [T.binaryBelow, binaryL, hba, hbb']
          · rw [leaves_node_cons, leaves_node_cons]; simp only [leavesL, List.append_nil]
            exact (List.perm_middle.symm).trans (List.Perm.append_left _ hpb)
          · simp only [numEdges, numEdgesL]; omega
          · intro r
            rw [applyAtL_head _ _ e _ r (by simp only [numEdges, numEdgesL]; omega)]
            have e1' : 1 + (1 + numEdges a + k2) - 1 = 1 + numEdges a + k2 := by omega
            have e2' : ¬ (1 + (1 + numEdges a + k2) = 0) := by omega
            simp only [blockApply, e2', if_false, e1', applyAt]
            rw [applyAtL_tail _ _ e1 a _ (by omega)]
            have e3 : 1 + numEdges a + k2 - 1 - numEdges a = k2 := by omega
            rw [e3]
            exact IsoL.cons _ _ _ _ _ _
              (IsoT.inner _ _ _ _ _ _ (by simp) (IsoL.cons _ _ _ _ _ _ (IsoT.refl a) (hiso [])))
              (IsoL.refl r)

/-- the same for a list of children (the root's): the child holding `x` is an inner node -/
theorem pruneL_exists (x : String) (l0 l1 l2 : Rat) : ∀ (ks : Kids), binaryL ks = true → (leavesL ks).Nodup →
    x ∈ leavesL ks → (∀ et ∈ ks, x ∈ et.2.leaves → et.2.kids ≠ []) →
    ∃ ks' k, binaryL ks' = true ∧ ks'.length = ks.length ∧ (x :: leavesL ks').Perm (leavesL ks) ∧
      k < numEdgesL ks' ∧ IsoL ks (applyAtL (graftLen x l0 l1 l2) k ks')
  | [], _, _, hx, _ => by simp [leavesL] at hx
  | (e, t) :: r, hb, hn, hx, hin => by
    simp only [binaryL, Bool.and_eq_true] at hb
    simp only [leavesL] at hn hx
    by_cases hxt : x ∈ t.leaves
    · obtain ⟨t', k, hbt', hp, hk, hiso⟩ := prune_exists x l0 l1 l2 t hb.1 (List.nodup_append.mp hn).1 hxt
        (hin (e, t) (by simp) hxt) e
      refine ⟨(e, t') :: r, k, by simp [binaryL, hbt', hb.2], by simp, ?_, by simp only [numEdgesL]; omega, hiso r⟩
      simp only [leavesL]
      exact List.Perm.append_right _ hp
    · have hxr : x ∈ leavesL r := by
        rcases List.mem_append.mp hx with h | h
        · exact absurd h hxt
        · exact h
      obtain ⟨r', kr, hbr', hlen, hp, hk, hiso⟩ := pruneL_exists x l0 l1 l2 r hb.2 (List.nodup_append.mp hn).2.1 hxr
        (fun et het => hin et (List.mem_cons_of_mem _ het))
      refine ⟨(e, t) :: r', 1 + numEdges t + kr, by simp [binaryL, hb.1, hbr'], by simp [hlen], ?_,
        by simp only [numEdgesL]; omega, ?_⟩
      · simp only [leavesL]
        exact (List.perm_middle.symm).trans (List.Perm.append_left _ hp)
      · rw [applyAtL_tail _ _ e t r' (by omega)]
        have e1 : 1 + numEdges t + kr - 1 - numEdges t = kr := by omega
        rw [e1]
        exact IsoL.cons _ _ _ _ _ _ (IsoT.refl t) hiso

/-! ### lists of tips -/

/-- two lists of tips (children that are leaves) with the same names up to order are isomorphic -/
theorem isoL_of_tips : ∀ {na nb : List String}, na.Perm nb → ∀ (fa fb : String → EdgeD),
    IsoL (na.map fun x => (fa x, T.leaf x)) (nb.map fun x => (fb x, T.leaf x)) := by
  intro na nb h
  induction h with
  | nil => intro fa fb; exact IsoL.nil
  | cons x _ ih => intro fa fb; exact IsoL.cons _ _ _ _ _ _ (IsoT.refl _) (ih fa fb)
  | swap x y l =>
    intro fa fb
    refine IsoL.trans _ _ _ (IsoL.swap _ _ _) ?_
    refine IsoL.cons _ _ _ _ _ _ (IsoT.refl _) (IsoL.cons _ _ _ _ _ _ (IsoT.refl _) ?_)
    clear x y
    induction l with
    | nil => exact IsoL.nil
    | cons z l ihl => exact IsoL.cons _ _ _ _ _ _ (IsoT.refl _) ihl
  | trans _ _ ih1 ih2 => intro fa fb; exact IsoL.trans _ _ _ (ih1 fa fa) (ih2 fa fb)

/-- a list of children all of which are leaves is the list of tips of their names -/
theorem kids_all_leaves : ∀ (ks : Kids), (∀ et ∈ ks, et.2.kids = []) →
    IsoL ks ((leavesL ks).map fun x => (EdgeD.blank, T.leaf x))
  | [], _ => by simp [leavesL]; exact IsoL.nil
  | (e, .node d p k) :: r, h => by
    have hk : k = [] := h (e, .node d p k) (by simp)
    subst hk
    have ih := kids_all_leaves r (fun et het => h et (List.mem_cons_of_mem _ het))
    simp only [leavesL, leaves_of_leaf, List.singleton_append, List.map_cons]
    exact IsoL.cons _ _ _ _ _ _ (IsoT.leaf _ _ _ _ (by simp [T.leaf])) ih

/-! ### the induction: every tree with the invariant is one of the backtracking trees -/

theorem mem_raw_succ (nm : Nat → String) : ∀ (f : Nat) (t : T) (total : Nat) (v : T) (k : Nat),
    v ∈ allTopoRaw nm f t total → k < numEdges v →
    applyAt (graftLen (nm (total + f)) NIL NIL NIL) k v ∈ allTopoRaw nm (f + 1) t total
  | 0, t, total, v, k, hv, hk => by
    simp only [allTopoRaw, List.mem_singleton] at hv
    subst hv
    simp only [allTopoRaw, List.mem_flatMap, List.mem_range, List.mem_singleton, Nat.add_zero]
    exact ⟨k, hk, rfl⟩
  | f + 1, t, total, v, k, hv, hk => by
    simp only [allTopoRaw, List.mem_flatMap, List.mem_range] at hv
    obtain ⟨j, hj, hv'⟩ := hv
    have ih := mem_raw_succ nm f _ (total + 1) v k hv' hk
    have e : total + 1 + f = total + (f + 1) := by omega
    rw [e] at ih
    rw [allTopoRaw]
    simp only [List.mem_flatMap, List.mem_range]
    exact ⟨j, hj, ih⟩

theorem Q3_of_famEq {a b c : String} {A B : List (List String)} (q : Q3 a b c A) (h : FamEq A B) : Q3 a b c B := by
  intro S hS
  obtain ⟨S0, hS0, he⟩ := h.2 S hS
  have q0 := q S0 hS0
  refine ⟨fun hh => q0.1 ⟨(he a).mpr hh.1, (he b).mpr hh.2⟩, fun hh => q0.2.1 ⟨(he a).mpr hh.1, (he c).mpr hh.2⟩,
    fun hh => q0.2.2 ⟨(he b).mpr hh.1, (he c).mpr hh.2⟩⟩

/-- the members of the family before a graft are parts of members after it -/
theorem Q3_before_graft (a b c x : String) (l0 l1 l2 : Rat) (ks : Kids) (k : Nat) (hk : k < numEdgesL ks)
    (hx : x ∉ leavesL ks) (q : Q3 a b c (belowsL (applyAtL (graftLen x l0 l1 l2) k ks))) : Q3 a b c (belowsL ks) := by
  intro S hS
  obtain ⟨S', hS', hf⟩ := belowsL_graft_old x l0 l1 l2 ks k hk hx S hS
  have q' := q S' hS'
  have sub : ∀ y, y ∈ S → y ∈ S' := by
    intro y hy; rw [← hf] at hy; exact (List.mem_filter.mp hy).1
  exact ⟨fun hh => q'.1 ⟨sub _ hh.1, sub _ hh.2⟩, fun hh => q'.2.1 ⟨sub _ hh.1, sub _ hh.2⟩,
    fun hh => q'.2.2 ⟨sub _ hh.1, sub _ hh.2⟩⟩

theorem leavesL_length_ge : ∀ (ks : Kids), ks.length ≤ (leavesL ks).length
  | [] => by simp [leavesL]
  | (e, t) :: r => by
    have := leavesL_length_ge r
    have h1 : 1 ≤ t.leaves.length := List.length_pos_iff.mpr (leaves_ne_nil t)
    simp only [leavesL, List.length_cons, List.length_append]; omega

theorem leaf_of_one_leaf (t : T) (hb : t.binaryBelow = true) (h : t.leaves.length = 1) : t.kids = [] := by
  cases t with
  | node d p ks =>
    simp only [T.binaryBelow, Bool.and_eq_true, Bool.or_eq_true, beq_iff_eq] at hb
    rcases hb.1 with h0 | h2
    · simpa using List.length_eq_zero_iff.mp h0
    · exfalso
      rw [leaves_node_of_pos _ _ _ (by omega)] at h
      have := leavesL_length_ge ks
      omega

theorem all_leaves_of_count : ∀ (ks : Kids), binaryL ks = true → (leavesL ks).length ≤ ks.length →
    ∀ et ∈ ks, et.2.kids = []
  | [], _, _, _, h => by simp at h
  | (e, t) :: r, hb, hl, et, het => by
    simp only [binaryL, Bool.and_eq_true] at hb
    have h1 : 1 ≤ t.leaves.length := List.length_pos_iff.mpr (leaves_ne_nil t)
    have h2 := leavesL_length_ge r
    simp only [leavesL, List.length_cons, List.length_append] at hl
    rcases List.mem_cons.mp het with rfl | h
    · exact leaf_of_one_leaf t hb.1 (by omega)
    · exact all_leaves_of_count r hb.2 (by omega) et h

/-- at the start of the enumeration there is only one tree -/
theorem init_iso (nm : Nat → String) (rooted : Bool) (s : T)
    (h : TI nm (if rooted then 1 else 3) (topoInit nm rooted).2 s) : IsoL s.kids (topoInit nm rooted).1.kids := by
  have hlen : (leavesL s.kids).length = s.kids.length := by
    have := h.leaves.length_eq
    rw [this, h.deg]
    cases rooted <;> simp [topoInit, namesUpTo]
  have hall := all_leaves_of_count s.kids h.bin (by omega)
  refine IsoL.trans _ _ _ (kids_all_leaves s.kids hall) ?_
  have hp := h.leaves
  cases rooted with
  | false =>
    have : (topoInit nm false).1.kids = (namesUpTo nm 3).map fun x => (newEdge NIL, T.leaf x) := by
      simp [topoInit, namesUpTo, List.range_succ]
    rw [this]
    exact isoL_of_tips hp _ _
  | true =>
    have : (topoInit nm true).1.kids = (namesUpTo nm 1).map fun x => (newEdge NIL, T.leaf x) := by
      simp [topoInit, namesUpTo, List.range_succ]
    rw [this]
    exact isoL_of_tips hp _ _

/-- the child of the root that holds the new tip is an inner node -/
theorem root_child_inner (nm : Nat → String) (N : Nat) (hinj : InjTo nm N) (rooted : Bool) (n : Nat) (s : T)
    (hn : (topoInit nm rooted).2 ≤ n) (hN : n < N) (h : TI nm (if rooted then 1 else 3) (n + 1) s)
    (hq : rooted = false → Q3 (nm 0) (nm 1) (nm 2) (belowsL s.kids)) :
    ∀ et ∈ s.kids, nm n ∈ et.2.leaves → et.2.kids ≠ [] := by
  intro et het hx hnil
  have hleaf : et.2.leaves = [nm n] := by
    cases hh : et.2 with
    | node d p k =>
      rw [hh] at hnil hx
      simp only [T.kids_node] at hnil; subst hnil
      rw [leaves_of_leaf] at hx ⊢
      rw [List.mem_singleton.mp hx]
  have hmemL : ∀ y, y ∈ namesUpTo nm (n + 1) → y ∈ leavesL s.kids := fun y hy => h.leaves.symm.subset hy
  have hnm : ∀ i, i < n + 1 → nm i ∈ namesUpTo nm (n + 1) := fun i hi =>
    List.mem_map.mpr ⟨i, List.mem_range.mpr hi, rfl⟩
  cases rooted with
  | true =>
    -- the single child holds every tip; there are at least two
    simp only [if_true] at h
    simp only [topoInit, if_true] at hn
    match hk : s.kids, h.deg with
    | [(e, c)], _ =>
      rw [hk] at het
      have : et = (e, c) := by simpa using het
      subst this
      have h0 := hmemL (nm 0) (hnm 0 (by omega))
      rw [hk] at h0
      simp only [leavesL, List.append_nil, hleaf, List.mem_singleton] at h0
      have := hinj 0 n (by omega) (by omega) h0
      omega
  | false =>
    simp only [Bool.false_eq_true, if_false] at h
    simp only [topoInit, Bool.false_eq_true, if_false] at hn
    have q := hq rfl
    have hne : ∀ i, i < 3 → nm i ≠ nm n := fun i hi e => by have := hinj i n (by omega) (by omega) e; omega
    match hk : s.kids, h.deg with
    | [(e1, c1), (e2, c2), (e3, c3)], _ =>
      rw [hk] at het q
      have hm := fun i (hi : i < 3) => hmemL (nm i) (hnm i (by omega))
      simp only [hk, leavesL, List.append_nil, List.mem_append] at hm
      have q1 := q c1.leaves (by simp [belowsL])
      have q2 := q c2.leaves (by simp [belowsL])
      have q3 := q c3.leaves (by simp [belowsL])
      have m0 := hm 0 (by omega); have m1 := hm 1 (by omega); have m2 := hm 2 (by omega)
      simp only [List.mem_cons, List.not_mem_nil, or_false] at het
      rcases het with rfl | rfl | rfl
      · simp only [hleaf, List.mem_singleton] at m0 m1 m2
        have n0 := hne 0 (by omega); have n1 := hne 1 (by omega); have n2 := hne 2 (by omega)
        rcases m0 with h0 | h0 | h0 <;> rcases m1 with h1 | h1 | h1 <;> rcases m2 with h2 | h2 | h2 <;>
          first
          | exact absurd h0 n0 | exact absurd h1 n1 | exact absurd h2 n2
          | exact q2.1 ⟨h0, h1⟩ | exact q2.2.1 ⟨h0, h2⟩ | exact q2.2.2 ⟨h1, h2⟩
          | exact q3.1 ⟨h0, h1⟩ | exact q3.2.1 ⟨h0, h2⟩ | exact q3.2.2 ⟨h1, h2⟩
      · simp only [hleaf, List.mem_singleton] at m0 m1 m2
        have n0 := hne 0 (by omega); have n1 := hne 1 (by omega); have n2 := hne 2 (by omega)
        rcases m0 with h0 | h0 | h0 <;> rcases m1 with h1 | h1 | h1 <;> rcases m2 with h2 | h2 | h2 <;>
          first
          | exact absurd h0 n0 | exact absurd h1 n1 | exact absurd h2 n2
          | exact q1.1 ⟨h0, h1⟩ | exact q1.2.1 ⟨h0, h2⟩ | exact q1.2.2 ⟨h1, h2⟩
          | exact q3.1 ⟨h0, h1⟩ | exact q3.2.1 ⟨h0, h2⟩ | exact q3.2.2 ⟨h1, h2⟩
      · simp only [hleaf, List.mem_singleton] at m0 m1 m2
        have n0 := hne 0 (by omega); have n1 := hne 1 (by omega); have n2 := hne 2 (by omega)
        rcases m0 with h0 | h0 | h0 <;> rcases m1 with h1 | h1 | h1 <;> rcases m2 with h2 | h2 | h2 <;>
          first
          | exact absurd h0 n0 | exact absurd h1 n1 | exact absurd h2 n2
          | exact q1.1 ⟨h0, h1⟩ | exact q1.2.1 ⟨h0, h2⟩ | exact q1.2.2 ⟨h1, h2⟩
          | exact q2.1 ⟨h0, h1⟩ | exact q2.2.1 ⟨h0, h2⟩ | exact q2.2.2 ⟨h1, h2⟩

/-- EXHAUSTIVENESS at the level of the backtracking: every tree with the invariant (binary below the
    root, root of the enumeration's degree, tips = the first names; unrooted: seen from the node
    joining the first three tips) is, up to the order of children, one of the trees on which the
    enumeration calls `Clone` -/
theorem raw_surj (nm : Nat → String) (N : Nat) (hinj : InjTo nm N) (rooted : Bool) :
    ∀ (f : Nat), (topoInit nm rooted).2 + f ≤ N → ∀ (s : T),
      TI nm (if rooted then 1 else 3) ((topoInit nm rooted).2 + f) s →
      (rooted = false → Q3 (nm 0) (nm 1) (nm 2) (belowsL s.kids)) →
      ∃ v ∈ allTopoRaw nm f (topoInit nm rooted).1 (topoInit nm rooted).2, IsoL s.kids v.kids
  | 0, _, s, h, _ => by
    refine ⟨(topoInit nm rooted).1, by simp [allTopoRaw], ?_⟩
    exact init_iso nm rooted s (by simpa using h)
  | f + 1, hN, s, h, hq => by
    have e0 : (topoInit nm rooted).2 + (f + 1) = (topoInit nm rooted).2 + f + 1 := by omega
    rw [e0] at h
    let n := (topoInit nm rooted).2 + f
    have hfresh : nm n ∉ namesUpTo nm n := next_not_mem nm N n hinj (by omega)
    have hnd : (leavesL s.kids).Nodup := h.nodup N hinj (by omega)
    have hx : nm n ∈ leavesL s.kids := by
      apply h.leaves.symm.subset
      rw [namesUpTo_succ]; exact List.mem_append_right _ (List.mem_singleton.mpr rfl)
    have hroot := root_child_inner nm N hinj rooted n s (by omega) (by omega) h hq
    obtain ⟨ks', k, hb', hlen', hp', hk', hiso⟩ := pruneL_exists (nm n) NIL NIL NIL s.kids h.bin hnd hx hroot
    -- the pruned tree has the invariant for one tip less
    have hp2 : (leavesL ks').Perm (namesUpTo nm n) := by
      have h1 : (nm n :: leavesL ks').Perm (namesUpTo nm n ++ [nm n]) := by
        rw [← namesUpTo_succ]; exact hp'.trans h.leaves
      exact (h1.trans (List.perm_append_singleton _ _)).cons_inv
    have hxn : nm n ∉ leavesL ks' := fun hm => hfresh (hp2.subset hm)
    have hTI : TI nm (if rooted then 1 else 3) n (.node newNodeD 0 ks') :=
      ⟨hb', by simpa [hlen'] using h.deg, hp2⟩
    have hq' : rooted = false → Q3 (nm 0) (nm 1) (nm 2) (belowsL (T.node newNodeD 0 ks').kids) := by
      intro hr
      exact Q3_before_graft _ _ _ (nm n) NIL NIL NIL ks' k hk' hxn (Q3_of_famEq (hq hr) (IsoL.famEq hiso))
    obtain ⟨v', hv', hiso'⟩ := raw_surj nm N hinj rooted f (by omega) (.node newNodeD 0 ks') hTI hq'
    simp only [T.kids_node] at hiso'
    obtain ⟨k2, hk2, hiso2⟩ := IsoL.graft (nm n) NIL NIL NIL hiso' k hk'
    refine ⟨applyAt (graftLen (nm n) NIL NIL NIL) k2 v', ?_, ?_⟩
    · exact mem_raw_succ nm f _ _ v' k2 hv' (by rw [numEdges_kids]; exact hk2)
    · rw [applyAt_kids]
      exact IsoL.trans _ _ _ hiso hiso2

end Gotree.C16
