/-
  C06 — `rmNode` / `rmKids` / `removeTip` / the loop of `RemoveTips` produce the
  relation `Ind K` (split list with branch data, seen from the kept taxa `K`).
  Core Lean only.
-/
import Gotree.Lemmas.C06Data

namespace Gotree.C06
open Gotree Gotree.C14

theorem lightSize_leaf (K : List String) (c : T) (h : c.isLeaf = true) : ¬ 2 ≤ lightSize K c.leaves := by
  have hk : c.kids = [] := by
    obtain ⟨d, p, k⟩ := c
    simpa [T.isLeaf] using h
  rw [leaves_of_leaf c hk]
  unfold lightSize
  simp only
  have : ([c.name].filter K.contains).length ≤ 1 := List.length_filter_le _ _
  omega

theorem flag_of_leaf (K : List String) (c : T) : 2 ≤ lightSize K c.leaves → (!c.isLeaf) = true := by
  intro h
  cases hl : c.isLeaf with
  | true => exact absurd h (lightSize_leaf K c hl)
  | false => rfl

def OutInd (K : List String) (t : T) : Out → Prop
  | .notFound => True
  | .repl t' => Ind K t.splitsBelow t'.splitsBelow
  | .gone => True
  | .splice e c => Ind K t.splitsBelow (⟨c.leaves, e, c.isLeaf⟩ :: c.splitsBelow)

def KOutInd (K : List String) (k : Kids) : KOut → Prop
  | .notFound => True
  | .set ks => Ind K (splitsL k) (splitsL ks)
  | .del _ ks => Ind K (splitsL k) (splitsL ks)
  | .spl _ ks ei e c =>
    ∀ b, (2 ≤ lightSize K c.leaves → b = true) →
      Ind K (splitsL k) (splitsL ks ++ (⟨c.leaves, fuseEdge ei e b, c.isLeaf⟩ :: c.splitsBelow))

theorem finishNode_ind (K : List String) (d : NodeD) (p : Nat) (k : Kids) (ko : KOut)
    (h : KOutInd K k ko) : OutInd K (.node d p k) (finishNode d p ko) := by
  cases ko with
  | notFound => trivial
  | set ks => exact h
  | spl i ks ei e c =>
    show Ind K (splitsL k) (splitsL (ks ++ [(fuseEdge ei e (!c.isLeaf), c)]))
    rw [splitsL_append, splitsL_single]; exact h _ (flag_of_leaf K c)
  | del i ks =>
    match ks, h with
    | [], _ => trivial
    | [(e, c)], h =>
      show Ind K (splitsL k) (⟨(reattach c).leaves, e, (reattach c).isLeaf⟩ :: (reattach c).splitsBelow)
      have h' : Ind K (splitsL k) (splitsL [(e, c)]) := h
      simpa [splitsL_single] using h'
    | a :: b :: r, h => exact h

theorem mem_K_of_eqv {K : List String} {x : String} (hx : x ∉ K) {A B : List String} (h : eqv x A B) :
    ∀ a ∈ K, (a ∈ A ↔ a ∈ B) := fun a ha => h a (fun e => hx (e ▸ ha))

mutual
theorem rmNode_ind (K : List String) (x : String) (hx : x ∉ K) :
    ∀ t : T, t.leaves.Nodup → OutInd K t (rmNode x t)
  | .node d p [], _ => by
    simp only [rmNode]; split <;> trivial
  | .node d p (k :: ks), h => by
    simp only [rmNode]
    exact finishNode_ind K d p _ _ (rmKids_ind K x hx (k :: ks) (by simpa [T.leaves] using h))
theorem rmKids_ind (K : List String) (x : String) (hx : x ∉ K) :
    ∀ k : Kids, (leavesL k).Nodup → KOutInd K k (rmKids x k)
  | [], _ => by simp [rmKids, KOutInd]
  | (e, t) :: r, hnd => by
    have hnd' := hnd
    simp only [leavesL, List.nodup_append] at hnd'
    have ht : t.leaves.Nodup := hnd'.1
    have hr : (leavesL r).Nodup := hnd'.2.1
    have h1 := rmNode_ind K x hx t ht
    have h2 := rmKids_ind K x hx r hr
    have l1 := rmNode_leaves x t
    simp only [rmKids]
    cases hn : rmNode x t with
    | repl t' =>
      rw [hn] at h1 l1
      show Ind K (splitsL ((e, t) :: r)) (splitsL ((e, t') :: r))
      rw [splitsL_cons, splitsL_cons]
      have ht' : t'.leaves.Nodup := l1.2.1.nodup_iff.2 (ht.erase x)
      exact Ind.append (Ind.single _ _ ht ht' (mem_K_of_eqv hx (eqv_of_perm_erase l1.2.1).symm') rfl)
        (Ind.append h1 (Ind.refl _))
    | gone =>
      rw [hn] at l1
      simp only [OutLeaves] at l1
      show Ind K (splitsL ((e, t) :: r)) (splitsL r)
      rw [splitsL_cons]
      have hd : Ind K [(⟨t.leaves, e, t.isLeaf⟩ : SplitE)] [] := Ind.drop _ (by
        intro s hs a ha hm
        simp at hs; subst hs
        simp [l1] at hm; exact hx (hm ▸ ha))
      have hd2 : Ind K t.splitsBelow [] := Ind.drop _ (by
        intro s hs a ha hm
        have := below_sub t s hs a hm
        rw [l1] at this; simp at this; exact hx (this ▸ ha))
      have := Ind.append hd (Ind.append hd2 (Ind.refl (splitsL r)))
      simpa using this
    | splice e' c =>
      rw [hn] at h1 l1
      intro b hb
      show Ind K (splitsL ((e, t) :: r)) (splitsL r ++ (⟨c.leaves, fuseEdge e e' b, c.isLeaf⟩ :: c.splitsBelow))
      rw [splitsL_cons]
      have hc : c.leaves.Nodup := l1.2.nodup_iff.2 (ht.erase x)
      have s1 : Ind K ([(⟨t.leaves, e, t.isLeaf⟩ : SplitE)] ++ (t.splitsBelow ++ splitsL r))
          ([(⟨t.leaves, e, t.isLeaf⟩ : SplitE)] ++ ((⟨c.leaves, e', c.isLeaf⟩ :: c.splitsBelow) ++ splitsL r)) :=
        Ind.append (Ind.refl _) (Ind.append h1 (Ind.refl _))
      have hf : Ind K [(⟨t.leaves, e, t.isLeaf⟩ : SplitE), ⟨c.leaves, e', c.isLeaf⟩]
          [(⟨c.leaves, fuseEdge e e' b, c.isLeaf⟩ : SplitE)] :=
        Ind.fuse _ _ ⟨c.leaves, fuseEdge e e' b, c.isLeaf⟩ ht hc hc
          (Or.inl (mem_K_of_eqv hx (eqv_of_perm_erase l1.2).symm')) (sameSplit.rfl' _ _) b hb (Or.inl rfl)
      have s2 : Ind K ([(⟨t.leaves, e, t.isLeaf⟩ : SplitE), ⟨c.leaves, e', c.isLeaf⟩] ++ (c.splitsBelow ++ splitsL r))
          ([(⟨c.leaves, fuseEdge e e' b, c.isLeaf⟩ : SplitE)] ++ (c.splitsBelow ++ splitsL r)) :=
        Ind.append hf (Ind.refl _)
      have s3 := Ind.swap (K := K) ((⟨c.leaves, fuseEdge e e' b, c.isLeaf⟩ : SplitE) :: c.splitsBelow) (splitsL r)
      have s12 := Ind.trans s1 (by simpa using s2)
      exact Ind.trans s12 (by simpa using s3)
    | notFound =>
      cases hk : rmKids x r with
      | notFound => trivial
      | set ks' =>
        rw [hk] at h2
        show Ind K (splitsL ((e, t) :: r)) (splitsL ((e, t) :: ks'))
        rw [splitsL_cons, splitsL_cons]
        exact Ind.append (Ind.refl _) (Ind.append (Ind.refl _) h2)
      | del i ks' =>
        rw [hk] at h2
        show Ind K (splitsL ((e, t) :: r)) (splitsL ((e, t) :: ks'))
        rw [splitsL_cons, splitsL_cons]
        exact Ind.append (Ind.refl _) (Ind.append (Ind.refl _) h2)
      | spl i ks' ei e' c =>
        rw [hk] at h2
        intro b hb
        show Ind K (splitsL ((e, t) :: r))
          (splitsL ((e, t) :: ks') ++ (⟨c.leaves, fuseEdge ei e' b, c.isLeaf⟩ :: c.splitsBelow))
        rw [splitsL_cons, splitsL_cons]
        have := Ind.append (Ind.refl (K := K) [(⟨t.leaves, e, t.isLeaf⟩ : SplitE)])
          (Ind.append (Ind.refl t.splitsBelow) (h2 b hb))
        simpa [List.append_assoc] using this
end

/-! ## the root level -/

/-- the two branches of a suppressed root are fused into the branch of the second child -/
theorem Ind.fuseRoot {K : List String} (h0 h1 hf : SplitE) (K0 K1 : List SplitE)
    (hf' : Ind K [h0, h1] [hf]) :
    Ind K ([h0] ++ (K0 ++ ([h1] ++ K1))) (K0 ++ ([hf] ++ K1)) := by
  -- [h0] ++ (K0 ++ ([h1] ++ K1))  →  (K0 ++ ([h1] ++ K1)) ++ [h0]
  have a1 := Ind.swap (K := K) [h0] (K0 ++ ([h1] ++ K1))
  -- ([h1] ++ K1) ++ [h0]  →  [h0] ++ ([h1] ++ K1)
  have a2 := Ind.swap (K := K) ([h1] ++ K1) [h0]
  have a3 : Ind K ([h0] ++ ([h1] ++ K1)) ([hf] ++ K1) := by
    have := Ind.append hf' (Ind.refl K1)
    simpa using this
  have a4 : Ind K (K0 ++ (([h1] ++ K1) ++ [h0])) (K0 ++ ([hf] ++ K1)) :=
    Ind.append (Ind.refl K0) (Ind.trans a2 a3)
  exact Ind.trans a1 (by simpa [List.append_assoc] using a4)

/-- One `removeTip` on a well-formed tree with unique tips, ≥ 3 tips remaining: the split
    list with its data, seen from any set `K` of remaining tips. -/
theorem removeTip_ind (x : String) (t : T) (hroot : t.kids.length ≠ 1) (hns : t.noSingle = true)
    (hnd : t.tipNames.Nodup) (hcount : 4 ≤ t.tipNames.length) (t' : T) (h : removeTip x t = .ok t')
    (K : List String) (hK : ∀ a ∈ K, a ∈ t'.tipNames) : Ind K t.splits t'.splits := by
  obtain ⟨t'', e1, hperm, _, hr'⟩ := removeTip_spec x t hroot hns hcount
  rw [h] at e1
  cases e1
  have hnd' : t'.tipNames.Nodup := hperm.nodup_iff.2 (hnd.erase x)
  have hx : x ∉ K := by
    intro hm
    have := hperm.mem_iff.1 (hK x hm)
    exact (hnd.mem_erase_iff.1 this).1 rfl
  obtain ⟨d, p, kids⟩ := t
  simp only [T.kids_node] at hroot
  have hndk : (leavesL kids).Nodup := by
    rw [tipNames_of_ne1 _ (by simpa using hroot)] at hnd; exact hnd
  have E := rmKids_ind K x hx kids hndk
  have hr1 : (kids.length == 1) = false := by simp [hroot]
  simp only [removeTip, hr1, Bool.false_and, Bool.false_eq_true, if_false] at h
  rw [splits_node]
  cases hk : rmKids x kids with
  | notFound =>
    rw [hk] at h; cases h
    exact Ind.refl _
  | set ks =>
    rw [hk] at h E; cases h
    exact E
  | spl i ks ei e c =>
    rw [hk] at h E; cases h
    rw [splits_node, splitsL_append, splitsL_single]
    refine E _ ?_
    intro h2
    have hc := flag_of_leaf K c h2
    have hks : ks ≠ [] := by
      intro h0
      rw [h0] at hr'
      exact hr' (by simp)
    have hpos : 0 < ks.length := List.length_pos_iff.2 hks
    simp [hc, hpos]
  | del i ks =>
    rw [hk] at h E
    have E' : Ind K (splitsL kids) (splitsL ks) := E
    match ks, h, E' with
    | [], h, E' => cases h; exact E'
    | [(e, c)], h, E' =>
      cases h
      rw [splits_node]
      rw [splitsL_single] at E'
      refine Ind.trans E' ?_
      rw [← splitsBelow_eq c]
      simp only [T.kids_node] at hr'
      have hall : ∀ a ∈ K, a ∈ c.leaves := by
        intro a ha
        have := hK a ha
        rw [tipNames_of_ne1 _ (by simpa using hr')] at this
        simp only [T.kids_node] at this
        by_cases hc : c.kids = []
        · rw [hc] at this; simp [leavesL] at this
        · rw [leaves_of_inner c hc]; exact this
      have hcn : c.leaves.Nodup := by
        by_cases hc : c.kids = []
        · rw [leaves_of_leaf c hc]; simp
        · rw [tipNames_of_ne1 _ (by simpa using hr')] at hnd'
          simp only [T.kids_node] at hnd'
          rw [leaves_of_inner c hc]; exact hnd'
      have := Ind.append (Ind.dropTop (K := K) ⟨c.leaves, e, c.isLeaf⟩ hcn hall) (Ind.refl c.splitsBelow)
      simpa using this
    | [(e0, k0), (e1, k1)], h, E' =>
      have hL : splitsL [(e0, k0), (e1, k1)] =
          [(⟨k0.leaves, e0, k0.isLeaf⟩ : SplitE)] ++ (k0.splitsBelow ++ ([(⟨k1.leaves, e1, k1.isLeaf⟩ : SplitE)] ++ k1.splitsBelow)) := by
        simp [splitsL]
      rw [hL] at E'
      by_cases h0 : k0.kids.length > 1
      · simp only [h0, if_true] at h
        cases h
        have hk0 : k0.kids ≠ [] := by intro h'; rw [h'] at h0; simp at h0
        refine Ind.trans E' ?_
        rw [splits_node, splitsL_append, splitsL_single, ← splitsBelow_eq k0]
        simp only [reattach_leaves, reattach_isLeaf, reattach_splitsBelow]
        have hall : (T.node k0.d 0 (k0.kids ++ [(fuseEdge e0 e1 (!k1.isLeaf), reattach k1)])).tipNames
            = k0.leaves ++ k1.leaves := by
          rw [tipNames_of_ne1 _ (by simpa using hr')]
          simp [leavesL_append, leavesL_single, leaves_of_inner k0 hk0]
        rw [hall] at hnd' hK
        have hdis := disjoint_of_nodup_append hnd'
        have n0 : k0.leaves.Nodup := (List.nodup_append.1 hnd').1
        have n1 : k1.leaves.Nodup := (List.nodup_append.1 hnd').2.1
        have hf := Ind.fuse (K := K) ⟨k0.leaves, e0, k0.isLeaf⟩ ⟨k1.leaves, e1, k1.isLeaf⟩
          ⟨k1.leaves, fuseEdge e0 e1 (!k1.isLeaf), k1.isLeaf⟩ n0 n1 n1
          (Or.inr fun a ha => hdis a (hK a ha)) (sameSplit.rfl' _ _) (!k1.isLeaf) (flag_of_leaf K k1) (Or.inl rfl)
        have := Ind.fuseRoot _ _ _ k0.splitsBelow k1.splitsBelow hf
        simpa using this
      · simp only [h0, if_false] at h
        by_cases h1 : k1.kids.length > 1
        · simp only [h1, if_true] at h
          cases h
          have hk1 : k1.kids ≠ [] := by intro h'; rw [h'] at h1; simp at h1
          refine Ind.trans E' ?_
          rw [splits_node, splitsL_append, splitsL_single, ← splitsBelow_eq k1]
          simp only [reattach_leaves, reattach_isLeaf, reattach_splitsBelow]
          have hall : (T.node k1.d 0 (k1.kids ++ [(fuseEdge e0 e1 (!k0.isLeaf), reattach k0)])).tipNames
              = k1.leaves ++ k0.leaves := by
            rw [tipNames_of_ne1 _ (by simpa using hr')]
            simp [leavesL_append, leavesL_single, leaves_of_inner k1 hk1]
          rw [hall] at hnd' hK
          have hdis := disjoint_of_nodup_append hnd'
          have n1 : k1.leaves.Nodup := (List.nodup_append.1 hnd').1
          have n0 : k0.leaves.Nodup := (List.nodup_append.1 hnd').2.1
          have hf := Ind.fuse (K := K) ⟨k1.leaves, e1, k1.isLeaf⟩ ⟨k0.leaves, e0, k0.isLeaf⟩
            ⟨k0.leaves, fuseEdge e0 e1 (!k0.isLeaf), k0.isLeaf⟩ n1 n0 n0
            (Or.inr fun a ha => hdis a (hK a ha)) (sameSplit.rfl' _ _) (!k0.isLeaf) (flag_of_leaf K k0) (Or.inr rfl)
          have sw := Ind.swap (K := K)
            ([(⟨k0.leaves, e0, k0.isLeaf⟩ : SplitE)] ++ k0.splitsBelow)
            ([(⟨k1.leaves, e1, k1.isLeaf⟩ : SplitE)] ++ k1.splitsBelow)
          have fr := Ind.fuseRoot _ _ _ k1.splitsBelow k0.splitsBelow hf
          exact Ind.trans (by simpa [List.append_assoc] using sw) (by simpa using fr)
        · simp [h1] at h
    | a :: b :: c :: r, h, E' => cases h; exact E'

theorem removeLoop_ind : ∀ (todo : List (String × Bool)) (t : T), t.kids.length ≠ 1 → t.noSingle = true →
    t.tipNames.Nodup → (todo.map (·.1)).Nodup → (∀ n ∈ todo.map (·.1), n ∈ t.tipNames) →
    3 + (flagged todo).length ≤ t.tipNames.length →
    ∀ t', removeLoop todo t = .ok t' → ∀ K : List String, (∀ a ∈ K, a ∈ t'.tipNames) → Ind K t.splits t'.splits
  | [], t, _, _, _, _, _, _, t', h, K, _ => by
    cases h; exact Ind.refl _
  | (n, false) :: r, t, hroot, hns, hnd, htodo, hsub, hcount, t', h, K, hK => by
    have hn : n ∈ t.tipNames := hsub n (by simp)
    have hf : flagged ((n, false) :: r) = flagged r := by simp [flagged]
    rw [hf] at hcount
    simp only [List.map_cons, List.nodup_cons] at htodo
    have hl : removeLoop r t = .ok t' := by
      simp only [removeLoop] at h
      simpa [hn] using h
    exact removeLoop_ind r t hroot hns hnd htodo.2 (fun m hm => hsub m (by simp at hm ⊢; exact Or.inr hm)) hcount t' hl K hK
  | (n, true) :: r, t, hroot, hns, hnd, htodo, hsub, hcount, t', h, K, hK => by
    have hn : n ∈ t.tipNames := hsub n (by simp)
    have hf : flagged ((n, true) :: r) = n :: flagged r := by simp [flagged]
    rw [hf] at hcount
    simp only [List.map_cons, List.nodup_cons] at htodo
    have hc4 : 4 ≤ t.tipNames.length := by simp at hcount; omega
    obtain ⟨t1, h1, h2, h3, h4⟩ := removeTip_spec n t hroot hns hc4
    have hnd1 : t1.tipNames.Nodup := (h2.nodup_iff).2 (hnd.erase n)
    have hsub1 : ∀ m ∈ r.map (·.1), m ∈ t1.tipNames := by
      intro m hm
      have hmn : m ≠ n := by
        intro h; subst h; exact htodo.1 hm
      exact h2.mem_iff.2 ((List.mem_erase_of_ne hmn).2 (hsub m (by simp at hm ⊢; exact Or.inr hm)))
    have hc1 : 3 + (flagged r).length ≤ t1.tipNames.length := by
      rw [h2.length_eq, List.length_erase_of_mem hn]; simp at hcount; omega
    have hl : removeLoop r t1 = .ok t' := by
      simp only [removeLoop] at h
      simpa [hn, h1] using h
    obtain ⟨t'', g1, g2, _⟩ := removeLoop_spec r t1 h4 h3 hnd1 htodo.2 hsub1 hc1
    rw [hl] at g1; cases g1
    have hK1 : ∀ a ∈ K, a ∈ t1.tipNames := fun a ha => (List.mem_filter.1 (g2.mem_iff.1 (hK a ha))).1
    have R1 := removeTip_ind n t hroot hns hnd hc4 t1 h1 K hK1
    have R2 := removeLoop_ind r t1 h4 h3 hnd1 htodo.2 hsub1 hc1 t' hl K hK
    exact Ind.trans R1 R2

end Gotree.C06
