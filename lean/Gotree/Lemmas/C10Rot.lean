/-
  C10 lemmas, part H: reordering the children of any nodes of a tree gives a tree
  with the same set of splits.
-/
import Gotree.Lemmas.C10Move

namespace Gotree.C10
open Gotree

/- `RotT t t'`: `t'` is `t` with the children of any of its nodes reordered
   (same node data; branch data travels with the child). -/
mutual
def RotT : T → T → Prop
  | .node d _ k, .node d' _ k' => d = d' ∧ ∃ k'', RotK k k'' ∧ k''.Perm k'
def RotK : Kids → Kids → Prop
  | [], [] => True
  | (e, t) :: r, (e', t') :: r' => e = e' ∧ RotT t t' ∧ RotK r r'
  | [], _ :: _ => False
  | _ :: _, [] => False
end

/-- the two split lists describe the same sets of tips, entry for entry -/
def SL (l l' : List SplitE) : Prop :=
  (∀ s ∈ l, ∃ s' ∈ l', s.below.Perm s'.below) ∧ (∀ s' ∈ l', ∃ s ∈ l, s'.below.Perm s.below)

theorem SL_refl (l : List SplitE) : SL l l :=
  ⟨fun s hs => ⟨s, hs, List.Perm.refl _⟩, fun s hs => ⟨s, hs, List.Perm.refl _⟩⟩

theorem SL_of_perm {l l' : List SplitE} (h : l.Perm l') : SL l l' :=
  ⟨fun s hs => ⟨s, h.mem_iff.1 hs, List.Perm.refl _⟩, fun s hs => ⟨s, h.mem_iff.2 hs, List.Perm.refl _⟩⟩

theorem SL_trans {a b c : List SplitE} (h₁ : SL a b) (h₂ : SL b c) : SL a c := by
  constructor
  · intro s hs
    obtain ⟨s', hs', p1⟩ := h₁.1 s hs
    obtain ⟨s'', hs'', p2⟩ := h₂.1 s' hs'
    exact ⟨s'', hs'', p1.trans p2⟩
  · intro s hs
    obtain ⟨s', hs', p1⟩ := h₂.2 s hs
    obtain ⟨s'', hs'', p2⟩ := h₁.2 s' hs'
    exact ⟨s'', hs'', p1.trans p2⟩

theorem SL_append {a a' b b' : List SplitE} (h₁ : SL a a') (h₂ : SL b b') : SL (a ++ b) (a' ++ b') := by
  constructor
  · intro s hs
    rcases List.mem_append.1 hs with h | h
    · obtain ⟨s', hs', p⟩ := h₁.1 s h; exact ⟨s', List.mem_append.2 (Or.inl hs'), p⟩
    · obtain ⟨s', hs', p⟩ := h₂.1 s h; exact ⟨s', List.mem_append.2 (Or.inr hs'), p⟩
  · intro s hs
    rcases List.mem_append.1 hs with h | h
    · obtain ⟨s', hs', p⟩ := h₁.2 s h; exact ⟨s', List.mem_append.2 (Or.inl hs'), p⟩
    · obtain ⟨s', hs', p⟩ := h₂.2 s h; exact ⟨s', List.mem_append.2 (Or.inr hs'), p⟩

theorem SL_cons {a a' : List SplitE} (x x' : SplitE) (hx : x.below.Perm x'.below) (h : SL a a') :
    SL (x :: a) (x' :: a') := by
  have := SL_append (a := [x]) (a' := [x']) (b := a) (b' := a')
    ⟨fun s hs => ⟨x', List.mem_cons_self .., by rw [List.mem_singleton.1 hs]; exact hx⟩,
     fun s hs => ⟨x, List.mem_cons_self .., by rw [List.mem_singleton.1 hs]; exact hx.symm⟩⟩ h
  simpa using this

/-! ## permuting a forest -/

theorem leavesL_perm {k k' : Kids} (h : k.Perm k') : (leavesL k).Perm (leavesL k') := by
  induction h with
  | nil => exact List.Perm.refl _
  | cons x _ ih => obtain ⟨e, t⟩ := x; simp only [leavesL]; exact List.Perm.append_left _ ih
  | swap x y l =>
    obtain ⟨e, t⟩ := x; obtain ⟨e', t'⟩ := y
    simp only [leavesL]
    rw [← List.append_assoc, ← List.append_assoc]
    exact List.Perm.append_right _ List.perm_append_comm
  | trans _ _ ih1 ih2 => exact ih1.trans ih2

theorem splitsL_perm {k k' : Kids} (h : k.Perm k') : (splitsL k).Perm (splitsL k') := by
  induction h with
  | nil => exact List.Perm.refl _
  | cons x _ ih =>
    obtain ⟨e, t⟩ := x
    simp only [splitsL]
    exact List.Perm.cons _ (List.Perm.append_left _ ih)
  | swap x y l =>
    obtain ⟨e, t⟩ := x; obtain ⟨e', t'⟩ := y
    simp only [splitsL]
    have : ∀ (a b : SplitE) (A B L : List SplitE),
        (a :: (A ++ b :: (B ++ L))).Perm (b :: (B ++ a :: (A ++ L))) := by
      intro a b A B L
      have e1 : a :: (A ++ b :: (B ++ L)) = (a :: A) ++ ((b :: B) ++ L) := by simp
      have e2 : b :: (B ++ a :: (A ++ L)) = (b :: B) ++ ((a :: A) ++ L) := by simp
      rw [e1, e2, ← List.append_assoc, ← List.append_assoc]
      exact List.Perm.append_right _ List.perm_append_comm
    exact this _ _ _ _ _
  | trans _ _ ih1 ih2 => exact ih1.trans ih2

/-! ## the relation, by recursion on the tree -/

mutual
theorem rotT_facts : ∀ (t t' : T), RotT t t' →
    t.leaves.Perm t'.leaves ∧ SL t.splitsBelow t'.splitsBelow ∧ (t.kids = [] ↔ t'.kids = [])
  | .node d p k, .node d' p' k', h => by
    obtain ⟨hd, k'', hr, hp⟩ := h
    obtain ⟨l1, s1, n1⟩ := rotK_facts k k'' hr
    have l2 := leavesL_perm hp
    have s2 := SL_of_perm (splitsL_perm hp)
    have hnil : k = [] ↔ k' = [] := by
      constructor
      · intro e; rw [n1.1 e] at hp; exact hp.symm.eq_nil
      · intro e; rw [e] at hp; exact n1.2 hp.eq_nil
    refine ⟨?_, SL_trans s1 s2, by simpa using hnil⟩
    cases k with
    | nil =>
      have : k' = [] := hnil.1 rfl
      subst this
      rw [hd]; exact List.Perm.refl _
    | cons a b =>
      have hk' : k' ≠ [] := fun e => by have := hnil.2 e; cases this
      rw [leaves_of_kids d p (a :: b) (by simp), leaves_of_kids d' p' k' hk']
      exact l1.trans l2
theorem rotK_facts : ∀ (k k' : Kids), RotK k k' →
    (leavesL k).Perm (leavesL k') ∧ SL (splitsL k) (splitsL k') ∧ (k = [] ↔ k' = [])
  | [], [], _ => ⟨List.Perm.refl _, SL_refl _, Iff.rfl⟩
  | (e, t) :: r, (e', t') :: r', h => by
    obtain ⟨he, ht, hr⟩ := h
    obtain ⟨l1, s1, _⟩ := rotT_facts t t' ht
    obtain ⟨l2, s2, _⟩ := rotK_facts r r' hr
    refine ⟨?_, ?_, by simp⟩
    · simp only [leavesL]; exact List.Perm.append l1 l2
    · simp only [splitsL]
      exact SL_cons _ _ l1 (SL_append s1 s2)
  | [], _ :: _, h => by cases h
  | _ :: _, [], h => by cases h
end

mutual
theorem rotT_refl : ∀ (t : T), RotT t t
  | .node _ _ k => ⟨rfl, k, rotK_refl k, List.Perm.refl _⟩
theorem rotK_refl : ∀ (k : Kids), RotK k k
  | [] => trivial
  | (_, t) :: r => ⟨rfl, rotT_refl t, rotK_refl r⟩
end

theorem rotK_length : ∀ (k k' : Kids), RotK k k' → k.length = k'.length
  | [], [], _ => rfl
  | (_, _) :: r, (_, _) :: r', h => by
    simp only [List.length_cons]; rw [rotK_length r r' h.2.2]
  | [], _ :: _, h => by cases h
  | _ :: _, [], h => by cases h

/-- ★ reordering children anywhere keeps the tree a presentation of the same tree -/
theorem rot_ok (t t' : T) (h : RotT t t') (ht : treeOK t = true) :
    treeOK t' = true ∧ sameTaxa t t' = true ∧ splitsEquiv t.tipNames t t' = true := by
  obtain ⟨hn, htl, hk, _⟩ := treeOK_facts t ht
  cases t with
  | node d p k =>
    cases t' with
    | node d' p' k' =>
      obtain ⟨hd, k'', hr, hp⟩ := h
      obtain ⟨l1, s1, _⟩ := rotK_facts k k'' hr
      have l2 := leavesL_perm hp
      have hlen : k'.length = k.length := by
        rw [rotK_length k k'' hr, hp.length_eq]
      simp only [T.kids_node] at hk htl
      have hk' : ((T.node d' p' k').kids.length != 1) = true := by simpa [hlen] using hk
      have htl' := tipNames_of_rootNotTip _ hk'
      simp only [T.kids_node] at htl'
      have hperm : (leavesL k).Perm (leavesL k') := l1.trans l2
      have hn' : (T.node d' p' k').tipNames.Nodup := by
        rw [htl', ← hperm.nodup_iff, ← htl]; exact hn
      have hne : (T.node d' p' k').tipNames ≠ [] := by
        intro h0
        have := hperm.length_eq
        rw [← htl', h0, ← htl] at this
        simp only [treeOK, reinitOk, Bool.and_eq_true, Bool.not_eq_true', List.isEmpty_eq_false_iff] at ht
        exact ht.1.2 (List.eq_nil_of_length_eq_zero this)
      refine ⟨?_, ?_, ?_⟩
      · simp [treeOK, reinitOk, hn', hne, hlen, hk]
      · rw [sameTaxa_iff]; intro x; rw [htl, htl']; exact hperm.mem_iff
      · have sl : SL (splitsL k) (splitsL k') := SL_trans s1 (SL_of_perm (splitsL_perm hp))
        apply splitsEquiv_of
        · intro s hs
          obtain ⟨s', hs', pp⟩ := sl.1 s hs
          exact ⟨s', hs', by rw [sameSplit_iff]; left; intro x; exact pp.mem_iff⟩
        · intro s hs
          obtain ⟨s', hs', pp⟩ := sl.2 s hs
          exact ⟨s', hs', by rw [sameSplit_iff]; left; intro x; exact pp.mem_iff⟩

/-! ## rooted and unrooted presentations -/

/-- `UnRoot` on a root with two children, the second one inner: its children move up -/
def unrootOp : T → T
  | .node d p [(e₁, a), (_, .node _ _ kc)] => .node d p ((e₁, a) :: kc)
  | t => t

/-- ★ the rooted tree and its unrooted form have the same set of splits (the two
    root branches define the same split) -/
theorem unroot_ok (d : NodeD) (p : Nat) (e₁ : EdgeD) (a : T) (e₂ : EdgeD) (d₂ : NodeD) (p₂ : Nat)
    (kc : Kids) (hkc : kc ≠ [])
    (ht : treeOK (.node d p [(e₁, a), (e₂, .node d₂ p₂ kc)]) = true) :
    treeOK (unrootOp (.node d p [(e₁, a), (e₂, .node d₂ p₂ kc)])) = true ∧
    sameTaxa (.node d p [(e₁, a), (e₂, .node d₂ p₂ kc)])
      (unrootOp (.node d p [(e₁, a), (e₂, .node d₂ p₂ kc)])) = true ∧
    splitsEquiv (T.node d p [(e₁, a), (e₂, .node d₂ p₂ kc)]).tipNames
      (.node d p [(e₁, a), (e₂, .node d₂ p₂ kc)])
      (unrootOp (.node d p [(e₁, a), (e₂, .node d₂ p₂ kc)])) = true := by
  obtain ⟨hn, htl, _, _⟩ := treeOK_facts _ ht
  have hnew : unrootOp (.node d p [(e₁, a), (e₂, .node d₂ p₂ kc)]) = .node d p ((e₁, a) :: kc) := rfl
  rw [hnew]
  have hlen : ((T.node d p ((e₁, a) :: kc)).kids.length != 1) = true := by
    have : 0 < kc.length := List.length_pos_iff.2 hkc
    simp only [T.kids_node, List.length_cons, bne_iff_ne, ne_eq]; omega
  have htl' := tipNames_of_rootNotTip _ hlen
  simp only [T.kids_node] at htl htl'
  have hl : leavesL [(e₁, a), (e₂, T.node d₂ p₂ kc)] = a.leaves ++ leavesL kc := by
    simp [leavesL, leaves_of_kids d₂ p₂ kc hkc]
  have hl' : leavesL ((e₁, a) :: kc) = a.leaves ++ leavesL kc := rfl
  have heq : (T.node d p ((e₁, a) :: kc)).tipNames = (T.node d p [(e₁, a), (e₂, .node d₂ p₂ kc)]).tipNames := by
    rw [htl, htl', hl, hl']
  refine ⟨?_, ?_, ?_⟩
  · simp only [treeOK, reinitOk, Bool.and_eq_true, decide_eq_true_eq] at ht ⊢
    rw [heq]
    exact ⟨ht.1, hlen⟩
  · rw [sameTaxa_iff, heq]; intro x; exact Iff.rfl
  · rw [htl, hl]
    rw [htl, hl] at hn
    rw [List.nodup_append] at hn
    obtain ⟨_, _, hdisj⟩ := hn
    have hcompl : sameSplit (a.leaves ++ leavesL kc) (leavesL kc) a.leaves = true := by
      rw [sameSplit_iff]; right
      intro x
      simp only [List.mem_append]
      constructor
      · intro hx; exact ⟨Or.inr hx, fun ha => hdisj x ha x hx rfl⟩
      · rintro ⟨h | h, hna⟩
        · exact absurd h hna
        · exact h
    have hold : (T.node d p [(e₁, a), (e₂, .node d₂ p₂ kc)]).splits =
        ⟨a.leaves, e₁, a.isLeaf⟩ :: (a.splitsBelow ++ (⟨leavesL kc, e₂, (T.node d₂ p₂ kc).isLeaf⟩ :: splitsL kc)) := by
      simp [T.splits, splitsL, T.splitsBelow, leaves_of_kids d₂ p₂ kc hkc]
    have hnw : (T.node d p ((e₁, a) :: kc)).splits = ⟨a.leaves, e₁, a.isLeaf⟩ :: (a.splitsBelow ++ splitsL kc) := by
      simp [T.splits, splitsL]
    apply splitsEquiv_of
    · intro s hs
      rw [hold] at hs
      rw [hnw]
      simp only [List.mem_cons, List.mem_append] at hs ⊢
      rcases hs with h | h | h | h
      · exact ⟨s, Or.inl h, sameSplit_refl _ _⟩
      · exact ⟨s, Or.inr (Or.inl h), sameSplit_refl _ _⟩
      · exact ⟨_, Or.inl rfl, by rw [h]; exact hcompl⟩
      · exact ⟨s, Or.inr (Or.inr h), sameSplit_refl _ _⟩
    · intro s hs
      rw [hnw] at hs
      rw [hold]
      simp only [List.mem_cons, List.mem_append] at hs ⊢
      rcases hs with h | h | h
      · exact ⟨s, Or.inl h, sameSplit_refl _ _⟩
      · exact ⟨s, Or.inr (Or.inl h), sameSplit_refl _ _⟩
      · exact ⟨s, Or.inr (Or.inr (Or.inr h)), sameSplit_refl _ _⟩

theorem splitsEquiv_comm (all : List String) (a b : T) : splitsEquiv all a b = splitsEquiv all b a := by
  unfold splitsEquiv; exact Bool.and_comm _ _

/-- the other way round: putting a root on the branch above the children `kc` -/
theorem root_ok (d : NodeD) (p : Nat) (e₁ : EdgeD) (a : T) (e₂ : EdgeD) (d₂ : NodeD) (p₂ : Nat)
    (kc : Kids) (hkc : kc ≠ []) (ht : treeOK (.node d p ((e₁, a) :: kc)) = true) :
    treeOK (.node d p [(e₁, a), (e₂, .node d₂ p₂ kc)]) = true ∧
    sameTaxa (.node d p ((e₁, a) :: kc)) (.node d p [(e₁, a), (e₂, .node d₂ p₂ kc)]) = true ∧
    splitsEquiv (T.node d p ((e₁, a) :: kc)).tipNames (.node d p ((e₁, a) :: kc))
      (.node d p [(e₁, a), (e₂, .node d₂ p₂ kc)]) = true := by
  have hlen : ((T.node d p ((e₁, a) :: kc)).kids.length != 1) = true := by
    have : 0 < kc.length := List.length_pos_iff.2 hkc
    simp only [T.kids_node, List.length_cons, bne_iff_ne, ne_eq]; omega
  have hlen2 : ((T.node d p [(e₁, a), (e₂, .node d₂ p₂ kc)]).kids.length != 1) = true := by simp
  have htl := tipNames_of_rootNotTip _ hlen
  have htl2 := tipNames_of_rootNotTip _ hlen2
  simp only [T.kids_node] at htl htl2
  have heq : (T.node d p [(e₁, a), (e₂, .node d₂ p₂ kc)]).tipNames = (T.node d p ((e₁, a) :: kc)).tipNames := by
    rw [htl, htl2]
    simp [leavesL, leaves_of_kids d₂ p₂ kc hkc]
  have hrooted : treeOK (.node d p [(e₁, a), (e₂, .node d₂ p₂ kc)]) = true := by
    simp only [treeOK, reinitOk, Bool.and_eq_true, decide_eq_true_eq] at ht ⊢
    rw [heq]
    exact ⟨ht.1, hlen2⟩
  obtain ⟨_, m2, m3⟩ := unroot_ok d p e₁ a e₂ d₂ p₂ kc hkc hrooted
  have hu : unrootOp (.node d p [(e₁, a), (e₂, .node d₂ p₂ kc)]) = .node d p ((e₁, a) :: kc) := rfl
  rw [hu] at m2 m3
  refine ⟨hrooted, ?_, ?_⟩
  · rw [sameTaxa_iff]; intro x; exact ((sameTaxa_iff.1 m2) x).symm
  · rw [splitsEquiv_comm, ← heq]; exact m3

/-! ## any sequence of such moves -/

theorem splitsEquiv_trans {all : List String} {a b c : T}
    (ha : ∀ s ∈ a.splits, ∀ x ∈ s.below, x ∈ all) (hc : ∀ s ∈ c.splits, ∀ x ∈ s.below, x ∈ all)
    (h₁ : splitsEquiv all a b = true) (h₂ : splitsEquiv all b c = true) : splitsEquiv all a c = true := by
  obtain ⟨p1, p2⟩ := splitsEquiv_facts h₁
  obtain ⟨q1, q2⟩ := splitsEquiv_facts h₂
  apply splitsEquiv_of
  · intro s hs
    obtain ⟨s', hs', e1⟩ := p1 s hs
    obtain ⟨s'', hs'', e2⟩ := q1 s' hs'
    exact ⟨s'', hs'', sameSplit_trans (hc s'' hs'') e1 e2⟩
  · intro s hs
    obtain ⟨s', hs', e1⟩ := q2 s hs
    obtain ⟨s'', hs'', e2⟩ := p2 s' hs'
    exact ⟨s'', hs'', sameSplit_trans (ha s'' hs'') e1 e2⟩

/-- `Pres t t'`: `t'` is obtained from `t` by root moves onto inner children,
    reorderings of children, unrooting and rooting, in any number and order. -/
inductive Pres : T → T → Prop
  | refl (t : T) : Pres t t
  | move (t : T) (i : Nat) (e : EdgeD) (dc : NodeD) (pc : Nat) (kc : Kids) :
      t.kids[i]? = some (e, .node dc pc kc) → kc ≠ [] → Pres t (rootMove t i)
  | rot (t t' : T) : RotT t t' → Pres t t'
  | unroot (d : NodeD) (p : Nat) (e₁ : EdgeD) (a : T) (e₂ : EdgeD) (d₂ : NodeD) (p₂ : Nat) (kc : Kids) :
      kc ≠ [] → Pres (.node d p [(e₁, a), (e₂, .node d₂ p₂ kc)])
        (unrootOp (.node d p [(e₁, a), (e₂, .node d₂ p₂ kc)]))
  | root (d : NodeD) (p : Nat) (e₁ : EdgeD) (a : T) (e₂ : EdgeD) (d₂ : NodeD) (p₂ : Nat) (kc : Kids) :
      kc ≠ [] → Pres (.node d p ((e₁, a) :: kc)) (.node d p [(e₁, a), (e₂, .node d₂ p₂ kc)])
  | trans (a b c : T) : Pres a b → Pres b c → Pres a c

theorem pres_ok {t t' : T} (h : Pres t t') : treeOK t = true →
    treeOK t' = true ∧ sameTaxa t t' = true ∧ splitsEquiv t.tipNames t t' = true := by
  induction h with
  | refl t =>
    intro ht
    exact ⟨ht, sameTaxa_iff.2 (fun _ => Iff.rfl), splitsEquiv_refl _ _⟩
  | move t i e dc pc kc hi hkc => intro ht; exact rootMove_ok t i e dc pc kc ht hi hkc
  | rot t t' hr => intro ht; exact rot_ok t t' hr ht
  | unroot d p e₁ a e₂ d₂ p₂ kc hkc => intro ht; exact unroot_ok d p e₁ a e₂ d₂ p₂ kc hkc ht
  | root d p e₁ a e₂ d₂ p₂ kc hkc => intro ht; exact root_ok d p e₁ a e₂ d₂ p₂ kc hkc ht
  | trans a b c _ _ ih1 ih2 =>
    intro ha
    obtain ⟨hb, tab, sab⟩ := ih1 ha
    obtain ⟨hc, tbc, sbc⟩ := ih2 hb
    have t1 := sameTaxa_iff.1 tab
    have t2 := sameTaxa_iff.1 tbc
    obtain ⟨_, _, _, fa⟩ := treeOK_facts a ha
    obtain ⟨_, _, _, fc⟩ := treeOK_facts c hc
    refine ⟨hc, sameTaxa_iff.2 (fun x => (t1 x).trans (t2 x)), ?_⟩
    rw [← splitsEquiv_congr_all b c t1] at sbc
    exact splitsEquiv_trans (fun s hs x hx => (fa s hs).2 x hx)
      (fun s hs x hx => (t1 x).2 ((t2 x).2 ((fc s hs).2 x hx))) sab sbc

end Gotree.C10
