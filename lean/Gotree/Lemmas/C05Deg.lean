/-
  C05 — `branchesDistinct` (a semantic hypothesis) derived from a structural one: no node
  with exactly two neighbours.
-/
import Gotree.Lemmas.C05Clade

namespace Gotree.C05
open Gotree

/-! ## no node with exactly two neighbours ⇒ distinct branches carry distinct splits -/

/-- how two entries of a split list (in `Edges()` order) relate: the later one lies strictly
    inside the earlier one, or they have no leaf in common -/
def Laminar (s1 s2 : SplitE) : Prop :=
  ((∀ x ∈ s2.below, x ∈ s1.below) ∧ ∃ y ∈ s1.below, y ∉ s2.below) ∨ (∀ x ∈ s1.below, x ∉ s2.below)

theorem splitsL_kid : ∀ (K : Kids) (s : SplitE), s ∈ splitsL K →
    ∃ (i : Nat) (e : EdgeD) (c : T), K[i]? = some (e, c) ∧ ∀ x ∈ s.below, x ∈ c.leaves
  | [], s, h => by simp [splitsL_nil] at h
  | (e, t) :: r, s, h => by
    rw [splitsL_cons] at h
    rcases List.mem_cons.1 h with rfl | h
    · exact ⟨0, e, t, rfl, fun x hx => hx⟩
    · rcases List.mem_append.1 h with h | h
      · exact ⟨0, e, t, rfl, C14.below_sub t s h⟩
      · obtain ⟨i, e', c, hk, hs⟩ := splitsL_kid r s h
        exact ⟨i + 1, e', c, by rw [List.getElem?_cons_succ]; exact hk, hs⟩

mutual
theorem splitsBelow_laminar : ∀ (t : T), t.leaves.Nodup → t.noSingleBelow = true →
    t.splitsBelow.Pairwise Laminar ∧
    ∀ s ∈ t.splitsBelow, (∀ x ∈ s.below, x ∈ t.leaves) ∧ ∃ y ∈ t.leaves, y ∉ s.below
  | .node d p [], _, _ => by simp [T.splitsBelow, splitsL]
  | .node d p (k :: ks), hn, hns => by
    simp only [T.noSingleBelow, Bool.and_eq_true, bne_iff_ne, ne_eq] at hns
    simp only [T.leaves] at hn
    refine ⟨by simpa [T.splitsBelow] using splitsL_laminar (k :: ks) hn hns.2, ?_⟩
    intro s hs
    simp only [T.splitsBelow] at hs
    simp only [T.leaves]
    obtain ⟨i, e, c, hk, hsub⟩ := splitsL_kid (k :: ks) s hs
    refine ⟨fun x hx => kid_leaves_sub hk x (hsub x hx), ?_⟩
    -- another kid has a leaf that is not below
    have hlen : 2 ≤ (k :: ks).length := by
      have := hns.1; simp only [List.length_cons] at this ⊢; omega
    obtain ⟨j, hj, hji⟩ : ∃ j, j < (k :: ks).length ∧ j ≠ i := by
      by_cases h0 : i = 0
      · exact ⟨1, by omega, by omega⟩
      · exact ⟨0, by omega, fun h => h0 h.symm⟩
    obtain ⟨e', c'⟩ := (k :: ks)[j]
    have hk' : (k :: ks)[j]? = some ((k :: ks)[j]) := List.getElem?_eq_getElem hj
    obtain ⟨y, hy⟩ : ∃ y, y ∈ ((k :: ks)[j]).2.leaves := by
      cases hl : ((k :: ks)[j]).2.leaves with
      | nil => exact absurd hl (T.leaves_ne_nil _)
      | cons y _ => exact ⟨y, by simp⟩
    refine ⟨y, kid_leaves_sub (e := ((k :: ks)[j]).1) (c := ((k :: ks)[j]).2) hk' y hy, fun hys => ?_⟩
    exact kids_disjoint hn (e1 := ((k :: ks)[j]).1) (c1 := ((k :: ks)[j]).2) hk' hk hji y hy (hsub y hys)
theorem splitsL_laminar : ∀ (k : Kids), (leavesL k).Nodup → noSingleL k = true → (splitsL k).Pairwise Laminar
  | [], _, _ => by simp [splitsL]
  | (e, t) :: r, hn, hns => by
    simp only [noSingleL, Bool.and_eq_true] at hns
    rw [leavesL_cons, List.nodup_append] at hn
    obtain ⟨h1, h2⟩ := splitsBelow_laminar t hn.1 hns.1
    have h3 := splitsL_laminar r hn.2.1 hns.2
    rw [splitsL_cons, List.pairwise_cons]
    refine ⟨?_, List.pairwise_append.2 ⟨h1, h3, ?_⟩⟩
    · intro s hs
      rcases List.mem_append.1 hs with hs | hs
      · obtain ⟨a, y, hy, hny⟩ := h2 s hs
        exact Or.inl ⟨a, y, hy, hny⟩
      · exact Or.inr (fun x hx hxs => hn.2.2 x hx x (C14.below_subL r s hs x hxs) rfl)
    · intro s1 hs1 s2 hs2
      exact Or.inr (fun x hx hxs => hn.2.2 x (C14.below_sub t s1 hs1 x hx) x (C14.below_subL r s2 hs2 x hxs) rfl)
end

mutual
theorem below_ne_nil : ∀ (t : T), ∀ s ∈ t.splitsBelow, s.below ≠ []
  | .node d p k => by simpa [T.splitsBelow] using below_ne_nilL k
theorem below_ne_nilL : ∀ (k : Kids), ∀ s ∈ splitsL k, s.below ≠ []
  | [] => by simp [splitsL]
  | (e, t) :: r => by
    intro s hs
    simp only [splitsL, List.mem_cons, List.mem_append] at hs
    rcases hs with rfl | hs | hs
    · exact T.leaves_ne_nil t
    · exact below_ne_nil t s hs
    · exact below_ne_nilL r s hs
end

/-- **No node with exactly two neighbours ⇒ no two branches carry the same split.** -/
theorem sideList_nodup_of (u : T) (hn : u.tipNames.Nodup) (hns : u.noSingle = true) (h2 : u.kids.length ≠ 2) :
    (sideList u).Nodup := by
  unfold sideList
  rw [List.Nodup, List.pairwise_map]
  have hnK : (leavesL u.kids).Nodup := by
    unfold T.tipNames at hn; exact (List.nodup_append.1 hn).2.1
  have hsubK : ∀ x ∈ leavesL u.kids, x ∈ u.tipNames := fun x hx => by
    unfold T.tipNames; exact List.mem_append_right _ hx
  have hlam : u.splits.Pairwise Laminar := splitsL_laminar u.kids hnK hns
  refine hlam.imp_of_mem ?_
  intro a b ha hb hab heq
  unfold T.splits at ha hb
  obtain ⟨i, ei, ci, hki, hai⟩ := splitsL_kid u.kids a ha
  obtain ⟨j, ej, cj, hkj, hbj⟩ := splitsL_kid u.kids b hb
  have haK : ∀ x ∈ a.below, x ∈ leavesL u.kids := fun x hx => kid_leaves_sub hki x (hai x hx)
  have hbK : ∀ x ∈ b.below, x ∈ leavesL u.kids := fun x hx => kid_leaves_sub hkj x (hbj x hx)
  obtain ⟨xa, hxa⟩ : ∃ x, x ∈ a.below := by
    cases h : a.below with
    | nil => exact absurd h (below_ne_nilL u.kids a ha)
    | cons x _ => exact ⟨x, by simp⟩
  obtain ⟨xb, hxb⟩ : ∃ x, x ∈ b.below := by
    cases h : b.below with
    | nil => exact absurd h (below_ne_nilL u.kids b hb)
    | cons x _ => exact ⟨x, by simp⟩
  rcases canonSide_inj heq with hsame | hcompl
  · rcases hab with ⟨_, y, hy, hny⟩ | hdis
    · exact hny ((hsame y (hsubK y (haK y hy))).1 hy)
    · exact hdis xa hxa ((hsame xa (hsubK xa (haK xa hxa))).1 hxa)
  · rcases hab with ⟨hsub, _⟩ | hdis
    · have := hsub xb hxb
      exact (hcompl xb (hsubK xb (hbK xb hxb))).1 this hxb
    · -- a taxon below neither
      obtain ⟨z, hzall, hza, hzb⟩ : ∃ z, z ∈ u.tipNames ∧ z ∉ a.below ∧ z ∉ b.below := by
        by_cases h1 : u.kids.length = 1
        · have hroot : u.name ∉ leavesL u.kids := by
            unfold T.tipNames at hn
            simp only [h1, beq_self_eq_true, if_true] at hn
            exact fun h => (List.nodup_append.1 hn).2.2 u.name (by simp) u.name h rfl
          refine ⟨u.name, ?_, fun h => hroot (haK _ h), fun h => hroot (hbK _ h)⟩
          unfold T.tipNames; simp [h1]
        · have hlen : 3 ≤ u.kids.length := by
            have := (List.getElem?_eq_some_iff.1 hki).1; omega
          obtain ⟨k, hk, hki', hkj'⟩ : ∃ k, k < u.kids.length ∧ k ≠ i ∧ k ≠ j := by
            by_cases a0 : i ≠ 0 ∧ j ≠ 0
            · exact ⟨0, by omega, fun h => a0.1 h.symm, fun h => a0.2 h.symm⟩
            · by_cases a1 : i ≠ 1 ∧ j ≠ 1
              · exact ⟨1, by omega, fun h => a1.1 h.symm, fun h => a1.2 h.symm⟩
              · exact ⟨2, by omega, by omega, by omega⟩
          have hkk : u.kids[k]? = some (u.kids[k]) := List.getElem?_eq_getElem hk
          obtain ⟨z, hz⟩ : ∃ z, z ∈ (u.kids[k]).2.leaves := by
            cases hl : (u.kids[k]).2.leaves with
            | nil => exact absurd hl (T.leaves_ne_nil _)
            | cons z _ => exact ⟨z, by simp⟩
          refine ⟨z, hsubK z (kid_leaves_sub (e := (u.kids[k]).1) (c := (u.kids[k]).2) hkk z hz), ?_, ?_⟩
          · exact fun h => kids_disjoint hnK (e1 := (u.kids[k]).1) (c1 := (u.kids[k]).2) hkk hki hki' z hz (hai z h)
          · exact fun h => kids_disjoint hnK (e1 := (u.kids[k]).1) (c1 := (u.kids[k]).2) hkk hkj hkj' z hz (hbj z h)
      exact hza ((hcompl z hzall).2 hzb)

theorem noSingleL_append : ∀ (a b : Kids), noSingleL (a ++ b) = (noSingleL a && noSingleL b)
  | [], b => by simp [noSingleL]
  | (e, t) :: r, b => by simp [noSingleL, noSingleL_append r b, Bool.and_assoc]

/-- `UnRoot` keeps the tips -/
theorem unroot_tipNames_perm (t : T) : (unroot t).tipNames.Perm t.tipNames := by
  by_cases hr : ∃ d p e1 e2 d1 d2 p1 p2 k1 k2, t = .node d p [(e1, .node d1 p1 k1), (e2, .node d2 p2 k2)]
  · obtain ⟨d, p, e1, e2, d1, d2, p1, p2, k1, k2, rfl⟩ := hr
    rw [unroot_rooted]
    have hall : (T.node d p [(e1, T.node d1 p1 k1), (e2, T.node d2 p2 k2)]).tipNames =
        (T.node d1 p1 k1).leaves ++ (T.node d2 p2 k2).leaves := by
      simp [T.tipNames, leavesL_cons, leavesL_nil]
    rw [hall]
    by_cases hk1 : k1 = []
    · subst hk1
      simp only [List.isEmpty_nil, if_true]
      unfold T.tipNames
      simp only [T.kids_node, T.name, T.d_node, List.length_append, List.length_cons, List.length_nil,
        leavesL_append, leavesL_cons, leavesL_nil, T.leaves_node, List.isEmpty_nil, if_true, List.append_nil]
      cases k2 with
      | nil => simpa [leavesL_nil] using List.Perm.swap d1.name d2.name []
      | cons k ks =>
        simp only [List.length_cons, List.isEmpty_cons, Bool.false_eq_true, if_false]
        have : (ks.length + 1 + 0 + 1 == 1) = false := by simp
        simp only [this, Bool.false_eq_true, if_false, List.nil_append]
        exact List.perm_append_comm
    · have hke : k1.isEmpty = false := by cases k1 <;> simp_all
      simp only [hke, Bool.false_eq_true, if_false]
      unfold T.tipNames
      simp only [T.kids_node, List.length_append, List.length_cons, List.length_nil,
        leavesL_append, leavesL_cons, leavesL_nil, List.append_nil]
      have : (k1.length + 0 + 1 == 1) = false := by cases k1 <;> simp_all
      simp only [this, Bool.false_eq_true, if_false, List.nil_append, T.leaves_node, hke]
      exact List.Perm.refl _
  · rw [unroot_other t (fun d p e1 e2 d1 d2 p1 p2 k1 k2 h => hr ⟨d, p, e1, e2, d1, d2, p1, p2, k1, k2, h⟩)]

/-- `UnRoot` creates no node with exactly two neighbours, and its result is not rooted -/
theorem unroot_noSingle (t : T) (h : t.noSingle = true) :
    (unroot t).noSingle = true ∧ (unroot t).kids.length ≠ 2 := by
  by_cases hr : ∃ d p e1 e2 d1 d2 p1 p2 k1 k2, t = .node d p [(e1, .node d1 p1 k1), (e2, .node d2 p2 k2)]
  · obtain ⟨d, p, e1, e2, d1, d2, p1, p2, k1, k2, rfl⟩ := hr
    rw [unroot_rooted]
    simp only [T.noSingle, T.kids_node, noSingleL, T.noSingleBelow, Bool.and_true, Bool.and_eq_true,
      bne_iff_ne, ne_eq] at h
    obtain ⟨⟨a1, b1⟩, a2, b2⟩ := h
    by_cases hk1 : k1 = []
    · subst hk1
      simp only [List.isEmpty_nil, if_true, T.noSingle, T.kids_node, noSingleL_append, noSingleL, T.noSingleBelow,
        Bool.and_true, b2, List.length_nil, List.length_append, List.length_cons]
      exact ⟨by simp, by omega⟩
    · have hke : k1.isEmpty = false := by cases k1 <;> simp_all
      simp only [hke, Bool.false_eq_true, if_false, T.noSingle, T.kids_node, noSingleL_append, noSingleL, T.noSingleBelow,
        Bool.and_true, b1, b2, List.length_nil, List.length_append, List.length_cons]
      refine ⟨by simpa using a2, by omega⟩
  · have ho := unroot_other t (fun d p e1 e2 d1 d2 p1 p2 k1 k2 h => hr ⟨d, p, e1, e2, d1, d2, p1, p2, k1, k2, h⟩)
    rw [ho]
    refine ⟨h, fun h2 => hr ?_⟩
    obtain ⟨d, p, K⟩ := t
    simp only [T.kids_node] at h2
    match K, h2 with
    | [(e1, .node d1 p1 k1), (e2, .node d2 p2 k2)], _ => exact ⟨d, p, e1, e2, d1, d2, p1, p2, k1, k2, rfl⟩

/-- **`branchesDistinct` from a structural hypothesis**: a tree with distinct tip names and no
    node with exactly one child (i.e. no node with exactly two neighbours, the root of a rooted tree
    aside) has, once unrooted, pairwise distinct splits on its branches. -/
theorem branchesDistinct_of_noSingle (t : T) (hu : t.tipNames.Nodup) (hns : t.noSingle = true) :
    branchesDistinct t = true := by
  rw [branchesDistinct_iff]
  obtain ⟨h1, h2⟩ := unroot_noSingle t hns
  exact sideList_nodup_of (unroot t) ((unroot_tipNames_perm t).nodup_iff.2 hu) h1 h2


end Gotree.C05
