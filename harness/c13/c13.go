// Package c13: format conversions (Newick / Nexus ± translate / PhyloXML / Nextstrain) and the
// reader entry points (ReadMultiTrees vs ReadTreeReader).
//
// Writers run in-process (core.Safe).  Readers run in a child process (re-exec of os.Args[0] with
// -arg child): ReadMultiTrees parses in a goroutine of its own, so a panic there cannot be recovered
// and would kill the harness; a child that dies is an observation ("panic:child-died").
package c13

import (
	"bufio"
	"encoding/json"
	"encoding/xml"
	"fmt"
	"io"
	"math"
	"os"
	"os/exec"
	"strconv"
	"strings"
	"time"

	"verifharness/core"

	"github.com/evolbioinfo/gotree/io/newick"
	"github.com/evolbioinfo/gotree/io/nexus"
	"github.com/evolbioinfo/gotree/io/phyloxml"
	"github.com/evolbioinfo/gotree/io/utils"
	"github.com/evolbioinfo/gotree/tree"
)

// ---------------------------------------------------------------- child executor

func formatOf(f string) int {
	switch f {
	case "newick":
		return utils.FORMAT_NEWICK
	case "nexus", "nexustr", "nexus1":
		return utils.FORMAT_NEXUS
	case "phyloxml":
		return utils.FORMAT_PHYLOXML
	case "nextstrain":
		return utils.FORMAT_NEXTSTRAIN
	}
	return -1
}

func dumpTree(t *tree.Tree) (string, bool) {
	n, wf := core.Alpha(t)
	if !wf.OK() {
		return "", false
	}
	return n.Dump(), true
}

// readBoth runs the two reader entry points of io/utils/readtrees.go on a text.
func readBoth(format int, text string) (mrecs, first string) {
	var b strings.Builder
	if p, msg := core.Safe(func() {
		ch := utils.ReadMultiTrees(bufio.NewReader(strings.NewReader(text)), format)
		for tr := range ch {
			if tr.Err != nil {
				fmt.Fprintf(&b, "%d:err:|", tr.Id)
				continue
			}
			d, ok := dumpTree(tr.Tree)
			if !ok {
				panic("malformed tree delivered")
			}
			fmt.Fprintf(&b, "%d:ok:%s|", tr.Id, d)
		}
	}); p {
		mrecs = "panic:" + core.Escape(msg)
	} else {
		mrecs = b.String()
	}
	if p, msg := core.Safe(func() {
		t, err := utils.ReadTreeReader(bufio.NewReader(strings.NewReader(text)), format)
		if err != nil {
			first = "err:"
			return
		}
		d, ok := dumpTree(t)
		if !ok {
			panic("malformed tree delivered")
		}
		first = "ok:" + d
	}); p {
		first = "panic:" + core.Escape(msg)
	}
	return
}

// childMain: one request per line "fmt\tescaped text", one answer per line "mrecs\tfirst".
func childMain(c *core.Ctx) {
	in := bufio.NewReaderSize(os.Stdin, 1<<20)
	for {
		line, err := in.ReadString('\n')
		if line == "" && err != nil {
			return
		}
		line = strings.TrimSuffix(line, "\n")
		f := strings.SplitN(line, "\t", 2)
		if len(f) != 2 {
			c.W.WriteString("BADREQ\tBADREQ\n")
			c.W.Flush()
			continue
		}
		text, _ := core.Unescape(f[1])
		m, fi := readBoth(formatOf(f[0]), text)
		c.W.WriteString(m + "\t" + fi + "\n")
		c.W.Flush()
		if err != nil {
			return
		}
	}
}

type child struct {
	cmd *exec.Cmd
	in  io.WriteCloser
	out *bufio.Reader
}

var theChild *child

func startChild(c *core.Ctx) *child {
	cmd := exec.Command(os.Args[0], "C13", "-arg", "child", "-repo", c.Repo)
	cmd.Env = append(os.Environ(), "GOMEMLIMIT=2GiB")
	in, _ := cmd.StdinPipe()
	out, _ := cmd.StdoutPipe()
	cmd.Stderr = io.Discard
	if err := cmd.Start(); err != nil {
		panic(err)
	}
	return &child{cmd: cmd, in: in, out: bufio.NewReaderSize(out, 1<<20)}
}

func stopChild() {
	if theChild != nil {
		theChild.in.Close()
		theChild.cmd.Process.Kill()
		theChild.cmd.Wait()
		theChild = nil
	}
}

// readers asks the child to run both readers; a dead or silent child is the observation.
func readers(c *core.Ctx, format, text string) (mrecs, first string) {
	if theChild == nil {
		theChild = startChild(c)
	}
	ch := theChild
	type ans struct {
		s   string
		err error
	}
	done := make(chan ans, 1)
	go func() {
		if _, err := io.WriteString(ch.in, format+"\t"+core.Escape(text)+"\n"); err != nil {
			done <- ans{"", err}
			return
		}
		s, err := ch.out.ReadString('\n')
		done <- ans{s, err}
	}()
	select {
	case a := <-done:
		if a.err != nil || !strings.HasSuffix(a.s, "\n") {
			stopChild()
			return "panic:child-died", "panic:child-died"
		}
		f := strings.Split(strings.TrimSuffix(a.s, "\n"), "\t")
		if len(f) != 2 {
			stopChild()
			return "panic:child-protocol", "panic:child-protocol"
		}
		return f[0], f[1]
	case <-time.After(20 * time.Second):
		stopChild()
		return "panic:timeout", "panic:timeout"
	}
}

// ---------------------------------------------------------------- writers

func build(ns []*core.N) []*tree.Tree {
	var ts []*tree.Tree
	for _, n := range ns {
		t, err := core.Build(n)
		if err != nil {
			panic(err)
		}
		ts = append(ts, t)
	}
	return ts
}

func chanOf(ts []*tree.Tree) <-chan tree.Trees {
	ch := make(chan tree.Trees, len(ts)+1)
	for i, t := range ts {
		ch <- tree.Trees{Tree: t, Id: i}
	}
	close(ch)
	return ch
}

// dumpAll: the alpha dumps of the trees (what a writer must not change)
func dumpAll(ts []*tree.Tree) string {
	var b strings.Builder
	for _, t := range ts {
		d, ok := dumpTree(t)
		if !ok {
			d = "MALFORMED"
		}
		b.WriteString(d + "|")
	}
	return b.String()
}

// writeDoc runs the writer `format` of the library on the trees.
func writeDoc(format string, ts []*tree.Tree) (text, wres string) {
	var err error
	p, msg := core.Safe(func() {
		switch format {
		case "nexus":
			text, err = nexus.WriteNexus(chanOf(ts), false)
		case "nexustr":
			text, err = nexus.WriteNexus(chanOf(ts), true)
		case "nexus1":
			text = ts[0].Nexus()
		case "phyloxml":
			text, err = phyloxml.WritePhyloXML(chanOf(ts))
		case "newick":
			var b strings.Builder
			for _, t := range ts {
				b.WriteString(t.Newick() + "\n")
			}
			text = b.String()
		default:
			panic("unknown format " + format)
		}
	})
	if p {
		return "", "panic:" + core.Escape(msg)
	}
	if err != nil {
		return "", "err"
	}
	return text, "ok"
}

// ---------------------------------------------------------------- XML element tree

type xnode struct {
	tag   string
	attrs [][2]string
	kids  []*xnode
	text  string
	isTxt bool
}

// xmlTree reads a text with encoding/xml's tokenizer and prints the element tree
// (`<tag` `@k=v` `"text` `>`); white-space-only text next to element children is dropped, the
// attributes of the document element (name-space declarations) too.
func xmlTree(text string) string {
	dec := xml.NewDecoder(strings.NewReader(text))
	var stack []*xnode
	var root *xnode
	for {
		tok, err := dec.Token()
		if err == io.EOF {
			break
		}
		if err != nil {
			return "BAD"
		}
		switch t := tok.(type) {
		case xml.StartElement:
			n := &xnode{tag: t.Name.Local}
			if len(stack) > 0 {
				for _, a := range t.Attr {
					n.attrs = append(n.attrs, [2]string{a.Name.Local, a.Value})
				}
				p := stack[len(stack)-1]
				p.kids = append(p.kids, n)
			} else if root == nil {
				root = n
			} else {
				return "BAD"
			}
			stack = append(stack, n)
		case xml.EndElement:
			if len(stack) == 0 {
				return "BAD"
			}
			stack = stack[:len(stack)-1]
		case xml.CharData:
			if len(stack) > 0 {
				p := stack[len(stack)-1]
				p.kids = append(p.kids, &xnode{isTxt: true, text: string(t)})
			}
		}
	}
	if root == nil || len(stack) != 0 {
		return "BAD"
	}
	var toks []string
	var rec func(n *xnode)
	rec = func(n *xnode) {
		if n.isTxt {
			toks = append(toks, "\""+core.Escape(n.text))
			return
		}
		toks = append(toks, "<"+core.Escape(n.tag))
		for _, a := range n.attrs {
			toks = append(toks, "@"+core.Escape(a[0])+"="+core.Escape(a[1]))
		}
		hasElem := false
		for _, k := range n.kids {
			if !k.isTxt {
				hasElem = true
			}
		}
		for _, k := range n.kids {
			if k.isTxt && hasElem && strings.TrimSpace(k.text) == "" {
				continue
			}
			rec(k)
		}
		toks = append(toks, ">")
	}
	rec(root)
	return strings.Join(toks, " ")
}

// ---------------------------------------------------------------- generators

var specialTips = []string{"12", "1e5", "x/y", "é3", "a.b", "a_b", "-", "#x", "0", "t-1", "A|B", "Tree1", "ends", "x*y", "a+b", "100%", "{q}", "a^b",
	"T0", "t01", "0t", "t1.0", "01", "1", "+1", "-1", "1e", "inf", "NaN", "t1t1", "Ends", "tree", "taxlabels1", "日本"}
var keywordTips = []string{"end", "END", "Tree", "matrix", "TAXA", "begin", "gap", "Data", "translate", "ntax", "format", "#NEXUS", "dimensions", "characters", "ENDı"}

func treeOpts(g *core.G) core.TreeOpts {
	o := core.DefaultOpts()
	o.MinTips, o.MaxTips = 3, 10
	switch g.Intn(5) {
	case 0:
		o.Lengths = 0
	case 1:
		o.Lengths = 1
	case 2:
		o.Lengths = 2
	default:
		o.Lengths = 3
	}
	switch g.Intn(4) {
	case 0:
		o.Supports = 0
	case 1:
		o.Supports = 1
	default:
		o.Supports = 2
	}
	o.InnerNames = 0.08
	if g.Chance(0.1) {
		o.Singles = 0.1
	}
	if g.Chance(0.3) {
		o.LenDenom = 1024
		o.LenMax = 5000
	}
	if g.Chance(0.03) {
		// a big tree now and then
		o.MinTips, o.MaxTips = 60, 160
		o.MaxDeg = 12
	}
	return o
}

// treeList draws k trees on the same taxa (unless `mixed`), some tips renamed to special labels.
func treeList(g *core.G, k int) (ns []*core.N, flags []string) {
	o := treeOpts(g)
	first, _ := g.Tree(o)
	ns = append(ns, first)
	ntips := len(first.TipNames())
	mixed := k > 1 && (g.Chance(0.08) || forceMixed)
	for i := 1; i < k; i++ {
		o2 := treeOpts(g)
		o2.MinTips, o2.MaxTips = ntips, ntips
		if mixed && forceMixed && (i == k-1 || g.Chance(0.5)) {
			// a later tree brings taxa that sort BEFORE the ones already seen ("a…" < "t…"), or between them
			o2.TipPrefix = g.Pick([]string{"a", "a", "t1", "s"})
		} else if mixed && i == k-1 {
			if g.Chance(0.5) {
				o2.TipPrefix = "u"
			} else {
				o2.MinTips, o2.MaxTips = ntips+1, ntips+1
			}
		}
		x, _ := g.Tree(o2)
		ns = append(ns, x)
	}
	if mixed {
		flags = append(flags, "mixedtaxa")
	}
	// special labels, applied consistently to all trees
	ren := map[string]string{}
	if g.Chance(0.25) {
		n := 1 + g.Intn(3)
		for j := 0; j < n; j++ {
			from := fmt.Sprintf("t%d", g.Intn(ntips))
			if _, ok := ren[from]; ok {
				continue
			}
			pool := specialTips
			if g.Chance(0.2) {
				pool = keywordTips
				flags = append(flags, "keywordlabel")
			}
			to := g.Pick(pool)
			dup := false
			for _, v := range ren {
				if v == to {
					dup = true
				}
			}
			if !dup {
				ren[from] = to
			}
		}
		flags = append(flags, "speciallabel")
	}
	if len(ren) > 0 {
		var rec func(x *core.N)
		rec = func(x *core.N) {
			if len(x.Kids) == 0 {
				if v, ok := ren[x.Name]; ok {
					x.Name = v
				}
			}
			for _, kk := range x.Kids {
				rec(kk)
			}
		}
		for _, x := range ns {
			rec(x)
		}
	}
	// tips named by small integers, a permutation of 0..n-1 or 1..n: they overlap the keys of a translate
	// table (0-based in gotree's writer, 1-based in standard files) without being equal to their own key,
	// so a renaming that is not simultaneous permutes them
	if !mixed && g.Chance(0.07) {
		perm := g.R.Perm(ntips)
		off := g.Intn(2)
		num := map[string]string{}
		for j := 0; j < ntips; j++ {
			num[fmt.Sprintf("t%d", j)] = strconv.Itoa(perm[j] + off)
		}
		var rec func(x *core.N)
		rec = func(x *core.N) {
			if len(x.Kids) == 0 {
				if v, ok := num[x.Name]; ok {
					x.Name = v
				}
			}
			for _, kk := range x.Kids {
				rec(kk)
			}
		}
		for _, x := range ns {
			rec(x)
		}
		flags = append(flags, "numeraltips")
	}
	// a root that is itself a tip (one neighbour): `((…))r;` — Tips()/AllTipNames list it first
	if g.Chance(0.04) {
		for j, x := range ns {
			e := core.NewE()
			e.Len = g.Length(&core.TreeOpts{Lengths: 2, LenDenom: 8, LenMax: 40})
			old := *x
			old.E = e
			inner := old
			*x = core.N{Name: "rt", Kids: []*core.N{&inner}}
			_ = j
		}
		flags = append(flags, "tiproot")
	}
	// two inner nodes with the same name (open finding F60 with a translate table; fine otherwise)
	if g.Chance(0.05) {
		var inner []*core.N
		var col func(x *core.N, isRoot bool)
		col = func(x *core.N, isRoot bool) {
			if !isRoot && len(x.Kids) > 0 {
				inner = append(inner, x)
			}
			for _, kk := range x.Kids {
				col(kk, false)
			}
		}
		col(ns[g.Intn(len(ns))], true)
		if len(inner) >= 2 {
			a := inner[g.Intn(len(inner))]
			b := inner[g.Intn(len(inner))]
			if a != b {
				a.Name, b.Name = "Dup", "Dup"
				a.E.Sup, b.E.Sup = -1, -1
				flags = append(flags, "dupinner")
			}
		}
	}
	// supports on single-child inner nodes too (the shared generator gives them a length only)
	var sing func(x *core.N)
	sing = func(x *core.N) {
		for _, kk := range x.Kids {
			if len(kk.Kids) == 1 && kk.Name == "" && g.Chance(0.5) {
				kk.E.Sup = float64(g.Intn(17)) / 16
			}
			sing(kk)
		}
	}
	for _, x := range ns {
		sing(x)
	}
	// numbers that need 7 to 17 significant decimals (a writer that rounds, or prints with %g / %f, loses them):
	// odd multiples of 2^-7 … 2^-20, thirds, 1e-7-sized values, values just below 1, long decimal literals
	if g.Chance(0.4) {
		var fin func(x *core.N)
		fin = func(x *core.N) {
			if x.E != nil {
				if x.E.Sup != -1 && g.Chance(0.8) {
					x.E.Sup = fineNumber(g)
				}
				if x.E.Len != -1 && g.Chance(0.5) {
					x.E.Len = fineNumber(g)
				}
			}
			for _, kk := range x.Kids {
				fin(kk)
			}
		}
		for _, x := range ns {
			fin(x)
		}
		flags = append(flags, "finenumbers")
	}
	for _, x := range ns {
		core.NumberEdges(x)
	}
	return
}

// fineNumber draws a non-negative float64 whose shortest decimal form has 7 to 17 significant digits.
func fineNumber(g *core.G) float64 {
	switch g.Intn(7) {
	case 0: // odd k / 2^m, 7 <= m <= 20: exactly m decimals
		m := 7 + g.Intn(14)
		k := 2*g.Intn(1<<uint(m-1)) + 1
		return float64(k) / float64(int(1)<<uint(m))
	case 1: // thirds, sevenths: 16-17 significant digits
		return float64(1+g.Intn(299)) / float64([]int{3, 7, 3, 11}[g.Intn(4)])
	case 2: // 1e-7 … 9e-7 and neighbours
		return float64(1+g.Intn(99)) * 1e-7 / float64([]int{1, 1, 10, 100}[g.Intn(4)])
	case 3: // just below 1 (and below 100)
		v := []float64{0.99999996, 0.9999999, 0.99999949, math.Nextafter(1, 0), 99.9999995, 0.9999995}
		return v[g.Intn(len(v))]
	case 4: // 7 to 12 decimals
		d := 7 + g.Intn(6)
		p := math.Pow(10, float64(d))
		return float64(1+g.R.Int63n(int64(p)-1)) / p
	case 5: // percentages with 8 decimals: 99.87654321
		return float64(1+g.R.Int63n(9999999999)) / 1e8
	default: // 0.1234567-like with exactly 7 decimals, last digit not 0
		return float64(10*g.Intn(1000000)+1+g.Intn(9)) / 1e7
	}
}

var chainFormats = []string{"nexus", "nexustr", "nexus1", "phyloxml", "newick"}

func chainCase(c *core.Ctx, i int) {
	format := chainFormats[i%len(chainFormats)]
	k := 1 + c.G.Intn(4)
	if format == "nexus1" {
		k = 1
	} else if c.G.Chance(0.6) && k < 2 {
		k = 2
	}
	ns, _ := treeList(c.G, k)
	doChain(c, format, "lib", ns)
}

func doChain(c *core.Ctx, format, via string, ns []*core.N) {
	if via == "cli" {
		doChainCLI(c, format, ns)
		return
	}
	ts := build(ns)
	before := dumpAll(ts)
	text, wres := writeDoc(format, ts)
	// a writer must leave the trees it was given as they were (WriteNexus --translate renames a CLONE):
	// the trees are dumped before and after the call, and written a second time
	if wres == "ok" {
		if dumpAll(ts) != before {
			wres = "mutated-input"
		} else if text2, wres2 := writeDoc(format, ts); wres2 != "ok" || text2 != text {
			wres = "mutated-input"
		}
	}
	if wres != "ok" {
		c.Emit("C13.chain", format, via, core.Dumps(ns), wres, "", "", "", "skip")
		return
	}
	x := ""
	if format == "phyloxml" {
		x = xmlTree(text)
	}
	m, f := readers(c, format, text)
	c.Emit("C13.chain", format, via, core.Dumps(ns), wres, core.Escape(text), x, m, f)
}

// newickLines parses the lines of `gotree reformat newick` output with the library parser.
func newickLines(out string) string {
	var b strings.Builder
	id := 0
	for _, l := range strings.Split(out, "\n") {
		if strings.TrimSpace(l) == "" {
			continue
		}
		t, err := newick.NewParser(strings.NewReader(l)).Parse()
		if err != nil {
			fmt.Fprintf(&b, "%d:err:|", id)
		} else if d, ok := dumpTree(t); ok {
			fmt.Fprintf(&b, "%d:ok:%s|", id, d)
		} else {
			fmt.Fprintf(&b, "%d:err:|", id)
		}
		id++
	}
	return b.String()
}

func doChainCLI(c *core.Ctx, format string, ns []*core.N) {
	ts := build(ns)
	var nw strings.Builder
	for _, t := range ts {
		nw.WriteString(t.Newick() + "\n")
	}
	in := c.TmpFile(nw.String())
	defer os.Remove(in)
	var r core.CLIResult
	infmt := format
	switch format {
	case "nexus":
		r = c.RunCLI("", 20*time.Second, "reformat", "nexus", "-i", in)
	case "nexustr":
		r = c.RunCLI("", 20*time.Second, "reformat", "nexus", "--translate", "-i", in)
		infmt = "nexus"
	case "phyloxml":
		r = c.RunCLI("", 20*time.Second, "reformat", "phyloxml", "-i", in)
	default:
		format = "newick"
		infmt = "newick"
		r = c.RunCLI("", 20*time.Second, "reformat", "newick", "-i", in)
	}
	if r.Exit != 0 || r.Timeout {
		c.Emit("C13.chain", format, "cli", core.Dumps(ns), "err", "", "", "", "skip")
		return
	}
	text := r.Stdout
	doc := c.TmpFile(text)
	defer os.Remove(doc)
	r2 := c.RunCLI("", 20*time.Second, "reformat", "newick", "-f", infmt, "-i", doc)
	m := newickLines(r2.Stdout)
	if r2.Exit != 0 || r2.Timeout {
		// on failure cobra prints its usage text on stdout too: keep the trees written before the error
		if j := strings.Index(m, ":err:|"); j >= 0 {
			m = m[:strings.LastIndex(m[:j], "|")+1]
		}
		m += strconv.Itoa(strings.Count(m, "|")) + ":err:|"
	}
	x := ""
	if format == "phyloxml" {
		x = xmlTree(text)
	}
	c.Emit("C13.chain", format, "cli", core.Dumps(ns), "ok", core.Escape(text), x, m, "skip")
}

// ---- multi-tree Newick files

func breakText(g *core.G, s string) string {
	switch g.Intn(5) {
	case 0: // drop the last ')'
		i := strings.LastIndex(s, ")")
		return s[:i] + s[i+1:]
	case 1: // drop the first '('
		return s[1:]
	case 2: // truncated (not inside a multi-byte character)
		j := len(s) / 2
		for j > 1 && s[j]&0xC0 == 0x80 {
			j--
		}
		return s[:j] + ";"
	case 3:
		return "garbage;"
	default: // one ')' too many
		return s[:len(s)-1] + ");"
	}
}

func isSafeBreakAfter(b byte) bool { return b == '(' || b == ')' || b == ',' || b == ':' }

// layoutItem writes one item over one or several lines.
func layoutItem(g *core.G, s string, wrap, unsafe bool, nl string, flags map[string]bool) string {
	if !wrap || len(s) < 4 {
		return s + nl
	}
	var b strings.Builder
	for i := 0; i < len(s); i++ {
		b.WriteByte(s[i])
		if i == len(s)-1 {
			break
		}
		if isSafeBreakAfter(s[i]) && g.Chance(0.15) {
			if g.Chance(0.3) {
				b.WriteString(" ")
				flags["blank-before-break"] = true
			}
			b.WriteString(nl)
			if g.Chance(0.2) {
				b.WriteString("  ")
			}
			flags["wrap"] = true
		} else if unsafe && s[i] < 0x80 && s[i+1] < 0x80 && g.Chance(0.05) {
			b.WriteString(nl)
			flags["unsafe-wrap"] = true
		}
	}
	return b.String() + nl
}

func multiCase(c *core.Ctx, i int) {
	g := c.G
	k := 1 + g.Intn(5)
	ns, _ := treeList(g, k)
	flags := map[string]bool{}
	nl := "\n"
	if g.Chance(0.15) {
		nl = "\r\n"
		flags["crlf"] = true
	}
	brokenAt := -1
	if g.Chance(0.3) {
		brokenAt = g.Intn(len(ns) + 1)
		flags["broken"] = true
	}
	wrap := g.Chance(0.3)
	unsafe := wrap && g.Chance(0.3)
	var items []string
	var text strings.Builder
	ts := build(ns)
	emitItem := func(s string) {
		if g.Chance(0.2) {
			text.WriteString(nl)
			flags["blankline"] = true
		}
		if g.Chance(0.15) {
			text.WriteString(g.Pick([]string{" ", "\t", "   ", " \t "}) + nl)
			flags["blankonly"] = true
		}
		if g.Chance(0.1) {
			s += g.Pick([]string{" ", "\t", "  "})
			flags["trailws"] = true
		}
		if g.Chance(0.08) {
			s = " " + s
			flags["leadws"] = true
		}
		text.WriteString(layoutItem(g, s, wrap, unsafe, nl, flags))
	}
	for j, t := range ts {
		if j == brokenAt {
			items = append(items, "B")
			emitItem(breakText(g, ts[g.Intn(len(ts))].Newick()))
		}
		items = append(items, "T"+ns[j].Dump())
		emitItem(t.Newick())
	}
	unterminated := false
	if brokenAt == len(ts) {
		items = append(items, "B")
		if g.Chance(0.5) {
			// the last tree lacks its ';' (complete, or cut in the middle): since fix 7ce7b93 an error record
			nw := ts[0].Newick()
			cut := nw[:len(nw)-1]
			if g.Chance(0.5) {
				j := 1 + g.Intn(len(nw)-1)
				for j > 1 && nw[j]&0xC0 == 0x80 {
					j--
				}
				cut = nw[:j]
			}
			cut = strings.TrimRight(cut, ";")
			text.WriteString(cut + nl)
			flags["unterminated"] = true
			unterminated = true
		} else {
			emitItem(breakText(g, ts[0].Newick()))
		}
	}
	s := text.String()
	if g.Chance(0.2) {
		s = strings.TrimSuffix(s, nl)
		flags["nonl"] = true
	}
	_ = unterminated
	if g.Chance(0.1) {
		s += nl + nl
		flags["trailing-blank-lines"] = true
	}
	if g.Chance(0.12) {
		// white space only after the last tree (a last line of blanks, with or without a line end): no
		// record may come out of it — the unterminated-tree test of ReadMultiTrees trims the text first
		if !strings.HasSuffix(s, "\n") {
			s += nl
		}
		s += g.Pick([]string{" ", "\t", "  ", " \t "})
		if g.Chance(0.5) {
			s += nl
		}
		flags["trailing-blankonly"] = true
	}
	var fl []string
	for _, k := range []string{"crlf", "broken", "unterminated", "wrap", "unsafe-wrap", "blank-before-break", "blankline", "blankonly", "trailws", "leadws", "nonl", "trailing-blank-lines", "trailing-blankonly"} {
		if flags[k] {
			fl = append(fl, k)
		}
	}
	doMulti(c, strings.Join(fl, ","), strings.Join(items, "|")+"|", s)
}

// outsideCase: trees that do not end a line: several on one line (inside the domain since fix 3850fd2,
// oracle on), CR-only line ends (outside the property's domain, only the correspondence is checked).
func outsideCase(c *core.Ctx) {
	ns, _ := treeList(c.G, 2+c.G.Intn(3))
	ts := build(ns)
	var items []string
	for _, n := range ns {
		items = append(items, "T"+n.Dump())
	}
	var b strings.Builder
	layout := "sameline"
	if c.G.Chance(0.3) {
		layout = "cr-only"
		for _, t := range ts {
			b.WriteString(t.Newick() + "\r")
		}
	} else {
		// several trees on one line (inside the domain since fix 3850fd2): blanks between them, and
		// sometimes a broken tree inside the line — the trees before it are delivered, then the error
		brokenAt := -1
		if c.G.Chance(0.25) {
			brokenAt = c.G.Intn(len(ts))
			layout += ",broken"
		}
		items = items[:0]
		for i, t := range ts {
			if i == brokenAt {
				items = append(items, "B")
				b.WriteString(breakText(c.G, ts[c.G.Intn(len(ts))].Newick()))
				b.WriteString(c.G.Pick([]string{"", " ", "\t"}))
			}
			items = append(items, "T"+ns[i].Dump())
			b.WriteString(t.Newick())
			if i > 0 && c.G.Chance(0.4) {
				b.WriteString("\n")
			} else if c.G.Chance(0.4) {
				b.WriteString(c.G.Pick([]string{" ", "\t", "  "}))
			}
		}
		b.WriteString("\n")
	}
	doMulti(c, layout, strings.Join(items, "|")+"|", b.String())
}

// longCase: one tree whose line is longer than bufio's 4096-byte buffer (ReadLine chunks it).
func longCase(c *core.Ctx) {
	o := core.DefaultOpts()
	o.MinTips, o.MaxTips = 700, 900
	o.Lengths = 1
	a, _ := c.G.Tree(o)
	o.MinTips, o.MaxTips = 3, 5
	b, _ := c.G.Tree(o)
	core.NumberEdges(a)
	core.NumberEdges(b)
	ts := build([]*core.N{a, b})
	doMulti(c, "longline", "T"+a.Dump()+"|T"+b.Dump()+"|", ts[0].Newick()+"\n"+ts[1].Newick()+"\n")
}

func doMulti(c *core.Ctx, layout, items, text string) {
	m, f := readers(c, "newick", text)
	c.Emit("C13.multi", layout, items, core.Escape(text), m, f)
}

// ---- mutated documents (reader agreement and error reporting on documents the writers do not emit)

func docCase(c *core.Ctx, i int) {
	g := c.G
	k := 1 + g.Intn(3)
	ns, _ := treeList(g, k)
	ts := build(ns)
	if i%2 == 0 {
		format := "nexus"
		if g.Chance(0.5) {
			format = "nexustr"
		}
		text, wres := writeDoc(format, ts)
		if wres != "ok" {
			return
		}
		switch g.Intn(10) {
		case 0:
			text = strings.Replace(text, "NTAX=", "NTAX=1", 1)
		case 1:
			text = strings.Replace(text, "TAXLABELS "+firstLabel(text), "TAXLABELS", 1)
		case 2:
			text = strings.Replace(text, "BEGIN TREES;\n", "BEGIN TREES;\n[a comment ; here]\n", 1)
		case 3:
			text = strings.ToLower(text)
		case 4:
			text = strings.Replace(text, "\n", "\r\n", -1)
		case 5:
			text = strings.Replace(text, "END;\nBEGIN TREES", "BEGIN TREES", 1)
		case 6:
			text = strings.Replace(text, "  TREE", "\n\n  TREE", -1)
		case 7:
			j := strings.LastIndex(text, "END;")
			text = text[:j]
		case 8:
			text = strings.Replace(text, "BEGIN TREES;\n", "BEGIN TREES;\n  TREE broken = (a,b;\n", 1)
		default:
			j := strings.Index(text, "BEGIN TREES;")
			text = text[:j] + "BEGIN TREES;\nEND;\n"
		}
		doDoc(c, "nexus", text)
		return
	}
	text, wres := writeDoc("phyloxml", ts)
	if wres != "ok" {
		return
	}
	switch g.Intn(8) {
	case 0:
		j := strings.LastIndex(text, "<name>")
		e := strings.Index(text[j:], "</name>\n")
		text = text[:j] + strings.TrimLeft(text[j+e+8:], " ")
	case 1:
		text = strings.Replace(text, "<branch_length>", "<branch_length>x", 1)
	case 2:
		j := strings.Index(text, "  <phylogeny")
		text = text[:j] + "</phyloxml>\n"
	case 3:
		text = text[:len(text)/2]
	case 4:
		j := strings.Index(text, "  <phylogeny")
		text = text[:j] + "  <phylogeny rooted=\"true\">\n    <clade>\n      <clade>\n      </clade>\n      <clade>\n      <name>z</name>\n      </clade>\n    </clade>\n  </phylogeny>\n" + text[j:]
	case 5:
		text = strings.Replace(text, "<name>", "<taxonomy><scientific_name>", -1)
		text = strings.Replace(text, "</name>", "</scientific_name></taxonomy>", -1)
	case 6:
		text = strings.Replace(text, "<clade>\n", "<clade>\n<!-- c --><unknown>u</unknown>\n", 2)
	default:
		text = strings.Replace(text, "<name>", "<name> ", 1)
	}
	doDoc(c, "phyloxml", text)
}

func firstLabel(text string) string {
	j := strings.Index(text, "TAXLABELS ")
	if j < 0 {
		return ""
	}
	rest := text[j+len("TAXLABELS "):]
	e := strings.IndexAny(rest, " ;")
	return rest[:e]
}

func doDoc(c *core.Ctx, format, text string) {
	x := ""
	if format == "phyloxml" {
		x = xmlTree(text)
	}
	m, f := readers(c, format, text)
	c.Emit("C13.doc", format, core.Escape(text), x, m, f)
}

// ---- Nextstrain JSON (no writer in the library: the document is made here from the tree)

type nsNode struct {
	Name     string    `json:"name,omitempty"`
	Attrs    nsAttrs   `json:"node_attrs"`
	Children []*nsNode `json:"children,omitempty"`
}
type nsAttrs struct {
	Div float64 `json:"div"`
}

func nsOf(n *core.N, div float64) *nsNode {
	x := &nsNode{Name: n.Name, Attrs: nsAttrs{Div: div}}
	for _, k := range n.Kids {
		x.Children = append(x.Children, nsOf(k, div+k.E.Len))
	}
	return x
}

// nsDoc prints the decoded document for the model: ( name div kids… )
func nsDoc(x *nsNode, b *strings.Builder) {
	b.WriteString("( n" + core.Escape(x.Name) + " " + core.Rat(x.Attrs.Div) + " ")
	for _, k := range x.Children {
		nsDoc(k, b)
	}
	b.WriteString(") ")
}

func nsCase(c *core.Ctx, i int) {
	g := c.G
	o := core.DefaultOpts()
	o.MinTips, o.MaxTips = 3, 9
	o.Lengths = 3 // every branch has a length (divergences are cumulative), zeros included
	o.Supports = 0
	o.InnerNames = 0.2
	n, _ := g.Tree(o)
	core.NumberEdges(n)
	root := nsOf(n, float64(g.Intn(3))/4)
	version := "v2"
	kind := "ok"
	switch g.Intn(8) {
	case 0:
		version = "v1"
		kind = "badversion"
	case 1: // a tip without name
		x := root
		for len(x.Children) > 0 {
			x = x.Children[len(x.Children)-1]
		}
		x.Name = ""
		kind = "unnamedtip"
	}
	doc := map[string]interface{}{"version": version, "meta": map[string]string{"title": "t"}, "tree": root}
	js, err := json.Marshal(doc)
	if err != nil {
		panic(err)
	}
	text := string(js)
	if g.Chance(0.06) {
		text = text[:len(text)/2]
		kind = "truncated"
	}
	doNs(c, kind, n.Dump(), text)
}

func doNs(c *core.Ctx, kind, dump, text string) {
	// the decoded document, as encoding/json sees it (the harness' own structs mirror the two fields used)
	var dec struct {
		Version string  `json:"version"`
		Tree    *nsNode `json:"tree"`
	}
	nsd := "BAD"
	if err := json.Unmarshal([]byte(text), &dec); err == nil && dec.Version == "v2" && dec.Tree != nil {
		var b strings.Builder
		nsDoc(dec.Tree, &b)
		nsd = strings.TrimSpace(b.String())
	}
	m, f := readers(c, "nextstrain", text)
	c.Emit("C13.ns", kind, dump, nsd, core.Escape(text), m, f)
}

// ---- CLI glue: `gotree reformat <out> -f <in> -i file [-o file] [--translate]`, every input x output format,
// and the single-tree reader through `gotree compare edges` (reference = readTree, compared = readTrees)

var inFormats = []string{"newick", "nexus", "nexustr", "phyloxml", "nextstrain"}
var outFormats = []string{"newick", "nexus", "phyloxml"}

// inputDoc writes the trees in the input format with the library writers (Nextstrain: JSON made here).
func inputDoc(infmt string, ns []*core.N) (text, aux string, ok bool) {
	if infmt == "nextstrain" {
		root := nsOf(ns[0], 0)
		js, _ := json.Marshal(map[string]interface{}{"version": "v2", "meta": map[string]string{}, "tree": root})
		var b strings.Builder
		nsDoc(root, &b)
		return string(js), strings.TrimSpace(b.String()), true
	}
	text, wres := writeDoc(infmt, build(ns))
	if wres != "ok" {
		return "", "", false
	}
	if infmt == "phyloxml" {
		aux = xmlTree(text)
	}
	return text, aux, true
}

func cliFormatName(f string) string {
	if f == "nexustr" {
		return "nexus"
	}
	return f
}

func reformatCase(c *core.Ctx, i int) {
	g := c.G
	infmt := inFormats[i%len(inFormats)]
	outfmt := outFormats[(i/len(inFormats))%len(outFormats)]
	translate := outfmt == "nexus" && g.Chance(0.5)
	k := 1 + g.Intn(3)
	if infmt == "nextstrain" {
		k = 1
	}
	ns, _ := treeList(g, k)
	if infmt == "nextstrain" {
		o := core.DefaultOpts()
		o.MinTips, o.MaxTips = 3, 8
		o.Lengths = 3
		o.Supports = 0
		o.InnerNames = 0.2
		n, _ := g.Tree(o)
		core.NumberEdges(n)
		ns = []*core.N{n}
	}
	text, aux, ok := inputDoc(infmt, ns)
	if !ok {
		return
	}
	broken := false
	if infmt == "phyloxml" && g.Chance(0.2) {
		// a tip without name in one phylogeny: an error record in the middle, the command must fail
		j := strings.LastIndex(text, "<name>")
		e := strings.Index(text[j:], "</name>\n")
		if j >= 0 && e >= 0 {
			text = text[:j] + strings.TrimLeft(text[j+e+8:], " ")
			aux = xmlTree(text)
			broken = true
		}
	}
	if infmt == "newick" && g.Chance(0.35) {
		// a broken tree in the input: the glue must stop with a non-zero exit (newick output keeps the trees before it)
		lines := strings.Split(strings.TrimSuffix(text, "\n"), "\n")
		j := g.Intn(len(lines) + 1)
		lines = append(lines[:j], append([]string{"(a,(b,c);"}, lines[j:]...)...)
		text = strings.Join(lines, "\n") + "\n"
		broken = true
	}
	omode := "stdout"
	if g.Chance(0.5) {
		omode = "file"
	}
	doReformat(c, infmt, outfmt, translate, omode, broken, ns, text, aux)
}

// cliError extracts the error message of a failed gotree command (main prints it on stderr and as a last
// line on stdout): the first line that carries "rror", at most 300 bytes.  Empty on success.
func cliError(r core.CLIResult) string {
	if r.Exit == 0 {
		return ""
	}
	for _, l := range strings.Split(r.Stderr+"\n"+r.Stdout, "\n") {
		if strings.Contains(l, "rror") {
			if len(l) > 300 {
				l = l[:300]
			}
			return l
		}
	}
	return ""
}

func doReformat(c *core.Ctx, infmt, outfmt string, translate bool, omode string, broken bool, ns []*core.N, text, aux string) {
	in := c.TmpFile(text)
	defer os.Remove(in)
	// `-f/--input-format` of reformat is declared as an alias of the global `--format`
	fflag := "-f"
	if len(text)%2 == 0 {
		fflag = "--format"
	} else if len(text)%3 == 0 {
		fflag = "--input-format"
	}
	args := []string{"reformat", outfmt, fflag, cliFormatName(infmt), "-i", in}
	if translate {
		args = append(args, "--translate")
	}
	outfile := ""
	if omode == "file" {
		outfile = in + ".out"
		args = append(args, "-o", outfile)
		defer os.Remove(outfile)
	}
	r := c.RunCLI("", 20*time.Second, args...)
	out := r.Stdout
	if omode == "file" {
		b, err := os.ReadFile(outfile)
		if err == nil {
			out = string(b)
		} else {
			out = ""
		}
		if r.Exit == 0 && strings.TrimSpace(r.Stdout) != "" {
			out = "STDOUT-NOT-EMPTY:" + out
		}
	} else if r.Exit != 0 {
		// on failure main prints the error message as a last line on stdout (cobra's usage text goes to
		// stderr): keep what the command itself wrote before it
		if j := strings.Index(out, "Usage:"); j >= 0 {
			out = out[:j]
		}
		trimmed := strings.TrimSuffix(out, "\n")
		if j := strings.LastIndex(trimmed, "\n"); j >= 0 {
			out = trimmed[:j+1]
		} else {
			out = ""
		}
	}
	exit := "ok"
	if r.Timeout {
		exit = "timeout"
	} else if r.Exit != 0 {
		exit = "fail"
	}
	outx := ""
	if outfmt == "phyloxml" && out != "" {
		outx = xmlTree(out)
	}
	m := ""
	if strings.TrimSpace(out) != "" {
		m, _ = readers(c, outfmt, out)
	}
	tr := "0"
	if translate {
		tr = "1"
	}
	br := "0"
	if broken {
		br = "1"
	}
	c.Emit("C13.reformat", infmt, outfmt, tr, omode, br, core.Dumps(ns), core.Escape(text), aux, exit, core.Escape(out), outx, m, core.Escape(cliError(r)))
}

// ---- the format flag (cmd/root.go PersistentPreRun: switch rootInputFormat … default newick)

var flagSpellings = []string{"newick", "nexus", "phyloxml", "nextstrain", "NEXUS", "Nexus", "Newick", "nwk", "nex", "xml", "", "newick ", " nexus", "phyloXML", "json", "nexus1", "0", "1"}

// fmtFlagCase: `gotree reformat newick --format <value> -i <a Newick or Nexus file>`: the value selects the
// reader; the four documented words must select theirs (oracle), any other value what the model says.
func fmtFlagCase(c *core.Ctx, i int) {
	g := c.G
	docfmt := []string{"newick", "nexus"}[i%2]
	pool := append(append([]string{}, flagSpellings...), srcFormatFlags...)
	flag := pool[(i/2)%len(pool)]
	if g.Chance(0.35) {
		flag = docfmt
	}
	ns, _ := treeList(g, 1+g.Intn(3))
	text, _, ok := inputDoc(docfmt, ns)
	if !ok {
		return
	}
	doFmtFlag(c, flag, docfmt, ns, text)
}

func doFmtFlag(c *core.Ctx, flag, docfmt string, ns []*core.N, text string) {
	in := c.TmpFile(text)
	defer os.Remove(in)
	r := c.RunCLI("", 20*time.Second, "reformat", "newick", "--format", flag, "-i", in)
	out := r.Stdout
	if r.Exit != 0 {
		if j := strings.Index(out, "Usage:"); j >= 0 {
			out = out[:j]
		}
		trimmed := strings.TrimSuffix(out, "\n")
		if j := strings.LastIndex(trimmed, "\n"); j >= 0 {
			out = trimmed[:j+1]
		} else {
			out = ""
		}
	}
	exit := "ok"
	if r.Timeout {
		exit = "timeout"
	} else if r.Exit != 0 {
		exit = "fail"
	}
	m := ""
	if strings.TrimSpace(out) != "" {
		m, _ = readers(c, "newick", out)
	}
	c.Emit("C13.fmtflag", core.Escape(flag), docfmt, core.Dumps(ns), core.Escape(text), xmlTree(text), exit, core.Escape(out), m)
}

// keywordLabelCases: one Nexus chain per case literal of the lexer's keyword switch IN THE WORKING TREE that is
// not one of the words the Spec excludes (labelOK): a key word added to the lexer is met by a tip of that name.
func keywordLabelCases(c *core.Ctx) {
	known := map[string]bool{}
	for _, w := range []string{"#nexus", "begin", "data", "characters", "taxa", "taxlabels", "trees", "tree", "translate", "dimensions", "ntax", "nchar", "format", "datatype", "missing", "gap", "matrix", "end"} {
		known[w] = true
	}
	for _, w := range srcKeywords {
		if known[w] || strings.ContainsAny(w, " \t\n\r()[]:;,='\"<>&") || w == "" {
			continue
		}
		o := core.DefaultOpts()
		o.MinTips, o.MaxTips = 4, 6
		a, _ := c.G.Tree(o)
		b, _ := c.G.Tree(o)
		for _, x := range []*core.N{a, b} {
			var rec func(n *core.N) bool
			rec = func(n *core.N) bool {
				if len(n.Kids) == 0 {
					n.Name = w
					return true
				}
				return rec(n.Kids[0])
			}
			rec(x)
			core.NumberEdges(x)
		}
		for _, f := range []string{"nexus", "nexustr"} {
			doChain(c, f, "lib", []*core.N{a, b})
		}
	}
}

var srcKeywords, srcFormatFlags []string

// forceMixed makes treeList draw lists whose later trees bring new taxa that sort before / between the taxa
// already seen (the translate table of WriteNexus numbers taxa in order of discovery while TAXLABELS is sorted)
var forceMixed bool

// mixedTranslateCase: heterogeneous lists through the Nexus writer with and without translate table
func mixedTranslateCase(c *core.Ctx, i int) {
	forceMixed = true
	ns, _ := treeList(c.G, 2+c.G.Intn(3))
	forceMixed = false
	doChain(c, []string{"nexustr", "nexustr", "nexus"}[i%3], "lib", ns)
	// the same list through `gotree reformat nexus [--translate]` (Newick file in, Nexus out, read back)
	if c.Gotree != "" && i%3 != 1 {
		if text, aux, ok := inputDoc("newick", ns); ok {
			doReformat(c, "newick", "nexus", i%3 == 0, "stdout", false, ns, text, aux)
		}
	}
}

// bigDocCase: Nexus and PhyloXML documents of several times bufio's 4096 bytes (the Nexus lexer reads rune by
// rune through a bufio.Reader with UnreadRune; the PhyloXML parser buffers the whole text): two trees of 120-400
// tips, whose tip names are shifted by a random amount so that the 4096-byte boundaries fall inside labels,
// numbers, key words and between tokens; through the library and through `gotree reformat`.
func bigDocCase(c *core.Ctx, i int) {
	g := c.G
	o := core.DefaultOpts()
	o.MinTips, o.MaxTips = 120, 400
	o.Lengths, o.Supports = 1, 1
	o.TipPrefix = "taxon" + strings.Repeat("x", g.Intn(9))
	a, _ := g.Tree(o)
	o.MinTips, o.MaxTips = len(a.TipNames()), len(a.TipNames())
	b, _ := g.Tree(o)
	core.NumberEdges(a)
	core.NumberEdges(b)
	ns := []*core.N{a, b}
	format := []string{"nexus", "phyloxml", "nexustr"}[i%3]
	doChain(c, format, "lib", ns)
	if c.Gotree != "" && i%2 == 0 {
		if text, aux, ok := inputDoc(format, ns); ok {
			doReformat(c, format, "newick", false, "stdout", false, ns, text, aux)
		}
	}
}

// boundaryCase: a LAST line whose length is an exact multiple of bufio's 4096-byte buffer (leading blanks pad
// it): ReadLine then hands ReadUntilSemiColon a full chunk that ends with ';' followed by an EMPTY remainder
// (or a remainder of blanks only); also such a line in the middle of the file.
func boundaryCase(c *core.Ctx, i int) {
	g := c.G
	o := core.DefaultOpts()
	o.MinTips, o.MaxTips = 150, 500
	o.Lengths = 1
	a, _ := g.Tree(o)
	o.MinTips, o.MaxTips = 3, 5
	b, _ := g.Tree(o)
	core.NumberEdges(a)
	core.NumberEdges(b)
	ts := build([]*core.N{a, b})
	long, small := ts[0].Newick(), ts[1].Newick()
	pad := strings.Repeat(" ", (4096-len(long)%4096)%4096)
	// every third round the neighbours of the boundary: one byte less / one byte more than k*4096
	switch (i / 3) % 3 {
	case 1:
		if len(pad) > 0 {
			pad = pad[1:]
		} else {
			pad = strings.Repeat(" ", 4095)
		}
	case 2:
		pad += " "
	}
	line := pad + long // len(line) % 4096 == 0 (or ±1), ends with ';'
	tail := g.Pick([]string{"", "", " ", "\t ", "   "})
	nl := "\n"
	if i%4 == 3 {
		nl = "\r\n"
	}
	A, B := "T"+a.Dump()+"|", "T"+b.Dump()+"|"
	switch i % 3 {
	case 0: // the only tree
		doMulti(c, "boundary4096,last", A, line+tail+nl)
	case 1: // the last of two
		doMulti(c, "boundary4096,last", B+A, small+nl+line+tail+nl)
	default: // in the middle
		doMulti(c, "boundary4096,middle", B+A+B, small+nl+line+tail+nl+small+nl)
	}
}

// firstCLICase: `gotree compare edges -i doc -c doc -f fmt`: the reference is read by the single-tree reader,
// the compared trees by the multi-tree reader; for compared tree 0 every branch of the reference must be found
// with the same length and support.
func firstCLICase(c *core.Ctx, i int) {
	g := c.G
	infmt := inFormats[i%len(inFormats)]
	k := 1 + g.Intn(3)
	ns, _ := treeList(g, k)
	if infmt == "nextstrain" {
		o := core.DefaultOpts()
		o.MinTips, o.MaxTips = 3, 8
		o.Lengths = 3
		o.Supports = 0
		n, _ := g.Tree(o)
		core.NumberEdges(n)
		ns = []*core.N{n}
	}
	text, aux, ok := inputDoc(infmt, ns)
	if !ok {
		return
	}
	doFirstCLI(c, infmt, ns, text, aux)
}

func doFirstCLI(c *core.Ctx, infmt string, ns []*core.N, text, aux string) {
	in := c.TmpFile(text)
	defer os.Remove(in)
	r := c.RunCLI("", 30*time.Second, "compare", "edges", "--format", cliFormatName(infmt), "-i", in, "-c", in)
	exit := "ok"
	if r.Timeout {
		exit = "timeout"
	} else if r.Exit != 0 {
		exit = "fail"
	}
	// rows of compared tree 0: length support found comparedlength comparedsupport
	var rows []string
	for _, l := range strings.Split(r.Stdout, "\n") {
		f := strings.Split(l, "\t")
		if len(f) < 16 || f[0] != "0" {
			continue
		}
		rows = append(rows, f[2]+";"+f[3]+";"+f[9]+";"+f[14]+";"+f[15])
	}
	c.Emit("C13.clifirst", infmt, core.Dumps(ns), core.Escape(text), aux, exit, strings.Join(rows, "|"), core.Escape(cliError(r)))
}

// ---- Nexus documents that gotree's writer does not emit but that are legal Nexus

func kwCase(mode int, w string) string {
	switch mode {
	case 1:
		return strings.ToLower(w)
	case 2:
		return w[:1] + strings.ToLower(w[1:])
	}
	return w
}

// renamedNewick writes the Newick text of the tree with its tips renamed through m.
func renamedNewick(n *core.N, m map[string]string) string {
	cl := n.Clone()
	var rec func(x *core.N, isRoot bool)
	rec = func(x *core.N, isRoot bool) {
		if len(x.Kids) == 0 || (isRoot && len(x.Kids) == 1) {
			if v, ok := m[x.Name]; ok {
				x.Name = v
			}
		}
		for _, k := range x.Kids {
			rec(k, false)
		}
	}
	rec(cl, true)
	t, err := core.Build(cl)
	if err != nil {
		panic(err)
	}
	return t.Newick()
}

// stdFormCase writes the trees in exactly the layout of the Lean specification writer
// `writeNexusStd` (Model/C13Std.lean; theorem nexus_std_roundtrip): lower-case keywords, tabs, one
// label per line, a translate table numbered from 1 with commas, `tree treeN = [&U] <newick>;`.
// The taxa are listed in the order of the first tree's tips or in a shuffled order.
func stdFormCase(c *core.Ctx, ns []*core.N) {
	g := c.G
	flags := "std-form,kw-lower,tabs,labels-multiline,translate-commas,rooting-comment"
	labels := append([]string{}, ns[0].TipNames()...)
	if g.Chance(0.5) {
		g.R.Shuffle(len(labels), func(i, j int) { labels[i], labels[j] = labels[j], labels[i] })
		flags += ",labels-shuffled"
	}
	m := map[string]string{}
	var b strings.Builder
	b.WriteString("#NEXUS\nbegin taxa;\n\tdimensions ntax=" + strconv.Itoa(len(labels)) + ";\n\ttaxlabels")
	for _, l := range labels {
		b.WriteString("\n\t\t" + l)
	}
	b.WriteString("\n;\nend;\n\nbegin trees;\n\ttranslate")
	for j, l := range labels {
		m[l] = strconv.Itoa(j + 1)
		b.WriteString("\n\t\t" + strconv.Itoa(j+1) + " " + l)
		if j < len(labels)-1 {
			b.WriteString(",")
		}
	}
	b.WriteString("\n;\n")
	for j, n := range ns {
		b.WriteString("tree tree" + strconv.Itoa(j+1) + " = [&U] " + renamedNewick(n, m) + "\n")
	}
	b.WriteString("end;\n")
	doForeign(c, flags, ns, b.String())
}

func foreignCase(c *core.Ctx, i int) {
	g := c.G
	k := 1 + g.Intn(4)
	ns, _ := treeList(g, k)
	if g.Chance(0.12) {
		stdFormCase(c, ns)
		return
	}
	var flags []string
	kc := g.Intn(3)
	flags = append(flags, []string{"kw-upper", "kw-lower", "kw-capital"}[kc])
	ind := "  "
	if g.Chance(0.3) {
		ind = "\t"
		flags = append(flags, "tabs")
	}
	labels := ns[0].TipNames()
	// quoted labels (legal Nexus; gotree's lexer has no quoting: the quotes stay part of the name and a
	// blank inside splits the label) — outside the property's hypotheses, model against code only
	lab := func(l string) string { return l }
	if g.Chance(0.08) {
		if g.Chance(0.5) {
			lab = func(l string) string { return "'" + l + "'" }
			flags = append(flags, "quoted-labels")
		} else {
			lab = func(l string) string { return "'" + l + " x'" }
			flags = append(flags, "quoted-labels-blank")
		}
	}
	var b strings.Builder
	b.WriteString("#NEXUS\n")
	if g.Chance(0.3) {
		b.WriteString("[ written by hand ; BEGIN TREES; not a block ]\n")
		flags = append(flags, "comment-top")
	}
	if g.Chance(0.7) {
		b.WriteString(kwCase(kc, "BEGIN") + " " + kwCase(kc, "TAXA") + ";\n")
		if g.Chance(0.15) {
			b.WriteString(ind + kwCase(kc, "TITLE") + " Taxa1;\n")
			flags = append(flags, "title-command")
		}
		if g.Chance(0.7) {
			b.WriteString(ind + kwCase(kc, "DIMENSIONS") + " " + kwCase(kc, "NTAX") + "=" + strconv.Itoa(len(labels)) + ";\n")
		} else {
			flags = append(flags, "no-dimensions")
		}
		if g.Chance(0.2) {
			b.WriteString(ind + "[the taxa]\n")
			flags = append(flags, "comment-taxa")
		}
		b.WriteString(ind + kwCase(kc, "TAXLABELS"))
		multi := g.Chance(0.3)
		for _, l := range labels {
			if multi {
				b.WriteString("\n" + ind + ind + lab(l))
			} else {
				b.WriteString(" " + lab(l))
			}
		}
		if multi {
			b.WriteString("\n" + ind)
			flags = append(flags, "labels-multiline")
		}
		b.WriteString(";\n" + kwCase(kc, "END") + ";\n")
	} else {
		flags = append(flags, "no-taxa-block")
	}
	// translate table in the standard Nexus form (numbers from 1, commas)
	var m map[string]string
	trMode := g.Intn(4)
	if trMode > 0 {
		m = map[string]string{}
		for j, l := range labels {
			m[l] = strconv.Itoa(j + 1)
		}
		flags = append(flags, []string{"", "translate-commas", "translate-oneline", "translate-commas-nextline"}[trMode])
	}
	writeTranslate := func() {
		if trMode == 0 {
			return
		}
		b.WriteString(ind + kwCase(kc, "TRANSLATE"))
		// a comment where an entry could start (consumed by the parser)
		comAt := -1
		if g.Chance(0.2) {
			comAt = g.Intn(len(labels))
			flags = append(flags, "comment-translate")
		}
		for j, l := range labels {
			sep := ","
			if j == len(labels)-1 {
				sep = ""
			}
			if j == comAt {
				if trMode == 2 {
					b.WriteString(" [entry " + strconv.Itoa(j) + ", next]")
				} else {
					b.WriteString("\n" + ind + ind + "[entry " + strconv.Itoa(j) + ";\n next]")
				}
			}
			if trMode == 1 {
				b.WriteString("\n" + ind + ind + strconv.Itoa(j+1) + "   " + lab(l) + sep)
			} else if trMode == 3 {
				// the comma at the start of the next line
				if j > 0 {
					b.WriteString("\n" + ind + ", " + strconv.Itoa(j+1) + " " + lab(l))
				} else {
					b.WriteString("\n" + ind + "  " + strconv.Itoa(j+1) + " " + lab(l))
				}
			} else {
				b.WriteString(" " + strconv.Itoa(j+1) + " " + lab(l) + sep)
			}
		}
		if trMode == 1 || trMode == 3 {
			b.WriteString("\n" + ind)
		}
		b.WriteString(";\n")
	}
	split := len(ns)
	if len(ns) >= 2 && g.Chance(0.15) {
		split = 1 + g.Intn(len(ns)-1)
		flags = append(flags, "several-trees-blocks")
	}
	star := g.Chance(0.04)
	if star {
		flags = append(flags, "star")
	}
	nameMode := 0
	if len(ns) >= 2 && g.Chance(0.25) {
		nameMode = 1
		if split < len(ns) && g.Chance(0.6) {
			nameMode = 2
		}
		flags = append(flags, "repeated-tree-names")
	}
	writeTrees := func(from, to int, withTranslate bool) {
		b.WriteString(kwCase(kc, "BEGIN") + " " + kwCase(kc, "TREES") + ";\n")
		if withTranslate {
			writeTranslate()
		}
		for j := from; j < to; j++ {
			if g.Chance(0.2) {
				b.WriteString(ind + "[tree " + strconv.Itoa(j) + "]\n")
				flags = append(flags, "comment-trees")
			}
			b.WriteString(ind + kwCase(kc, "TREE") + " ")
			if star && j == from {
				b.WriteString("* ")
			}
			// tree names: distinct, or REPEATED (every tree named alike; or numbered from 0 again in each
			// TREES block, as when documents written by gotree — tree0, tree1, … — are merged)
			switch nameMode {
			case 1:
				b.WriteString("t = ")
			case 2:
				b.WriteString("tree" + strconv.Itoa(j-from) + " = ")
			default:
				b.WriteString("t" + strconv.Itoa(j+1) + " = ")
			}
			if g.Chance(0.4) {
				b.WriteString(g.Pick([]string{"[&R] ", "[&U] ", "[&W 0.5] "}))
				flags = append(flags, "rooting-comment")
				if g.Chance(0.3) {
					// the tree itself on the next line(s): line ends after the comment are skipped
					b.WriteString("\n\n" + ind + ind)
					flags = append(flags, "tree-on-next-line")
				}
			}
			if m != nil {
				// the table of the first block stays in force for later blocks (the parser keeps one table)
				b.WriteString(renamedNewick(ns[j], m))
			} else {
				b.WriteString(renamedNewick(ns[j], nil))
			}
			b.WriteString("\n")
		}
		b.WriteString(kwCase(kc, "END") + ";\n")
	}
	writeTrees(0, split, true)
	if split < len(ns) {
		// the table of the first block stays in force (the parser keeps one table)
		writeTrees(split, len(ns), false)
	}
	if g.Chance(0.2) {
		b.WriteString("begin figtree;\n\tset appearance.branchLineWidth=1.0;\n\tset tipLabels.fontSize=8;\nend;\n")
		flags = append(flags, "figtree-block")
	}
	// deduplicate flags
	seen := map[string]bool{}
	var fl []string
	for _, f := range flags {
		if f != "" && !seen[f] {
			seen[f] = true
			fl = append(fl, f)
		}
	}
	doForeign(c, strings.Join(fl, ","), ns, b.String())
}

func doForeign(c *core.Ctx, flags string, ns []*core.N, text string) {
	m, f := readers(c, "nexus", text)
	c.Emit("C13.foreign", flags, core.Dumps(ns), core.Escape(text), m, f)
}

// ---- PhyloXML documents in forms gotree's writer does not emit

func xmlEsc(s string) string {
	var b strings.Builder
	xml.EscapeText(&b, []byte(s))
	return b.String()
}

// foreignPxClade writes a clade in one of the alternative forms.
func foreignPxClade(g *core.G, n *core.N, isRoot bool, b *strings.Builder, flags map[string]bool, prefix string, attrLen bool) {
	open := "<" + prefix + "clade"
	if !isRoot && n.E.Len != -1 && attrLen {
		open += " branch_length=\"" + strconv.FormatFloat(n.E.Len, 'f', -1, 64) + "\""
		flags["attr-length"] = true
	}
	b.WriteString(open + ">")
	if g.Chance(0.2) {
		b.WriteString("<!-- c -->")
		flags["xml-comment"] = true
	}
	if n.Name != "" {
		switch g.Intn(7) {
		case 5: // scientific name wins over the code
			b.WriteString("<" + prefix + "taxonomy><" + prefix + "code>ZZZ</" + prefix + "code><" + prefix + "scientific_name>" + xmlEsc(n.Name) + "</" + prefix + "scientific_name></" + prefix + "taxonomy>")
			flags["name-sci-and-code"] = true
		case 6: // <name> wins over the taxonomy
			b.WriteString("<" + prefix + "taxonomy><" + prefix + "scientific_name>Y y</" + prefix + "scientific_name><" + prefix + "code>ZZZ</" + prefix + "code></" + prefix + "taxonomy><" + prefix + "name>" + xmlEsc(n.Name) + "</" + prefix + "name>")
			flags["name-and-taxonomy"] = true
		case 0:
			b.WriteString("<" + prefix + "taxonomy><" + prefix + "scientific_name>" + xmlEsc(n.Name) + "</" + prefix + "scientific_name></" + prefix + "taxonomy>")
			flags["name-sci"] = true
		case 1:
			b.WriteString("<" + prefix + "taxonomy><" + prefix + "id provider=\"x\">7</" + prefix + "id><" + prefix + "code>" + xmlEsc(n.Name) + "</" + prefix + "code></" + prefix + "taxonomy>")
			flags["name-code"] = true
		case 2:
			b.WriteString("<" + prefix + "name><![CDATA[" + n.Name + "]]></" + prefix + "name>")
			flags["name-cdata"] = true
		case 3:
			b.WriteString("<" + prefix + "name>zz</" + prefix + "name><" + prefix + "name>" + xmlEsc(n.Name) + "</" + prefix + "name>")
			flags["name-twice"] = true
		default:
			b.WriteString("<" + prefix + "name>" + xmlEsc(n.Name) + "</" + prefix + "name>")
		}
	}
	if !isRoot {
		if n.E.Len != -1 && !attrLen {
			v := strconv.FormatFloat(n.E.Len, 'f', -1, 64)
			switch g.Intn(4) {
			case 0:
				v = " " + v + "\n"
				flags["number-blanks"] = true
			case 1:
				v = strconv.FormatFloat(n.E.Len, 'e', -1, 64)
				flags["number-exp"] = true
			}
			b.WriteString("<" + prefix + "branch_length>" + v + "</" + prefix + "branch_length>")
		}
		if len(n.Kids) > 0 && n.E.Sup != -1 {
			if g.Chance(0.3) {
				b.WriteString("<" + prefix + "confidence type=\"probability\">0.123</" + prefix + "confidence>")
				flags["confidence-twice"] = true
			}
			b.WriteString("<" + prefix + "confidence type=\"bootstrap\">" + strconv.FormatFloat(n.E.Sup, 'f', -1, 64) + "</" + prefix + "confidence>")
		}
	}
	if g.Chance(0.15) {
		b.WriteString("<" + prefix + "property datatype=\"xsd:string\" ref=\"a:b\" applies_to=\"clade\">p</" + prefix + "property>")
		flags["extra-element"] = true
	}
	for _, k := range n.Kids {
		foreignPxClade(g, k, false, b, flags, prefix, attrLen)
	}
	b.WriteString("</" + prefix + "clade>\n")
}

// formsStyle is the name style of the Lean specification writer `Px.encodeAlt` as the driver instantiates
// it: a function of the name (sum of its bytes mod 6).
func formsStyle(name string) int {
	s := 0
	for i := 0; i < len(name); i++ {
		s += int(name[i])
	}
	return s % 6
}

func formsClade(n *core.N, isRoot bool, b *strings.Builder) {
	b.WriteString("<clade><color><red>255</red></color><events><name>x</name></events>")
	if n.Name != "" {
		nm := xmlEsc(n.Name)
		switch formsStyle(n.Name) {
		case 0:
			b.WriteString("<name>" + nm + "</name>")
		case 1:
			b.WriteString("<taxonomy><scientific_name>" + nm + "</scientific_name></taxonomy>")
		case 2:
			b.WriteString("<taxonomy><id provider=\"x\">7</id><code>" + nm + "</code></taxonomy>")
		case 3:
			b.WriteString("<taxonomy><code>ZZZ</code><scientific_name>" + nm + "</scientific_name></taxonomy>")
		case 4:
			b.WriteString("<taxonomy><scientific_name>Y y</scientific_name><code>ZZZ</code></taxonomy><name>" + nm + "</name>")
		default:
			b.WriteString("<name>zz</name><name>" + nm + "</name>")
		}
	}
	if !isRoot {
		if n.E.Len != -1 {
			b.WriteString("<branch_length> " + strconv.FormatFloat(n.E.Len, 'f', -1, 64) + "\n</branch_length>")
		}
		if len(n.Kids) > 0 && n.E.Sup != -1 {
			b.WriteString("<confidence type=\"bootstrap\"> " + strconv.FormatFloat(n.E.Sup, 'f', -1, 64) + "\n</confidence>")
		}
	}
	for _, k := range n.Kids {
		formsClade(k, false, b)
	}
	b.WriteString("</clade>")
}

// formsSpecCase writes the trees exactly as the Lean specification writer `Px.encodeAlt` does (theorem
// phyloxml_forms_roundtrip), so that the driver can compare the element trees (tag forms-xml-eq).
func formsSpecCase(c *core.Ctx, ns []*core.N) {
	var b strings.Builder
	b.WriteString("<?xml version=\"1.0\" encoding=\"UTF-8\"?>\n<phyloxml xmlns=\"http://www.phyloxml.org\">")
	for _, n := range ns {
		r := "false"
		if len(n.Kids) == 2 {
			r = "true"
		}
		b.WriteString("<phylogeny rooted=\"" + r + "\">")
		formsClade(n, true, &b)
		b.WriteString("</phylogeny>")
	}
	b.WriteString("</phyloxml>\n")
	doForeignPx(c, "forms-spec,extra-element,number-blanks", ns, b.String())
}

func foreignPxCase(c *core.Ctx, i int) {
	g := c.G
	ns, _ := treeList(g, 1+g.Intn(3))
	if g.Chance(0.15) {
		formsSpecCase(c, ns)
		return
	}
	flags := map[string]bool{}
	prefix := ""
	head := "<phyloxml xmlns=\"http://www.phyloxml.org\">\n"
	if g.Chance(0.2) {
		prefix = "phy:"
		head = "<phy:phyloxml xmlns:phy=\"http://www.phyloxml.org\">\n"
		flags["ns-prefix"] = true
	}
	attrLen := g.Chance(0.15)
	var b strings.Builder
	b.WriteString("<?xml version=\"1.0\" encoding=\"UTF-8\"?>\n" + head)
	for _, n := range ns {
		// the `rooted` attribute: any Go boolean is accepted (the value is not used), anything else makes
		// xml.Unmarshal fail
		rv := "true"
		switch g.Intn(12) {
		case 0:
			rv = g.Pick([]string{"false", "1", "TRUE", " T ", "", "0", "False"})
			flags["rooted-form"] = true
		case 1:
			rv = g.Pick([]string{"yes", "tRue", "  ", "no"})
			flags["rooted-invalid"] = true
		}
		b.WriteString("<" + prefix + "phylogeny rooted=\"" + rv + "\"><" + prefix + "name>ph</" + prefix + "name><" + prefix + "description>d</" + prefix + "description>\n")
		foreignPxClade(g, n, true, &b, flags, prefix, attrLen)
		b.WriteString("</" + prefix + "phylogeny>\n")
	}
	b.WriteString("</" + prefix + "phyloxml>\n")
	var fl []string
	for _, k := range []string{"ns-prefix", "attr-length", "xml-comment", "name-sci", "name-sci-and-code", "name-and-taxonomy", "name-code", "name-cdata", "name-twice", "number-blanks", "number-exp", "confidence-twice", "extra-element", "rooted-form", "rooted-invalid"} {
		if flags[k] {
			fl = append(fl, k)
		}
	}
	doForeignPx(c, strings.Join(fl, ","), ns, b.String())
}

func doForeignPx(c *core.Ctx, flags string, ns []*core.N, text string) {
	m, f := readers(c, "phyloxml", text)
	c.Emit("C13.foreignpx", flags, core.Dumps(ns), core.Escape(text), xmlTree(text), m, f)
}

// ---------------------------------------------------------------- replay / run

func parseDumps(s string) []*core.N {
	var ns []*core.N
	for _, d := range strings.Split(strings.TrimSuffix(s, "|"), "|") {
		n, err := core.ParseDump(d)
		if err != nil {
			panic(err)
		}
		ns = append(ns, n)
	}
	return ns
}

// Replay re-executes request lines on the real code (recorded outputs are ignored).
func Replay(c *core.Ctx, lines []string) {
	for _, l := range lines {
		f := strings.Split(l, "\t")
		switch {
		case f[0] == "C13.chain" && len(f) >= 4:
			doChain(c, f[1], f[2], parseDumps(f[3]))
		case f[0] == "C13.multi" && len(f) >= 4:
			text, err := core.Unescape(f[3])
			if err != nil {
				panic(err)
			}
			doMulti(c, f[1], f[2], text)
		case f[0] == "C13.ns" && len(f) >= 5:
			text, err := core.Unescape(f[4])
			if err != nil {
				panic(err)
			}
			doNs(c, f[1], f[2], text)
		case f[0] == "C13.foreign" && len(f) >= 4:
			text, err := core.Unescape(f[3])
			if err != nil {
				panic(err)
			}
			doForeign(c, f[1], parseDumps(f[2]), text)
		case f[0] == "C13.foreignpx" && len(f) >= 4:
			text, err := core.Unescape(f[3])
			if err != nil {
				panic(err)
			}
			doForeignPx(c, f[1], parseDumps(f[2]), text)
		case f[0] == "C13.reformat" && len(f) >= 9:
			text, err := core.Unescape(f[7])
			if err != nil {
				panic(err)
			}
			doReformat(c, f[1], f[2], f[3] == "1", f[4], f[5] == "1", parseDumps(f[6]), text, f[8])
		case f[0] == "C13.fmtflag" && len(f) >= 5:
			flag, err := core.Unescape(f[1])
			if err != nil {
				panic(err)
			}
			text, err := core.Unescape(f[4])
			if err != nil {
				panic(err)
			}
			doFmtFlag(c, flag, f[2], parseDumps(f[3]), text)
		case f[0] == "C13.clifirst" && len(f) >= 5:
			text, err := core.Unescape(f[3])
			if err != nil {
				panic(err)
			}
			doFirstCLI(c, f[1], parseDumps(f[2]), text, f[4])
		case f[0] == "C13.doc" && len(f) >= 3:
			text, err := core.Unescape(f[2])
			if err != nil {
				panic(err)
			}
			doDoc(c, f[1], text)
		}
	}
}

// Run generates the cases of C13.
func Run(c *core.Ctx) {
	if c.Arg == "child" {
		childMain(c)
		return
	}
	defer stopChild()
	if c.Arg != "" {
		Replay(c, core.ReadRequests(c.Arg))
		return
	}
	if c.Repo != "" {
		srcKeywords, srcFormatFlags = SourceKeywords(c.Repo), SourceFormatFlags(c.Repo)
	}
	keywordLabelCases(c)
	n := c.Scale(400, 4800)
	for i := 0; i < n; i++ {
		chainCase(c, i)
	}
	for i := 0; i < c.Scale(300, 3600); i++ {
		multiCase(c, i)
	}
	for i := 0; i < c.Scale(1, 4); i++ {
		longCase(c)
	}
	for i := 0; i < c.Scale(20, 300); i++ {
		outsideCase(c)
	}
	for i := 0; i < c.Scale(9, 36); i++ {
		boundaryCase(c, i)
	}
	for i := 0; i < c.Scale(18, 240); i++ {
		mixedTranslateCase(c, i)
	}
	for i := 0; i < c.Scale(6, 16); i++ {
		bigDocCase(c, i)
	}
	for i := 0; i < c.Scale(80, 1500); i++ {
		docCase(c, i)
	}
	for i := 0; i < c.Scale(60, 1000); i++ {
		nsCase(c, i)
	}
	for i := 0; i < c.Scale(120, 2000); i++ {
		foreignCase(c, i)
	}
	for i := 0; i < c.Scale(80, 1200); i++ {
		foreignPxCase(c, i)
	}
	if c.Gotree != "" {
		m := c.Scale(24, 300)
		for i := 0; i < m; i++ {
			format := []string{"nexus", "nexustr", "phyloxml", "newick"}[i%4]
			ns, _ := treeList(c.G, 1+c.G.Intn(3))
			doChain(c, format, "cli", ns)
		}
		for i := 0; i < c.Scale(60, 600); i++ {
			reformatCase(c, i)
		}
		for i := 0; i < c.Scale(15, 200); i++ {
			firstCLICase(c, i)
		}
		for i := 0; i < c.Scale(40, 400); i++ {
			fmtFlagCase(c, i)
		}
	}
}
