/-
  C13 — the number-codec law of this property from the float-codec laws of property C01.
-/
import Gotree.Lemmas.C13Dec
import Gotree.Lemmas.C13C01

namespace Gotree.C13
open Gotree

theorem goNum_eq : goNum = numOf Newick.goCodec := rfl

/-- C01's three laws of a float codec (`fmt_clean`, `fmt_isFloat`, `parse_fmt`) give the law this property
    needs for PhyloXML numbers: `parse (TrimSpace (fmt x)) = x` on the same domain -/
def c01NumLaws (F : Newick.FloatCodec) : NumLaws (numOf F.toCodec) where
  dom := F.dom
  parse_fmt := by
    intro q h
    have hc := (F.fmt_clean q h).2
    have ht : Px.trim (F.fmt q) = F.fmt q := trim_id _ (fun c hc' => by
      have := List.all_eq_true.1 hc c hc'
      simp only [Newick.numClean, Bool.not_eq_true', Bool.or_eq_false_iff] at this
      simp only [Bool.or_eq_false_iff]
      exact ⟨⟨⟨this.1.1.1.1.2, this.1.1.1.2⟩, this.1.1.2⟩, this.1.2⟩)
    simp only [numOf, ht, F.fmt_isFloat q h, if_true, F.parse_fmt q h]

/-- the law for the codec the DRIVER runs (`goNum`, C01's executable model of FormatFloat/ParseFloat), on
    C01's structural domain `goDomS` (all four laws of `goFloatCodecS` are proved in C01) -/
def goNumLaws : NumLaws goNum := c01NumLaws Newick.goFloatCodecS

theorem goNumLaws_dom : goNumLaws.dom = Newick.goDomS := rfl

end Gotree.C13
