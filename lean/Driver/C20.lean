/-
  C20 — driver handler.  Case lines (inputs | what the implementation did):

  C20.res     what k seed input | bounds draws sync class result
              what ∈ sample, samplecli (input = number of trees; items are `x0 … x(n-1)`),
                     replace, replacecli (with replacement),
                     tips, prunecli, prunekeepcli (input = α dump; items are the names of `Tips()`;
                     `prune --random k` removes the selection, with `-r` it keeps it)
  C20.samplecmd fmt k replace seed n bad opened | bounds draws class result   (whole `gotree sample` command:
              formats newick/nexus/phyloxml, malformed tree at position `bad`, empty input, missing file, k < 0;
              k = `d`: the option -n is absent)
  C20.shuffle what seed dump | bounds draws sync class namesAfter          what ∈ lib, cli
  C20.rotate  seed dump path | bounds draws sync class dumpAfter
  C20.rotall  seed dump | bounds draws sync class dumpAfter
  C20.prunecmd seed dump random args tipfile comp | bounds draws class removed   (option priorities of `gotree prune`)
  C20.prunerange seed dump k keep | bounds draws class sel    (`prune --random k [-r]`, every k incl. ≤ 0, ≥ n-2)
  C20.prunefile seed dumps k | bounds draws class sels        (`prune --random k` on a file of several trees)
  C20.utreecmd seed n rooted N | script draws class shapes   (`gotree generate uniformtree -n N`)
  C20.shufcli seed dumps | bounds draws class namesAfter      (`gotree shuffletips` on a file of trees)
  C20.rotcli  seed dumps | bounds draws class dumpsAfter      (`gotree rotate rand` on a file of trees)
  C20.utree   what seed n rooted | script draws sync class shape dump      what ∈ lib, cli (dump: α dump or `-`)
  C20.fib     what k n seed dump | bounds table nonfunc desync seeds
              the whole draw space of a small instance: `table` lists `draws:outcome;`
              for every draw list (outcome of the REAL code on a seed realising it)
  C20.seedcmd flag | class out1 out2 outLit   (`gotree generate uniformtree -l 12 [--seed flag]` run twice; `flag` = `-`:
              option absent; outLit = the library call after `rand.Seed(flag)` (`-1` when absent) in the harness)
  C20.marg    what k n seed nseeds | counts   (model-free: how often each simple event happened over the seeds,
              larger n than the fibres reach; exact binomial bounds; supporting evidence)
  C20.freq    what k n seed nseeds | counts   (supporting evidence: outcome frequencies over seeds)

  `sync` = `1` when one more draw from the global source equals the twin's next
  value (the code consumed exactly the scripted calls), `0` if not, `-` unknown (CLI).
-/
import Driver.Proto
import Gotree.Spec.C20
import Gotree.Model.C20Seed

namespace Gotree.Driver.C20
open Gotree Gotree.Driver Gotree.C20

def natList (s : String) : Option (List Nat) := parseNatList s

/-- `a.b.c` (empty string = empty list) -/
def dotList (s : String) : Option (List Nat) :=
  if s.isEmpty then some [] else (s.splitOn ".").mapM (·.toNat?)

def itemIndex (s : String) : Option Nat := (dropFirst s).toNat?

def showNats (l : List Nat) : String := ".".intercalate (l.map toString)
def showClusters (l : List (List Nat)) : String := "|".intercalate (l.map showNats)

/-- the protocol part of the tie: script used = script of the model, draws within bounds, source in step -/
def protoMsg (bounds script draws : List Nat) (sync : String) : Option String :=
  if bounds != script then some ("draw script differs: model " ++ showNats script)
  else if !(inBounds (script.filter (· != 0)) draws) then some "draws out of the model's bounds"
  else if sync == "0" then some "the code consumed another number of random values than the script"
  else none

def finish (tags : List String) (oracle : Option String) (proto : Option String) (tie : Option String) : Verdict :=
  match oracle, proto, tie with
  | some m, _, _ => ⟨.oracle, tags, m⟩
  | none, some m, _ => ⟨.tie, tags, m⟩
  | none, none, some m => ⟨.tie, tags, m⟩
  | none, none, none => ⟨.pass, tags, ""⟩

/-- position of each element of `after` in `before` (names unique) -/
def indicesIn (before after : List String) : Option (List Nat) :=
  after.mapM fun a => let i := before.idxOf a; if i < before.length then some i else none

/- canonical form up to neighbour order (for the oracle: a rotation changes nothing else) -/
mutual
def canonT : T → String
  | .node d _ kids =>
    "(" ++ escape d.name ++ String.join (d.comments.map fun c => "[" ++ escape c ++ "]") ++
      String.join ((canonL kids).mergeSort (fun a b => decide (a ≤ b))) ++ ")"
def canonL : Kids → List String
  | [] => []
  | (e, t) :: r =>
    (showRat e.len ++ "," ++ showRat e.sup ++ "," ++ showRat e.pval ++ "," ++ toString e.id ++
      String.join (e.comments.map fun c => "[" ++ escape c ++ "]") ++ canonT t) :: canonL r
end

/-! ### fibre tables -/

structure Entry where
  draws : List Nat
  out : String

def parseTable (s : String) : Option (List Entry) :=
  (splitTerm ";" s).mapM fun e =>
    match e.splitOn ":" with
    | [d, o] => (dotList d).map fun dl => ⟨dl, o⟩
    | _ => none

/-- everything the fibre check needs to know about one kind of selection -/
structure Kind where
  script : List Nat
  /-- canonical outcome of the implementation's answer, `none` if it is not in the outcome space -/
  canon : String → Option Outcome
  /-- model outcome (canonical) for a draw list -/
  model : List Nat → Outcome
  /-- size of the outcome space -/
  size : Nat

def treeCanon (rooted : Bool) (n : Nat) (s : String) : Option Outcome :=
  match parseShape s with
  | none => none
  | some (cl, deg, leaves) =>
    if leaves != List.range n then none
    else if rooted then
      if deg == 2 && validTopology true n cl then some (sortClusters cl) else none
    else
      let c := awayFrom0 leaves cl
      if deg == 3 && validTopology false n c then some (sortClusters c) else none

/-- cut a draw list into consecutive segments of the given lengths -/
def splitBy : List Nat → List Nat → List (List Nat)
  | [], _ => []
  | k :: ks, ds => ds.take k :: splitBy ks (ds.drop k)

def kindOf (what : String) (k n : Nat) (tr : Option T) : Option Kind :=
  match what with
  | "sample" | "tips" | "tipsR" | "tipsT" =>
    some ⟨resScript (· + 1) k n,
      fun s => (dotList s).bind fun l => if validSubset k n l then some [sortNat l] else none,
      fun d => [sortNat (reservoir k (List.range n) d)], chooseFast n (min k n)⟩
  | "replace" =>
    some ⟨replScript k n,
      fun s => (dotList s).bind fun l => if validSlots k n l then some [l] else none,
      fun d => [(sampleReplace k (List.range n) d).map fun o => o.getD n], n ^ k⟩
  | "shuffle" | "shuffleR" | "shuffleT" =>
    some ⟨permScript n,
      fun s => (dotList s).bind fun l => if isPermOfRange n l then some [l] else none,
      fun d => [goPerm d], fact n⟩
  | "rotate" =>
    some ⟨rotScript n,
      fun s => (dotList s).bind fun l => if isPermOfRange n l then some [l] else none,
      fun d => [rotate (List.range n) d], fact n⟩
  | "utreeU" =>
    some ⟨utreeBounds false n, treeCanon false n, fun d => sortClusters (utree false d), numTopologies false n⟩
  | "utreeR" =>
    some ⟨utreeBounds true n, treeCanon true n, fun d => sortClusters (utree true d), numTopologies true n⟩
  | "rotall" =>
    tr.map fun t =>
      let script := rotAllScriptT true t
      -- the degrees, node by node: a node of degree g contributes the bounds 1 … g
      let degs := (script.zip (script.drop 1 ++ [1])).filterMap fun p => if p.2 == 1 then some p.1 else none
      ⟨script,
        fun s => ((s.splitOn "|").mapM dotList).bind fun ls =>
          if ls.length == degs.length && (ls.zip degs).all (fun p => isPermOfRange p.2 p.1) then some ls else none,
        fun d => rotAllPerms degs d,
        (degs.map fact).foldl (· * ·) 1⟩
  | _ => none

/-- clusters of the pointer-level model's tree, in the canonical form of `treeCanon` -/
def clustersOfT (rooted : Bool) (t : T) : List (List Nat) :=
  let num (s : String) : Nat := ((s.toList.drop 3).foldl (fun a c => a * 10 + (c.toNat - 48)) 0)
  let cl := t.splits.map fun s => sortNat (s.below.map num)
  let leaves := sortNat (t.tipNames.map num)
  sortClusters (if rooted then cl else awayFrom0 leaves cl)

def showOutcome (o : Outcome) : String := showClusters o

/-- smallest and largest fibre with an outcome that has it -/
def extremes (outs : List Outcome) : String :=
  let sorted := outs.mergeSort leLex2
  let sizes := runLengths sorted
  let firsts := (sorted.eraseDups)
  let pairs := firsts.zip sizes
  match pairs with
  | [] => "no outcome"
  | p :: r =>
    let mn := r.foldl (fun a b => if b.2 < a.2 then b else a) p
    let mx := r.foldl (fun a b => if b.2 > a.2 then b else a) p
    "outcome " ++ showOutcome mn.1 ++ " from " ++ toString mn.2 ++ " draw lists, outcome " ++ showOutcome mx.1 ++
      " from " ++ toString mx.2

def handleFib (what : String) (k n : Nat) (tr : Option T) (bounds : List Nat) (table : List Entry)
    (nonfunc desync : Nat) : Verdict :=
  match kindOf what k n tr with
  | none => bad ("C20.fib: unknown kind " ++ what)
  | some kd =>
    let sp := space bounds
    let tags := ["fib", "fib-" ++ what, "space=" ++ toString sp.length] ++
      tagIf (sp.length > 1 && (what != "sample" && what != "tips" && what != "tipsR" && what != "tipsT" || (k < n && k ≥ 1))) "nontrivial" ++
      tagIf (k < n) "k<n" ++ tagIf (k == n) "k=n" ++ tagIf (k > n) "k>n"
    -- the table must list every draw list of the space exactly once (harness duty)
    if table.map (·.draws) != sp then bad "C20.fib: table does not enumerate the draw space of its bounds" else
    let canon := table.map fun e => kd.canon e.out
    let proto : Option String :=
      if bounds != kd.script then some ("draw script differs: model " ++ showNats kd.script)
      else if desync > 0 then some (toString desync ++ " runs consumed another number of random values than the script")
      else if nonfunc > 0 then some (toString nonfunc ++ " draw lists gave two different outcomes on two seeds")
      else none
    let modelTable := table.map fun e => kd.model e.draws
    let agrees := canon == modelTable.map some
    let oracle : Option String :=
      match canon.zip table |>.find? (fun p => p.1.isNone) with
      | some (_, e) => some ("outcome outside the outcome space: " ++ e.out ++ " for draws " ++ showNats e.draws)
      | none =>
        let outs := canon.filterMap id
        if uniformFibres outs kd.size then none
        else
          let f := fibreSizes outs
          some ("not uniform: " ++ toString f.length ++ " of " ++ toString kd.size ++ " outcomes reachable over " ++
            toString sp.length ++ " draw lists; " ++ extremes outs)
    -- known finding F29: op uniformtree ∧ rooted ∧ the wrong observation is exactly the one recorded
    -- (the implementation's table is the model's: 2·4·…·(2n-4) histories, each a different topology)
    let oracle := oracle.map fun m =>
      if what == "utreeR" && agrees && proto.isNone then "class=F29-rooted-uniform-tree-not-uniform " ++ m else m
    -- when the code did not follow the scripted draw protocol the table is still a partition of the seeds
    -- into equally likely cells, but say first what differs
    let oracle := oracle.map fun m =>
      match proto with
      | some p => "draw protocol differs (" ++ p ++ "); outcomes grouped by the scripted draws: " ++ m
      | none => m
    -- the two models of the uniform tree (clusters / pointer level) must agree on the whole space
    let twoModels : Option String :=
      if what == "utreeU" || what == "utreeR" then
        let rooted := what == "utreeR"
        match sp.find? (fun d => clustersOfT rooted (utreeT rooted d) != sortClusters (utree rooted d) ||
            roseFinal rooted d != utreeT rooted d) with
        | some d => some ("cluster model and pointer-level model differ for draws " ++ showNats d)
        | none => none
      else none
    let proto := match proto with
      | some m => some m
      | none => twoModels
    let tie : Option String :=
      if agrees then none else
      match (table.zip (canon.zip modelTable)).find? (fun p => p.2.1 != some p.2.2) with
      | some (e, _, m) => some ("draws " ++ showNats e.draws ++ ": implementation " ++ e.out ++ ", model " ++ showOutcome m)
      | none => none
    finish tags oracle proto tie

/-! ### exact binomial tail (supporting frequency test) -/

/-- `P(X ≤ c)·m^N` for `X ~ Bin(N, 1/m)`, as a natural number -/
def binomLowerNum (N m c : Nat) : Nat :=
  -- Σ_{i ≤ c} C(N,i)·(m-1)^(N-i)
  let rec go (i : Nat) (fuel : Nat) (term : Nat) (acc : Nat) : Nat :=
    match fuel with
    | 0 => acc
    | fuel + 1 =>
      -- term = C(N,i)·(m-1)^(N-i)
      let acc := acc + term
      -- next: C(N,i+1)(m-1)^(N-i-1) = term·(N-i)/((i+1)(m-1))
      go (i + 1) fuel (term * (N - i) / ((i + 1) * (m - 1))) acc
  go 0 (c + 1) ((m - 1) ^ N) 0

/-- both tails of every count are above `1/10^12` (per outcome; `m ≥ 2`) -/
def freqOK (N m : Nat) (counts : List Nat) : Bool :=
  let tot := m ^ N
  counts.all fun c =>
    -- lower tail P(X ≤ c) and upper tail P(X ≥ c) = 1 - P(X ≤ c-1)
    binomLowerNum N m c * 1000000000000 ≥ tot &&
    (c == 0 || (tot - binomLowerNum N m (c - 1)) * 1000000000000 ≥ tot)

/-! ### the handler -/

def handle (op : String) (f : List String) : Verdict :=
  match op, f with
  | "res", [what, ks, _seed, input, boundsS, drawsS, sync, cls, resS] =>
    match ks.toNat?, natList boundsS, natList drawsS, parseStrList resS with
    | some k, some bounds, some draws, some res =>
      let repl := what == "replace" || what == "replacecli"
      let items? : Option (List String) :=
        if what == "tips" || what == "prunecli" || what == "prunekeepcli" then (T.undump input).map (·.tipNames)
        else input.toNat?.map fun n => (List.range n).map fun i => "x" ++ toString i
      match items? with
      | none => bad "C20.res input"
      | some items =>
        let n := items.length
        let uniq := items.eraseDups.length == n
        let tags := [what] ++ tagIf (k < n && k ≥ 1 && uniq) "nontrivial" ++ tagIf (k < n) "k<n" ++ tagIf (k == n) "k=n" ++
          tagIf (k > n) "k>n" ++ tagIf (k == 0) "k=0" ++ tagIf uniq "uniq" ++ tagIf (sync == "-") "cli"
        if !uniq then ⟨.pass, "skip-dupnames" :: tags, ""⟩ else
        let script := if repl then replScript k n else resScript (· + 1) k n
        let oracle : Option String :=
          if cls != "ok" then some ("outcome class " ++ cls)
          else match indicesIn items res with
            | none => some "selected something that is not an item"
            | some sel =>
              if repl then (if validSlots k n sel then none else some "not k slots filled with items")
              else if k ≥ n then (if res == items then none else some "k ≥ n: not all items kept")
              else if validSubset k n sel then none else some "not a duplicate-free choice of k items"
        let model : List String :=
          if repl then (sampleReplace k items draws).map (·.getD "<nil>") else reservoir k items draws
        -- `prune --random` shows the selection only as a set (the tips that disappeared)
        let same := if what == "prunecli" || what == "prunekeepcli" then sortStrings model == sortStrings res else model == res
        finish tags oracle (protoMsg bounds script draws sync)
          (if same then none else some ("model selects " ++ showStrList model))
    | _, _, _, _ => bad "C20.res fields"
  | "shuffle", [what, _seed, dump, boundsS, drawsS, sync, cls, afterS] =>
    match T.undump dump, natList boundsS, natList drawsS, parseStrList afterS with
    | some t, some bounds, some draws, some after =>
      let tips := t.tipNames
      let uniq := tips.eraseDups.length == tips.length
      let tags := ["shuffle", "shuffle-" ++ what] ++ tagIf (tips.length ≥ 3 && uniq && after != tips) "nontrivial" ++ tagIf t.rooted "rooted" ++
        tagIf (t.kids.length == 1) "roottip" ++ tagIf uniq "uniq" ++ tagIf (sync == "-") "cli"
      if !uniq then ⟨.pass, "skip-dupnames" :: tags, ""⟩ else
      let oracle : Option String :=
        if cls != "ok" then some ("outcome class " ++ cls)
        else if isPermOf after tips then none else some "tip names after are not a permutation of the tip names before"
      let model := shuffleTips t draws
      finish tags oracle (protoMsg bounds (shuffleScript t) draws sync)
        (if model == after then none else some ("model names " ++ showStrList model))
    | _, _, _, _ => bad "C20.shuffle fields"
  | "rotate", [_seed, dump, pathS, boundsS, drawsS, sync, cls, afterS] =>
    match T.undump dump, natList pathS, natList boundsS, natList drawsS with
    | some t, some path, some bounds, some draws =>
      match subAt t path with
      | none => bad "C20.rotate path"
      | some nd =>
        let isRoot := path.isEmpty
        let deg := degOf isRoot nd
        let tags := ["rotate"] ++ tagIf (deg ≥ 3) "nontrivial" ++ tagIf isRoot "atroot" ++ tagIf (deg == 1) "tip" ++
          tagIf (deg > 3) "multifurcation"
        match (if cls == "ok" then T.undump afterS else none) with
        | none => ⟨.oracle, tags, "outcome class " ++ cls ++ " / tree after not well-formed: " ++ afterS⟩
        | some after =>
          let oracle : Option String :=
            if canonT after == canonT t then none else some "the rotation changed more than the order of neighbours"
          let model := atPath (path.length + 1) (fun r x => rotateNode r x draws) true t path
          finish tags oracle (protoMsg bounds (rotScript deg) draws sync)
            (if model == after then none else some ("model tree " ++ model.dump))
    | _, _, _, _ => bad "C20.rotate fields"
  | "rotall", [_seed, dump, boundsS, drawsS, sync, cls, afterS] =>
    match T.undump dump, natList boundsS, natList drawsS with
    | some t, some bounds, some draws =>
      let tags := ["rotall"] ++ tagIf (t.size ≥ 4) "nontrivial" ++ tagIf t.rooted "rooted"
      match (if cls == "ok" then T.undump afterS else none) with
      | none => ⟨.oracle, tags, "outcome class " ++ cls ++ " / tree after not well-formed: " ++ afterS⟩
      | some after =>
        let oracle : Option String :=
          if canonT after == canonT t then none else some "the rotation changed more than the order of neighbours"
        let model := (rotAllT true t draws).1
        finish tags oracle (protoMsg bounds (rotAllScriptT true t) draws sync)
          (if model == after then none else some ("model tree " ++ model.dump))
    | _, _, _ => bad "C20.rotall fields"
  | "samplecmd", [fmt, ks, replS, _seed, ns, badS, openedS, boundsS, drawsS, cls, resS] =>
    -- the whole `gotree sample` command: items are numbered 0 … n-1; `bad` = position of a malformed
    -- tree put into the file (-1: none); an input without any tree is delivered as one error item
    -- `k` = `d`: the option `-n` is absent, the model takes the option's default
    match (if ks == "d" then some sampleDefaultN else ks.toInt?), ns.toNat?, badS.toInt?, natList boundsS, natList drawsS, natList resS with
    | some k, some n, some bad, some bounds, some draws, some res =>
      let repl := replS == "1"
      let opened := openedS == "1"
      let items : List (Option Nat) :=
        if bad ≥ 0 then (List.range bad.toNat).map some ++ [none]
        else if n == 0 then [none] else (List.range n).map some
      let model := sampleCmd k repl opened items draws
      let tags := ["samplecmd", "cli", "fmt-" ++ fmt] ++ tagIf repl "replace" ++ tagIf (k < 0) "k<0" ++ tagIf (ks == "d") "default-n" ++
        tagIf (!opened) "nofile" ++ tagIf (bad ≥ 0) "malformed-tree" ++ tagIf (n == 0 && bad < 0) "empty-input" ++
        tagIf (model matches .ok _) "ok" ++ tagIf (model == .err) "err" ++ tagIf (model == .panic) "panic" ++
        tagIf (k ≥ 0 && k.toNat < n && k ≥ 1 && bad < 0 && opened) "nontrivial" ++
        tagIf (k.toNat ≥ n && n ≥ 1) "k>=n"
      -- oracle: a run that selects must select as the property says; a failing run writes nothing
      let oracle : Option String :=
        if cls == "ok" then
          if repl then (if validSlots k.toNat n res then none else some "not k slots filled with trees of the input")
          else if k.toNat ≥ n then (if res == List.range n then none else some "k ≥ n: not all trees kept")
          else if validSubset k.toNat n res then none else some "not a duplicate-free choice of k trees"
        else if !res.isEmpty then some "trees were written although the command failed"
        -- the command must never crash: a negative size is an error since 4c7dd84
        else if cls == "panic" then some "the command crashed"
        else if cls == "timeout" then some "the command did not terminate"
        else none
      let tie : Option String :=
        match model with
        | .ok out => if cls == "ok" && out == res then none else some ("model: ok " ++ showNats out)
        | .err => if cls == "err" then none else some "model: error"
        | .panic => if cls == "panic" then none else some "model: panic"
      let proto := match model with
        | .ok _ => protoMsg bounds (sampleCmdScript k repl n) draws "-"
        | _ => none
      finish tags oracle proto tie
    | _, _, _, _, _, _ => bad "C20.samplecmd fields"
  | "prunecmd", [_seed, dump, randS, argsS, tipfileS, compS, boundsS, drawsS, cls, removedS] =>
    -- the option priorities of `gotree prune`: -f > -c > --random > arguments
    match T.undump dump, randS.toInt?, parseStrList argsS, natList boundsS, natList drawsS, parseStrList removedS with
    | some t, some rnd, some args, some bounds, some draws, some removed =>
      let tipfile := if tipfileS == "-" then none else parseStrList tipfileS
      let comp := if compS == "-" then none else parseStrList compS
      let tips := t.tipNames
      let tags := ["prunecmd", "cli"] ++ tagIf tipfile.isSome "opt-f" ++ tagIf comp.isSome "opt-c" ++ tagIf (rnd > 0) "opt-random" ++
        tagIf (!args.isEmpty) "opt-args" ++ tagIf (tipfile.isNone && comp.isNone && rnd > 0) "draws" ++
        tagIf ((tagIf tipfile.isSome "f" ++ tagIf comp.isSome "c" ++ tagIf (rnd > 0) "r" ++ tagIf (!args.isEmpty) "a").length ≥ 2) "nontrivial"
      let drawing := tipfile.isNone && comp.isNone && rnd > 0
      let oracle : Option String :=
        if cls != "ok" then some ("outcome class " ++ cls)
        else if !(removed.all tips.contains) then some "a tip disappeared that the input does not have"
        else if drawing && !(validSubset rnd.toNat tips.length ((removed.map tips.idxOf))) then
          some "--random k: not a duplicate-free choice of k tips"
        else none
      let model := (pruneSelection tipfile comp rnd args t draws).filter tips.contains
      finish tags oracle (protoMsg bounds (pruneSelectionScript tipfile.isSome comp.isSome rnd tips.length) draws "-")
        (if sortStrings model == sortStrings removed then none else some ("model removes " ++ showStrList model))
    | _, _, _, _, _, _ => bad "C20.prunecmd fields"
  | "prunerange", [_seed, dump, ksS, keepS, boundsS, drawsS, cls, selS] =>
    -- `gotree prune --random k [-r]` over the whole range of k (≤ 0, …, n-2 … n+2).  `sel` = the tips that
    -- disappeared (that stayed, with -r).  What RemoveTips does when fewer than 3 tips are left is the
    -- business of C06: there any outcome class is accepted (tag `C06-quantifier`).
    match T.undump dump, ksS.toInt?, natList boundsS, natList drawsS, parseStrList selS with
    | some t, some k, some bounds, some draws, some sel =>
      let keep := keepS == "1"
      let tips := t.tipNames
      let n := tips.length
      let eff := if k > 0 then min k.toNat n else 0
      let left := if keep then eff else n - eff
      let degenerate := left < 3
      let tags := ["prunerange", "cli"] ++ tagIf keep "keep" ++ tagIf (!keep) "remove" ++ tagIf (k ≤ 0) "k<=0" ++
        tagIf (k > 0 && k.toNat < n) "k<n" ++ tagIf (k.toNat == n) "k=n" ++ tagIf (k.toNat > n) "k>n" ++
        tagIf degenerate "C06-quantifier" ++ tagIf t.rooted "rooted" ++ tagIf (k > 0 && k.toNat < n && !degenerate) "nontrivial"
      let oracle : Option String :=
        if cls == "ok" then
          if !(sel.all tips.contains) then some "a tip appeared / disappeared that the input does not have"
          else if sel.eraseDups.length != sel.length || sel.length != eff then
            some ("the selection has " ++ toString sel.length ++ " tips, expected " ++ toString eff)
          else none
        else if cls == "panic" || cls == "timeout" then some ("outcome class " ++ cls)
        else if !degenerate then some ("a selection that leaves " ++ toString left ++ " tips was refused: " ++ cls)
        else none
      let model := (pruneSelection none none k [] t draws).filter tips.contains
      let tie : Option String :=
        if cls != "ok" then none
        else if sortStrings model == sortStrings sel then none else some ("model selects " ++ showStrList model)
      finish tags oracle (if cls == "ok" then protoMsg bounds (pruneSelectionScript false false k n) draws "-" else none) tie
    | _, _, _, _, _ => bad "C20.prunerange fields"
  | "prunefile", [_seed, dumps, ksS, boundsS, drawsS, cls, selsS] =>
    -- `gotree prune --random k` on a file of several trees: the draws run on from tree to tree
    match (splitTerm "|" dumps).mapM T.undump, ksS.toNat?, natList boundsS, natList drawsS, parseStrLists selsS with
    | some ts, some k, some bounds, some draws, some sels =>
      let tags := ["prunefile", "cli"] ++ tagIf (ts.length ≥ 2) "multitree" ++ tagIf (k ≥ 1) "nontrivial"
      let oracle : Option String :=
        if cls != "ok" then some ("outcome class " ++ cls)
        else if sels.length != ts.length then some "not one output tree per input tree"
        else if (sels.zip ts).all (fun p => p.1.all p.2.tipNames.contains && p.1.eraseDups.length == p.1.length &&
            p.1.length == min k p.2.tipNames.length) then none
        else some "some tree did not lose a duplicate-free choice of k of its tips"
      let model := pruneRandomCmd k ts draws
      finish tags oracle (protoMsg bounds (pruneRandomCmdScript k ts) draws "-")
        (if model.map sortStrings == sels.map sortStrings then none else some ("model removes " ++ showStrLists model))
    | _, _, _, _, _ => bad "C20.prunefile fields"
  | "utreecmd", [_seed, ns, rootedS, nbS, scriptS, drawsS, cls, shapesS] =>
    -- `gotree generate uniformtree -n N`: N trees from one seed
    match ns.toNat?, nbS.toNat?, natList scriptS, natList drawsS with
    | some n, some nb, some script, some draws =>
      let rooted := rootedS == "1"
      let tags := ["utreecmd", "cli"] ++ tagIf (nb ≥ 2 && n ≥ 4) "nontrivial" ++ tagIf rooted "rooted" ++ tagIf (!rooted) "unrooted"
      let canons := if cls == "ok" then (splitTerm "|" shapesS).map (treeCanon rooted n) else []
      let oracle : Option String :=
        if cls != "ok" then some ("outcome class " ++ cls)
        else if canons.length != nb || canons.any (·.isNone) then
          some ("not " ++ toString nb ++ " binary trees on Tip0..Tip" ++ toString (n - 1) ++ " with the requested rooting")
        else none
      let model := (uniformTreeCmd nb n rooted draws).map sortClusters
      finish tags oracle (protoMsg script (uniformTreeCmdScript nb n rooted) draws "-")
        (if canons == model.map some then none else some ("model clusters " ++ "/".intercalate (model.map showClusters)))
    | _, _, _, _ => bad "C20.utreecmd fields"
  | "seedcmd", [flagS, cls, out1, out2, outLit] =>
    -- cmd/root.go: `--seed` default -1 = the clock; any other value seeds math/rand as it is
    let flag? : Option (Option Int) := if flagS == "-" then some none else flagS.toInt?.map some
    match flag? with
    | none => bad "C20.seedcmd flag"
    | some flag =>
      let fixed := seedFixed flag
      let tags := ["seedcmd", "cli", "nontrivial"] ++ tagIf fixed "seed-fixed" ++ tagIf (!fixed) "seed-clock" ++
        tagIf (flag == none) "seed-absent" ++ tagIf (fixed && flag.getD 0 ≤ 0) "seed-nonpositive"
      let oracle : Option String :=
        if cls != "ok" then some ("outcome class " ++ cls)
        else if out1 == "" || out2 == "" then some "no tree written"
        else if fixed && out1 != out2 then some "two runs with the same --seed gave different trees"
        else if !fixed && out1 == out2 then some "two runs seeded by the clock gave the same tree with its lengths: the seed does not vary"
        else none
      -- the model: the source is seeded with `seedUsed flag clock`; the harness seeds its own copy with the literal value
      let tie : Option String :=
        if fixed && out1 != outLit then some ("the command did not seed math/rand with " ++ toString (seedUsed flag 0))
        else if !fixed && out1 == outLit then some "the sentinel -1 was used as a seed"
        else none
      finish tags oracle none tie
  | "shufcli", [_seed, dumps, boundsS, drawsS, cls, aftersS] =>
    -- `gotree shuffletips` on a file of several trees
    match (splitTerm "|" dumps).mapM T.undump, natList boundsS, natList drawsS, parseStrLists aftersS with
    | some ts, some bounds, some draws, some afters =>
      let uniq := ts.all fun t => t.tipNames.eraseDups.length == t.tipNames.length
      let tags := ["shufcli", "cli"] ++ tagIf (ts.length ≥ 2) "multitree" ++ tagIf (ts.any (·.tipNames.length ≥ 3)) "nontrivial" ++
        tagIf (ts.any (·.rooted)) "rooted"
      if !uniq then ⟨.pass, "skip-dupnames" :: tags, ""⟩ else
      let oracle : Option String :=
        if cls != "ok" then some ("outcome class " ++ cls)
        else if afters.length == ts.length && (afters.zip ts).all (fun p => isPermOf p.1 p.2.tipNames) then none
        else some "tip names after are not, tree by tree, a permutation of the tip names before"
      let model := shuffleTipsCmd ts draws
      finish tags oracle (protoMsg bounds (shuffleTipsCmdScript ts) draws "-")
        (if model == afters then none else some ("model names " ++ showStrLists model))
    | _, _, _, _ => bad "C20.shufcli fields"
  | "rotcli", [_seed, dumps, boundsS, drawsS, cls, aftersS] =>
    match (splitTerm "|" dumps).mapM T.undump, natList boundsS, natList drawsS with
    | some ts, some bounds, some draws =>
      let tags := ["rotcli", "cli"] ++ tagIf (ts.any (·.size ≥ 4)) "nontrivial" ++ tagIf (ts.length ≥ 2) "multitree" ++
        tagIf (ts.any (·.rooted)) "rooted"
      match (if cls == "ok" then (splitTerm "|" aftersS).mapM T.undump else none) with
      | none => ⟨.oracle, tags, "outcome class " ++ cls ++ " / output not readable"⟩
      | some afters =>
        let oracle : Option String :=
          if afters.length == ts.length &&
              (afters.zip ts).all (fun p => canonT (nwViewT p.1) == canonT (nwViewT p.2)) then none
          else some "`rotate rand` changed more than the order of neighbours (or the number of trees)"
        let model := (rotateRandCmd ts draws).map nwViewT
        finish tags oracle (protoMsg bounds (rotateRandScript ts) draws "-")
          (if model == afters.map nwViewT then none else some ("model trees " ++ "|".intercalate (model.map (·.dump))))
    | _, _, _ => bad "C20.rotcli fields"
  | "utree", [what, _seed, ns, rootedS, scriptS, drawsS, sync, cls, shape, dump] =>
    match ns.toNat?, natList scriptS, natList drawsS with
    | some n, some script, some draws =>
      let rooted := rootedS == "1"
      -- fidelity figure (decides nothing): the pointer-level model gives the very same rose tree
      let exact := match T.undump dump with
        | some t => stripT t == utreeT rooted draws
        | none => false
      -- the rose-tree model the theorems `rose_clusters` / `uniform_unrooted_bijective_rose` are about
      let exactR := match T.undump dump with
        | some t => stripT t == roseFinal rooted draws
        | none => false
      let tags := ["utree", "utree-" ++ what] ++ tagIf (n ≥ 4) "nontrivial" ++ tagIf rooted "rooted" ++ tagIf (!rooted) "unrooted" ++
        tagIf (sync == "-") "cli" ++ tagIf exact "alpha-exact" ++ tagIf (!exact && dump != "-") "alpha-differs" ++
        tagIf exactR "alpha-exact-rose" ++ tagIf (!exactR && dump != "-") "alpha-differs-rose"
      let canon := if cls == "ok" then treeCanon rooted n shape else none
      let oracle : Option String :=
        if cls != "ok" then some ("outcome class " ++ cls)
        else if canon.isNone then some ("not a binary tree on Tip0..Tip" ++ toString (n - 1) ++ " with the requested rooting: " ++ shape)
        else none
      let model := sortClusters (utree rooted draws)
      finish tags oracle (protoMsg script (utreeScript rooted n) draws sync)
        (if canon == some model then none else some ("model clusters " ++ showClusters model))
    | _, _, _ => bad "C20.utree fields"
  | "fib", [what, ks, ns, _seed, dump, boundsS, tableS, nonfuncS, desyncS, _seeds] =>
    match ks.toNat?, ns.toNat?, natList boundsS, parseTable tableS, nonfuncS.toNat?, desyncS.toNat? with
    | some k, some n, some bounds, some table, some nonfunc, some desync =>
      handleFib what k n (T.undump dump) bounds table nonfunc desync
    | _, _, _, _, _, _ => bad "C20.fib fields"
  | "freq", [what, ks, ns, _seed, nseedsS, countsS] =>
    match ks.toNat?, ns.toNat?, nseedsS.toNat?, natList countsS with
    | some k, some n, some N, some counts =>
      match kindOf what k n none with
      | none => bad "C20.freq kind"
      | some kd =>
        let tags := ["freq", "freq-" ++ what, "supporting-evidence"]
        -- `counts`: occurrences of the outcomes that occurred (the others count 0)
        let all := counts ++ List.replicate (kd.size - counts.length) 0
        if counts.sum != N || counts.length > kd.size then ⟨.oracle, tags, "more outcomes than the outcome space has"⟩
        else if kd.size ≥ 2 && !(freqOK N kd.size all) then
          ⟨.oracle, tags, "frequencies over " ++ toString N ++ " seeds outside the exact binomial bounds (tail < 1e-12): min " ++
            toString (all.foldl min N) ++ " max " ++ toString (all.foldl max 0) ++ " expected " ++ toString (N / kd.size)⟩
        else ⟨.pass, tags, ""⟩
    | _, _, _, _ => bad "C20.freq fields"
  | "marg", [what, ks, ns, _seed, nseedsS, countsS] =>
    -- model-free: the implementation alone over many seeds, events counted by the harness
    match ks.toNat?, ns.toNat?, nseedsS.toNat?, natList countsS with
    | some k, some n, some N, some counts =>
      match margSpec what k n with
      | none => bad "C20.marg kind"
      | some (a, b, cells) =>
        let tags := ["marg", "marg-" ++ what, "supporting-evidence", "model-free"] ++ tagIf (n > 8) "beyond-fib" ++
          tagIf (n > 8) "nontrivial"
        if counts.length != cells then ⟨.oracle, tags, "expected " ++ toString cells ++ " event counts, got " ++ toString counts.length⟩
        else if counts.any (· == 0) then
          ⟨.oracle, tags, "an event that the property gives probability " ++ toString a ++ "/" ++ toString b ++
            " never happened on " ++ toString N ++ " seeds (event number " ++ toString (counts.idxOf 0) ++ ")"⟩
        else if !(margOK N a b counts) then
          ⟨.oracle, tags, "event frequencies over " ++ toString N ++ " seeds outside the exact binomial bounds for p = " ++
            toString a ++ "/" ++ toString b ++ " (tail < 1e-12): min " ++ toString (counts.foldl min N) ++ " max " ++
            toString (counts.foldl max 0) ++ " expected about " ++ toString (N * a / b)⟩
        else ⟨.pass, tags, ""⟩
    | _, _, _, _ => bad "C20.marg fields"
  | _, _ => bad ("C20: unknown op " ++ op)

end Gotree.Driver.C20
