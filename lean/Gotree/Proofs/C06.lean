/-
  C06 — property theorems about the model functions the driver runs
  (`Gotree.C06.removeTip`, `removeTips`, `removeTipsPinned`, `PruneFlags.names`).
-/
import Gotree.Lemmas.C06DataSpec

namespace Gotree.C06
open Gotree Gotree.C14

/-- a small tree used as non-vacuity witness: `((a:1,b:2)0.5:1,c:1,d:1,e:1);` -/
def t0 : T :=
  .node ⟨"", []⟩ 0 [
    (⟨1, 1/2, NIL, [], 0⟩, .node ⟨"", []⟩ 0 [(⟨1, NIL, NIL, [], 1⟩, T.leaf "a"), (⟨2, NIL, NIL, [], 2⟩, T.leaf "b")]),
    (⟨1, NIL, NIL, [], 3⟩, T.leaf "c"), (⟨1, NIL, NIL, [], 4⟩, T.leaf "d"), (⟨1, NIL, NIL, [], 5⟩, T.leaf "e")]

/-- ★ One tip removed (`removeTip`, tree.go:294) from a well-formed tree, at least
    3 tips remaining: the call succeeds, the tips are the others, the branches are
    exactly the restrictions of the old ones (as splits of the remaining tips), path
    lengths between remaining tips are unchanged, no single-child node is left. -/
theorem removeTip_induced (t : T) (x : String) (h₁ : wf t = true) (h₃ : 3 ≤ t.tipNames.length - 1) :
    ∃ t', removeTip x t = .ok t' ∧ t'.tipNames.Perm (t.tipNames.erase x) ∧
      splitsInduced t'.tipNames t t' ∧
      (lensOK t = true → ∀ a b, a ∈ t'.tipNames → b ∈ t'.tipNames → t'.dist a b = t.dist a b) ∧
      wf t' = true ∧ (lensOK t = true → lensOK t' = true) := by
  obtain ⟨hnd, hns, hroot⟩ := (wf_iff t).1 h₁
  have hc : 4 ≤ t.tipNames.length := by omega
  obtain ⟨t', e1, hperm, hns', hr'⟩ := removeTip_spec x t hroot hns hc
  have R := removeTip_rootEff x t hroot hns hnd hc t' e1
  refine ⟨t', e1, hperm, ⟨R.back, R.fwd⟩, fun hl a b ha hb => R.dist ((lensOK_iff t).1 hl) a b ha hb,
    (wf_iff t').2 ⟨hperm.nodup_iff.2 (hnd.erase x), hns', hr'⟩,
    fun hl => (lensOK_iff t').2 (R.lens ((lensOK_iff t).1 hl))⟩

example : wf t0 = true ∧ 3 ≤ t0.tipNames.length - 1 ∧ lensOK t0 = true := by decide

/-- ★ `RemoveTips` (tree.go:259) on a well-formed tree (unique tip names, no
    single-child inner node, the root is not a tip), any list of names `S`
    (names that are no tip are ignored; `rev` keeps instead of removing), at least
    3 tips kept.  The call succeeds and returns the tree induced on the kept tips:
    1. its tip set is exactly `kept t S rev`;
    2. its branches are exactly the restrictions of the branches of `t` with both
       sides non-empty, as splits of the kept tips;
    3. every path length between two kept tips is unchanged (lengths absent or ≥ 0);
    4. it is well-formed again (no single-child inner node, root not a tip);
    5. the refreshed index holds exactly the new tip names. -/
theorem removeTips_induced (t : T) (S : List String) (rev : Bool) (h₁ : wf t = true)
    (h₃ : 3 ≤ (kept t S rev).length) :
    ∃ t', removeTips rev S t = .ok (t', sortNames t'.tipNames) ∧
      t'.tipNames.Perm (kept t S rev) ∧
      splitsInduced (kept t S rev) t t' ∧
      (lensOK t = true → ∀ a b, a ∈ kept t S rev → b ∈ kept t S rev → t'.dist a b = t.dist a b) ∧
      wf t' = true ∧ (lensOK t = true → lensOK t' = true) := by
  obtain ⟨hnd, hns, hroot⟩ := (wf_iff t).1 h₁
  have hcount : 3 + (toRemove t S rev).length ≤ t.tipNames.length := by
    have := filter_length_compl t.tipNames (fun n => S.contains n != rev)
    have e : (t.tipNames.filter fun n => !(S.contains n != rev)) = kept t S rev := by
      unfold kept; apply List.filter_congr; intro n _; cases S.contains n <;> cases rev <;> rfl
    rw [e] at this
    unfold toRemove; omega
  have hmap : (workList t S rev).map (·.1) = t.tipNames := by
    simp [workList, Function.comp_def]
  have hsub : ∀ n ∈ (workList t S rev).map (·.1), n ∈ t.tipNames := fun n hn => hmap ▸ hn
  have hnd2 : ((workList t S rev).map (·.1)).Nodup := hmap ▸ hnd
  rw [← flagged_workList] at hcount
  obtain ⟨t', g1, g2, g3, g4, g5⟩ := removeLoop_spec (workList t S rev) t hroot hns hnd hnd2 hsub hcount
  have R := removeLoop_rootEff (workList t S rev) t hroot hns hnd hnd2 hsub hcount t' g1
  rw [flagged_workList] at g2
  have hk : t'.tipNames.Perm (kept t S rev) := by
    refine g2.trans (List.Perm.of_eq ?_)
    unfold kept toRemove
    apply List.filter_congr
    intro n hn
    simp [hn]
    cases S.contains n <;> cases rev <;> simp
  have hmem : ∀ a, a ∈ kept t S rev → a ∈ t'.tipNames := fun a ha => hk.mem_iff.2 ha
  have hmem' : ∀ a, a ∈ t'.tipNames → a ∈ kept t S rev := fun a ha => hk.mem_iff.1 ha
  refine ⟨t', ?_, hk, ⟨?_, ?_⟩, fun hl a b ha hb => R.dist ((lensOK_iff t).1 hl) a b (hmem a ha) (hmem b hb),
    (wf_iff t').2 ⟨g5, g3, g4⟩, fun hl => (lensOK_iff t').2 (R.lens ((lensOK_iff t).1 hl))⟩
  · simp [removeTips, g1, updateTipIndex, (hasDup_false_iff _).2 g5]
  · intro s' hs'
    obtain ⟨s, hs, e⟩ := R.back s' hs'
    exact ⟨s, hs, e.mono hmem⟩
  · intro s hs ⟨a, ha, hma⟩ ⟨b, hb, hmb⟩
    obtain ⟨s', hs', e⟩ := R.fwd s hs ⟨a, hmem a ha, hma⟩ ⟨b, hmem b hb, hmb⟩
    exact ⟨s', hs', e.mono hmem⟩

example : wf t0 = true ∧ 3 ≤ (kept t0 ["a", "zz"] false).length ∧ 3 ≤ (kept t0 ["b", "c", "e", "zz"] true).length := by
  decide

/-- ★ The same result stated with the Spec functions the driver's oracle evaluates on
    the implementation's output (`tipsOK`, `T.usplitSet` / `restrictSplits`, `distOK`,
    `noSingleAfter`): on the model they all hold.  Clause 2: the non-trivial split set of
    the result and `restrictSplits` of the original split set have the same members (both
    are duplicate-free and sorted by the same order).  `noSingleAfter` includes: an
    unrooted tree (root with ≥ 3 neighbours) does not end with a root of degree 2. -/
theorem removeTips_oracle (t : T) (S : List String) (rev : Bool) (h₁ : wf t = true)
    (h₃ : 3 ≤ (kept t S rev).length) :
    ∃ t', removeTips rev S t = .ok (t', sortNames t'.tipNames) ∧
      tipsOK t S rev t' = true ∧
      (∀ a, a ∈ t'.usplitSet ↔ a ∈ restrictSplits t.tipNames (kept t S rev) t.usplitSet) ∧
      (lensOK t = true → distOK t S rev t' = true) ∧
      noSingleAfter t t' = true := by
  obtain ⟨hnd, hns, hroot⟩ := (wf_iff t).1 h₁
  obtain ⟨t', e1, hk, hind, hdist, hwf', _⟩ := removeTips_induced t S rev h₁ h₃
  obtain ⟨_, hns', hroot'⟩ := (wf_iff t').1 hwf'
  refine ⟨t', e1, ?_, usplitSet_restrict t t' _ hnd hk hind, fun hl => ?_, ?_⟩
  · simp [tipsOK, sortS_congr hk]
  · simp only [distOK, List.all_eq_true, Bool.or_eq_true, beq_iff_eq]
    intro a ha b hb
    exact Or.inr (hdist hl a b (mem_sortS.1 ha) (mem_sortS.1 hb))
  · have hloop : removeLoop (workList t S rev) t = .ok t' := by
      unfold removeTips at e1
      cases hl : removeLoop (workList t S rev) t with
      | error e => rw [hl] at e1; cases e1
      | ok t'' =>
        rw [hl] at e1
        simp only [updateTipIndex] at e1
        split at e1
        · cases e1
        · cases e1; rfl
    have hcount : 3 + (flagged (workList t S rev)).length ≤ t.tipNames.length := by
      rw [flagged_workList]
      have := filter_length_compl t.tipNames (fun n => S.contains n != rev)
      have e : (t.tipNames.filter fun n => !(S.contains n != rev)) = kept t S rev := by
        unfold kept; apply List.filter_congr; intro n _; cases S.contains n <;> cases rev <;> rfl
      rw [e] at this
      unfold toRemove; omega
    have hmap : (workList t S rev).map (·.1) = t.tipNames := by
      simp [workList, Function.comp_def]
    have hun : 3 ≤ t.kids.length → 3 ≤ t'.kids.length := fun h3 =>
      removeLoop_unrooted (workList t S rev) t hroot hns hnd (hmap ▸ hnd) (fun n hn => hmap ▸ hn) hcount h3 t' hloop
    simp only [noSingleAfter, hns', Bool.true_and, Bool.and_eq_true, bne_iff_ne, ne_eq, Bool.or_eq_true,
      decide_eq_true_eq]
    refine ⟨hroot', ?_⟩
    by_cases h2 : t.kids.length ≤ 2
    · exact Or.inl h2
    · have := hun (by omega)
      exact Or.inr (by omega)

/-- ★ Lengths and supports of the whole result (`Spec.dataOK` up to the order of the
    lists): every non-trivial split of the pruned tree carries the sum of the lengths and
    the max of the supports of the branches of `t` that restrict to it, every tip branch
    the sum of the lengths — the unrooted split map of the result is `restrictU t kept`. -/
theorem removeTips_data (t : T) (S : List String) (rev : Bool) (h₁ : wf t = true)
    (h₃ : 3 ≤ (kept t S rev).length) (hl : lensOK t = true) :
    ∃ t', removeTips rev S t = .ok (t', sortNames t'.tipNames) ∧
      t'.usplits.Perm ((restrictU t (kept t S rev)).filter
        (fun s => decide (2 ≤ lightSize (kept t S rev) s.side))) ∧
      t'.tipLens.Perm (((restrictU t (kept t S rev)).filter
        (fun s => decide (lightSize (kept t S rev) s.side ≤ 1))).map (fun s => (s.side, s.len))) := by
  obtain ⟨hnd, hns, hroot⟩ := (wf_iff t).1 h₁
  obtain ⟨t', e1, hk, _, _, hwf', _⟩ := removeTips_induced t S rev h₁ h₃
  obtain ⟨_, _, hroot'⟩ := (wf_iff t').1 hwf'
  have hloop : removeLoop (workList t S rev) t = .ok t' := by
    unfold removeTips at e1
    cases hl' : removeLoop (workList t S rev) t with
    | error e => rw [hl'] at e1; cases e1
    | ok t'' =>
      rw [hl'] at e1
      simp only [updateTipIndex] at e1
      split at e1
      · cases e1
      · cases e1; rfl
  have hcount : 3 + (flagged (workList t S rev)).length ≤ t.tipNames.length := by
    rw [flagged_workList]
    have := filter_length_compl t.tipNames (fun n => S.contains n != rev)
    have e : (t.tipNames.filter fun n => !(S.contains n != rev)) = kept t S rev := by
      unfold kept; apply List.filter_congr; intro n _; cases S.contains n <;> cases rev <;> rfl
    rw [e] at this
    unfold toRemove; omega
  have hmap : (workList t S rev).map (·.1) = t.tipNames := by
    simp [workList, Function.comp_def]
  have hI := removeLoop_ind (workList t S rev) t hroot hns hnd (hmap ▸ hnd) (fun n hn => hmap ▸ hn) hcount t' hloop
    (kept t S rev) (fun a ha => hk.mem_iff.2 ha)
  have h2 : 2 ≤ t'.kids.length := by
    have hlen : 3 ≤ t'.tipNames.length := hk.length_eq ▸ h₃
    rw [tipNames_of_ne1 t' hroot'] at hlen
    match t'.kids, hroot', hlen with
    | [], _, hlen => simp [leavesL] at hlen
    | [_], hr, _ => simp at hr
    | _ :: _ :: _, _, _ => simp
  exact ⟨t', e1, data_of_ind t t' _ hnd hk h2 hI ((lensOK_iff t).1 hl)⟩

example : wf t0 = true ∧ 3 ≤ (kept t0 ["b", "nosuch"] false).length ∧ lensOK t0 = true := by decide

/-- Names that are no tip of the tree are ignored. -/
theorem removeTips_ignores_absent (t : T) (S : List String) (rev : Bool) (y : String) (hy : y ∉ t.tipNames) :
    removeTips rev (y :: S) t = removeTips rev S t := by
  have : workList t (y :: S) rev = workList t S rev := by
    unfold workList
    apply List.map_congr_left
    intro n hn
    have hny : n ≠ y := fun h => hy (h ▸ hn)
    simp [hny]
  simp [removeTips, this]

/-- Look-ups by name reflect the new tip set: after a successful `RemoveTips` the
    index answers `ExistsTip` exactly for the tips of the new tree, and `NbTips`
    is their number (F12 repaired by a345ca7). -/
theorem removeTips_index (t : T) (S : List String) (rev : Bool) (t' : T) (ix : Index)
    (h : removeTips rev S t = .ok (t', ix)) (hne : t'.tipNames ≠ []) :
    (∀ n, existsTip ix n = some (decide (n ∈ t'.tipNames))) ∧ nbTips ix = some t'.tipNames.length ∧
      (∀ n, (tipIndexOf ix n).isSome = decide (n ∈ t'.tipNames)) := by
  unfold removeTips at h
  cases hl : removeLoop (workList t S rev) t with
  | error e => rw [hl] at h; cases h
  | ok t'' =>
    rw [hl] at h
    simp only [updateTipIndex] at h
    by_cases hd : hasDup t''.tipNames = true
    · simp [hd] at h
    · simp [hd] at h
      obtain ⟨rfl, rfl⟩ := h
      have hne' : (sortNames t''.tipNames).isEmpty = false := by
        have : (sortNames t''.tipNames).length = t''.tipNames.length := (List.mergeSort_perm _ _).length_eq
        cases hs : sortNames t''.tipNames with
        | nil =>
          rw [hs] at this
          exact absurd (List.length_eq_zero_iff.1 this.symm) hne
        | cons a r => rfl
      refine ⟨fun n => ?_, ?_, fun n => ?_⟩
      · simp [existsTip, hne', mem_sortNames6]
      · have hlen : (sortNames t''.tipNames).length = t''.tipNames.length := (List.mergeSort_perm _ _).length_eq
        simp [nbTips, hne', hlen]
      · by_cases hm : n ∈ t''.tipNames <;> simp [tipIndexOf, mem_sortNames6, hm]

/-- F12 as it was (before a345ca7 the index was not refreshed): on `t0` with the
    index `[a,b,c,d,e]`, after removing `a` the stale index still answers `a`. -/
theorem removeTipsPinned_fails :
    (match removeTipsPinned false ["a"] t0 ["a", "b", "c", "d", "e"] with
     | .ok (t', ix) => existsTip ix "a" == some true && !(t'.tipNames.contains "a") && nbTips ix == some 5 &&
         t'.tipNames.length == 4
     | .error _ => false) = true := by decide

/-- a tree with a single-child node below the root: `((a,b,c)),x;` — outside `wf` -/
def tSingle : T :=
  .node ⟨"", []⟩ 0 [
    (⟨1, NIL, NIL, [], 0⟩, .node ⟨"", []⟩ 0 [(⟨1, NIL, NIL, [], 1⟩,
      .node ⟨"", []⟩ 0 [(⟨1, NIL, NIL, [], 2⟩, T.leaf "a"), (⟨1, NIL, NIL, [], 3⟩, T.leaf "b"), (⟨1, NIL, NIL, [], 4⟩, T.leaf "c")])]),
    (⟨1, NIL, NIL, [], 5⟩, T.leaf "x")]

/-- Why `noSingle` is a hypothesis (observed on the real code, tag `single-root-left`): when the
    root loses its other child, a single-child node just below it becomes the root (case 1b) and,
    having one neighbour, counts as a tip with the empty name: 4 tips instead of the 3 kept. -/
theorem removeTips_single_root_witness :
    wf tSingle = false ∧ (kept tSingle ["x"] false).length = 3 ∧
    (match removeLoop (workList tSingle ["x"] false) tSingle with
     | .ok t' => t'.tipNames.length == 4 && t'.tipNames.contains "" && t'.kids.length == 1
     | .error _ => false) = true := by decide

/-- a tree whose root is itself a tip (one neighbour): `((b,c,d,e))a;` — outside `wf` -/
def tRootTip : T :=
  .node ⟨"a", []⟩ 0 [(⟨1, NIL, NIL, [], 0⟩,
    .node ⟨"", []⟩ 0 [(⟨1, NIL, NIL, [], 1⟩, T.leaf "b"), (⟨1, NIL, NIL, [], 2⟩, T.leaf "c"),
      (⟨1, NIL, NIL, [], 3⟩, T.leaf "d"), (⟨1, NIL, NIL, [], 4⟩, T.leaf "e")])]

/-- A tip that is the root can be removed (0cfc52b): its neighbour takes its place and is
    treated like any node that lost a neighbour; before that commit the call failed
    (`removeTipPinnedRootTip`).  Keeping the tip root works in both. -/
theorem removeTip_root_tip_pinned_fails :
    (match removeTipPinnedRootTip "a" tRootTip with
     | .ok _ => false
     | .error e => e == Err.rootTip) = true ∧
    (match removeLoop (workList tRootTip ["a"] false) tRootTip with
     | .ok t' => t'.tipNames == ["b", "c", "d", "e"] && t'.kids.length == 4
     | .error _ => false) = true ∧
    (match removeLoop (workList tRootTip ["b"] false) tRootTip with
     | .ok t' => t'.tipNames == ["a", "c", "d", "e"]
     | .error _ => false) = true := by decide

/-- merged branch: length = sum (absent counts 0; absent only if both are) -/
theorem fuse_length_sum (e1 e2 : EdgeD) (b : Bool) (h1 : lenOKe e1) (h2 : lenOKe e2) :
    (fuseEdge e1 e2 b).lenOr0 = e1.lenOr0 + e2.lenOr0 ∧
      ((fuseEdge e1 e2 b).len = NIL ↔ e1.len = NIL ∧ e2.len = NIL) := by
  refine ⟨fuse_lenOr0 h1 h2 b, ?_⟩
  constructor
  · intro h
    by_cases hn : (e1.len != NIL || e2.len != NIL) = true
    · have hs : 0 ≤ rmax 0 e1.len + rmax 0 e2.len := Rat.add_nonneg (rmax0_nonneg' _) (rmax0_nonneg' _)
      have : (fuseEdge e1 e2 b).len = rmax 0 e1.len + rmax 0 e2.len := by simp [fuseEdge, hn]
      rw [this] at h; rw [h] at hs; exact absurd hs (by decide)
    · simpa using hn
  · intro ⟨a, c⟩; simp [fuseEdge, a, c]

/-- merged branch: support = max of the two when both ends are inner nodes, none otherwise -/
theorem fuse_support_max (e1 e2 : EdgeD) :
    (fuseEdge e1 e2 true).sup = rmax e1.sup e2.sup ∧ (fuseEdge e1 e2 false).sup = NIL := by
  constructor
  · by_cases hn : (e1.sup != NIL || e2.sup != NIL) = true
    · simp [fuseEdge, hn]
    · have : e1.sup = NIL ∧ e2.sup = NIL := by simpa using hn
      simp [fuseEdge, this.1, this.2, rmax]
  · simp [fuseEdge]

/-- `gotree prune`: priority of the name sources, `-f` > `-c` > `--random` > arguments. -/
theorem prune_priority (f : PruneFlags) (ref : T) (sampled : List String) :
    (∀ l, f.tipfile = some l → f.names ref sampled = l) ∧
    (∀ c, f.tipfile = none → f.comp = some c → f.names ref sampled = specificTips ref c) ∧
    (f.tipfile = none → f.comp = none → f.random > 0 → f.names ref sampled = sampled) ∧
    (f.tipfile = none → f.comp = none → ¬ f.random > 0 → f.names ref sampled = f.args) := by
  refine ⟨fun l h => by simp [PruneFlags.names, h], fun c h1 h2 => by simp [PruneFlags.names, h1, h2],
    fun h1 h2 h3 => by simp [PruneFlags.names, h1, h2, h3], fun h1 h2 h3 => by simp [PruneFlags.names, h1, h2, h3]⟩

/-- `gotree prune` (model of `RunE`): whatever the source of names chosen by the flags, the
    result is the induced subtree of the reference tree on the kept tips (★ applied to `prune`). -/
theorem prune_induced (f : PruneFlags) (ref : T) (sampled : List String) (h₁ : wf ref = true)
    (h₃ : 3 ≤ (kept ref (f.names ref sampled) f.revert).length) :
    ∃ t', prune f ref sampled = .ok (t', sortNames t'.tipNames) ∧
      t'.tipNames.Perm (kept ref (f.names ref sampled) f.revert) ∧
      splitsInduced (kept ref (f.names ref sampled) f.revert) ref t' ∧
      wf t' = true := by
  obtain ⟨t', e, hk, hs, _, hw, _⟩ := removeTips_induced ref (f.names ref sampled) f.revert h₁ h₃
  exact ⟨t', e, hk, hs, hw⟩

/-- `prune -c comp` keeps exactly the tips of the reference tree that are tips of `comp`. -/
theorem prune_comp_keeps_common (ref comp : T) :
    kept ref (specificTips ref comp) false = ref.tipNames.filter comp.tipNames.contains := by
  unfold kept
  apply List.filter_congr
  intro n hn
  by_cases hc : n ∈ comp.tipNames <;> simp [specificTips, nodeTipNames, hn, hc]

/-- `specificTips ref comp` are exactly the tips of `ref` that `comp` does not have. -/
theorem specificTips_mem (ref comp : T) (n : String) :
    n ∈ specificTips ref comp ↔ n ∈ ref.tipNames ∧ n ∉ comp.tipNames := by
  simp [specificTips, nodeTipNames]

end Gotree.C06
