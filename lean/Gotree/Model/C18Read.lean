import Gotree.Model.C18
/-
  C18 — the READERS that build the maps the map-range sites iterate (round 7):
  cmd/root.go `readMapFile` (the map of `gotree rename -m`, with `--revert`) and cmd/acr.go
  `parseTipStates` (the tip → state table of `gotree acr --states`), statement by statement:
  one `map[k] = v` per line of the file, in file order, a malformed line ends the loop with an error
  that names its (1-based) number.  The file is a LIST of lines: nothing here takes a map listing as
  argument, so the maps handed to `Tree.Rename` / `ParsimonyAcr` are functions of the file alone, and
  (`readMapFile_nodupKeys`) their keys are distinct — the hypothesis of the site theorems.

  `invertLoop` is the seeded variant C18-4 (read forward, then invert by ranging over the map).
  Core Lean only.
-/
namespace Gotree.C18

/-- pieces of a character list separated by the characters satisfying `p`
    (`strings.Split(line, "\t")`; `regexp.MustCompile("\t|,").Split(l, -1)`): always at least one piece -/
def splitChars (p : Char → Bool) : List Char → List (List Char)
  | [] => [[]]
  | c :: r =>
    if p c then [] :: splitChars p r
    else match splitChars p r with
      | [] => [[c]]
      | x :: xs => (c :: x) :: xs

def splitLine (p : Char → Bool) (line : String) : List String :=
  (splitChars p line.toList).map String.ofList

/-- the two columns of a line, `none` when `len(cols) != 2` -/
def twoCols (p : Char → Bool) (line : String) : Option (String × String) :=
  match splitLine p line with
  | [a, b] => some (a, b)
  | _ => none

def isTab (c : Char) : Bool := c == '\t'
def isTabOrComma (c : Char) : Bool := c == '\t' || c == ','

/-- the entry one line of the map file writes: `outmap[cols[1]] = cols[0]` with `--revert`,
    `outmap[cols[0]] = cols[1]` without -/
def mapFileEntry (revert : Bool) (line : String) : Option (String × String) :=
  (twoCols isTab line).map (fun c => if revert then (c.2, c.1) else c)

/-- cmd/root.go `readMapFile`, the loop `for e == nil { cols := Split(line, "\t"); if len(cols) != 2 { return err(nl) };
    outmap[…] = …; line, e = Readln(reader); nl++ }`: `.error nl` = "Map file does not have 2 fields at line: nl" -/
def readLoop (entry : String → Option (String × String)) :
    Nat → List (String × String) → List String → Except Nat (List (String × String))
  | _, m, [] => .ok m
  | nl, m, line :: r =>
    match entry line with
    | some (k, v) => readLoop entry (nl + 1) (put m k v) r
    | none => .error nl

def readMapFile (revert : Bool) (lines : List String) : Except Nat (List (String × String)) :=
  readLoop (mapFileEntry revert) 1 [] lines

/-- cmd/acr.go `parseTipStates`: columns separated by a TAB or a comma, `states[cols[0]] = cols[1]`;
    `.error _` = "Bad format for tip states: Wrong number of columns" -/
def parseTipStates (lines : List String) : Except Nat (List (String × String)) :=
  readLoop (twoCols isTabOrComma) 1 [] lines

/-- what a reader's map answers for a key, stated on the FILE (no map): the value of the last line whose key
    column is `k` -/
def lastBinding (entry : String → Option (String × String)) (lines : List String) (init : Option String) (k : String) :
    Option String :=
  lines.foldl (fun acc line => match entry line with
    | some (a, b) => if a == k then some b else acc
    | none => acc) init

/-- `gotree rename -i tree -m file [-r]` on the node names of one tree (in `Nodes()` order): read the map,
    then the whole of `Tree.Rename`; `none` = the command fails (bad line, duplicate node names, two tips
    with one name after the renaming) -/
def renameFromFile (revert : Bool) (lines : List String) (names : List String) (isTip : List Bool) : Option (List String) :=
  match readMapFile revert lines with
  | .error _ => none
  | .ok m => renameFull names isTip m

/-- the seeded variant C18-4: the file is read forward and, with `--revert`, the map is inverted afterwards
    `for k, v := range m { inv[v] = k }` — `l` is Go's listing of the forward map -/
def invertLoop (l : List (String × String)) : List (String × String) :=
  l.foldl (fun inv e => put inv e.2 e.1) []

/-- what `gotree acr --algo none` writes on the tips of its output tree (the part of the result that depends on
    the states file alone): for every tip name, sorted, `name,state` with the state the table holds for it -/
def tipStateLines (states : List (String × String)) (tips : List String) : List String :=
  (sortS tips).map (fun t => t ++ "," ++ (get states t).getD "" ++ "\n")


/-! ## tree.RenameAuto and the `--auto` path of cmd/rename.go: the map is WRITTEN here (looked up, inserted), never ranged over -/

/-- `fmt.Sprintf(fmt.Sprintf("%c%%0%dd", prefix, length-1), curid)`: the prefix, then the decimal digits of
    `curid` padded with zeros to at least `length-1` characters (never truncated) -/
def autoName (pfx : Char) (length curid : Nat) : String :=
  let d := (toString curid).toList
  String.ofList (pfx :: (List.replicate (length - 1 - d.length) '0' ++ d))

/-- outcome of `RenameAuto` on one tree -/
inductive AutoRes where
  /-- new names in `Nodes()` order, the counter, the name map -/
  | ok (names : List String) (curid : Nat) (namemap : List (String × String))
  /-- "Id length %d does not allow to generate as much ids: %d (%s)" -/
  | idTooLong (curid : Nat) (newname : String)
  /-- `UpdateTipIndex`: several tips with one name -/
  | dupTips
  deriving BEq, Repr, DecidableEq

/-- `if n.Name() == "" { n.SetName(Sprintf("%d", i)) }` for an inner node: the name looked up in the map -/
def autoKey (i : Nat) (name : String) (isTip : Bool) : String :=
  if !isTip && name == "" then toString i else name

/-- `prefix := 'T'; if !n.Tip() { prefix = 'N' }` -/
def autoPrefix (isTip : Bool) : Char := if isTip then 'T' else 'N'

/-- the loop `for i, n := range t.Nodes()`: `nodes` = (name, isTip) from position `i` on; `acc` = the names
    already decided (in order) -/
def renameAutoLoop (internals tips : Bool) (length : Nat) :
    Nat → List (String × Bool) → List String → Nat → List (String × String) → AutoRes
  | _, [], acc, curid, nm => .ok acc curid nm
  | i, (name, isTip) :: r, acc, curid, nm =>
    if (tips && isTip) || (internals && !isTip) then
      match get nm (autoKey i name isTip) with
      | some newname => renameAutoLoop internals tips length (i + 1) r (acc ++ [newname]) curid nm
      | none =>
        if (autoName (autoPrefix isTip) length curid).length != length then
          .idTooLong curid (autoName (autoPrefix isTip) length curid)
        else renameAutoLoop internals tips length (i + 1) r (acc ++ [autoName (autoPrefix isTip) length curid]) (curid + 1)
          (put nm (autoKey i name isTip) (autoName (autoPrefix isTip) length curid))
    else renameAutoLoop internals tips length (i + 1) r (acc ++ [name]) curid nm

/-- the whole of `Tree.RenameAuto`: the loop, then `UpdateTipIndex` on the new tip names -/
def renameAuto (internals tips : Bool) (length : Nat) (nodes : List (String × Bool)) (curid : Nat)
    (nm : List (String × String)) : AutoRes :=
  match renameAutoLoop internals tips length 0 nodes [] curid nm with
  | .ok names c m =>
    if (fillIndex ([] : List (String × Nat))
        ((sortS ((names.zip (nodes.map (·.2))).filterMap (fun e => if e.2 then some e.1 else none))).map (fun n => (n, 0)))).isNone
    then .dupTips else .ok names c m
  | e => e

/-- cmd/rename.go with `--auto`: `curid := 1`, an empty map, `if autorenamelength < 5 { autorenamelength = 5 }`,
    one `RenameAuto` per tree of the file sharing counter and map (the first failure ends the command: the trees
    renamed so far have been written, the map file is not); then `writeNameMap`.
    Result: the names of every tree written, and the lines of the map file (`none` when the command failed). -/
def renameAutoTrees (internals tips : Bool) (length : Nat) :
    List (List (String × Bool)) → Nat → List (String × String) → List (List String) →
      List (List String) × Option (List String)
  | [], _, nm, out => (out, some (nameMapLines nm))
  | t :: r, curid, nm, out =>
    match renameAuto internals tips length t curid nm with
    | .ok names c m => renameAutoTrees internals tips length r c m (out ++ [names])
    | _ => (out, none)

def renameAutoCmd (internals tips : Bool) (length : Nat) (trees : List (List (String × Bool))) :
    List (List String) × Option (List String) :=
  renameAutoTrees internals tips (if length < 5 then 5 else length) trees 1 [] []

/-- the final name map of the `--auto` path (`none` when the command failed) -/
def renameAutoMap (internals tips : Bool) (length : Nat) :
    List (List (String × Bool)) → Nat → List (String × String) → Option (List (String × String))
  | [], _, nm => some nm
  | t :: r, curid, nm =>
    match renameAuto internals tips length t curid nm with
    | .ok _ c m => renameAutoMap internals tips length r c m
    | _ => none

/-! ## cmd/root.go `PersistentPreRun`, a variant -/

/-- a variant of `effectiveSeed` that takes every non-positive value for "no seed" (`if seed <= 0`): the
    boundary the templates `…-seed0` / `…-seedneg` aim at -/
def effectiveSeedNonPositive (seedFlag : Int) (clockNanos : Int) : Int :=
  if seedFlag ≤ 0 then clockNanos else seedFlag

/-! ## support/tbe.go: how the reference branches are handed to the workers (per bootstrap tree) -/

/-- the code: a feeder goroutine sends every reference branch, in `Edges()` order, into a channel read by `cpu`
    workers; `sched k` = the worker that happens to receive the k-th branch (any schedule).
    Result: (worker, branch) in the order sent. -/
def feederHandled {α} (cpu : Nat) (sched : Nat → Nat) (edges : List α) : List (Nat × α) :=
  edges.zipIdx.map (fun e => (sched e.2 % cpu, e.1))

/-- what a run of the workers leaves in the support cells: cell `i` is touched by the worker that received branch
    `i`, and only by it (`e.IncrementSupport` on its own branch): the branches visited, in branch order -/
def feederVisited {α} (cpu : Nat) (sched : Nat → Nat) (edges : List α) : List α :=
  (feederHandled cpu sched edges).map (·.2)

/-- the seeded variant C18-7: static blocks `edges[c*blocksize:(c+1)*blocksize]`, `blocksize := len(edges)/cpu` -/
def staticBlocks {α} (cpu : Nat) (edges : List α) : List (List α) :=
  (List.range cpu).map (fun c => (edges.drop (c * (edges.length / cpu))).take (edges.length / cpu))

def staticVisited {α} (cpu : Nat) (edges : List α) : List α := (staticBlocks cpu edges).flatten

end Gotree.C18
