/-
  C12 — the states file reader of `gotree acr` (`parseTipStates`): a file written one
  `name<TAB or comma>state` line per entry is read back as exactly that map (later lines win),
  and any line with another number of columns makes the command fail.
-/
import Gotree.Lemmas.C12RAcc
import Gotree.Model.C12Cli

namespace Gotree.C12
open Gotree

/-- no separator of the states file inside -/
def cleanChars (l : List Char) : Prop := ∀ c ∈ l, c ≠ '\t' ∧ c ≠ ','

theorem splitCols_clean : ∀ (a : List Char), cleanChars a → splitCols a = [a]
  | [], _ => rfl
  | c :: r, h => by
    have hc := h c (by simp)
    have ih := splitCols_clean r (fun x hx => h x (by simp [hx]))
    simp [splitCols, hc.1, hc.2, ih]

theorem splitCols_sep (sep : Char) (hsep : sep = '\t' ∨ sep = ',') (b : List Char) :
    ∀ (a : List Char), cleanChars a → splitCols (a ++ sep :: b) = a :: splitCols b
  | [], _ => by
    rcases hsep with e | e <;> subst e <;> simp [splitCols]
  | c :: r, h => by
    have hc := h c (by simp)
    have ih := splitCols_sep sep hsep b r (fun x hx => h x (by simp [hx]))
    simp [splitCols, hc.1, hc.2, ih]

/-- one well-formed line -/
theorem splitCols_line (sep : Char) (hsep : sep = '\t' ∨ sep = ',') (n s : String)
    (hn : cleanChars n.toList) (hs : cleanChars s.toList) :
    splitCols (n ++ String.singleton sep ++ s).toList = [n.toList, s.toList] := by
  have : (n ++ String.singleton sep ++ s).toList = n.toList ++ sep :: s.toList := by
    simp [String.toList_append]
  rw [this, splitCols_sep sep hsep _ _ hn, splitCols_clean _ hs]

/-- an entry of the states file: name, separator used on its line, state -/
structure Entry where
  name : String
  sep : Char
  state : String

def Entry.ok (e : Entry) : Prop :=
  (e.sep = '\t' ∨ e.sep = ',') ∧ cleanChars e.name.toList ∧ cleanChars e.state.toList

def Entry.line (e : Entry) : String := e.name ++ String.singleton e.sep ++ e.state

/-- reading back a well-formed states file gives the map it describes: the entries inserted in
    order, a later entry for the same name replacing the earlier one -/
theorem parseTipStates_render : ∀ (es : List Entry) (acc : List (String × String)), (∀ e ∈ es, e.ok) →
    parseTipStates (es.map Entry.line) acc =
      some (es.foldl (fun acc e => insertKV (e.name, e.state) acc) acc)
  | [], acc, _ => by simp [parseTipStates]
  | e :: r, acc, h => by
    obtain ⟨h1, h2, h3⟩ := h e (by simp)
    simp only [List.map_cons, parseTipStates, Entry.line, splitCols_line e.sep h1 e.name e.state h2 h3,
      List.foldl_cons]
    have : (String.ofList e.name.toList, String.ofList e.state.toList) = (e.name, e.state) := by simp
    rw [this]
    exact parseTipStates_render r _ (fun x hx => h x (by simp [hx]))

/-- a line without separator, or with two separators, anywhere in the file: the command fails -/
theorem parseTipStates_bad (pre : List Entry) (bad : String) (post : List String) (acc : List (String × String))
    (hpre : ∀ e ∈ pre, e.ok) (hbad : (splitCols bad.toList).length ≠ 2) :
    parseTipStates (pre.map Entry.line ++ bad :: post) acc = none := by
  induction pre generalizing acc with
  | nil =>
    simp only [List.map_nil, List.nil_append, parseTipStates]
    match hsc : splitCols bad.toList, hbad with
    | [], _ => rfl
    | [_], _ => rfl
    | [_, _], hb => simp [hsc] at hb
    | _ :: _ :: _ :: _, _ => rfl
  | cons e r ih =>
    obtain ⟨h1, h2, h3⟩ := hpre e (by simp)
    simp only [List.map_cons, List.cons_append, parseTipStates, Entry.line,
      splitCols_line e.sep h1 e.name e.state h2 h3]
    exact ih _ (fun x hx => hpre x (by simp [hx]))

end Gotree.C12
