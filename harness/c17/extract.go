package c17

// Extractor (vh gen-tables): the facts about tree/rearrange.go and cmd/nni.go that the Lean models
// of C17 were transcribed from, re-read from the source with go/ast on every run and written to
// lean/Gotree/Gen/C17Code.lean; Proofs/C17.lean re-decides `facts = expected` (code_facts_check).
// Sets of independent things (the two newNNI calls, the disjuncts of the Inverse test, the slice
// writes) are sorted: their order in the source is not a fact the model depends on.

import (
	"bytes"
	"fmt"
	"go/ast"
	"go/parser"
	"go/printer"
	"go/token"
	"os"
	"path/filepath"
	"sort"
	"strconv"
	"strings"
)

func render(fset *token.FileSet, n ast.Node) string {
	var b bytes.Buffer
	printer.Fprint(&b, fset, n)
	return strings.Join(strings.Fields(b.String()), " ")
}

func leanStr(s string) string { return strconv.Quote(s) }

func leanList(l []string) string {
	q := make([]string, len(l))
	for i, s := range l {
		q[i] = leanStr(s)
	}
	return "[" + strings.Join(q, ", ") + "]"
}

func funcDecl(f *ast.File, recv, name string) *ast.FuncDecl {
	for _, d := range f.Decls {
		fd, ok := d.(*ast.FuncDecl)
		if !ok || fd.Name.Name != name {
			continue
		}
		if recv == "" && fd.Recv == nil {
			return fd
		}
		if recv != "" && fd.Recv != nil && len(fd.Recv.List) == 1 {
			if st, ok := fd.Recv.List[0].Type.(*ast.StarExpr); ok {
				if id, ok := st.X.(*ast.Ident); ok && id.Name == recv {
					return fd
				}
			}
		}
	}
	return nil
}

// flatten a chain of the binary operator op
func operands(e ast.Expr, op token.Token) []ast.Expr {
	if p, ok := e.(*ast.ParenExpr); ok {
		return operands(p.X, op)
	}
	if b, ok := e.(*ast.BinaryExpr); ok && b.Op == op {
		return append(operands(b.X, op), operands(b.Y, op)...)
	}
	return []ast.Expr{e}
}

// facts of Apply / Undo: guard, error texts (source order), disjuncts of the test in front of
// Inverse (sorted), writes through an index expression (sorted), the write to the flag
func surgery(fset *token.FileSet, fd *ast.FuncDecl) (guard string, errs, inv, writes []string, flag string) {
	if len(fd.Body.List) > 0 {
		if is, ok := fd.Body.List[0].(*ast.IfStmt); ok {
			guard = render(fset, is.Cond)
		}
	}
	ast.Inspect(fd.Body, func(n ast.Node) bool {
		switch x := n.(type) {
		case *ast.CallExpr:
			if render(fset, x.Fun) == "fmt.Errorf" && len(x.Args) > 0 {
				if bl, ok := x.Args[0].(*ast.BasicLit); ok {
					if s, err := strconv.Unquote(bl.Value); err == nil {
						errs = append(errs, s)
					}
				}
			}
		case *ast.IfStmt:
			if strings.Contains(render(fset, x.Body), ".Inverse()") {
				for _, o := range operands(x.Cond, token.LOR) {
					inv = append(inv, render(fset, o))
				}
			}
		case *ast.AssignStmt:
			if len(x.Lhs) == 1 {
				if _, ok := x.Lhs[0].(*ast.IndexExpr); ok {
					writes = append(writes, render(fset, x))
				}
				if render(fset, x.Lhs[0]) == "n.applied" {
					flag = render(fset, x)
				}
			}
		}
		return true
	})
	sort.Strings(inv)
	sort.Strings(writes)
	return
}

// GenTables writes lean/Gotree/Gen/C17Code.lean.
func GenTables(repo, out string) error {
	fset := token.NewFileSet()
	rf, err := parser.ParseFile(fset, filepath.Join(repo, "tree", "rearrange.go"), nil, 0)
	if err != nil {
		return err
	}
	cf, err := parser.ParseFile(fset, filepath.Join(repo, "cmd", "nni.go"), nil, 0)
	if err != nil {
		return err
	}
	re := funcDecl(rf, "NNIRearranger", "Rearrange")
	nn := funcDecl(rf, "", "newNNI")
	ap := funcDecl(rf, "nni", "Apply")
	un := funcDecl(rf, "nni", "Undo")
	if re == nil || nn == nil || ap == nil || un == nil {
		return fmt.Errorf("c17: Rearrange, newNNI, nni.Apply or nni.Undo not found in tree/rearrange.go")
	}
	// Rearrange: what is ranged over, the test, the calls of newNNI
	var rng, guardOp string
	var guard, calls []string
	ast.Inspect(re.Body, func(n ast.Node) bool {
		switch x := n.(type) {
		case *ast.RangeStmt:
			rng = render(fset, x.X)
		case *ast.IfStmt:
			if strings.Contains(render(fset, x.Cond), "Nneigh") {
				ops := operands(x.Cond, token.LAND)
				guardOp = "&&"
				if len(ops) == 1 {
					ops = operands(x.Cond, token.LOR)
					guardOp = "||"
				}
				for _, o := range ops {
					guard = append(guard, render(fset, o))
				}
			}
		case *ast.CallExpr:
			if render(fset, x.Fun) == "newNNI" {
				calls = append(calls, render(fset, x))
			}
		}
		return true
	})
	sort.Strings(guard)
	sort.Strings(calls)
	// newNNI: the four neighbour reads, the literal
	var slots []string
	lit := ""
	ast.Inspect(nn.Body, func(n ast.Node) bool {
		switch x := n.(type) {
		case *ast.AssignStmt:
			if len(x.Lhs) == 1 && len(x.Rhs) == 1 {
				if _, ok := x.Rhs[0].(*ast.IndexExpr); ok {
					slots = append(slots, render(fset, x))
				}
			}
			if len(x.Lhs) == 2 && len(x.Rhs) == 1 {
				slots = append(slots, render(fset, x)) // n2index, _ := n1.NodeIndex(n2)
			}
		case *ast.CompositeLit:
			lit = render(fset, x)
		}
		return true
	})
	// the fields of the struct nni
	var fields []string
	ast.Inspect(rf, func(n ast.Node) bool {
		if ts, ok := n.(*ast.TypeSpec); ok && ts.Name.Name == "nni" {
			if st, ok := ts.Type.(*ast.StructType); ok {
				for _, f := range st.Fields.List {
					for _, nm := range f.Names {
						fields = append(fields, nm.Name+" "+render(fset, f.Type))
					}
				}
			}
		}
		return true
	})
	ag, aerrs, ainv, awrites, aflag := surgery(fset, ap)
	ug, uerrs, uinv, uwrites, uflag := surgery(fset, un)
	// cmd/nni.go: the calls made by the callback handed to Rearrange, in order; the flags
	var cb, flags []string
	ast.Inspect(cf, func(n ast.Node) bool {
		ce, ok := n.(*ast.CallExpr)
		if !ok {
			return true
		}
		fun := render(fset, ce.Fun)
		if strings.HasSuffix(fun, ".Rearrange") && len(ce.Args) == 2 {
			if fl, ok := ce.Args[1].(*ast.FuncLit); ok {
				for _, st := range fl.Body.List {
					ast.Inspect(st, func(m ast.Node) bool {
						if c2, ok := m.(*ast.CallExpr); ok {
							cb = append(cb, render(fset, c2))
						}
						if r, ok := m.(*ast.ReturnStmt); ok {
							cb = append(cb, render(fset, r))
						}
						return true
					})
				}
			}
		}
		if strings.HasSuffix(fun, "PersistentFlags().StringVarP") || strings.HasSuffix(fun, "Flags().StringVarP") {
			var a []string
			for _, x := range ce.Args {
				a = append(a, render(fset, x))
			}
			if len(a) > 4 {
				a = a[:4] // variable, name, shorthand, default (not the help text)
			}
			flags = append(flags, strings.Join(a, " "))
		}
		return true
	})
	var b strings.Builder
	b.WriteString("-- GENERATED by harness/c17/extract.go (vh gen-tables) from tree/rearrange.go and cmd/nni.go; do not edit\n")
	b.WriteString("import Gotree.Model.C17Code\n\nnamespace Gotree.Gen.C17\nopen Gotree.C17\n\ndef facts : CodeFacts :=\n")
	fmt.Fprintf(&b, "  { range := %s\n    guardOp := %s\n    guard := %s\n    calls := %s\n    slots := %s\n    literal := %s\n    fields := %s\n",
		leanStr(rng), leanStr(guardOp), leanList(guard), leanList(calls), leanList(slots), leanStr(lit), leanList(fields))
	fmt.Fprintf(&b, "    applyGuard := %s\n    applyErrs := %s\n    applyInverse := %s\n    applyWrites := %s\n    applyFlag := %s\n",
		leanStr(ag), leanList(aerrs), leanList(ainv), leanList(awrites), leanStr(aflag))
	fmt.Fprintf(&b, "    undoGuard := %s\n    undoErrs := %s\n    undoInverse := %s\n    undoWrites := %s\n    undoFlag := %s\n",
		leanStr(ug), leanList(uerrs), leanList(uinv), leanList(uwrites), leanStr(uflag))
	fmt.Fprintf(&b, "    callback := %s\n    flags := %s }\n\nend Gotree.Gen.C17\n", leanList(cb), leanList(flags))
	return os.WriteFile(filepath.Join(out, "C17Code.lean"), []byte(b.String()), 0644)
}
