/-
  C19 — model of the option handling of `gotree rename` (cmd/rename.go RunE, lines 78-130), the one
  command whose behaviour depends on whether an option was *given* (`cmd.Flags().Changed`) rather
  than on its value (known finding F45 / RenameRegexpGiven).

  A command line is the list of (long flag name, value text) pflag hands over, left to right.
  `value` is pflag's "last occurrence wins, else the registered default"; `changed` is
  `Flags().Changed(name)`.  `renameMode` is the cascade of tests of RunE up to the choice of what
  is done to each tree (the error classes are the messages the command prints).
-/
namespace Gotree.C19.Rename

/-- the flags of `gotree rename` with their registered defaults (cmd/rename.go init()) -/
def defaults : List (String × String) := [
  ("output", "stdout"), ("input", "stdin"), ("internal", "false"), ("tips", "true"),
  ("add-quotes", "false"), ("rm-quotes", "false"), ("map", "none"), ("regexp", "none"),
  ("replace", "none"), ("auto", "false"), ("length", "10"), ("revert", "false")]

def defaultOf (f : String) : String := (defaults.lookup f).getD ""

abbrev CmdLine := List (String × String)

/-- pflag: the last occurrence wins, else the registered default -/
def value (cl : CmdLine) (f : String) : String := (cl.reverse.lookup f).getD (defaultOf f)

/-- `cmd.Flags().Changed(f)` -/
def changed (cl : CmdLine) (f : String) : Bool := cl.any (·.1 == f)

inductive Mode
  | errNothingToRename   -- "You should rename at least internal nodes (--internal) or tips (--tips)"
  | errReplaceMissing    -- "--replace must be given with --regexp"
  | errNoMap             -- "map file is not given"
  | auto | regexp | addQuotes | rmQuotes | map
  deriving DecidableEq, Repr

def Mode.isError : Mode → Bool
  | .errNothingToRename | .errReplaceMissing | .errNoMap => true
  | _ => false

def renameMode (cl : CmdLine) : Mode :=
  let setregex := changed cl "regexp"            -- rename.go:86
  let setreplace := changed cl "replace"         -- rename.go:87
  let tips := value cl "tips" == "true"
  let internal := value cl "internal" == "true"
  let auto := value cl "auto" == "true"
  let addq := value cl "add-quotes" == "true"
  let rmq := value cl "rm-quotes" == "true"
  if !(tips || internal) then .errNothingToRename
  else if setregex && !setreplace then .errReplaceMissing
  else if auto || setregex || rmq || addq then
    (if auto then .auto else if setregex then .regexp else if addq then .addQuotes else .rmQuotes)
  else if value cl "map" == "none" then .errNoMap
  else .map

/-- the repaired test the finding proposes: read the values -/
def renameModeByValue (cl : CmdLine) : Mode :=
  let setregex := value cl "regexp" != "none"
  let setreplace := value cl "replace" != "none"
  let tips := value cl "tips" == "true"
  let internal := value cl "internal" == "true"
  let auto := value cl "auto" == "true"
  let addq := value cl "add-quotes" == "true"
  let rmq := value cl "rm-quotes" == "true"
  if !(tips || internal) then .errNothingToRename
  else if setregex && !setreplace then .errReplaceMissing
  else if auto || setregex || rmq || addq then
    (if auto then .auto else if setregex then .regexp else if addq then .addQuotes else .rmQuotes)
  else if value cl "map" == "none" then .errNoMap
  else .map

/-! ### reading the arguments of a template back into a command line (driver) -/

def shorthand : List (Char × String) := [
  ('o', "output"), ('i', "input"), ('m', "map"), ('e', "regexp"), ('b', "replace"), ('a', "auto"),
  ('l', "length"), ('r', "revert")]

def isBoolFlag (f : String) : Bool :=
  f == "internal" || f == "tips" || f == "add-quotes" || f == "rm-quotes" || f == "auto" || f == "revert"

/-- arguments → (flag, value) list for a command with the given shorthands and boolean flags;
    `none` when a token is not understood (positional arguments are not).  Structural on the tokens. -/
def parseArgsWith (short : List (Char × String)) (isBool : String → Bool) : List String → Option CmdLine
  | [] => some []
  | a :: rest =>
    let long : Option (String × Option String) :=
      if a.startsWith "--" then
        match (String.ofList (a.toList.drop 2)).splitOn "=" with
        | [n] => some (n, none)
        | n :: v => some (n, some ("=".intercalate v))
        | [] => none
      else match a.toList with
        | ['-', c] => (short.lookup c).map fun n => (n, none)
        | _ => none
    match long with
    | none => none
    | some (n, some v) => (parseArgsWith short isBool rest).map fun cl => (n, v) :: cl
    | some (n, none) =>
      if isBool n then (parseArgsWith short isBool rest).map fun cl => (n, "true") :: cl
      else match rest with
        | v :: rest' => (parseArgsWith short isBool rest').map fun cl => (n, v) :: cl
        | [] => none

/-- the arguments of a `gotree rename` template -/
def parseArgs (args : List String) : Option CmdLine := parseArgsWith shorthand isBoolFlag args

/-- everything the outcome of `gotree rename` can depend on besides the trees: the branch of the
    cascade and the values that branch reads (cmd/rename.go:100-170) -/
def behaviour (cl : CmdLine) : Mode × List String :=
  let m := renameMode cl
  let common := [value cl "tips", value cl "internal", value cl "input", value cl "output"]
  let writesMap := value cl "map"   -- the name map is written to --map in every mode but `map`, where it is read
  match m with
  | .errNothingToRename | .errReplaceMissing | .errNoMap => (m, [])
  | .auto => (m, value cl "length" :: writesMap :: common)
  | .regexp => (m, value cl "regexp" :: value cl "replace" :: writesMap :: common)
  | .addQuotes | .rmQuotes => (m, writesMap :: common)
  | .map => (m, value cl "map" :: value cl "revert" :: value cl "input" :: [value cl "output"])

/-- the error class visible in the outcome of a run ("" = the command went on to rename) -/
def observedClass (outcome : String) : String :=
  let has (m : String) : Bool := (outcome.splitOn m).length > 1
  if has "You should rename at least" then "errNothingToRename"
  else if has "--replace must be given with --regexp" then "errReplaceMissing"
  else if has "map file is not given" then "errNoMap"
  else ""

def Mode.errClass : Mode → String
  | .errNothingToRename => "errNothingToRename"
  | .errReplaceMissing => "errReplaceMissing"
  | .errNoMap => "errNoMap"
  | _ => ""

end Gotree.C19.Rename

/-
  `gotree brlen setrand` (cmd/randbrlen.go:57-62): the mean of the exponential law is `--mean`,
  unless `--min-mean` and `--max-mean` were both *given* (`Flags().Changed`) and form a proper
  interval, in which case it is drawn in that interval for each tree.
-/
namespace Gotree.C19.Setrand

/-- `none` = the fixed `--mean` is used; `some (lo, hi)` = the mean is drawn in [lo, hi] -/
def meanRange (minGiven maxGiven : Bool) (lo hi : Rat) : Option (Rat × Rat) :=
  if minGiven && maxGiven && decide (lo < hi) && decide (lo ≥ 0) && decide (hi > 0) then some (lo, hi) else none

/-- the documented defaults of the two options -/
def defaultMin : Rat := 1 / 1000
def defaultMax : Rat := 1 / 20

/-- decimal text of a flag value ("0.001", "-1", "3") -/
def parseDec (s : String) : Option Rat :=
  let (neg, body) := match s.toList with
    | '-' :: r => (true, String.ofList r)
    | _ => (false, s)
  let mk (i f : String) : Option Rat :=
    match (if i == "" then some 0 else i.toNat?), (if f == "" then some 0 else f.toNat?) with
    | some a, some b =>
      if i == "" && f == "" then none else
      let q : Rat := (a : Rat) + (b : Rat) / ((10 ^ f.length : Nat) : Rat)
      some (if neg then -q else q)
    | _, _ => none
  match body.splitOn "." with
  | [i] => mk i ""
  | [i, f] => mk i f
  | _ => none

def flagDefaults : List (String × String) := [
  ("mean", "0.1"), ("min-mean", "0.001"), ("max-mean", "0.05"), ("min-len", "-1"), ("max-len", "-1"),
  ("external", "true"), ("internal", "true"), ("seed", "-1"), ("input", "stdin"), ("output", "stdout")]

def shorthand : List (Char × String) := [('m', "mean"), ('i', "input"), ('o', "output"), ('t', "threads")]

def isBoolFlag (f : String) : Bool := f == "external" || f == "internal"

def parseArgs (args : List String) : Option Rename.CmdLine := Rename.parseArgsWith shorthand isBoolFlag args

def valueOf (cl : Rename.CmdLine) (f : String) : String := (cl.reverse.lookup f).getD ((flagDefaults.lookup f).getD "")

/-- everything the outcome of `gotree brlen setrand` depends on besides the trees
    (cmd/randbrlen.go:57-75): which mean, the length window, which branches, the seed -/
structure Behaviour where
  range : Option (Rat × Rat)
  mean : Option Rat          -- read only when no range is drawn
  minLen : Option Rat
  maxLen : Option Rat
  external : String
  internal : String
  seed : String
  io : String × String
  deriving DecidableEq

def behaviour (cl : Rename.CmdLine) : Option Behaviour :=
  match parseDec (valueOf cl "min-mean"), parseDec (valueOf cl "max-mean"), parseDec (valueOf cl "mean"),
        parseDec (valueOf cl "min-len"), parseDec (valueOf cl "max-len") with
  | some lo, some hi, some m, some a, some b =>
    let r := meanRange (Rename.changed cl "min-mean") (Rename.changed cl "max-mean") lo hi
    some ⟨r, if r.isSome then none else some m, some a, some b, valueOf cl "external", valueOf cl "internal",
          valueOf cl "seed", (valueOf cl "input", valueOf cl "output")⟩
  | _, _, _, _, _ => none

end Gotree.C19.Setrand

/-
  `gotree repopulate` (cmd/repopulate.go:57-62): refuses to run when --id-groups holds the sentinel
  "none" (its documented default).  Before fix 4cde097 it asked whether the option was *given*
  (`Flags().Changed("id-groups")`) and did not look at the value.
-/
namespace Gotree.C19.Repopulate

/-- does the command go on to read the group file?  (the code as it is: by value) -/
def accepts (_groupsGiven : Bool) (file : String) : Bool := file != "none"

/-- the test before 4cde097 -/
def acceptsPinned (groupsGiven : Bool) (_file : String) : Bool := groupsGiven

def defaultGroups : String := "none"

/-- value of --id-groups on a command line of the templates ("-g f", "--id-groups f", "--id-groups=f") -/
def groupsOf : List String → Option String
  | [] => none
  | a :: rest =>
    if a == "-g" || a == "--id-groups" then
      match groupsOf rest with
      | some v => some v           -- the last occurrence wins
      | none => rest.head?
    else if a.startsWith "--id-groups=" then
      match groupsOf rest with
      | some v => some v
      | none => some (String.ofList (a.toList.drop 12))
    else groupsOf rest

end Gotree.C19.Repopulate
