/-
  C04 — model of `hashmap.HashMap` (hashmap/hashmap.go) generic in the key type,
  its hash and its equality, and of `tree.EdgeIndex` (tree/edgeindex.go) on top.

  * `mapArray` is a list of buckets, a bucket a list of `(key, value)` (a `nil`
    bucket and an empty one are the same: the code never leaves an empty non-nil one);
  * `capacity` is a `Nat` (Go: `uint64`; the doubling cannot overflow before memory does);
  * the decision `float64(total) >= float64(capacity)*loadfactor` is a parameter
    `policy : total → capacity → Bool`, so that the theorems hold for every rehash policy;
  * an index outside `mapArray` is the explicit outcome `none` (Go: panic).
  Core Lean only.
-/
namespace Gotree.C04

structure HM (κ ν : Type) where
  buckets : List (List (κ × ν))
  cap : Nat
  total : Nat
  deriving Repr

/-- `indexFor` : `hashcode & (capacity-1)` (uint64; `0-1` wraps to all ones, which as an
    index into an empty array panics just the same as index 0 does) -/
def indexFor (h : UInt64) (cap : Nat) : Nat := h.toNat &&& (cap - 1)

/-- `NewHashMap(size, _)` after fix b2a7fc8: size 0 means one bucket -/
def HM.new {κ ν : Type} (size : Nat) : HM κ ν :=
  let size := if size == 0 then 1 else size
  ⟨List.replicate size [], size, 0⟩

/-- the pinned `NewHashMap` (before b2a7fc8) -/
def HM.newPinned {κ ν : Type} (size : Nat) : HM κ ν := ⟨List.replicate size [], size, 0⟩

section
variable {κ ν : Type} (hash : κ → UInt64) (eqv : κ → κ → Bool)

/-- the `for _, kv := range bucket { if h.HashEquals(kv.Key) … }` loop of `Value` -/
def bucketFind (k : κ) : List (κ × ν) → Option ν
  | [] => none
  | (k', v) :: r => if eqv k k' then some v else bucketFind k r

/-- the same loop in `PutValue`: the first equal key gets the new value, the key object stays -/
def bucketReplace (k : κ) (v : ν) : List (κ × ν) → Option (List (κ × ν))
  | [] => none
  | (k', v') :: r =>
    if eqv k k' then some ((k', v) :: r)
    else match bucketReplace k v r with
      | some r' => some ((k', v') :: r')
      | none => none

/-- `Value` : `none` = index out of range (panic) -/
def HM.get (m : HM κ ν) (k : κ) : Option (Option ν) :=
  match m.buckets[indexFor (hash k) m.cap]? with
  | none => none
  | some b => some (bucketFind eqv k b)

/-- append `kv` to bucket `i` -/
def appendAt (bs : List (List (κ × ν))) (i : Nat) (kv : κ × ν) : Option (List (List (κ × ν))) :=
  match bs[i]? with
  | none => none
  | some b => some (bs.set i (b ++ [kv]))

/-- the re-insertion loop of `rehash` over the old entries in bucket order -/
def reinsert (newcap : Nat) : List (κ × ν) → List (List (κ × ν)) → Option (List (List (κ × ν)))
  | [], bs => some bs
  | kv :: r, bs =>
    match appendAt bs (indexFor (hash kv.1) newcap) kv with
    | none => none
    | some bs' => reinsert newcap r bs'

/-- `rehash` under an arbitrary policy -/
def HM.rehash (policy : Nat → Nat → Bool) (m : HM κ ν) : Option (HM κ ν) :=
  if policy m.total m.cap then
    match reinsert hash (2 * m.cap) m.buckets.flatten (List.replicate (2 * m.cap) []) with
    | none => none
    | some bs => some ⟨bs, 2 * m.cap, m.total⟩
  else some m

/-- `PutValue` -/
def HM.put (policy : Nat → Nat → Bool) (m : HM κ ν) (k : κ) (v : ν) : Option (HM κ ν) :=
  let i := indexFor (hash k) m.cap
  match m.buckets[i]? with
  | none => none
  | some b =>
    match bucketReplace eqv k v b with
    | some b' => some { m with buckets := m.buckets.set i b' }       -- `return` before `rehash`
    | none => HM.rehash hash policy { m with buckets := m.buckets.set i (b ++ [(k, v)]), total := m.total + 1 }

/-- `KeyValues` : a slice of `total` entries filled in bucket order (`none`: the
    counter disagrees with the content — nil entries or an index panic in Go) -/
def HM.keyValues (m : HM κ ν) : Option (List (κ × ν)) :=
  if m.buckets.flatten.length == m.total then some m.buckets.flatten else none

end

/-- The rehash decision exactly as `rehash` computes it:
    `float64(em.total) >= float64(em.capacity)*em.loadfactor` in IEEE double arithmetic
    (Lean's `Float` is the C `double`; the product is rounded to nearest-even as in Go).
    The theorems hold for every policy; this is the one the driver runs. -/
def goPolicy (loadfactor : Float) (total cap : Nat) : Bool :=
  decide (Float.ofNat cap * loadfactor ≤ Float.ofNat total)

/-- a `float64` from the exact rational `p/q` the harness prints (`q` a power of two, `|p| < 2^53`:
    both conversions and the division are exact) -/
def floatOfRat (q : Rat) : Float := Float.ofInt q.num / Float.ofNat q.den

/- ## op scripts -/

inductive HMOp (κ ν : Type) where
  | put (k : κ) (v : ν)
  | get (k : κ)
  | kvs
  | keys                               -- `Keys()`
  deriving Repr

inductive HMOut (κ ν : Type) where
  | unit
  | val (o : Option ν)
  | kvs (l : List (κ × ν))
  | panic
  | keys (l : List κ)
  deriving Repr

/-- run a script; a panic ends it -/
def HM.run {κ ν : Type} (hash : κ → UInt64) (eqv : κ → κ → Bool) (policy : Nat → Nat → Bool) :
    List (HMOp κ ν) → HM κ ν → List (HMOut κ ν)
  | [], _ => []
  | .put k v :: r, m =>
    match m.put hash eqv policy k v with
    | none => [.panic]
    | some m' => .unit :: HM.run hash eqv policy r m'
  | .get k :: r, m =>
    match m.get hash eqv k with
    | none => [.panic]
    | some o => .val o :: HM.run hash eqv policy r m
  | .kvs :: r, m =>
    match m.keyValues with
    | none => [.panic]
    | some l => .kvs l :: HM.run hash eqv policy r m
  | .keys :: r, m =>                   -- the same loop as `KeyValues`, keeping the keys
    match m.keyValues with
    | none => [.panic]
    | some l => .keys (l.map (·.1)) :: HM.run hash eqv policy r m

/- ## EdgeIndex -/

structure EIInfo where
  count : Int
  len : Rat
  deriving DecidableEq, Repr

inductive EIOp (κ : Type) where
  | add (k : κ) (len : Rat)          -- AddEdgeCount(e), e.Length() = len
  | putv (k : κ) (count : Int) (len : Rat)
  | value (k : κ)
  | edges (mn mx : Int)
  | unindexed                         -- AddEdgeCount / PutEdgeValue of a branch whose `Bitset()` is nil
  deriving Repr

inductive EIOut where
  | unit
  | val (o : Option EIInfo)
  | nedges (n : Nat)
  | panic
  | err                               -- "Bitset not initialized"
  deriving DecidableEq, Repr

/-- the filter of `EdgeIndex.Edges(minCount, maxCount)` -/
def eiKeep (mn mx : Int) (v : EIInfo) : Bool :=
  (v.count > mn && v.count ≤ mx) || v.count == mx

/-- `EdgeIndex` scripts on top of the hash map.  `AddEdgeCount` mutates the stored
    `*EdgeIndexInfo` in place when the branch is known — the same as putting the
    updated record (an existing key is overwritten without rehash). -/
def EI.run {κ : Type} (hash : κ → UInt64) (eqv : κ → κ → Bool) (policy : Nat → Nat → Bool) :
    List (EIOp κ) → HM κ EIInfo → List EIOut
  | [], _ => []
  | .add k len :: r, m =>
    match m.get hash eqv k with
    | none => [.panic]
    | some none =>
      (match m.put hash eqv policy k ⟨1, len⟩ with
       | none => [.panic]
       | some m' => .unit :: EI.run hash eqv policy r m')
    | some (some v) =>
      (match m.put hash eqv policy k ⟨v.count + 1, v.len + len⟩ with
       | none => [.panic]
       | some m' => .unit :: EI.run hash eqv policy r m')
  | .putv k c l :: r, m =>
    match m.put hash eqv policy k ⟨c, l⟩ with
    | none => [.panic]
    | some m' => .unit :: EI.run hash eqv policy r m'
  | .value k :: r, m =>
    match m.get hash eqv k with
    | none => [.panic]
    | some o => .val o :: EI.run hash eqv policy r m
  | .edges mn mx :: r, m =>
    match m.keyValues with
    | none => [.panic]
    | some l => .nedges (l.filter fun kv => eiKeep mn mx kv.2).length :: EI.run hash eqv policy r m
  | .unindexed :: r, m => .err :: EI.run hash eqv policy r m       -- the guard returns before touching the map

end Gotree.C04
