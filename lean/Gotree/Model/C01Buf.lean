/-
  C01 — the one-token unscan buffer of `newick.Parser`, LITERALLY (io/newick/newick_parser.go):

      type Parser struct { s *Scanner; buf struct { tok Token; lit string; n int } }
      func (p *Parser) scan(ign bool) (tok, lit)   -- n != 0: n = 0, return the buffered token; else Scan and store it
      func (p *Parser) unscan()                    -- n = 1
      func (p *Parser) scanIgnoreWhitespace()      -- scan(false); if WS, scan(false) again
      func (p *Parser) More() bool                 -- scanIgnoreWhitespace, unscan, tok != EOF
      func (p *Parser) Parse()                     -- prologue (optional comment, "(" expected, unscan), parseIter, epilogue

  `Newick.parse / parseR / more` (Model/C01.lean) model `unscan` by handing on the input POSITION before the token.
  Here nothing is derived: the state of the Parser object is the input the bufio reader still holds plus the three
  fields of `buf`, it persists from one call to the next (Parse, More, Parse … as ReadMultiTrees does), and a token
  that was unscanned is returned from the buffer — whatever mode the next `scan` asks for.
  One turn of parseIter is `Newick.iter` (the `switch tok`): inside a turn the flag `n` is 0 (scanIgnoreWhitespace
  has just cleared it, only `case EOT` sets it), so every `p.scan` of the turn (consumeComment, the token after ':')
  is a `Scanner.Scan`; what the buffer holds after the turn is `lastScan`.
  Loops carry explicit fuel (the input length bounds the number of turns); `Lemmas/C01Buf.lean` discharges it and
  proves that this machine and the positional one compute the same thing for every input.  Core Lean only.
-/
import Gotree.Model.C01

namespace Gotree.Newick.Buf
open Gotree Gotree.Newick

/-- the state of a `*newick.Parser` -/
structure PBuf where
  inp : List Char          -- what the Scanner's reader still holds
  tok : Tok := .illegal    -- p.buf.tok (zero value: Token(0) = ILLEGAL)
  lit : List Char := []    -- p.buf.lit
  n : Bool := false        -- p.buf.n != 0
  deriving Repr, Inhabited

/-- `NewParser(r)` -/
def fresh (inp : List Char) : PBuf := ⟨inp, .illegal, [], false⟩

/-- `p.scan(ignoreSemiColumn)` -/
def scanB (C : Codec) (ign : Bool) (b : PBuf) : (Tok × List Char) × PBuf :=
  if b.n then ((b.tok, b.lit), { b with n := false })
  else ((( scan C ign b.inp).1, (scan C ign b.inp).2.1), ⟨(scan C ign b.inp).2.2, (scan C ign b.inp).1, (scan C ign b.inp).2.1, false⟩)

/-- `p.unscan()` -/
def unscanB (b : PBuf) : PBuf := { b with n := true }

/-- `p.scanIgnoreWhitespace()` -/
def scanIWB (C : Codec) (b : PBuf) : (Tok × List Char) × PBuf :=
  if (scanB C false b).1.1 = .ws then scanB C false (scanB C false b).2 else scanB C false b

/-- `p.More()` -/
def moreB (C : Codec) (b : PBuf) : Bool × PBuf :=
  (decide ((scanIWB C b).1.1 ≠ .eof), unscanB (scanIWB C b).2)

/-- `p.consumeComment` after the `[`: `p.scan(true)` until `]`.  `none` = unmatched bracket (or fuel, never) -/
def consumeCommentB (C : Codec) : Nat → PBuf → List Char → Option (List Char × PBuf)
  | 0, _, _ => none
  | fuel + 1, b, acc =>
    if (scanB C true b).1.1 = .closebrack then some (acc, (scanB C true b).2)
    else if (scanB C true b).1.1 = .eof ∨ (scanB C true b).1.1 = .illegal then none
    else consumeCommentB C fuel (scanB C true b).2 (acc ++ (scanB C true b).1.2)

/-- the token the buffer holds after a turn of parseIter that went on: the `]` of a comment, the token after a `:`,
    else the token of the turn -/
def lastScan (C : Codec) (tok : Tok) (lit rest : List Char) : Tok × List Char :=
  if tok = .openbrack then (.closebrack, [']'])
  else if tok = .startlen then ((scanIW C rest).1, (scanIW C rest).2.1)
  else (tok, lit)

/-- the `for` loop of parseIter on the Parser object -/
def runBF (C : Codec) : Nat → PState → PBuf → Outcome (PState × PBuf)
  | 0, _, _ => .err "unreachable: out of fuel"
  | fuel + 1, st, b =>
    match iter C st (scanIWB C b).1.1 (scanIWB C b).1.2 [] (scanIWB C b).2.inp with
    | .stop (.ok (st', _)) =>
      -- `case EOT: p.unscan()`; `case EOF:` nothing
      .ok (st', if (scanIWB C b).1.1 = .eot then unscanB (scanIWB C b).2 else (scanIWB C b).2)
    | .stop (.err m) => .err m
    | .stop (.panic m) => .panic m
    | .stop (.unrep m) => .unrep m
    | .cont st' r' =>
      runBF C fuel st' ⟨r', (lastScan C (scanIWB C b).1.1 (scanIWB C b).1.2 (scanIWB C b).2.inp).1,
        (lastScan C (scanIWB C b).1.1 (scanIWB C b).1.2 (scanIWB C b).2.inp).2, false⟩

/-- a bound on the number of turns: every turn but the first consumes a character of the reader, and the first one
    at most re-reads the buffered token -/
def fuelOf (b : PBuf) : Nat := b.inp.length + b.lit.length + 2

/-- `p.Parse()`: the outcome and the Parser afterwards -/
def parseB (C : Codec) (b : PBuf) : Outcome T × PBuf :=
  let s0 := scanIWB C b
  -- `if tok == OPENBRACK { consumeComment; tok, lit = p.scanIgnoreWhitespace() }`
  let start : Option ((Tok × List Char) × PBuf) :=
    if s0.1.1 = .openbrack then
      match consumeCommentB C (fuelOf s0.2) s0.2 [] with
      | none => none
      | some (_, b1) => some (scanIWB C b1)
    else some s0
  match start with
  | none => (.err "unmatched bracket", s0.2)
  | some s1 =>
    if s1.1.1 ≠ .openpar then (.err "found …, expected (", s1.2)
    else
      -- p.unscan(); parseIter
      match runBF C (fuelOf (unscanB s1.2)) {} (unscanB s1.2) with
      | .err m => (.err m, s1.2)
      | .panic m => (.panic m, s1.2)
      | .unrep m => (.unrep m, s1.2)
      | .ok (st, b2) =>
        if st.level != 0 then (.err "mismatched parenthesis after parsing", b2)
        else
          let s3 := scanIWB C b2
          if s3.1.1 ≠ .eot then (.err "found …, expected ;", s3.2)
          else match st.result with
            | none => (.panic "nil root in Tips()", s3.2)
            | some t => (.ok (trimTips t), s3.2)

/-- `for more := true; more; more = parser.More() { t, err := parser.Parse(); if err != nil { …; break } … }` on one Parser -/
def parseWhileMoreB (C : Codec) : Nat → PBuf → List (Outcome T)
  | 0, _ => []
  | fuel + 1, b =>
    match parseB C b with
    | (.ok t, b1) => .ok t :: (if (moreB C b1).1 then parseWhileMoreB C fuel (moreB C b1).2 else [])
    | (o, _) => [o]

end Gotree.Newick.Buf
