/-
  C17 — the facts about tree/rearrange.go and cmd/nni.go that the models of C17 were transcribed
  from (`Model/C17.lean`, `C17Heap.lean`, `C17Global.lean`, `C17Cli.lean`).  `harness/c17/extract.go`
  re-reads them from the source on every run (`Gen/C17Code.lean`); `code_facts_check`
  (Proofs/C17.lean) decides that they are still `expected`.  Core Lean only.
-/
import Gotree.Model.C17Global

namespace Gotree.C17

structure CodeFacts where
  range : String            -- what `Rearrange` ranges over
  guardOp : String          -- the connective of its test
  guard : List String       -- the operands of the test (sorted)
  calls : List String       -- the calls of `newNNI` (sorted)
  slots : List String       -- `newNNI`: the two searches and the four reads of `Neigh()`
  literal : String          -- `newNNI`: the object built
  fields : List String      -- the fields of `nni`
  applyGuard : String
  applyErrs : List String   -- error texts, source order
  applyInverse : List String -- operands of the test in front of `Inverse()` (sorted)
  applyWrites : List String -- the writes to `neigh` / `br` slots (sorted)
  applyFlag : String
  undoGuard : String
  undoErrs : List String
  undoInverse : List String
  undoWrites : List String
  undoFlag : String
  callback : List String    -- cmd/nni.go: calls and returns of the callback, in order
  flags : List String       -- cmd/nni.go: the flags
  deriving DecidableEq, Repr

/-- what the models assume.  `applyErrs` / `undoErrs` are the constants `applyG` / `undoG` answer with;
    `guard`: `enumL` keeps a branch when both ends have three neighbours; `slots`: `newNNI`'s `rot1` / `rot2`;
    `calls`: both values of `cross` on `(Left, Right)`; `applyInverse` / `undoInverse`: the two disjuncts
    of `applyH` / `applyP` / `applyCore`; `applyWrites` / `undoWrites`: the six slot writes of `applyP` /
    `applyCore`; `callback`: `enumStep` / `cliRun` (apply, check, write, undo, check; any failure stops);
    `flags`: the CLI tier's `-i` / `-o` with their defaults. -/
def expected : CodeFacts :=
  { range := "t.Edges()"
    guardOp := "&&"
    guard := ["e.Left().Nneigh() == 3", "e.Right().Nneigh() == 3"]
    calls := ["newNNI(t, e.Left(), e.Right(), false)", "newNNI(t, e.Left(), e.Right(), true)"]
    slots := ["n2index, _ := n1.NodeIndex(n2)", "n1_1 = n1.Neigh()[(n2index+1)%3]", "n1_2 = n1.Neigh()[(n2index+2)%3]",
              "n1index, _ := n2.NodeIndex(n1)", "n2_1 = n2.Neigh()[(n1index+1)%3]", "n2_2 = n2.Neigh()[(n1index+2)%3]"]
    literal := "nni{t, n1, n2, n1_1, n1_2, n2_1, n2_2, cross, false}"
    fields := ["t *Tree", "n1 *Node", "n2 *Node", "n1_1 *Node", "n1_2 *Node", "n2_1 *Node", "n2_2 *Node", "cross bool", "applied bool"]
    applyGuard := "n.applied"
    applyErrs := G.applyErrs
    applyInverse := ["e1.Right() == n.n1", "e2.Right() == n.n2"]
    applyWrites := ["n.n1.Edges()[n12index] = e2", "n.n1.Neigh()[n12index] = n22node", "n.n1_2.Neigh()[n1index] = n.n2",
                    "n.n2.Edges()[n22index] = e1", "n.n2.Neigh()[n22index] = n.n1_2", "n22node.Neigh()[n2index] = n.n1"]
    applyFlag := "n.applied = true"
    undoGuard := "!n.applied"
    undoErrs := G.undoErrs
    undoInverse := ["e1.Right() == n.n1", "e2.Right() == n.n2"]
    undoWrites := ["n.n1.Edges()[n11index] = e2", "n.n1.Neigh()[n11index] = n.n1_2", "n.n1_2.Neigh()[n2index] = n.n1",
                   "n.n2.Edges()[n12index] = e1", "n.n2.Neigh()[n12index] = n11node", "n11node.Neigh()[n1index] = n.n2"]
    undoFlag := "n.applied = false"
    callback := ["re.Apply()", "return false", "t.Tree.CheckTreePostOrder()", "return false",
                 "f.WriteString(t.Tree.Newick() + \"\\n\")", "t.Tree.Newick()", "re.Undo()", "return false",
                 "t.Tree.CheckTreePostOrder()", "return false", "return true"]
    flags := ["&intreefile \"input\" \"i\" \"stdin\"", "&outtreefile \"output\" \"o\" \"stdout\""] }

end Gotree.C17
