/-
  C15 — property theorems (every `theorem` here is audited with `#print axioms` by bin/check).

  All statements are about the model functions the driver runs against the code
  (`graft`, `merge`, `insertIdentical`, `removeSingle`, `subTreeBy`, `cloneBy` of
  `Gotree/Model/C15.lean`), for all trees — no bound on size.
-/
import Gotree.Lemmas.C15Copy
import Gotree.Lemmas.C15Graft
import Gotree.Lemmas.C15Single
import Gotree.Lemmas.C15InsertAll
import Gotree.Lemmas.C15Holds
import Gotree.Lemmas.C15Heap
import Gotree.Lemmas.C15USplits
import Gotree.Lemmas.C15Edges
import Gotree.Lemmas.C15Text
import Gotree.Lemmas.C15Refuse
import Gotree.Lemmas.C15InsertFail
import Gotree.Lemmas.C15HeapEdits
import Gotree.Lemmas.C15Derived
import Gotree.Lemmas.C15Cmd

namespace Gotree.C15
open Gotree Gotree.C14

/-- the frame argument on an abstract heap (see `Lemmas/C15Heap.lean`): two trees that reach
    disjoint sets of allocated cells — what `copy_fresh` decides for a copy and its source, and what
    the harness observes right after `Clone`/`SubTree` — stay disjoint under any history of local
    edits of the first one, and the second one keeps every cell content and its set of cells; so
    anything computed from the cells it reaches (α dump, Newick text) is unchanged.
    PARTIAL with respect to the Go code: that each edit operation is `Local` is assumed
    (tested by the aliasing histories), not proved. -/
theorem twin_unchanged_partial {α : Type} (r r' : Heap.Addr) (obs : Heap.H → α)
    (hobs : ∀ h h', Heap.SameOn h h' r' → obs h' = obs h)
    (es : List (Heap.H → Heap.H)) (h : Heap.H) (hes : ∀ e ∈ es, Heap.Local r e ∧ Heap.KeepsAlloc r e)
    (ha : Heap.Alloc h r) (ha' : Heap.Alloc h r') (hd : Heap.Disjoint h r r') :
    obs (Heap.run es h) = obs h ∧ Heap.Disjoint (Heap.run es h) r r' :=
  ⟨Heap.observe_frame obs hobs es h hes ha ha' hd, (Heap.history_frame es h hes ha ha' hd).2.2⟩

/- `Local` is inhabited: overwriting the root cell's data, allocating a cell below the root -/
example (r : Heap.Addr) (v : Nat) : Heap.Local r (Heap.setData r v) ∧ Heap.KeepsAlloc r (Heap.setData r v) :=
  Heap.setData_local r v
example (r : Heap.Addr) : Heap.Local r (Heap.allocChild r) ∧ Heap.KeepsAlloc r (Heap.allocChild r) :=
  Heap.allocChild_local r

/-- ★ every edit that reaches the cells it writes, and the references it stores, by navigating
    from its own tree (or by allocating) is local: it leaves every other allocated cell alone and
    whatever it reaches afterwards it reached before or has allocated.  (`Heap.Op`: store a scalar,
    store reference fields / slice elements, allocate; operands = paths of reference fields from
    the root of the edited tree, or cells allocated by the edit; the program may depend on the
    whole heap.)  `Lemmas/C15HeapEdits.lean` lists the Go statements of the edit operations in
    this form. -/
theorem heap_edit_local (r : Heap.Addr) (prog : Heap.H → List Heap.Op) :
    Heap.Local r (Heap.runProg r prog) ∧ Heap.KeepsAlloc r (Heap.runProg r prog) :=
  Heap.runProg_local r prog

/-- the anchored operations themselves, written statement by statement as heap programs
    (`Lemmas/C15HeapEdits.lean`; the driver runs them on the real pointer graph and compares with the
    graph after the real call): each is local to the frame it navigates from — the receiver and its
    argument — so none of them can change a tree that shares no cell with them -/
theorem anchored_ops_local (f : Heap.Addr) :
    (∀ parN kn idx tr kt, Heap.Local f (Heap.runProg f (Heap.graftProg parN kn idx tr kt))) ∧
    Heap.Local f (Heap.runProg f Heap.mergeProg) ∧
    (∀ parN kn, Heap.Local f (Heap.runProg f (Heap.insertZeroProg parN kn))) ∧
    (∀ parN kn idx, Heap.Local f (Heap.runProg f (Heap.insertCherryProg parN kn idx))) ∧
    (∀ (t : T) P b, ∀ p ∈ Heap.rsProgs t P b, Heap.Local f (Heap.runProg f p)) ∧
    (∀ slots, ∀ p ∈ Heap.rerootProgs slots, Heap.Local f (Heap.runProg f p)) :=
  ⟨fun _ _ _ _ _ => (Heap.runProg_local f _).1, (Heap.runProg_local f _).1, fun _ _ => (Heap.runProg_local f _).1,
   fun _ _ _ => (Heap.runProg_local f _).1, fun _ _ _ _ _ => (Heap.runProg_local f _).1,
   fun _ _ _ => (Heap.runProg_local f _).1⟩

/-! ## Clone -/

/-- ★ a clone is the source with every parent position reset (the copy is built parent-first);
    for any table that copies the observable fields -/
theorem cloneBy_eq (tb : Table) (h : allObservableFieldsCopied tb = true) (t : T) : cloneBy tb t = zeroPpos t :=
  copyRecBy_eq h t

/-- `UpdateTipIndex` on unique tip names: ids = positions in the sorted tip names, no error -/
theorem tipIndex_unique (t : T) (h : t.tipNames.Nodup) : tipIndex t = (sortN t.tipNames, true) :=
  tipIndex_of_nodup t h

/-! ## Merge -/

/-- ★ merging two rooted trees under a new root: path lengths inside the first tree unchanged -/
theorem merge_dist (i1 i2 : Bool) (t t2 t' : T) (h : merge i1 i2 t t2 = .ok t') (a b : String)
    (ha : a ∈ t.tipNames) (hb : b ∈ t.tipNames) : t'.dist a b = t.dist a b :=
  merge_dist_left h a b ha hb

/-- ★ … and inside the second tree -/
theorem merge_dist_second (i1 i2 : Bool) (t t2 t' : T) (h : merge i1 i2 t t2 = .ok t') (a b : String)
    (ha : a ∈ t2.tipNames) (hb : b ∈ t2.tipNames) : t'.dist a b = t2.dist a b :=
  merge_dist_right h a b ha hb

/-- … and a tip of the first and a tip of the second tree are joined through the two old roots
    (the two new root branches carry no length) -/
theorem merge_dist_cross (i1 i2 : Bool) (t t2 t' : T) (h : merge i1 i2 t t2 = .ok t') (a b : String)
    (ha : a ∈ t.tipNames) (hb : b ∈ t2.tipNames) : t'.dist a b = t.rootDist a + t2.rootDist b :=
  merge_dist_cross' h a b ha hb

/-- ★ the tips of the merged tree are those of the two trees, in that order; a successful merge
    implies both trees were rooted and shared no tip name -/
theorem merge_tips (i1 i2 : Bool) (t t2 t' : T) (h : merge i1 i2 t t2 = .ok t') :
    t'.tipNames = t.tipNames ++ t2.tipNames ∧ t.rooted = true ∧ t2.rooted = true ∧
    (∀ x ∈ t.tipNames, x ∉ t2.tipNames) ∧ t'.rooted = true := by
  obtain ⟨hr, hr2, hd, ht'⟩ := merge_ok h
  refine ⟨merge_tipNames h, hr, hr2, fun x hx hx2 => ?_, by rw [ht']; rfl⟩
  have := List.any_eq_false.mp hd x hx
  simp [hx2] at this

/-- the branch data of both trees are untouched and in place: the branches of the merged tree are
    the two new (empty) root branches followed by the branches of the first resp. second tree -/
theorem merge_edges (i1 i2 : Bool) (t t2 t' : T) (h : merge i1 i2 t t2 = .ok t') :
    t'.edges = EdgeD.blank :: (t.edges ++ EdgeD.blank :: t2.edges) := merge_edges' h

/-- the model's merge meets the Spec used as oracle (incl. "under a new root": the root has two
    children, carrying the two trees) -/
theorem mergeOK_holds (i1 i2 : Bool) (t t2 t' : T) (h : merge i1 i2 t t2 = .ok t') : mergeOK t t2 t' = true :=
  mergeOK_holds' h

/-- merge is refused when a tip name is shared -/
theorem merge_common_err (t t2 : T) (x : String) (hx : x ∈ t.tipNames) (hx2 : x ∈ t2.tipNames) :
    ∀ t', merge true true t t2 ≠ .ok t' := by
  intro t' h
  exact (merge_tips _ _ _ _ _ h).2.2.2.1 x hx hx2

/-! ## GraftTreeOnTip -/

/-- ★ grafting a tree in place of a tip: path lengths between the other tips of the host unchanged
    (`a`, `b` any names other than the replaced tip and the leaves of the graft) -/
theorem graft_dist (idx : Bool) (t g t' : T) (tip : String) (h : graft idx t tip g = .ok t') (a b : String)
    (ha : a ≠ tip) (hb : b ≠ tip) (hag : a ∉ graftLeaves g) (hbg : b ∉ graftLeaves g) :
    t'.dist a b = t.dist a b := by
  obtain ⟨_, k', hk, rfl⟩ := graft_ok h
  exact graftKids_dist_out EdgeD.lenOr0 t.kids k' hk a b ha hb hag hbg

/-- ★ … and path lengths between two leaves of the graft are those inside the graft
    (names of the graft not used by the host) -/
theorem graft_dist_inside (idx : Bool) (t g t' : T) (tip : String) (h : graft idx t tip g = .ok t') (a b : String)
    (ha : a ∈ graftLeaves g) (hb : b ∈ graftLeaves g) (hat : a ∉ t.tipNames) (hbt : b ∉ t.tipNames) :
    t'.dist a b = g.dist a b := by
  obtain ⟨_, k', hk, rfl⟩ := graft_ok h
  have hat' : a ∉ leavesL t.kids := fun h => hat (by rw [tipNames_def]; exact List.mem_append_right _ h)
  have hbt' : b ∉ leavesL t.kids := fun h => hbt (by rw [tipNames_def]; exact List.mem_append_right _ h)
  have := graftKids_dist_in EdgeD.lenOr0 t.kids k' hk a b ha hb hat' hbt'
  simpa [dist_def, asGraft] using this

/-- ★ the tips after the graft: the old ones minus the replaced tip, plus the leaves of the graft -/
theorem graft_tips (idx : Bool) (t g t' : T) (tip : String) (h : graft idx t tip g = .ok t') :
    t'.tipNames.Perm (t.tipNames.erase tip ++ graftLeaves g) := by
  obtain ⟨hroot, k', hk, rfl⟩ := graft_ok h
  have hp := graftKids_perm t.kids k' hk
  have hl := graftKids_length t.kids k' hk
  simp only [T.tipNames, T.kids_node, T.name, T.d_node, hl]
  by_cases h1 : t.kids.length = 1
  · have hne : t.d.name ≠ tip := fun h2 => hroot ⟨h1, h2⟩
    simp only [h1, beq_self_eq_true, if_true, List.singleton_append]
    rw [List.erase_cons_tail (by simpa using hne)]
    exact (hp.cons _)
  · simpa [h1, graftLeaves] using hp

/-- ★ a tip of the host and a leaf of the graft are joined through the branch of the replaced tip
    and the root of the graft -/
theorem graft_dist_cross (idx : Bool) (t g t' : T) (tip : String) (h : graft idx t tip g = .ok t')
    (hu : t.tipNames.Nodup) (a b : String) (hat : a ≠ tip) (hag : a ∉ graftLeaves g)
    (hb : b ∈ graftLeaves g) (hbt : b ∉ t.tipNames) : t'.dist a b = t.dist a tip + g.rootDist b := by
  obtain ⟨_, k', hk, rfl⟩ := graft_ok h
  have hk0 : (leavesL t.kids).Nodup := by rw [tipNames_def] at hu; exact (List.nodup_append.mp hu).2.1
  have hbt' : b ∉ leavesL t.kids := fun h => hbt (by rw [tipNames_def]; exact List.mem_append_right _ h)
  have := graftKids_dist_cross EdgeD.lenOr0 t.kids k' hk hk0 a b hat hag hb hbt'
  simpa [dist_def, asGraft, rootDist_eq, T.splits] using this

theorem mem_graftLeaves_of_kids {g : T} {a : String} (h : a ∈ leavesL g.kids) : a ∈ graftLeaves g := by
  have hne : g.kids ≠ [] := by intro h0; simp [h0, leavesL] at h
  simpa [graftLeaves, asGraft, leaves_of_kids_ne _ _ _ hne] using h

/-- the model's graft meets the Spec used as oracle (unique host tips, graft names new to the host) -/
theorem graftOK_holds (idx : Bool) (t g t' : T) (tip : String) (h : graft idx t tip g = .ok t')
    (hu : t.tipNames.Nodup) (hdis : ∀ x ∈ graftLeaves g, x ∉ t.tipNames) : graftOK t tip g t' = true := by
  have hhost : ∀ a ∈ t.tipNames.erase tip, a ≠ tip ∧ a ∉ graftLeaves g := fun a ha => by
    have := (List.Nodup.mem_erase_iff hu).mp ha
    exact ⟨this.1, fun hg => hdis a hg this.2⟩
  simp only [graftOK, Bool.and_eq_true]
  refine ⟨⟨⟨sameNames_of_perm (graft_tips idx t g t' tip h), distAgree_of fun a ha b hb => ?_⟩,
    distAgree_of fun a ha b hb => ?_⟩, ?_⟩
  · exact (graft_dist idx t g t' tip h a b (hhost a ha).1 (hhost b hb).1 (hhost a ha).2 (hhost b hb).2).symm
  · have ha' := mem_graftLeaves_of_kids ha
    have hb' := mem_graftLeaves_of_kids hb
    exact (graft_dist_inside idx t g t' tip h a b ha' hb' (hdis a ha') (hdis b hb')).symm
  · simp only [List.all_eq_true, beq_iff_eq]
    intro a ha b hb
    have hb' := mem_graftLeaves_of_kids hb
    exact graft_dist_cross idx t g t' tip h hu a b (hhost a ha).1 (hhost a ha).2 hb' (hdis b hb')

/-- the branch data (length, support, p-value, comments, id) of host and graft are untouched: the
    branches after the graft are those of the host (the tip's branch now carries the graft) and
    those of the graft -/
theorem graft_edges (idx : Bool) (t g t' : T) (tip : String) (h : graft idx t tip g = .ok t') :
    t'.edges.Perm (t.edges ++ g.edges) := by
  obtain ⟨_, k', hk, rfl⟩ := graft_ok h
  simpa [edges_def, edgesL, asGraft] using graftKids_edges t.kids k' hk

/-- the graft is refused when the tip is absent -/
theorem graft_absent_err (idx : Bool) (t g : T) (tip : String) (h : tip ∉ t.tipNames) :
    ∀ t', graft idx t tip g ≠ .ok t' := by
  intro t' h'
  unfold graft at h'
  split at h'
  · cases h'
  · split at h'
    · cases h'
    · rename_i hc
      simp at hc
      exact h hc

/-! ## InsertIdenticalTip(s) -/

def okTips : Except String T → List String
  | .ok t => t.tipNames
  | .error _ => []

/-- ★ one `InsertIdenticalTip(old, new)`: path lengths between all other names unchanged; the new tip
    is exactly as far from everything as the tip it was put next to — in particular at distance 0
    from it —; the tips are the old ones plus the new name.
    Hypotheses: unique tip names, the tip index holds them. -/
theorem insertIdenticalTip_dist (t t' : T) (tips : List String) (old new : String)
    (h : insertOne t tips old new = .ok t') (hu : t.tipNames.Nodup) (hsub : ∀ x ∈ t.tipNames, x ∈ tips) :
    (∀ a b, a ≠ new → b ≠ new → t'.dist a b = t.dist a b) ∧
    (∀ x, x ≠ new → t'.dist new x = t.dist old x) ∧ t'.dist new old = 0 ∧
    t'.tipNames.Perm (new :: t.tipNames) ∧ old ∈ t.tipNames := by
  have st := insertOne_step h hu hsub
  have hne : old ≠ new := fun h0 => (insertOne_ok h).1 (hsub _ (h0 ▸ st.old_mem))
  refine ⟨st.out, st.twin, ?_, st.perm, st.old_mem⟩
  rw [st.twin old hne]
  exact distW_self _ _ _

/-- … and the branches are the old ones plus one or two new branches of length 0 -/
theorem insertIdenticalTip_edges (t t' : T) (tips : List String) (old new : String)
    (h : insertOne t tips old new = .ok t') :
    t'.edges.Perm (zeroEdge :: t.edges) ∨ t'.edges.Perm (zeroEdge :: zeroEdge :: t.edges) := by
  obtain ⟨_, k', hk, rfl⟩ := insertOne_ok h
  simpa [edges_def] using insKids_edges t.kids k' hk

theorem insert_inv (t t' : T) (groups : List (List String))
    (h : insertIdentical true t groups = (t', none)) (hu : t.tipNames.Nodup)
    (hne : ∀ g ∈ groups, "" ∉ g) : ∃ tips', Inv t t' tips' groups.flatten groups := by
  have h0 : Inv t t t.tipNames groups.flatten [] :=
    ⟨hu, fun _ => Iff.rfl, fun _ _ _ _ => rfl, fun _ ha => ha, fun _ hx => Or.inl hx, fun g hg => by cases hg⟩
  have := insertGroups_inv groups [] t t.tipNames t' h0 hne
    (fun g hg x hx => List.mem_flatten.mpr ⟨g, hg, hx⟩) (by simpa using insertIdentical_ok h)
  simpa using this

/-- ★ `InsertIdenticalTips(groups)`, when it succeeds: every path length between pre-existing tips
    is unchanged (unique tip names, no empty name in a group) -/
theorem insertIdentical_dist (t t' : T) (groups : List (List String))
    (h : insertIdentical true t groups = (t', none)) (hu : t.tipNames.Nodup)
    (hne : ∀ g ∈ groups, "" ∉ g) (a b : String) (ha : a ∈ t.tipNames) (hb : b ∈ t.tipNames) :
    t'.dist a b = t.dist a b := by
  obtain ⟨_, hI⟩ := insert_inv t t' groups h hu hne
  exact hI.keep a ha b hb

/-- ★ … all members of a group (the existing tip and the new ones) are at distance 0 from each other -/
theorem insertIdentical_zero (t t' : T) (groups : List (List String))
    (h : insertIdentical true t groups = (t', none)) (hu : t.tipNames.Nodup)
    (hne : ∀ g ∈ groups, "" ∉ g) (g : List String) (hg : g ∈ groups) (x y : String) (hx : x ∈ g) (hy : y ∈ g) :
    t'.dist x y = 0 := by
  obtain ⟨_, hI⟩ := insert_inv t t' groups h hu hne
  exact (hI.zero g hg x hx y hy).1

/-- ★ … and the tips afterwards are exactly the old tips and the names of the groups, each once -/
theorem insertIdentical_tips (t t' : T) (groups : List (List String))
    (h : insertIdentical true t groups = (t', none)) (hu : t.tipNames.Nodup)
    (hne : ∀ g ∈ groups, "" ∉ g) :
    t'.tipNames.Nodup ∧ ∀ x, x ∈ t'.tipNames ↔ (x ∈ t.tipNames ∨ x ∈ groups.flatten) := by
  obtain ⟨_, hI⟩ := insert_inv t t' groups h hu hne
  refine ⟨hI.nodup, fun x => ⟨hI.only x, fun hx => ?_⟩⟩
  rcases hx with hx | hx
  · exact hI.sub x hx
  · obtain ⟨g, hg, hxg⟩ := List.mem_flatten.mp hx
    exact (hI.zero g hg x hxg x hxg).2

/-- … also when the call FAILS half-way (the insertions made before the failing group stay in the
    tree): no path length between pre-existing tips has moved, every pre-existing tip is still there,
    tip names are still unique -/
theorem insertIdentical_dist_always (t t' : T) (groups : List (List String)) (r : Option String)
    (h : insertIdentical true t groups = (t', r)) (hu : t.tipNames.Nodup) (hne : ∀ g ∈ groups, "" ∉ g) :
    (∀ a ∈ t.tipNames, ∀ b ∈ t.tipNames, t'.dist a b = t.dist a b) ∧ (∀ a ∈ t.tipNames, a ∈ t'.tipNames) ∧
    t'.tipNames.Nodup := by
  have h0 : Inv t t t.tipNames groups.flatten [] :=
    ⟨hu, fun _ => Iff.rfl, fun _ _ _ _ => rfl, fun _ ha => ha, fun _ hx => Or.inl hx, fun g hg => by cases hg⟩
  unfold insertIdentical at h
  split at h
  · injection h with h1 _
    subst h1
    exact ⟨fun _ _ _ _ => rfl, fun _ ha => ha, hu⟩
  · obtain ⟨_, _, hI⟩ := insertGroups_keep groups [] t t.tipNames t' r h0 hne
      (fun g hg x hx => List.mem_flatten.mpr ⟨g, hg, hx⟩) (by simpa using h)
    exact ⟨hI.keep, hI.sub, hI.nodup⟩

/-- "one existing member each": a (first) group with no member, or with more than one member, among
    the tips is refused, and the tree is left as it was -/
theorem insertIdentical_refused (t : T) (g : List String) (gs : List (List String))
    (hne : "" ∉ g) (h : existing t.tipNames g ≠ 1) :
    (insertIdentical true t (g :: gs)).1 = t ∧ (insertIdentical true t (g :: gs)).2 ≠ none := by
  unfold insertIdentical
  split
  · exact ⟨rfl, by simp⟩
  · have := insertGroups_refuse t t.tipNames g gs hne h
    simp only [if_true]
    exact ⟨by rw [this.1], this.2⟩

/-- `((a,b)S,(c,d)S,e);` — the witness of the open finding F79 -/
def witnessF79 : T :=
  .node ⟨"", []⟩ 0 [
    (⟨1, NIL, NIL, [], 0⟩, .node ⟨"S", []⟩ 0 [(⟨1, NIL, NIL, [], 1⟩, T.leaf "a"), (⟨1, NIL, NIL, [], 2⟩, T.leaf "b")]),
    (⟨1, NIL, NIL, [], 3⟩, .node ⟨"S", []⟩ 0 [(⟨1, NIL, NIL, [], 4⟩, T.leaf "c"), (⟨1, NIL, NIL, [], 5⟩, T.leaf "d")]),
    (⟨1, NIL, NIL, [], 6⟩, T.leaf "e")]

/-- F79 (open, class `InsertIdenticalDuplicateInnerLabels`), negative theorem on the witness: the tips are
    pairwise different, the group `[a, n]` has exactly one existing member and the insertion itself goes
    through (`groupsAcceptable`), yet the model — as the code, because of `NewNodeIndex` over ALL named
    nodes — refuses and leaves the tree as it was -/
theorem insertIdentical_duplicate_inner_labels_refused :
    witnessF79.tipNames.Nodup ∧ dupInnerLabels witnessF79 = true ∧
    groupsAcceptable witnessF79 [["a", "n"]] = true ∧
    (insertIdentical true witnessF79 [["a", "n"]]).2 ≠ none ∧
    (insertIdentical true witnessF79 [["a", "n"]]).1.tipNames = witnessF79.tipNames := by
  decide +kernel

/-- PARTIAL (F79): acceptable groups are accepted by the model only outside the excluded region —
    when no two named nodes of the host (inner nodes included) share a label; there
    `InsertIdenticalTips` is the insertion procedure itself -/
theorem insertIdentical_accepts_partial (t : T) (groups : List (List String))
    (hl : hasDup (t.nodeNames.filter (· != "")) = false) (ha : groupsAcceptable t groups = true) :
    (insertIdentical true t groups).2 = none := by
  unfold insertIdentical
  simp only [hl, Bool.false_eq_true, if_false, if_true]
  simpa [groupsAcceptable] using ha

/-- the model's result meets the Spec used as oracle -/
theorem insertOK_holds (t t' : T) (groups : List (List String))
    (h : insertIdentical true t groups = (t', none)) (hu : t.tipNames.Nodup)
    (hne : ∀ g ∈ groups, "" ∉ g) : insertOK t groups t' = true := by
  obtain ⟨_, hI⟩ := insert_inv t t' groups h hu hne
  exact insertOK_holds' hu hI

/-- `(a:0)r;` — the two-node tree: a root that is a tip above one leaf with a zero-length branch -/
def witnessTwoNode : T := .node ⟨"r", []⟩ 0 [(⟨0, NIL, NIL, [], 0⟩, T.leaf "a")]

/-- pinned variant (before e4eb1d8, found by this check): the zero-length rule applied below a root
    that is a tip hangs the new tip on the root, and the root `r` is no longer a tip; the current
    rule builds the cherry and keeps it -/
theorem insert_pinned_fails :
    witnessTwoNode.tipNames = ["r", "a"] ∧
    okTips (insertOnePinned witnessTwoNode ["r", "a"] "a" "n") = ["a", "n"] ∧
    okTips (insertOne witnessTwoNode ["r", "a"] "a" "n") = ["r", "n", "a"] ∧
    (insertIdentical true witnessTwoNode [["a", "n"]]).1.tipNames = ["r", "n", "a"] := by
  decide +kernel

/-! ## command-line glue -/

/-- what `gotree graft` does (cmd/graft.go:67 drops the error of `GraftTreeOnTip`): with a tip name
    the host does not have, the host is printed unchanged (and the exit status is 0 — checked by the
    CLI tier against `cliGraft`) -/
theorem cliGraft_absent_tip (host g : T) (tip : String) (h : tip ∉ host.tipNames) : cliGraft host tip g = host := by
  unfold cliGraft
  cases hg : graft true host tip g with
  | ok t => exact absurd hg (graft_absent_err true host g tip h t)
  | error m => rfl

/-- … and otherwise prints the grafted tree, to which all the `graft_*` theorems apply -/
theorem cliGraft_ok (host g t' : T) (tip : String) (h : graft true host tip g = .ok t') : cliGraft host tip g = t' := by
  simp [cliGraft, h]

/-- `gotree merge` prints a tree exactly when `Merge` accepts, and then that tree -/
theorem cliMerge_spec (a b : T) : (cliMerge a b = none ↔ ∀ t', merge true true a b ≠ .ok t') ∧
    ∀ t', cliMerge a b = some t' ↔ merge true true a b = .ok t' := by
  unfold cliMerge
  cases h : merge true true a b with
  | ok t => simp
  | error m => simp

/-! ## RemoveSingleNodes -/

/-- ★ removing the single-child nodes leaves every path length unchanged
    (branch lengths absent or ≥ 0) -/
theorem removeSingle_dist (t : T) (h : lengthsOK t = true) (a b : String) :
    (removeSingle t).dist a b = t.dist a b := removeSingle_dist' t h a b

/-- ★ … keeps the tips -/
theorem removeSingle_tips (t : T) : (removeSingle t).tipNames.Perm t.tipNames := removeSingle_tips' t

/-- ★ … and leaves no single-child inner node (chains included); admissible lengths stay admissible -/
theorem removeSingle_noSingle (t : T) :
    (removeSingle t).noSingle = true ∧ (lengthsOK t = true → lengthsOK (removeSingle t) = true) :=
  ⟨removeSingle_noSingle' t, removeSingle_lengthsOK t⟩

/-- … keeps the tip ids (the tip index is not rebuilt, and need not be) -/
theorem removeSingle_tipIndex (t : T) : tipIndex (removeSingle t) = tipIndex t := removeSingle_tipIndex' t

/-- … and changes nothing at all when there is no single-child node -/
theorem removeSingle_id (t : T) (h : t.noSingle = true) : removeSingle t = t := removeSingleBy_id _ t h

/-- … hence is idempotent -/
theorem removeSingle_idem (t : T) : removeSingle (removeSingle t) = removeSingle t :=
  removeSingle_id _ (removeSingle_noSingle' t)

/-- … and keeps the unrooted split map (`Spec/Splits.lean`): every split with its length and its
    support — the two branches around a removed node are fused as the Spec fuses two entries with the
    same side (lengths add, absent only if both are; support = the larger, absent = -1).  This is the
    observation the driver adds to `obs_C15` for this operation. -/
theorem removeSingle_usplits (t : T) (h : lengthsOK t = true) :
    (removeSingle t).usplits.Perm t.usplits ∧ (removeSingle t).usplitsAll.Perm t.usplitsAll :=
  ⟨removeSingle_usplits' t h, removeSingle_usplitsAll' t h⟩

/-- the model's result meets the Spec used as oracle -/
theorem removeSingleOK_holds (t : T) (h : lengthsOK t = true) : removeSingleOK t (removeSingle t) = true :=
  removeSingleOK_holds' t h

/-- `((a:1,b:1):2,((c:1,d:1)):3);` — the witness of F37 -/
def witnessF37 : T :=
  .node ⟨"", []⟩ 0 [
    (⟨2, NIL, NIL, [], 0⟩, .node ⟨"", []⟩ 0 [(⟨1, NIL, NIL, [], 1⟩, T.leaf "a"), (⟨1, NIL, NIL, [], 2⟩, T.leaf "b")]),
    (⟨3, NIL, NIL, [], 3⟩, .node ⟨"", []⟩ 0 [
      (⟨NIL, NIL, NIL, [], 4⟩, .node ⟨"", []⟩ 0 [(⟨1, NIL, NIL, [], 5⟩, T.leaf "c"), (⟨1, NIL, NIL, [], 6⟩, T.leaf "d")])])]

/-- pinned variant (F37, before 7b2ddfc): the length rule that needs BOTH lengths loses the 3 -/
theorem removeSingle_pinned_fails :
    witnessF37.dist "a" "c" = 7 ∧ (removeSinglePinned witnessF37).dist "a" "c" = 4 ∧
    (removeSingle witnessF37).dist "a" "c" = 7 := by
  decide +kernel

/-! ### the hypotheses are satisfiable on non-trivial trees -/

example : lengthsOK witnessF37 = true ∧ witnessF37.noSingle = false ∧ witnessF37.tipNames.Nodup := by decide +kernel
def exXY : T := .node ⟨"", []⟩ 0 [(⟨1, NIL, NIL, [], 0⟩, T.leaf "x"), (⟨2, NIL, NIL, [], 1⟩, T.leaf "y")]

/-! ## the commands on their whole input (round 7): group file as text, the states of `-g`, several trees -/

/-- the group file format is faithful: groups of clean names (no ",", no end-of-line character), none of
    them empty, written one per line are read back by the model of `readIdenticalGroupFile` as they were -/
theorem readGroupFile_render (gs : List (List String)) (hne : ∀ g ∈ gs, g ≠ [])
    (hc : ∀ g ∈ gs, ∀ n ∈ g, cleanName n = true) : readGroupFile (renderGroups gs) = gs :=
  readGroupFile_render' gs hne hc

/-- the other spellings of the same file (CRLF, no final newline), the blank line that becomes the group
    `[""]` (refused later: "" is no tip), the empty file, a line with a single name -/
theorem readGroupFile_variants :
    readGroupFile "a,b\r\nc,d\r\n" = [["a", "b"], ["c", "d"]] ∧
    readGroupFile "a,b\nc,d" = [["a", "b"], ["c", "d"]] ∧
    readGroupFile "a,b\n\n" = [["a", "b"], [""]] ∧
    readGroupFile "" = [] ∧ readGroupFile "a\n" = [["a"]] ∧
    readGroupFile "a,b\r" = [["a", "b\r"]] := by decide +kernel

/-- F99 (found in round 7b, repaired by /repo 34f70d2), pinned variant: an unterminated last line that fills the
    4096-byte buffer of `bufio.Reader` exactly (length k·4096, k ≥ 1) was LOST (`fileutils.Readln` returned it
    together with `io.EOF`); the code as it is now (`readLinesBy false`) delivers it, as it delivers any other
    non-empty unterminated last line -/
theorem readLines_unterminated_full_dropped (l : List Char) (h : '\n' ∉ l) (hne : l ≠ [])
    (hm : l.length % 4096 = 0) : readLinesBy true l = [] ∧ readLinesBy false l = [l] := by
  constructor
  · rw [readLinesBy_unterminated true l h hne]; simp [bufSize, hm]
  · rw [readLinesBy_unterminated false l h hne]; simp

theorem readLines_unterminated_kept (d : Bool) (l : List Char) (h : '\n' ∉ l) (hne : l ≠ [])
    (hm : l.length % 4096 ≠ 0) : readLinesBy d l = [l] := by
  rw [readLinesBy_unterminated d l h hne]; simp [bufSize, hm]

/-- … on a concrete witness: the group file `a,n` followed by 4093 `x` (4096 bytes, no final newline) yielded NO
    group with the pinned reader — `gotree repopulate` printed the trees unchanged with exit 0 — and yields its
    one group now (corpus/C15-readln-buffer-multiple.txt) -/
theorem readGroupFile_pinned_fails :
    readGroupFileBy true (String.ofList ("a,n".toList ++ List.replicate 4093 'x')) = [] ∧
    readGroupFile (String.ofList ("a,n".toList ++ List.replicate 4093 'x')) =
      [["a", String.ofList ('n' :: List.replicate 4093 'x')]] := by
  have hw := readLines_unterminated_full_dropped ("a,n".toList ++ List.replicate 4093 'x')
      (by intro hm
          rcases List.mem_append.1 hm with h | h
          · revert h; decide
          · exact absurd (List.eq_of_mem_replicate h) (by decide))
      (List.append_ne_nil_of_left_ne_nil (by decide) _)
      (by rw [List.length_append, List.length_replicate]; rfl)
  constructor
  · unfold readGroupFileBy
    rw [String.toList_ofList, hw.1]
    rfl
  · unfold readGroupFile readGroupFileBy
    rw [String.toList_ofList, hw.2]
    have hs : splitC ',' ("a,n".toList ++ List.replicate 4093 'x') = [['a'], 'n' :: List.replicate 4093 'x'] := by
      show splitC ',' (['a'] ++ ',' :: ('n' :: List.replicate 4093 'x')) = _
      rw [splitC_append _ _ _ (by decide), splitC_of_not_mem]
      intro hm
      rcases List.mem_cons.1 hm with h | h
      · exact absurd h (by decide)
      · exact absurd (List.eq_of_mem_replicate h) (by decide)
    simp only [List.map_cons, List.map_nil, hs]

/-- `-g` not given: error exit, nothing printed -/
theorem cliRepopulateFile_absent (ts : List T) : cliRepopulateFile .absent ts = ([], false) := rfl

/-- the trees printed are a prefix of the input; exit 0 exactly when every tree was printed … -/
theorem cliRepopulateFile_prefix (ga : GroupArg) (ts : List T) :
    (cliRepopulateFile ga ts).1.length ≤ ts.length ∧
    ((cliRepopulateFile ga ts).2 = true → (cliRepopulateFile ga ts).1.length = ts.length) := by
  unfold cliRepopulateFile
  cases groupsOf ga with
  | none => simp
  | some gs => exact repopulateLoop_length gs ts

/-- … and then EVERY tree of the input (not only the first) got exactly the requested tips, at distance 0
    from their models, with all other path lengths unchanged (`insertOK`, the Spec used as oracle) -/
theorem cliRepopulateFile_ok (txt : String) (ts outs : List T)
    (h : cliRepopulateFile (.file txt) ts = (outs, true))
    (hu : ∀ t ∈ ts, t.tipNames.Nodup) (hne : ∀ g ∈ readGroupFile txt, "" ∉ g) :
    outs.length = ts.length ∧ ∀ p ∈ ts.zip outs, insertOK p.1 (readGroupFile txt) p.2 = true := by
  obtain ⟨hl, hz⟩ := repopulateLoop_ok (readGroupFile txt) ts outs h
  refine ⟨hl, fun p hp => ?_⟩
  exact insertOK_holds p.1 p.2 _ (hz p hp) (hu p.1 (List.of_mem_zip hp).1) hne

/-- cmd/repopulate.go:57–59 overwrites the error of `readIdenticalGroupFile`: with a group file that cannot
    be opened every tree (unique tip names, no two named nodes with the same label) is printed UNCHANGED
    and the exit status is 0 — a command-line matter outside the property, stated, tied, not judged -/
theorem cliRepopulateFile_missing_silent (ts : List T) (hu : ∀ t ∈ ts, t.tipNames.Nodup)
    (hl : ∀ t ∈ ts, hasDup (t.nodeNames.filter (· != "")) = false) :
    cliRepopulateFile .missing ts = (ts, true) := by
  show repopulateLoop [] ts = (ts, true)
  induction ts with
  | nil => rfl
  | cons t r ih =>
    have h1 : (tipIndex t).2 = true := by rw [tipIndex_unique t (hu t (by simp))]
    have h2 : insertIdentical true t [] = (t, none) := by
      unfold insertIdentical
      simp [hl t (by simp), insertGroups]
    unfold repopulateLoop
    simp only [h1, Bool.not_true, Bool.false_eq_true, if_false, h2]
    rw [ih (fun t ht => hu t (List.mem_cons_of_mem _ ht)) (fun t ht => hl t (List.mem_cons_of_mem _ ht))]

/-- `gotree collapse single` on several trees: one tree printed per input tree, each meeting the Spec -/
theorem cliCollapseSingleAll_spec (ts : List T) (h : ∀ t ∈ ts, lengthsOK t = true) :
    (cliCollapseSingleAll ts).length = ts.length ∧
    ∀ p ∈ ts.zip (cliCollapseSingleAll ts), removeSingleOK p.1 p.2 = true := by
  refine ⟨by simp [cliCollapseSingleAll], ?_⟩
  induction ts with
  | nil => simp [cliCollapseSingleAll]
  | cons t r ih =>
    intro p hp
    simp only [cliCollapseSingleAll, List.map_cons, List.zip_cons_cons, List.mem_cons] at hp
    rcases hp with rfl | hp
    · exact removeSingleOK_holds t (h t (by simp))
    · exact ih (fun t ht => h t (List.mem_cons_of_mem _ ht)) p hp

/-- completeness on the whole input: groups acceptable for EVERY tree of the input (unique tip names, no
    two named nodes with the same label — the region outside F79) are accepted: exit 0, so by
    `cliRepopulateFile_prefix` / `cliRepopulateFile_ok` every tree is printed with the requested tips -/
theorem cliRepopulateFile_accepts (txt : String) (ts : List T) (hu : ∀ t ∈ ts, t.tipNames.Nodup)
    (hl : ∀ t ∈ ts, hasDup (t.nodeNames.filter (· != "")) = false)
    (ha : ∀ t ∈ ts, groupsAcceptable t (readGroupFile txt) = true) :
    (cliRepopulateFile (.file txt) ts).2 = true := by
  show (repopulateLoop (readGroupFile txt) ts).2 = true
  apply repopulateLoop_accepts
  intro t ht
  exact ⟨by rw [tipIndex_unique t (hu t ht)], insertIdentical_accepts_partial t _ (hl t ht) (ha t ht)⟩

example : let ts := [witnessF37, witnessF37]
    (∀ t ∈ ts, t.tipNames.Nodup) ∧ (∀ t ∈ ts, hasDup (t.nodeNames.filter (· != "")) = false) ∧
    (∀ t ∈ ts, groupsAcceptable t (readGroupFile "c,n1,n2\r\nm,a\r\n") = true) ∧
    (∀ g ∈ readGroupFile "c,n1,n2\r\nm,a\r\n", "" ∉ g) := by decide +kernel

end Gotree.C15
