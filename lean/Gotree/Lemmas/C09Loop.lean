/-
  C09 — composition of the insertions over the loop of `Consensus`
  (tree/algo.go:341-381): when the selected rows are pairwise compatible
  (`selOK`), every insertion succeeds and the inner branches of the result are
  exactly the inner rows, with their (mean length, frequency); tip branches get
  the mean length of their row.
-/
import Gotree.Lemmas.C09Insert

namespace Gotree.C09
open Gotree

/-! ## sides -/

/-- `X` is one of the two sides of the bipartition `P | tips \ P` -/
def SameSide (tips X P : List String) : Prop :=
  (∀ a ∈ tips, (a ∈ X ↔ a ∈ P)) ∨ (∀ a ∈ tips, (a ∈ X ↔ ¬ a ∈ P))

theorem subB_iff (a b : List String) : subB a b = true ↔ SubS a b := by
  simp [subB, SubS, List.all_eq_true]

theorem disjB_iff (a b : List String) : disjB a b = true ↔ ∀ x ∈ a, ¬ x ∈ b := by
  simp [disjB, List.all_eq_true]

theorem coverB_iff (tips a b : List String) : coverB tips a b = true ↔ ∀ x ∈ tips, x ∈ a ∨ x ∈ b := by
  simp [coverB, List.all_eq_true]

theorem pairOK_iff (tips a b : List String) : pairOK tips a b = true ↔
    (((∀ x ∈ a, ¬ x ∈ b) ∨ SubS a b ∨ SubS b a ∨ (∀ x ∈ tips, x ∈ a ∨ x ∈ b)) ∧
      ¬ (SubS a b ∧ SubS b a) ∧ ¬ ((∀ x ∈ a, ¬ x ∈ b) ∧ (∀ x ∈ tips, x ∈ a ∨ x ∈ b))) := by
  unfold pairOK
  simp only [Bool.and_eq_true, Bool.or_eq_true, Bool.not_eq_true',
    disjB_iff, subB_iff, coverB_iff, ← Bool.not_eq_true]
  constructor
  · rintro ⟨⟨h1, h2⟩, h3⟩
    refine ⟨?_, h2, h3⟩
    rcases h1 with ((h | h) | h) | h
    · exact Or.inl h
    · exact Or.inr (Or.inl h)
    · exact Or.inr (Or.inr (Or.inl h))
    · exact Or.inr (Or.inr (Or.inr h))
  · rintro ⟨h1, h2, h3⟩
    refine ⟨⟨?_, h2⟩, h3⟩
    rcases h1 with h | h | h | h
    · exact Or.inl (Or.inl (Or.inl h))
    · exact Or.inl (Or.inl (Or.inr h))
    · exact Or.inl (Or.inr h)
    · exact Or.inr h

/-- a branch whose side is a side of an earlier, compatible and different row -/
theorem cladeOK_of_sameSide {tips X P S : List String} (hX : SubS X tips) (hS : SubS S tips) (hP : SubS P tips)
    (hss : SameSide tips X P) (hpair : pairOK tips P S = true) : CladeOK S tips X := by
  obtain ⟨c, n1, n2⟩ := (pairOK_iff tips P S).1 hpair
  rcases hss with he | hc
  · -- X = P
    have xp : ∀ x ∈ X, x ∈ P := fun x hx => (he x (hX x hx)).1 hx
    have px : ∀ x ∈ P, x ∈ X := fun x hx => (he x (hP x hx)).2 hx
    refine ⟨?_, ?_, ?_⟩
    · rcases c with h | h | h | h
      · exact Or.inl fun x hx => h x (xp x hx)
      · exact Or.inr (Or.inl fun x hx => h x (xp x hx))
      · exact Or.inr (Or.inr (Or.inl fun x hx => px x (h x hx)))
      · exact Or.inr (Or.inr (Or.inr fun a ha => (h a ha).imp (px a) id))
    · rintro ⟨h1, h2⟩
      exact n1 ⟨fun x hx => h1 x (px x hx), fun x hx => xp x (h2 x hx)⟩
    · rintro ⟨h1, h2⟩
      exact n2 ⟨fun x hx => h1 x (px x hx), fun a ha => (h2 a ha).imp (xp a) id⟩
  · -- X = tips \ P
    have xnp : ∀ x ∈ X, ¬ x ∈ P := fun x hx => (hc x (hX x hx)).1 hx
    have npx : ∀ x ∈ tips, ¬ x ∈ P → x ∈ X := fun x hx h => (hc x hx).2 h
    refine ⟨?_, ?_, ?_⟩
    · rcases c with h | h | h | h
      · refine Or.inr (Or.inr (Or.inl fun s hs => npx s (hS s hs) fun hp => h s hp hs))
      · refine Or.inr (Or.inr (Or.inr fun a ha => ?_))
        by_cases hp : a ∈ P
        · exact Or.inr (h a hp)
        · exact Or.inl (npx a ha hp)
      · exact Or.inl fun x hx hs => xnp x hx (h x hs)
      · refine Or.inr (Or.inl fun x hx => ?_)
        rcases h x (hX x hx) with h' | h'
        · exact absurd h' (xnp x hx)
        · exact h'
    · rintro ⟨h1, h2⟩
      apply n2
      refine ⟨fun p hp hs => xnp p (h2 p hs) hp, fun a ha => ?_⟩
      by_cases hp : a ∈ P
      · exact Or.inl hp
      · exact Or.inr (h1 a (npx a ha hp))
    · rintro ⟨h1, h2⟩
      apply n1
      refine ⟨fun p hp => ?_, fun s hs => ?_⟩
      · rcases h2 p (hP p hp) with h | h
        · exact absurd hp (xnp p h)
        · exact h
      · apply Classical.byContradiction
        intro hnp
        exact h1 s (npx s (hS s hs) hnp) hs

/-- a tip branch is compatible with every bipartition that has two tips on each side -/
theorem cladeOK_singleton {tips S : List String} (a : String) (hT : tips.Nodup) (hSnd : S.Nodup)
    (hS2 : 2 ≤ S.length) (hSN : S.length + 2 ≤ tips.length) : CladeOK S tips [a] := by
  refine ⟨?_, ?_, ?_⟩
  · by_cases ha : a ∈ S
    · exact Or.inr (Or.inl fun x hx => by simp only [List.mem_singleton] at hx; subst hx; exact ha)
    · exact Or.inl fun x hx => by simp only [List.mem_singleton] at hx; subst hx; exact ha
  · rintro ⟨_, h2⟩
    have := sub_length hSnd (show S ⊆ [a] from fun x hx => h2 x hx)
    simp at this; omega
  · rintro ⟨_, h2⟩
    have : tips ⊆ a :: S := fun x hx => by
      rcases h2 x hx with h | h
      · simp only [List.mem_singleton] at h; simp [h]
      · simp [h]
    have := sub_length hT this
    simp at this; omega

/-! ## entries of the split list are sublists of the leaves -/

mutual
theorem below_sublist_T : ∀ t : T, ∀ s ∈ t.splitsBelow, s.below.Sublist t.leaves
  | .node d p [] => by simp [T.splitsBelow, splitsL]
  | .node d p (k :: ks) => by
    intro s hs
    exact below_sublist_L (k :: ks) s hs
theorem below_sublist_L : ∀ k : Kids, ∀ s ∈ splitsL k, s.below.Sublist (leavesL k)
  | [] => by simp [splitsL]
  | (e, t) :: r => by
    intro s hs
    rw [splitsL_cons] at hs
    rw [leavesL_cons]
    rcases List.mem_append.1 hs with h | h
    · unfold blk at h
      rcases List.mem_cons.1 h with rfl | h
      · exact List.sublist_append_left _ _
      · exact (below_sublist_T t s h).trans (List.sublist_append_left _ _)
    · exact (below_sublist_L r s h).trans (List.sublist_append_right _ _)
end

/-! ## the loop invariant -/

/-- State of the insertion loop: `inner` are the inner rows inserted so far
    (side, length, support), `tipv` the tip rows (tip, length). -/
structure LoopInv (tips : List String) (cur : T) (inner : List (List String × Rat × Rat))
    (tipv : List (String × Rat)) : Prop where
  deg : 2 ≤ cur.kids.length
  nd : (leavesL cur.kids).Nodup
  perm : (leavesL cur.kids).Perm tips
  j1 : ∀ s ∈ cur.splits, (∃ a, s.below = [a]) ∨
    (s.tip = false ∧ ∃ p ∈ inner, SameSide tips s.below p.1 ∧ s.e.len = p.2.1 ∧ s.e.sup = p.2.2)
  j2 : ∀ p ∈ inner, ∃ s ∈ cur.splits, s.tip = false ∧ SameSide tips s.below p.1 ∧ s.e.len = p.2.1 ∧ s.e.sup = p.2.2
  j3 : ∀ av ∈ tipv, ∀ s ∈ cur.splits, s.below = [av.1] → s.tip = true → s.e.len = av.2
  cnt : ni cur.splits ≤ inner.length

theorem tipNames_eq_leaves (t : T) (h : 2 ≤ t.kids.length) : t.tipNames = leavesL t.kids := by
  unfold T.tipNames
  have : (t.kids.length == 1) = false := by simp; omega
  simp [this]

theorem sameSide_of_perm {tips X X' P : List String} (h : X.Perm X') (hs : SameSide tips X P) : SameSide tips X' P := by
  rcases hs with hs | hs
  · exact Or.inl fun a ha => by rw [← h.mem_iff]; exact hs a ha
  · exact Or.inr fun a ha => by rw [← h.mem_iff]; exact hs a ha

/-- the side of a new branch -/
theorem sameSide_of_isNew {tips S below : List String} {len sup : Rat} {s : SplitE} (hT : tips.Nodup)
    (hSnd : S.Nodup) (hST : SubS S tips) (hb : s.below = below) (hbnd : below.Nodup) (hbT : SubS below tips)
    (h : IsNew S S.length tips.length len sup s) : SameSide tips below S := by
  obtain ⟨_, _, h | h⟩ := h
  · rw [hb] at h
    exact Or.inl fun a _ => ⟨h.1 a, h.2 a⟩
  · rw [hb] at h
    refine Or.inr fun a ha => ⟨h.1 a, fun hna => ?_⟩
    -- pigeonhole: below ⊆ tips \ S and both have tips.length - S.length elements
    have h1 := length_filter_not S.contains tips
    have h2 : (tips.filter S.contains).length = S.length := length_filter_of_sub hSnd hT hST
    have hsub : below ⊆ tips.filter (fun a => !S.contains a) := fun x hx =>
      List.mem_filter.2 ⟨hbT x hx, by simpa using h.1 x hx⟩
    have := sub_of_length hbnd hsub (by omega)
    exact this (List.mem_filter.2 ⟨ha, by simpa using hna⟩)

/-- one inner row -/
theorem step_inner (tips : List String) (hT : tips.Nodup) (cur : T) (inner : List (List String × Rat × Rat))
    (tipv : List (String × Rat)) (inv : LoopInv tips cur inner tipv)
    (S : List String) (len sup : Rat) (hSnd : S.Nodup) (hS2 : 2 ≤ S.length)
    (hSN : S.length + 2 ≤ tips.length) (hST : SubS S tips)
    (hpairs : ∀ p ∈ inner, pairOK tips p.1 S = true ∧ SubS p.1 tips) :
    ∃ cur', insertSplit S len sup cur = .ok cur' ∧ LoopInv tips cur' (inner ++ [(S, len, sup)]) tipv := by
  have htn := tipNames_eq_leaves cur inv.deg
  have hdeg : cur.kids.length ≠ 1 := by have := inv.deg; omega
  have hnd : cur.tipNames.Nodup := by rw [htn]; exact inv.nd
  have hmem : ∀ a, a ∈ cur.tipNames ↔ a ∈ tips := fun a => by rw [htn]; exact inv.perm.mem_iff
  have hlen : cur.tipNames.length = tips.length := by rw [htn]; exact inv.perm.length_eq
  have hsub : SubS S cur.tipNames := fun a ha => (hmem a).2 (hST a ha)
  have hout : ∃ a ∈ cur.tipNames, ¬ a ∈ S := by
    apply Classical.byContradiction
    intro hcon
    have : tips ⊆ S := fun a ha => by
      apply Classical.byContradiction
      intro hna
      exact hcon ⟨a, (hmem a).2 ha, hna⟩
    have := sub_length hT this
    omega
  have hbelow : ∀ s ∈ cur.splits, SubS s.below tips := fun s hs a ha =>
    inv.perm.mem_iff.1 ((below_sublist_L cur.kids s hs).subset ha)
  have hclades : ∀ s ∈ cur.splits, CladeOK S cur.tipNames s.below := by
    intro s hs
    have hc : CladeOK S tips s.below := by
      rcases inv.j1 s hs with ⟨a, ha⟩ | ⟨_, p, hp, hss, _, _⟩
      · rw [ha]; exact cladeOK_singleton a hT hSnd hS2 hSN
      · exact cladeOK_of_sameSide (hbelow s hs) hST (hpairs p hp).2 hss (hpairs p hp).1
    refine ⟨?_, hc.neS, ?_⟩
    · rcases hc.compat with h | h | h | h
      · exact Or.inl h
      · exact Or.inr (Or.inl h)
      · exact Or.inr (Or.inr (Or.inl h))
      · exact Or.inr (Or.inr (Or.inr fun a ha => h a ((hmem a).1 ha)))
    · rintro ⟨h1, h2⟩
      exact hc.neC ⟨h1, fun a ha => h2 a ((hmem a).2 ha)⟩
  obtain ⟨cur', hok, snew, hsnew, hnew⟩ := insertSplit_adds S len sup cur hnd hdeg hSnd hS2 hsub hout hclades
  have hfil : S.filter cur.tipNames.contains = S := by
    rw [List.filter_eq_self]; intro a ha; simpa using hsub a ha
  obtain ⟨hkeeps, holdnew, hperm, hdeg', hni⟩ := insertSplit_spec S len sup cur cur' hnd hdeg hSnd hok
  rw [hfil, hlen] at holdnew
  rw [hlen] at hnew
  have hnd' : (leavesL cur'.kids).Nodup := hperm.nodup_iff.2 inv.nd
  have hperm' : (leavesL cur'.kids).Perm tips := hperm.trans inv.perm
  have hbelow' : ∀ s ∈ cur'.splits, SubS s.below tips ∧ s.below.Nodup := fun s hs =>
    ⟨fun a ha => hperm'.mem_iff.1 ((below_sublist_L cur'.kids s hs).subset ha),
      (below_sublist_L cur'.kids s hs).nodup hnd'⟩
  have newSide : ∀ s ∈ cur'.splits, IsNew S S.length tips.length len sup s →
      s.tip = false ∧ SameSide tips s.below S ∧ s.e.len = len ∧ s.e.sup = sup := by
    intro s hs hn
    refine ⟨hn.2.1, sameSide_of_isNew hT hSnd hST rfl (hbelow' s hs).2 (hbelow' s hs).1 hn, ?_, ?_⟩
    · rw [hn.1]; rfl
    · rw [hn.1]; rfl
  refine ⟨cur', hok, ⟨hdeg' inv.deg, hnd', hperm', ?_, ?_, ?_, by
    have := inv.cnt; simp only [List.length_append, List.length_cons, List.length_nil]; omega⟩⟩
  · intro s' hs'
    rcases holdnew s' hs' with ⟨s, hs, hsame⟩ | hn
    · rcases inv.j1 s hs with ⟨a, ha⟩ | ⟨htip, p, hp, hss, hl, hsu⟩
      · left
        refine ⟨a, ?_⟩
        have := hsame.1; rw [ha] at this
        exact List.perm_singleton.1 this.symm
      · right
        refine ⟨by rw [← hsame.2.2.2]; exact htip, p, List.mem_append_left _ hp,
          sameSide_of_perm hsame.1 hss, by rw [← hsame.2.1]; exact hl, by rw [← hsame.2.2.1]; exact hsu⟩
    · right
      obtain ⟨h1, h2, h3, h4⟩ := newSide s' hs' hn
      exact ⟨h1, (S, len, sup), by simp, h2, h3, h4⟩
  · intro p hp
    rcases List.mem_append.1 hp with hp | hp
    · obtain ⟨s, hs, htip, hss, hl, hsu⟩ := inv.j2 p hp
      obtain ⟨s', hs', hsame⟩ := hkeeps s hs
      exact ⟨s', hs', by rw [← hsame.2.2.2]; exact htip, sameSide_of_perm hsame.1 hss,
        by rw [← hsame.2.1]; exact hl, by rw [← hsame.2.2.1]; exact hsu⟩
    · simp only [List.mem_singleton] at hp; subst hp
      obtain ⟨h1, h2, h3, h4⟩ := newSide snew hsnew hnew
      exact ⟨snew, hsnew, h1, h2, h3, h4⟩
  · intro av hav s' hs' hb htip
    rcases holdnew s' hs' with ⟨s, hs, hsame⟩ | hn
    · have hb' : s.below = [av.1] := by
        have := hsame.1; rw [hb] at this
        exact List.perm_singleton.1 this
      rw [← hsame.2.1]
      exact inv.j3 av hav s hs hb' (by rw [hsame.2.2.2]; exact htip)
    · rw [hn.2.1] at htip; cases htip

theorem setTipLenL_length (a : String) (v : Rat) : ∀ k : Kids, (setTipLenL a v k).length = k.length
  | [] => by simp [setTipLenL]
  | (e, t) :: r => by
    have := setTipLenL_length a v r
    unfold setTipLenL
    simp [this]

theorem setLenEntry_below (a : String) (v : Rat) (s : SplitE) : (setLenEntry a v s).below = s.below := by
  unfold setLenEntry; split <;> rfl

theorem setLenEntry_tip (a : String) (v : Rat) (s : SplitE) : (setLenEntry a v s).tip = s.tip := by
  unfold setLenEntry; split <;> rfl

theorem setLenEntry_sup (a : String) (v : Rat) (s : SplitE) : (setLenEntry a v s).e.sup = s.e.sup := by
  unfold setLenEntry; split <;> rfl

theorem setLenEntry_inner (a : String) (v : Rat) (s : SplitE) (h : s.tip = false) : setLenEntry a v s = s := by
  unfold setLenEntry; simp [h]

/-- one tip row -/
theorem step_tip (tips : List String) (cur : T) (inner : List (List String × Rat × Rat))
    (tipv : List (String × Rat)) (inv : LoopInv tips cur inner tipv) (a : String) (v : Rat)
    (hfresh : ∀ bw ∈ tipv, bw.1 ≠ a) :
    LoopInv tips (setTipLen a v cur) inner (tipv ++ [(a, v)]) := by
  have hsp := setTipLen_splits a v cur
  cases cur with
  | node d p k =>
    have hk : (setTipLen a v (.node d p k)).kids = setTipLenL a v k := rfl
    refine ⟨?_, ?_, ?_, ?_, ?_, ?_, ?_⟩
    rotate_left 6
    · rw [hsp]
      have : ni ((T.node d p k).splits.map (setLenEntry a v)) = ni (T.node d p k).splits := by
        unfold ni
        rw [List.filter_map, List.length_map]
        congr 1
        apply List.filter_congr
        intro s _
        simp [Function.comp, setLenEntry_tip]
      rw [this]; exact inv.cnt
    · rw [hk, setTipLenL_length]; exact inv.deg
    · rw [hk, setTipLenL_leaves]; exact inv.nd
    · rw [hk, setTipLenL_leaves]; exact inv.perm
    · intro s' hs'
      rw [hsp] at hs'
      obtain ⟨s, hs, rfl⟩ := List.mem_map.1 hs'
      rcases inv.j1 s hs with ⟨b, hb⟩ | ⟨htip, h⟩
      · exact Or.inl ⟨b, by rw [setLenEntry_below]; exact hb⟩
      · rw [setLenEntry_inner a v s htip]; exact Or.inr ⟨htip, h⟩
    · intro q hq
      obtain ⟨s, hs, htip, h⟩ := inv.j2 q hq
      refine ⟨s, ?_, htip, h⟩
      rw [hsp]
      exact List.mem_map.2 ⟨s, hs, setLenEntry_inner a v s htip⟩
    · intro bw hbw s' hs' hb htip
      rw [hsp] at hs'
      obtain ⟨s, hs, rfl⟩ := List.mem_map.1 hs'
      rw [setLenEntry_below] at hb
      rw [setLenEntry_tip] at htip
      rcases List.mem_append.1 hbw with h | h
      · have hne : bw.1 ≠ a := hfresh bw h
        have : setLenEntry a v s = s := by
          unfold setLenEntry
          have : (s.below == [a]) = false := by
            rw [hb]; simp [hne]
          simp [this]
        rw [this]
        exact inv.j3 bw h s hs hb htip
      · simp only [List.mem_singleton] at h; subst h
        unfold setLenEntry
        simp [hb, htip]

/-! ## the loop -/

/-- the inner rows among `rows`, as (side, mean length, frequency) -/
def innerRows (alltips : List String) (n : Nat) (rows : List Entry) : List (List String × Rat × Rat) :=
  (rows.filter fun x => decide (2 ≤ (rowNames alltips x).length)).map fun x =>
    (rowNames alltips x, x.len / (x.count : Rat), (x.count : Rat) / (n : Rat))

/-- the tip rows among `rows`, as (tip, mean length) -/
def tipRows (alltips : List String) (rows : List Entry) : List (String × Rat) :=
  rows.filterMap fun x =>
    match rowNames alltips x with
    | [a] => some (a, x.len / (x.count : Rat))
    | _ => none

theorem tipRow_none (l : List String) (v : Rat) (h2 : 2 ≤ l.length) :
    (match l with | [a] => some (a, v) | _ => none) = none := by
  match l, h2 with
  | [], h => simp at h
  | [a], h => simp at h
  | _ :: _ :: _, _ => rfl

theorem allPairsOK_mid (tips : List String) : ∀ (l1 : List (List String)) (a : List String) (l2 : List (List String)),
    allPairsOK tips (l1 ++ a :: l2) = true → ∀ p ∈ l1, pairOK tips p a = true
  | [], _, _, _ => by simp
  | x :: l1, a, l2, h => by
    simp only [List.cons_append, allPairsOK, Bool.and_eq_true, List.all_eq_true] at h
    intro p hp
    rcases List.mem_cons.1 hp with rfl | hp
    · exact h.1 a (by simp)
    · exact allPairsOK_mid tips l1 a l2 h.2 p hp

theorem nodupB_mid : ∀ (l1 : List (List String)) (a : List String) (l2 : List (List String)),
    nodupB (l1 ++ a :: l2) = true → ¬ a ∈ l1
  | [], _, _, _ => by simp
  | x :: l1, a, l2, h => by
    simp only [List.cons_append, nodupB, Bool.and_eq_true, Bool.not_eq_true', List.contains_eq_mem,
      decide_eq_false_iff_not] at h
    intro hmem
    rcases List.mem_cons.1 hmem with rfl | hmem
    · exact h.1 (by simp)
    · exact nodupB_mid l1 a l2 h.2 hmem

theorem mem_tipRows {alltips : List String} {rows : List Entry} {bw : String × Rat} (h : bw ∈ tipRows alltips rows) :
    [bw.1] ∈ rows.map (rowNames alltips) := by
  unfold tipRows at h
  obtain ⟨x, hx, hm⟩ := List.mem_filterMap.1 h
  refine List.mem_map.2 ⟨x, hx, ?_⟩
  split at hm
  · rename_i a heq
    simp only [Option.some.injEq] at hm
    rw [← hm]; exact heq
  · cases hm

/-- The insertion loop over rows that satisfy `selOK`. -/
theorem loop_spec (tips alltips : List String) (n : Nat) (hT : tips.Nodup) (hAnd : alltips.Nodup)
    (hAT : SubS alltips tips) : ∀ (sel done : List Entry) (cur : T),
    selOK tips alltips (done ++ sel) = true →
    LoopInv tips cur (innerRows alltips n done) (tipRows alltips done) →
    ∃ r, applyAll alltips n cur sel = .ok r ∧
      LoopInv tips r (innerRows alltips n (done ++ sel)) (tipRows alltips (done ++ sel))
  | [], done, cur, _, inv => ⟨cur, rfl, by simpa using inv⟩
  | x :: sel, done, cur, hsel, inv => by
    have hsel' := hsel
    unfold selOK at hsel
    simp only [List.map_append, List.map_cons, Bool.and_eq_true, List.all_eq_true, List.filter_append] at hsel
    obtain ⟨⟨hsize, hndup⟩, hpairs⟩ := hsel
    have hx := hsize (rowNames alltips x) (by simp)
    have hSnd : (rowNames alltips x).Nodup := hAnd.filter _
    have hST : SubS (rowNames alltips x) tips := fun a ha => hAT a (List.mem_filter.1 ha).1
    have hnext : ∀ cur', LoopInv tips cur' (innerRows alltips n (done ++ [x])) (tipRows alltips (done ++ [x])) →
        ∃ r, applyAll alltips n cur' sel = .ok r ∧
          LoopInv tips r (innerRows alltips n (done ++ x :: sel)) (tipRows alltips (done ++ x :: sel)) := by
      intro cur' inv'
      have := loop_spec tips alltips n hT hAnd hAT sel (done ++ [x]) cur' (by simpa using hsel') inv'
      simpa using this
    by_cases h2 : 2 ≤ (rowNames alltips x).length
    · -- an inner row
      have hSN : (rowNames alltips x).length + 2 ≤ tips.length := by
        simp only [Bool.or_eq_true, beq_iff_eq, Bool.and_eq_true, decide_eq_true_eq] at hx
        rcases hx with h | h
        · omega
        · exact h.2
      have hfx : (List.filter (fun s => decide (2 ≤ s.length)) (rowNames alltips x :: sel.map (rowNames alltips))) =
          rowNames alltips x :: (sel.map (rowNames alltips)).filter (fun s => decide (2 ≤ s.length)) := by
        simp [h2]
      rw [hfx] at hpairs
      have hp : ∀ p ∈ innerRows alltips n done,
          pairOK tips p.1 (rowNames alltips x) = true ∧ SubS p.1 tips := by
        intro p hp
        unfold innerRows at hp
        obtain ⟨y, hy, rfl⟩ := List.mem_map.1 hp
        have hy' := List.mem_filter.1 hy
        refine ⟨allPairsOK_mid tips _ _ _ hpairs _ ?_, fun a ha => hAT a (List.mem_filter.1 ha).1⟩
        exact List.mem_filter.2 ⟨List.mem_map.2 ⟨y, hy'.1, rfl⟩, hy'.2⟩
      obtain ⟨cur', hok, inv'⟩ := step_inner tips hT cur _ _ inv (rowNames alltips x)
        (x.len / (x.count : Rat)) ((x.count : Rat) / (n : Rat)) hSnd h2 hSN hST hp
      have happ : applyEntry alltips n cur x = .ok cur' := by
        unfold applyEntry
        simp only
        rw [if_neg (by unfold rowNames at h2; omega)]
        exact hok
      have hinner : innerRows alltips n (done ++ [x]) = innerRows alltips n done ++
          [(rowNames alltips x, x.len / (x.count : Rat), (x.count : Rat) / (n : Rat))] := by
        unfold innerRows; simp [List.filter_append, h2]
      have htipr : tipRows alltips (done ++ [x]) = tipRows alltips done := by
        unfold tipRows
        rw [List.filterMap_append]
        have : List.filterMap (fun x => match rowNames alltips x with
            | [a] => some (a, x.len / (x.count : Rat)) | _ => none) [x] = [] := by
          simp only [List.filterMap_cons, List.filterMap_nil]
          rw [tipRow_none _ _ h2]
        rw [this]; simp
      obtain ⟨r, hr, invr⟩ := hnext cur' (by rw [hinner, htipr]; exact inv')
      exact ⟨r, by simp only [applyAll, happ]; exact hr, invr⟩
    · -- a tip row
      have h1 : (rowNames alltips x).length = 1 := by
        simp only [Bool.or_eq_true, beq_iff_eq, Bool.and_eq_true, decide_eq_true_eq] at hx
        rcases hx with h | h
        · exact h
        · exact absurd h.1 h2
      obtain ⟨a, ha⟩ := List.length_eq_one_iff.1 h1
      have hamem : a ∈ cur.tipNames := by
        rw [tipNames_eq_leaves cur inv.deg, inv.perm.mem_iff]
        exact hST a (by rw [ha]; simp)
      have happ : applyEntry alltips n cur x = .ok (setTipLen a (x.len / (x.count : Rat)) cur) := by
        unfold applyEntry
        have hn : alltips.filter x.key.contains = [a] := ha
        simp only [hn, List.length_singleton, Nat.lt_add_one, if_true]
        simp [hamem]
      have hfresh : ∀ bw ∈ tipRows alltips done, bw.1 ≠ a := by
        intro bw hbw hab
        have hm := mem_tipRows hbw
        rw [hab, ← ha] at hm
        exact nodupB_mid _ _ _ hndup hm
      have inv' := step_tip tips cur _ _ inv a (x.len / (x.count : Rat)) hfresh
      have hinner : innerRows alltips n (done ++ [x]) = innerRows alltips n done := by
        unfold innerRows; simp [List.filter_append, h2]
      have htipr : tipRows alltips (done ++ [x]) = tipRows alltips done ++ [(a, x.len / (x.count : Rat))] := by
        unfold tipRows
        rw [List.filterMap_append]
        congr 1
        simp only [List.filterMap_cons, List.filterMap_nil, ha]
      obtain ⟨r, hr, invr⟩ := hnext _ (by rw [hinner, htipr]; exact inv')
      exact ⟨r, by simp only [applyAll, happ]; exact hr, invr⟩

end Gotree.C09
