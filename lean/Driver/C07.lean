import Driver.Proto
import Gotree.Model.C07
import Gotree.Model.C07Cmd
import Gotree.Model.C07Renum
import Gotree.Spec.C07

namespace Gotree.Driver.C07
open Gotree Gotree.Driver Gotree.C07

def parseBool : String → Option Bool
  | "1" => some true | "0" => some false | _ => none

/- generator branches / hypotheses, reported as tags -/
mutual
def maxKidsT : T → Nat
  | .node _ _ k => max k.length (maxKidsL k)
def maxKidsL : Kids → Nat
  | [] => 0
  | (_, c) :: r => max (maxKidsT c) (maxKidsL r)
end

mutual
def anyPPosT : T → Bool
  | .node _ p k => p != 0 || anyPPosL k
def anyPPosL : Kids → Bool
  | [] => false
  | (_, c) :: r => anyPPosT c || anyPPosL r
end

def treeTags (t : T) : List String :=
  tagIf (anyPPosL t.kids) "ppos-nonzero" ++
  tagIf t.rooted "rooted" ++ tagIf (!t.rooted) "unrooted" ++
  tagIf (t.kids.length == 1) "roottip" ++
  tagIf (t.uniqueTips) "uniq" ++ tagIf (uniqueIds t) "uniq-ids" ++
  tagIf t.noSingle "nosingle" ++ tagIf (!t.noSingle) "singles" ++
  tagIf (maxKidsL t.kids ≥ 3 || t.kids.length ≥ 4) "multif" ++
  tagIf (t.edges.any (·.len == NIL)) "absent-len" ++
  tagIf (t.edges.any (·.len == 0)) "zero-len" ++
  tagIf (t.internalEdges.any (·.sup == NIL)) "absent-sup" ++
  tagIf (t.kids.any (·.2.isLeaf)) "tip-at-root"

/- fidelity only (decides nothing): the tree with branch ids and parent positions erased — what a Newick text
   keeps of it.  CLI cases re-read the printed tree, so ids are renumbered and every parent comes first; the
   tag `exact-order` says that the model has the same nodes, data and CHILD ORDER as the printed tree. -/
mutual
def shapeT : T → T
  | .node d _ k => .node d 0 (shapeL k)
def shapeL : Kids → Kids
  | [] => []
  | (e, c) :: r => ({ e with id := 0 }, shapeT c) :: shapeL r
end

def fidelity (m a : T) : List String :=
  tagIf (m.dump == a.dump) "exact" ++ tagIf ((shapeT m).dump == (shapeT a).dump) "exact-order"

/-- number of inner branches -/
def nInner (t : T) : Nat := (t.splits.filter (! ·.tip)).length

/-- hypotheses of `collapse_exact` -/
def hypExact (rr : Bool) (t : T) : Bool := uniqueIds t && t.kids.length != 1 && (rr || t.kids.length != 2)

/-- hypotheses of `collapse_rooted` -/
def hypRooted (rr : Bool) (t : T) : Bool := uniqueIds t && !rr && t.rooted

/-- common tail of the three collapse operations and of `remove` -/
def judgeCollapse (crit : Option Crit) (rr rt : Bool) (b : T) (outcome : String) (afterS : String)
    (model : Option T) (extra : List String) : Verdict :=
  let tags0 := treeTags b ++ extra ++ tagIf rr "rr" ++ tagIf rt "rt" ++
    tagIf (hypExact rr b) "hyp-exact" ++ tagIf (hypRooted rr b) "hyp-rooted"
  if !b.uniqueTips || !(uniqueIds b) then ⟨.pass, "skip-dup" :: tags0, ""⟩ else
  if outcome == "err" then
    match model with
    | none => ⟨.pass, "err" :: tags0, ""⟩
    | some _ => ⟨.oracle, tags0, "error on a tree the operation is defined on"⟩
  else if outcome != "ok" then ⟨.oracle, tags0, "outcome " ++ outcome⟩
  else match T.undump afterS with
  | none => bad "C07: after dump"
  | some a =>
    let removed := nInner b - nInner a
    let tags := tags0 ++ tagIf (removed ≥ 1) "removed" ++ tagIf (nInner a ≥ 1) "kept" ++
      -- the verdict rests on how an ABSENT length is read (the oracle accepts both readings)
      tagIf (match crit with | some c => usesAmbiguity c rt b | none => false) "absent-len-selected" ++
      tagIf (removed ≥ 1 && nInner a ≥ 1) "nontrivial" ++
      tagIf (b.rooted && !a.rooted) "unrooted-by-op"
    let orc : Option String :=
      match crit with
      | some c => if collapseOKr c rt rr b a then none else some (collapseWhy c rt rr b a)
      | none => none
    match orc with
    | some why => ⟨.oracle, tags, why⟩
    | none =>
      match model with
      | none => ⟨.tie, tags, "model reports the TopoDepth error"⟩
      | some m =>
        if !(obsEq m a) then ⟨.tie, tags, "model " ++ m.dump⟩
        else ⟨.pass, tags ++ fidelity m a, ""⟩

def tieThreshold (b : T) (f : EdgeD → Rat) (x : Rat) : List String :=
  tagIf ((b.internalEdges.any (f · == x))) "tie-threshold"

def handleOp (op : String) (f : List String) : Verdict :=
  match op, f with
  | "len", [ls, rrs, rts, dump, outcome, after] =>
    match parseRat? ls, parseBool rrs, parseBool rts, T.undump dump with
    | some l, some rr, some rt, some b =>
      judgeCollapse (some (.len l)) rr rt b outcome after (some (collapseLen l rr rt b))
        ("len" :: tieThreshold b (·.len) l ++ tagIf (l < 0) "neg-threshold")
    | _, _, _, _ => bad "C07.len fields"
  | "sup", [ss, rrs, dump, outcome, after] =>
    match parseRat? ss, parseBool rrs, T.undump dump with
    | some s, some rr, some b =>
      judgeCollapse (some (.sup s)) rr false b outcome after (some (collapseSup s rr b))
        ("sup" :: tieThreshold b (·.sup) s)
    | _, _, _ => bad "C07.sup fields"
  | "depth", [mns, mxs, rrs, rts, dump, outcome, after] =>
    match mns.toInt?, mxs.toInt?, parseBool rrs, parseBool rts, T.undump dump with
    | some mn, some mx, some rr, some rt, some b =>
      let total := b.tipNames.length
      judgeCollapse (some (.depth mn mx)) rr rt b outcome after (collapseDepth mn mx rr rt b)
        ("depth" :: tagIf (b.splits.any fun s => !s.tip && ((topoDepth total s : Int) == mn || (topoDepth total s : Int) == mx)) "tie-threshold"
          ++ tagIf (mx < mn) "empty-interval")
    | _, _, _, _, _ => bad "C07.depth fields"
  | "depthraw", [_mns, _mxs, _rrs, _rts, dump, outcome, after] =>
    -- CollapseTopoDepth without ReinitIndexes: the error of TopoDepth, and the tree untouched
    match T.undump dump, T.undump after with
    | some b, some a =>
      let tags := treeTags b ++ ["depthraw"]
      if a.dump != b.dump then ⟨.oracle, tags, "tree changed although TopoDepth cannot be computed"⟩
      else match collapseDepthNoIndex b, outcome with
        | none, "err" => ⟨.pass, "err" :: tags, ""⟩
        | some _, "ok" => ⟨.pass, tags, ""⟩
        | _, _ => ⟨.tie, tags, "outcome " ++ outcome⟩
    | _, _ => if (T.undump dump).isSome then ⟨.oracle, [], "outcome " ++ outcome⟩ else bad "C07.depthraw fields"
  | "depthstale", [mns, mxs, rrs, rts, scen, _arg, _base, cur, storeds, outcome, after] =>
    -- CollapseTopoDepth on stale subtree sizes: the model reads the SAME stored sizes
    match mns.toInt?, mxs.toInt?, parseBool rrs, parseBool rts, T.undump cur,
          (splitTerm "," storeds).mapM (fun x => match x.splitOn ":" with
            | [a, b, c] => match a.toInt?, b.toNat?, c.toNat? with
              | some i, some l, some r => some (i, l, r)
              | _, _, _ => none
            | _ => none) with
    | some mn, some mx, some rr, some rt, some b, some stored =>
      let fresh := b.splits.all fun s => storedSizes stored s.e.id == (b.tipNames.length - s.below.length, s.below.length)
      let tags := treeTags b ++ ["depthstale", "scenario-" ++ scen] ++ tagIf fresh "fresh-sizes" ++ tagIf (!fresh) "stale-sizes"
      if !(uniqueIds b) then ⟨.pass, "skip-dup" :: tags, ""⟩ else
      let model := collapseDepthStored stored mn mx rr rt b
      match T.undump after with
      | none => if outcome.startsWith "panic" || outcome.startsWith "exit" || outcome.startsWith "malformed" then ⟨.oracle, tags, "outcome " ++ outcome⟩ else bad "C07.depthstale after"
      | some a =>
        -- oracle: with fresh sizes the property's post-condition; on an error nothing is removed
        if outcome == "err" && a.dump != b.dump then ⟨.oracle, tags, "error reported but the tree changed"⟩
        else if fresh && b.uniqueTips && outcome != "ok" then ⟨.oracle, tags, "fresh indexes but outcome " ++ outcome⟩
        else if fresh && b.uniqueTips && !(collapseOKr (.depth mn mx) rt rr b a) then ⟨.oracle, tags, collapseWhy (.depth mn mx) rt rr b a⟩
        else match model, outcome with
          | none, "err" => ⟨.pass, "err" :: tags, ""⟩
          | some m, "ok" =>
            if !(obsEq m a) then ⟨.tie, tags, "model " ++ m.dump⟩
            else ⟨.pass, tags ++ fidelity m a ++ tagIf (nInner b > nInner a) "nontrivial", ""⟩
          | _, _ => ⟨.tie, tags, "model " ++ (if model.isSome then "ok" else "err") ++ ", outcome " ++ outcome⟩
    | _, _, _, _, _, _ => bad "C07.depthstale fields"
  | "nonfinite", [kind, dump, outcome, after] =>
    -- thresholds that are not numbers of the model (`-l inf`, `-l nan`, `-l -inf`, `-s nan`): every comparison with
    -- +inf holds, none with nan / -inf does — judged as "a threshold above every value" / "below every value"
    match T.undump dump with
    | some b =>
      let big : Rat := 1125899906842624
      match kind with
      | "l-inf" => judgeCollapse (some (.len big)) false false b outcome after (some (collapseLen big false false b)) ["nonfinite", kind]
      | "l-nan" | "l-ninf" => judgeCollapse (some (.len (-2))) false false b outcome after (some (collapseLen (-2) false false b)) ["nonfinite", kind]
      | "s-nan" => judgeCollapse (some (.sup (-2))) false false b outcome after (some (collapseSup (-2) false b)) ["nonfinite", kind]
      | "s-inf" => judgeCollapse (some (.sup big)) false false b outcome after (some (collapseSup big false b)) ["nonfinite", kind]
      | _ => bad "C07.nonfinite kind"
    | none => bad "C07.nonfinite dump"
  | "remove", [rrs, rts, idss, dump, outcome, after] =>
    -- RemoveEdges with an arbitrary list of branches in an arbitrary order: the oracle is the
    -- collapse post-condition for the criterion "is in the list" expressed through ids, i.e.
    -- the model-free statement is made by comparing with the pre-order run below.
    match parseBool rrs, parseBool rts, parseIntList idss, T.undump dump with
    | some rr, some rt, some ids, some b =>
      judgeCollapse (some (.ids ids)) rr rt b outcome after (some (removeEdges rr rt ids b)) ["remove"]
    | _, _, _, _ => bad "C07.remove fields"
  | "resolve", [_seed, dump, drawss, outcome, after, consumed] =>
    match T.undump dump, parseNatList drawss with
    | some b, some draws =>
      let tags0 := treeTags b ++ ["resolve"]
      if !b.uniqueTips then ⟨.pass, "skip-dup" :: tags0, ""⟩ else
      if outcome != "ok" then ⟨.oracle, tags0, "outcome " ++ outcome⟩ else
      match T.undump after with
      | none => bad "C07.resolve after dump"
      | some a =>
        let added := nInner a - nInner b
        let tags := tags0 ++ tagIf (added ≥ 1) "nontrivial" ++ tagIf (added ≥ 2) "ladder" ++
          tagIf (b.kids.length ≥ 4) "root-resolved" ++ tagIf (b.noSingle && 2 ≤ b.kids.length) "hyp-binary"
        if !(resolveOK b a) then ⟨.oracle, tags, resolveWhy b a⟩
        else if consumed != "1" then ⟨.tie, tags, "the implementation did not consume the draws of the script " ++ toString (drawScript b)⟩
        else match resolve b draws with
        | none => ⟨.tie, tags, "model rejects the draws; script " ++ toString (drawScript b)⟩
        | some m =>
          if !(obsEq m a) then ⟨.tie, tags, "model " ++ m.dump⟩
          else ⟨.pass, tags ++ fidelity m a, ""⟩
    | _, _ => bad "C07.resolve fields"
  | _, _ => bad ("C07: unknown op " ++ op)

/- ## sequences on one object (`C07.seq`): the last step is judged, on the tree and the subtree sizes the
   earlier steps left behind -/

def parseStored (s : String) : Option (List (Int × Nat × Nat)) :=
  (splitTerm "," s).mapM (fun x => match x.splitOn ":" with
    | [a, b, c] => match a.toInt?, b.toNat?, c.toNat? with
      | some i, some l, some r => some (i, l, r)
      | _, _, _ => none
    | _ => none)

/-- operations after which the subtree sizes on the branches describe the tree: `ReinitIndexes`, and
    everything that ends with `ReinitInternalIndexes` (RemoveEdges hence the collapses, Resolve, Reroot) -/
def leavesIndexes (step : String) : Bool :=
  match (step.splitOn ":").head? with
  | some k => k == "reinit" || k == "resolve" || k == "len" || k == "sup" || k == "reroot"
  | none => false

/-- the WHOLE history run in the model from the base tree, when it is made of collapses by length / support
    (and `reinit`) only — the subject of `collapse_then_collapse`.  The harness renumbers the branch ids after
    every step, the model keeps those of the base: the comparison (fidelity, decides nothing) erases ids. -/
def modelHistory (steps : List String) (t : T) : Option T :=
  steps.foldlM (fun t st =>
    match st.splitOn ":" with
    | ["reinit"] => some t
    | ["len", ls, rrs, rts] =>
      match parseRat? ls, parseBool rrs, parseBool rts with
      | some l, some rr, some rt => some (collapseLen l rr rt t)
      | _, _, _ => none
    | ["sup", ss, rrs] =>
      match parseRat? ss, parseBool rrs with
      | some x, some rr => some (collapseSup x rr t)
      | _, _ => none
    | _ => none) t

def historyTags (steps : List String) (bases afterS : String) : List String :=
  match T.undump bases, T.undump afterS with
  | some b0, some a =>
    if !(uniqueIds b0) || !b0.uniqueTips then [] else
    match modelHistory steps b0 with
    | some m =>
      let rrs := steps.filterMap fun st => match st.splitOn ":" with
        | "len" :: _ :: rr :: _ => some rr
        | "sup" :: _ :: rr :: _ => some rr
        | _ => none
      ["history"] ++ tagIf ((shapeT m).dump == (shapeT a).dump) "history-exact-order" ++
        tagIf ((shapeT m).dump != (shapeT a).dump) "history-differs" ++
        -- hypotheses of collapse_then_collapse: one removeRoot for all steps, and the root condition on the base
        tagIf (rrs.length ≥ 2 && rrs.all (· == rrs.headD "") && hypExact (rrs.headD "" == "1") b0 &&
               (rrs.headD "" == "1" || (3 ≤ b0.kids.length && b0.noSingle))) "hyp-history"
    | none => []
  | _, _ => []

def handleSeq (f : List String) : Verdict :=
  match f with
  | [stepss, _base, before, storeds, drawss, outcome, after] =>
    let steps := stepss.splitOn ";"
    match steps.getLast?, T.undump before, parseStored storeds, parseNatList drawss with
    | some lastStep, some b, some stored, some draws =>
      let earlier := steps.dropLast
      let indexed := earlier.any leavesIndexes
      let fresh := b.splits.all fun s => storedSizes stored s.e.id == (b.tipNames.length - s.below.length, s.below.length)
      -- fidelity: the harness renumbered the branches after the previous step (SetId(i) in Edges() order);
      -- the model's `renumber` (Model/C07Renum.lean, the one of `resolve_then_collapse`) must be the identity on it
      let tags0 := ["seq", "seq-len-" ++ toString steps.length] ++ tagIf indexed "indexed" ++
        tagIf (!earlier.isEmpty && (renumber b).dump == b.dump) "renum-exact" ++
        tagIf (!earlier.isEmpty && (renumber b).dump != b.dump) "renum-differs" ++ tagIf (!fresh) "stale-sizes" ++
        tagIf (earlier.any fun x => x.startsWith "resolve") "after-resolve" ++
        tagIf (earlier.any fun x => x.startsWith "reroot") "after-reroot" ++
        tagIf (earlier.any fun x => x.startsWith "len" || x.startsWith "sup" || x.startsWith "depth") "after-collapse"
      if !b.uniqueTips || !(uniqueIds b) then ⟨.pass, "skip-dup" :: tags0, ""⟩ else
      -- the earlier operations promise to leave the subtree sizes of the tree as it is
      if indexed && !fresh then ⟨.oracle, tags0, "stale subtree sizes (ntaxleft/ntaxright) left on the branches by the earlier steps " ++ ";".intercalate earlier⟩ else
      match lastStep.splitOn ":" with
      | ["resolve", _seed] =>
        if outcome != "ok" then ⟨.oracle, tags0, "outcome " ++ outcome⟩ else
        match T.undump after with
        | none => bad "C07.seq after dump"
        | some a =>
          let tags := treeTags b ++ tags0 ++ ["seq-resolve"] ++ tagIf (nInner a > nInner b) "nontrivial"
          if !(resolveOK b a) then ⟨.oracle, tags, resolveWhy b a⟩
          else match resolve b draws with
            | none => ⟨.tie, tags, "model rejects the draws"⟩
            | some m => if obsEq m a then ⟨.pass, tags ++ fidelity m a, ""⟩ else ⟨.tie, tags, "model " ++ m.dump⟩
      | ["len", ls, rrs, rts] =>
        match parseRat? ls, parseBool rrs, parseBool rts with
        | some l, some rr, some rt =>
          judgeCollapse (some (.len l)) rr rt b outcome after (some (collapseLen l rr rt b)) ("seq-len" :: tags0)
        | _, _, _ => bad "C07.seq len"
      | ["sup", ss, rrs] =>
        match parseRat? ss, parseBool rrs with
        | some x, some rr => judgeCollapse (some (.sup x)) rr false b outcome after (some (collapseSup x rr b)) ("seq-sup" :: tags0)
        | _, _ => bad "C07.seq sup"
      | ["depth", mns, mxs, rrs, rts] =>
        match mns.toInt?, mxs.toInt?, parseBool rrs, parseBool rts with
        | some mn, some mx, some rr, some rt =>
          if fresh then
            -- the library call on sizes that describe the tree: the post-condition of the collapse by depth
            judgeCollapse (some (.depth mn mx)) rr rt b outcome after (collapseDepthStored stored mn mx rr rt b) ("seq-depth" :: tags0)
          else
            -- never indexed: the model reads the same stored sizes (error, nothing removed)
            match T.undump after, collapseDepthStored stored mn mx rr rt b, outcome with
            | some a, none, "err" => if obsEq a b && a.nodeNames == b.nodeNames then ⟨.pass, "err" :: "seq-depth" :: tags0, ""⟩ else ⟨.oracle, tags0, "error reported but the tree changed"⟩
            | some a, some m, "ok" => if obsEq m a then ⟨.pass, "seq-depth" :: tags0 ++ fidelity m a, ""⟩ else ⟨.tie, tags0, "model " ++ m.dump⟩
            | _, _, _ => ⟨.tie, tags0, "outcome " ++ outcome⟩
        | _, _, _, _ => bad "C07.seq depth"
      | _ => ⟨.pass, "seq-unjudged" :: tags0, ""⟩
    | _, _, _, _ => if (f.getD 5 "").startsWith "panic" || (f.getD 5 "").startsWith "malformed" || (f.getD 5 "").startsWith "exit" then ⟨.oracle, ["seq"], "outcome " ++ f.getD 5 ""⟩ else bad "C07.seq fields"
  | _ => bad "C07.seq arity"

/- ## whole commands (`C07.cmd`) -/

def parseFlags (s : String) : Option CmdFlags :=
  (splitTerm "," s).foldlM (fun (fl : CmdFlags) kv =>
    match kv.splitOn "=" with
    | ["l", v] => (parseRat? v).map fun x => { fl with l := some x }
    | ["s", v] => (parseRat? v).map fun x => { fl with s := some x }
    | ["m", v] => v.toInt?.map fun x => { fl with mn := some x }
    | ["M", v] => v.toInt?.map fun x => { fl with mx := some x }
    | ["root", "1"] => some { fl with root := true }
    | ["tips", "1"] => some { fl with tips := true }
    | _ => none) {}

def parseRecs (s : String) : Option (List Rec) :=
  (splitTerm "|" s).mapM fun x => if x == "ERR" then some none else (T.undump x).map some

/-- the Spec predicate of the command on one (input, output) pair -/
def cmdPairOK (cmd : String) (fl : CmdFlags) (b a : T) : Bool :=
  if !b.uniqueTips || !(uniqueIds b) then true else
  match cmd with
  | "length" => collapseOKr (.len (fl.l.getD 0)) fl.tips fl.root b a
  | "support" => collapseOKr (.sup (fl.s.getD 0)) false fl.root b a
  | "depth" => collapseOKr (.depth (fl.mn.getD 0) (fl.mx.getD 0)) fl.tips fl.root b a
  | "resolve" => resolveOK b a
  | _ => false

def goodPrefix : List Rec → List T
  | some t :: r => t :: goodPrefix r
  | _ => []

def handleCmd (f : List String) : Verdict :=
  match f with
  | [cmd, flagss, outmode, _seed, recss, exit, outss, drawss] =>
    match parseFlags flagss, parseRecs recss, (splitTerm "|" outss).mapM T.undump, parseNatList drawss with
    | some fl, some recs, some outs, some draws =>
      let good := goodPrefix recs
      let hasErr := good.length < recs.length
      -- a record the depth command must refuse (duplicate tip names): counts like an error record
      let good := if cmd == "depth" then good.takeWhile (fun t => !(reinitErr t)) else good
      let stops := hasErr || good.length < (goodPrefix recs).length
      let tags := ["cmd", "cmd-" ++ cmd, "out-" ++ outmode] ++ tagIf fl.root "rr" ++ tagIf fl.tips "rt" ++
        tagIf (fl.l.isNone && fl.s.isNone && fl.mn.isNone && fl.mx.isNone) "default-threshold" ++
        tagIf stops "stops-on-error" ++ tagIf (recs.length ≥ 2) "multi" ++
        -- non-trivial by the stated rule: some written tree lost an inner branch and kept one (collapse),
        -- or gained one (resolve)
        tagIf ((good.zip outs).any fun p =>
          if cmd == "resolve" then nInner p.2 > nInner p.1 else nInner p.2 < nInner p.1 && nInner p.2 ≥ 1) "nontrivial" ++
        tagIf (good.any fun t => anyPPosL t.kids) "ppos-nonzero"
      -- oracle, model-free
      if outs.length != good.length then
        ⟨.oracle, tags, "the command wrote " ++ toString outs.length ++ " trees, " ++ toString good.length ++ " expected"⟩
      else if (exit == "0") == stops then
        ⟨.oracle, tags, "exit status " ++ exit ++ (if stops then " although a record is in error" else " although every record is fine")⟩
      else if !((good.zip outs).all fun p => cmdPairOK cmd fl p.1 p.2) then
        ⟨.oracle, tags, "a written tree violates the post-condition of the command"⟩
      else
        let model : Option (List T × Bool) :=
          match cmd with
          | "length" => some (cmdLength fl recs)
          | "support" => some (cmdSupport fl recs)
          | "depth" => some (cmdDepth fl recs)
          | "resolve" => cmdResolve recs draws
          | _ => none
        match model with
        | none => ⟨.tie, tags, "model undefined (draws do not follow the script " ++ toString (cmdResolveScript recs) ++ ")"⟩
        | some (mo, ok) =>
          if mo.length != outs.length || ok != (exit == "0") then ⟨.tie, tags, "model writes " ++ toString mo.length ++ " trees, ok=" ++ toString ok⟩
          else if !((mo.zip outs).all fun p => obsEq p.1 p.2) then ⟨.tie, tags, "model tree differs"⟩
          else ⟨.pass, tags ++ tagIf ((mo.zip outs).all fun p => (shapeT p.1).dump == (shapeT p.2).dump) "exact-order", ""⟩
    | _, _, _, _ => bad "C07.cmd fields"
  | _ => bad "C07.cmd arity"

/-- CLI cases carry the suffix `@cli` on the operation name (so that a replay goes through the
    binary again); they are judged exactly like the library cases. -/
def handle (op : String) (f : List String) : Verdict :=
  if op == "cmd" then handleCmd f else
  if op == "seq" then
    let v := handleSeq f
    { v with tags := v.tags ++ (if v.status == .pass then historyTags ((f.getD 0 "").splitOn ";") (f.getD 1 "") (f.getD 6 "") else []) }
  else
  match op.splitOn "@" with
  | [o, "cli"] => let v := handleOp o f; { v with tags := "cli" :: v.tags }
  | _ => handleOp op f

end Gotree.Driver.C07
