/-
  C16 — the command loop: what it writes and how it exits (lemmas).
-/
import Gotree.Model.C16CliRun

namespace Gotree.C16
open Gotree

theorem cliLoop_all_ok (gen : Nat → Res Out) (f i : Nat) (acc : List T)
    (h : ∀ j, i ≤ j → j < i + f → (gen j).isOk = true) :
    (cliLoop gen f i acc).exit = 0 ∧ (cliLoop gen f i acc).logged = false ∧
    (cliLoop gen f i acc).trees.length = acc.length + f := by
  induction f generalizing i acc with
  | zero => simp [cliLoop]
  | succ f ih =>
    have hi := h i (Nat.le_refl _) (by omega)
    unfold cliLoop
    cases hg : gen i with
    | ok o =>
      have := ih (i + 1) (o.t :: acc) (fun j h1 h2 => h j (by omega) (by omega))
      simp only [List.length_cons] at this
      refine ⟨this.1, this.2.1, ?_⟩
      rw [this.2.2]; omega
    | err m => rw [hg] at hi; simp [Res.isOk] at hi
    | panic m => rw [hg] at hi; simp [Res.isOk] at hi

theorem cliLoop_first_fails (gen : Nat → Res Out) (f i : Nat) (h : (gen i).isOk = false) :
    cliLoop gen (f + 1) i [] = ⟨1, true, []⟩ := by
  unfold cliLoop
  cases hg : gen i with
  | ok o => rw [hg] at h; simp [Res.isOk] at h
  | err m => rfl
  | panic m => rfl

def okTree (x : Res Out) : Option T := match x with | .ok o => some o.t | _ => none

theorem cliLoop_trees (gen : Nat → Res Out) (f i : Nat) (acc : List T)
    (h : ∀ j, i ≤ j → j < i + f → (gen j).isOk = true) :
    (cliLoop gen f i acc).trees = acc.reverse ++ (List.range' i f).filterMap fun j => okTree (gen j) := by
  induction f generalizing i acc with
  | zero => simp [cliLoop]
  | succ f ih =>
    have hi := h i (Nat.le_refl _) (by omega)
    unfold cliLoop
    cases hg : gen i with
    | ok o =>
      have := ih (i + 1) (o.t :: acc) (fun j h1 h2 => h j (by omega) (by omega))
      simp only [this, List.reverse_cons, List.range'_succ, List.filterMap_cons, hg, okTree, List.append_assoc,
        List.singleton_append]
    | err m => rw [hg] at hi; simp [Res.isOk] at hi
    | panic m => rw [hg] at hi; simp [Res.isOk] at hi

/-- every tree the loop writes is the tree of one of its calls -/
theorem cliLoop_mem (gen : Nat → Res Out) (f : Nat) (h : ∀ j, j < f → (gen j).isOk = true) (t : T)
    (ht : t ∈ (cliLoop gen f 0 []).trees) : ∃ j o, j < f ∧ gen j = .ok o ∧ o.t = t := by
  rw [cliLoop_trees gen f 0 [] (fun j _ h2 => h j (by omega))] at ht
  simp only [List.reverse_nil, List.nil_append, List.mem_filterMap, List.mem_range'_1] at ht
  obtain ⟨j, ⟨_, hj⟩, hok⟩ := ht
  cases hg : gen j with
  | ok o => rw [hg] at hok; simp only [okTree, Option.some.injEq] at hok; exact ⟨j, o, by omega, hg, hok⟩
  | err m => rw [hg] at hok; simp [okTree] at hok
  | panic m => rw [hg] at hok; simp [okTree] at hok

end Gotree.C16
