#!/bin/sh
# Regenerate go.mod/go.sum of the harness from /repo's (offline; replace => /repo).
set -e
cd "$(dirname "$0")"
REPO=${VERIF_REPO:-/repo}
OUT=${1:-.}
mkdir -p "$OUT"
{
  echo "module verifharness"
  echo
  grep -E '^go ' "$REPO/go.mod"
  echo
  echo "require github.com/evolbioinfo/gotree v0.0.0"
  echo
  sed -n '/^require (/,/^)/p' "$REPO/go.mod"
  echo
  echo "replace github.com/evolbioinfo/gotree => $REPO"
} > "$OUT/go.mod"
cp "$REPO/go.sum" "$OUT/go.sum"
