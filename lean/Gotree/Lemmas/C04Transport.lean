/-
  C04 — transport of hash-map runs along a key embedding: running the map on keys `f k` with
  `hash`/`eqv` is running it on keys `k` with `hash ∘ f`/`eqv ∘ (f × f)`.  Used to apply the
  refinement theorems (stated for a lawful key *type*) to the index records of branches, which
  are lawful only on the records `ReinitIndexes` can produce.  Core Lean only.
-/
import Gotree.Lemmas.C04HM

namespace Gotree.C04

section
variable {κ κ' ν : Type} (f : κ' → κ) (hash : κ → UInt64) (eqv : κ → κ → Bool)

def mapB (b : List (κ' × ν)) : List (κ × ν) := b.map fun kv => (f kv.1, kv.2)

def HM.mapK (m : HM κ' ν) : HM κ ν := ⟨m.buckets.map (mapB f), m.cap, m.total⟩

theorem bucketFind_map (k : κ') (b : List (κ' × ν)) :
    bucketFind eqv (f k) (mapB f b) = bucketFind (fun a b => eqv (f a) (f b)) k b := by
  induction b with
  | nil => rfl
  | cons x r ih => obtain ⟨k', v⟩ := x; simp only [mapB, List.map_cons, bucketFind] at ih ⊢; rw [ih]

theorem bucketReplace_map (k : κ') (v : ν) (b : List (κ' × ν)) :
    bucketReplace eqv (f k) v (mapB f b) = (bucketReplace (fun a b => eqv (f a) (f b)) k v b).map (mapB f) := by
  induction b with
  | nil => rfl
  | cons x r ih =>
    obtain ⟨k', v'⟩ := x
    simp only [mapB, List.map_cons, bucketReplace] at ih ⊢
    split
    · rfl
    · rw [ih]
      cases bucketReplace (fun a b => eqv (f a) (f b)) k v r <;> rfl

theorem get_map (m : HM κ' ν) (k : κ') :
    (m.mapK f).get hash eqv (f k) = m.get (fun a => hash (f a)) (fun a b => eqv (f a) (f b)) k := by
  simp only [HM.get, HM.mapK, List.getElem?_map]
  cases m.buckets[indexFor (hash (f k)) m.cap]? with
  | none => rfl
  | some b => simp only [Option.map_some, bucketFind_map]

theorem flatten_map (bs : List (List (κ' × ν))) : (bs.map (mapB f)).flatten = mapB f bs.flatten := by
  induction bs with
  | nil => rfl
  | cons b r ih => simp only [List.map_cons, List.flatten_cons, ih, mapB, List.map_append]

theorem appendAt_map (bs : List (List (κ' × ν))) (i : Nat) (kv : κ' × ν) :
    appendAt (bs.map (mapB f)) i (f kv.1, kv.2) = (appendAt bs i kv).map (List.map (mapB f)) := by
  simp only [appendAt, List.getElem?_map]
  cases bs[i]? with
  | none => rfl
  | some b => simp [mapB, List.map_set]

theorem reinsert_map (n : Nat) (l : List (κ' × ν)) (bs : List (List (κ' × ν))) :
    reinsert hash n (mapB f l) (bs.map (mapB f)) =
      (reinsert (fun a => hash (f a)) n l bs).map (List.map (mapB f)) := by
  induction l generalizing bs with
  | nil => rfl
  | cons kv r ih =>
    simp only [mapB, List.map_cons, reinsert] at ih ⊢
    rw [appendAt_map]
    cases appendAt bs (indexFor (hash (f kv.1)) n) kv with
    | none => rfl
    | some bs' => simp only [Option.map_some]; exact ih bs'

theorem replicate_map (n : Nat) : (List.replicate n ([] : List (κ' × ν))).map (mapB f) = List.replicate n [] := by
  simp [mapB]

theorem rehash_map (policy : Nat → Nat → Bool) (m : HM κ' ν) :
    (m.mapK f).rehash hash policy = (m.rehash (fun a => hash (f a)) policy).map (HM.mapK f) := by
  obtain ⟨bs, cap, total⟩ := m
  dsimp only [HM.rehash, HM.mapK]
  by_cases hp : policy total cap = true
  · rw [if_pos hp, if_pos hp, flatten_map, ← replicate_map f, reinsert_map]
    cases reinsert (fun a => hash (f a)) (2 * cap) bs.flatten (List.replicate (2 * cap) []) with
    | none => rfl
    | some bs' => rfl
  · rw [if_neg hp, if_neg hp]; rfl

theorem put_map (policy : Nat → Nat → Bool) (m : HM κ' ν) (k : κ') (v : ν) :
    (m.mapK f).put hash eqv policy (f k) v =
      (m.put (fun a => hash (f a)) (fun a b => eqv (f a) (f b)) policy k v).map (HM.mapK f) := by
  simp only [HM.put]
  show (match (m.mapK f).buckets[indexFor (hash (f k)) m.cap]? with | none => none | some b => _) = _
  simp only [HM.mapK, List.getElem?_map]
  cases hb : m.buckets[indexFor (hash (f k)) m.cap]? with
  | none => rfl
  | some b =>
    simp only [Option.map_some, bucketReplace_map]
    cases bucketReplace (fun a b => eqv (f a) (f b)) k v b with
    | some b' => simp [HM.mapK, List.map_set]
    | none =>
      simp only [Option.map_none]
      have := rehash_map f hash policy
        ({ m with buckets := m.buckets.set (indexFor (hash (f k)) m.cap) (b ++ [(k, v)]), total := m.total + 1 } : HM κ' ν)
      simp only [HM.mapK, List.map_set, mapB, List.map_append, List.map_cons, List.map_nil] at this ⊢
      exact this

theorem keyValues_map (m : HM κ' ν) : (m.mapK f).keyValues = m.keyValues.map (mapB f) := by
  simp only [HM.keyValues, HM.mapK, flatten_map, mapB, List.length_map]
  split <;> rfl

theorem new_map (cap : Nat) : (HM.new cap : HM κ' ν).mapK f = (HM.new cap : HM κ ν) := by
  simp [HM.new, HM.mapK, mapB]

/-- the map key of an `EdgeIndex` operation -/
def EIOp.mapKey (g : κ' → κ) : EIOp κ' → EIOp κ
  | .add k l => .add (g k) l
  | .putv k c l => .putv (g k) c l
  | .value k => .value (g k)
  | .edges a b => .edges a b
  | .unindexed => .unindexed

theorem ei_run_map (policy : Nat → Nat → Bool) (ops : List (EIOp κ')) (m : HM κ' EIInfo) :
    EI.run hash eqv policy (ops.map (EIOp.mapKey f)) (m.mapK f) =
      EI.run (fun a => hash (f a)) (fun a b => eqv (f a) (f b)) policy ops m := by
  induction ops generalizing m with
  | nil => rfl
  | cons op r ih =>
    cases op with
    | add k len =>
      simp only [List.map_cons, EIOp.mapKey, EI.run, get_map]
      cases m.get (fun a => hash (f a)) (fun a b => eqv (f a) (f b)) k with
      | none => rfl
      | some o =>
        cases o with
        | none =>
          simp only [put_map]
          cases m.put (fun a => hash (f a)) (fun a b => eqv (f a) (f b)) policy k ⟨1, len⟩ with
          | none => rfl
          | some m' => simp only [Option.map_some, ih]
        | some v =>
          simp only [put_map]
          cases m.put (fun a => hash (f a)) (fun a b => eqv (f a) (f b)) policy k ⟨v.count + 1, v.len + len⟩ with
          | none => rfl
          | some m' => simp only [Option.map_some, ih]
    | putv k c l =>
      simp only [List.map_cons, EIOp.mapKey, EI.run, put_map]
      cases m.put (fun a => hash (f a)) (fun a b => eqv (f a) (f b)) policy k ⟨c, l⟩ with
      | none => rfl
      | some m' => simp only [Option.map_some, ih]
    | value k =>
      simp only [List.map_cons, EIOp.mapKey, EI.run, get_map]
      cases m.get (fun a => hash (f a)) (fun a b => eqv (f a) (f b)) k with
      | none => rfl
      | some o => simp only [ih]
    | edges mn mx =>
      simp only [List.map_cons, EIOp.mapKey, EI.run, keyValues_map]
      cases m.keyValues with
      | none => rfl
      | some l =>
        simp only [Option.map_some, ih, mapB, List.filter_map, List.length_map]
        rfl
    | unindexed => simp only [List.map_cons, EIOp.mapKey, EI.run, ih]

def HMOp.mapKey (g : κ' → κ) : HMOp κ' ν → HMOp κ ν
  | .put k v => .put (g k) v
  | .get k => .get (g k)
  | .kvs => .kvs
  | .keys => .keys

def HMOut.mapKey (g : κ' → κ) : HMOut κ' ν → HMOut κ ν
  | .unit => .unit
  | .val o => .val o
  | .kvs l => .kvs (mapB g l)
  | .panic => .panic
  | .keys l => .keys (l.map g)

theorem hm_run_map (policy : Nat → Nat → Bool) (ops : List (HMOp κ' ν)) (m : HM κ' ν) :
    HM.run hash eqv policy (ops.map (HMOp.mapKey f)) (m.mapK f) =
      (HM.run (fun a => hash (f a)) (fun a b => eqv (f a) (f b)) policy ops m).map (HMOut.mapKey f) := by
  induction ops generalizing m with
  | nil => rfl
  | cons op r ih =>
    cases op with
    | put k v =>
      simp only [List.map_cons, HMOp.mapKey, HM.run, put_map]
      cases m.put (fun a => hash (f a)) (fun a b => eqv (f a) (f b)) policy k v with
      | none => rfl
      | some m' => simp only [Option.map_some, ih, List.map_cons, HMOut.mapKey]
    | get k =>
      simp only [List.map_cons, HMOp.mapKey, HM.run, get_map]
      cases m.get (fun a => hash (f a)) (fun a b => eqv (f a) (f b)) k with
      | none => rfl
      | some o => simp only [ih, List.map_cons, HMOut.mapKey]
    | kvs =>
      simp only [List.map_cons, HMOp.mapKey, HM.run, keyValues_map]
      cases m.keyValues with
      | none => rfl
      | some l => simp only [Option.map_some, ih, List.map_cons, HMOut.mapKey]
    | keys =>
      simp only [List.map_cons, HMOp.mapKey, HM.run, keyValues_map]
      cases m.keyValues with
      | none => rfl
      | some l => simp only [Option.map_some, ih, List.map_cons, HMOut.mapKey, mapB, List.map_map]; rfl

theorem simL_map (g : κ' → κ) : ∀ (a b : List (HMOut κ' ν)), HMOut.simL a b →
    HMOut.simL (a.map (HMOut.mapKey g)) (b.map (HMOut.mapKey g))
  | [], [], _ => trivial
  | [], _ :: _, h => h.elim
  | _ :: _, [], h => h.elim
  | x :: r, y :: s, h => by
    refine ⟨?_, simL_map g r s h.2⟩
    have h1 := h.1
    cases x <;> cases y <;> simp only [HMOut.sim, HMOut.mapKey] at h1 ⊢
    · exact h1
    · exact h1.map _
    · exact h1.map _

end

end Gotree.C04
