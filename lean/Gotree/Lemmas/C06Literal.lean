/-
  C06 — literal equality of the sorted split lists compared by the oracle
  (`t'.usplitSet = restrictSplits …`), given that the rendering `toString` used as sort key
  tells the sides involved apart (`Spec.sidesInj`, evaluated per case by the driver).
  Core Lean only.
-/
import Gotree.Lemmas.C06RootTip

namespace Gotree.C06
open Gotree

/-- the order the split lists are sorted by -/
def sideLe (a b : List String) : Bool := decide (toString a ≤ toString b)

theorem sideLe_trans (a b c : List String) : sideLe a b = true → sideLe b c = true → sideLe a c = true := by
  simp only [sideLe, decide_eq_true_eq]; exact String.le_trans

theorem sideLe_total (a b : List String) : (sideLe a b || sideLe b a) = true := by
  simp only [sideLe, Bool.or_eq_true, decide_eq_true_eq]; exact String.le_total _ _

theorem nodup_eraseDups : ∀ (n : Nat) (l : List (List String)), l.length ≤ n → l.eraseDups.Nodup
  | _, [], _ => by simp
  | 0, _ :: _, h => by simp at h
  | n + 1, a :: as, h => by
    rw [List.eraseDups_cons, List.nodup_cons]
    constructor
    · intro hm
      have := List.mem_eraseDups.1 hm
      simp at this
    · apply nodup_eraseDups n
      have := List.length_filter_le (fun b => !b == a) as
      simp at h; omega

theorem restrictSplits_nodup (all keep : List String) (sides : List (List String)) :
    (restrictSplits all keep sides).Nodup := by
  unfold restrictSplits
  exact (List.mergeSort_perm _ _).nodup_iff.2 (nodup_eraseDups _ _ (Nat.le_refl _))

theorem restrictSplits_sorted (all keep : List String) (sides : List (List String)) :
    (restrictSplits all keep sides).Pairwise (fun a b => sideLe a b = true) := by
  unfold restrictSplits
  exact List.pairwise_mergeSort (le := sideLe) sideLe_trans sideLe_total _

theorem usplitsAll_sidesNodup (t : T) : SidesNodup t.usplitsAll := by
  rw [T.usplitsAll_eq]
  unfold SidesNodup
  exact ((List.mergeSort_perm _ _).map _).nodup_iff.2 (ufoldU_sidesNodup _ [] (by simp [SidesNodup]))

theorem usplitsAll_sorted (t : T) : t.usplitsAll.Pairwise (fun a b => uLe a b = true) := by
  rw [T.usplitsAll_eq]
  exact List.pairwise_mergeSort (le := uLe)
    (fun a b c => by simp only [uLe, decide_eq_true_eq]; exact String.le_trans)
    (fun a b => by simp only [uLe, Bool.or_eq_true, decide_eq_true_eq]; exact String.le_total _ _) _

theorem usplitSet_nodup (t : T) : t.usplitSet.Nodup := by
  unfold T.usplitSet T.usplits
  exact (usplitsAll_sidesNodup t).sublist ((List.filter_sublist).map _)

theorem usplitSet_sorted (t : T) : t.usplitSet.Pairwise (fun a b => sideLe a b = true) := by
  unfold T.usplitSet T.usplits
  rw [List.pairwise_map]
  exact ((usplitsAll_sorted t).sublist List.filter_sublist).imp (fun h => h)

theorem sidesInj_iff (l : List (List String)) :
    sidesInj l = true ↔ ∀ a ∈ l, ∀ b ∈ l, toString a = toString b → a = b := by
  simp only [sidesInj, List.all_eq_true, Bool.or_eq_true, bne_iff_ne, ne_eq, beq_iff_eq]
  constructor
  · intro h a ha b hb e
    exact (h a ha b hb).resolve_left (fun h' => h' e)
  · intro h a ha b hb
    by_cases e : toString a = toString b
    · exact Or.inr (h a ha b hb e)
    · exact Or.inl e

/-- two duplicate-free lists of sides, sorted by the rendering, with the same members, are equal
    as soon as the rendering tells the members apart -/
theorem eq_of_same_members {l₁ l₂ : List (List String)} (n₁ : l₁.Nodup) (n₂ : l₂.Nodup)
    (s₁ : l₁.Pairwise (fun a b => sideLe a b = true)) (s₂ : l₂.Pairwise (fun a b => sideLe a b = true))
    (hm : ∀ a, a ∈ l₁ ↔ a ∈ l₂) (hinj : sidesInj l₁ = true) : l₁ = l₂ := by
  have hI := (sidesInj_iff l₁).1 hinj
  apply List.Perm.eq_of_pairwise (le := fun a b => sideLe a b = true) _ s₁ s₂
    ((List.perm_ext_iff_of_nodup n₁ n₂).2 hm)
  intro a b ha hb h1 h2
  simp only [sideLe, decide_eq_true_eq] at h1 h2
  exact hI a ha b ((hm b).2 hb) (String.le_antisymm h1 h2)

/-! ## the lists with data -/

theorem eq_of_key_nodup {α : Type} (key : α → List String) : ∀ (l : List α), (l.map key).Nodup →
    ∀ a ∈ l, ∀ b ∈ l, key a = key b → a = b
  | [], _, a, ha, _, _, _ => by cases ha
  | x :: r, hn, a, ha, b, hb, e => by
    simp only [List.map_cons, List.nodup_cons] at hn
    rcases List.mem_cons.1 ha with h1 | h1
    · rcases List.mem_cons.1 hb with h2 | h2
      · rw [h1, h2]
      · subst h1
        have : key a ∈ r.map key := e ▸ List.mem_map_of_mem h2
        exact absurd this hn.1
    · rcases List.mem_cons.1 hb with h2 | h2
      · subst h2
        have : key b ∈ r.map key := e ▸ List.mem_map_of_mem h1
        exact absurd this hn.1
      · exact eq_of_key_nodup key r hn.2 a h1 b h2 e

/-- lists keyed by a side: permutations of each other, sorted by the rendering of the key, keys
    without repetition and told apart by the rendering: equal -/
theorem eq_of_perm_keyed {α : Type} (key : α → List String) {l₁ l₂ : List α} (hp : l₁.Perm l₂)
    (s₁ : l₁.Pairwise (fun a b => sideLe (key a) (key b) = true))
    (s₂ : l₂.Pairwise (fun a b => sideLe (key a) (key b) = true))
    (hn : (l₁.map key).Nodup) (hinj : sidesInj (l₁.map key) = true) : l₁ = l₂ := by
  have hI := (sidesInj_iff _).1 hinj
  apply List.Perm.eq_of_pairwise (le := fun a b => sideLe (key a) (key b) = true) _ s₁ s₂ hp
  intro a b ha hb h1 h2
  simp only [sideLe, decide_eq_true_eq] at h1 h2
  have hb' : b ∈ l₁ := hp.mem_iff.2 hb
  have hk : key a = key b :=
    hI _ (List.mem_map_of_mem ha) _ (List.mem_map_of_mem hb') (String.le_antisymm h1 h2)
  exact eq_of_key_nodup key l₁ hn a ha b hb' hk

theorem sorted_fold (L : List USplit) : ((ufoldU L []).mergeSort uLe).Pairwise (fun a b => uLe a b = true) :=
  List.pairwise_mergeSort (le := uLe)
    (fun a b c => by simp only [uLe, decide_eq_true_eq]; exact String.le_trans)
    (fun a b => by simp only [uLe, Bool.or_eq_true, decide_eq_true_eq]; exact String.le_total _ _) _

theorem sidesNodup_fold (L : List USplit) : SidesNodup ((ufoldU L []).mergeSort uLe) := by
  unfold SidesNodup
  exact ((List.mergeSort_perm _ _).map _).nodup_iff.2 (ufoldU_sidesNodup _ [] (by simp [SidesNodup]))

theorem restrictU_sorted (t : T) (keep : List String) :
    (restrictU t keep).Pairwise (fun a b => uLe a b = true) := by
  rw [restrictU_eq]; exact sorted_fold _

theorem restrictU_sidesNodup (t : T) (keep : List String) : SidesNodup (restrictU t keep) := by
  rw [restrictU_eq]; exact sidesNodup_fold _

/-! ## the derived `==` on unrooted splits is reflexive -/

theorem usplit_beq_self (u : USplit) : (u == u) = true := by
  cases u with
  | mk s l p =>
    have : s.beq s = true := by
      have := (beq_self_eq_true s); simpa [BEq.beq] using this
    simp [BEq.beq, instBEqUSplit.beq, this]

theorem list_usplit_beq_self : ∀ (l : List USplit), (l == l) = true
  | [] => rfl
  | a :: r => by
    have h1 := usplit_beq_self a
    have h2 := list_usplit_beq_self r
    show List.beq (a :: r) (a :: r) = true
    simp only [List.beq, Bool.and_eq_true]
    exact ⟨h1, h2⟩

/-! ## the rendering `toString` of a side is injective for names that are non-empty and free of ',' -/

/-- a tip name the rendering can delimit: non-empty and free of ',' -/
def goodName (x : String) : Prop := x ≠ "" ∧ ',' ∉ x.toList

def renderTail (xs : List String) : List Char := xs.flatMap fun y => ',' :: ' ' :: y.toList

def render : List String → List Char
  | [] => ['[', ']']
  | x :: xs => '[' :: (x.toList ++ renderTail xs) ++ [']']

theorem foldl_toList (xs : List String) (init : String) :
    (xs.foldl (fun l r => l ++ ", " ++ toString r) init).toList = init.toList ++ renderTail xs := by
  induction xs generalizing init with
  | nil => simp [renderTail]
  | cons y ys ih =>
    simp only [List.foldl_cons, ih, String.toList_append, renderTail, List.flatMap_cons]
    have : (", " : String).toList = [',', ' '] := rfl
    have h2 : (toString y : String) = y := rfl
    rw [this, h2]
    simp [List.append_assoc]

theorem toString_toList (l : List String) : (toString l).toList = render l := by
  show (List.toString l).toList = render l
  match l with
  | [] => rfl
  | [x] =>
    simp only [List.toString, render, renderTail, String.toList_append, List.flatMap_nil, List.append_nil]
    have h1 : ("[" : String).toList = ['['] := rfl
    have h2 : ("]" : String).toList = [']'] := rfl
    have h3 : (toString x : String) = x := rfl
    rw [h1, h2, h3]; rfl
  | x :: y :: ys =>
    simp only [List.toString, render, String.toList_push, foldl_toList, String.toList_append]
    have h1 : ("[" : String).toList = ['['] := rfl
    have h3 : (toString x : String) = x := rfl
    rw [h1, h3]; simp [List.append_assoc]

/-- `p` is empty or starts with ',' -/
def CommaStart (p : List Char) : Prop := p = [] ∨ ∃ r, p = ',' :: r

theorem split_unique : ∀ (u v p q : List Char), ',' ∉ u → ',' ∉ v → CommaStart p → CommaStart q →
    u ++ p = v ++ q → u = v ∧ p = q
  | [], [], p, q, _, _, _, _, h => ⟨rfl, by simpa using h⟩
  | [], c :: v, p, q, _, hv, hp, _, h => by
    simp only [List.nil_append, List.cons_append] at h
    rcases hp with rfl | ⟨r, rfl⟩
    · cases h
    · injection h with h1 _
      exact absurd (h1 ▸ List.mem_cons_self) hv
  | c :: u, [], p, q, hu, _, _, hq, h => by
    simp only [List.nil_append, List.cons_append] at h
    rcases hq with rfl | ⟨r, rfl⟩
    · cases h
    · injection h with h1 _
      exact absurd (h1 ▸ List.mem_cons_self) hu
  | c :: u, c' :: v, p, q, hu, hv, hp, hq, h => by
    simp only [List.cons_append] at h
    injection h with h1 h2
    have := split_unique u v p q (fun m => hu (List.mem_cons_of_mem _ m)) (fun m => hv (List.mem_cons_of_mem _ m)) hp hq h2
    exact ⟨by rw [h1, this.1], this.2⟩

theorem renderTail_commaStart (xs : List String) : CommaStart (renderTail xs) := by
  cases xs with
  | nil => exact Or.inl rfl
  | cons y ys => exact Or.inr ⟨' ' :: (y.toList ++ renderTail ys), by simp [renderTail]⟩

theorem renderTail_inj : ∀ (xs ys : List String), (∀ x ∈ xs, ',' ∉ x.toList) → (∀ y ∈ ys, ',' ∉ y.toList) →
    renderTail xs = renderTail ys → xs = ys
  | [], [], _, _, _ => rfl
  | [], y :: ys, _, _, h => by simp [renderTail] at h
  | x :: xs, [], _, _, h => by simp [renderTail] at h
  | x :: xs, y :: ys, hx, hy, h => by
    have h' : x.toList ++ renderTail xs = y.toList ++ renderTail ys := by
      simpa [renderTail] using h
    obtain ⟨e1, e2⟩ := split_unique _ _ _ _ (hx x (by simp)) (hy y (by simp))
      (renderTail_commaStart xs) (renderTail_commaStart ys) h'
    rw [String.toList_inj.1 e1,
      renderTail_inj xs ys (fun z hz => hx z (by simp [hz])) (fun z hz => hy z (by simp [hz])) e2]

theorem render_inj (a b : List String) (ha : ∀ x ∈ a, goodName x) (hb : ∀ x ∈ b, goodName x)
    (h : render a = render b) : a = b := by
  have hlen : ∀ (x : String) (xs : List String), goodName x → 3 ≤ (render (x :: xs)).length := by
    intro x xs hx
    have : x.toList ≠ [] := fun h0 => hx.1 (String.toList_inj.1 (by simpa using h0))
    have : 1 ≤ x.toList.length := List.length_pos_iff.2 this
    simp [render]; omega
  match a, b, ha, hb, h with
  | [], [], _, _, _ => rfl
  | [], y :: ys, _, hb, h =>
    have := hlen y ys (hb y (by simp)); rw [← h] at this; simp [render] at this
  | x :: xs, [], ha, _, h =>
    have := hlen x xs (ha x (by simp)); rw [h] at this; simp [render] at this
  | x :: xs, y :: ys, ha, hb, h =>
    simp only [render, List.cons_append, List.cons.injEq, true_and] at h
    have h' := List.append_cancel_right h
    obtain ⟨e1, e2⟩ := split_unique _ _ _ _ (ha x (by simp)).2 (hb y (by simp)).2
      (renderTail_commaStart xs) (renderTail_commaStart ys) h'
    rw [String.toList_inj.1 e1, renderTail_inj xs ys (fun z hz => (ha z (by simp [hz])).2)
      (fun z hz => (hb z (by simp [hz])).2) e2]

/-- the rendering of sides is injective on lists of names that are non-empty and free of ',' -/
theorem toString_sides_inj (a b : List String) (ha : ∀ x ∈ a, goodName x) (hb : ∀ x ∈ b, goodName x)
    (h : toString a = toString b) : a = b :=
  render_inj a b ha hb (by rw [← toString_toList, ← toString_toList, h])

theorem canonSide_subset (all side : List String) : ∀ x ∈ canonSide all side, x ∈ all := by
  intro x hx
  unfold canonSide at hx
  have hs : ∀ y ∈ sortS (side.filter all.contains), y ∈ all := by
    intro y hy
    have := (List.mem_filter.1 (mem_sortS.1 hy)).2
    simpa using this
  cases hm : minS all with
  | none => rw [hm] at hx; exact hs x hx
  | some m =>
    rw [hm] at hx
    simp only at hx
    split at hx
    · exact (List.mem_filter.1 (mem_sortS.1 hx)).1
    · exact hs x hx

theorem goodNames_iff (t : T) : goodNames t = true ↔ ∀ x ∈ t.tipNames, goodName x := by
  simp [goodNames, goodName, List.all_eq_true]

/-- with delimitable tip names the rendering tells all the sides of a tree apart -/
theorem sidesInj_of_goodNames (t' : T) (h : ∀ x ∈ t'.tipNames, goodName x) :
    sidesInj (t'.usplitsAll.map (·.side)) = true := by
  rw [sidesInj_iff]
  have hg : ∀ a ∈ t'.usplitsAll.map (·.side), ∀ x ∈ a, goodName x := by
    intro a ha x hx
    obtain ⟨s, _, rfl⟩ := (mem_usplitsAll_side t' a).1 ha
    exact h x (canonSide_subset _ _ x hx)
  intro a ha b hb e
  exact toString_sides_inj a b (hg a ha) (hg b hb) e

end Gotree.C06
