/-
  C10 — the property theorems (every `theorem` here is audited).
  Models: Gotree/Model/C10.lean (what the driver runs against the Go code);
  definitions: Gotree/Spec/C10.lean; helper lemmas: Gotree/Lemmas/C10*.lean.

  Hypotheses (Bool, evaluated and tagged by the driver): `hypOK r bs` — every
  tree has unique tip names and a root that is not a tip, the bootstrap trees
  have the taxa of the reference, the collection is not empty; `idsInRange r`
  — TBE's precondition on the branch ids of the reference.
-/
import Gotree.Lemmas.C10Wit
import Gotree.Lemmas.C10Log
import Gotree.Lemmas.C10Cancel
import Gotree.Model.C10Opts
import Gotree.Gen.C10Facts
import Gotree.Proofs.C05

namespace Gotree.C10
open Gotree

/-! ## ★ `MinTransferDist` -/

/-- The post-order recursion with its `ones` counts and its early stop is the
    fold of `min` over the split list of the bootstrap tree, started at `p - 1`
    (pure structure: any `light` predicate, any `p ≠ 1`, any `n`).  The early
    stop (`absent`) is sound as soon as no branch is at distance `< 1`. -/
theorem mtd_fold (light : String → Bool) (p n : Int) (absent : Bool) (b : T)
    (hp : p ≠ 1) (hroot : b.kids.length ≠ 1)
    (habs : absent = true → ∀ s ∈ b.splits, 1 ≤ dOf light p n s.below) :
    minTransferDist light p n absent b =
      (b.splits.map fun s => dOf light p n s.below).foldl min (p - 1) :=
  minTransferDist_eq_fold light p n absent b hp hroot habs

/-- ★ (Appendix B `mtd_correct`) For a reference branch `s` of depth `p > 1` and a
    bootstrap tree on the same taxa, the model of `MinTransferDist` returns
    `min over the bootstrap branches B of transferDist L B n`, capped by `p - 1`,
    where `L` is the light side of `s` — with or without the early stop, which
    `TBE` only asks for when the split is absent from the bootstrap tree. -/
theorem mtd_correct (r b : T) (s : SplitE) (absent : Bool)
    (hr : treeOK r = true) (hb : treeOK b = true) (hT : sameTaxa r b = true) (hs : s ∈ r.splits)
    (hp : 1 < topoDepth (ntips r) s)
    (habs : absent = true → containsSplit r.tipNames s.below b = false) :
    minTransferDist (lightOf (ntips r) s) (topoDepth (ntips r) s) (ntips r) absent b =
      ((minTransfer (lightSide r.tipNames s.below) (ntips r) b : Nat) : Int) :=
  minTransferDist_eq_minTransfer r b s absent hr hb hT hs hp habs

/-- … and it is never more than `p - 1` (no hypothesis at all). -/
theorem mtd_le (light : String → Bool) (p n : Int) (absent : Bool) (b : T) :
    minTransferDist light p n absent b ≤ p - 1 :=
  minTransferDist_le light p n absent b

example : treeOK wRef6 = true ∧ treeOK wBoot6 = true ∧ sameTaxa wRef6 wBoot6 = true := by decide

/-! ## the two supports are their definitions -/

/-- `fbp_def`: the model of FBP returns, for every branch whose split is not
    trivial, the fraction of bootstrap trees having a branch with the same split;
    the other branches keep the support they had. -/
theorem fbp_def (r : T) (bs : List T) (h : hypOK r bs = true) :
    fbp r bs = .ok (r.splits.map (fbpOf r bs)) :=
  fbp_eq_expected r bs h

/-- `tbe_def`: the model of TBE returns `1 − mean(min transfer distance)/(p−1)` for
    every branch whose split is not trivial, and no support for the others. -/
theorem tbe_def (r : T) (bs : List T) (h : hypOK r bs = true) (hid : idsInRange r = true) :
    tbe r bs = .ok (r.splits.map (tbeOf r bs)) :=
  tbe_eq_expected r bs h hid

/-- The cap `p - 1` in the definition's fold is only a convenience: on the
    property's inputs the mean is taken over the plain minimum over the branches
    (some tip branch of the light side is at distance `p - 1`).  The oracle
    evaluates the plain form. -/
theorem tbe_spec_pure (r : T) (bs : List T) (h : hypOK r bs = true) (s : SplitE) (hs : s ∈ r.splits)
    (h2 : 2 ≤ depth r.tipNames s.below) :
    tbeSpec r.tipNames s.below bs = tbeSpecPure r.tipNames s.below bs :=
  tbeSpec_eq_pure r bs h s hs h2

example : hypOK wRef [wBoot, wBoot2] = true ∧ idsInRange wRef = true := by decide
example : hypOK wRef6 [wBoot6, wRef6] = true ∧ idsInRange wRef6 = true := by decide

/-- ★ (Appendix B `fbp_le_tbe`) On every branch `s` of the reference whose split is
    not trivial: `0 ≤ FBP ≤ TBE ≤ 1`, and `TBE = 1` exactly when every bootstrap
    tree has the split. -/
theorem fbp_le_tbe (r : T) (bs : List T) (h : hypOK r bs = true) (hid : idsInRange r = true) :
    fbp r bs = .ok (r.splits.map (fbpOf r bs)) ∧ tbe r bs = .ok (r.splits.map (tbeOf r bs)) ∧
    ∀ s ∈ r.splits, 2 ≤ depth r.tipNames s.below →
      0 ≤ fbpOf r bs s ∧ fbpOf r bs s ≤ tbeOf r bs s ∧ tbeOf r bs s ≤ 1 ∧
      (tbeOf r bs s = 1 ↔ ∀ b ∈ bs, containsSplit r.tipNames s.below b = true) := by
  refine ⟨fbp_eq_expected r bs h, tbe_eq_expected r bs h hid, ?_⟩
  intro s hs h2
  unfold fbpOf tbeOf
  simp only [h2, if_true]
  exact edge_facts r bs h s hs h2

/-- `in_unit_interval`: both supports lie in [0,1]. -/
theorem in_unit_interval (r : T) (bs : List T) (h : hypOK r bs = true) (s : SplitE)
    (hs : s ∈ r.splits) (h2 : 2 ≤ depth r.tipNames s.below) :
    (0 ≤ fbpOf r bs s ∧ fbpOf r bs s ≤ 1) ∧ (0 ≤ tbeOf r bs s ∧ tbeOf r bs s ≤ 1) := by
  unfold fbpOf tbeOf
  simp only [h2, if_true]
  obtain ⟨a, b, c, _⟩ := edge_facts r bs h s hs h2
  exact ⟨⟨a, Rat.le_trans b c⟩, ⟨Rat.le_trans a b, c⟩⟩

/-- `tbe_one_iff` -/
theorem tbe_one_iff (r : T) (bs : List T) (h : hypOK r bs = true) (s : SplitE)
    (hs : s ∈ r.splits) (h2 : 2 ≤ depth r.tipNames s.below) :
    tbeOf r bs s = 1 ↔ ∀ b ∈ bs, containsSplit r.tipNames s.below b = true := by
  unfold tbeOf
  simp only [h2, if_true]
  exact (edge_facts r bs h s hs h2).2.2.2

/-- `tips_unsupported`: a tip branch — and the root branch that is the twin of
    a tip branch — defines a trivial split: FBP leaves its support as it was
    (none, for a tree read from Newick), TBE gives it none. -/
theorem tips_unsupported (r : T) (bs : List T) (s : SplitE) (hs : s ∈ r.splits) :
    (s.tip = true → ¬ 2 ≤ depth r.tipNames s.below) ∧
    (¬ 2 ≤ depth r.tipNames s.below → fbpOf r bs s = s.e.sup ∧ tbeOf r bs s = NIL) := by
  constructor
  · intro ht h2
    have := tip_belowL r.kids s hs ht
    have := depth_le_left r.tipNames s.below
    omega
  · intro h2
    unfold fbpOf tbeOf
    simp [h2]

/-- `tips_unsupported`, on the functions the driver runs: in the list the model of FBP returns,
    the entry of a tip branch (and of any branch whose split is trivial) is the support the
    branch had before — FBP writes nothing there; a reference read from Newick has none on its
    tips — and in the list of TBE it is "none". -/
theorem tips_unsupported_model (r : T) (bs : List T) (h : hypOK r bs = true) (hid : idsInRange r = true) :
    ∃ f t, fbp r bs = .ok f ∧ tbe r bs = .ok t ∧
      List.zip r.splits f = r.splits.map (fun s => (s, fbpOf r bs s)) ∧
      List.zip r.splits t = r.splits.map (fun s => (s, tbeOf r bs s)) ∧
      ∀ s ∈ r.splits, (s.tip = true ∨ ¬ 2 ≤ depth r.tipNames s.below) →
        fbpOf r bs s = s.e.sup ∧ tbeOf r bs s = NIL := by
  refine ⟨_, _, fbp_eq_expected r bs h, tbe_eq_expected r bs h hid, ?_, ?_, ?_⟩
  · unfold fbpExpected; exact zip_map_self _ _
  · unfold tbeExpected; exact zip_map_self _ _
  · intro s hs hc
    obtain ⟨a, b⟩ := tips_unsupported r bs s hs
    rcases hc with hc | hc
    · exact b (a hc)
    · exact b hc

/-- `order_independent`: the order of the bootstrap trees does not matter. -/
theorem order_independent (r : T) (bs bs' : List T) (hp : bs.Perm bs') (h : hypOK r bs = true)
    (hid : idsInRange r = true) : fbp r bs = fbp r bs' ∧ tbe r bs = tbe r bs' := by
  have h' := hypOK_perm hp h
  rw [fbp_eq_expected r bs h, fbp_eq_expected r bs' h', tbe_eq_expected r bs h hid,
    tbe_eq_expected r bs' h' hid]
  constructor
  · congr 1
    unfold fbpExpected
    apply List.map_congr_left
    intro s _
    unfold fbpOf
    rw [fbpSpec_perm _ _ hp]
  · congr 1
    unfold tbeExpected
    apply List.map_congr_left
    intro s _
    unfold tbeOf
    rw [tbeSpec_perm _ _ hp]

/-- The presentation of the bootstrap trees does not matter either: a collection
    that is a permutation of `bs` in which every tree is replaced by a tree with
    the same set of splits (another rooting, another child order) gives the same
    supports. -/
theorem bootstrap_presentation_independent (r : T) (bs bs₁ bs' : List T) (h : hypOK r bs = true)
    (h' : hypOK r bs' = true) (hid : idsInRange r = true) (hp : bs.Perm bs₁)
    (hrep : Repres r.tipNames bs₁ bs') : fbp r bs = fbp r bs' ∧ tbe r bs = tbe r bs' := by
  have h₁ := hypOK_perm hp h
  obtain ⟨e1, e2⟩ := order_independent r bs bs₁ hp h hid
  obtain ⟨f1, f2⟩ := expected_repres r bs₁ bs' h₁ h' hrep
  rw [e1, e2, fbp_eq_expected r bs₁ h₁, fbp_eq_expected r bs' h', tbe_eq_expected r bs₁ h₁ hid,
    tbe_eq_expected r bs' h' hid, f1, f2]
  exact ⟨rfl, rfl⟩

example : hypOK wRef6 [wBoot6, wRef6] = true ∧ hypOK wRef6 [wRef6r, wBoot6r] = true ∧
    [wBoot6, wRef6].Perm [wRef6, wBoot6] ∧ Repres wRef6.tipNames [wRef6, wBoot6] [wRef6r, wBoot6r] :=
  ⟨by decide, by decide, List.Perm.swap _ _ _, by decide, by decide, trivial⟩

/-- Nor does the presentation of the reference: two references with the same
    taxa, a branch in each defining the same non-trivial split — the same FBP and
    the same TBE support. -/
theorem reference_presentation_independent (r r' : T) (bs : List T) (h : hypOK r bs = true)
    (hr' : treeOK r' = true) (hT : sameTaxa r r' = true)
    (hid : idsInRange r = true) (hid' : idsInRange r' = true) :
    fbp r bs = .ok (r.splits.map (fbpOf r bs)) ∧ fbp r' bs = .ok (r'.splits.map (fbpOf r' bs)) ∧
    tbe r bs = .ok (r.splits.map (tbeOf r bs)) ∧ tbe r' bs = .ok (r'.splits.map (tbeOf r' bs)) ∧
    ∀ s ∈ r.splits, ∀ s' ∈ r'.splits, sameSplit r.tipNames s.below s'.below = true →
      2 ≤ depth r.tipNames s.below →
      fbpOf r bs s = fbpOf r' bs s' ∧ tbeOf r bs s = tbeOf r' bs s' := by
  have h' := hypOK_reference h hr' hT
  refine ⟨fbp_eq_expected r bs h, fbp_eq_expected r' bs h', tbe_eq_expected r bs h hid,
    tbe_eq_expected r' bs h' hid', ?_⟩
  intro s hs s' hs' hss h2
  obtain ⟨hd, e1, e2⟩ := spec_reference_equiv r r' bs h hr' hT s s' hs hs' hss
  have h2' : 2 ≤ depth r'.tipNames s'.below := by rw [← hd]; exact h2
  unfold fbpOf tbeOf
  simp only [h2, h2', if_true]
  exact ⟨e1, e2⟩

example : hypOK wRef6 [wBoot6] = true ∧ treeOK wRef6r = true ∧ sameTaxa wRef6 wRef6r = true ∧
    idsInRange wRef6 = true ∧ idsInRange wRef6r = true := by decide

/-- A concrete family for the two theorems above: the one-edge root move (what
    `Reroot` does one step away) onto an inner child gives a well-formed tree on
    the same taxa with the same set of splits. -/
theorem rootMove_presentation (t : T) (i : Nat) (e : EdgeD) (dc : NodeD) (pc : Nat) (kc : Kids)
    (ht : treeOK t = true) (hi : t.kids[i]? = some (e, .node dc pc kc)) (hkc : kc ≠ []) :
    treeOK (rootMove t i) = true ∧ sameTaxa t (rootMove t i) = true ∧
    splitsEquiv t.tipNames t (rootMove t i) = true :=
  rootMove_ok t i e dc pc kc ht hi hkc

/-- A second family: reordering the children of any nodes (`RotT`, defined by
    recursion on the tree: children rotated recursively, then permuted). -/
theorem rotation_presentation (t t' : T) (h : RotT t t') (ht : treeOK t = true) :
    treeOK t' = true ∧ sameTaxa t t' = true ∧ splitsEquiv t.tipNames t t' = true :=
  rot_ok t t' h ht

example : RotT wRef6 wRef6rot ∧ treeOK wRef6 = true := ⟨wRef6_rot, by decide⟩

/-- A third family: a rooted tree (root with two children, the second one inner;
    the other order is a `RotT` away) and its unrooted form `unrootOp` — the two
    root branches define the same split. -/
theorem unroot_presentation (d : NodeD) (p : Nat) (e₁ : EdgeD) (a : T) (e₂ : EdgeD) (d₂ : NodeD)
    (p₂ : Nat) (kc : Kids) (hkc : kc ≠ [])
    (ht : treeOK (.node d p [(e₁, a), (e₂, .node d₂ p₂ kc)]) = true) :
    treeOK (unrootOp (.node d p [(e₁, a), (e₂, .node d₂ p₂ kc)])) = true ∧
    sameTaxa (.node d p [(e₁, a), (e₂, .node d₂ p₂ kc)])
      (unrootOp (.node d p [(e₁, a), (e₂, .node d₂ p₂ kc)])) = true ∧
    splitsEquiv (T.node d p [(e₁, a), (e₂, .node d₂ p₂ kc)]).tipNames
      (.node d p [(e₁, a), (e₂, .node d₂ p₂ kc)])
      (unrootOp (.node d p [(e₁, a), (e₂, .node d₂ p₂ kc)])) = true :=
  unroot_ok d p e₁ a e₂ d₂ p₂ kc hkc ht

example : treeOK wRef = true ∧ unrootOp wRef =
    wN [(wE 0, T.leaf "a"), (wE 2, wN [(wE 3, T.leaf "b"), (wE 4, T.leaf "c")]), (wE 5, T.leaf "d")] :=
  ⟨by decide, rfl⟩

/-- Replacing a bootstrap tree by another presentation of it changes no support
    (by `order_independent` the position of the tree in the collection is immaterial). -/
theorem replace_bootstrap_tree (r b b' : T) (bs : List T) (h : hypOK r (b :: bs) = true)
    (hid : idsInRange r = true) (m1 : treeOK b' = true) (m2 : sameTaxa b b' = true)
    (m3 : splitsEquiv b.tipNames b b' = true) :
    fbp r (b :: bs) = fbp r (b' :: bs) ∧ tbe r (b :: bs) = tbe r (b' :: bs) := by
  obtain ⟨hr, _, hb⟩ := hypOK_facts h
  obtain ⟨_, hb2⟩ := hb b (List.mem_cons_self ..)
  have t1 := sameTaxa_iff.1 hb2
  have t2 := sameTaxa_iff.1 m2
  have h' : hypOK r (b' :: bs) = true := by
    simp only [hypOK, Bool.and_eq_true, Bool.not_eq_true', List.isEmpty_eq_false_iff, List.all_eq_true]
    refine ⟨⟨hr, by simp⟩, ?_⟩
    intro x hx
    rcases List.mem_cons.1 hx with rfl | hx
    · exact ⟨m1, sameTaxa_iff.2 (fun y => (t1 y).trans (t2 y))⟩
    · exact hb x (List.mem_cons_of_mem _ hx)
  have hrep : Repres r.tipNames (b :: bs) (b' :: bs) := by
    refine ⟨?_, repres_refl _ bs⟩
    rw [splitsEquiv_congr_all b b' t1]
    exact m3
  exact bootstrap_presentation_independent r (b :: bs) (b :: bs) (b' :: bs) h h' hid
    (List.Perm.refl _) hrep

/-- … in particular re-rooting it by one edge, or reordering children anywhere in it. -/
theorem reroot_or_rotate_bootstrap_tree (r b : T) (bs : List T) (h : hypOK r (b :: bs) = true)
    (hid : idsInRange r = true) :
    (∀ i e dc pc kc, b.kids[i]? = some (e, .node dc pc kc) → kc ≠ [] →
      fbp r (b :: bs) = fbp r (rootMove b i :: bs) ∧ tbe r (b :: bs) = tbe r (rootMove b i :: bs)) ∧
    (∀ b', RotT b b' →
      fbp r (b :: bs) = fbp r (b' :: bs) ∧ tbe r (b :: bs) = tbe r (b' :: bs)) := by
  obtain ⟨_, _, hb⟩ := hypOK_facts h
  obtain ⟨hb1, _⟩ := hb b (List.mem_cons_self ..)
  constructor
  · intro i e dc pc kc hi hkc
    obtain ⟨m1, m2, m3⟩ := rootMove_ok b i e dc pc kc hb1 hi hkc
    exact replace_bootstrap_tree r b _ bs h hid m1 m2 m3
  · intro b' hrot
    obtain ⟨m1, m2, m3⟩ := rot_ok b b' hrot hb1
    exact replace_bootstrap_tree r b b' bs h hid m1 m2 m3

example : hypOK wRef6 [wBoot6, wRef6] = true ∧ idsInRange wRef6 = true ∧
    (∃ e dc pc kc, wBoot6.kids[0]? = some (e, .node dc pc kc) ∧ kc ≠ []) :=
  ⟨by decide, by decide, _, _, _, _, rfl, by simp⟩

/-- The same for the reference: presented otherwise (`r'` well-formed, on the same
    taxa, with the same set of splits — e.g. `rootMove r i` or any `RotT r r'`), every
    non-trivial branch has a branch of `r'` with the same split and the same two supports. -/
theorem reroot_or_rotate_reference (r r' : T) (bs : List T) (h : hypOK r bs = true)
    (m1 : treeOK r' = true) (m2 : sameTaxa r r' = true) (m3 : splitsEquiv r.tipNames r r' = true)
    (hid : idsInRange r = true) (hid' : idsInRange r' = true) :
    ∀ s ∈ r.splits, 2 ≤ depth r.tipNames s.below →
      ∃ s' ∈ r'.splits, sameSplit r.tipNames s.below s'.below = true ∧
        fbpOf r bs s = fbpOf r' bs s' ∧ tbeOf r bs s = tbeOf r' bs s' := by
  intro s hs h2
  obtain ⟨s', hs', hss⟩ := (splitsEquiv_facts m3).1 s hs
  obtain ⟨_, _, _, _, hall⟩ := reference_presentation_independent r r' bs h m1 m2 hid hid'
  exact ⟨s', hs', hss, hall s hs s' hs' hss h2⟩

example : treeOK wRef6rot = true ∧ idsInRange wRef6rot = true ∧ hypOK wRef6 [wBoot6] = true := by decide

/-- All of it together: `Pres t t'` — any sequence of root moves onto inner
    children (a `Reroot`), reorderings of children, unrooting and rooting — yields a
    well-formed tree on the same taxa with the same set of splits. -/
theorem presentation_closure (t t' : T) (h : Pres t t') (ht : treeOK t = true) :
    treeOK t' = true ∧ sameTaxa t t' = true ∧ splitsEquiv t.tipNames t t' = true :=
  pres_ok h ht

/-- `order/rooting/child-order independence`, bootstrap side: a tree of the
    collection may be re-presented at will. -/
theorem represent_bootstrap_tree (r b b' : T) (bs : List T) (h : hypOK r (b :: bs) = true)
    (hid : idsInRange r = true) (hp : Pres b b') :
    fbp r (b :: bs) = fbp r (b' :: bs) ∧ tbe r (b :: bs) = tbe r (b' :: bs) := by
  obtain ⟨_, _, hb⟩ := hypOK_facts h
  obtain ⟨m1, m2, m3⟩ := pres_ok hp (hb b (List.mem_cons_self ..)).1
  exact replace_bootstrap_tree r b b' bs h hid m1 m2 m3

/-- … reference side: every non-trivial branch keeps its two supports on the branch
    of the re-presented reference that defines the same split. -/
theorem represent_reference (r r' : T) (bs : List T) (h : hypOK r bs = true) (hp : Pres r r')
    (hid : idsInRange r = true) (hid' : idsInRange r' = true) :
    ∀ s ∈ r.splits, 2 ≤ depth r.tipNames s.below →
      ∃ s' ∈ r'.splits, sameSplit r.tipNames s.below s'.below = true ∧
        fbpOf r bs s = fbpOf r' bs s' ∧ tbeOf r bs s = tbeOf r' bs s' := by
  obtain ⟨hr, _, _⟩ := hypOK_facts h
  obtain ⟨m1, m2, m3⟩ := pres_ok hp hr
  exact reroot_or_rotate_reference r r' bs h m1 m2 m3 hid hid'

example : Pres wRef6 wRef6rot := Pres.rot _ _ wRef6_rot
example : Pres wRef (unrootOp wRef) := Pres.unroot _ _ _ _ _ _ _ _ (by simp)

/-! ## what else happens to the reference: names blanked, supports written back -/

/-- Both functions blank the name of every internal node (`blankNames`); that changes
    neither the split list nor the tips, and the two functions see the reference through
    those only: a reference with internal names (or already annotated) is treated as the bare one. -/
theorem names_irrelevant (r : T) (bs : List T) :
    (blankNames r).splits = r.splits ∧ (blankNames r).tipNames = r.tipNames ∧
    fbp (blankNames r) bs = fbp r bs ∧ tbe (blankNames r) bs = tbe r bs := by
  obtain ⟨h1, h2⟩ := blankNames_same r
  exact ⟨h1, h2, fbp_congr h1 h2 bs, tbe_congr h1 h2 bs⟩

/-- The tree the functions leave (`annotated r sups`: names blanked, `sups` written on the
    branches in `Edges()` order — compared literally with the implementation's α dump as a
    fidelity figure) has the branches of `r` and carries exactly the supports of the theorems above. -/
theorem annotated_tree (r : T) (bs : List T) (h : hypOK r bs = true) (hid : idsInRange r = true) :
    ∃ f t, fbp r bs = .ok f ∧ tbe r bs = .ok t ∧
      (annotated r f).splits.map (·.e.sup) = r.splits.map (fbpOf r bs) ∧
      (annotated r t).splits.map (·.e.sup) = r.splits.map (tbeOf r bs) ∧
      (annotated r f).splits.map (fun s => (s.below, s.tip)) = r.splits.map (fun s => (s.below, s.tip)) := by
  refine ⟨_, _, fbp_eq_expected r bs h, tbe_eq_expected r bs h hid, ?_, ?_, ?_⟩
  · exact (annotated_spec r _ (by simp [fbpExpected])).1
  · exact (annotated_spec r _ (by simp [tbeExpected])).1
  · exact (annotated_spec r _ (by simp [fbpExpected])).2

/-! ## the `--moved-taxa` / `--per-branches` / `--out-raw` mode -/

/-- With the log options `TBE` calls `MinTransferDist(…, absent = false)`: a full traversal that
    also keeps every closest branch (`minTransferFull`, from which the model of the moved-taxa
    and per-branch tables is computed and compared with the implementation's log).  Its distance
    is the one of the plain traversal, hence — `mtd_correct` — the least transfer distance. -/
theorem log_mode_distance (r b : T) (s : SplitE) (hr : treeOK r = true) (hb : treeOK b = true)
    (hT : sameTaxa r b = true) (hs : s ∈ r.splits) (hp : 1 < topoDepth (ntips r) s) :
    (minTransferFull (lightOf (ntips r) s) (topoDepth (ntips r) s) (ntips r) b).1 =
      ((minTransfer (lightSide r.tipNames s.below) (ntips r) b : Nat) : Int) := by
  obtain ⟨_, _, hroot, _⟩ := treeOK_facts b hb
  rw [minTransferFull_dist _ _ _ b (by omega) hroot]
  exact minTransferDist_eq_minTransfer r b s false hr hb hT hs hp (by intro h; cases h)

/-! ## command-line glue -/

/-- `gotree compute support fbp|tbe -i ref -b boots` on files without unterminated text, the
    bootstrap file holding at least one tree: the reference is the FIRST tree of its file
    (later trees and blank lines are ignored), the collection is every tree of the bootstrap
    file in order (blank lines ignored; every tree of a line holding several — `treeLine`, since 3850fd2), and the result is the library function on those. -/
theorem cli_reads_files (f : T → List T → Out (List Rat)) (refFile bootFile : List (Item T))
    (hr : noJunk refFile = true) (hb : noJunk bootFile = true) (hne : treesOf bootFile ≠ []) :
    cliRun f refFile bootFile =
      match (treesOf refFile).head? with
      | none => .err
      | some r => f r (treesOf bootFile) := by
  unfold cliRun cliStream
  rw [cliReference_first refFile hr,
    cliStreamGo_clean bootFile 0 hb (by simpa using List.length_pos_iff.2 hne)]
  cases (treesOf refFile).head? with
  | none => rfl
  | some r =>
    have h1 : ((treesOf bootFile).map some).any Option.isNone = false := by
      rw [List.any_eq_false]; intro x hx
      obtain ⟨a, _, rfl⟩ := List.mem_map.1 hx
      simp
    have h2 : ((treesOf bootFile).map some).filterMap id = treesOf bootFile := by
      rw [List.filterMap_map]; simp
    simp only [h1, Bool.false_eq_true, if_false, h2]

/-- A bootstrap file without any tree (empty, or blank lines only) is an error, not a
    division by zero: the reader sends one erroneous item. -/
theorem cli_no_bootstrap_tree_err (f : T → List T → Out (List Rat)) (refFile bootFile : List (Item T))
    (hb : treesOf bootFile = []) (hj : noJunk bootFile = true) : cliRun f refFile bootFile = .err := by
  have hs : ∀ (items : List (Item T)), treesOf items = [] → noJunk items = true →
      cliStreamGo items false 0 = [none] := by
    intro items
    induction items with
    | nil => intro _ _; rfl
    | cons x r ih =>
      intro h1 h2
      cases x with
      | tree a => simp [treesOf] at h1
      | treePlus a => simp [treesOf] at h1
      | treeLine as =>
        cases as with
        | nil => simp only [cliStreamGo]; exact ih (by simpa [treesOf] using h1) (by simpa [noJunk] using h2)
        | cons a as' => simp [treesOf] at h1
      | blank => simp only [cliStreamGo]; exact ih (by simpa [treesOf] using h1) (by simpa [noJunk] using h2)
      | junk => simp [noJunk] at h2
  unfold cliRun cliStream
  rw [hs bootFile hb hj]
  cases cliReference refFile <;> rfl

example : cliRun fbp [.blank, .tree wRef, .tree wBoot] [.blank, .tree wBoot, .blank, .tree wBoot2, .blank] =
    fbp wRef [wBoot, wBoot2] := rfl

/-! ## bridge to C05: the Go operations themselves -/

/-- What C05 proves of `Reroot`, `UnRoot`, `RotateInternalNodes`, `SortNeighborsByTips` …
    (tip names, `usplits`, `tipLens` of the result are permutations of the original's) is
    exactly the hypothesis of the presentation theorems above. -/
theorem presentation_of_usplits (t u : T) (ht : treeOK t = true) (hu : treeOK u = true)
    (hall : u.tipNames.Perm t.tipNames) (h1 : u.usplits.Perm t.usplits) (h2 : u.tipLens.Perm t.tipLens) :
    sameTaxa t u = true ∧ splitsEquiv t.tipNames t u = true :=
  splitsEquiv_of_usplits t u ht hu hall h1 h2

theorem uniq_of_treeOK {t : T} (ht : treeOK t = true) : C05.uniq t = true := by
  simp only [treeOK, reinitOk, Bool.and_eq_true] at ht
  exact ht.1.1

/-- C05's model of `Tree.Reroot` (any node, any path): the re-rooted tree is another
    presentation — so by `replace_bootstrap_tree` / `reroot_or_rotate_reference` the
    supports do not depend on where the Go code re-rooted a tree. -/
theorem go_reroot_presentation (t t' : T) (p : List Nat) (ht : treeOK t = true) (ht' : treeOK t' = true)
    (hl : C05.lensOK t = true) (h : C05.reroot t p = .ok t') :
    sameTaxa t t' = true ∧ splitsEquiv t.tipNames t t' = true := by
  obtain ⟨a, b, c, _⟩ := C05.P.reroot_preserves t t' p (uniq_of_treeOK ht) hl h
  exact splitsEquiv_of_usplits t t' ht ht' a b c

/-- C05's model of `Tree.UnRoot`. -/
theorem go_unroot_presentation (t : T) (ht : treeOK t = true) (ht' : treeOK (C05.unroot t) = true)
    (hl : C05.lensOK t = true) (hs : C05.supsOK t = true) :
    sameTaxa t (C05.unroot t) = true ∧ splitsEquiv t.tipNames t (C05.unroot t) = true := by
  obtain ⟨a, b, c, _⟩ := C05.P.unroot_preserves t (uniq_of_treeOK ht) hl hs
  exact splitsEquiv_of_usplits t _ ht ht' a b c

/-- C05's model of `Tree.RotateInternalNodes` (whatever the draws). -/
theorem go_rotate_presentation (t : T) (draws : List Nat) (ht : treeOK t = true)
    (ht' : treeOK (C05.rotate t draws) = true) (hl : C05.lensOK t = true) :
    sameTaxa t (C05.rotate t draws) = true ∧ splitsEquiv t.tipNames t (C05.rotate t draws) = true := by
  obtain ⟨a, b, c, _⟩ := C05.P.rotate_preserves t draws hl
  exact splitsEquiv_of_usplits t _ ht ht' a b c

example : treeOK wRef = true ∧ treeOK (C05.unroot wRef) = true ∧ C05.lensOK wRef = true ∧
    C05.supsOK wRef = true := by decide

/-! ## the oracle the driver evaluates is what the theorems are about -/

/-- The Spec predicates that the driver evaluates on the *implementation's*
    output (`fbpOK`, `tbeOK`, `fbpLeTbeOK` of Spec/C10.lean, with their float
    tolerances) hold of the model's output: an implementation that agrees with the
    model passes the oracle, and the oracle asks for nothing the property does not state. -/
theorem oracle_accepts_model (r : T) (bs : List T) (h : hypOK r bs = true) (hid : idsInRange r = true) :
    ∃ f t, fbp r bs = .ok f ∧ tbe r bs = .ok t ∧
      fbpOK r bs f = true ∧ tbeOK r bs t = true ∧ fbpLeTbeOK r f t = true :=
  ⟨fbpExpected r bs, tbeExpected r bs, fbp_eq_expected r bs h, tbe_eq_expected r bs h hid,
    fbpOK_expected r bs h, tbeOK_expected r bs h, fbpLeTbeOK_expected r bs h⟩

/-! ## rejection -/

/-- `different_taxa_err`: a collection containing a tree on other taxa is
    rejected by both functions (since ba522d8 / 46b6f1e). -/
theorem different_taxa_err (r : T) (bs : List T) (hr : treeOK r = true)
    (hall : ∀ b ∈ bs, treeOK b = true) (hid : idsInRange r = true)
    (hbad : ∃ b ∈ bs, sameTaxa r b = false) : fbp r bs = .err ∧ tbe r bs = .err := by
  obtain ⟨b, hb, hne⟩ := hbad
  obtain ⟨hrn, _, _, _⟩ := treeOK_facts r hr
  obtain ⟨hbn, _, _, _⟩ := treeOK_facts b (hall b hb)
  have hc : compareTips r b = false := by
    cases hcc : compareTips r b with
    | false => rfl
    | true => rw [sameTaxa_of_compareTips hrn hbn hcc] at hne; cases hne
  have hrr : reinitOk r = true := by
    simp only [treeOK, Bool.and_eq_true] at hr; exact hr.1
  constructor
  · unfold fbp
    have := fbpLoop_err r bs (r.splits.map fun _ => 0) 0 ⟨b, hb, hc⟩
    generalize fbpLoop r bs (r.splits.map fun _ => 0) 0 = res at this
    obtain ⟨c, n, e⟩ := res
    simp only [] at this
    subst this
    simp [hrr]
  · unfold tbe
    rw [tbeLoop_err r hid bs _ 0 ⟨b, hb, hc⟩]
    simp [hrr]

example : treeOK wRef = true ∧ treeOK wBad = true ∧ sameTaxa wRef wBad = false := by decide

/-- A bootstrap tree that fails `CompareTipIndexes` makes FBP fail at once. -/
theorem fbp_rejects_head (r b : T) (bs : List T) (h : compareTips r b = false) :
    fbp r (b :: bs) = .err := by
  unfold fbp
  by_cases hr : reinitOk r <;> simp [hr, fbpLoop, h]

/-- The rejection clause at the command line (with `cli_reads_files`): a bootstrap file holding a tree on
    other taxa (anywhere) makes both commands fail. -/
theorem cli_rejects_other_taxa (refFile bootFile : List (Item T)) (r : T)
    (hr : noJunk refFile = true) (hb : noJunk bootFile = true)
    (href : (treesOf refFile).head? = some r) (hrOK : treeOK r = true)
    (hall : ∀ b ∈ treesOf bootFile, treeOK b = true) (hid : idsInRange r = true)
    (hbad : ∃ b ∈ treesOf bootFile, sameTaxa r b = false) :
    cliRun fbp refFile bootFile = .err ∧ cliRun tbe refFile bootFile = .err := by
  have hne : treesOf bootFile ≠ [] := by
    obtain ⟨b, hb', _⟩ := hbad
    intro e; rw [e] at hb'; cases hb'
  obtain ⟨e1, e2⟩ := different_taxa_err r (treesOf bootFile) hrOK hall hid hbad
  rw [cli_reads_files fbp refFile bootFile hr hb hne, cli_reads_files tbe refFile bootFile hr hb hne, href]
  exact ⟨e1, e2⟩

/-- Outside TBE's precondition — a reference that was never indexed: the call fails on the first
    bootstrap tree (it neither panics nor annotates nothing in silence); run as a session flavour. -/
theorem tbe_not_indexed_err (r b : T) (bs : List T) : tbeNotIndexed r (b :: bs) = .err := rfl

/-! ## the thread count -/

/-- With at least one thread the configured functions are the functions of the theorems above
    (that every schedule of the workers gives the one-worker result is C11's theorem; the code is
    run with 0, -1, 1, 2, 4 and 16 threads on every run). -/
theorem threads_positive (cpus : Int) (h : 1 ≤ cpus) (r : T) (bs : List T) :
    fbpCfg cpus r bs = fbp r bs ∧ tbeCfg cpus r bs = tbe r bs := by
  unfold fbpCfg tbeCfg atLeastOne
  have : ¬ cpus < 1 := by omega
  simp [this, h]

/-- Since 4aac0a9 a count below 1 means one thread: the configuration never matters. -/
theorem threads_any (cpus : Int) (r : T) (bs : List T) :
    fbpCfg cpus r bs = fbp r bs ∧ tbeCfg cpus r bs = tbe r bs := by
  unfold fbpCfg tbeCfg atLeastOne
  by_cases h : cpus < 1
  · simp [h]
  · have : 1 ≤ cpus := by omega
    simp [h, this]

/-- Finding C10NonPositiveThreads, repaired by 4aac0a9 — the old behaviour (`fbpCfgPinned` /
    `tbeCfgPinned`: a count ≤ 0 rejected nowhere): FBP answered `NaN` on every supported branch
    and did not even look at a tree on other taxa; TBE with 0 threads returned the reference without
    any support although the definition gives 1; with a negative count it panicked. -/
theorem threads_nonpositive_fails :
    (fbpCfgPinned 0 wRef [wBoot]).isNan = true ∧ (fbpCfgPinned 0 wRef [wBad]).isErr = false ∧
    supAt (tbeCfgPinned 0 wRef [wBoot]) 2 = some NIL ∧ supAt (tbe wRef [wBoot]) 2 = some 1 ∧
    (tbeCfgPinned (-1) wRef [wBoot]).isPanic = true ∧
    (fbpCfg 0 wRef [wBad]).isErr = true := by
  refine ⟨by decide, by decide, by decide, ?_, by decide, by decide⟩
  decide +kernel

/-! ## the facts about the source the model assumes (regenerated on every run: harness/c10/extract.go) -/

/-- The comparisons (as predicates: `Cmp.same`) and the numeric literals of `FBP`, `MinTransferDist`, `minTransferDistRecur`,
    `speciesToMoveRecursive`, `TBE`, `ReformatAvgDistance`, `NormalizeTransferDistancesByDepth`,
    `UpdateTaxaMoveArrays`, what `classical` and `booster` call (readers, `ReinitIndexes` before `TBE`,
    argument order, raw tree first), the defaults of the flags and `NIL_SUPPORT`, as extracted from the
    working tree, are the ones the model was written against (Model/C10Table.lean `expected`). -/
theorem sourceFactsCheck : Gen.C10.facts.agree expected = true := by decide +kernel

/-- The comparison rows are judged as predicates, not as text: `cpus <= 0`, `1 > cpus`, `!(cpus >= 1)`-style
    rewrites of `cpus < 1` with another spelling of the variable agree; `cpus < 2` or `cpus <= 1` do not;
    integer division truncates as in Go.  A comparison of two variables is judged up to their exchange (their
    numbering follows their spelling): a reversed `d < *dist` is left to the oracle, which every case exercises. -/
theorem cmp_rows_semantic :
    Cmp.same ⟨"<", .var 0, .lit 1, "_ < 1"⟩ ⟨"<=", .var 0, .lit 0, "_ <= 0"⟩ = true ∧
    Cmp.same ⟨"<", .var 0, .lit 1, "_ < 1"⟩ ⟨">", .lit 1, .var 0, "1 > _"⟩ = true ∧
    Cmp.same ⟨"<", .var 1, .var 0, "_ < _"⟩ ⟨">", .var 1, .var 0, "_ > _"⟩ = true ∧
    Cmp.same ⟨"<", .var 0, .lit 1, "_ < 1"⟩ ⟨"<", .var 0, .lit 2, "_ < 2"⟩ = false ∧
    Cmp.same ⟨"<", .var 0, .lit 1, "_ < 1"⟩ ⟨"<=", .var 0, .lit 1, "_ <= 1"⟩ = false ∧
    Cmp.same ⟨"<", .var 1, .var 0, "_ < _"⟩ ⟨"<=", .var 1, .var 0, "_ <= _"⟩ = false ∧
    Cmp.same ⟨">", .var 1, .div (.var 0) (.lit 2), "_ > _ / 2"⟩ ⟨">=", .var 1, .div (.var 0) (.lit 2), "_ >= _ / 2"⟩ = false ∧
    Cmp.same ⟨"!=", .var 0, .opaque "NIL_SUPPORT", "_ != NIL_SUPPORT"⟩ ⟨"==", .var 0, .opaque "NIL_SUPPORT", "_ == NIL_SUPPORT"⟩ = false := by
  decide +kernel

/-! ## TBE with its output options (Model/C10Opts.lean; op C10.logx) -/

/-- Since 833ceab the output options never change the outcome or the supports. -/
theorem options_irrelevant (avg perBranch : Bool) (r : T) (bs : List T) :
    tbeOpts avg perBranch r bs = tbe r bs := rfl

/-- F96 (before 833ceab; found by the C10.logx cases of round 7): with `--per-branches` and without
    `--moved-taxa` `TBE` panicked on every input of the property (tbe.go:281 indexed a slice that
    tbe.go:176 had not allocated) — although the supports do not depend on these options at all. -/
theorem per_branches_only_pinned_panics (r : T) (bs : List T) (h : hypOK r bs = true) :
    tbeOptsPinned false true r bs = .panic := by
  obtain ⟨hr, hne, hb⟩ := hypOK_facts h
  have hrr : reinitOk r = true := by
    simp only [treeOK, Bool.and_eq_true] at hr; exact hr.1
  cases bs with
  | nil => exact absurd rfl hne
  | cons b rest =>
    have hb' := hb b (List.mem_cons_self ..)
    have ha := accepts_of_hyp hr hb'.1 hb'.2
    simp [tbeOptsPinned, hrr, ha.1, ha.2]

/-- … on a concrete witness, with the current model's answer for the same input. -/
theorem per_branches_only_pinned_fails :
    hypOK wRef [wBoot] = true ∧ (tbeOptsPinned false true wRef [wBoot]).isPanic = true ∧
    (tbeOpts false true wRef [wBoot]).isPanic = false := by
  decide

/-- Every other combination of the options was already harmless. -/
theorem other_options_pinned (avg perBranch : Bool) (h : (perBranch && !avg) = false) (r : T) (bs : List T) :
    tbeOptsPinned avg perBranch r bs = tbe r bs := by
  simp [tbeOptsPinned, h]

/-! ## where the commands write (Model/C10Opts.lean; op C10.out) -/

/-- Whatever is given to `-o` and `-r` (a file, `stdout`, `-`, nothing), the annotated reference is
    written exactly once, the raw tree once iff `booster` was given `-r`, and never to two places. -/
theorem outputs_written_once (tbeCmd : Bool) (outSel rawSel : String) :
    let all := stdoutItems tbeCmd outSel rawSel ++ outFileItems outSel ++ rawFileItems tbeCmd rawSel
    all.count "sup" = 1 ∧ all.count "raw" = (if tbeCmd && rawSel != "none" then 1 else 0) := by
  simp only [stdoutItems, outFileItems, rawFileItems]
  by_cases ho : toStdout outSel = true <;> by_cases hr : toStdout rawSel = true <;>
    by_cases ht : tbeCmd = true <;> by_cases hn : (rawSel != "none") = true <;>
    simp [ho, hr, ht, hn]

/-- `booster` writes the raw tree before the annotated reference when both go to the standard output. -/
theorem raw_tree_first (outSel rawSel : String) (ho : toStdout outSel = true) (hr : toStdout rawSel = true)
    (hn : (rawSel != "none") = true) : stdoutItems true outSel rawSel = ["raw", "sup"] := by
  simp [stdoutItems, ho, hr, hn]

example : toStdout "-" = true ∧ toStdout "stdout" = true ∧ ("-" != "none") = true ∧ toStdout "file" = false := by decide

/-! ## the Supporter: cancellation and progress (Model/C10Cancel.lean; op C10.cancel) -/

/-- `if sup.Canceled() { break }` (fbp.go:57, tbe.go:208): a call cancelled as soon as `k` bootstrap
    trees are finished returns what the call on the first `k` trees returns — the trees that come
    later are never looked at (not even to refuse them), and what the counter of the Supporter held
    before the call (`p0`) plays no part. -/
theorem cancel_is_prefix (r : T) (bs : List T) (p0 k : Nat) :
    (fbpS r bs p0 (p0 + k)).1 = fbp r (bs.take k) ∧ (tbeS r bs p0 (p0 + k)).1 = tbe r (bs.take k) :=
  ⟨fbpS_fst r bs p0 k, tbeS_fst r bs p0 k⟩

/-- A Supporter that is not cancelled before the last tree is finished changes nothing. -/
theorem not_cancelled (r : T) (bs : List T) (p0 k : Nat) (h : bs.length ≤ k) :
    (fbpS r bs p0 (p0 + k)).1 = fbp r bs ∧ (tbeS r bs p0 (p0 + k)).1 = tbe r bs := by
  have := cancel_is_prefix r bs p0 k
  rwa [List.take_of_length_le h] at this

/-- The supports of a cancelled call are the definitions over the trees finished before the
    cancellation (with `fbp_def`, `tbe_def`). -/
theorem cancelled_supports_def (r : T) (bs : List T) (p0 k : Nat) (h : hypOK r (bs.take k) = true)
    (hid : idsInRange r = true) :
    (fbpS r bs p0 (p0 + k)).1 = .ok (r.splits.map (fbpOf r (bs.take k))) ∧
    (tbeS r bs p0 (p0 + k)).1 = .ok (r.splits.map (tbeOf r (bs.take k))) := by
  obtain ⟨h1, h2⟩ := cancel_is_prefix r bs p0 k
  rw [h1, h2]
  exact ⟨fbp_def r (bs.take k) h, tbe_def r (bs.take k) h hid⟩

example : hypOK wRef ([wBoot, wBoot2, wBad].take 2) = true ∧ idsInRange wRef = true := by decide

/-- `sup.IncrementProgress()` (fbp.go:92, tbe.go:297): after the call the counter has advanced by the
    number of trees that were finished — those before the cancellation and before the first tree
    that is refused. -/
theorem progress_counts_finished_trees (r : T) (bs : List T) (p0 k : Nat) (hr : reinitOk r = true)
    (hid : idsInRange r = true) :
    (fbpS r bs p0 (p0 + k)).2 = p0 + min k (goodPrefix r bs) ∧
    (tbeS r bs p0 (p0 + k)).2 = p0 + min k (goodPrefix r bs) :=
  ⟨fbpS_snd r bs p0 k hr, tbeS_snd r bs p0 k hr (fun b => idPanic_false r b hid)⟩

/-- … on the property's inputs: by the number of trees, or `k`. -/
theorem progress_accepted (r : T) (bs : List T) (p0 k : Nat) (h : hypOK r bs = true)
    (hid : idsInRange r = true) :
    (fbpS r bs p0 (p0 + k)).2 = p0 + min k bs.length ∧ (tbeS r bs p0 (p0 + k)).2 = p0 + min k bs.length := by
  obtain ⟨hr, _, hb⟩ := hypOK_facts h
  have hrr : reinitOk r = true := by
    simp only [treeOK, Bool.and_eq_true] at hr; exact hr.1
  have hg : ∀ (l : List T), (∀ b ∈ l, treeOK b = true ∧ sameTaxa r b = true) → goodPrefix r l = l.length := by
    intro l
    induction l with
    | nil => intro _; rfl
    | cons b l ih =>
      intro hl
      have hb' := hl b (List.mem_cons_self ..)
      have ha := accepts_of_hyp hr hb'.1 hb'.2
      simp only [goodPrefix, ha.1, ha.2, Bool.and_self, if_true, List.length_cons]
      rw [ih (fun x hx => hl x (List.mem_cons_of_mem _ hx))]
  have := progress_counts_finished_trees r bs p0 k hrr hid
  rwa [hg bs hb] at this

example : hypOK wRef [wBoot, wBoot2] = true ∧ idsInRange wRef = true ∧ reinitOk wRef = true ∧
    goodPrefix wRef [wBoot, wBad, wBoot2] = 1 := by decide

/-! ## the repaired defects: the old behaviour, on concrete witnesses -/

/-- F14 (before ba522d8): FBP used a bootstrap tree on other taxa silently;
    the current model rejects it. -/
theorem fbp_pinned14_fails :
    sameTaxa wRef wBad = false ∧ (fbpPinned14 wRef [wBad]).isErr = false ∧ (fbp wRef [wBad]).isErr = true := by
  decide

/-- … and for all inputs: the old FBP never reported an error once the reference
    itself was indexable. -/
theorem fbp_pinned14_never_rejects (r : T) (bs : List T) (hr : reinitOk r = true) :
    (fbpPinned14 r bs).isErr = false := by
  unfold fbpPinned14
  have := fbpLoopPinned14_noerr r bs (r.splits.map fun _ => 0) 0
  generalize fbpLoopPinned14 r bs (r.splits.map fun _ => 0) 0 = res at this
  obtain ⟨c, n, e⟩ := res
  simp only [] at this
  subst this
  simp only [hr, Bool.not_true, Bool.false_eq_true, if_false]
  split <;> rfl

/-- F15 (before 46b6f1e): TBE lost the error unless the offending tree was the last. -/
theorem tbe_pinned15_fails :
    sameTaxa wRef wBad = false ∧ (tbePinned15 wRef [wBad, wBoot]).isErr = false ∧
    (tbe wRef [wBad, wBoot]).isErr = true := by
  decide

/-- … and for all inputs: the old TBE reported the mismatch only of the last tree. -/
theorem tbe_pinned15_only_last (r : T) (bs : List T) (hr : reinitOk r = true) :
    (tbePinned15 r bs).isErr =
      match bs.getLast? with
      | none => false
      | some b => !compareTips r b := by
  unfold tbePinned15
  have := tbeLoopPinned15_err r bs (r.splits.map fun _ => NIL) 0 false
  generalize tbeLoopPinned15 r bs (r.splits.map fun _ => NIL) 0 false = res at this
  obtain ⟨c, n, e⟩ := res
  simp only [] at this
  subst this
  simp only [hr, Bool.not_true, Bool.false_eq_true, if_false]
  cases hl : bs.getLast? with
  | none => rfl
  | some b => cases hc : compareTips r b <;> simp [hc, Out.isErr]

/-- F35 (before 227a97a): the root branch that is the twin of a tip branch got
    support 0 from an unrooted bootstrap tree; now it gets none, like the tip. -/
theorem fbp_pinned35_fails :
    depth wRef.tipNames ["b", "c", "d"] = 1 ∧
    supAt (fbpPinned35 wRef [wBoot]) 1 = some 0 ∧ supAt (fbp wRef [wBoot]) 1 = some NIL := by
  refine ⟨by decide, ?_, by decide⟩
  have h : supAt (fbpPinned35 wRef [wBoot]) 1 = some (((0 : Nat) : Rat) / ((1 : Nat) : Rat)) := by rfl
  rw [h, zero_div_one]

end Gotree.C10
