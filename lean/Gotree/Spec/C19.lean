/-
  C19 — what the property means, on the table of registered flags and on end-to-end runs.

  "For every command, leaving an option out has the same effect as passing the default value shown
   in its help text: the documented default is the value the command actually uses.  Registering
   the options of one command never changes the behaviour of another command."

  Documented default = `pflag.Flag.DefValue` (the text pflag prints as "(default …)"; for the zero
  values pflag prints nothing, the documented default is then the zero value, which is also what
  `DefValue` holds).  Value actually used when the option is omitted = what the bound variable
  holds once every `init()` has run = `Value.String()` before any parsing (`current`).
-/
import Gotree.Model.C19

namespace Gotree.C19

/-- the documented default of this flag is the value its command reads when the option is omitted -/
def rowOK (r : Row) : Bool := r.current == r.default

/-- every other flag bound to the same variable documents the same default -/
def peersOK (r : Row) (peers : List Row) : Bool :=
  peers.all fun p => p.var != r.var || p.default == r.default

def defaultsUsed (t : List Row) : Bool := t.all rowOK

def sharedAgree (t : List Row) : Bool := t.all fun r => peersOK r t

def commands (t : List Row) : List String := (t.map (·.path)).eraseDups

/-- the value flag `r` reads when omitted, given that exactly the registrations `t` ran (in this
    order): the default of the last registration of its variable -/
def readBy (t : List Row) (r : Row) : Option String :=
  (t.reverse.find? (fun s => s.var == r.var)).map (·.default)

/-- registering the options of command `c` changes what no flag of another command reads -/
def isolatedFrom (t : List Row) (c : String) : Bool :=
  t.all fun r => r.path == c || readBy (t.filter fun s => s.path != c) r == readBy t r

def isolated (t : List Row) : Bool := (commands t).all (isolatedFrom t)

/-! ### commands that read an option variable without binding it

  The body of a command may read a package variable that only *other* commands bind to a flag
  (`labels` writes to `outtreefile`, which it has no option for).  What it finds there is the
  default of the last registration of that variable — or the Go zero value if no linked command
  registers it. -/

/-- Go zero value of a flag type, as pflag prints it -/
def zeroOf (typ : String) : String :=
  match typ with
  | "bool" => "false"
  | "string" => ""
  | "duration" => "0s"
  | "stringSlice" | "intSlice" | "stringArray" => "[]"
  | _ => "0"

/-- what a reader of variable `v` finds when exactly the registrations `t` ran -/
def seenBy (t : List Row) (v : Nat) (typ : String) : String :=
  ((t.reverse.find? (fun s => s.var == v)).map (·.default)).getD (zeroOf typ)

/-- `registrars`: all the rows bound to one variable; `reader`: a command that reads the variable
    without binding it.  Leaving out the registrations of any one other command does not change
    what the reader finds. -/
def readIsolated (registrars : List Row) (reader : String) : Bool :=
  match registrars with
  | [] => true
  | r0 :: _ => (commands registrars).all fun c =>
      c == reader || seenBy (registrars.filter fun s => s.path != c) r0.var r0.typ == seenBy registrars r0.var r0.typ

/-! ### two options of ONE command writing the same variable (aliases)

  `q` is visible to the command of `r` when it is a flag of that command or a persistent flag of
  an ancestor.  If two different flags visible to one command are bound to one variable, then the
  documented default of one of them, given AFTER a non-default value of the other, overrides it:
  leaving the option out is then not the same as passing its documented default.  (The starred
  theorems exclude this region by their hypothesis `hpre`.) -/

def visibleTo (path : String) (q : Row) : Bool :=
  q.path == path || (q.persistent && q.path != path && (path ++ " ").startsWith (q.path ++ " "))

/-- the flags of ANOTHER NAME that the command of `r` can be given and that write the variable of `r`
    (an inherited flag of the same name is hidden by `r`, not an alias of it: cf. `hides`) -/
def aliasesOf (t : List Row) (r : Row) : List Row :=
  t.filter fun q => q.var == r.var && visibleTo r.path q && q.flag != r.flag

/-- no command sees two flags on one variable — except the (command, flag) pairs of `except` -/
def noAliasInCommandExcept (except : List (String × String)) (t : List Row) : Bool :=
  t.all fun r => except.contains (r.path, r.flag) || (aliasesOf t r).isEmpty

def noAliasInCommand (t : List Row) : Bool := noAliasInCommandExcept [] t

/-- the whole property on a table -/
def tableOK (t : List Row) : Bool := defaultsUsed t && sharedAgree t && isolated t

/-- a numeric / boolean default claimed by the free text of the help sentence ("" = none) agrees
    with the default pflag prints -/
def usageOK (r : Row) (claimed : String) : Bool := claimed == "" || claimed == r.default

/-- a flag that hides an inherited (persistent, ancestor's) flag of the same name documents the same
    default.  Needed with cobra 1.5.0 (the pinned dependency): `LocalFlags()` leaves out every flag
    whose name also exists among the ancestors' persistent flags and `InheritedFlags()` prints the
    ancestor's line, so the help of the sub-command shows the *ancestor's* default for that name
    while the command line sets, and the command reads, the hiding flag's variable.  (Observed
    directly on the built binary by `helpOK`; this predicate is the same fact read off the table.) -/
def shadowOK (r : Row) (shadowed : List Row) : Bool := shadowed.all fun q => q.default == r.default

/-- `q` is an inherited (persistent, proper ancestor's) flag that `r` hides for its command -/
def hides (r q : Row) : Bool :=
  q.persistent && q.flag == r.flag && q.path != r.path && (r.path ++ " ").startsWith (q.path ++ " ")

/-- the hidden pairs that document different defaults -/
def shadowConflicts (t : List Row) : List (Row × Row) :=
  t.flatMap fun r => (t.filter fun q => hides r q && q.default != r.default).map fun q => (r, q)

/-- table-level form of `shadowOK`, with the (command, flag) pairs of `except` left out -/
def shadowAgreeExcept (except : List (String × String)) (t : List Row) : Bool :=
  t.all fun r => except.contains (r.path, r.flag) || t.all fun q => !(hides r q) || q.default == r.default

def shadowAgree (t : List Row) : Bool := shadowAgreeExcept [] t

/-! ### what `--help` prints (spf13/pflag `FlagUsagesWrapped`) -/

/-- pflag `defaultIsZeroValue` for the value types gotree uses: nothing is printed for these -/
def isZeroDefault (typ v : String) : Bool :=
  match typ with
  | "bool" => v == "false"
  | "string" => v == ""
  | "duration" => v == "0" || v == "0s"
  | "stringSlice" | "intSlice" | "stringArray" => v == "[]"
  | _ => v == "0"

/-- Go `%q` of a string without control characters -/
def goQuote (s : String) : String :=
  "\"" ++ String.join (s.toList.map fun c => if c == '"' then "\\\"" else if c == '\\' then "\\\\" else c.toString) ++ "\""

/-- the suffix pflag appends to the help sentence of a flag whose default is `v` -/
def shownDefault (typ v : String) : String :=
  if isZeroDefault typ v then "" else
  if typ == "string" then " (default " ++ goQuote v ++ ")" else " (default " ++ v ++ ")"

def noWS (s : String) : String := String.ofList (s.toList.filter fun c => !c.isWhitespace)

def isFlagLine (l : String) : Bool := (noWS l).startsWith "-"

def trimLeft (s : String) : String := String.ofList (s.toList.dropWhile Char.isWhitespace)

/-- does this line of a flag section introduce `--flag`?  pflag prints `  -s, --flag type   sentence`
    or `      --flag type   sentence` -/
def introduces (flag l : String) : Bool :=
  let t := (trimLeft l).toList
  let t := match t with
    | '-' :: c :: ',' :: ' ' :: rest => if c != '-' then rest else t
    | _ => t
  let t := String.ofList t
  t == "--" ++ flag || t.startsWith ("--" ++ flag ++ " ")

/-- the lines of the help text that describe `--flag`: inside the flag sections ("Flags:" /
    "Global Flags:", printed after the free description), from the line that introduces the flag
    to the line before the next flag (a help sentence may span several lines) -/
def helpBlock (help flag : String) : Option String :=
  let lines := help.splitOn "\n"
  let sections := lines.dropWhile fun l => !(noWS l == "Flags:" || noWS l == "GlobalFlags:")
  match sections.dropWhile (fun l => !(introduces flag l)) with
  | [] => none
  | l :: rest => some ("\n".intercalate (l :: rest.takeWhile fun m => !(isFlagLine m) && noWS m != ""))

/-- the help text of the command shows, for this flag, a help sentence (its own, or that of the
    inherited flag of the same name it stands for — cobra lists the ancestor's) followed by exactly
    the default the bound variable currently holds (nothing for a zero value): "the default value
    shown in its help text is the value the command actually uses", read off the built binary -/
def helpOK (help flag typ current : String) (usages : List String) : Bool :=
  match helpBlock help flag with
  | none => false
  | some b => usages.any fun u => (noWS b).endsWith (noWS (u ++ shownDefault typ current))

/-- end to end: every template is a valid invocation, so with all the options it does not give
    left at their documented defaults the command succeeds (the symptom of F24 was
    `gotree compute consensus -i f` failing) -/
def runsOK (omitted : String) : Bool := omitted.startsWith "exit=0\n"

/-- end to end: an invocation that differs from another one only by options given non-default
    values succeeds and gives another outcome — the command really reads what the option sets.
    (Without it "omitted = explicit default" also holds for a command that ignores the option and
    uses some other value than the documented one.)  This is NOT a clause of the property — the
    property does not say that options have an effect — but the assumption under which the parse
    model (`setFlag`/`reads`) speaks about a command; the driver reports its failure as a broken
    tie (TIE), not as a violation. -/
def effectOK (withOptions base : String) : Bool := runsOK withOptions && runsOK base && withOptions != base

/-- end to end: the observable outcome (exit class, stdout, files written) with the option omitted
    is the outcome with `--flag=<documented default>` -/
def e2eOK (omitted explicit : String) : Bool := omitted == explicit

end Gotree.C19
