/-
  C09 — the rows selected with a threshold ≥ 1/2 satisfy `selOK`:
  two bipartitions each in more than half of the trees share a tree (pigeonhole),
  the clades of one tree are nested or disjoint (laminar), hence compatible.
-/
import Gotree.Lemmas.C09Final

namespace Gotree.C09
open Gotree

/-! ## structure of one tree -/

/-- the clades of a tree with unique leaves are nested or disjoint -/
def Laminar (a b : List String) : Prop := SubS a b ∨ SubS b a ∨ (∀ x ∈ a, ¬ x ∈ b)

mutual
theorem laminar_T : ∀ t : T, t.leaves.Nodup → ∀ s1 ∈ t.splitsBelow, ∀ s2 ∈ t.splitsBelow, Laminar s1.below s2.below
  | .node d p [] => by simp [T.splitsBelow, splitsL]
  | .node d p (k :: ks) => fun hnd => laminar_L (k :: ks) hnd
theorem laminar_L : ∀ k : Kids, (leavesL k).Nodup → ∀ s1 ∈ splitsL k, ∀ s2 ∈ splitsL k, Laminar s1.below s2.below
  | [] => by simp [splitsL]
  | (e, t) :: r => by
    intro hnd s1 hs1 s2 hs2
    rw [leavesL_cons] at hnd
    have hnd' := List.nodup_append.1 hnd
    rw [splitsL_cons] at hs1 hs2
    have inBlk : ∀ s ∈ blk (e, t), SubS s.below t.leaves := by
      intro s hs
      unfold blk at hs
      rcases List.mem_cons.1 hs with rfl | hs
      · exact fun a h => h
      · exact (below_sublist_T t s hs).subset
    have inR : ∀ s ∈ splitsL r, SubS s.below (leavesL r) := fun s hs => (below_sublist_L r s hs).subset
    rcases List.mem_append.1 hs1 with h1 | h1 <;> rcases List.mem_append.1 hs2 with h2 | h2
    · unfold blk at h1 h2
      rcases List.mem_cons.1 h1 with rfl | h1 <;> rcases List.mem_cons.1 h2 with rfl | h2
      · exact Or.inl fun a h => h
      · exact Or.inr (Or.inl (below_sublist_T t s2 h2).subset)
      · exact Or.inl (below_sublist_T t s1 h1).subset
      · exact laminar_T t hnd'.1 s1 h1 s2 h2
    · exact Or.inr (Or.inr fun x hx hx2 => hnd'.2.2 x (inBlk s1 h1 x hx) x (inR s2 h2 x hx2) rfl)
    · exact Or.inr (Or.inr fun x hx hx2 => hnd'.2.2 x (inBlk s2 h2 x hx2) x (inR s1 h1 x hx) rfl)
    · exact laminar_L r hnd'.2.1 s1 h1 s2 h2
end

/- sizes of the clades of a tree without single-child inner node -/
mutual
theorem sizes_T : ∀ t : T, okBelow t = true → ∀ s ∈ t.splitsBelow,
    (s.tip = true → ∃ a, s.below = [a]) ∧ (s.tip = false → 2 ≤ s.below.length)
  | .node d p [] => by simp [T.splitsBelow, splitsL]
  | .node d p (k :: ks) => by
    intro h s hs
    simp only [okBelow, Bool.and_eq_true] at h
    exact sizes_L (k :: ks) h.2 s hs
theorem sizes_L : ∀ k : Kids, okBelowL k = true → ∀ s ∈ splitsL k,
    (s.tip = true → ∃ a, s.below = [a]) ∧ (s.tip = false → 2 ≤ s.below.length)
  | [] => by simp [splitsL]
  | (e, .node d p kk) :: r => by
    intro h s hs
    simp only [okBelowL, Bool.and_eq_true] at h
    rw [splitsL_cons] at hs
    rcases List.mem_append.1 hs with h1 | h1
    · unfold blk at h1
      rcases List.mem_cons.1 h1 with rfl | h1
      · cases kk with
        | nil => exact ⟨fun _ => ⟨d.name, rfl⟩, fun h => by simp [T.isLeaf] at h⟩
        | cons a b =>
          refine ⟨fun h => by simp [T.isLeaf] at h, fun _ => ?_⟩
          have hl := leavesL_len (a :: b)
          have hns := h.1
          simp only [okBelow, Bool.and_eq_true, bne_iff_ne, ne_eq] at hns
          simp only [T.leaves]
          simp only [List.length_cons] at hl hns
          omega
      · exact sizes_T (.node d p kk) h.1 s h1
    · exact sizes_L r h.2 s h1
end

/-- below a root of degree ≥ 3 every clade misses at least two leaves -/
theorem clade_small (k : Kids) (h3 : 3 ≤ k.length) : ∀ s ∈ splitsL k, s.below.length + 2 ≤ (leavesL k).length := by
  intro s hs
  obtain ⟨et, het, hse⟩ := mem_splitsL.1 hs
  obtain ⟨a, b, rfl⟩ := List.append_of_mem het
  have hsub : s.below.length ≤ et.2.leaves.length := by
    unfold blk at hse
    rcases List.mem_cons.1 hse with rfl | hse
    · exact Nat.le_refl _
    · exact (below_sublist_T et.2 s hse).length_le
  have ha := leavesL_len a
  have hb := leavesL_len b
  rw [leavesL_append, leavesL_cons]
  simp only [List.length_append, List.length_cons] at h3 ⊢
  omega

/-! ## pigeonhole -/

theorem countP_pigeonhole {α : Type} (p q : α → Bool) : ∀ l : List α,
    l.length < l.countP p + l.countP q → ∃ x ∈ l, p x = true ∧ q x = true
  | [] => by simp
  | a :: l => by
    intro h
    by_cases hp : p a = true <;> by_cases hq : q a = true
    · exact ⟨a, by simp, hp, hq⟩
    all_goals
      have : l.length < l.countP p + l.countP q := by
        simp only [List.countP_cons, List.length_cons, hp, hq, if_true, if_false, Bool.false_eq_true] at h
        omega
      obtain ⟨x, hx, h1, h2⟩ := countP_pigeonhole p q l this
      exact ⟨x, by simp [hx], h1, h2⟩

/-! ## compatibility as a relation on sides -/

def Compat (tips X Y : List String) : Prop :=
  (∀ x ∈ X, ¬ x ∈ Y) ∨ SubS X Y ∨ SubS Y X ∨ (∀ a ∈ tips, a ∈ X ∨ a ∈ Y)

theorem Compat.symm {tips X Y : List String} (h : Compat tips X Y) : Compat tips Y X := by
  rcases h with h | h | h | h
  · exact Or.inl fun y hy hx => h y hx hy
  · exact Or.inr (Or.inr (Or.inl h))
  · exact Or.inr (Or.inl h)
  · exact Or.inr (Or.inr (Or.inr fun a ha => (h a ha).symm))

theorem Compat.of_laminar {tips X Y : List String} (h : Laminar X Y) : Compat tips X Y := by
  rcases h with h | h | h
  · exact Or.inr (Or.inl h)
  · exact Or.inr (Or.inr (Or.inl h))
  · exact Or.inl h

/-- compatibility only depends on which side of the bipartition is presented -/
theorem Compat.left {tips X P S : List String} (hX : SubS X tips) (hS : SubS S tips) (hP : SubS P tips)
    (hss : SameSide tips X P) (c : Compat tips P S) : Compat tips X S := by
  rcases hss with he | hc
  · have xp : ∀ x ∈ X, x ∈ P := fun x hx => (he x (hX x hx)).1 hx
    have px : ∀ x ∈ P, x ∈ X := fun x hx => (he x (hP x hx)).2 hx
    rcases c with h | h | h | h
    · exact Or.inl fun x hx => h x (xp x hx)
    · exact Or.inr (Or.inl fun x hx => h x (xp x hx))
    · exact Or.inr (Or.inr (Or.inl fun x hx => px x (h x hx)))
    · exact Or.inr (Or.inr (Or.inr fun a ha => (h a ha).imp (px a) id))
  · have xnp : ∀ x ∈ X, ¬ x ∈ P := fun x hx => (hc x (hX x hx)).1 hx
    have npx : ∀ x ∈ tips, ¬ x ∈ P → x ∈ X := fun x hx h => (hc x hx).2 h
    rcases c with h | h | h | h
    · exact Or.inr (Or.inr (Or.inl fun s hs => npx s (hS s hs) fun hp => h s hp hs))
    · refine Or.inr (Or.inr (Or.inr fun a ha => ?_))
      by_cases hp : a ∈ P
      · exact Or.inr (h a hp)
      · exact Or.inl (npx a ha hp)
    · exact Or.inl fun x hx hs => xnp x hx (h x hs)
    · refine Or.inr (Or.inl fun x hx => ?_)
      rcases h x (hX x hx) with h' | h'
      · exact absurd h' (xnp x hx)
      · exact h'

theorem Compat.both {tips X Y B1 B2 : List String} (hX : SubS X tips) (hY : SubS Y tips)
    (h1 : SubS B1 tips) (h2 : SubS B2 tips) (sx : SameSide tips X B1) (sy : SameSide tips Y B2)
    (c : Compat tips B1 B2) : Compat tips X Y :=
  (Compat.left hY hX h2 sy (Compat.left hX h2 h1 sx c).symm).symm

/-! ## keys, sides and names -/

theorem sortN_perm : ∀ l : List String, (sortN l).Perm l := by
  have hins : ∀ (a : String) (l : List String), (insertS a l).Perm (a :: l) := by
    intro a l
    induction l with
    | nil => exact List.Perm.refl _
    | cons b r ih =>
      unfold insertS
      split
      · exact List.Perm.refl _
      · exact (List.Perm.cons b ih).trans (List.Perm.swap a b r)
  intro l
  induction l with
  | nil => exact List.Perm.refl _
  | cons a l ih =>
    show (insertS a (sortN l)).Perm (a :: l)
    exact (hins a _).trans (List.Perm.cons a ih)

theorem isKey_eq_filter {all k : List String} (h : IsKey all k) : k = all.filter k.contains := by
  have h' := h.symm
  unfold compl at h'
  rw [h']
  apply List.filter_congr
  intro x hx
  rw [contains_filter_of_mem _ hx, contains_filter_of_mem _ hx, contains_filter_of_mem _ hx]

theorem mem_bits {all b : List String} {a : String} : a ∈ bits all b ↔ a ∈ all ∧ a ∈ b := by
  unfold bits; simp [List.mem_filter]

theorem mem_compl {all b : List String} {a : String} : a ∈ compl all b ↔ a ∈ all ∧ ¬ a ∈ b := by
  unfold compl; simp [List.mem_filter]

/-- the names of a row are a side of every branch that has the row's bipartition -/
theorem names_sameSide {univ tips key b : List String} (hut : ∀ a, a ∈ univ ↔ a ∈ tips)
    (h : Eqc univ key (bits univ b)) : SameSide tips (tips.filter key.contains) b := by
  rcases h with h | h
  · left
    intro a ha
    rw [List.mem_filter, h]
    simp only [List.contains_eq_mem, decide_eq_true_eq, mem_bits, hut]
    exact ⟨fun ⟨_, _, h3⟩ => h3, fun h3 => ⟨ha, ha, h3⟩⟩
  · right
    intro a ha
    rw [List.mem_filter, h]
    simp only [List.contains_eq_mem, decide_eq_true_eq, mem_compl, mem_bits, hut]
    exact ⟨fun ⟨_, _, h3⟩ hb => h3 ⟨ha, hb⟩, fun h3 => ⟨ha, ha, fun ⟨_, hb⟩ => h3 hb⟩⟩

/-- two rows with the same names, or complementary names, have the same bipartition -/
theorem eqc_of_names {univ tips k1 k2 : List String} (hut : ∀ a, a ∈ univ ↔ a ∈ tips)
    (h1 : IsKey univ k1) (h2 : IsKey univ k2)
    (h : (SubS (tips.filter k1.contains) (tips.filter k2.contains) ∧
          SubS (tips.filter k2.contains) (tips.filter k1.contains)) ∨
         ((∀ x ∈ tips.filter k1.contains, ¬ x ∈ tips.filter k2.contains) ∧
          (∀ a ∈ tips, a ∈ tips.filter k1.contains ∨ a ∈ tips.filter k2.contains))) :
    Eqc univ k1 k2 := by
  have m : ∀ (k : List String) (a : String), a ∈ univ → (a ∈ tips.filter k.contains ↔ a ∈ k) := by
    intro k a ha
    rw [List.mem_filter]
    simp only [List.contains_eq_mem, decide_eq_true_eq]
    exact ⟨fun h => h.2, fun h => ⟨(hut a).1 ha, h⟩⟩
  rcases h with ⟨s1, s2⟩ | ⟨d, c⟩
  · left
    rw [isKey_eq_filter h1, isKey_eq_filter h2]
    apply List.filter_congr
    intro a ha
    rw [Bool.eq_iff_iff]
    simp only [List.contains_eq_mem, decide_eq_true_eq]
    exact ⟨fun h => (m k2 a ha).1 (s1 a ((m k1 a ha).2 h)), fun h => (m k1 a ha).1 (s2 a ((m k2 a ha).2 h))⟩
  · right
    rw [isKey_eq_filter h1]
    unfold compl
    apply List.filter_congr
    intro a ha
    rw [Bool.eq_iff_iff]
    simp only [List.contains_eq_mem, decide_eq_true_eq, Bool.not_eq_true', decide_eq_false_iff_not]
    constructor
    · intro h hk2
      exact d a ((m k1 a ha).2 h) ((m k2 a ha).2 hk2)
    · intro hk2
      rcases c a ((hut a).1 ha) with h | h
      · exact (m k1 a ha).1 h
      · exact absurd ((m k2 a ha).1 h) hk2

/-! ## from pairwise facts to the Bool hypothesis -/

theorem build_selOK (tips alltips : List String) (P : Entry → Entry → Prop) : ∀ (sel : List Entry),
    sel.Pairwise P →
    (∀ x ∈ sel, ∀ y ∈ sel, P x y → rowNames alltips x ≠ rowNames alltips y) →
    (∀ x ∈ sel, ∀ y ∈ sel, P x y → 2 ≤ (rowNames alltips x).length → 2 ≤ (rowNames alltips y).length →
      pairOK tips (rowNames alltips x) (rowNames alltips y) = true) →
    nodupB (sel.map (rowNames alltips)) = true ∧
    allPairsOK tips ((sel.map (rowNames alltips)).filter (fun s => decide (2 ≤ s.length))) = true
  | [], _, _, _ => by simp [nodupB, allPairsOK]
  | x :: sel, hpw, hne, hpair => by
    rw [List.pairwise_cons] at hpw
    obtain ⟨i1, i2⟩ := build_selOK tips alltips P sel hpw.2
      (fun a ha b hb => hne a (by simp [ha]) b (by simp [hb]))
      (fun a ha b hb => hpair a (by simp [ha]) b (by simp [hb]))
    constructor
    · simp only [List.map_cons, nodupB, Bool.and_eq_true, Bool.not_eq_true', List.contains_eq_mem,
        decide_eq_false_iff_not]
      refine ⟨?_, i1⟩
      intro hmem
      obtain ⟨y, hy, hyx⟩ := List.mem_map.1 hmem
      exact hne x (by simp) y (by simp [hy]) (hpw.1 y hy) hyx.symm
    · simp only [List.map_cons, List.filter_cons]
      split
      · rename_i hx2
        simp only [allPairsOK, Bool.and_eq_true, List.all_eq_true]
        refine ⟨?_, i2⟩
        intro nm hnm
        obtain ⟨hnm1, hnm2⟩ := List.mem_filter.1 hnm
        obtain ⟨y, hy, rfl⟩ := List.mem_map.1 hnm1
        exact hpair x (by simp) y (by simp [hy]) (hpw.1 y hy) (by simpa using hx2) (by simpa using hnm2)
      · exact i2

/-! ## the hypotheses on the collection -/

/-- The trees of the property's domain, as the counting loop sees them (after
    `norm`): a root of degree ≥ 3, no single-child inner node, unique leaves,
    the same leaves as the first tree. -/
structure Dom (ts : List T) : Prop where
  ne : ts ≠ []
  deg : ∀ u ∈ trees ts, 3 ≤ u.kids.length
  nosingle : ∀ u ∈ trees ts, okBelowL u.kids = true
  nodup : ∀ u ∈ trees ts, (leavesL u.kids).Nodup
  same : ∀ u ∈ trees ts, (leavesL u.kids).Perm (leavesL (norm ts.head!).kids)
  norepeat : noRepeat ts = true

theorem two_count (c : Rat) (hc : 1/2 ≤ c) (n k : Nat) (h : floorCut c n < k) : n < 2 * k := by
  have hc0 : (0 : Rat) ≤ c := Rat.le_trans (by decide +kernel) hc
  rw [floorCut_lt_iff c n k hc0] at h
  apply Classical.byContradiction
  intro hn
  have h3 : 2 * k ≤ n := by omega
  have h3' : (2 : Rat) * (k : Rat) ≤ (n : Rat) := by exact_mod_cast h3
  have h1 : (1/2 : Rat) * (n : Rat) ≤ c * (n : Rat) :=
    Rat.mul_le_mul_of_nonneg_right hc (by exact_mod_cast Nat.zero_le n)
  grind

theorem mem_edgeKeys {univ : List String} {u : T} {kl : KL} (h : kl ∈ edgeKeys univ u) :
    ∃ s ∈ splitsL u.kids, kl = (bits univ s.below, s.e.len) := by
  unfold edgeKeys T.splits at h
  obtain ⟨s, hs, rfl⟩ := List.mem_map.1 h
  exact ⟨s, hs, rfl⟩

/-- With a threshold ≥ 1/2, the rows selected from a collection of the domain
    satisfy `selOK`. -/
theorem selOK_of_dom (ord : List Entry → List Entry) (hord : ∀ l, (ord l).Perm l) (ts : List T) (c : Rat)
    (hc : 1/2 ≤ c ∧ c ≤ 1) (hd : Dom ts) :
    selOK (leavesL (norm ts.head!).kids) (leavesL (norm ts.head!).kids) (selected ord ts c) = true := by
  obtain ⟨t0, r, rfl⟩ : ∃ t0 r, ts = t0 :: r := by
    cases ts with
    | nil => exact absurd rfl hd.ne
    | cons a b => exact ⟨a, b, rfl⟩
  have hfirst : norm t0 ∈ trees (t0 :: r) := by simp [trees]
  show selOK (leavesL (norm t0).kids) (leavesL (norm t0).kids) (selected ord (t0 :: r) c) = true
  generalize htips : leavesL (norm t0).kids = tips
  have hT : tips.Nodup := by rw [← htips]; exact hd.nodup _ hfirst
  have hdeg0 := hd.deg _ hfirst
  have hun : univOf (t0 :: r) = sortN tips := by
    show sortN (norm t0).tipNames = _
    rw [tipNames_eq_leaves _ (by omega), htips]
  generalize huniv : univOf (t0 :: r) = univ at hun
  have hut : ∀ a, a ∈ univ ↔ a ∈ tips := fun a => by rw [hun]; exact (sortN_perm tips).mem_iff
  have hsame : ∀ u ∈ trees (t0 :: r), (leavesL u.kids).Perm tips := fun u hu => by
    rw [← htips]; exact hd.same u hu
  have inv := buildIdx_inv univ (trees (t0 :: r))
  have hidx : index (t0 :: r) = buildIdx univ (trees (t0 :: r)) := by unfold index; rw [huniv]
  have hn : 0 < (t0 :: r).length := by simp
  have hnr : ∀ u ∈ trees (t0 :: r), distinctKeys univ u = true := by
    rw [← huniv]; exact noRepeat_trees _ hd.norepeat
  -- what a row is
  have rowfact : ∀ x ∈ index (t0 :: r), IsKey univ x.key ∧
      ∃ u ∈ trees (t0 :: r), ∃ s ∈ splitsL u.kids, x.key = bits univ s.below := by
    intro x hx
    rw [hidx] at hx
    refine ⟨inv.keys x hx, ?_⟩
    obtain ⟨kl, hkl, e⟩ := inv.src x hx
    obtain ⟨u, hu, hklu⟩ := List.mem_flatMap.1 hkl
    obtain ⟨s, hs, rfl⟩ := mem_edgeKeys hklu
    exact ⟨u, hu, s, hs, e⟩
  have belowSub : ∀ u ∈ trees (t0 :: r), ∀ s ∈ splitsL u.kids, SubS s.below tips ∧ s.below.Nodup := by
    intro u hu s hs
    exact ⟨fun a ha => (hsame u hu).mem_iff.1 ((below_sublist_L u.kids s hs).subset ha),
      (below_sublist_L u.kids s hs).nodup (hd.nodup u hu)⟩
  have namesSub : ∀ x : Entry, SubS (rowNames tips x) tips := fun x a ha => (List.mem_filter.1 ha).1
  have namesPerm : ∀ (x : Entry) (u : T), u ∈ trees (t0 :: r) → ∀ s ∈ splitsL u.kids, x.key = bits univ s.below →
      (rowNames tips x).Perm s.below := by
    intro x u hu s hs hk
    unfold rowNames
    rw [List.perm_ext_iff_of_nodup (hT.filter _) (belowSub u hu s hs).2]
    intro a
    rw [List.mem_filter, hk]
    simp only [List.contains_eq_mem, decide_eq_true_eq, mem_bits, hut]
    exact ⟨fun h => h.2.2, fun h => ⟨(belowSub u hu s hs).1 a h, (belowSub u hu s hs).1 a h, h⟩⟩
  have selmem : ∀ x ∈ selected ord (t0 :: r) c, x ∈ index (t0 :: r) ∧ (t0 :: r).length < 2 * x.count := by
    intro x hx
    unfold selected selectEntries at hx
    rw [List.mem_filter, (hord _).mem_iff] at hx
    refine ⟨hx.1, ?_⟩
    have hk := hx.2
    unfold keep at hk
    simp only [Bool.or_eq_true, Bool.and_eq_true, decide_eq_true_eq, beq_iff_eq] at hk
    rcases hk with ⟨h1, _⟩ | h1
    · exact two_count c hc.1 _ _ h1
    · omega
  unfold selOK
  simp only [Bool.and_eq_true, List.all_eq_true]
  -- pairwise distinct bipartitions among the selected rows
  have hpw : (selected ord (t0 :: r) c).Pairwise
      (fun x y => eqc univ x.key y.key = false ∧ eqc univ y.key x.key = false) := by
    unfold selected selectEntries
    apply List.Pairwise.filter
    have h1 : (index (t0 :: r)).Pairwise
        (fun x y => eqc univ x.key y.key = false ∧ eqc univ y.key x.key = false) := by
      rw [hidx]
      have := inv.distinct
      rw [List.pairwise_map] at this
      refine this.imp_of_mem ?_
      intro x y hx hy hxy
      exact ⟨hxy, by rw [eqc_symm_b (inv.keys y hy) (inv.keys x hx)]; exact hxy⟩
    exact ((hord _).pairwise_iff (fun h => ⟨h.2, h.1⟩)).2 h1
  have hb := build_selOK tips tips (fun x y => eqc univ x.key y.key = false ∧ eqc univ y.key x.key = false)
    (selected ord (t0 :: r) c) hpw
    (by
      intro x hx y hy hP heq
      have kx := (rowfact x (selmem x hx).1).1
      have ky := (rowfact y (selmem y hy).1).1
      have : Eqc univ x.key y.key := eqc_of_names hut kx ky (Or.inl (by
        unfold rowNames at heq; rw [heq]; exact ⟨fun a h => h, fun a h => h⟩))
      rw [← eqc_iff] at this
      rw [this] at hP
      exact absurd hP.1 (by simp))
    (by
      intro x hx y hy hP _ _
      obtain ⟨hxi, hxc⟩ := selmem x hx
      obtain ⟨hyi, hyc⟩ := selmem y hy
      have kx := (rowfact x hxi).1
      have ky := (rowfact y hyi).1
      -- a tree containing both
      have cx := (buildIdx_entry univ (trees (t0 :: r)) hnr x (by rw [← hidx]; exact hxi)).1
      have cy := (buildIdx_entry univ (trees (t0 :: r)) hnr y (by rw [← hidx]; exact hyi)).1
      have hlen : (trees (t0 :: r)).length = (t0 :: r).length := by simp [trees]
      obtain ⟨u, hu, h1, h2⟩ := countP_pigeonhole (fun u => hasSplit univ u x.key) (fun u => hasSplit univ u y.key)
        (trees (t0 :: r)) (by
          have e1 : List.countP (fun u => hasSplit univ u x.key) (trees (t0 :: r)) = x.count := cx.symm
          have e2 : List.countP (fun u => hasSplit univ u y.key) (trees (t0 :: r)) = y.count := cy.symm
          rw [e1, e2, hlen]; omega)
      unfold hasSplit at h1 h2
      rw [List.any_eq_true] at h1 h2
      obtain ⟨kl1, hkl1, e1⟩ := h1
      obtain ⟨kl2, hkl2, e2⟩ := h2
      obtain ⟨s1, hs1, rfl⟩ := mem_edgeKeys hkl1
      obtain ⟨s2, hs2, rfl⟩ := mem_edgeKeys hkl2
      have lam := laminar_L u.kids (hd.nodup u hu) s1 hs1 s2 hs2
      have sx : SameSide tips (rowNames tips x) s1.below := names_sameSide hut ((eqc_iff _ _ _).1 e1)
      have sy : SameSide tips (rowNames tips y) s2.below := names_sameSide hut ((eqc_iff _ _ _).1 e2)
      have comp := Compat.both (namesSub x) (namesSub y) (belowSub u hu s1 hs1).1 (belowSub u hu s2 hs2).1
        sx sy (Compat.of_laminar lam)
      rw [pairOK_iff]
      refine ⟨comp, ?_, ?_⟩
      · intro hh
        have : Eqc univ x.key y.key := eqc_of_names hut kx ky (Or.inl hh)
        rw [← eqc_iff] at this; rw [this] at hP; exact absurd hP.1 (by simp)
      · intro hh
        have : Eqc univ x.key y.key := eqc_of_names hut kx ky (Or.inr hh)
        rw [← eqc_iff] at this; rw [this] at hP; exact absurd hP.1 (by simp))
  refine ⟨⟨?_, hb.1⟩, hb.2⟩
  -- sizes
  intro nm hnm
  obtain ⟨x, hx, rfl⟩ := List.mem_map.1 hnm
  obtain ⟨_, u, hu, s, hs, hk⟩ := rowfact x (selmem x hx).1
  have hperm := namesPerm x u hu s hs hk
  have hsz := sizes_L u.kids (hd.nosingle u hu) s hs
  have hsm := clade_small u.kids (hd.deg u hu) s hs
  rw [(hsame u hu).length_eq] at hsm
  rw [hperm.length_eq]
  cases htip : s.tip with
  | true =>
    obtain ⟨a, ha⟩ := hsz.1 htip
    simp [ha]
  | false =>
    have := hsz.2 htip
    simp only [Bool.or_eq_true, beq_iff_eq, Bool.and_eq_true, decide_eq_true_eq]
    exact Or.inr ⟨this, hsm⟩

/-! ## the Bool form of the domain, and success of the counting loop -/

theorem perm_of_sortN_eq {a b : List String} (h : sortN a = sortN b) : a.Perm b :=
  (sortN_perm a).symm.trans (h ▸ sortN_perm b)

theorem countRest_of_dom (first : T) (alltips univ : List String) (h2 : 2 ≤ (first.splits.filter (·.tip)).length)
    (halt : alltips = leavesL first.kids) :
    ∀ (r : List T) (idx : List Entry) (n : Nat),
      (∀ t ∈ r, 3 ≤ (norm t).kids.length ∧ (leavesL (norm t).kids).Nodup ∧
        (leavesL (norm t).kids).Perm (leavesL first.kids)) →
      ∃ cn, countRest true true first alltips univ r idx n = .ok cn := by
  intro r
  induction r with
  | nil => intro idx n _; exact ⟨_, rfl⟩
  | cons t r ih =>
    intro idx n h
    obtain ⟨h3, hnd, hperm⟩ := h t (by simp)
    rw [countRest]
    have hprep : prep true true t = norm t := rfl
    have htn : (norm t).tipNames = leavesL (norm t).kids := tipNames_eq_leaves _ (by omega)
    have hat : allTipNames (norm t) = leavesL (norm t).kids := by
      rw [allTipNames_eq _ (by omega), htn]
    have h1 : dupTips (prep true true t) = false := by
      rw [hprep]; unfold dupTips; rw [htn]; exact (hasDup_false_iff _).2 hnd
    have h2' : ((allTipNames (prep true true t)).length != alltips.length) = false := by
      rw [hprep, hat, halt]; simp [hperm.length_eq]
    have h3' : (!(allTipNames (prep true true t)).all fun a => (starOf first).tipNames.contains a) = false := by
      rw [hprep, hat, starOf_tipNames first h2]
      simp only [Bool.not_eq_false', List.all_eq_true, List.contains_eq_mem, decide_eq_true_eq]
      exact fun a ha => hperm.mem_iff.1 ha
    simp only [h1, h2', h3', Bool.false_eq_true, if_false]
    exact ih _ _ (fun u hu => h u (by simp [hu]))

/-- on a collection of the domain the counting loop succeeds -/
theorem countAll_of_dom (ts : List T) (hd : Dom ts) : ∃ cn, countAll true true ts = .ok (some cn) := by
  obtain ⟨t0, r, rfl⟩ : ∃ t0 r, ts = t0 :: r := by
    cases ts with
    | nil => exact absurd rfl hd.ne
    | cons a b => exact ⟨a, b, rfl⟩
  have hfirst : norm t0 ∈ trees (t0 :: r) := by simp [trees]
  have h3 := hd.deg _ hfirst
  have hnd := hd.nodup _ hfirst
  have hprep : prep true true t0 = norm t0 := rfl
  have htn : (norm t0).tipNames = leavesL (norm t0).kids := tipNames_eq_leaves _ (by omega)
  have h2 : 2 ≤ ((norm t0).splits.filter (·.tip)).length := by
    have e := tipSplitsL (norm t0).kids
    have : ((norm t0).splits.filter (·.tip)).length = (leavesL (norm t0).kids).length := by
      rw [← e, List.length_map]; rfl
    rw [this]
    have := leavesL_len (norm t0).kids
    omega
  rw [countAll]
  have h1 : dupTips (prep true true t0) = false := by
    rw [hprep]; unfold dupTips; rw [htn]; exact (hasDup_false_iff _).2 hnd
  simp only [h1, Bool.false_eq_true, if_false]
  rw [if_neg (by rw [hprep]; omega)]
  obtain ⟨cn, hcn⟩ := countRest_of_dom (prep true true t0) (allTipNames (prep true true t0)) (sortN (prep true true t0).tipNames)
    (by rw [hprep]; exact h2)
    (by rw [hprep, allTipNames_eq _ (by omega), htn])
    r (addTree (sortN (prep true true t0).tipNames) [] (prep true true t0)) 1
    (by
      intro t ht
      have hm : norm t ∈ trees (t0 :: r) := List.mem_map.2 ⟨t, by simp [ht], rfl⟩
      refine ⟨hd.deg _ hm, hd.nodup _ hm, ?_⟩
      rw [hprep]
      exact hd.same _ hm)
  rw [hcn]
  exact ⟨cn, rfl⟩

theorem mem_innerRows {alltips : List String} {n : Nat} {sel : List Entry} {p : List String × Rat × Rat} :
    p ∈ innerRows alltips n sel ↔ ∃ x ∈ sel, 2 ≤ (rowNames alltips x).length ∧
      p = (rowNames alltips x, x.len / (x.count : Rat), (x.count : Rat) / (n : Rat)) := by
  unfold innerRows
  simp only [List.mem_map, List.mem_filter, decide_eq_true_eq]
  constructor
  · rintro ⟨x, ⟨hx, h2⟩, rfl⟩; exact ⟨x, hx, h2, rfl⟩
  · rintro ⟨x, hx, h2, rfl⟩; exact ⟨x, ⟨hx, h2⟩, rfl⟩

theorem mem_tipRows_of {alltips : List String} {sel : List Entry} {x : Entry} {a : String} (hx : x ∈ sel)
    (ha : rowNames alltips x = [a]) : (a, x.len / (x.count : Rat)) ∈ tipRows alltips sel := by
  unfold tipRows
  rw [List.mem_filterMap]
  exact ⟨x, hx, by rw [ha]⟩

end Gotree.C09
