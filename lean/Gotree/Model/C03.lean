/-
  C03 — executable model of the five enumerations of `tree/tree.go`
  (`Nodes`, `Tips`, `Edges`, `InternalEdges`, `TipEdges`), transliterated
  recursion by recursion.  Core Lean only (linked into the driver).

  Reading of a Go heap as a `T` (DESIGN §3.1, harness `core.Alpha`): for a node
  `n` reached from `prev`, `n.neigh` minus `prev` is `kids` in slice order, and
  the branches `b ∈ n.br` with `b.left == n` are exactly the branches to those
  kids (orientation away from the root).  Hence

    `len(n.neigh)`                = `kids.length + 1`  for a non-root node,
                                  = `kids.length`      for the root;
    `for _, c := range n.neigh { if c != prev {…} }`   = a loop over `kids`;
    `for _, b := range n.br { if b.left == n {…} }`    = a loop over `kids`.

  A node is named by its child-index path from the root (`Path`), a branch by
  the path of its lower (`right`) end.  Every listed item carries its path, so
  that statements about the lists are statements about node/branch *identity*,
  not only about the data they carry.
-/
import Gotree.Model.Core

namespace Gotree.C03
open Gotree

abbrev Path := List Nat

/-- a listed node: where it is, and the data it carries -/
structure NodeRef where
  path : Path
  d : NodeD
  deriving DecidableEq, Repr, BEq

/-- a listed branch: the path of its lower end, and the data it carries -/
structure EdgeRef where
  path : Path
  e : EdgeD
  deriving DecidableEq, Repr, BEq

/-- `len(n.neigh)` of a node of the heap that α reads as `t`;
    `hasParent = false` for the root -/
def nneigh (hasParent : Bool) (t : T) : Nat :=
  t.kids.length + (if hasParent then 1 else 0)

/-- Go `Node.Tip()` : `len(n.neigh) == 1` -/
def isTip (hasParent : Bool) (t : T) : Bool := nneigh hasParent t == 1

/- ### `Nodes()` / `nodesRecur`   (tree.go:196–213)

    func (t *Tree) nodesRecur(nodes *[]*Node, cur *Node, prev *Node) {
        *nodes = append((*nodes), cur)
        for _, n := range cur.neigh { if n != prev { t.nodesRecur(nodes, n, cur) } }
    }
-/
mutual
def nodesRecur : Path → T → List NodeRef
  | p, .node d _ k => ⟨p, d⟩ :: nodesLoop p 0 k
/-- the `for _, n := range cur.neigh` loop, `i` = index of the next kid -/
def nodesLoop : Path → Nat → Kids → List NodeRef
  | _, _, [] => []
  | p, i, (_, t) :: r => nodesRecur (p ++ [i]) t ++ nodesLoop p (i + 1) r
end

/-- `Tree.Nodes()` -/
def nodes (t : T) : List NodeRef := nodesRecur [] t

/- ### `Tips()` / `tipsRecur`   (tree.go:216–235)

    func (t *Tree) tipsRecur(tips *[]*Node, cur *Node, prev *Node) {
        if cur.Tip() { *tips = append((*tips), cur) }
        for _, n := range cur.neigh { if n != prev { t.tipsRecur(tips, n, cur) } }
    }
-/
mutual
def tipsRecur : Bool → Path → T → List NodeRef
  | hp, p, .node d _ k =>
    (if k.length + (if hp then 1 else 0) == 1 then [⟨p, d⟩] else []) ++ tipsLoop p 0 k
def tipsLoop : Path → Nat → Kids → List NodeRef
  | _, _, [] => []
  | p, i, (_, t) :: r => tipsRecur true (p ++ [i]) t ++ tipsLoop p (i + 1) r
end

/-- `Tree.Tips()` -/
def tips (t : T) : List NodeRef := tipsRecur false [] t

/- ### `Edges()` / `edgesRecur`   (tree.go:124–143)

    func (t *Tree) Edges() []*Edge {
        for _, e := range t.Root().br { edges = append(edges, e); t.edgesRecur(e, &edges) }
    }
    func (t *Tree) edgesRecur(edge *Edge, edges *[]*Edge) {
        if len(edge.right.neigh) > 1 {
            for _, child := range edge.right.br {
                if child.left == edge.right { *edges = append((*edges), child); t.edgesRecur(child, edges) }
            } } }

  `edgesRecur p t`: the argument branch is the one whose lower end is the node at `p`, read as `t`.
-/
mutual
def edgesRecur : Path → T → List EdgeRef
  | p, .node _ _ k => if k.length + 1 > 1 then edgesLoop p 0 k else []
/-- body of both loops (`Edges` over `Root().br`, `edgesRecur` over `edge.right.br`) -/
def edgesLoop : Path → Nat → Kids → List EdgeRef
  | _, _, [] => []
  | p, i, (e, t) :: r => ⟨p ++ [i], e⟩ :: (edgesRecur (p ++ [i]) t ++ edgesLoop p (i + 1) r)
end

/-- `Tree.Edges()` -/
def edges (t : T) : List EdgeRef := edgesLoop [] 0 t.kids

/- ### `InternalEdges()` / `internalEdgesRecur`   (tree.go:146–167, after fix eb1b1d0)

    func (t *Tree) InternalEdges() []*Edge {
        for _, e := range t.Root().br {
            if !e.Right().Tip() { edges = append(edges, e); t.internalEdgesRecur(e, &edges) } } }
    func (t *Tree) internalEdgesRecur(edge *Edge, edges *[]*Edge) {
        if len(edge.right.neigh) > 1 {
            for _, child := range edge.right.br {
                if child.left == edge.right && !child.Right().Tip() {
                    *edges = append((*edges), child); t.internalEdgesRecur(child, edges) } } } }
-/
mutual
def internalEdgesRecur : Path → T → List EdgeRef
  | p, .node _ _ k => if k.length + 1 > 1 then internalLoop p 0 k else []
def internalLoop : Path → Nat → Kids → List EdgeRef
  | _, _, [] => []
  | p, i, (e, t) :: r =>
    (if !(isTip true t) then ⟨p ++ [i], e⟩ :: internalEdgesRecur (p ++ [i]) t else []) ++
      internalLoop p (i + 1) r
end

/-- `Tree.InternalEdges()` -/
def internalEdges (t : T) : List EdgeRef := internalLoop [] 0 t.kids

/- ### `TipEdges()` / `tipEdgesRecur`   (tree.go:170–193)

    func (t *Tree) TipEdges() []*Edge {
        for _, e := range t.Root().br {
            if e.Right().Tip() { edges = append(edges, e) }
            t.tipEdgesRecur(e, &edges) } }
    func (t *Tree) tipEdgesRecur(edge *Edge, edges *[]*Edge) {
        if len(edge.right.neigh) > 1 {
            for _, child := range edge.right.br {
                if child.left == edge.right {
                    if child.Right().Tip() { *edges = append((*edges), child) }
                    t.tipEdgesRecur(child, edges) } } } }
-/
mutual
def tipEdgesRecur : Path → T → List EdgeRef
  | p, .node _ _ k => if k.length + 1 > 1 then tipEdgesLoop p 0 k else []
def tipEdgesLoop : Path → Nat → Kids → List EdgeRef
  | _, _, [] => []
  | p, i, (e, t) :: r =>
    (if isTip true t then [⟨p ++ [i], e⟩] else []) ++
      (tipEdgesRecur (p ++ [i]) t ++ tipEdgesLoop p (i + 1) r)
end

/-- `Tree.TipEdges()` -/
def tipEdges (t : T) : List EdgeRef := tipEdgesLoop [] 0 t.kids

/- ### The pinned (pre-eb1b1d0, defect F8) `InternalEdges`

  `internalEdgesRecur` recursed through `edgesRecur`: below a second-level
  internal branch every branch was listed, tip branches included. -/

/-- pinned `internalEdgesRecur`'s loop: same test, but continues with `edgesRecur` -/
def internalLoopPinnedInner : Path → Nat → Kids → List EdgeRef
  | _, _, [] => []
  | p, i, (e, t) :: r =>
    (if !(isTip true t) then ⟨p ++ [i], e⟩ :: edgesRecur (p ++ [i]) t else []) ++
      internalLoopPinnedInner p (i + 1) r

def internalEdgesRecurPinned (p : Path) (t : T) : List EdgeRef :=
  if t.kids.length + 1 > 1 then internalLoopPinnedInner p 0 t.kids else []

/-- the loop of pinned `InternalEdges()` over `Root().br` -/
def internalLoopPinnedRoot : Path → Nat → Kids → List EdgeRef
  | _, _, [] => []
  | p, i, (e, t) :: r =>
    (if !(isTip true t) then ⟨p ++ [i], e⟩ :: internalEdgesRecurPinned (p ++ [i]) t else []) ++
      internalLoopPinnedRoot p (i + 1) r

def internalEdgesPinned (t : T) : List EdgeRef := internalLoopPinnedRoot [] 0 t.kids

end Gotree.C03
