import Driver.Proto
import Gotree.Spec.C18
import Gotree.Model.C18Read

namespace Gotree.Driver.C18
open Gotree Gotree.Driver Gotree.C18

def showSite (s : Gen.C18Sites.Site) : String :=
  s.kind ++ " " ++ s.file ++ ":" ++ toString s.line ++ " (" ++ s.fn ++ ", over " ++ s.operand ++ ") key=" ++ s.key

def kv (e : List String) : String × String := (e.headD "", (e.drop 1).headD "")

def toMut (e : List String) : String × Mut :=
  let n (i : Nat) : Nat := ((e.drop i).headD "").toNat?.getD 0
  let ch (i : Nat) : Char := (((e.drop i).headD "").toList).headD '?'
  (e.headD "", ⟨n 1, n 2, (e.drop 3).headD "", ch 4, ch 5, n 6, n 7, n 8⟩)

/-- verdict of a site case.  Determinism itself is judged by the `run` cases; here only the tie
    "the model body is this loop" is at stake, so a disagreement is a TIE, never an oracle failure
    (a deterministic rewrite that emits another order must not yield a bogus failing input).
    `spec` (the map in key order, no loop) is reported as a tag. -/
def judge (tags : List String) (impl spec model : List String) (what : String) : Verdict :=
  let tags := tags ++ tagIf (impl == spec) "impl-in-key-order"
  if model != impl then ⟨.tie, tags, what ++ ": the model body run on the real map entries gives " ++ showStrList model ++
    " but the implementation produced " ++ showStrList impl⟩
  else ⟨.pass, tags, ""⟩

/-- correspondence of the site models with the real code (entries = the real map in Go's iteration order) -/
def site (name : String) (params : List String) (entries : List (List String)) (impl : List String) : Verdict :=
  let es := entries.map kv
  let nd := nodupKeys es
  let tags := ["site:" ++ name] ++ (keysOfCase name).map ("key:" ++ ·) ++ tagIf (entries.length ≥ 8) "nontrivial" ++ tagIf nd "nodupkeys" ++
    tagIf (es.map (·.1) != sortS (es.map (·.1))) "unsorted-iteration"
  -- a panic of the library on a generated input is a violation by itself (never a mere tie)
  if impl.headD "" == "PANIC" then ⟨.oracle, tags, "the library call of the site case panicked: " ++ " ".intercalate impl⟩ else
  match name with
  | "tipbag" =>
    judge tags impl ((specSortedLines (fun _ v => some v) es)) ((tipBagTips es).map (·.getD "?")) "TipBag.Tips"
  | "updatetipindex" =>
    let sorted := params.zipIdx
    let spec := match specTipIndex params with
      | none => ["err"]
      | some idx => "ok" :: params.map (fun nm => toString ((idx.lookup nm).getD 0))
    let model := match updateTipIndex sorted (es.map (fun e => (e.1, e.2.toNat?.getD 0))) with
      | none => ["err"]
      | some idx => "ok" :: params.map (fun nm => match get idx nm with | some i => toString i | none => "-1")
    judge (tags ++ tagIf (impl == ["err"]) "dup-names") impl spec model "UpdateTipIndex"
  | "comparetipindexes" =>
    let mine := es.map (·.1)
    let unrooted := (impl.drop 1).headD "" == "unrooted"
    let spec := [toString (specSameTips mine params)] ++ [if unrooted then "unrooted" else toString (specDisjoint mine params)]
    let model := [toString (compareTipIndexes params es)] ++ [if unrooted then "unrooted" else toString (mergeDisjointLoop params es)]
    judge (tags ++ tagIf (specSameTips mine params) "same-tips" ++ tagIf (specDisjoint mine params) "disjoint") impl spec model "CompareTipIndexes/Merge"
  | "rename" =>
    -- params: "T:name" / "I:name" per node in Nodes() order (tip / inner)
    let isTip := params.map (·.startsWith "T:")
    let names := params.map (fun x => (x.drop 2).toString)
    let model := match renameFull names isTip es with
      | none => ["err"]
      | some after => "ok" :: after
    let dupNames := (names.filter (· != "")).eraseDups.length != (names.filter (· != "")).length
    let after := specRename names es
    let tipsAfter := (after.zip isTip).filterMap (fun e => if e.2 then some e.1 else none)
    let spec := if dupNames || tipsAfter.eraseDups.length != tipsAfter.length then ["err"] else "ok" :: after
    judge (tags ++ tagIf (impl == ["err"]) "rename-err" ++ tagIf dupNames "dup-node-names" ++
      tagIf (es.any (fun e => es.any (fun f => f.1 == e.2))) "chained-map") impl spec model "Rename"
  | "acrstates" =>
    judge tags impl (specSortedLines (fun k v => some (k ++ "," ++ v ++ "\n")) es) (acrStateLines es) "acr --out-states"
  | "namemap" =>
    judge tags impl (specSortedLines (fun k v => some (k ++ "\t" ++ v ++ "\n")) es) (nameMapLines es) "rename map file"
  | "comparetips" =>
    let bs := es.map (fun e => (e.1, true))
    -- impl: the whole standard output; Spec: the > lines in key order between the < lines and the count
    let gt := specSortedLines (fun k _ => if params.contains k then none else some ("(Tree 0) > " ++ k ++ "\n")) bs
    let spec := params.filterMap (fun t => if (es.map (·.1)).contains t then none else some ("(Tree 0) < " ++ t ++ "\n")) ++ gt ++
      ["(Tree 0) = " ++ toString (params.filter (fun t => (es.map (·.1)).contains t)).length ++ "\n"]
    judge tags impl spec (compareTipsOutput params bs) "compare tips"
  | "mutations" =>
    let eems := params.headD "" == "eems"
    let ms := entries.map toMut
    judge (tags ++ tagIf eems "eems") impl (specSortedLines (fun _ m => some ((if eems then eemLine else mutLine) 0 m)) ms)
      (mutationLines eems 0 ms) "compute mutations"
  | "rf" =>
    let is : List (Int × Int) := es.map (fun e => (e.1.toInt?.getD 0, e.2.toInt?.getD 0))
    judge (tags ++ tagIf (is.map (·.1) != sortI (is.map (·.1))) "unordered-delivery") impl
      (specSortedLinesI (fun _ v => toString v ++ "\n") is) (rfLines is) "compare trees --rf"
  | "asrtip" =>
    -- params: [alphabet]; entries: charToIndex in Go's iteration order; impl: "c=group" per distinct tip character
    let alphabet := (params.headD "").toList
    let full := alphabet ++ ['-', '*']
    let c2i : List (Char × Nat) := es.map (fun e => ((e.1.toList).headD '?', e.2.toNat?.getD 0))
    let chars := impl.map (fun x => (x.toList).headD '?')
    let nucl := (params.drop 1).headD "" == "nucl"
    let model := chars.map (fun c => String.ofList [c, '='] ++ asrRender full (asrTipCounts nucl alphabet c2i c))
    -- Spec: the set of states the character stands for, in alphabet order
    let stands (c : Char) : List Char := if nucl then full.filter (fun x => (iupac c).contains x)
      else if c == 'X' then alphabet else full.filter (· == c)
    let spec := chars.map (fun c => String.ofList [c, '='] ++
      (match stands c with | [] => "*" | [x] => String.ofList [x] | xs => "{" ++ String.ofList xs ++ "}"))
    judge (tags ++ tagIf (chars.contains 'X' && !nucl) "has-X" ++ tagIf nucl "nucleotides" ++ tagIf (nodupKeys c2i) "nodupkeys-c2i") impl spec model "asr tip states"
  | "nexusframe" =>
    -- entries: per tree, [tree index, tip names in AllTipNames order…]; params: [translate?]
    let trees := entries.map (·.drop 1)
    let translate := params.headD "" == "translate"
    let model := nexusFrameLines translate trees
    let st := nexusLabels trees
    ⟨if model == impl then .pass else .tie,
     ["site:nexusframe"] ++ tagIf (trees.length ≥ 2) "nontrivial" ++ tagIf translate "translate" ++
       tagIf (nodupKeys st.1) "translate-map-nodupkeys" ++ tagIf (st.1.any (fun e => st.1.any (fun f => f.1 == e.2))) "chained-translate-map",
     if model == impl then "" else "WriteNexus frame: model gives " ++ showStrList model ++ " but the implementation wrote " ++ showStrList impl⟩
  | "append" =>
    -- params: the receiver map "key=site"; entries: the appended map in Go's iteration order
    let parseKV (x : String) : String × Mut := match x.splitOn "=" with
      | [k, v] => (k, { Mut.zero with site := v.toNat?.getD 0 })
      | _ => (x, Mut.zero)
    let m := params.map parseKV
    let l : List (String × Mut) := es.map (fun e => (e.1, { Mut.zero with site := e.2.toNat?.getD 0 }))
    let allKeys := sortS ((m.map (·.1)) ++ (l.map (·.1)))
    let model := match mutAppend m l with
      | none => ["err"]
      | some f => "ok" :: allKeys.filterMap (fun k => (f k).map (fun v => k ++ "=" ++ toString v.site))
    let spec := if l.any (fun e => (m.map (·.1)).contains e.1) then ["err"]
      else "ok" :: allKeys.filterMap (fun k => ((m ++ l).lookup k).map (fun v => k ++ "=" ++ toString v.site))
    judge (tags ++ tagIf (impl == ["err"]) "append-duplicate" ++ tagIf (m.isEmpty) "append-to-empty") impl spec model "MutationList.Append"
  | "acralphabet" =>
    judge tags impl (sortS (es.map (·.2)).eraseDups) (acrAlphabet es) "ParsimonyAcr alphabet"
  | "eems" =>
    match T.undump (params.headD "") with
    | none => bad "C18.site-eems dump"
    | some t =>
      let len := ((es.headD ("", "")).2).length
      let charOfAt (j : Nat) (nm : String) : Char := (((es.lookup nm).getD "").toList.drop j).headD '?'
      let render (r : List (EemKey × Mut)) : List String :=
        sortS (r.map (fun e => toString e.1.1 ++ "-" ++ e.1.2.1.toString ++ "-" ++ e.1.2.2.toString ++ " " ++ toString e.2.site ++ " " ++
          toString e.2.branch ++ " " ++ e.2.childName ++ " " ++ toString e.2.numEEM))
      let model := render (countEEMs charOfAt id len t)
      -- Spec (no loop over a map): per (site, parent, child) the number of changed branches that reach a tip
      -- without another change below them; checked through the counts only
      let counts (l : List String) : List String := l.map (fun x => match x.splitOn " " with
        | [k, _, _, _, n] => k ++ " " ++ n | _ => x)
      let tags := tags ++ tagIf (render (countEEMs charOfAt List.reverse len t) == model) "iteration-order-irrelevant" ++
        tagIf (counts impl == counts model) "counts-agree" ++ tagIf (model.any (fun x => !(x.endsWith " 1"))) "merged-emergences"
      if model != impl then ⟨.tie, tags, "CountEEMs: the model run on the same tree and sequences gives " ++ showStrList model ++
        " but the implementation returned " ++ showStrList impl⟩ else ⟨.pass, tags, ""⟩
  | "chardist" =>
    match T.undump (params.headD "") with
    | none => bad "C18.site-chardist dump"
    | some t =>
      let len := ((es.headD ("", "")).2).length
      let run (ord : List (Char × Nat) → List (Char × Nat)) : List String :=
        sortS ((List.range len).flatMap (fun j =>
          let charOf (nm : String) : Char := (((es.lookup nm).getD "").toList.drop j).headD '?'
          (countMutationsSite charOf ord t).map (fun m => toString j ++ " " ++ m.child ++ " " ++ m.parent.toString ++ " " ++
            m.cur.toString ++ " " ++ toString m.ntips ++ " " ++ toString m.nid)))
      let model := run id
      -- Spec on the leaves (no merged maps): leaves below and leaves below carrying the node's character
      let spec := sortS ((List.range len).flatMap (fun j =>
        let charOf (nm : String) : Char := (((es.lookup nm).getD "").toList.drop j).headD '?'
        let ms : List MutObs := match t with | .node _ _ kids => if kids.length == 1 then [] else specMutNode charOf none t
        ms.map (fun (m : MutObs) =>
          toString j ++ " " ++ m.child ++ " " ++ m.parent.toString ++ " " ++ m.cur.toString ++ " " ++ toString m.ntips ++ " " ++ toString m.nid)))
      judge (tags ++ tagIf (run List.reverse == model) "iteration-order-irrelevant" ++ tagIf (model.length ≥ 8) "many-mutations" ++
        tagIf (spec == model) "model-meets-leaf-spec")
        impl spec model "CountMutations (character distributions)"
  | "readmap" =>
    -- cmd/root.go readMapFile + Tree.Rename through `gotree rename -m file [-r]`.
    -- params: "revert"/"forward", then "T:name" / "I:name" per node in Nodes() order; entries: one [line] per line of the file
    let revert := params.headD "" == "revert"
    let nodes := params.drop 1
    let isTip := nodes.map (·.startsWith "T:")
    let names := nodes.map (fun x => (x.drop 2).toString)
    let lines := entries.map (·.headD "")
    let model := match renameFromFile revert lines names isTip with
      | none => ["err"]
      | some after => "ok" :: after
    -- Spec on the FILE (no map): a named node gets the value of the last line that binds its name
    let ents := lines.map (mapFileEntry revert)
    let after := names.map (fun n => if n == "" then n else (lastBinding (mapFileEntry revert) lines none n).getD n)
    let dupNames := (names.filter (· != "")).eraseDups.length != (names.filter (· != "")).length
    let tipsAfter := (after.zip isTip).filterMap (fun e => if e.2 then some e.1 else none)
    let spec := if ents.any (·.isNone) || dupNames || tipsAfter.eraseDups.length != tipsAfter.length then ["err"] else "ok" :: after
    let keyCol := ents.filterMap (·.map (·.1))
    let nodupRead := match readMapFile revert lines with | .ok m => nodupKeys m | .error _ => true
    judge (["site:readmap"] ++ tagIf (lines.length ≥ 8) "nontrivial" ++ tagIf revert "revert" ++
      tagIf (keyCol.eraseDups.length != keyCol.length) "repeated-key" ++ tagIf (ents.any (·.isNone)) "bad-line" ++
      tagIf (impl == ["err"]) "rename-err" ++ tagIf nodupRead "read-map-nodupkeys" ++
      tagIf (keyCol.any (fun k => names.contains k)) "binds-a-node") impl spec model "rename -m (readMapFile, then Rename)"
  | "tipstates" =>
    -- cmd/acr.go parseTipStates through `gotree acr --states file --algo none`: the state written on each tip of the output tree.
    -- params: the tip names; entries: one [line] per line of the states file
    let lines := entries.map (·.headD "")
    let model := match parseTipStates lines with
      | .error _ => ["err"]
      | .ok m => if params.any (fun t => (get m t).isNone) then ["err"] else tipStateLines m params
    let ents := lines.map (twoCols isTabOrComma)
    let spec := if ents.any (·.isNone) || params.any (fun t => (lastBinding (twoCols isTabOrComma) lines none t).isNone) then ["err"]
      else (sortS params).map (fun t => t ++ "," ++ (lastBinding (twoCols isTabOrComma) lines none t).getD "" ++ "\n")
    let keyCol := ents.filterMap (·.map (·.1))
    judge (["site:tipstates"] ++ tagIf (lines.length ≥ 8) "nontrivial" ++
      tagIf (keyCol.eraseDups.length != keyCol.length) "repeated-key" ++ tagIf (ents.any (·.isNone)) "bad-line" ++
      tagIf (lines.any (·.contains ',')) "comma-separated" ++ tagIf (impl == ["err"]) "acr-err") impl spec model "acr --states (parseTipStates)"
  | "renameauto" =>
    -- cmd/rename.go --auto: tree.RenameAuto over the trees of the file sharing counter and map, then writeNameMap.
    -- params: [which ("tips" / "internal" / "both"), length]; entries: per tree [index, "T:name" / "I:name" …] in Nodes() order;
    -- impl: per tree written, its names joined by "|"; then "--map--" and the lines of the map file, or "--failed--"
    let which := params.headD ""
    let internals := which == "internal" || which == "both"
    let tips := which == "tips" || which == "both"
    let length := ((params.drop 1).headD "").toNat?.getD 10
    let trees : List (List (String × Bool)) := entries.map (fun e => (e.drop 1).map (fun x => ((x.drop 2).toString, x.startsWith "T:")))
    let r := renameAutoCmd internals tips length trees
    let model := r.1.map (fun names => "|".intercalate names) ++
      (match r.2 with | some ls => "--map--" :: ls | none => ["--failed--"])
    let mapNodup := match renameAutoMap internals tips (if length < 5 then 5 else length) trees 1 [] with
      | some m => nodupKeys m | none => true
    let tags := ["site:renameauto", "which:" ++ which] ++ tagIf (trees.length ≥ 2 && model.length ≥ 8) "nontrivial" ++
      tagIf (length < 5) "length-clamped" ++ tagIf r.2.isNone "auto-failed" ++ tagIf mapNodup "auto-map-nodupkeys" ++
      tagIf (trees.any (fun t => t.any (fun n => !n.2 && n.1 == ""))) "unnamed-inner"
    if impl.headD "" == "PANIC" then ⟨.oracle, tags, "the library call of the site case panicked: " ++ " ".intercalate impl⟩
    else if model != impl then ⟨.tie, tags, "rename --auto: the model gives " ++ showStrList model ++ " but the implementation produced " ++ showStrList impl⟩
    else ⟨.pass, tags, ""⟩
  | _ => bad ("C18.site: unknown site " ++ name)

def handle (op : String) (f : List String) : Verdict :=
  match op, f with
  | "table", [] =>
    -- the tie of table (c): every extracted site has its theorem, every other source is reviewed
    let tags := ["nontrivial", "table", "sites:" ++ toString Gen.C18Sites.sites.length, "sources:" ++ toString Gen.C18Sites.sources.length]
    if !Gen.C18Sites.typeErrors.isEmpty then
      ⟨.tie, tags, "the extractor could not type-check the repository: " ++ "; ".intercalate Gen.C18Sites.typeErrors⟩
    else if !unprovedSites.isEmpty then
      ⟨.tie, tags, "map-range site(s) without a permutation-invariance theorem (new or edited loop): " ++ " | ".intercalate (unprovedSites.map showSite)⟩
    else if !unreviewedSources.isEmpty then
      ⟨.tie, tags, "new or edited clock/address/seed/goroutine source(s), not reviewed: " ++ " | ".intercalate (unreviewedSources.map showSite)⟩
    else if !commandsNotSeeded.isEmpty then
      ⟨.tie, tags, "commands whose nearest persistent pre-run hook hides the root's, so that rand.Seed(seed) is never called (cobra runs only the nearest hook): " ++
        ", ".intercalate (commandsNotSeeded.map (fun r => r.1 ++ " (hook of `" ++ r.2 ++ "`)"))⟩
    else if !staleProofs.isEmpty || !staleSources.isEmpty then
      ⟨.tie, tags, "proved/reviewed entries that no longer exist in the source: " ++ " | ".intercalate (staleProofs ++ staleSources)⟩
    else ⟨.pass, tags, ""⟩
  | "seeduse", [resS] =>
    match parseStrList resS with
    | some res =>
      let differing := res.filter (·.endsWith "=differs")
      let tags := ["seeduse", "random-templates:" ++ toString res.length, "seed-sensitive:" ++ toString differing.length] ++
        tagIf (differing.length ≥ 5) "nontrivial"
      -- the tie "the random source is seeded from --seed": every random template must react to the seed
      if differing.length < res.length then
        ⟨.tie, tags, "a random template gives the same output for two different seeds (--seed not used?): " ++ " ".intercalate res⟩
      else ⟨.pass, tags, ""⟩
    | none => bad "C18.seeduse field"
  | "commands", [liveS, pairsS] =>
    match parseStrList liveS, parseStrList pairsS with
    | some live, some pairs =>
      let exercised := pairs.map (fun p => ((p.splitOn "=").drop 1).headD "?")
      let missing := templateCommands.filter (fun c => !(exercised.contains c))
      let unlisted := exercised.eraseDups.filter (fun c => !(templateCommands.contains c))
      -- "several threads": every row of Spec.threadCommands has its template, on its command, with -t ≥ 2
      let noThreads := threadCommands.filter (fun r => !(pairs.any (fun p => match p.splitOn "=" with
        | [tpl, path, th] => tpl == r.2.2 && path == r.2.1 && (th.toNat?.getD 1) ≥ 2
        | _ => false)))
      let tags := ["commands", "live:" ++ toString live.length, "templates:" ++ toString pairs.length,
        "commands-with-template:" ++ toString exercised.eraseDups.length] ++ tagIf (live.length ≥ 60) "nontrivial"
      if live != Gen.C18Sites.commands then
        ⟨.tie, tags, "the live command tree differs from the regenerated table Gen.C18Sites.commands"⟩
      else if !missing.isEmpty then
        ⟨.tie, tags, "commands claimed by Spec.templateCommands for which the harness has no run template: " ++ ", ".intercalate missing⟩
      else if !noThreads.isEmpty then
        ⟨.tie, tags, "thread-using commands without a run template with -t ≥ 2: " ++ ", ".intercalate (noThreads.map (fun r => r.2.1 ++ " (" ++ r.2.2 ++ ")"))⟩
      else if !unlisted.isEmpty then
        ⟨.tie, tags, "templates whose command is not listed in Spec.templateCommands: " ++ ", ".intercalate unlisted⟩
      else ⟨.pass, tags, ""⟩
    | _, _ => bad "C18.commands fields"
  | "selftest", [gotS] =>
    match unescape gotS with
    | some got =>
      if got == selfTestExpected then ⟨.pass, ["nontrivial", "selftest"], ""⟩
      else ⟨.tie, ["selftest"], "the table extractor no longer finds what it must in its self-test package: found [" ++ got ++ "] expected [" ++ selfTestExpected ++ "]"⟩
    | none => bad "C18.selftest field"
  | "run", [kind, tpl, thr, nlines, argsS, _files, exit0, runsS, diff] =>
    match parseStrLists runsS, unescape diff, parseStrList argsS with
    | some runs, some d, some _args =>
      let threaded := thr == "1"
      let modes := (runs.map (·.headD "")).eraseDups
      let outs := runs.map (·.drop 1)
      let tags := tagIf ((nlines.toNat?.getD 0) > 1) "nontrivial" ++ [kind, "tpl:" ++ tpl] ++ tagIf threaded "threaded" ++
        tagIf (exit0 != "1") "failed-command" ++ modes.map ("mode:" ++ ·) ++ ["runs:" ++ toString runs.length]
      if runs.length < 2 then bad "C18.run: fewer than two runs"
      else if deterministic threaded outs then ⟨.pass, tags, ""⟩
      else
        let distinct := if threaded then (outs.map sortS).eraseDups.length else outs.eraseDups.length
        ⟨.oracle, tags, toString distinct ++ " distinct outputs in " ++ toString runs.length ++ " runs of " ++ tpl ++
          (if threaded then " (beyond record order)" else "") ++
          (if threaded && sameUpToRecordOrder outs then "; the runs differ only in the order of their records, but the records do not carry distinct ids" else "") ++
          ": " ++ d⟩
    | _, _, _ => bad "C18.run fields"
  | _, [_files, paramsS, entriesS, implS] =>
    if !(op.startsWith "site-") then bad ("C18: unknown op " ++ op) else
    match parseStrList paramsS, parseStrLists entriesS, parseStrList implS with
    | some params, some entries, some impl => site (op.drop 5).toString params entries impl
    | _, _, _ => bad "C18.site fields"
  | _, _ => bad ("C18: unknown op " ++ op)

end Gotree.Driver.C18
