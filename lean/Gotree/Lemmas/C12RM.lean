/-
  C12 — random resolution of SEVERAL sites in lockstep (`randomlyResolveNodeStates` of asr loops over all the sites
  of a node, so the draws of the sites are interleaved).  Seen from one site, the lockstep run is a single-site run
  with SOME stream of draws: `resolveAM_site`, `deltranRM_site`, `acctranRM_site`.  Everything proved about the
  single-site passes "whatever the draws" therefore holds for every site of the lockstep run.
-/
import Gotree.Lemmas.C12RAcc

namespace Gotree.C12
open Gotree

/-- a stream whose first value is 0 yields 0 and goes on with the rest -/
theorem intn_zero (n : Nat) (c : List Nat) : intn n (0 :: c) = (0, c) := by
  unfold intn
  split
  · simp
  · split
    · rename_i h; omega
    · simp

/-- whatever `intn` answered on a stream, some stream gives the same answer and leaves exactly `c` -/
theorem intn_prefix (n : Nat) : ∀ (s c : List Nat), ∃ s0, intn n s0 = ((intn n s).1, c)
  | [], c => ⟨0 :: c, by rw [intn_zero]; simp [intn]⟩
  | v :: r, c => by
    by_cases h1 : (n &&& (n - 1) == 0) = true
    · exact ⟨v :: c, by simp [intn, h1]⟩
    · by_cases h2 : v > 2147483647 - 2147483648 % n
      · obtain ⟨s0, hs0⟩ := intn_prefix n r c
        exact ⟨s0, by rw [hs0]; simp [intn, h1, h2]⟩
      · exact ⟨v :: c, by simp [intn, h1, h2]⟩

theorem resolve_prefix (k : Nat) (v : Vec) (s c : List Nat) : ∃ s0, resolve k v s0 = ((resolve k v s).1, c) := by
  by_cases h : (present k v).length > 1
  · obtain ⟨s0, hs0⟩ := intn_prefix (present k v).length s c
    exact ⟨s0, by simp [resolve, h, hs0]⟩
  · exact ⟨c, by simp [resolve, h]⟩

theorem resolve_nil (k : Nat) (s : List Nat) : resolve k [] s = ([], s) := by
  have : present k [] = [] := by simp [present, Vec.at]
  simp [resolve, this]

/- the annotated tree of site `j` -/
mutual
def AM.site (j : Nat) : AM → A
  | .node ss ks => .node (ss.getD j []) (AM.siteL j ks)
def AM.siteL (j : Nat) : List AM → List A
  | [] => []
  | a :: r => a.site j :: AM.siteL j r
end

theorem resolveSites_getD (k : Nat) : ∀ (ss : List Vec) (st : List Nat) (j : Nat),
    ∃ sj, (resolveSites k ss st).1.getD j [] = (resolve k (ss.getD j []) sj).1
  | [], st, j => ⟨st, by simp [resolveSites, resolve_nil]⟩
  | v :: r, st, 0 => ⟨st, by simp [resolveSites]⟩
  | v :: r, st, j + 1 => by
    obtain ⟨sj, h⟩ := resolveSites_getD k r (resolve k v st).2 j
    exact ⟨sj, by simpa [resolveSites] using h⟩

mutual
/-- DOWNPASS with resolution, seen from site `j`: a single-site run on some stream; `c` = what that stream has left -/
theorem resolveAM_site (k j : Nat) : ∀ (am : AM) (st c : List Nat),
    ∃ s0, resolveA k (am.site j) s0 = ((resolveAM k am st).1.site j, c)
  | .node ss [], st, c => ⟨c, by simp [resolveAM, AM.site, AM.siteL, resolveA]⟩
  | .node ss (x :: xs), st, c => by
    obtain ⟨sj, hsj⟩ := resolveSites_getD k ss st j
    obtain ⟨s1, hs1⟩ := resolveAML_site k j (x :: xs) (resolveSites k ss st).2 c
    obtain ⟨s0, hs0⟩ := resolve_prefix k (ss.getD j []) sj s1
    refine ⟨s0, ?_⟩
    simp only [AM.siteL] at hs1
    simp only [AM.site, AM.siteL, resolveAM, resolveA, hs0, hs1, hsj]
theorem resolveAML_site (k j : Nat) : ∀ (l : List AM) (st c : List Nat),
    ∃ s0, resolveAL k (AM.siteL j l) s0 = (AM.siteL j (resolveAML k l st).1, c)
  | [], st, c => ⟨c, by simp [resolveAML, AM.siteL, resolveAL]⟩
  | a :: r, st, c => by
    obtain ⟨s1, hs1⟩ := resolveAML_site k j r (resolveAM k a st).2 c
    obtain ⟨s0, hs0⟩ := resolveAM_site k j a st s1
    exact ⟨s0, by simp [AM.siteL, resolveAML, resolveAL, hs0, hs1]⟩
end

/- every node carries `L` sites -/
mutual
def AM.wf (L : Nat) : AM → Prop
  | .node ss ks => ss.length = L ∧ AM.wfL L ks
def AM.wfL (L : Nat) : List AM → Prop
  | [] => True
  | a :: r => a.wf L ∧ AM.wfL L r
end

theorem resolveSites_length (k : Nat) : ∀ (ss : List Vec) (st : List Nat), (resolveSites k ss st).1.length = ss.length
  | [], _ => by simp [resolveSites]
  | v :: r, st => by simp [resolveSites, resolveSites_length k r]

/-- the parent's slice of site `j` -/
def parSite (j : Nat) (p : Option (List Vec)) : Option Vec := p.map fun ps => ps.getD j []

theorem interSites_getD (k j L : Nat) (ss : List Vec) (p : Option (List Vec)) (hs : ss.length = L)
    (hp : ∀ ps, p = some ps → ps.length = L) (hj : j < L) :
    (interSites k ss p).getD j [] = (match parSite j p with
      | none => ss.getD j []
      | some pv => inter k (ss.getD j []) pv) := by
  cases p with
  | none => simp [interSites, parSite]
  | some ps =>
    have hps := hp ps rfl
    simp only [interSites, parSite, Option.map_some]
    simp [List.getD_eq_getElem?_getD, List.getElem?_zipWith, hs ▸ hj, hps ▸ hj]

theorem interSites_length (k L : Nat) (ss : List Vec) (p : Option (List Vec)) (hs : ss.length = L)
    (hp : ∀ ps, p = some ps → ps.length = L) : (interSites k ss p).length = L := by
  cases p with
  | none => simpa [interSites] using hs
  | some ps => simp [interSites, hs, hp ps rfl]

mutual
/-- deltran with resolution, seen from site `j`: the single-site pass on some stream -/
theorem deltranRM_site (k j L : Nat) (hj : j < L) : ∀ (am : AM) (p : Option (List Vec)) (st c : List Nat), am.wf L →
    (∀ ps, p = some ps → ps.length = L) →
    ∃ s0, deltranR k (parSite j p) (am.site j) s0 = ((deltranRM k p am st).1.site j, c)
  | .node ss [], p, st, c, _, _ => ⟨c, by simp [deltranRM, AM.site, AM.siteL, deltranR]⟩
  | .node ss (x :: xs), p, st, c, hw, hp => by
    simp only [AM.wf] at hw
    have hil := interSites_length k L ss p hw.1 hp
    obtain ⟨sj, hsj⟩ := resolveSites_getD k (interSites k ss p) st j
    have hrl : (resolveSites k (interSites k ss p) st).1.length = L := by rw [resolveSites_length, hil]
    obtain ⟨s1, hs1⟩ := deltranRML_site k j L hj (x :: xs) (some (resolveSites k (interSites k ss p) st).1)
      (resolveSites k (interSites k ss p) st).2 c hw.2 (by intro ps e; cases e; exact hrl)
    rw [interSites_getD k j L ss p hw.1 hp hj] at hsj
    simp only [AM.siteL, parSite, Option.map_some] at hs1
    cases hq : parSite j p with
    | none =>
      simp only [hq] at hsj
      obtain ⟨s0, hs0⟩ := resolve_prefix k (ss.getD j []) sj s1
      rw [← hsj] at hs0
      exact ⟨s0, by simp only [AM.site, AM.siteL, deltranRM, deltranR, hs0, hs1]⟩
    | some pv =>
      simp only [hq] at hsj
      obtain ⟨s0, hs0⟩ := resolve_prefix k (inter k (ss.getD j []) pv) sj s1
      rw [← hsj] at hs0
      exact ⟨s0, by simp only [AM.site, AM.siteL, deltranRM, deltranR, hs0, hs1]⟩
theorem deltranRML_site (k j L : Nat) (hj : j < L) : ∀ (l : List AM) (p : Option (List Vec)) (st c : List Nat), AM.wfL L l →
    (∀ ps, p = some ps → ps.length = L) →
    ∃ s0, deltranRL k (parSite j p) (AM.siteL j l) s0 = (AM.siteL j (deltranRML k p l st).1, c)
  | [], p, st, c, _, _ => ⟨c, by simp [deltranRML, AM.siteL, deltranRL]⟩
  | a :: r, p, st, c, hw, hp => by
    simp only [AM.wfL] at hw
    obtain ⟨s1, hs1⟩ := deltranRML_site k j L hj r p (deltranRM k p a st).2 c hw.2 hp
    obtain ⟨s0, hs0⟩ := deltranRM_site k j L hj a p st s1 hw.1 hp
    exact ⟨s0, by simp [AM.siteL, deltranRML, deltranRL, hs0, hs1]⟩
end

mutual
/-- acctran with resolution, seen from site `j`: the single-site pass on some stream -/
theorem acctranRM_site (k j L : Nat) (hj : j < L) : ∀ (am : AM) (p : Option (List Vec)) (st c : List Nat), am.wf L →
    (∀ ps, p = some ps → ps.length = L) →
    ∃ s0, acctranR k (parSite j p) (am.site j) s0 = ((acctranRM k p am st).1.site j, c)
  | .node ss [], p, st, c, _, _ => ⟨c, by simp [acctranRM, AM.site, AM.siteL, acctranR]⟩
  | .node ss (x :: xs), p, st, c, hw, hp => by
    simp only [AM.wf] at hw
    have hil := interSites_length k L ss p hw.1 hp
    obtain ⟨sj, hsj⟩ := resolveSites_getD k (interSites k ss p) st j
    have hrl : (resolveSites k (interSites k ss p) st).1.length = L := by rw [resolveSites_length, hil]
    obtain ⟨s1, hs1⟩ := acctranRML_site k j L hj (x :: xs) (some (resolveSites k (interSites k ss p) st).1)
      (resolveSites k (interSites k ss p) st).2 c hw.2 (by intro ps e; cases e; exact hrl)
    rw [interSites_getD k j L ss p hw.1 hp hj] at hsj
    simp only [AM.siteL, parSite, Option.map_some] at hs1
    cases hq : parSite j p with
    | none =>
      simp only [hq] at hsj
      obtain ⟨s0, hs0⟩ := resolve_prefix k (ss.getD j []) sj s1
      rw [← hsj] at hs0
      exact ⟨s0, by simp only [AM.site, AM.siteL, acctranRM, acctranR, hs0, hs1]⟩
    | some pv =>
      simp only [hq] at hsj
      obtain ⟨s0, hs0⟩ := resolve_prefix k (inter k (ss.getD j []) pv) sj s1
      rw [← hsj] at hs0
      exact ⟨s0, by simp only [AM.site, AM.siteL, acctranRM, acctranR, hs0, hs1]⟩
theorem acctranRML_site (k j L : Nat) (hj : j < L) : ∀ (l : List AM) (p : Option (List Vec)) (st c : List Nat), AM.wfL L l →
    (∀ ps, p = some ps → ps.length = L) →
    ∃ s0, acctranRL k (parSite j p) (AM.siteL j l) s0 = (AM.siteL j (acctranRML k p l st).1, c)
  | [], p, st, c, _, _ => ⟨c, by simp [acctranRML, AM.siteL, acctranRL]⟩
  | a :: r, p, st, c, hw, hp => by
    simp only [AM.wfL] at hw
    obtain ⟨s1, hs1⟩ := acctranRML_site k j L hj r p (acctranRM k p a st).2 c hw.2 hp
    obtain ⟨s0, hs0⟩ := acctranRM_site k j L hj a p st s1 hw.1 hp
    exact ⟨s0, by simp [AM.siteL, acctranRML, acctranRL, hs0, hs1]⟩
end


/- ## the per-site trees put side by side (`amOf`) and taken apart again (`AM.site`) -/

/- an annotated tree of the shape of `t` -/
mutual
def shapeOk : T → A → Prop
  | .node _ _ ks, .node _ aks => shapeOkL ks aks
def shapeOkL : Kids → List A → Prop
  | [], [] => True
  | (_, c) :: r, a :: ar => shapeOk c a ∧ shapeOkL r ar
  | [], _ :: _ => False
  | _ :: _, [] => False
end

mutual
theorem amOf_site (j : Nat) : ∀ (t : T) (as : List A) (a : A), as[j]? = some a → shapeOk t a → (amOf t as).site j = a
  | .node _ _ ks, as, .node s aks, h, hs => by
    simp only [shapeOk] at hs
    have h1 : (as.map A.s).getD j [] = s := by simp [List.getD_eq_getElem?_getD, h, A.s]
    have h2 : (as.map A.kids)[j]? = some aks := by simp [h, A.kids]
    simp only [amOf, AM.site, h1, amOfL_site j ks (as.map A.kids) aks h2 hs]
theorem amOfL_site (j : Nat) : ∀ (ks : Kids) (kss : List (List A)) (l : List A), kss[j]? = some l → shapeOkL ks l →
    AM.siteL j (amOfL ks kss) = l
  | [], _, [], _, _ => by simp [amOfL, AM.siteL]
  | [], _, _ :: _, _, hs => by simp [shapeOkL] at hs
  | _ :: _, _, [], _, hs => by simp [shapeOkL] at hs
  | (_, c) :: r, kss, a :: ar, h, hs => by
    simp only [shapeOkL] at hs
    have h1 : (kss.map fun l => l.headD default)[j]? = some a := by simp [h]
    have h2 : (kss.map List.tail)[j]? = some ar := by simp [h]
    simp only [amOfL, AM.siteL, amOf_site j c _ a h1 hs.1, amOfL_site j r _ ar h2 hs.2]
end

mutual
theorem amOf_wf : ∀ (t : T) (as : List A), (amOf t as).wf as.length
  | .node _ _ ks, as => by
    simp only [amOf, AM.wf, List.length_map, true_and]
    have := amOfL_wf ks (as.map A.kids)
    simpa using this
theorem amOfL_wf : ∀ (ks : Kids) (kss : List (List A)), AM.wfL kss.length (amOfL ks kss)
  | [], _ => by simp [amOfL, AM.wfL]
  | (_, c) :: r, kss => by
    simp only [amOfL, AM.wfL]
    have h1 := amOf_wf c (kss.map fun l => l.headD default)
    have h2 := amOfL_wf r (kss.map List.tail)
    simp only [List.length_map] at h1 h2
    exact ⟨h1, h2⟩
end

section shapes
variable (k : Nat) (tv : String → Vec)

mutual
theorem shape_upA : ∀ (t : T), shapeOk t (upA k tv t)
  | .node _ _ ks => by simp only [upA, shapeOk]; exact shape_upAL ks
theorem shape_upAL : ∀ (ks : Kids), shapeOkL ks (upAL k tv ks)
  | [] => by simp [upAL, shapeOkL]
  | (_, c) :: r => by simp only [upAL, shapeOkL]; exact ⟨shape_upA c, shape_upAL r⟩
end

mutual
theorem shape_down : ∀ (t : T) (us : Option Vec), shapeOk t (down k tv us t)
  | .node _ _ [], _ => by simp [down, shapeOk, shapeOkL]
  | .node _ _ (c :: cs), us => by simp only [down, shapeOk]; exact shape_downL (c :: cs) us (vzero k)
theorem shape_downL : ∀ (ks : Kids) (us : Option Vec) (pre : Vec), shapeOkL ks (downL k tv us pre ks)
  | [], _, _ => by simp [downL, shapeOkL]
  | (_, c) :: r, us, pre => by
    simp only [downL, shapeOkL]
    exact ⟨shape_down c _, shape_downL r us _⟩
end
end shapes

/-- ★ lockstep = site by site: the random second stage of ParsimonyAsr run on all the sites at once gives, at every
    site `j`, what the single-character run of that site gives on SOME stream of draws -/
theorem asrRAM_site (te : T) (m : List (String × String)) (len : Nat) (algo : Algo) (st : List Nat) (j : Nat)
    (ha : algo ≠ .none) (hj : j < len) :
    ∃ st', (asrRAM te m len algo st).1.site j = (runAlgoR 6 (asrTipVec m j) algo te st').1 := by
  have hlen : ((List.range len).map fun j =>
      if algo == .acctran then upA 6 (asrTipVec m j) te else down 6 (asrTipVec m j) none te).length = len := by simp
  cases algo with
  | none => exact absurd rfl ha
  | downpass =>
    obtain ⟨s0, h⟩ := resolveAM_site 6 j (amOf te ((List.range len).map fun j => down 6 (asrTipVec m j) none te)) st []
    have hs := amOf_site j te ((List.range len).map fun j => down 6 (asrTipVec m j) none te)
      (down 6 (asrTipVec m j) none te) (by simp [hj]) (shape_down 6 _ te none)
    refine ⟨s0, ?_⟩
    simp only [asrRAM, runAlgoR]
    rw [hs] at h
    simpa using congrArg Prod.fst h |>.symm
  | deltran =>
    have hw := amOf_wf te ((List.range len).map fun j => down 6 (asrTipVec m j) none te)
    simp only [List.length_map, List.length_range] at hw
    obtain ⟨s0, h⟩ := deltranRM_site 6 j len hj (amOf te ((List.range len).map fun j => down 6 (asrTipVec m j) none te))
      none st [] hw (by intro ps e; cases e)
    have hs := amOf_site j te ((List.range len).map fun j => down 6 (asrTipVec m j) none te)
      (down 6 (asrTipVec m j) none te) (by simp [hj]) (shape_down 6 _ te none)
    refine ⟨s0, ?_⟩
    simp only [asrRAM, runAlgoR]
    rw [hs] at h
    simpa [parSite] using congrArg Prod.fst h |>.symm
  | acctran =>
    have hw := amOf_wf te ((List.range len).map fun j => upA 6 (asrTipVec m j) te)
    simp only [List.length_map, List.length_range] at hw
    obtain ⟨s0, h⟩ := acctranRM_site 6 j len hj (amOf te ((List.range len).map fun j => upA 6 (asrTipVec m j) te))
      none st [] hw (by intro ps e; cases e)
    have hs := amOf_site j te ((List.range len).map fun j => upA 6 (asrTipVec m j) te)
      (upA 6 (asrTipVec m j) te) (by simp [hj]) (shape_upA 6 _ te)
    refine ⟨s0, ?_⟩
    simp only [asrRAM, runAlgoR]
    rw [hs] at h
    simpa [parSite] using congrArg Prod.fst h |>.symm

end Gotree.C12
