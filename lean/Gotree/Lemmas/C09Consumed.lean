/-
  C09 — round 7b: the counting loop succeeds on every prefix of a collection of the domain, hence
  `firstRefused` (Model/C09Items.lean) finds no refused tree there.
-/
import Gotree.Lemmas.C09Compat
import Gotree.Model.C09Items

namespace Gotree.C09
open Gotree

theorem dom_take (ts : List T) (hd : Dom ts) (j : Nat) : Dom (ts.take (j + 1)) := by
  cases ts with
  | nil => exact absurd rfl hd.ne
  | cons t0 r =>
    have htr : ∀ u ∈ trees ((t0 :: r).take (j + 1)), u ∈ trees (t0 :: r) := by
      intro u hu
      unfold trees at hu ⊢
      obtain ⟨x, hx, rfl⟩ := List.mem_map.1 hu
      exact List.mem_map.2 ⟨x, List.mem_of_mem_take hx, rfl⟩
    have hhead : ((t0 :: r).take (j + 1)).head! = (t0 :: r).head! := by rw [List.take_succ_cons]; rfl
    refine ⟨by simp, fun u hu => hd.deg u (htr u hu), fun u hu => hd.nosingle u (htr u hu),
      fun u hu => hd.nodup u (htr u hu), fun u hu => by rw [hhead]; exact hd.same u (htr u hu), ?_⟩
    have hnr := hd.norepeat
    unfold noRepeat at hnr ⊢
    have hu : univOf ((t0 :: r).take (j + 1)) = univOf (t0 :: r) := by simp [univOf]
    rw [hu]
    rw [List.all_eq_true] at hnr ⊢
    exact fun x hx => hnr x (List.mem_of_mem_take hx)

theorem firstRefused_none_of_dom (ts : List T) (hd : Dom ts) : firstRefused ts = none := by
  unfold firstRefused
  rw [List.find?_eq_none]
  intro j _
  obtain ⟨cn, hcn⟩ := countAll_of_dom _ (dom_take ts hd j)
  rw [hcn]; simp

end Gotree.C09
