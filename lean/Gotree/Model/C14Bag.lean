/-
  C14 (round 7) — the parts of the anchored code that the single-call ops never reached:

    tree/tipbags.go   the API of `TipBag` called from OUTSIDE `CutEdgesMaxLength`: `AddTip(nil)`,
                      `AddTip(internal node)`, the same tip twice, another tip of the same name,
                      `Clear`, `Size`, `Tips` (op `C14.tipbag`: a script of calls on one bag)
    tree/algo.go      what `ToDistanceMatrix` leaves behind: `tips[i].SetId(i)` (the node ids)
    tree/tree.go      what `CutEdgesMaxLength` leaves behind: `e.SetId(i)` (the branch ids) — and
                      nothing else: both are measurements (op `C14.seq`: several measurements on ONE
                      in-memory tree, each judged on the tree as built, and the tree re-read at the end)

  Core Lean only (linked into the driver).
-/
import Gotree.Model.C14Go

namespace Gotree.C14.Go
open Gotree

/-- one call on a `*TipBag` -/
inductive BagOp where
  | add (n : Option Nat)   -- `AddTip(node)`; `none` is `AddTip(nil)`
  | clear                  -- `Clear()`
  | size                   -- `Size()`
  | tips                   -- `Tips()`
  deriving Repr

/-- what each call returns: `["ok"]` / `["err", msg]` for `AddTip`, `[]` for `Clear`, `[n]` for `Size`,
    the names for `Tips` -/
def bagRun (g : G) : List BagOp → Bag → List (List String)
  | [], _ => []
  | .add none :: r, b => ["err", "Nil node given to TipBag.AddTip"] :: bagRun g r b
  | .add (some n) :: r, b =>
    match addTip g b n with
    | .ok b' => ["ok"] :: bagRun g r b'
    | .error e => ["err", e] :: bagRun g r b       -- the map is not touched on an error
  | .clear :: r, _ => [] :: bagRun g r []            -- `tb.tips = make(map[string]*Node)`
  | .size :: r, b => [toString b.length] :: bagRun g r b   -- `len(tb.tips)`
  | .tips :: r, b => bagNames b :: bagRun g r b

/-- the bag after the script (for the theorems) -/
def bagAfter (g : G) : List BagOp → Bag → Bag
  | [], b => b
  | .add none :: r, b => bagAfter g r b
  | .add (some n) :: r, b =>
    match addTip g b n with
    | .ok b' => bagAfter g r b'
    | .error _ => bagAfter g r b
  | .clear :: r, _ => bagAfter g r []
  | .size :: r, b => bagAfter g r b
  | .tips :: r, b => bagAfter g r b

/-- `Id()` of every tip, in `Tips()` order, after `ToDistanceMatrix`: `tips[i].SetId(i)` on the
    sorted slice -/
def tipIdsAfterMatrix (g : G) : List Nat :=
  let ids := setIds g.nodes.size (sortTips g g.tips)
  g.tips.map fun t => ids.getD t 0

/-- `Id()` of every branch, in `Edges()` order, after `CutEdgesMaxLength`: `e.SetId(i)` -/
def edgeIdsAfterCut (g : G) : List Nat := List.range g.edges.size

/-- pre-order index (the index of `G.ofT`) of every node of the tree whose name is in the dump:
    used by the driver to read the script of a `C14.tipbag` case -/
def parseBagOps (toks : List String) : Option (List BagOp) :=
  toks.mapM fun s =>
    if s == "nil" then some (.add none)
    else if s == "clear" then some .clear
    else if s == "size" then some .size
    else if s == "tips" then some .tips
    else if s.startsWith "add:" then (String.ofList (s.toList.drop 4)).toNat?.map fun n => .add (some n)
    else none

/- the tree without the branch ids (`CutEdgesMaxLength` renumbers the branches: `e.SetId(i)`; nothing else
   of the tree may differ after a measurement) -/
mutual
def stripIds : T → T
  | .node d p k => .node d p (stripIdsL k)
def stripIdsL : Kids → Kids
  | [] => []
  | (e, t) :: r => ({ e with id := -1 }, stripIds t) :: stripIdsL r
end

/-- SPEC (the doc comments of tree/tipbags.go) as a checker of the results the implementation returned,
    written without the model's map: the state is the list of the nodes in the bag.
    `AddTip`: nil or not a tip: error; the same tip already present: do nothing; another tip of the same
    name: error.  `Size`: the number of contained tips.  `Tips`: "always in the same order (alphanumeric by
    tip name)".  `Clear`: removes all tips. -/
def bagSpecOK (g : G) : List BagOp → List (List String) → List Nat → Bool
  | [], [], _ => true
  | .add none :: r, res :: rs, st => res.head? == some "err" && bagSpecOK g r rs st
  | .add (some n) :: r, res :: rs, st =>
    if !g.tip n then res.head? == some "err" && bagSpecOK g r rs st
    else if st.contains n then res == ["ok"] && bagSpecOK g r rs st
    else if st.any (fun m => g.name m == g.name n) then res.head? == some "err" && bagSpecOK g r rs st
    else res == ["ok"] && bagSpecOK g r rs (n :: st)
  | .clear :: r, _ :: rs, _ => bagSpecOK g r rs []
  | .size :: r, res :: rs, st => res == [toString st.length] && bagSpecOK g r rs st
  | .tips :: r, res :: rs, st => res == sortNames (st.map g.name) && bagSpecOK g r rs st
  | _, _, _ => false

end Gotree.C14.Go
