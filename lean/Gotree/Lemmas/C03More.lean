/-
  C03 — lemmas about the models added in round 7: `modAt` (apply a function to the node at a path)
  keeps the tip names (as a multiset) and the absence of single-child nodes whenever the function
  only permutes the children of its node; `rotNode` (RotateNeighbors on one node) is such a function.
-/
import Gotree.Lemmas.C03Ops

namespace Gotree.C03
open Gotree Gotree.C05

/-- a node function that only reorders the children and keeps the name -/
structure Reorders (f : Bool → T → T) : Prop where
  kids : ∀ b t, (f b t).kids.Perm t.kids
  name : ∀ b t, (f b t).name = t.name

theorem leaves_of_kids_perm {u t : T} (hk : u.kids.Perm t.kids) (hn : u.name = t.name) :
    u.leaves.Perm t.leaves := by
  obtain ⟨d, p, k⟩ := u
  obtain ⟨d', p', k'⟩ := t
  simp only [T.kids_node] at hk
  have hn' : d.name = d'.name := hn
  rw [T.leaves_node, T.leaves_node]
  have he : k.isEmpty = k'.isEmpty := by
    have := hk.length_eq
    cases k <;> cases k' <;> simp_all
  rw [he, hn']
  split
  · exact List.Perm.refl _
  · exact leavesL_perm hk

theorem noSingleBelow_of_kids_perm {u t : T} (hk : u.kids.Perm t.kids) : u.noSingleBelow = t.noSingleBelow := by
  obtain ⟨d, p, k⟩ := u
  obtain ⟨d', p', k'⟩ := t
  simp only [T.kids_node] at hk
  rw [noSingleBelow_node, noSingleBelow_node, noSingleL_perm hk, hk.length_eq]

mutual
theorem modAt_inv (f : Bool → T → T) (hf : Reorders f) : ∀ (b : Bool) (p : List Nat) (t : T),
    (modAt f b p t).leaves.Perm t.leaves ∧ (modAt f b p t).noSingleBelow = t.noSingleBelow ∧
    (modAt f b p t).kids.length = t.kids.length ∧ (modAt f b p t).name = t.name ∧
    (leavesL (modAt f b p t).kids).Perm (leavesL t.kids) ∧ noSingleL (modAt f b p t).kids = noSingleL t.kids
  | b, [], t => by
    simp only [modAt]
    exact ⟨leaves_of_kids_perm (hf.kids b t) (hf.name b t), noSingleBelow_of_kids_perm (hf.kids b t),
      (hf.kids b t).length_eq, hf.name b t, leavesL_perm (hf.kids b t), noSingleL_perm (hf.kids b t)⟩
  | b, i :: p, .node d pp k => by
    obtain ⟨h1, h2, h3⟩ := modAtL_inv f hf i p k
    simp only [modAt, T.kids_node]
    refine ⟨?_, ?_, h3, rfl, h1, h2⟩
    · rw [T.leaves_node, T.leaves_node]
      have he : (modAtL f i p k).isEmpty = k.isEmpty := by
        cases hk : k <;> cases hm : modAtL f i p k <;> simp_all
      rw [he]
      split
      · exact List.Perm.refl _
      · exact h1
    · rw [noSingleBelow_node, noSingleBelow_node, h2, h3]
theorem modAtL_inv (f : Bool → T → T) (hf : Reorders f) : ∀ (i : Nat) (p : List Nat) (k : Kids),
    (leavesL (modAtL f i p k)).Perm (leavesL k) ∧ noSingleL (modAtL f i p k) = noSingleL k ∧
    (modAtL f i p k).length = k.length
  | _, _, [] => by simp [modAtL]
  | 0, p, (e, t) :: r => by
    obtain ⟨h1, h2, _⟩ := modAt_inv f hf false p t
    simp only [modAtL, leavesL_cons, noSingleL, h2, List.length_cons]
    exact ⟨List.Perm.append_right _ h1, trivial, trivial⟩
  | i + 1, p, (e, t) :: r => by
    obtain ⟨h1, h2, h3⟩ := modAtL_inv f hf i p r
    simp only [modAtL, leavesL_cons, noSingleL, h2, List.length_cons, h3]
    exact ⟨List.Perm.append_left _ h1, trivial, trivial⟩
end

theorem rotNode_reorders (ds : List Nat) : Reorders (rotNode ds) where
  kids := fun b t => by
    obtain ⟨d, p, k⟩ := t
    simp only [rotNode, T.kids_node]
    refine (filterMap_shuf_perm _ _ _).trans ?_
    cases b
    · simp [filterMap_insertAt_none]
    · simp
  name := fun b t => by
    obtain ⟨d, p, k⟩ := t
    simp [rotNode, T.name]

theorem rotateOne_tips (p ds : List Nat) (t : T) : (rotateOne p ds t).tipNames.Perm t.tipNames := by
  obtain ⟨_, _, h3, h4, h5, _⟩ := modAt_inv _ (rotNode_reorders ds) true p t
  exact tipNames_of h4 h3 h5

theorem rotateOne_noSingle (p ds : List Nat) (t : T) : (rotateOne p ds t).noSingle = t.noSingle := by
  obtain ⟨_, _, _, _, _, h6⟩ := modAt_inv _ (rotNode_reorders ds) true p t
  simpa [T.noSingle, rotateOne] using h6

/-- rotating the neighbours of a node with the identity draws `0,1,2,…` changes nothing: the draw
    script `j = i` is the identity permutation (sanity of the transliteration) -/
example : rotateOne [0] [0, 1, 2] (T.node ⟨"r", []⟩ 0 [(EdgeD.blank, T.node ⟨"x", []⟩ 0 [(EdgeD.blank, T.leaf "a"), (EdgeD.blank, T.leaf "b")]), (EdgeD.blank, T.leaf "c")]) =
    T.node ⟨"r", []⟩ 0 [(EdgeD.blank, T.node ⟨"x", []⟩ 0 [(EdgeD.blank, T.leaf "a"), (EdgeD.blank, T.leaf "b")]), (EdgeD.blank, T.leaf "c")] := by rfl

/- ## Annotate in comment mode: names and shape untouched -/

theorem modAt_root_inv (f : Bool → T → T) (hf : Reorders f) (p : List Nat) (t : T) :
    (modAt f true p t).tipNames.Perm t.tipNames ∧ (modAt f true p t).noSingle = t.noSingle := by
  obtain ⟨_, _, h3, h4, h5, h6⟩ := modAt_inv f hf true p t
  exact ⟨tipNames_of h4 h3 h5, by simpa [T.noSingle] using h6⟩

theorem addComment_reorders (c : String) : Reorders (addCommentNode c) where
  kids := fun _ t => by obtain ⟨d, p, k⟩ := t; simp [addCommentNode]
  name := fun _ t => by obtain ⟨d, p, k⟩ := t; simp [addCommentNode, T.name]

theorem annotateStep_comment_inv (orig : T) (line : List String) (cur c : T)
    (h : annotateStep true orig line cur = .ok c) : c.tipNames.Perm cur.tipNames ∧ c.noSingle = cur.noSingle := by
  unfold annotateStep at h
  simp only [if_true] at h
  split at h
  · cases h
  · cases h
  · split at h
    · simp only [Gotree.C05.Res.ok.injEq] at h; subst h; exact modAt_root_inv _ (addComment_reorders _) _ _
    · simp only [Gotree.C05.Res.ok.injEq] at h; subst h; exact ⟨List.Perm.refl _, rfl⟩
  · split at h
    · cases h
    · split at h
      · cases h
      · split at h
        · cases h
        · simp only [Gotree.C05.Res.ok.injEq] at h; subst h; exact modAt_root_inv _ (addComment_reorders _) _ _

theorem annotateLoop_comment_inv (orig : T) : ∀ (lines : List (List String)) (cur t' : T),
    annotateLoop true orig lines cur = .ok t' → t'.tipNames.Perm cur.tipNames ∧ t'.noSingle = cur.noSingle
  | [], cur, t', h => by
    simp only [annotateLoop, Gotree.C05.Res.ok.injEq] at h; subst h; exact ⟨List.Perm.refl _, rfl⟩
  | line :: rest, cur, t', h => by
    simp only [annotateLoop] at h
    split at h
    · rename_i c hc
      obtain ⟨a1, a2⟩ := annotateStep_comment_inv orig line cur c hc
      obtain ⟨b1, b2⟩ := annotateLoop_comment_inv orig rest c t' h
      exact ⟨b1.trans a1, b2.trans a2⟩
    · cases h
    · cases h

/- ## AddBipartition -/

theorem insertAt_length {α : Type} (l : List α) (i : Nat) (x : α) : (Gotree.C05.insertAt l i x).length = l.length + 1 := by
  simpa using (Gotree.insertAt_perm l i x).length_eq

theorem dropSlots_cons_lt {α : Type} (i : Nat) (S : List Nat) : ∀ (l : List α) (k : Nat), i < k →
    dropSlots (i :: S) k l = dropSlots S k l
  | [], _, _ => rfl
  | x :: r, k, h => by
    have hne : (i == k) = false := by simp; omega
    simp only [dropSlots, List.contains_cons, dropSlots_cons_lt i S r (k + 1) (by omega)]
    have : (k == i) = false := by simp; omega
    simp [this]

/-- taking slot `i` out as well removes exactly the element sitting there -/
theorem dropSlots_pick {α : Type} (i : Nat) (S : List Nat) (hi : i ∉ S) : ∀ (l : List α) (k : Nat) (x : α),
    k ≤ i → l[i - k]? = some x → (dropSlots S k l).Perm (x :: dropSlots (i :: S) k l)
  | [], _, _, _, h => by simp at h
  | y :: r, k, x, hk, h => by
    by_cases he : k = i
    · subst he
      simp only [Nat.sub_self, List.getElem?_cons_zero, Option.some.injEq] at h
      subst h
      have h1 : S.contains k = false := by simpa using hi
      simp only [dropSlots, h1, List.contains_cons, BEq.rfl, Bool.true_or, if_true, Bool.false_eq_true, if_false]
      rw [dropSlots_cons_lt k S r (k + 1) (by omega)]
    · have hlt : k < i := by omega
      have h' : r[i - (k + 1)]? = some x := by
        have : i - k = (i - (k + 1)) + 1 := by omega
        rw [this, List.getElem?_cons_succ] at h
        exact h
      have ih := dropSlots_pick i S hi r (k + 1) x (by omega) h'
      have hki : (k == i) = false := by simp; omega
      simp only [dropSlots, List.contains_cons, hki, Bool.false_or]
      split
      · exact ih
      · exact (List.Perm.cons y ih).trans (List.Perm.swap x y _)

/-- the selected neighbours and the remaining ones are the neighbours -/
theorem pick_drop_perm {α : Type} : ∀ (S : List Nat) (ng sel : List α), S.Nodup →
    S.mapM (fun i => ng[i]?) = some sel → (dropSlots S 0 ng ++ sel).Perm ng
  | [], ng, sel, _, h => by
    simp only [List.mapM_nil, Option.pure_def, Option.some.injEq] at h
    subst h
    have : ∀ (l : List α) (k : Nat), dropSlots [] k l = l := by
      intro l; induction l with
      | nil => intro k; rfl
      | cons a r ih => intro k; simp [dropSlots, ih]
    simp [this]
  | i :: S, ng, sel, hnd, h => by
    rw [List.mapM_cons] at h
    cases hx : ng[i]? with
    | none => simp [hx] at h
    | some x =>
      cases hs : S.mapM (fun i => ng[i]?) with
      | none => simp [hx, hs] at h
      | some sel' =>
        simp only [hx, hs, Option.pure_def, Option.bind_eq_bind, Option.bind_some, Option.some.injEq] at h
        subst h
        have hnd' := List.nodup_cons.mp hnd
        have ih := pick_drop_perm S ng sel' hnd'.2 hs
        have hp := dropSlots_pick i S hnd'.1 ng 0 x (Nat.zero_le _) (by simpa using hx)
        refine List.Perm.trans ?_ ih
        refine List.Perm.trans ?_ (List.Perm.append_right sel' hp.symm)
        simpa using (List.perm_middle (a := x) (l₁ := dropSlots (i :: S) 0 ng) (l₂ := sel'))
theorem ng_filterMap (isRoot : Bool) (k : Kids) (p : Nat) :
    (if isRoot then k.map some else Gotree.C05.insertAt (k.map some) p (none : Option (EdgeD × T))).filterMap id = k := by
  cases isRoot
  · simpa using Gotree.C05.filterMap_insertAt_none k p
  · simp

/- ## AddBipartition keeps the tips (sizes, leaves below the node, the walk down the path) -/

theorem mapM_some_length {α β : Type} (f : α → Option β) : ∀ (S : List α) (sel : List β),
    S.mapM f = some sel → sel.length = S.length
  | [], sel, h => by simp at h; subst h; rfl
  | a :: S, sel, h => by
    rw [List.mapM_cons] at h
    cases hx : f a with
    | none => simp [hx] at h
    | some x =>
      cases hs : S.mapM f with
      | none => simp [hx, hs] at h
      | some sel' =>
        simp only [hx, hs, Option.pure_def, Option.bind_eq_bind, Option.bind_some, Option.some.injEq] at h
        subst h
        simp [mapM_some_length f S sel' hs]

theorem filterMap_id_length {α : Type} (l : List (Option α)) :
    (l.filterMap id).length + l.countP (·.isNone) = l.length := by
  induction l with
  | nil => rfl
  | cons a r ih => cases a <;> simp [List.countP_cons] <;> omega

theorem ng_none_count (isRoot : Bool) (k : Kids) (p : Nat) :
    (if isRoot then k.map some else Gotree.C05.insertAt (k.map some) p (none : Option (EdgeD × T))).countP (·.isNone) ≤
      (if isRoot then 0 else 1) := by
  cases isRoot
  · have h := (Gotree.insertAt_perm (k.map some) p (none : Option (EdgeD × T))).countP_eq (·.isNone)
    simp only [Bool.false_eq_true, if_false, h]
    simp [List.countP_map, Function.comp_def]
  · simp [List.countP_map, Function.comp_def]

theorem ng_length (isRoot : Bool) (k : Kids) (p : Nat) :
    (if isRoot then k.map some else Gotree.C05.insertAt (k.map some) p (none : Option (EdgeD × T))).length =
      k.length + (if isRoot then 0 else 1) := by
  cases isRoot <;> simp [insertAt_length]

def fr (ec : EdgeD × T) : EdgeD × T := (freshE ec.1, reparent ec.2)

theorem reparent_leaves (c : T) : (reparent c).leaves = c.leaves := by
  obtain ⟨d, p, k⟩ := c
  simp [reparent, T.leaves_node]

theorem leavesL_map_fr : ∀ (B : Kids), leavesL (B.map fr) = leavesL B
  | [] => rfl
  | (e, c) :: r => by simp [fr, leavesL_cons, reparent_leaves, leavesL_map_fr r]

/-- `addBip_node_spec` with the sizes: at least two children are grouped, and n keeps a child -/
theorem addBipNode_sized (isRoot : Bool) (S : List Nat) (len sup : Rat) (d : NodeD) (p : Nat) (k : Kids)
    (hnd : S.Nodup) :
    match addBipNode isRoot S len sup (.node d p k) with
    | .err => True
    | .inner n' => ∃ (A B : Kids) (pp m : Nat), (A ++ B).Perm k ∧ 2 ≤ B.length ∧ 1 ≤ A.length ∧ (isRoot = true → 2 ≤ A.length) ∧
        n' = .node d pp (A ++ [(⟨len, sup, NIL, [], -1⟩, .node ⟨"", []⟩ m (B.map fr))])
    | .outer n2 => ∃ (A B : Kids) (pp : Nat), (A ++ B).Perm k ∧ 2 ≤ A.length ∧ 1 ≤ B.length ∧
        n2 = .node ⟨"", []⟩ pp (B.map fr ++ [(⟨len, sup, NIL, [], -1⟩, .node d A.length A)]) := by
  have key : ∀ sel, S.mapM (fun i => (if isRoot then k.map some else Gotree.C05.insertAt (k.map some) p (none : Option (EdgeD × T)))[i]?) = some sel →
      ((dropSlots S 0 (if isRoot then k.map some else Gotree.C05.insertAt (k.map some) p (none : Option (EdgeD × T)))).filterMap id ++
        sel.filterMap id).Perm k ∧
      sel.length = S.length ∧
      (dropSlots S 0 (if isRoot then k.map some else Gotree.C05.insertAt (k.map some) p (none : Option (EdgeD × T)))).length + sel.length =
        k.length + (if isRoot then 0 else 1) ∧
      (dropSlots S 0 (if isRoot then k.map some else Gotree.C05.insertAt (k.map some) p (none : Option (EdgeD × T)))).countP (·.isNone) +
        sel.countP (·.isNone) ≤ (if isRoot then 0 else 1) ∧
      ((dropSlots S 0 (if isRoot then k.map some else Gotree.C05.insertAt (k.map some) p (none : Option (EdgeD × T)))).filterMap id).length +
        (dropSlots S 0 (if isRoot then k.map some else Gotree.C05.insertAt (k.map some) p (none : Option (EdgeD × T)))).countP (·.isNone) =
        (dropSlots S 0 (if isRoot then k.map some else Gotree.C05.insertAt (k.map some) p (none : Option (EdgeD × T)))).length ∧
      (sel.filterMap id).length + sel.countP (·.isNone) = sel.length := by
    intro sel hsel
    have hp := pick_drop_perm S _ sel hnd hsel
    have hk := hp.filterMap id
    rw [ng_filterMap, List.filterMap_append] at hk
    have hl := hp.length_eq
    rw [List.length_append, ng_length] at hl
    have hc := hp.countP_eq (·.isNone)
    rw [List.countP_append] at hc
    exact ⟨hk, mapM_some_length _ S sel hsel, hl, by rw [hc]; exact ng_none_count isRoot k p,
      filterMap_id_length _, filterMap_id_length _⟩
  cases hres : addBipNode isRoot S len sup (.node d p k) with
  | err => trivial
  | inner n' =>
    simp only
    unfold addBipNode at hres
    cases isRoot <;> simp only [Bool.false_eq_true, if_false, if_true, insertAt_length, List.length_map] at hres key <;>
    · split at hres
      · cases hres
      · rename_i hsz
        split at hres
        · cases hres
        · rename_i sel hsel
          split at hres
          · cases hres
          · rename_i hany
            injection hres with hres
            subst hres
            obtain ⟨h1, h2, h3, h4, hA, hB⟩ := key sel hsel
            have hz : sel.countP (·.isNone) = 0 := by
              rw [List.countP_eq_zero]; intro a ha hn
              exact hany (List.any_eq_true.mpr ⟨a, ha, hn⟩)
            simp only [Bool.or_eq_true, decide_eq_true_eq, not_or] at hsz
            refine ⟨_, _, _, _, h1, by omega, by omega, ?_, rfl⟩
            intro hf
            first
              | exact absurd hf (by decide)
              | omega
  | outer n2 =>
    simp only
    unfold addBipNode at hres
    cases isRoot <;> simp only [Bool.false_eq_true, if_false, if_true, insertAt_length, List.length_map] at hres key <;>
    · split at hres
      · cases hres
      · rename_i hsz
        split at hres
        · cases hres
        · rename_i sel hsel
          split at hres
          · rename_i hany
            injection hres with hres
            subst hres
            obtain ⟨h1, h2, h3, h4, hA, hB⟩ := key sel hsel
            have hz : 1 ≤ sel.countP (·.isNone) := by
              obtain ⟨a, ha, hn⟩ := List.any_eq_true.mp hany
              exact List.countP_pos_iff.mpr ⟨a, ha, hn⟩
            simp only [Bool.or_eq_true, decide_eq_true_eq, not_or] at hsz
            exact ⟨_, _, _, h1, by omega, by omega, rfl⟩
          · cases hres

theorem leaves_of_len {u t : T} (hlen : u.kids.length = t.kids.length) (hname : u.name = t.name)
    (hl : (leavesL u.kids).Perm (leavesL t.kids)) : u.leaves.Perm t.leaves := by
  obtain ⟨d, p, k⟩ := u
  obtain ⟨d', p', k'⟩ := t
  simp only [T.kids_node] at hlen hl
  have hn' : d.name = d'.name := hname
  rw [T.leaves_node, T.leaves_node]
  have he : k.isEmpty = k'.isEmpty := by
    cases k <;> cases k' <;> simp_all
  rw [he, hn']
  split
  · exact List.Perm.refl _
  · exact hl

theorem leavesL_snoc (A : Kids) (e : EdgeD) (c : T) : leavesL (A ++ [(e, c)]) = leavesL A ++ c.leaves := by
  rw [leavesL_append, leavesL_cons]; simp [leavesL]

theorem leaves_grouped (m : Nat) (B : Kids) (hB : 2 ≤ B.length) :
    (T.node ⟨"", []⟩ m (B.map fr)).leaves = leavesL B := by
  rw [T.leaves_node, leavesL_map_fr]
  have : (B.map fr).isEmpty = false := by cases B <;> simp_all
  simp [this]

theorem leaves_kept (d : NodeD) (A : Kids) (hA : 2 ≤ A.length) : (T.node d A.length A).leaves = leavesL A := by
  rw [T.leaves_node]
  have : A.isEmpty = false := by cases A <;> simp_all
  simp [this]

/-- the tips below the node are kept by `AddBipartition` at that node -/
theorem addBipNode_leaves (isRoot : Bool) (S : List Nat) (len sup : Rat) (d : NodeD) (p : Nat) (k : Kids)
    (hnd : S.Nodup) :
    match addBipNode isRoot S len sup (.node d p k) with
    | .err => True
    | .inner n' => (leavesL n'.kids).Perm (leavesL k) ∧ n'.name = d.name ∧ n'.kids ≠ [] ∧ k ≠ [] ∧
        (isRoot = true → n'.kids.length ≠ 1 ∧ k.length ≠ 1)
    | .outer n2 => n2.leaves.Perm (leavesL k) ∧ k ≠ [] := by
  have h := addBipNode_sized isRoot S len sup d p k hnd
  cases hres : addBipNode isRoot S len sup (.node d p k) with
  | err => trivial
  | inner n' =>
    rw [hres] at h
    obtain ⟨A, B, pp, m, hp, hB, _, hA, rfl⟩ := h
    have hk : k ≠ [] := by
      intro hk; subst hk
      have := hp.length_eq
      simp only [List.length_append, List.length_nil] at this; omega
    refine ⟨?_, rfl, by simp, hk, ?_⟩
    · simp only [T.kids_node, leavesL_snoc, leaves_grouped m B hB]
      rw [← leavesL_append]
      exact leavesL_perm hp
    · intro hr
      have := hp.length_eq
      have hA' := hA hr
      simp only [T.kids_node, List.length_append, List.length_cons, List.length_nil] at this ⊢
      omega
  | outer n2 =>
    rw [hres] at h
    obtain ⟨A, B, pp, hp, hA, _, rfl⟩ := h
    have hk : k ≠ [] := by
      intro hk; subst hk
      have := hp.length_eq
      simp only [List.length_append, List.length_nil] at this; omega
    refine ⟨?_, hk⟩
    rw [T.leaves_node]
    have : (B.map fr ++ [((⟨len, sup, NIL, [], -1⟩ : EdgeD), T.node d A.length A)]).isEmpty = false := by simp
    simp only [this, Bool.false_eq_true, if_false, leavesL_snoc, leavesL_map_fr, leaves_kept d A hA]
    rw [← leavesL_append]
    exact leavesL_perm ((List.perm_append_comm).trans hp)

mutual
theorem addBipAt_inv (S : List Nat) (len sup : Rat) (hnd : S.Nodup) : ∀ (i : Nat) (p : List Nat) (t t' : T),
    addBipAt S len sup (i :: p) t = some t' →
    (leavesL t'.kids).Perm (leavesL t.kids) ∧ t'.kids.length = t.kids.length ∧ t'.name = t.name
  | i, p, .node d pp k, t', h => by
    simp only [addBipAt] at h
    split at h
    · cases h
    · rename_i k' hk
      have := addBipL_inv S len sup hnd i p k k' none hk
      simp only [Option.some.injEq] at h; subst h
      exact ⟨this.1, this.2, rfl⟩
    · rename_i k' eP n2 hk
      have := addBipL_inv S len sup hnd i p k k' (some (eP, n2)) hk
      simp only [Option.some.injEq] at h; subst h
      simp only [T.kids_node, leavesL_snoc, List.length_append, List.length_cons, List.length_nil]
      exact ⟨this.1, this.2, rfl⟩
theorem addBipL_inv (S : List Nat) (len sup : Rat) (hnd : S.Nodup) : ∀ (i : Nat) (p : List Nat) (k k' : Kids)
    (o : Option (EdgeD × T)), addBipL S len sup i p k = some (k', o) →
    match o with
    | none => (leavesL k').Perm (leavesL k) ∧ k'.length = k.length
    | some en => (leavesL k' ++ en.2.leaves).Perm (leavesL k) ∧ k'.length + 1 = k.length
  | _, _, [], k', o, h => by simp [addBipL] at h
  | 0, [], (e, .node d pp kk) :: r, k', o, h => by
    have hn := addBipNode_leaves false S len sup d pp kk hnd
    simp only [addBipL] at h
    split at h
    · cases h
    · rename_i t' ht
      rw [ht] at hn
      simp only [Option.some.injEq, Prod.mk.injEq] at h
      obtain ⟨rfl, rfl⟩ := h
      obtain ⟨h1, h2, h3, h4, _⟩ := hn
      simp only [leavesL_cons, List.length_cons, and_true]
      refine List.Perm.append_right _ ?_
      have ht' : t' = .node t'.d t'.ppos t'.kids := by cases t'; rfl
      rw [ht', T.leaves_node, T.leaves_node]
      have e1 : t'.kids.isEmpty = false := by
        cases hk : t'.kids with
        | nil => exact absurd hk h3
        | cons _ _ => rfl
      have e2 : kk.isEmpty = false := by
        cases kk with
        | nil => exact absurd rfl h4
        | cons _ _ => rfl
      simp only [e1, e2, Bool.false_eq_true, if_false]
      exact h1
    · rename_i n2 ht
      rw [ht] at hn
      simp only [Option.some.injEq, Prod.mk.injEq] at h
      obtain ⟨rfl, rfl⟩ := h
      obtain ⟨h1, h4⟩ := hn
      simp only [leavesL_cons, List.length_cons, and_true]
      have e2 : kk.isEmpty = false := by
        cases kk with
        | nil => exact absurd rfl h4
        | cons _ _ => rfl
      rw [T.leaves_node]
      simp only [e2, Bool.false_eq_true, if_false]
      exact (List.perm_append_comm).trans (List.Perm.append_right _ h1)
  | 0, j :: q, (e, t) :: r, k', o, h => by
    simp only [addBipL] at h
    split at h
    · rename_i t' ht
      obtain ⟨a1, a2, a3⟩ := addBipAt_inv S len sup hnd j q t t' ht
      simp only [Option.some.injEq, Prod.mk.injEq] at h
      obtain ⟨rfl, rfl⟩ := h
      simp only [leavesL_cons, List.length_cons, and_true]
      exact List.Perm.append_right _ (leaves_of_len a2 a3 a1)
    · cases h
  | i + 1, p, x :: r, k', o, h => by
    simp only [addBipL] at h
    split at h
    · rename_i k'' o' hk
      have ih := addBipL_inv S len sup hnd i p r k'' o' hk
      simp only [Option.some.injEq, Prod.mk.injEq] at h
      obtain ⟨rfl, rfl⟩ := h
      obtain ⟨e, c⟩ := x
      cases o' with
      | none =>
        simp only [leavesL_cons, List.length_cons] at ih ⊢
        exact ⟨List.Perm.append_left _ ih.1, by omega⟩
      | some en =>
        simp only [leavesL_cons, List.length_cons, List.append_assoc] at ih ⊢
        exact ⟨List.Perm.append_left _ ih.1, by omega⟩
    · cases h
end

/- ## CollapseClade: a non-root node replaced by a tip -/

/-- a node replaced by a tip `name`: the tips below it (`s`) give way to the one name -/
def Replaced (name : String) (l l' : List String) : Prop :=
  l' = l ∨ ∃ a s c, l = a ++ s ++ c ∧ l' = a ++ [name] ++ c

theorem Replaced.prefix {name : String} {l l' : List String} (x : List String) (h : Replaced name l l') :
    Replaced name (x ++ l) (x ++ l') := by
  rcases h with h | ⟨a, s, c, h1, h2⟩
  · exact Or.inl (by rw [h])
  · exact Or.inr ⟨x ++ a, s, c, by simp [h1], by simp [h2]⟩

theorem Replaced.suffix {name : String} {l l' : List String} (y : List String) (h : Replaced name l l') :
    Replaced name (l ++ y) (l' ++ y) := by
  rcases h with h | ⟨a, s, c, h1, h2⟩
  · exact Or.inl (by rw [h])
  · exact Or.inr ⟨a, s, c ++ y, by simp [h1], by simp [h2]⟩

theorem Replaced.nodup {name : String} {l l' : List String} (h : Replaced name l l') (hn : l.Nodup)
    (hm : name ∉ l) : l'.Nodup := by
  rcases h with h | ⟨a, s, c, h1, h2⟩
  · rw [h]; exact hn
  · subst h1 h2
    have hsub : (a ++ c).Sublist (a ++ s ++ c) := by
      rw [List.append_assoc]
      exact List.Sublist.append_left (List.sublist_append_right s c) a
    have h1 : (a ++ c).Nodup := hsub.nodup hn
    have h2 : name ∉ a ++ c := fun hx => hm (hsub.subset hx)
    have hp : (a ++ [name] ++ c).Perm (name :: (a ++ c)) := by
      simpa using (List.perm_middle (a := name) (l₁ := a) (l₂ := c))
    exact hp.nodup_iff.mpr (List.nodup_cons.mpr ⟨h2, h1⟩)

theorem modAtL_repl (name : String) : ∀ (i : Nat) (p : List Nat) (k : Kids),
    (modAtL (fun _ _ => T.leaf name) i p k).length = k.length ∧
    (noSingleL k = true → noSingleL (modAtL (fun _ _ => T.leaf name) i p k) = true) ∧
    Replaced name (leavesL k) (leavesL (modAtL (fun _ _ => T.leaf name) i p k))
  | _, _, [] => by simp [modAtL, Replaced]
  | 0, [], (e, t) :: r => by
    refine ⟨by simp [modAtL], ?_, ?_⟩
    · intro h
      simp only [noSingleL, Bool.and_eq_true] at h
      simp [modAtL, modAt, noSingleL, T.leaf, T.noSingleBelow, h.2]
    · refine Or.inr ⟨[], t.leaves, leavesL r, by simp [leavesL_cons], ?_⟩
      simp [modAtL, modAt, leavesL_cons, T.leaf, T.leaves]
  | 0, j :: q, (e, .node d pp kk) :: r => by
    obtain ⟨h1, h2, h3⟩ := modAtL_repl name j q kk
    refine ⟨by simp [modAtL], ?_, ?_⟩
    · intro h
      simp only [noSingleL, Bool.and_eq_true, noSingleBelow_node] at h
      simp only [modAtL, modAt, noSingleL, Bool.and_eq_true, noSingleBelow_node, h1]
      exact ⟨⟨h.1.1, h2 h.1.2⟩, h.2⟩
    · simp only [modAtL, modAt, leavesL_cons]
      refine Replaced.suffix _ ?_
      rw [T.leaves_node, T.leaves_node]
      have he : (modAtL (fun _ _ => T.leaf name) j q kk).isEmpty = kk.isEmpty := by
        cases hk : kk <;> cases hm : modAtL (fun _ _ => T.leaf name) j q kk <;> simp_all
      rw [he]
      split
      · exact Or.inl rfl
      · exact h3
  | i + 1, p, (e, t) :: r => by
    obtain ⟨h1, h2, h3⟩ := modAtL_repl name i p r
    refine ⟨by simp [modAtL, h1], ?_, ?_⟩
    · intro h
      simp only [noSingleL, Bool.and_eq_true] at h
      simp only [modAtL, noSingleL, Bool.and_eq_true]
      exact ⟨h.1, h2 h.2⟩
    · simp only [modAtL, leavesL_cons]
      exact Replaced.prefix _ h3

/-- replacing a non-root node by a tip with a new name keeps the tip names distinct and creates no
    single-child node -/
theorem replaceAt_inv (name : String) (i : Nat) (q : List Nat) (t : T) (hu : t.tipNames.Nodup)
    (hn : name ∉ t.tipNames) :
    (modAt (fun _ _ => T.leaf name) true (i :: q) t).tipNames.Nodup ∧
    (t.noSingle = true → (modAt (fun _ _ => T.leaf name) true (i :: q) t).noSingle = true) := by
  obtain ⟨d, pp, k⟩ := t
  obtain ⟨h1, h2, h3⟩ := modAtL_repl name i q k
  simp only [modAt, T.noSingle, T.kids_node]
  refine ⟨?_, h2⟩
  unfold T.tipNames at hu hn ⊢
  simp only [T.kids_node, h1] at hu hn ⊢
  exact (Replaced.prefix _ h3).nodup hu hn
/- ## AddBipartition creates no single-child node -/

theorem nsL_append (a b : Kids) : noSingleL (a ++ b) = (noSingleL a && noSingleL b) := by
  simp [noSingleL_eq_all, List.all_append]

theorem reparent_ns (c : T) : (reparent c).noSingleBelow = c.noSingleBelow := by
  obtain ⟨d, p, k⟩ := c
  simp [reparent, noSingleBelow_node]

theorem nsL_map_fr : ∀ (B : Kids), noSingleL (B.map fr) = noSingleL B
  | [] => rfl
  | (e, c) :: r => by simp [fr, noSingleL, reparent_ns, nsL_map_fr r]

theorem addBipNode_ns (isRoot : Bool) (S : List Nat) (len sup : Rat) (d : NodeD) (p : Nat) (k : Kids)
    (hnd : S.Nodup) (hk : noSingleL k = true) :
    match addBipNode isRoot S len sup (.node d p k) with
    | .err => True
    | .inner n' => noSingleL n'.kids = true ∧ (isRoot = false → n'.kids.length ≠ 1)
    | .outer n2 => n2.noSingleBelow = true := by
  have h := addBipNode_sized isRoot S len sup d p k hnd
  cases hres : addBipNode isRoot S len sup (.node d p k) with
  | err => trivial
  | inner n' =>
    rw [hres] at h
    obtain ⟨A, B, pp, m, hp, hB, hA1, _, rfl⟩ := h
    have hab : noSingleL (A ++ B) = true := by rw [noSingleL_perm hp]; exact hk
    rw [nsL_append, Bool.and_eq_true] at hab
    refine ⟨?_, fun _ => ?_⟩
    · simp only [T.kids_node, nsL_append, noSingleL, noSingleBelow_node, nsL_map_fr, List.length_map, hab.1, hab.2,
        Bool.and_true, Bool.true_and, bne_iff_ne, ne_eq, decide_eq_true_eq, Bool.and_eq_true]
      omega
    · simp only [T.kids_node, List.length_append, List.length_cons, List.length_nil]; omega
  | outer n2 =>
    rw [hres] at h
    obtain ⟨A, B, pp, hp, hA, hB, rfl⟩ := h
    have hab : noSingleL (A ++ B) = true := by rw [noSingleL_perm hp]; exact hk
    rw [nsL_append, Bool.and_eq_true] at hab
    simp only [noSingleBelow_node, nsL_append, noSingleL, nsL_map_fr, hab.1, hab.2, List.length_append, List.length_map,
      List.length_cons, List.length_nil, Bool.and_true, Bool.true_and, Bool.and_eq_true, bne_iff_ne, ne_eq]
    exact ⟨by omega, by omega⟩

mutual
theorem addBipAt_ns (S : List Nat) (len sup : Rat) (hnd : S.Nodup) : ∀ (i : Nat) (p : List Nat) (t t' : T),
    addBipAt S len sup (i :: p) t = some t' → noSingleL t.kids = true → noSingleL t'.kids = true
  | i, p, .node d pp k, t', h, hk => by
    simp only [addBipAt] at h
    split at h
    · cases h
    · rename_i k' hkk
      have := addBipL_ns S len sup hnd i p k k' none hkk hk
      simp only [Option.some.injEq] at h; subst h
      exact this
    · rename_i k' eP n2 hkk
      have := addBipL_ns S len sup hnd i p k k' (some (eP, n2)) hkk hk
      simp only [Option.some.injEq] at h; subst h
      simp only [T.kids_node, nsL_append, noSingleL, this.1, this.2, Bool.and_true]
theorem addBipL_ns (S : List Nat) (len sup : Rat) (hnd : S.Nodup) : ∀ (i : Nat) (p : List Nat) (k k' : Kids)
    (o : Option (EdgeD × T)), addBipL S len sup i p k = some (k', o) → noSingleL k = true →
    match o with
    | none => noSingleL k' = true
    | some en => noSingleL k' = true ∧ en.2.noSingleBelow = true
  | _, _, [], k', o, h, _ => by simp [addBipL] at h
  | 0, [], (e, .node d pp kk) :: r, k', o, h, hk => by
    simp only [noSingleL, Bool.and_eq_true, noSingleBelow_node] at hk
    have hn := addBipNode_ns false S len sup d pp kk hnd hk.1.2
    simp only [addBipL] at h
    split at h
    · cases h
    · rename_i t' ht
      rw [ht] at hn
      simp only [Option.some.injEq, Prod.mk.injEq] at h
      obtain ⟨rfl, rfl⟩ := h
      have ht' : t' = .node t'.d t'.ppos t'.kids := by cases t'; rfl
      simp only [noSingleL, Bool.and_eq_true, hk.2, and_true]
      rw [ht', noSingleBelow_node, Bool.and_eq_true]
      exact ⟨by simpa using hn.2 rfl, hn.1⟩
    · rename_i n2 ht
      rw [ht] at hn
      simp only [Option.some.injEq, Prod.mk.injEq] at h
      obtain ⟨rfl, rfl⟩ := h
      exact ⟨hk.2, hn⟩
  | 0, j :: q, (e, t) :: r, k', o, h, hk => by
    simp only [addBipL] at h
    split at h
    · rename_i t' ht
      obtain ⟨_, a2, _⟩ := addBipAt_inv S len sup hnd j q t t' ht
      simp only [Option.some.injEq, Prod.mk.injEq] at h
      obtain ⟨rfl, rfl⟩ := h
      have ht0 : t = .node t.d t.ppos t.kids := by cases t; rfl
      have ht' : t' = .node t'.d t'.ppos t'.kids := by cases t'; rfl
      rw [ht0] at hk
      simp only [noSingleL, Bool.and_eq_true, noSingleBelow_node] at hk
      have := addBipAt_ns S len sup hnd j q t t' ht hk.1.2
      simp only [noSingleL, Bool.and_eq_true, hk.2, and_true]
      rw [ht', noSingleBelow_node, Bool.and_eq_true, a2]
      exact ⟨hk.1.1, this⟩
    · cases h
  | i + 1, p, x :: r, k', o, h, hk => by
    simp only [addBipL] at h
    split at h
    · rename_i k'' o' hkk
      obtain ⟨e, c⟩ := x
      simp only [noSingleL, Bool.and_eq_true] at hk
      have ih := addBipL_ns S len sup hnd i p r k'' o' hkk hk.2
      simp only [Option.some.injEq, Prod.mk.injEq] at h
      obtain ⟨rfl, rfl⟩ := h
      cases o' with
      | none => simp only [noSingleL, Bool.and_eq_true] at ih ⊢; exact ⟨hk.1, ih⟩
      | some en => simp only [noSingleL, Bool.and_eq_true] at ih ⊢; exact ⟨⟨hk.1, ih.1⟩, ih.2⟩
    · cases h
end

end Gotree.C03
