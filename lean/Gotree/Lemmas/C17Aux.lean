/-
  C17 — small helpers used by the property theorems.
-/
import Gotree.Lemmas.C17Sim
import Gotree.Spec.C17

namespace Gotree.C17
open Gotree

/-- what `Apply` keeps, for every proposed rearrangement (helper for the next theorems) -/
theorem apply_RK (t t' : T) (r : NNI) (hpos : pposOK t = true) (h : r ∈ rearrangements t)
    (ha : apply t r = some t') : RK t t' := by
  obtain ⟨S, hs, hP⟩ := rearrangements_generic
    (fun S r => ∀ S', applyLocal r.path.isEmpty r S = some S' → RK S S')
    (by
      intro path isRoot d1 p1 k1 j e d2 p2 u v cross site
      have hr : (newNNI path isRoot p1 j p2 cross).path.isEmpty = isRoot := by
        simp [newNNI, site.root]
      rw [hr]
      exact local_RK d1 cross site)
    t hpos r h
  exact RK.lift _ r.path t t' S hs ha hP

theorem mem_of_diffCount_one {A B : Spec.SplitSet} (h : Spec.diffCount A B = 1) : ∃ a, a ∈ A ∧ a ∉ B := by
  unfold Spec.diffCount at h
  match hf : A.filter (fun s => !B.contains s), h with
  | [a], _ =>
    have : a ∈ A.filter (fun s => !B.contains s) := by rw [hf]; simp
    simp only [List.mem_filter, Bool.not_eq_true', List.contains_eq_mem, decide_eq_false_iff_not] at this
    exact ⟨a, this.1, this.2⟩

theorem eq_of_diffCount_one {A B : Spec.SplitSet} (h : Spec.diffCount A B = 1) {a b : List String}
    (ha : a ∈ A) (ha' : a ∉ B) (hb : b ∈ A) (hb' : b ∉ B) : a = b := by
  unfold Spec.diffCount at h
  have ma : a ∈ A.filter (fun s => !B.contains s) := by simp [ha, ha']
  have mb : b ∈ A.filter (fun s => !B.contains s) := by simp [hb, hb']
  match hf : A.filter (fun s => !B.contains s), h with
  | [x], _ =>
    rw [hf] at ma mb
    simp only [List.mem_singleton] at ma mb
    rw [ma, mb]

end Gotree.C17
