/-
  C07 — the collapse oracle `collapseOK` (Spec/C07.lean) holds of the model, on every tree.

  The oracle is written with the DEFINITE / AMBIGUOUS readings of the criterion (an absent length is
  ambiguous); the model follows the code's sentinel reading `Crit.holds` = definite ∨ ambiguous.  What the
  model leaves of one branch of the input (`outE`) is: its mandatory key if it has one, plus possibly
  some of its optional keys — which is what the oracle accepts.
-/
import Gotree.Lemmas.C07Oracle
import Gotree.Lemmas.C07Single

namespace Gotree.C07
open Gotree

/- ## multisets -/

theorem msub_of_perm_sublist {α : Type} [BEq α] [LawfulBEq α] :
    ∀ (a l b : List α), a.Perm l → l.Sublist b → msub a b = true
  | [], _, _, _, _ => rfl
  | x :: r, l, b, hp, hs => by
    have hx : x ∈ b := hs.subset (hp.subset List.mem_cons_self)
    have hr : r.Perm (l.erase x) := by
      have := hp.erase x
      rwa [List.erase_cons_head] at this
    simp only [msub, Bool.and_eq_true]
    exact ⟨List.contains_iff_mem.mpr hx, msub_of_perm_sublist r _ _ hr (hs.erase x)⟩

theorem filterMap_split_flat {α γ : Type} (g m : α → Option γ) (k : α → List γ) :
    ∀ l : List α, (∀ x ∈ l, (g x).toList = (m x).toList ++ k x) →
      (l.filterMap g).Perm (l.filterMap m ++ l.flatMap k)
  | [], _ => by simp
  | a :: r, h => by
    have ih := filterMap_split_flat g m k r (fun x hx => h x (List.mem_cons_of_mem _ hx))
    have ha := h a List.mem_cons_self
    have e1 : (a :: r).filterMap g = (g a).toList ++ r.filterMap g := by
      cases hg : g a <;> simp [List.filterMap_cons, hg]
    have e2 : (a :: r).filterMap m = (m a).toList ++ r.filterMap m := by
      cases hm : m a <;> simp [List.filterMap_cons, hm]
    rw [e1, e2, ha, List.flatMap_cons]
    simp only [List.append_assoc]
    refine List.Perm.append_left _ ?_
    refine (List.Perm.append_left _ ih).trans ?_
    exact (List.perm_append_comm_assoc _ _ _)

theorem flatMap_sublist {α γ : Type} (k o : α → List γ) :
    ∀ l : List α, (∀ x ∈ l, (k x).Sublist (o x)) → (l.flatMap k).Sublist (l.flatMap o)
  | [], _ => by simp
  | a :: r, h => by
    simp only [List.flatMap_cons]
    exact (h a List.mem_cons_self).append (flatMap_sublist k o r (fun x hx => h x (List.mem_cons_of_mem _ hx)))

/- ## what the model leaves of one branch -/

theorem holds_eq_definite_or_ambiguous (crit : Crit) (e : Ent) :
    crit.holds e = (crit.definite e || crit.ambiguous e) := by
  cases crit with
  | len l =>
    simp only [Crit.holds, Crit.definite, Crit.ambiguous]
    by_cases h : e.len = NIL
    · simp [h]
    · have : (e.len == NIL) = false := by simpa using h
      simp [this, h]
  | sup s => simp [Crit.definite, Crit.ambiguous]
  | depth mn mx => simp [Crit.definite, Crit.ambiguous]
  | ids l => simp [Crit.definite, Crit.ambiguous]

theorem definite_ambiguous_excl (crit : Crit) (e : Ent) : crit.ambiguous e = true → crit.definite e = false := by
  cases crit with
  | len l =>
    simp only [Crit.definite, Crit.ambiguous, Bool.and_eq_true, beq_iff_eq]
    intro h; simp [h.1]
  | sup s => simp [Crit.ambiguous]
  | depth mn mx => simp [Crit.ambiguous]
  | ids l => simp [Crit.ambiguous]

/-- what is left of a branch of the input, as the model (= the code) treats it; `rr` = `removeRoot` -/
def outE (crit : Crit) (rt rr : Bool) (e : Ent) : Option Key :=
  if e.tip then some (if rt && crit.holds e then e.key0 else e.key)
  else if crit.holds e && !(e.prot && !rr) then none else some e.key

/-- the optional keys the model keeps: the selected root branches of a rooted tree, without `removeRoot` -/
def keptKeys (crit : Crit) (rr : Bool) (e : Ent) : List Key :=
  if !e.tip && crit.holds e && e.prot && !rr then [e.key] else []

theorem outE_split (crit : Crit) (rt rr : Bool) (e : Ent) :
    (outE crit rt rr e).toList = (mandKeyR crit.holds rt e).toList ++ keptKeys crit rr e := by
  unfold outE mandKeyR keptKeys
  cases ht : e.tip <;> cases hh : crit.holds e <;> cases rt <;> cases hp : e.prot <;> cases rr <;> simp

/-- what the model keeps is optional for the oracle — provided the oracle is not given `--root` while the
    model runs without it -/
theorem keptKeys_sublist (crit : Crit) (rrM rrO : Bool) (h : rrO = true → rrM = true) (e : Ent) :
    (keptKeys crit rrM e).Sublist (optKeysR crit.holds rrO e) := by
  unfold keptKeys optKeysR
  cases ht : e.tip <;> cases hh : crit.holds e <;> cases hp : e.prot <;> cases rrM <;> cases rrO <;> simp_all

/-- The general form: if the branches of `a` are, key for key, what the model (run with `removeRoot = rrM`)
    leaves of the branches of `b` (`outE`), the oracle given `rrO` accepts `a` — under the code's reading
    of the criterion, the first of its two alternatives. -/
theorem collapseOKr_of_out (crit : Crit) (rt rrM rrO : Bool) (hrr : rrO = true → rrM = true) (b a : T)
    (htips : a.tipNames.Perm b.tipNames) (hname : a.d = b.d)
    (hperm : ((ents b.tipNames a).map Ent.key).Perm ((ents b.tipNames b).filterMap (outE crit rt rrM))) :
    collapseOKr crit rt rrO b a = true := by
  have h1 : (sortS a.tipNames == sortS b.tipNames) = true := by
    rw [sortS_perm_eq htips]; exact beq_self_eq_true _
  have h2 : (a.name == b.name) = true := by
    unfold T.name; rw [hname]; exact beq_self_eq_true _
  have hsplit := filterMap_split_flat (outE crit rt rrM) (mandKeyR crit.holds rt) (keptKeys crit rrM) (ents b.tipNames b)
    (fun e _ => outE_split crit rt rrM e)
  have hp := hperm.trans hsplit
  have hsub := flatMap_sublist (keptKeys crit rrM) (optKeysR crit.holds rrO) (ents b.tipNames b)
    (fun e _ => keptKeys_sublist crit rrM rrO hrr e)
  have h3 := msub_append_of_perm _ _ _ hp
  have h4 := msub_of_perm_sublist _ _ _ (mdiff_perm_append _ _ _ hp) hsub
  unfold collapseOKr
  have : collapseUnder crit.holds rt rrO b a = true := by
    unfold collapseUnder
    simp only [h1, h2, h3, h4, Bool.and_self]
  rw [this]; rfl

theorem collapseOK_of_out (crit : Crit) (rt rr : Bool) (b a : T)
    (htips : a.tipNames.Perm b.tipNames) (hname : a.d = b.d)
    (hperm : ((ents b.tipNames a).map Ent.key).Perm ((ents b.tipNames b).filterMap (outE crit rt rr))) :
    collapseOK crit rt b a = true :=
  collapseOKr_of_out crit rt rr false (by simp) b a htips hname hperm

end Gotree.C07

namespace Gotree.C07
open Gotree

/- ## bridges between the Spec's traversal and the (flagged) observation lists -/

def Ent.tupP (e : Ent) : Tup × Bool := (e.tup, e.prot)
def obsTupP (x : Obs FB × Bool) : Tup × Bool := (obsTup x.1, x.2)

theorem entsT_tupP (all : List String) (c : T) :
    (entsT all c).map Ent.tupP = ((obsT (FF all) c).map (fun x => (x, false))).map obsTupP := by
  have h1 := entsT_tup all c
  have hp := entsT_prot all c
  rw [List.map_map]
  have : (entsT all c).map Ent.tupP = ((entsT all c).map Ent.tup).map (fun u => (u, false)) := by
    rw [List.map_map]
    apply List.map_congr_left
    intro e he
    simp [Ent.tupP, hp e he]
  rw [this, h1, List.map_map]
  rfl

theorem entsL_tupP (all : List String) (top pd : Bool) :
    ∀ k : Kids, (entsL all top false pd k).map Ent.tupP = (obsGL (FF all) pd k).map obsTupP
  | [] => by simp [entsL, obsGL]
  | (e, c) :: r => by
    have h1 := entsT_tupP all c
    have h2 := entsL_tupP all top pd r
    simp only [entsL, obsGL, List.map_cons, List.map_append, h1, h2]
    congr 1
    simp [Ent.tupP, Ent.tup, obsTupP, obsTup, FF, T.name]

theorem ents_tupP (all : List String) (t : T) (h1 : t.kids.length ≠ 1) :
    (ents all t).map Ent.tupP = (obsGRoot (FF all) t).map obsTupP := by
  unfold ents obsGRoot
  have : (t.kids.length == 1) = false := by simpa using h1
  rw [this]
  exact entsL_tupP all true _ t.kids

/-- `outE` on flagged tuples -/
def outT (crit : Crit) (rt rr : Bool) (u : Tup × Bool) : Option Key :=
  if u.1.2.2.2.1 then some (if rt && holdsT crit u.1 then (u.1.1, 0, u.1.2.2.1, u.1.2.2.2.2.1) else keyT u.1)
  else if holdsT crit u.1 && !(u.2 && !rr) then none else some (keyT u.1)

theorem outE_tupP (crit : Crit) (rt rr : Bool) (e : Ent) : outE crit rt rr e = outT crit rt rr e.tupP := by
  unfold outE outT
  rw [holds_tup]
  rfl

theorem outT_keepG (crit : Crit) (rt : Bool) (x : Obs FB × Bool) :
    (keepG (critV crit) rt x).map (fun y => keyT (obsTup y.1)) = outT crit rt false (obsTupP x) := by
  obtain ⟨⟨fb, e, tip, d⟩, prot⟩ := x
  unfold keepG outT obsTupP
  rw [holdsT_obsTup]
  cases hc : critV crit (fb, e, tip) <;> cases tip <;> cases prot <;> cases rt <;> simp [keyT, obsTup, zeroLen]

theorem outT_keepV (crit : Crit) (rt : Bool) (x : Obs FB × Bool) :
    (keepV (critV crit) rt x.1).map (fun y => keyT (obsTup y)) = outT crit rt true (obsTupP x) := by
  obtain ⟨⟨fb, e, tip, d⟩, prot⟩ := x
  unfold keepV outT obsTupP
  rw [holdsT_obsTup]
  cases hc : critV crit (fb, e, tip) <;> cases tip <;> cases prot <;> cases rt <;> simp [keyT, obsTup, zeroLen]

theorem ents_out (crit : Crit) (rt rr : Bool) (all : List String) (b : T) (hb1 : b.kids.length ≠ 1) :
    (ents all b).filterMap (outE crit rt rr) = (obsGRoot (FF all) b).filterMap (fun x => outT crit rt rr (obsTupP x)) := by
  have h0 : (ents all b).filterMap (outE crit rt rr) = ((ents all b).map Ent.tupP).filterMap (outT crit rt rr) := by
    rw [List.filterMap_map]
    congr 1
    funext e
    exact outE_tupP crit rt rr e
  rw [h0, ents_tupP _ b hb1, List.filterMap_map]; rfl

theorem ents_keysG (all : List String) (a : T) (ha1 : a.kids.length ≠ 1) :
    (ents all a).map Ent.key = (obsGRoot (FF all) a).map (fun y => keyT (obsTup y.1)) := by
  have := ents_tupP all a ha1
  have h2 : (ents all a).map Ent.key = ((ents all a).map Ent.tupP).map (fun u => keyT u.1) := by
    rw [List.map_map]; rfl
  rw [h2, this, List.map_map]; rfl

/-- without `removeRoot`: from `collapse_exact_general` -/
theorem collapseOK_of_obsG (crit : Crit) (rt : Bool) (b a : T)
    (hb1 : b.kids.length ≠ 1) (ha1 : a.kids.length ≠ 1)
    (htips : a.tipNames.Perm b.tipNames) (hname : a.d = b.d)
    (hobs : (obsGRoot (FF b.tipNames) a).Perm ((obsGRoot (FF b.tipNames) b).filterMap (keepG (critV crit) rt))) :
    collapseOK crit rt b a = true := by
  apply collapseOK_of_out crit rt false b a htips hname
  rw [ents_out _ _ _ _ b hb1, ents_keysG _ a ha1]
  refine (hobs.map _).trans (List.Perm.of_eq ?_)
  rw [List.map_filterMap]
  apply filterMap_congr'
  intro x _
  exact outT_keepG crit rt x

/-- every selected inner branch gone (what `removeRoot` does, and what happens on an unrooted tree):
    from `collapse_exact` -/
theorem collapseOKr_of_obs' (crit : Crit) (rt rrO : Bool) (b a : T)
    (hb1 : b.kids.length ≠ 1) (ha1 : a.kids.length ≠ 1)
    (htips : a.tipNames.Perm b.tipNames) (hname : a.d = b.d)
    (hobs : (obsT (FF b.tipNames) a).Perm ((obsT (FF b.tipNames) b).filterMap (keepV (critV crit) rt))) :
    collapseOKr crit rt rrO b a = true := by
  apply collapseOKr_of_out crit rt true rrO (fun _ => rfl) b a htips hname
  rw [ents_out _ _ _ _ b hb1]
  have hk : (ents b.tipNames a).map Ent.key = (obsT (FF b.tipNames) a).map (fun y => keyT (obsTup y)) := by
    have := ents_tup b.tipNames a ha1
    have h2 : (ents b.tipNames a).map Ent.key = ((ents b.tipNames a).map Ent.tup).map keyT := by
      rw [List.map_map]; rfl
    rw [h2, this, List.map_map]; rfl
  rw [hk]
  refine (hobs.map _).trans (List.Perm.of_eq ?_)
  have hf : obsT (FF b.tipNames) b = (obsGRoot (FF b.tipNames) b).map Prod.fst := by
    rw [obsT_kids]; exact (obsGL_fst _ _ _).symm
  rw [hf, List.filterMap_map, List.map_filterMap]
  apply filterMap_congr'
  intro x _
  exact outT_keepV crit rt x

theorem collapseOK_of_obs' (crit : Crit) (rt : Bool) (b a : T)
    (hb1 : b.kids.length ≠ 1) (ha1 : a.kids.length ≠ 1)
    (htips : a.tipNames.Perm b.tipNames) (hname : a.d = b.d)
    (hobs : (obsT (FF b.tipNames) a).Perm ((obsT (FF b.tipNames) b).filterMap (keepV (critV crit) rt))) :
    collapseOK crit rt b a = true :=
  collapseOKr_of_obs' crit rt false b a hb1 ha1 htips hname hobs

theorem collapseOK_of_obs (crit : Crit) (rt : Bool) (b a : T)
    (hb3 : 3 ≤ b.kids.length) (_hns : b.noSingle = true) (ha1 : a.kids.length ≠ 1)
    (htips : a.tipNames.Perm b.tipNames) (hname : a.d = b.d)
    (hobs : (obsT (FF b.tipNames) a).Perm ((obsT (FF b.tipNames) b).filterMap (keepV (critV crit) rt))) :
    collapseOK crit rt b a = true :=
  collapseOK_of_obs' crit rt b a (by omega) ha1 htips hname hobs

end Gotree.C07

namespace Gotree.C07
open Gotree

/- ## a root that is a tip -/

/-- the entry of the branch of a tip-root: a tip branch whatever hangs below -/
def tipRootEnt (all : List String) (e : EdgeD) (c : T) : Ent :=
  ⟨canonSide all c.leaves, e.len, e.sup, c.isLeaf || true, c.name, true, lightSize all c.leaves, e.id, false⟩

theorem ents_tiproot (all : List String) (d : NodeD) (p : Nat) (e : EdgeD) (c : T) :
    ents all (.node d p [(e, c)]) = tipRootEnt all e c :: (entsT all c ++ []) := by
  simp [ents, entsL, tipRootEnt]

theorem holds_tipRootEnt (crit : Crit) (all : List String) (e : EdgeD) (c : T) :
    crit.holds (tipRootEnt all e c) = critV crit (FF all c.leaves, e, c.isLeaf) := by
  cases crit <;> rfl

theorem below_out (crit : Crit) (rt rr : Bool) (all : List String) (c : T) :
    (entsT all c).filterMap (outE crit rt rr) =
      (obsT (FF all) c).filterMap (fun x => outT crit rt true (obsTupP (x, false))) := by
  have h0 : (entsT all c).filterMap (outE crit rt rr) = ((entsT all c).map Ent.tupP).filterMap (outT crit rt rr) := by
    rw [List.filterMap_map]
    congr 1
    funext e
    exact outE_tupP crit rt rr e
  rw [h0, entsT_tupP, List.filterMap_map, List.filterMap_map]
  apply filterMap_congr'
  intro x _
  simp [Function.comp, outT, obsTupP]

theorem below_keys (all : List String) (c : T) :
    (entsT all c).map Ent.key = (obsT (FF all) c).map (fun y => keyT (obsTup y)) := by
  have h2 : (entsT all c).map Ent.key = ((entsT all c).map Ent.tup).map keyT := by
    rw [List.map_map]; rfl
  rw [h2, entsT_tup, List.map_map]; rfl

theorem collapseOKr_tiproot_of (crit : Crit) (rt rr : Bool) (d : NodeD) (p : Nat) (e e' : EdgeD) (c c' : T)
    (he' : e' = if crit.holds (tipRootEnt (T.node d p [(e, c)]).tipNames e c) = true ∧ rt = true then zeroLen e else e)
    (ho : (obsT (FF (T.node d p [(e, c)]).tipNames) c').Perm
      ((obsT (FF (T.node d p [(e, c)]).tipNames) c).filterMap (keepV (critV crit) rt)))
    (hl : c'.leaves.Perm c.leaves) (hd : c'.d = c.d) :
    collapseOKr crit rt rr (.node d p [(e, c)]) (.node d p [(e', c')]) = true := by
  generalize hall : (T.node d p [(e, c)]).tipNames = all at *
  have htips : (T.node d p [(e', c')]).tipNames.Perm (T.node d p [(e, c)]).tipNames := by
    simp only [T.tipNames, T.kids_node, List.length_cons, List.length_nil, leavesL, T.name, T.d_node]
    exact (List.Perm.refl _).append (hl.append (List.Perm.refl _))
  rw [hall] at htips
  have hcall := collapseOKr_of_out crit rt rr rr id (.node d p [(e, c)]) (.node d p [(e', c')])
  rw [hall] at hcall
  apply hcall htips rfl
  rw [ents_tiproot, ents_tiproot]
  simp only [List.append_nil, List.map_cons, List.filterMap_cons]
  have hside : canonSide all c'.leaves = canonSide all c.leaves := canonSide_permInv all _ _ hl
  have hname : c'.name = c.name := by unfold T.name; rw [hd]
  have hhead : outE crit rt rr (tipRootEnt all e c) = some (tipRootEnt all e' c').key := by
    subst he'
    unfold outE
    have ht : (tipRootEnt all e c).tip = true := by simp [tipRootEnt]
    rw [ht]
    simp only [if_true]
    cases hh : crit.holds (tipRootEnt all e c) <;> cases rt <;>
      simp [tipRootEnt, Ent.key, Ent.key0, hside, hname, zeroLen]
  rw [hhead]
  refine List.Perm.cons _ ?_
  rw [below_keys, below_out]
  refine (ho.map _).trans (List.Perm.of_eq ?_)
  rw [List.map_filterMap]
  apply filterMap_congr'
  intro x _
  exact outT_keepV crit rt (x, false)

theorem collapseOK_tiproot_of (crit : Crit) (rt rr : Bool) (d : NodeD) (p : Nat) (e e' : EdgeD) (c c' : T)
    (he' : e' = if crit.holds (tipRootEnt (T.node d p [(e, c)]).tipNames e c) = true ∧ rt = true then zeroLen e else e)
    (ho : (obsT (FF (T.node d p [(e, c)]).tipNames) c').Perm
      ((obsT (FF (T.node d p [(e, c)]).tipNames) c).filterMap (keepV (critV crit) rt)))
    (hl : c'.leaves.Perm c.leaves) (hd : c'.d = c.d) :
    collapseOK crit rt (.node d p [(e, c)]) (.node d p [(e', c')]) = true := by
  generalize hall : (T.node d p [(e, c)]).tipNames = all at *
  have htips : (T.node d p [(e', c')]).tipNames.Perm (T.node d p [(e, c)]).tipNames := by
    simp only [T.tipNames, T.kids_node, List.length_cons, List.length_nil, leavesL, T.name, T.d_node]
    exact (List.Perm.refl _).append (hl.append (List.Perm.refl _))
  rw [hall] at htips
  have hcall := collapseOK_of_out crit rt rr (.node d p [(e, c)]) (.node d p [(e', c')])
  rw [hall] at hcall
  apply hcall htips rfl
  rw [ents_tiproot, ents_tiproot]
  simp only [List.append_nil, List.map_cons, List.filterMap_cons]
  have hside : canonSide all c'.leaves = canonSide all c.leaves := canonSide_permInv all _ _ hl
  have hname : c'.name = c.name := by unfold T.name; rw [hd]
  have hhead : outE crit rt rr (tipRootEnt all e c) = some (tipRootEnt all e' c').key := by
    subst he'
    unfold outE
    have ht : (tipRootEnt all e c).tip = true := by simp [tipRootEnt]
    rw [ht]
    simp only [if_true]
    cases hh : crit.holds (tipRootEnt all e c) <;> cases rt <;>
      simp [tipRootEnt, Ent.key, Ent.key0, hside, hname, zeroLen]
  rw [hhead]
  refine List.Perm.cons _ ?_
  rw [below_keys, below_out]
  refine (ho.map _).trans (List.Perm.of_eq ?_)
  rw [List.map_filterMap]
  apply filterMap_congr'
  intro x _
  exact outT_keepV crit rt (x, false)

end Gotree.C07

namespace Gotree.C07
open Gotree

/- ## the resolve oracle on a tree whose root is a tip -/

theorem entsT_keys (all : List String) (c : T) : (entsT all c).map Ent.key = (RT (FF all) c).map keyR := by
  have h2 : (entsT all c).map Ent.key = ((entsT all c).map Ent.tup).map keyT := by
    rw [List.map_map]; rfl
  rw [h2, entsT_tup]
  unfold RT
  rw [List.map_map, List.map_map]; rfl

theorem entsT_kts (all : List String) (c : T) :
    (entsT all c).map (fun e => (e.key, e.tip)) = (RT (FF all) c).map ktR := by
  have h2 : (entsT all c).map (fun e => (e.key, e.tip)) = ((entsT all c).map Ent.tup).map (fun u => (keyT u, u.2.2.2.1)) := by
    rw [List.map_map]; rfl
  rw [h2, entsT_tup]
  unfold RT
  rw [List.map_map, List.map_map]; rfl

theorem resolveOK_tiproot_of (d : NodeD) (p : Nat) (e : EdgeD) (c c1 : T)
    (hl : c1.leaves.Perm c.leaves) (hd : c1.d = c.d)
    (ex : List (ObsR FB)) (hnew : ∀ x ∈ ex, IsNew x)
    (hobs : (RT (FF (T.node d p [(e, c)]).tipNames) c1).Perm (RT (FF (T.node d p [(e, c)]).tipNames) c ++ ex))
    (hdist : ∀ x y : String, (T.node d p [(e, c1)]).dist x y = (T.node d p [(e, c)]).dist x y)
    (hdeg3 : deg3 (.node d p [(e, c1)]) = true)
    (hbin : c.noSingleBelow = true → c1.binaryBelow = true) :
    resolveOK (.node d p [(e, c)]) (.node d p [(e, c1)]) = true := by
  have htips : (T.node d p [(e, c1)]).tipNames.Perm (T.node d p [(e, c)]).tipNames := by
    simp only [T.tipNames, T.kids_node, List.length_cons, List.length_nil, leavesL, T.name, T.d_node]
    exact (List.Perm.refl _).append (hl.append (List.Perm.refl _))
  unfold resolveOK
  simp only
  generalize hall : (T.node d p [(e, c)]).tipNames = all at *
  rw [ents_tiproot, ents_tiproot]
  simp only [List.append_nil, List.map_cons]
  have hside : canonSide all c1.leaves = canonSide all c.leaves := canonSide_permInv all _ _ hl
  have hname : c1.name = c.name := by unfold T.name; rw [hd]
  have hk : (tipRootEnt all e c1).key = (tipRootEnt all e c).key := by simp [tipRootEnt, Ent.key, hside, hname]
  have ht : (tipRootEnt all e c1).tip = (tipRootEnt all e c).tip := by simp [tipRootEnt]
  rw [hk, ht, entsT_keys, entsT_keys, entsT_kts, entsT_kts]
  have h1 : (sortS (T.node d p [(e, c1)]).tipNames == sortS all) = true := by
    rw [sortS_perm_eq htips]; exact beq_self_eq_true _
  have h2 : ((T.node d p [(e, c1)]).name == (T.node d p [(e, c)]).name) = true := beq_self_eq_true _
  have h3 : msub ((tipRootEnt all e c).key :: (RT (FF all) c).map keyR)
      ((tipRootEnt all e c).key :: (RT (FF all) c1).map keyR) = true := by
    apply msub_append_of_perm _ (ex.map keyR)
    simp only [List.cons_append]
    refine List.Perm.cons _ ?_
    rw [← List.map_append]; exact hobs.map keyR
  have h4 : ((mdiff (((tipRootEnt all e c).key, (tipRootEnt all e c).tip) :: (RT (FF all) c1).map ktR)
      (((tipRootEnt all e c).key, (tipRootEnt all e c).tip) :: (RT (FF all) c).map ktR)).all
      fun x => x.1.2.1 == 0 && x.1.2.2.1 == NIL && !x.2) = true := by
    have hp : (mdiff (((tipRootEnt all e c).key, (tipRootEnt all e c).tip) :: (RT (FF all) c1).map ktR)
        (((tipRootEnt all e c).key, (tipRootEnt all e c).tip) :: (RT (FF all) c).map ktR)).Perm (ex.map ktR) := by
      apply mdiff_perm_append
      simp only [List.cons_append]
      refine List.Perm.cons _ ?_
      rw [← List.map_append]; exact hobs.map ktR
    rw [hp.all_eq, List.all_eq_true]
    intro x hx
    obtain ⟨y, hy, rfl⟩ := List.mem_map.mp hx
    obtain ⟨e1, e2, _, e4, _⟩ := hnew y hy
    simp [ktR, keyR, e1, e2, e4]
  have h5 : ((T.node d p [(e, c1)]).distMatrix == (T.node d p [(e, c)]).distMatrix) = true := by
    have : (T.node d p [(e, c1)]).distMatrix = (T.node d p [(e, c)]).distMatrix := by
      unfold T.distMatrix
      rw [hall]
      simp only [sortS_perm_eq htips, hdist]
    rw [this]; exact beq_self_eq_true _
  have h6 : (!((T.node d p [(e, c)]).noSingle && decide (2 ≤ (T.node d p [(e, c)]).kids.length)) ||
      (T.node d p [(e, c1)]).binary) = true := by simp
  have h7 : (!((T.node d p [(e, c)]).noSingle && (T.node d p [(e, c)]).kids.length == 1) ||
      binaryL (T.node d p [(e, c1)]).kids) = true := by
    by_cases hns : c.noSingleBelow = true
    · simp [binaryL, hbin hns]
    · simp [T.noSingle, noSingleL, hns]
  simp only [h1, h2, h3, h4, h5, h6, h7, hdeg3, Bool.and_self]

end Gotree.C07
