/-
  C16 — `computeDepthRecurRooted` (tree/tree.go:917-938), statement by statement: the `-1` sentinel
  `NIL_DEPTH` of `mindepth`, the loop over the neighbours other than `prev` (the children, in
  neighbour order), `n.depth = mindepth + 1`.  The result lists `n.depth` of every node in `Nodes()`
  order (pre-order), as `Node.Depth()` reports it afterwards.  Core Lean only.
-/
import Gotree.Model.Core

namespace Gotree.C16
open Gotree

mutual
/-- `computeDepthRecurRooted(n, prev, …)`: the returned `n.depth`, and the depths written below `n`
    (pre-order, `n` first).  A node without children is a tip (`n.Tip()`). -/
def goDepthR : T → Int × List Int
  | .node _ _ [] => (0, [0])
  | .node _ _ (k :: ks) =>
    let r := goDepthRL (k :: ks) (-1)
    (r.1 + 1, (r.1 + 1) :: r.2)
/-- the `for i, next := range n.neigh` loop from the current `mindepth` on -/
def goDepthRL : Kids → Int → Int × List Int
  | [], mind => (mind, [])
  | (_, t) :: r, mind =>
    let dt := goDepthR t
    let mind' := if mind == -1 || dt.1 < mind then dt.1 else mind
    let rr := goDepthRL r mind'
    (rr.1, dt.2 ++ rr.2)
end

/-- `ComputeDepths()` on a rooted tree, read back with `Node.Depth()` in `Nodes()` order -/
def goComputeDepthsRooted (t : T) : List Int := (goDepthR t).2

end Gotree.C16
