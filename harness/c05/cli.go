package c05

// CLI tier: the same operations through the `gotree` binary built from the working tree
// (`reroot outgroup|midpoint`, `unroot`, `rotate rand|sort`), several trees per invocation,
// the outgroup given as arguments or in a tip file (-l), -r, --strict.  One case line per
// invocation:
//
//	C05.cli <kind> <before dumps|> <remove> <strict> <args> <tipfile lines; or "-"> <seed> <draws> <exit class> <output dumps|>
//
// The "before" dumps are α of the trees as the command reads them (the Newick text re-parsed).

import (
	"fmt"
	"math/rand"
	"os"
	"strconv"
	"strings"
	"time"

	"verifharness/core"

	"github.com/evolbioinfo/gotree/io/newick"
	"github.com/evolbioinfo/gotree/tree"
)

var cliKinds = []string{"outgroup-args", "outgroup-file", "midpoint", "unroot", "rotate-rand", "rotate-sort", "outgroup-none", "outgroup-args", "outgroup-stdin"}

func parseNewick(s string) (*tree.Tree, error) {
	return newick.NewParser(strings.NewReader(s)).Parse()
}

func cliCase(c *core.Ctx, i int) {
	kind := cliKinds[i%len(cliKinds)]
	k := 1 + c.G.Intn(3)
	// a history of trees with DIFFERENT tip sets (growing: t0..t4, then t0..t8, …), the outgroup taken
	// in the last one and its names that the first tree lacks listed first
	growing := strings.HasPrefix(kind, "outgroup") && c.G.Chance(0.5)
	if growing && k == 1 {
		k = 2
	}
	var ns []*core.N
	for j := 0; j < k; j++ {
		o := opts(c.G)
		o.InnerNames = 0
		if growing {
			o.MinTips, o.MaxTips = 4+3*j, 5+3*j
		}
		n, _ := c.G.Tree(o)
		switch r := c.G.Intn(100); {
		case r < 8:
			n = tipRooted(c, n)
		case r < 20:
			n = tipChildRooted(c, n, c.G.Chance(0.5))
		}
		ns = append(ns, n)
	}
	// an outgroup drawn in the first tree (the other trees have the same tip names t0..tk when of equal size)
	var S []string
	src := ns[0]
	if growing {
		src = ns[len(ns)-1]
	}
	all := src.TipNames()
	switch c.G.Intn(3) {
	case 0:
		paths := src.Paths()
		if len(paths) > 1 {
			S = src.At(paths[1+c.G.Intn(len(paths)-1)]).Leaves()
		}
	case 1:
		perm := c.G.R.Perm(len(all))
		for j := 0; j < 2 && j < len(all); j++ {
			S = append(S, all[perm[j]])
		}
	default:
		S = []string{all[c.G.Intn(len(all))]}
	}
	if c.G.Chance(0.2) {
		S = append(S, "zz1")
	}
	if growing {
		// names absent from the first tree first
		in0 := map[string]bool{}
		for _, x := range ns[0].TipNames() {
			in0[x] = true
		}
		var a, b []string
		for _, x := range S {
			if in0[x] {
				b = append(b, x)
			} else {
				a = append(a, x)
			}
		}
		if len(b) == 0 {
			b = append(b, ns[0].TipNames()[0])
		}
		S = append(a, b...)
	}
	var fileLines []string
	if kind == "outgroup-file" || kind == "outgroup-stdin" {
		// several names per line separated by commas, several lines
		cut := c.G.Intn(len(S) + 1)
		fileLines = []string{strings.Join(S[:cut], ","), strings.Join(S[cut:], ",")}
		if cut == 0 {
			fileLines = fileLines[1:]
		}
		if c.G.Chance(0.5) {
			S = []string{all[0]} // arguments given as well: the file wins
		} else {
			S = nil
		}
	}
	if kind == "outgroup-none" {
		S = nil
	}
	doCLI(c, kind, ns, c.G.Chance(0.3), c.G.Chance(0.5), S, fileLines, 1+c.G.R.Int63n(1<<40))
}

func doCLI(c *core.Ctx, kind string, ns []*core.N, remove, strict bool, args, fileLines []string, seed int64) {
	var text strings.Builder
	var before []*core.N
	for _, n := range ns {
		t := build(n)
		nw := t.Newick()
		text.WriteString(nw + "\n")
		pt, err := parseNewick(nw)
		if err != nil {
			panic(err)
		}
		b, wf := core.Alpha(pt)
		if !wf.OK() {
			panic("parsed tree malformed")
		}
		before = append(before, b)
	}
	in := c.TmpFile(text.String())
	defer os.Remove(in)
	var argv []string
	stdin := ""
	fileField := "-"
	switch kind {
	case "outgroup-args", "outgroup-file", "outgroup-none", "outgroup-stdin":
		argv = []string{"reroot", "outgroup", "-i", in}
		if remove {
			argv = append(argv, "-r")
		}
		if strict {
			argv = append(argv, "--strict")
		}
		if kind == "outgroup-file" {
			content := ""
			if len(fileLines) > 0 {
				content = strings.Join(fileLines, "\n") + "\n"
			}
			tf := c.TmpFile(content)
			defer os.Remove(tf)
			argv = append(argv, "-l", tf)
			fileField = "F" + core.StrList(fileLines)
		}
		if kind == "outgroup-stdin" {
			if len(fileLines) > 0 {
				stdin = strings.Join(fileLines, "\n") + "\n"
			}
			argv = append(argv, "-l", "-")
			fileField = "F" + core.StrList(fileLines)
		}
		argv = append(argv, args...)
	case "midpoint":
		argv = []string{"reroot", "midpoint", "-i", in}
	case "unroot":
		argv = []string{"unroot", "-i", in}
	case "rotate-rand":
		argv = []string{"rotate", "rand", "-i", in, "--seed", strconv.FormatInt(seed, 10)}
	case "rotate-sort":
		argv = []string{"rotate", "sort", "-i", in}
	}
	// half of the runs write to a file (-o) instead of stdout
	outFile := ""
	if seed%2 == 0 {
		outFile = c.TmpFile("")
		defer os.Remove(outFile)
		argv = append(argv, "-o", outFile)
	}
	r := c.RunCLI(stdin, 30*time.Second, argv...)
	if outFile != "" {
		if b, err := os.ReadFile(outFile); err == nil {
			r.Stdout = string(b)
		}
	}
	class := "ok"
	switch {
	case r.Timeout:
		class = "timeout"
	case strings.Contains(r.Stderr, "panic:") || strings.Contains(r.Stderr, "goroutine "):
		class = "panic"
	case r.Exit != 0 && strings.Contains(r.Stderr, "Several possible branches for root placement"):
		class = "err-several" // the refusal of the finding OutgroupNonStrictMultifurcationRefused
	case r.Exit != 0:
		class = "err"
	}
	var outs []*core.N
	for _, l := range strings.Split(r.Stdout, "\n") {
		// on a failure cobra prints its usage text on stdout as well: only Newick lines count
		if l = strings.TrimSpace(l); l == "" || !strings.HasSuffix(l, ";") {
			continue
		}
		pt, err := parseNewick(l)
		if err != nil {
			class = "badoutput"
			break
		}
		o, wf := core.Alpha(pt)
		if !wf.OK() {
			class = "badoutput"
			break
		}
		outs = append(outs, o)
	}
	// the draw script of `rotate rand`: one source seeded once, the trees in order
	var draws []int
	if kind == "rotate-rand" {
		rand.Seed(seed)
		for _, b := range before {
			var degs []int
			degrees(b, true, &degs)
			for _, d := range degs {
				for i := 0; i < d; i++ {
					draws = append(draws, rand.Intn(i+1))
				}
			}
		}
	}
	c.Emit("C05.cli", kind, core.Dumps(before), b01(remove), b01(strict), core.StrList(args), fileField,
		fmt.Sprint(seed), core.IntList(draws), class, core.Dumps(outs))
}

// replayCLI re-executes a recorded CLI request.
func replayCLI(c *core.Ctx, f []string) {
	if len(f) < 8 {
		return
	}
	var ns []*core.N
	for _, d := range strings.Split(strings.TrimSuffix(f[2], "|"), "|") {
		n, err := core.ParseDump(d)
		if err != nil {
			panic(err)
		}
		ns = append(ns, n)
	}
	var lines []string
	if f[6] != "-" {
		lines = parseStrs(f[6][1:])
	}
	seed, _ := strconv.ParseInt(f[7], 10, 64)
	doCLI(c, f[1], ns, f[3] == "1", f[4] == "1", parseStrs(f[5]), lines, seed)
}
