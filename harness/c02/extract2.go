package c02

// genDispatch: facts about the source that the hand-written models of the entry points silently assume, extracted
// from the working tree on every run (go/parser only) and written to lean/Gotree/Gen/C02Dispatch.lean:
//   - the FORMAT_* constants of io/utils/readtrees.go in declaration order (iota);
//   - the `switch format` of ReadTreeReader and of ReadMultiTrees: case labels, the package whose NewParser a
//     case calls, whether there is a default;
//   - the `switch rootInputFormat` of cmd/root.go (which constant a --format word selects, the default) and the
//     default value of the --format flag;
//   - the guards of the index expressions of fileutils.ReadUntilSemiColon (`i > 0`, `len(ln) > 0`).
// Proofs/C02.lean decides that they are what Model/C02Dispatch.lean and Model/C02Readers.lean transcribe.

import (
	"fmt"
	"go/ast"
	"go/parser"
	"go/token"
	"os"
	"path/filepath"
	"sort"
	"strconv"
	"strings"
)

func leanStr(s string) string { return strconv.Quote(s) }

func leanStrList(l []string) string {
	q := make([]string, len(l))
	for i, s := range l {
		q[i] = leanStr(s)
	}
	return "[" + strings.Join(q, ", ") + "]"
}

func findFunc(f *ast.File, name string) *ast.FuncDecl {
	for _, d := range f.Decls {
		if fd, ok := d.(*ast.FuncDecl); ok && fd.Name.Name == name && fd.Recv == nil {
			return fd
		}
	}
	return nil
}

// switchOn returns the first `switch <ident>` of the node.
func switchOn(n ast.Node, tag string) *ast.SwitchStmt {
	var sw *ast.SwitchStmt
	ast.Inspect(n, func(m ast.Node) bool {
		if sw != nil {
			return false
		}
		if s, ok := m.(*ast.SwitchStmt); ok {
			if id, ok := s.Tag.(*ast.Ident); ok && id.Name == tag {
				sw = s
				return false
			}
		}
		return true
	})
	return sw
}

func exprName(e ast.Expr) string {
	switch x := e.(type) {
	case *ast.Ident:
		return x.Name
	case *ast.SelectorExpr:
		return x.Sel.Name
	case *ast.BasicLit:
		if x.Kind == token.STRING {
			if s, err := strconv.Unquote(x.Value); err == nil {
				return s
			}
		}
		return x.Value
	}
	return "?"
}

// dispatchOf: for every case of `switch format`: its labels (joined by "|", "default" for the default) and the
// packages whose NewParser is called in its body.
func dispatchOf(fn *ast.FuncDecl) (string, error) {
	sw := switchOn(fn.Body, "format")
	if sw == nil {
		return "", fmt.Errorf("%s: no switch on format", fn.Name.Name)
	}
	var items []string
	for _, st := range sw.Body.List {
		cc, ok := st.(*ast.CaseClause)
		if !ok {
			continue
		}
		label := "default"
		if cc.List != nil {
			var ls []string
			for _, e := range cc.List {
				ls = append(ls, exprName(e))
			}
			label = strings.Join(ls, "|")
		}
		seen := map[string]bool{}
		var pkgs []string
		for _, b := range cc.Body {
			ast.Inspect(b, func(m ast.Node) bool {
				if ce, ok := m.(*ast.CallExpr); ok {
					if se, ok := ce.Fun.(*ast.SelectorExpr); ok && se.Sel.Name == "NewParser" {
						if id, ok := se.X.(*ast.Ident); ok && !seen[id.Name] {
							seen[id.Name] = true
							pkgs = append(pkgs, id.Name)
						}
					}
				}
				return true
			})
		}
		items = append(items, "("+leanStr(label)+", "+leanStrList(pkgs)+")")
	}
	return "[" + strings.Join(items, ", ") + "]", nil
}

func genDispatch(repo, out string) error {
	fset := token.NewFileSet()
	rt, err := parser.ParseFile(fset, filepath.Join(repo, "io", "utils", "readtrees.go"), nil, 0)
	if err != nil {
		return err
	}
	// the constants
	var consts []string
	for _, d := range rt.Decls {
		gd, ok := d.(*ast.GenDecl)
		if !ok || gd.Tok != token.CONST || len(gd.Specs) == 0 {
			continue
		}
		first, ok := gd.Specs[0].(*ast.ValueSpec)
		if !ok || len(first.Names) == 0 || !strings.HasPrefix(first.Names[0].Name, "FORMAT_") {
			continue
		}
		isIota := len(first.Values) == 1 && exprName(first.Values[0]) == "iota"
		for _, sp := range gd.Specs {
			vs := sp.(*ast.ValueSpec)
			for _, n := range vs.Names {
				consts = append(consts, n.Name)
			}
			if vs != first && len(vs.Values) > 0 {
				isIota = false
			}
		}
		if !isIota {
			consts = append(consts, "NOT-IOTA")
		}
	}
	single, multi := "[]", "[]"
	if fn := findFunc(rt, "ReadTreeReader"); fn != nil {
		if single, err = dispatchOf(fn); err != nil {
			return err
		}
	} else {
		return fmt.Errorf("ReadTreeReader not found")
	}
	if fn := findFunc(rt, "ReadMultiTrees"); fn != nil {
		if multi, err = dispatchOf(fn); err != nil {
			return err
		}
	} else {
		return fmt.Errorf("ReadMultiTrees not found")
	}
	// cmd/root.go
	root, err := parser.ParseFile(fset, filepath.Join(repo, "cmd", "root.go"), nil, 0)
	if err != nil {
		return err
	}
	var cmdItems []string
	if sw := switchOn(root, "rootInputFormat"); sw != nil {
		for _, st := range sw.Body.List {
			cc, ok := st.(*ast.CaseClause)
			if !ok {
				continue
			}
			assigned := "none"
			for _, b := range cc.Body {
				if as, ok := b.(*ast.AssignStmt); ok && len(as.Lhs) == 1 && len(as.Rhs) == 1 && exprName(as.Lhs[0]) == "treeformat" {
					assigned = exprName(as.Rhs[0])
				}
			}
			if cc.List == nil {
				cmdItems = append(cmdItems, "("+leanStr("default")+", "+leanStr(assigned)+")")
			}
			for _, e := range cc.List {
				cmdItems = append(cmdItems, "("+leanStr(exprName(e))+", "+leanStr(assigned)+")")
			}
		}
	} else {
		return fmt.Errorf("cmd/root.go: no switch on rootInputFormat")
	}
	flagDefault := "?"
	ast.Inspect(root, func(m ast.Node) bool {
		ce, ok := m.(*ast.CallExpr)
		if !ok || len(ce.Args) < 3 {
			return true
		}
		if se, ok := ce.Fun.(*ast.SelectorExpr); ok && se.Sel.Name == "StringVar" {
			if ue, ok := ce.Args[0].(*ast.UnaryExpr); ok && exprName(ue.X) == "rootInputFormat" {
				flagDefault = exprName(ce.Args[2])
			}
		}
		return true
	})
	// ReadUntilSemiColon: comparisons of the index variable and of len(ln) with a literal
	rl, err := parser.ParseFile(fset, filepath.Join(repo, "io", "fileutils", "readln.go"), nil, 0)
	if err != nil {
		return err
	}
	fn := findFunc(rl, "ReadUntilSemiColon")
	if fn == nil {
		return fmt.Errorf("ReadUntilSemiColon not found")
	}
	idx, lens := map[string]bool{}, map[string]bool{}
	indexExprs := 0
	ast.Inspect(fn.Body, func(m ast.Node) bool {
		switch x := m.(type) {
		case *ast.IndexExpr:
			indexExprs++
		case *ast.BinaryExpr:
			lit, ok := x.Y.(*ast.BasicLit)
			if !ok {
				return true
			}
			switch x.Op {
			case token.EQL, token.NEQ, token.LSS, token.GTR, token.LEQ, token.GEQ:
			default:
				return true
			}
			if id, ok := x.X.(*ast.Ident); ok && id.Name == "i" {
				idx[x.Op.String()+lit.Value] = true
			}
			if ce, ok := x.X.(*ast.CallExpr); ok && exprName(ce.Fun) == "len" && len(ce.Args) == 1 && exprName(ce.Args[0]) == "ln" {
				lens[x.Op.String()+lit.Value] = true
			}
		}
		return true
	})
	// a comparison `x <op> <integer literal>` as a Lean pair (op, literal); anything else as ("?", 0)
	keys := func(m map[string]bool) string {
		var l []string
		for k := range m {
			l = append(l, k)
		}
		sort.Strings(l)
		var items []string
		for _, k := range l {
			n := 0
			for n < len(k) && strings.ContainsRune("<>=!", rune(k[n])) {
				n++
			}
			if v, err := strconv.Atoi(k[n:]); err == nil {
				items = append(items, "("+leanStr(k[:n])+", ("+strconv.Itoa(v)+" : Int))")
			} else {
				items = append(items, "("+leanStr("?")+", (0 : Int))")
			}
		}
		return "[" + strings.Join(items, ", ") + "]"
	}
	src := "-- GENERATED by harness/c02/extract2.go (vh gen-tables) from io/utils/readtrees.go, cmd/root.go, io/fileutils/readln.go of the working tree; do not edit\n" +
		"namespace Gotree.Gen.C02\n\n" +
		"/-- the FORMAT_* constants in declaration order (a trailing \"NOT-IOTA\" when the block is not a plain iota) -/\n" +
		"def formatConsts : List String := " + leanStrList(consts) + "\n" +
		"/-- `switch format` of ReadTreeReader: (labels, packages whose NewParser the case calls) -/\n" +
		"def singleSwitch : List (String × List String) := " + single + "\n" +
		"/-- `switch format` of ReadMultiTrees -/\n" +
		"def multiSwitch : List (String × List String) := " + multi + "\n" +
		"/-- `switch rootInputFormat` of cmd/root.go: (word, constant assigned to treeformat) -/\n" +
		"def cmdFormatSwitch : List (String × String) := [" + strings.Join(cmdItems, ", ") + "]\n" +
		"/-- default value of the --format flag -/\n" +
		"def cmdFormatFlagDefault : String := " + leanStr(flagDefault) + "\n" +
		"/-- ReadUntilSemiColon: comparisons `i <op> <literal>` guarding the scan back, comparisons `len(ln) <op> <literal>` -/\n" +
		"def rusIndexGuards : List (String × Int) := " + keys(idx) + "\n" +
		"def rusLenGuards : List (String × Int) := " + keys(lens) + "\n\n" +
		"end Gotree.Gen.C02\n"
	_ = indexExprs
	return os.WriteFile(filepath.Join(out, "C02Dispatch.lean"), []byte(src), 0644)
}
