/-
  C04 — the statement-by-statement two-pass hash computation (`rightTL`, `leftLit`, `hashTLit`)
  gives the fields of the summarised `idxT`/`idxL`: `reinitLit2 = reinit`.  Core Lean only.
-/
import Gotree.Lemmas.C04Fill

namespace Gotree.C04
open Gotree

abbrev HN := UInt64 × Nat

def padd (a b : HN) : HN := (a.1 + b.1, a.2 + b.2)

theorem padd_comm (a b : HN) : padd a b = padd b a := by
  simp only [padd, Prod.mk.injEq]; exact ⟨UInt64.add_comm _ _, Nat.add_comm _ _⟩
theorem padd_assoc (a b c : HN) : padd (padd a b) c = padd a (padd b c) := by
  simp only [padd, Prod.mk.injEq]; exact ⟨UInt64.add_assoc _ _ _, Nat.add_assoc _ _ _⟩
theorem padd_zero (a : HN) : padd a (0, 0) = a := by simp [padd]
theorem zero_padd (a : HN) : padd (0, 0) a = a := by simp [padd]

/-! ## first pass -/

mutual
theorem rightTL_eq (H : String → UInt64) : ∀ t : T, rightTL H t = rightT H t
  | .node d _ [] => by simp [rightTL, rightT]
  | .node _ _ (k :: ks) => by
    rw [rightTL, rightT, rightLL_eq H (k :: ks) (0, 0), zero_padd]
theorem rightLL_eq (H : String → UInt64) : ∀ (k : Kids) (acc : HN), rightLL H k acc = padd acc (rightL H k)
  | [], acc => by simp [rightLL, rightL, padd]
  | (_, t) :: r, acc => by
    rw [rightLL, rightLL_eq H r, rightTL_eq H t, rightL]
    show padd (padd acc (rightT H t)) (rightL H r) = padd acc (padd (rightT H t) (rightL H r))
    exact padd_assoc _ _ _
end

theorem rightL_cons (H : String → UInt64) (e : EdgeD) (t : T) (r : Kids) :
    rightL H ((e, t) :: r) = padd (rightT H t) (rightL H r) := by rw [rightL]; rfl

theorem rightL_append (H : String → UInt64) (a b : Kids) : rightL H (a ++ b) = padd (rightL H a) (rightL H b) := by
  induction a with
  | nil => simp [rightL, zero_padd]
  | cons x r ih => obtain ⟨e, t⟩ := x; rw [List.cons_append, rightL_cons, rightL_cons, ih, padd_assoc]

/-! ## sums of neighbour contributions -/

def sumP (l : List HN) : HN := l.foldr padd (0, 0)

theorem sumP_cons (a : HN) (l : List HN) : sumP (a :: l) = padd a (sumP l) := rfl
theorem sumP_append (a b : List HN) : sumP (a ++ b) = padd (sumP a) (sumP b) := by
  induction a with
  | nil => simp [sumP, zero_padd]
  | cons x r ih => rw [List.cons_append, sumP_cons, sumP_cons, ih, padd_assoc]

theorem sumP_perm {a b : List HN} (p : a.Perm b) : sumP a = sumP b := by
  induction p with
  | nil => rfl
  | cons x _ ih => rw [sumP_cons, sumP_cons, ih]
  | swap x y l => rw [sumP_cons, sumP_cons, sumP_cons, sumP_cons, ← padd_assoc, ← padd_assoc, padd_comm y x]
  | trans _ _ ih1 ih2 => exact ih1.trans ih2

theorem foldl_skip (i : Nat) (neigh : List (Option Nat × HN)) (acc : HN) :
    neigh.foldl (fun acc x => if x.1 == some i then acc else (acc.1 + x.2.1, acc.2 + x.2.2)) acc =
      padd acc (sumP ((neigh.filter fun x => x.1 != some i).map (·.2))) := by
  induction neigh generalizing acc with
  | nil => simp [sumP, padd_zero]
  | cons x r ih =>
    rw [List.foldl_cons, ih]
    cases hx : x.1 == some i with
    | true =>
      have : (x.1 != some i) = false := by simp [bne, hx]
      simp [this]
    | false =>
      have : (x.1 != some i) = true := by simp [bne, hx]
      simp only [Bool.false_eq_true, if_false, List.filter_cons, this, if_true, List.map_cons, sumP_cons]
      rw [← padd_assoc]; rfl

/-- the children's entries of the neighbour list -/
def nbGroups (H : String → UInt64) (l : Kids) (k : Nat) : List (Option Nat × HN) :=
  (l.zipIdx k).map fun (et, j) => (some j, rightTL H et.2)

theorem nbGroups_cons (H : String → UInt64) (x : EdgeD × T) (r : Kids) (k : Nat) :
    nbGroups H (x :: r) k = (some k, rightTL H x.2) :: nbGroups H r (k + 1) := by
  simp [nbGroups, List.zipIdx_cons]

theorem nbGroups_append (H : String → UInt64) (a b : Kids) (k : Nat) :
    nbGroups H (a ++ b) k = nbGroups H a k ++ nbGroups H b (k + a.length) := by
  induction a generalizing k with
  | nil => simp [nbGroups]
  | cons x r ih =>
    simp only [List.cons_append, nbGroups_cons, ih, List.length_cons]
    congr 3; omega

theorem nbGroups_filter_ne (H : String → UInt64) (l : Kids) (k j : Nat) (h : j < k ∨ k + l.length ≤ j) :
    (nbGroups H l k).filter (fun g => g.1 != some j) = nbGroups H l k := by
  induction l generalizing k with
  | nil => rfl
  | cons x r ih =>
    rw [nbGroups_cons]
    have hk : ((some k : Option Nat) != some j) = true := by
      simp only [bne_iff_ne, ne_eq, Option.some.injEq]
      simp only [List.length_cons] at h; omega
    simp only [List.filter_cons, hk, if_true]
    rw [ih]
    simp only [List.length_cons] at h; omega

theorem nbGroups_sum (H : String → UInt64) (l : Kids) (k : Nat) :
    sumP ((nbGroups H l k).map (·.2)) = rightL H l := by
  induction l generalizing k with
  | nil => simp [nbGroups, sumP, rightL]
  | cons x r ih =>
    obtain ⟨e, t⟩ := x
    rw [nbGroups_cons, List.map_cons, sumP_cons, ih, rightL_cons, rightTL_eq]

/-- what is above the children of a node, for the second pass -/
def upEff (H : String → UInt64) (isRoot : Bool) (name : String) (up : HN) (all : Kids) : HN :=
  if isRoot then (if all.length == 1 then (H name, 1) else (0, 0)) else up

/-- `prev.Neigh()` with what each neighbour contributes -/
def nbList (H : String → UInt64) (isRoot : Bool) (p : Nat) (up : HN) (kids : Kids) : List (Option Nat × HN) :=
  if isRoot then nbGroups H kids 0 else (nbGroups H kids 0).take p ++ (none, up) :: (nbGroups H kids 0).drop p

theorem leftLit_unfold (H : String → UInt64) (isRoot : Bool) (name : String) (p : Nat) (up : HN) (kids : Kids) (i : Nat) :
    leftLit H isRoot name p up kids i =
      if kids.length + (if isRoot then 0 else 1) == 1 then
        (((nbList H isRoot p up kids).foldl (fun acc x => if x.1 == some i then acc else (acc.1 + x.2.1, acc.2 + x.2.2)) (0, 0)).1 + H name,
         ((nbList H isRoot p up kids).foldl (fun acc x => if x.1 == some i then acc else (acc.1 + x.2.1, acc.2 + x.2.2)) (0, 0)).2 + 1)
      else (nbList H isRoot p up kids).foldl (fun acc x => if x.1 == some i then acc else (acc.1 + x.2.1, acc.2 + x.2.2)) (0, 0) := rfl

theorem nbList_sum (H : String → UInt64) (isRoot : Bool) (p : Nat) (up : HN) (pre post : Kids) (e : EdgeD) (t : T) :
    sumP (((nbList H isRoot p up (pre ++ (e, t) :: post)).filter fun g => g.1 != some pre.length).map (·.2)) =
      padd (if isRoot then (0, 0) else up) (padd (rightL H pre) (rightL H post)) := by
  have hg : nbGroups H (pre ++ (e, t) :: post) 0 =
      nbGroups H pre 0 ++ (some pre.length, rightTL H t) :: nbGroups H post (pre.length + 1) := by
    rw [nbGroups_append, nbGroups_cons]; simp
  have hkids : sumP (((nbGroups H (pre ++ (e, t) :: post) 0).filter fun g => g.1 != some pre.length).map (·.2)) =
      padd (rightL H pre) (rightL H post) := by
    rw [hg, List.filter_append, List.filter_cons]
    have : ((some pre.length : Option Nat) != some pre.length) = false := by simp
    simp only [this, Bool.false_eq_true, if_false]
    rw [nbGroups_filter_ne H pre 0 pre.length (Or.inr (by omega)),
      nbGroups_filter_ne H post (pre.length + 1) pre.length (Or.inl (by omega)),
      List.map_append, sumP_append, nbGroups_sum, nbGroups_sum]
  unfold nbList
  cases isRoot with
  | true => simp only [if_true, hkids, zero_padd]
  | false =>
    simp only [Bool.false_eq_true, if_false]
    have hp : (List.take p (nbGroups H (pre ++ (e, t) :: post) 0) ++
        (none, up) :: List.drop p (nbGroups H (pre ++ (e, t) :: post) 0)).Perm
        ((none, up) :: nbGroups H (pre ++ (e, t) :: post) 0) := by
      refine List.perm_middle.trans ?_
      rw [List.take_append_drop]
    rw [sumP_perm ((hp.filter fun g => g.1 != some pre.length).map (·.2))]
    have : ((none : Option Nat) != some pre.length) = true := by simp
    simp only [List.filter_cons, this, if_true, List.map_cons, sumP_cons, hkids]

/-- the neighbour loop of the second pass: the order of the additions is immaterial -/
theorem leftLit_eq (H : String → UInt64) (isRoot : Bool) (name : String) (p : Nat) (up : HN)
    (pre post : Kids) (e : EdgeD) (t : T) :
    leftLit H isRoot name p up (pre ++ (e, t) :: post) pre.length =
      padd (padd (upEff H isRoot name up (pre ++ (e, t) :: post)) (rightL H pre)) (rightL H post) := by
  rw [leftLit_unfold]
  simp only [foldl_skip, zero_padd, nbList_sum]
  cases isRoot with
  | true =>
    simp only [if_true, upEff, Nat.add_zero, zero_padd]
    split
    · rw [padd_assoc, padd_comm (H name, 1)]
      rfl
    · rw [zero_padd]
  | false =>
    have hne : ((pre ++ (e, t) :: post).length + 1 == 1) = false := by simp
    simp only [Bool.false_eq_true, if_false, hne, upEff, padd_assoc]

/-! ## the four fields of every branch -/

def fields (e : EdgeIdx) : UInt64 × Nat × UInt64 × Nat := (e.hleft, e.nleft, e.hright, e.nright)

theorem rightL_snoc (H : String → UInt64) (pre : Kids) (e : EdgeD) (t : T) :
    rightL H (pre ++ [(e, t)]) = ((rightL H pre).1 + (rightT H t).1, (rightL H pre).2 + (rightT H t).2) := by
  rw [rightL_append, rightL_cons]
  simp [rightL, padd]

mutual
theorem hashTLit_eq (H : String → UInt64) (rank : String → Nat) (n : Nat) :
    ∀ (x : T) (isRoot : Bool) (up : HN),
      hashTLit H isRoot up x = (idxL H rank n (upEff H isRoot x.name up x.kids) (0, 0) x.kids).map fields
  | .node d p kids, isRoot, up => by
    rw [hashTLit]
    have := hashLLit_eq H rank n kids isRoot d.name p up [] kids rfl
    simpa [rightL, T.name] using this
theorem hashLLit_eq (H : String → UInt64) (rank : String → Nat) (n : Nat) :
    ∀ (all : Kids) (isRoot : Bool) (name : String) (p : Nat) (up : HN) (pre rest : Kids), all = pre ++ rest →
      hashLLit H isRoot name p up all pre.length rest =
        (idxL H rank n (upEff H isRoot name up all) (rightL H pre) rest).map fields
  | all, isRoot, name, p, up, pre, [], _ => by simp [hashLLit, idxL]
  | all, isRoot, name, p, up, pre, (e, t) :: post, hall => by
    subst hall
    have hl := leftLit_eq H isRoot name p up pre post e t
    have hl' : leftLit H isRoot name p up (pre ++ (e, t) :: post) pre.length =
        ((upEff H isRoot name up (pre ++ (e, t) :: post)).1 + (rightL H pre).1 + (rightL H post).1,
         (upEff H isRoot name up (pre ++ (e, t) :: post)).2 + (rightL H pre).2 + (rightL H post).2) := by
      rw [hl]; rfl
    rw [hashLLit, idxL, List.map_cons, List.map_append, hl', rightTL_eq]
    congr 1
    congr 1
    · -- below t
      have := hashTLit_eq H rank n t false
        ((upEff H isRoot name up (pre ++ (e, t) :: post)).1 + (rightL H pre).1 + (rightL H post).1,
         (upEff H isRoot name up (pre ++ (e, t) :: post)).2 + (rightL H pre).2 + (rightL H post).2)
      rw [this]
      cases t with
      | node d' p' k' => simp [upEff, idxT, T.kids]
    · have := hashLLit_eq H rank n (pre ++ (e, t) :: post) isRoot name p up (pre ++ [(e, t)]) post (by simp)
      rw [rightL_snoc] at this
      simpa using this
end

theorem zipWith_rebuild (l : List EdgeIdx) :
    List.zipWith (fun (b : List Bool) (h : UInt64 × Nat × UInt64 × Nat) =>
        ({ bits := b, nleft := h.2.1, nright := h.2.2.2, hleft := h.1, hright := h.2.2.1 } : EdgeIdx))
      (l.map (·.bits)) (l.map fields) = l := by
  induction l with
  | nil => rfl
  | cons x r ih => simp only [List.map_cons, List.zipWith_cons_cons, ih, fields]

/-- the fully statement-by-statement `ReinitIndexes` is `reinit`, for every tree and every `H` -/
theorem reinitLit2_eq_reinit (H : String → UInt64) (t : T) : reinitLit2 H t = reinit H t := by
  unfold reinitLit2
  cases h : reinit H t with
  | err m => rfl
  | ok r =>
    obtain ⟨sorted, idx⟩ := r
    simp only
    congr 2
    rw [updateBitSet_eq]
    unfold reinit at h
    simp only at h
    split at h
    · cases h
    · split at h
      · cases h
      · cases h
        rw [← idxL_bits H _ _ t.kids (rootUp H t) (0, 0)]
        rw [hashTLit_eq H (fun x => (sortNames t.tipNames).idxOf x) (sortNames t.tipNames).length t true (0, 0)]
        have : upEff H true t.name (0, 0) t.kids = rootUp H t := by
          unfold upEff rootUp; simp
        rw [this]
        exact zipWith_rebuild _

/-! ## `UpdateTipIndex` and `ReinitInternalIndexes` statement by statement -/

theorem updateTipIndexLit_eq (l seen : List String) (hs : seen.Nodup) :
    updateTipIndexLit l seen =
      if (seen ++ l).Nodup then .ok (seen ++ l)
      else .err "Cannot create a tip index when several tips have the same name" := by
  induction l generalizing seen with
  | nil => simp [updateTipIndexLit, hs]
  | cons x r ih =>
    rw [updateTipIndexLit]
    by_cases hx : x ∈ seen
    · have : ¬ (seen ++ x :: r).Nodup := by
        intro h
        exact (List.nodup_append.mp h).2.2 x hx x (List.mem_cons_self ..) rfl
      simp [hx, this]
    · have hs' : (seen ++ [x]).Nodup := by
        refine List.nodup_append.mpr ⟨hs, by simp, ?_⟩
        intro a ha b hb hab
        rw [List.mem_singleton.mp hb] at hab
        exact hx (hab ▸ ha)
      have hc : seen.contains x = false := by simpa using hx
      simp only [hc, Bool.false_eq_true, if_false]
      rw [ih (seen ++ [x]) hs']
      simp [List.append_assoc]

/-- the literal records are the records of `reinit` -/
theorem lit_records_eq (H : String → UInt64) (t : T) :
    List.zipWith (fun (b : List Bool) (h : UInt64 × Nat × UInt64 × Nat) =>
        ({ bits := b, nleft := h.2.1, nright := h.2.2.2, hleft := h.1, hright := h.2.2.1 } : EdgeIdx))
      (updateBitSet (fun x => (sortNames t.tipNames).idxOf x) (sortNames t.tipNames).length t.kids)
      (hashTLit H true (0, 0) t) =
    idxL H (fun x => (sortNames t.tipNames).idxOf x) (sortNames t.tipNames).length (rootUp H t) (0, 0) t.kids := by
  rw [updateBitSet_eq, ← idxL_bits H _ _ t.kids (rootUp H t) (0, 0)]
  rw [hashTLit_eq H (fun x => (sortNames t.tipNames).idxOf x) (sortNames t.tipNames).length t true (0, 0)]
  have : upEff H true t.name (0, 0) t.kids = rootUp H t := by
    unfold upEff rootUp; simp
  rw [this]
  exact zipWith_rebuild _

theorem reinitInternalLit_eq_reinit (H : String → UInt64) (t : T) (hn : (sortNames t.tipNames).Nodup) :
    reinitInternalLit H (sortNames t.tipNames) t = reinit H t := by
  unfold reinitInternalLit reinit
  simp only [hn, decide_true, Bool.not_true, Bool.false_eq_true, if_false]
  split
  · rfl
  · rw [lit_records_eq]

theorem reinitLit3_eq_reinit (H : String → UInt64) (t : T) : reinitLit3 H t = reinit H t := by
  unfold reinitLit3
  rw [updateTipIndexLit_eq _ [] List.nodup_nil, List.nil_append]
  by_cases hn : (sortNames t.tipNames).Nodup
  · simp only [hn, if_true]
    exact reinitInternalLit_eq_reinit H t hn
  · simp only [hn, if_false]
    unfold reinit
    simp [hn]

end Gotree.C04
