/-
  C19 — property theorems.

  General (all lists of registrations, no bound; `Reg` is the row type of the regenerated table):
    noConflict_any_order   ★  no conflict ⇒ in every order of the init() functions every flag reads its documented default
    conflict_breaks_one    ★  a conflict ⇒ in every order some flag reads another default (no lucky order)
    order_irrelevant_iff      the two together: the order is irrelevant exactly when there is no conflict
    isolation              ★  no conflict ⇒ dropping the registrations of one command changes what no other command reads
    isolation_add             … nor do the registrations that run later
    isolation_reads / sole_registrar_removed / readIsolated_of_two
                              the same for a command that reads a variable it binds to no option
    omitted_eq_explicit    ★  no conflict ⇒ `--flag=<documented default>` anywhere on the command line changes no
                              variable the command reads (any init order, any other options)
    explicit_default_no_effect / explicit_default_differs / conflict_observable   its core, and the converse
    same_effect ★ / table_same_effect   the clause "same EFFECT" under its explicit hypothesis `ReadsOnly body` (the command
                              computes what it does from the option variables alone); readsOnly_of_vars (any function of
                              finitely many reads is such a body); given_not_readsOnly (the hypothesis cannot be dropped:
                              `Changed` is not a function of the variables — findings F45, F55, table (f))
    aliasRegion, explicit_default_overrides_alias, noAlias_hpre   the region `hpre` excludes (an alias of the option given
                              earlier on the line), the conclusion is false there, and it is empty when no command sees two
                              flags on one variable (Spec `noAliasInCommand`; false today: finding F87, table_noAliasInCommand_partial)
    spec_of_decisions / decisions_of_spec   the two per-run decisions are exactly the Spec predicate `tableOK`
    help_default_is_used(_except)   with the model of cobra 1.5's flag resolution (`effective` = the flag the command
                              line sets, `shown` = the flag whose line --help prints): the printed default is the value used
  Per run, on the table regenerated from the live command tree (Gen/C19Flags.lean), decided by the kernel:
    table_noConflict ★, table_current_is_default ★, table_complete, table_usage_claims,
    table_shadowAgree_partial, table_help_default_is_used_partial (all but `download itol --format`, open finding F47),
    table_satisfies_spec, table_any_init_order, table_omitted_eq_explicit (the flagships instantiated:
    whatever the order of the init() functions, every flag of every command reads the default its
    help text shows, and spelling that default out changes nothing)
  Pinned variants (`decide` on concrete witnesses):
    F24 before 7e6fdde (`cutoff` bound by `compute consensus --freq-min` 0.5 and `brlen setmin --length` 0):
      noConflict_/finalValue_/current_is_default_/isolation_/explicitSame_/tableOK_pinned_fails, pinned_no_lucky_order
    F47 (open): tableOK_pinnedF47, shown_pinnedF47_fails, shadowAgree_pinnedF47_fails;   c6119d8: readIsolated_pinnedPanther_fails
  `gotree rename` (open finding F45, model Model/C19Rename):
    Rename.renameMode_explicit_default_partial, …_fails, renameMode_replace_default_fails,
    Rename.renameModeByValue_explicit_default (the proposed repair satisfies the full statement)
  Global options after parsing (model Model/C19PreRun of cmd/root.go PersistentPreRun, comparetrees clamp):
    PreRun.preRun_defaults, formatOf_unknown, seedOf_none_iff, reproducible_iff, clampThreads_default/_le/_idem
  Option glue of the anchored commands (Model/C19Glue): Glue.consensusAccepts_iff, consensus_default_accepted,
    divide_default_names, annotate_none_is_default, annotate_map_priority, setmin_default_noop, setmin_ge,
    commentTargets_default/_given, autoLength_default/_ge, topologiesNbTips_input/_default,
    writes_all_modelled (table (e) Gen/C19Writes.lean: every post-parse assignment to an option variable is modelled)
  Table (f) Gen/C19Changed.lean (every `Flags().Changed` test in a command body): Glue.changed_all_accounted;
    `gotree repopulate` (fixed by 4cde097): Repopulate.accepts_explicit_default, acceptsPinned_explicit_default_fails
  Shared I/O glue (Model/C19IO: cmd/root.go openWriteFile, closeWriteFile, readTree; io/utils OpenFile) and table (g)
    Gen/C19Sentinels.lean (every literal that glue and PersistentPreRun compare an option value with, regenerated):
    IO.openWrite_default, openWrite_stdout_iff, openWrite_file, closes_iff_file (the two sites agree: Close() exactly when a
    file was created), openRead_stdin_iff, openRead_default, predictOutput_default/_file, readTree_agrees, readTree_default,
    formatCases_agree, seedSentinel_agrees, sentinels_check (the models' literals ARE the source's)
  `gotree brlen setrand` (open finding F55 / SetrandMeanRangeGiven): Setrand.meanRange_explicit_default_partial, …_defaults_fails
-/
import Gotree.Lemmas.C19
import Gotree.Gen.C19Flags
import Gotree.Lemmas.C19Rename
import Gotree.Model.C19PreRun
import Gotree.Model.C19Glue
import Gotree.Gen.C19Writes
import Gotree.Gen.C19Changed
import Gotree.Model.C19IO
import Gotree.Gen.C19Sentinels

namespace Gotree.C19

/-- without a conflict every registered flag reads its own documented default -/
theorem finalValue_of_noConflict {regs : List Reg} (h : noConflict regs = true) {r : Reg} (hr : r ∈ regs) :
    finalValue regs r.var = some r.default := by
  obtain ⟨d, hd⟩ := finalValue_isSome hr
  obtain ⟨q, hq, hv, hdq⟩ := finalValue_some hd
  have := (noConflict_iff regs).mp h q hq r hr hv
  rw [hd, ← hdq, this]

/-- ★ Go's initialisation order is irrelevant exactly when the property holds (⇒ direction) -/
theorem noConflict_any_order (regs regs' : List Reg) (h : noConflict regs = true) (hp : regs'.Perm regs) :
    ∀ r ∈ regs, finalValue regs' r.var = some r.default := by
  intro r hr
  exact finalValue_of_noConflict ((noConflict_perm hp).trans h) (hp.mem_iff.mpr hr)

/-- ★ with a conflict *every* order leaves some option with a default that is not the documented one -/
theorem conflict_breaks_one (regs regs' : List Reg) (h : ¬ noConflict regs = true) (hp : regs'.Perm regs) :
    ∃ r ∈ regs, finalValue regs' r.var ≠ some r.default := by
  have hf : noConflict regs = false := by simpa using h
  unfold noConflict at hf
  obtain ⟨r, hr, h1⟩ := List.all_eq_false.mp hf
  have h1' : (regs.all fun s => r.var != s.var || r.default == s.default) = false := by simpa using h1
  obtain ⟨s, hs, h2⟩ := List.all_eq_false.mp h1'
  have hv : r.var = s.var := by
    by_cases hv : r.var = s.var
    · exact hv
    · exact absurd (by simp [hv]) h2
  have hd : r.default ≠ s.default := by
    intro hd; exact h2 (by simp [hd])
  obtain ⟨d, hfd⟩ := finalValue_isSome (hp.mem_iff.mpr hr)
  by_cases hdr : d = r.default
  · refine ⟨s, hs, ?_⟩
    rw [← hv, hfd, hdr]
    intro he; exact hd (Option.some.inj he)
  · refine ⟨r, hr, ?_⟩
    rw [hfd]
    intro he; exact hdr (Option.some.inj he)

/-- "Go's initialisation order is irrelevant exactly when the property holds" -/
theorem order_irrelevant_iff (regs : List Reg) :
    noConflict regs = true ↔
      ∀ regs' : List Reg, regs'.Perm regs → ∀ r ∈ regs, finalValue regs' r.var = some r.default := by
  constructor
  · intro h regs' hp; exact noConflict_any_order regs regs' h hp
  · intro h
    cases hc : noConflict regs with
    | true => rfl
    | false =>
      obtain ⟨r, hr, hne⟩ := conflict_breaks_one regs regs (by simp [hc]) (List.Perm.refl _)
      exact absurd (h regs (List.Perm.refl _) r hr) hne

/-- ★ registering the options of command `c'` changes what no flag of another command reads -/
theorem isolation (regs : List Reg) (h : noConflict regs = true) (c' : String) :
    ∀ r ∈ regs, r.path ≠ c' → finalValue (without regs c') r.var = finalValue regs r.var := by
  intro r hr hne
  have hsub : ∀ q ∈ without regs c', q ∈ regs := fun q hq => (List.mem_filter.mp hq).1
  have hmem : r ∈ without regs c' := List.mem_filter.mpr ⟨hr, by simpa using hne⟩
  rw [finalValue_of_noConflict (noConflict_sublist hsub h) hmem, finalValue_of_noConflict h hr]

/-- the registrations that run later (another file's `init()`) do not change what the earlier ones read -/
theorem isolation_add (regs new : List Reg) (h : noConflict (regs ++ new) = true) :
    ∀ r ∈ regs, finalValue (regs ++ new) r.var = finalValue regs r.var := by
  intro r hr
  have hsub : ∀ q ∈ regs, q ∈ regs ++ new := fun q hq => List.mem_append_left _ hq
  rw [finalValue_of_noConflict h (hsub r hr), finalValue_of_noConflict (noConflict_sublist hsub h) hr]

/-- the same for a command that *reads* variable `v` without binding it (no row of its own for `v`):
    leaving out command `c'` changes nothing as long as some other command still registers `v` -/
theorem isolation_reads (regs : List Reg) (h : noConflict regs = true) (v : Nat) (c' : String)
    (hex : ∃ r ∈ regs, r.var = v ∧ r.path ≠ c') :
    finalValue (without regs c') v = finalValue regs v := by
  obtain ⟨r, hr, hv, hne⟩ := hex
  subst hv
  exact isolation regs h c' r hr hne

/-- and when `c'` was the only command registering `v`, the reader falls back to whatever an
    unregistered variable holds: `finalValue` answers `none` -/
theorem sole_registrar_removed (regs : List Reg) (v : Nat) (c' : String)
    (hall : ∀ r ∈ regs, r.var = v → r.path = c') : finalValue (without regs c') v = none := by
  rw [finalValue_eq]
  cases hf : (without regs c').reverse.find? (fun r => r.var == v) with
  | none => rfl
  | some q =>
    have hm : q ∈ without regs c' := by simpa using List.mem_of_find?_eq_some hf
    have hv : q.var = v := by simpa using List.find?_some hf
    have hq := List.mem_filter.mp hm
    have : q.path = c' := hall q hq.1 hv
    simp [this] at hq

/-- the Spec's `seenBy` is the model's `finalValue`, with the Go zero value for an unregistered variable -/
theorem seenBy_eq (t : List Row) (v : Nat) (typ : String) : seenBy t v typ = (finalValue t v).getD (zeroOf typ) := by
  rw [finalValue_eq]; rfl

/-- the Spec predicate on a read holds as soon as the registrars agree and no single command is the
    only one to register the variable -/
theorem readIsolated_of_two (r0 : Row) (rest : List Row) (reader : String)
    (h : noConflict (r0 :: rest) = true) (hvar : ∀ r ∈ r0 :: rest, r.var = r0.var)
    (htwo : ∀ c : String, ∃ r ∈ r0 :: rest, r.path ≠ c) : readIsolated (r0 :: rest) reader = true := by
  unfold readIsolated
  simp only [List.all_eq_true, Bool.or_eq_true, beq_iff_eq]
  intro c _
  right
  obtain ⟨r, hr, hne⟩ := htwo c
  rw [seenBy_eq, seenBy_eq]
  have := isolation_reads (r0 :: rest) h r0.var c ⟨r, hr, hvar r hr, hne⟩
  unfold without at this
  rw [this]

/-- the two per-run decisions give the whole Spec predicate -/
theorem spec_of_decisions (t : List Row) (h1 : noConflict t = true)
    (h2 : t.all (fun r => r.current == r.default) = true) : tableOK t = true := by
  unfold tableOK
  have hd : defaultsUsed t = true := h2
  have hs : sharedAgree t = true := by rw [sharedAgree_eq]; exact h1
  have hi : isolated t = true := by
    unfold isolated
    rw [List.all_eq_true]
    intro c _
    unfold isolatedFrom
    rw [List.all_eq_true]
    intro r hr
    by_cases hp : r.path = c
    · simp [hp]
    · have := isolation t h1 c r hr hp
      simp only [Bool.or_eq_true, beq_iff_eq]
      right
      rw [readBy_eq, readBy_eq]
      exact this
  simp [hd, hs, hi]

/-- and conversely the Spec predicate contains both decisions -/
theorem decisions_of_spec (t : List Row) (h : tableOK t = true) :
    noConflict t = true ∧ t.all (fun r => r.current == r.default) = true := by
  unfold tableOK at h
  simp only [Bool.and_eq_true] at h
  exact ⟨by rw [← sharedAgree_eq]; exact h.1.2, h.1.1⟩

/-! ### "leaving an option out has the same effect as passing the default value shown in its help text" -/

/-- if the variable of `r` holds the documented default of `r` once the `init()` functions ran, then
    passing `--r=<documented default>` on the command line — AFTER options `pre` NONE OF WHICH WRITES
    THE SAME VARIABLE (`hpre`; the excluded region is `aliasRegion`: an alias of `r` given earlier,
    see `explicit_default_overrides_alias`), before any options `post` — changes nothing the command can read -/
theorem explicit_default_no_effect (regs : List Reg) (r : Reg) (h : finalValue regs r.var = some r.default)
    (pre post : List (Reg × String)) (hpre : ∀ g ∈ pre, g.1.var ≠ r.var) :
    ∀ v, reads (atRun regs (pre ++ (r, r.default) :: post)) v = reads (atRun regs (pre ++ post)) v := by
  unfold reads atRun
  rw [parse_append, parse_append]
  have h1 : (parse (run regs []) pre).lookup r.var = some r.default := by
    rw [parse_untouched _ _ _ hpre]; exact h
  exact parse_congr (setFlag_same h1) post

/-- ★ without a conflict, omitting an option = passing its documented default, for every flag, every
    variable read, whatever order the `init()` functions ran in, and with any other options given —
    provided no option given BEFORE it writes the same variable (`hpre`; false in `aliasRegion`) -/
theorem omitted_eq_explicit (regs regs' : List Reg) (h : noConflict regs = true) (hp : regs'.Perm regs)
    (r : Reg) (hr : r ∈ regs) (pre post : List (Reg × String)) (hpre : ∀ g ∈ pre, g.1.var ≠ r.var) :
    ∀ v, reads (atRun regs' (pre ++ (r, r.default) :: post)) v = reads (atRun regs' (pre ++ post)) v :=
  explicit_default_no_effect regs' r (noConflict_any_order regs regs' h hp r hr) pre post hpre

/-- the region the hypothesis `hpre` excludes: an option given earlier on the line writes the variable of `r` -/
def aliasRegion (pre : List (Reg × String)) (r : Reg) : Prop := ∃ g ∈ pre, g.1.var = r.var

/-- and in that region the conclusion is FALSE as soon as the earlier option gave another value:
    the documented default of `r`, spelled out after an alias of `r`, overrides what the alias set
    (`reformat --format nexus --input-format newick`) -/
theorem explicit_default_overrides_alias (regs : List Reg) (g r : Reg) (x : String) (hv : g.var = r.var) (hx : x ≠ r.default) :
    aliasRegion [(g, x)] r ∧
    reads (atRun regs ([(g, x)] ++ [(r, r.default)])) r.var ≠ reads (atRun regs [(g, x)]) r.var := by
  refine ⟨⟨(g, x), by simp, hv⟩, ?_⟩
  unfold reads atRun
  simp only [List.singleton_append, parse, setFlag, List.lookup_cons, beq_self_eq_true, hv]
  intro he
  exact hx (Option.some.inj he).symm

/-- when no command sees two flags on one variable, options of ONE command never fall in that region:
    the flags of another name visible to the command of `r` write other variables -/
theorem noAlias_hpre (t : List Row) (h : noAliasInCommand t = true) (r : Row) (hr : r ∈ t)
    (pre : List (Reg × String))
    (hvis : ∀ g ∈ pre, g.1 ∈ t ∧ visibleTo r.path g.1 = true ∧ g.1.flag ≠ r.flag) :
    ∀ g ∈ pre, g.1.var ≠ r.var := by
  intro g hg hv
  obtain ⟨hgt, hgv, hne⟩ := hvis g hg
  have := List.all_eq_true.mp h r hr
  simp only [List.contains_nil, Bool.false_or, List.isEmpty_iff] at this
  have hmem : g.1 ∈ aliasesOf t r := by
    unfold aliasesOf
    refine List.mem_filter.mpr ⟨hgt, ?_⟩
    simp only [Bool.and_eq_true, beq_iff_eq, bne_iff_ne, ne_eq]
    exact ⟨⟨hv, hgv⟩, hne⟩
  rw [this] at hmem
  exact absurd hmem (List.not_mem_nil)

/-- conversely a flag whose variable ended up with another value is one for which the explicit
    default is *not* the same as omitting it: the command reads something else -/
theorem explicit_default_differs (regs : List Reg) (r : Reg) (h : finalValue regs r.var ≠ some r.default) :
    reads (atRun regs [(r, r.default)]) r.var ≠ reads (atRun regs []) r.var := by
  unfold reads atRun
  simp only [parse, setFlag, List.lookup_cons, beq_self_eq_true]
  intro he
  exact h he.symm

/-- so with a conflict, in every initialisation order, some flag behaves differently when its
    documented default is spelled out -/
theorem conflict_observable (regs regs' : List Reg) (h : ¬ noConflict regs = true) (hp : regs'.Perm regs) :
    ∃ r ∈ regs, reads (atRun regs' [(r, r.default)]) r.var ≠ reads (atRun regs' []) r.var := by
  obtain ⟨r, hr, hne⟩ := conflict_breaks_one regs regs' h hp
  exact ⟨r, hr, explicit_default_differs regs' r hne⟩

/-! ### what the help of a command prints for a name vs. what the command line sets -/

/-- when every flag holds its documented default and a flag that hides an inherited one documents
    the same default, the default `path --help` prints for `--flag` (cobra 1.5: the nearest
    ancestor's line when the name is inherited) is the value the flag the command line sets holds -/
theorem help_default_is_used_except (ex : List (String × String)) (t : List Row)
    (h1 : shadowAgreeExcept ex t = true) (h2 : defaultsUsed t = true)
    (path flag : String) (hex : ex.contains (path, flag) = false)
    (e s : Reg) (he : effective t path flag = some e) (hs : shown t path flag = some s) :
    s.default = e.current := by
  have used : ∀ r ∈ t, r.default = r.current := by
    intro r hr
    have := List.all_eq_true.mp h2 r hr
    simp only [rowOK, beq_iff_eq] at this
    exact this.symm
  unfold effective at he
  unfold shown at hs
  cases hn : nearest (inheritedRows t path flag) with
  | none =>
    rw [hn] at hs he
    simp only at hs
    rw [hs] at he
    have hes : s = e := Option.some.inj he
    rw [← hes]
    exact used s (List.mem_of_find?_eq_some hs)
  | some q =>
    rw [hn] at hs he
    have hqs : q = s := Option.some.inj hs
    have hq := List.mem_filter.mp (nearest_mem hn)
    rw [hqs] at hq
    cases ho : ownRow t path flag with
    | none =>
      rw [ho] at he
      have hqe : q = e := Option.some.inj he
      rw [← hqe, hqs]
      exact used s hq.1
    | some r =>
      rw [ho] at he
      have hre : r = e := Option.some.inj he
      rw [hre] at ho
      have hr : e ∈ t := List.mem_of_find?_eq_some ho
      have hp := List.find?_some ho
      simp only [Bool.and_eq_true, beq_iff_eq] at hp
      have hsa := List.all_eq_true.mp h1 e hr
      rw [hp.1, hp.2, hex] at hsa
      simp only [Bool.false_or, List.all_eq_true] at hsa
      have hh := hsa s hq.1
      have hides_true : hides e s = true := by
        have hq2 := hq.2
        simp only [Bool.and_eq_true, beq_iff_eq, isAncestorPath, bne_iff_ne, ne_eq] at hq2
        unfold hides
        simp only [Bool.and_eq_true, beq_iff_eq, bne_iff_ne, ne_eq]
        rw [hp.1, hp.2]
        exact ⟨⟨⟨hq2.1.1, hq2.1.2⟩, hq2.2.1⟩, hq2.2.2⟩
      simp only [hides_true, Bool.not_true, Bool.false_or, beq_iff_eq] at hh
      rw [hh]
      exact used e hr

theorem help_default_is_used (t : List Row) (h1 : shadowAgree t = true) (h2 : defaultsUsed t = true)
    (path flag : String) (e s : Reg) (he : effective t path flag = some e) (hs : shown t path flag = some s) :
    s.default = e.current :=
  help_default_is_used_except [] t h1 h2 path flag rfl e s he hs

/-! ### hypotheses are satisfiable on a non-trivial list: two commands sharing two variables with
    the same defaults, a third variable of its own -/

def exampleRegs : List Reg := [
  ⟨"gotree a", "input", "i", true, 0, "string", "stdin", "stdin"⟩,
  ⟨"gotree a", "cut", "c", false, 1, "float64", "0.5", "0.5"⟩,
  ⟨"gotree b", "input", "i", true, 0, "string", "stdin", "stdin"⟩,
  ⟨"gotree b", "out", "o", true, 2, "string", "stdout", "stdout"⟩,
  ⟨"gotree c", "cutoff", "c", false, 1, "float64", "0.5", "0.5"⟩]

example : noConflict exampleRegs = true := by decide
example : ∀ r ∈ exampleRegs, finalValue exampleRegs.reverse r.var = some r.default :=
  noConflict_any_order exampleRegs exampleRegs.reverse (by decide) (List.reverse_perm _)
example : tableOK exampleRegs = true := spec_of_decisions _ (by decide) (by decide)
/-- hypotheses of `help_default_is_used`, on a list where a sub-command re-registers an inherited name -/
example : shadowAgree (⟨"gotree", "input", "i", true, 0, "string", "stdin", "stdin"⟩ :: exampleRegs) = true ∧
    defaultsUsed (⟨"gotree", "input", "i", true, 0, "string", "stdin", "stdin"⟩ :: exampleRegs) = true ∧
    (shown (⟨"gotree", "input", "i", true, 0, "string", "stdin", "stdin"⟩ :: exampleRegs) "gotree a" "input").map (·.path) = some "gotree" ∧
    (effective (⟨"gotree", "input", "i", true, 0, "string", "stdin", "stdin"⟩ :: exampleRegs) "gotree a" "input").map (·.path) = some "gotree a" := by
  decide +kernel
/-- hypothesis of `isolation_reads`: variable 1 is registered by "gotree a" and by "gotree c" -/
example : ∃ r ∈ exampleRegs, r.var = 1 ∧ r.path ≠ "gotree a" :=
  ⟨⟨"gotree c", "cutoff", "c", false, 1, "float64", "0.5", "0.5"⟩, by simp [exampleRegs], rfl, by decide⟩
example : explicitSame exampleRegs ⟨"gotree a", "cut", "c", false, 1, "float64", "0.5", "0.5"⟩
    [(⟨"gotree a", "input", "i", true, 0, "string", "stdin", "stdin"⟩, "file.nw")] [0, 1, 2] = true := by decide

/-! ### per run: the table regenerated from the live command tree -/

open Gotree.Gen.C19Flags in
/-- ★ no variable is bound by two flags that document different defaults -/
theorem table_noConflict : noConflict Gotree.Gen.C19Flags.table = true := by decide +kernel

open Gotree.Gen.C19Flags in
/-- ★ the runtime fact itself: before any parsing every flag holds its documented default -/
theorem table_current_is_default :
    Gotree.Gen.C19Flags.table.all (fun r => r.current == r.default) = true := by decide +kernel

/-- the table has the number of rows the generator counted (the chunks were put together completely) -/
theorem table_complete : Gotree.Gen.C19Flags.table.length = Gotree.Gen.C19Flags.nrows := by decide +kernel

/-- where the free text of a help sentence claims a numeric / boolean default, it is the one pflag prints -/
theorem table_usage_claims :
    Gotree.Gen.C19Flags.usageClaims.all (fun p => usageOK p.1 p.2 && Gotree.Gen.C19Flags.table.contains p.1) = true := by
  decide +kernel

/-- Help-level clause (cobra 1.5 lists the ancestor's line for a flag that hides an inherited one).
    Full statement, which does NOT hold on the current tree (open finding F47, see
    `shadowAgree_pinnedF47_fails`):   shadowAgree Gen.C19Flags.table = true
    Proved: every flag except `gotree download itol --format`. -/
theorem table_shadowAgree_partial :
    shadowAgreeExcept [("gotree download itol", "format")] Gotree.Gen.C19Flags.table = true := by decide +kernel

/-- on the dumped state: for every command and option name except `download itol --format`, the default
    the help prints is the value the option the command line sets holds -/
theorem table_help_default_is_used_partial (path flag : String)
    (hex : [("gotree download itol", "format")].contains (path, flag) = false)
    (e s : Reg) (he : effective Gotree.Gen.C19Flags.table path flag = some e)
    (hs : shown Gotree.Gen.C19Flags.table path flag = some s) : s.default = e.current :=
  help_default_is_used_except _ _ table_shadowAgree_partial table_current_is_default path flag hex e s he hs

/-- Full statement, which does NOT hold on the current tree (open finding F87, see `noAlias_pinnedF87_fails`):
      noAliasInCommand Gen.C19Flags.table = true
    Proved: no command sees two flags on one variable, except `--input-format` of the `reformat` commands
    (bound to the variable of the root's persistent `--format`). -/
theorem table_noAliasInCommand_partial :
    noAliasInCommandExcept [("gotree reformat", "input-format")] Gotree.Gen.C19Flags.table = true := by decide +kernel

/-- the dumped state satisfies the whole Spec predicate (defaults used, shared variables agree, commands isolated) -/
theorem table_satisfies_spec : tableOK Gotree.Gen.C19Flags.table = true :=
  spec_of_decisions _ table_noConflict table_current_is_default

/-- whatever the order in which the `init()` functions ran, every flag of every command reads the
    default its help text shows — and that is the value dumped from the running program -/
theorem table_any_init_order (regs' : List Reg) (hp : regs'.Perm Gotree.Gen.C19Flags.table) :
    ∀ r ∈ Gotree.Gen.C19Flags.table, finalValue regs' r.var = some r.default ∧ r.current = r.default := by
  intro r hr
  refine ⟨noConflict_any_order _ _ table_noConflict hp r hr, ?_⟩
  have := List.all_eq_true.mp table_current_is_default r hr
  simpa using this

/-- the property on the dumped state: for every flag of every command, in every initialisation
    order, with any other options, passing the documented default changes no variable -/
theorem table_omitted_eq_explicit (regs' : List Reg) (hp : regs'.Perm Gotree.Gen.C19Flags.table)
    (r : Reg) (hr : r ∈ Gotree.Gen.C19Flags.table) (pre post : List (Reg × String))
    (hpre : ∀ g ∈ pre, g.1.var ≠ r.var) :
    ∀ v, reads (atRun regs' (pre ++ (r, r.default) :: post)) v = reads (atRun regs' (pre ++ post)) v :=
  omitted_eq_explicit _ regs' table_noConflict hp r hr pre post hpre

/-! ### "the same EFFECT": a command body that is a function of the option variables -/

/-- the body of a command, as far as its options are concerned, is a function of what it reads from
    the option variables (and of nothing else about the command line) -/
def ReadsOnly {β : Type} (body : Store → β) : Prop :=
  ∀ s s' : Store, (∀ v, reads s v = reads s' v) → body s = body s'

/-- `Flags().Changed`: was the flag on the command line? -/
def wasGiven (cl : List (Reg × String)) (r : Reg) : Bool := cl.any fun g => decide (g.1 = r)

/-- ★ the clause "same effect" under its explicit hypothesis: whatever a command computes from the
    option variables alone is the same with an option omitted and with its documented default
    spelled out (no conflict, any init order, any other options not aliasing it before) -/
theorem same_effect {β : Type} (body : Store → β) (hb : ReadsOnly body)
    (regs regs' : List Reg) (h : noConflict regs = true) (hp : regs'.Perm regs)
    (r : Reg) (hr : r ∈ regs) (pre post : List (Reg × String)) (hpre : ∀ g ∈ pre, g.1.var ≠ r.var) :
    body (atRun regs' (pre ++ (r, r.default) :: post)) = body (atRun regs' (pre ++ post)) :=
  hb _ _ (omitted_eq_explicit regs regs' h hp r hr pre post hpre)

/-- … instantiated on the regenerated table -/
theorem table_same_effect {β : Type} (body : Store → β) (hb : ReadsOnly body)
    (regs' : List Reg) (hp : regs'.Perm Gotree.Gen.C19Flags.table)
    (r : Reg) (hr : r ∈ Gotree.Gen.C19Flags.table) (pre post : List (Reg × String)) (hpre : ∀ g ∈ pre, g.1.var ≠ r.var) :
    body (atRun regs' (pre ++ (r, r.default) :: post)) = body (atRun regs' (pre ++ post)) :=
  same_effect body hb _ regs' table_noConflict hp r hr pre post hpre

/-- reading one variable, or any function of finitely many reads, is such a body -/
theorem readsOnly_of_vars {β : Type} (vars : List Nat) (f : List (Option String) → β) :
    ReadsOnly fun s => f (vars.map (reads s)) := by
  intro s s' h
  have : vars.map (reads s) = vars.map (reads s') := List.map_congr_left fun v _ => h v
  simp only [this]

/-- and the hypothesis cannot be dropped: whether an option was GIVEN is not a function of the
    variables — the two command lines leave every variable alike and differ in `Changed`
    (the mechanism of findings F45 and F55, and of every site of table (f)) -/
theorem given_not_readsOnly (regs : List Reg) (r : Reg) (h : finalValue regs r.var = some r.default) :
    (∀ v, reads (atRun regs [(r, r.default)]) v = reads (atRun regs []) v) ∧
    wasGiven [(r, r.default)] r ≠ wasGiven [] r := by
  refine ⟨fun v => ?_, by simp [wasGiven]⟩
  have := explicit_default_no_effect regs r h [] [] (by simp) v
  simpa using this

example : ReadsOnly fun s => (reads s 1, reads s 0) :=
  readsOnly_of_vars [1, 0] fun l => (l.headD none, (l.drop 1).headD none)

/-! ### pinned variant: F24 as it was before fix 7e6fdde (4-row excerpt of the old table) -/

/-- `cutoff` (variable 0) is bound by `compute consensus --freq-min` (0.5) and by `brlen setmin --length` (0);
    cmd/consensus.go is initialised before cmd/minbrlen.go -/
def pinnedF24 : List Reg := [
  ⟨"gotree compute consensus", "freq-min", "f", true, 0, "float64", "0.5", "0"⟩,
  ⟨"gotree compute consensus", "input", "i", true, 1, "string", "stdin", "stdin"⟩,
  ⟨"gotree brlen setmin", "length", "l", false, 0, "float64", "0", "0"⟩,
  ⟨"gotree brlen setmin", "input", "i", true, 1, "string", "stdin", "stdin"⟩]

theorem noConflict_pinned_fails : noConflict pinnedF24 = false := by decide

/-- the model reproduces what the old binary did: consensus read 0, not the documented 0.5 -/
theorem finalValue_pinned_fails :
    finalValue pinnedF24 0 = some "0" ∧ pinnedF24.map (·.current) = pinnedF24.map (fun r => (finalValue pinnedF24 r.var).getD "") := by
  decide

theorem current_is_default_pinned_fails : pinnedF24.all (fun r => r.current == r.default) = false := by decide

/-- and linking `brlen setmin` in changed what `compute consensus` reads -/
theorem isolation_pinned_fails :
    finalValue (without pinnedF24 "gotree brlen setmin") 0 = some "0.5" ∧ finalValue pinnedF24 0 = some "0" := by
  decide

/-- `compute consensus --freq-min=0.5` was not the same as `compute consensus` -/
theorem explicitSame_pinned_fails :
    explicitSame pinnedF24 ⟨"gotree compute consensus", "freq-min", "f", true, 0, "float64", "0.5", "0"⟩ [] [0, 1] = false := by
  decide

theorem tableOK_pinned_fails : tableOK pinnedF24 = false := by decide

/-- no reordering of the four registrations would have repaired it -/
theorem pinned_no_lucky_order (regs' : List Reg) (hp : regs'.Perm pinnedF24) :
    ∃ r ∈ pinnedF24, finalValue regs' r.var ≠ some r.default :=
  conflict_breaks_one _ _ (by decide) hp

/-! ### pinned witness of finding F87: `reformat --input-format` is an alias of the root's `--format` -/

def pinnedF87 : List Reg := [
  ⟨"gotree", "format", "", true, 0, "string", "newick", "newick"⟩,
  ⟨"gotree reformat", "input-format", "f", true, 0, "string", "newick", "newick"⟩,
  ⟨"gotree reformat", "output", "o", true, 1, "string", "stdout", "stdout"⟩]

/-- nothing is wrong with the registrations (same default, every flag holds it) … -/
theorem tableOK_pinnedF87 : tableOK pinnedF87 = true := by decide

/-- … but `reformat` sees two flags on variable 0, and `--format nexus --input-format newick` reads
    "newick" where `--format nexus` reads "nexus": the documented default spelled out is not "omitted" -/
theorem noAlias_pinnedF87_fails :
    noAliasInCommand pinnedF87 = false ∧
    reads (atRun pinnedF87 [(⟨"gotree", "format", "", true, 0, "string", "newick", "newick"⟩, "nexus"),
                            (⟨"gotree reformat", "input-format", "f", true, 0, "string", "newick", "newick"⟩, "newick")]) 0 = some "newick" ∧
    reads (atRun pinnedF87 [(⟨"gotree", "format", "", true, 0, "string", "newick", "newick"⟩, "nexus")]) 0 = some "nexus" := by
  decide +kernel

/-! ### pinned witness of finding F47: `download itol --format` hides the root's `--format` -/

def pinnedF47 : List Reg := [
  ⟨"gotree", "format", "", true, 0, "string", "newick", "newick"⟩,
  ⟨"gotree download itol", "format", "f", true, 1, "string", "pdf", "pdf"⟩,
  ⟨"gotree download itol", "output", "o", true, 2, "string", "stdout", "stdout"⟩]

/-- nothing is wrong at the level of the variables (no shared variable, every flag holds its default) … -/
theorem tableOK_pinnedF47 : tableOK pinnedF47 = true := by decide

/-- the model of cobra's resolution reproduces it: the command line sets the "pdf" flag, the help prints the "newick" one -/
theorem shown_pinnedF47_fails :
    (effective pinnedF47 "gotree download itol" "format").map (·.current) = some "pdf" ∧
    (shown pinnedF47 "gotree download itol" "format").map (·.default) = some "newick" := by decide +kernel

/-- … but the help of `download itol` shows `--format … (default "newick")` for an option whose value is "pdf" -/
theorem shadowAgree_pinnedF47_fails :
    shadowAgree pinnedF47 = false ∧
    shadowConflicts pinnedF47 = [(⟨"gotree download itol", "format", "f", true, 1, "string", "pdf", "pdf"⟩,
                                  ⟨"gotree", "format", "", true, 0, "string", "newick", "newick"⟩)] := by decide +kernel

/-! ### pinned witness of the defect repaired by c6119d8 (cmd/dlpanther.go:41 read `ncbioutput`) -/

/-- `ncbioutput` is registered by `download ncbitax --output` only; `download panther` reads it -/
def pinnedPanther : List Reg := [⟨"gotree download ncbitax", "output", "o", true, 0, "string", "stdout", "stdout"⟩]

theorem readIsolated_pinnedPanther_fails : readIsolated pinnedPanther "gotree download panther" = false := by decide +kernel

/-- … while a reader of a variable that several commands register alike is isolated -/
example : readIsolated [⟨"gotree stats", "output", "o", true, 7, "string", "stdout", "stdout"⟩,
    ⟨"gotree unroot", "output", "o", true, 7, "string", "stdout", "stdout"⟩] "gotree labels" = true := by decide +kernel

/-! ### `gotree rename`: the one command that asks whether an option was *given* (finding F45) -/

namespace Rename

/-- full statement (does NOT hold for the code as it is, see `renameMode_explicit_default_fails`):
      ∀ cl f, changed cl f = false → renameMode (cl ++ [(f, defaultOf f)]) = renameMode cl
    Proved part: every option except `--regexp`, and `--replace` when `--regexp` is not given. -/
theorem renameMode_explicit_default_partial (cl : CmdLine) (f : String) (h : changed cl f = false)
    (h1 : f ≠ "regexp") (h2 : f = "replace" → changed cl "regexp" = false) :
    renameMode (cl ++ [(f, defaultOf f)]) = renameMode cl := by
  unfold renameMode
  simp only [value_append_default cl f _ h, changed_append]
  have hx : (f == "regexp") = false := by simpa using h1
  simp only [hx, Bool.or_false]
  by_cases hr : f = "replace"
  · subst hr
    have := h2 rfl
    simp [this]
  · have hy : (f == "replace") = false := by simpa using hr
    simp [hy]

/-- the same for everything the driver compares runs by (`behaviour`: the branch and the values it reads) -/
theorem behaviour_explicit_default_partial (cl : CmdLine) (f : String) (h : changed cl f = false)
    (h1 : f ≠ "regexp") (h2 : f = "replace" → changed cl "regexp" = false) :
    behaviour (cl ++ [(f, defaultOf f)]) = behaviour cl := by
  unfold behaviour
  simp only [renameMode_explicit_default_partial cl f h h1 h2, value_append_default cl f _ h]

/-- the excluded region is a real difference: `rename -m m.txt --regexp none` is refused, `rename -m m.txt` renames -/
theorem renameMode_explicit_default_fails :
    renameMode [("map", "m.txt"), ("regexp", defaultOf "regexp")] = .errReplaceMissing ∧
    renameMode [("map", "m.txt")] = .map := by decide

/-- and so is the second one: with `--regexp` given, `--replace none` (its documented default) is not "omitted" -/
theorem renameMode_replace_default_fails :
    renameMode [("regexp", "Tip"), ("replace", defaultOf "replace")] = .regexp ∧
    renameMode [("regexp", "Tip")] = .errReplaceMissing := by decide

/-- the proposed repair (test the values, not `Changed`) satisfies the full statement -/
theorem renameModeByValue_explicit_default (cl : CmdLine) (f : String) (h : changed cl f = false) :
    renameModeByValue (cl ++ [(f, defaultOf f)]) = renameModeByValue cl := by
  unfold renameModeByValue
  simp only [value_append_default cl f _ h]

example : changed [("map", "m.txt"), ("auto", "true")] "length" = false ∧
    renameMode ([("map", "m.txt"), ("auto", "true")] ++ [("length", defaultOf "length")]) = .auto := by decide

end Rename

/-! ### `gotree brlen setrand`: the mean interval counts only when both options were *given* -/

namespace Setrand

/-- full statement (does NOT hold for the code as it is): spelling out documented defaults changes nothing,
      ∀ a b, meanRange a b defaultMin defaultMax = meanRange false false defaultMin defaultMax.
    Proved part: one of the two options alone, whatever its value. -/
theorem meanRange_explicit_default_partial (given : Bool) (lo hi : Rat) :
    meanRange given false lo hi = meanRange false false lo hi ∧
    meanRange false given lo hi = meanRange false false lo hi := by
  unfold meanRange
  cases given <;> simp

/-- the excluded region: both documented defaults spelled out select the interval, omitted they do not -/
theorem meanRange_explicit_defaults_fails :
    meanRange true true defaultMin defaultMax = some (defaultMin, defaultMax) ∧
    meanRange false false defaultMin defaultMax = none := by decide +kernel

end Setrand

/-! ### what the documented defaults of the global options mean (cmd/root.go PersistentPreRun) -/

namespace PreRun

/-- with the documented defaults: Newick input, seed from the clock -/
theorem preRun_defaults : preRun defaultFormat defaultSeed = ⟨.newick, none⟩ := by decide

/-- every text that is not one of the four names is silently the documented default -/
theorem formatOf_unknown (s : String) (h1 : s ≠ "nexus") (h2 : s ≠ "phyloxml") (h3 : s ≠ "nextstrain") :
    formatOf s = formatOf defaultFormat := by
  unfold formatOf defaultFormat
  split <;> simp_all

/-- the documented default of --seed is the only value that is not a seed: omitted and `--seed=-1`
    are both "clock", and no option value asks for the literal seed -1 -/
theorem seedOf_none_iff (s : Int) : seedOf s = none ↔ s = defaultSeed := by
  unfold seedOf defaultSeed
  by_cases h : s = -1
  · simp [h]
  · simp [h]

theorem reproducible_iff (s : Int) : reproducible s = true ↔ s ≠ defaultSeed := by
  unfold reproducible
  rw [Option.isSome_iff_ne_none, ne_eq, seedOf_none_iff]

/-- the clamp of `compare trees` never touches the documented default of --threads, is idempotent and bounded -/
theorem clampThreads_default (maxcpus : Int) (h : 1 ≤ maxcpus) : clampThreads defaultThreads maxcpus = defaultThreads := by
  unfold clampThreads defaultThreads
  have : ¬ (1 : Int) > maxcpus := by omega
  simp [this]

theorem clampThreads_le (t maxcpus : Int) : clampThreads t maxcpus ≤ maxcpus := by
  unfold clampThreads
  split <;> omega

theorem clampThreads_idem (t maxcpus : Int) : clampThreads (clampThreads t maxcpus) maxcpus = clampThreads t maxcpus := by
  unfold clampThreads
  split <;> simp_all

end PreRun

/-! ### what the anchored commands do with the documented default (Model/C19Glue) -/

namespace Glue

theorem consensusAccepts_iff (f : Rat) : consensusAccepts f = true ↔ 1 / 2 ≤ f ∧ f ≤ 1 := by
  unfold consensusAccepts
  simp only [Bool.not_eq_true', Bool.or_eq_false_iff, decide_eq_false_iff_not, Rat.not_lt]

/-- the documented default of `compute consensus --freq-min` is accepted (it is the smallest accepted
    value), while the default the option took before fix 7e6fdde (0, from `brlen setmin --length`) is refused -/
theorem consensus_default_accepted : consensusAccepts defaultFreqMin = true ∧ consensusAccepts 0 = false := by decide +kernel

/-- with its documented default `divide` writes prefix_000.nw, prefix_001.nw, …; before fix 152b9fc it wrote stdout_000.nw … -/
theorem divide_default_names :
    divideNames defaultPrefix 3 = ["prefix_000.nw", "prefix_001.nw", "prefix_002.nw"] ∧
    divideNames "stdout" 2 = ["stdout_000.nw", "stdout_001.nw"] := by decide +kernel

/-- `annotate`: the file name "none" for the compared tree means the documented default "stdin";
    with a map file the compared tree is not read at all -/
theorem annotate_none_is_default (mapfile : String) : annotateSource mapfile "none" = annotateSource mapfile "stdin" := by
  unfold annotateSource
  split <;> simp

theorem annotate_map_priority (mapfile c c' : String) (h : mapfile ≠ "none") :
    annotateSource mapfile c = annotateSource mapfile c' := by
  unfold annotateSource
  simp [h]

/-- with its documented default 0, `brlen setmin` changes no branch of non-negative length (and -1 = "no length" becomes 0) -/
theorem setmin_default_noop (external internal isTip : Bool) (len : Rat) (h : 0 ≤ len) :
    setmin 0 external internal isTip len = len := by
  unfold setmin
  have : ¬ len < 0 := Rat.not_lt.mpr h
  simp [this]

theorem setmin_ge (c : Rat) (isTip : Bool) (len : Rat) : c ≤ setmin c true true isTip len ∨ setmin c true true isTip len = len := by
  unfold setmin
  by_cases h : len < c
  · left; cases isTip <;> simp [h]
  · right; cases isTip <;> simp [h]

/-- neither --edges-only nor --nodes-only (the documented defaults) means BOTH kinds of comments,
    exactly as giving both; spelling the defaults out is the same as omitting them (value-based test) -/
theorem commentTargets_default : commentTargets false false = (true, true) ∧ commentTargets false false = commentTargets true true := by decide

theorem commentTargets_given (e n : Bool) (h : e = true ∨ n = true) : commentTargets e n = (e, n) := by
  unfold commentTargets
  rcases h with h | h <;> simp [h]

/-- the floor of `rename --length` leaves the documented default 10 alone -/
theorem autoLength_default : autoLength 10 = 10 := by decide

theorem autoLength_ge (l : Int) : 5 ≤ autoLength l ∧ (5 ≤ l → autoLength l = l) := by
  unfold autoLength
  constructor
  · split <;> omega
  · intro h
    have : ¬ l < 5 := by omega
    simp [this]

/-- `generate topologies`: with an input tree --nbtips (documented default 10) is not read at all -/
theorem topologiesNbTips_input (n m : Int) (k : Nat) : topologiesNbTips n (some k) = topologiesNbTips m (some k) := rfl

theorem topologiesNbTips_default (n : Int) : topologiesNbTips n none = n := rfl

/-- table (e), regenerated from the source each run: every assignment to an option variable made
    after parsing is one the models account for (a new one makes this decision fail) -/
theorem writes_all_modelled : Gotree.Gen.C19Writes.writes.all isModelled = true ∧ Gotree.Gen.C19Writes.problems = [] := by
  decide +kernel

/-- table (f), regenerated from the source each run: every test of whether an option was GIVEN
    (`Flags().Changed`) is accounted for by a model of that command's cascade and a recorded finding
    (a new one makes this decision fail: it is a place where the flag table cannot speak for the
    "same effect" clause) -/
theorem changed_all_accounted : Gotree.Gen.C19Changed.sites.all isAccounted = true ∧ Gotree.Gen.C19Changed.problems = [] := by
  decide +kernel

end Glue

/-! ### `gotree repopulate`: refuses the sentinel "none" (by value since fix 4cde097) -/

namespace Repopulate

/-- spelling the documented default out is the same as omitting the option, whether or not pflag saw the option -/
theorem accepts_explicit_default (given : Bool) : accepts given defaultGroups = accepts false defaultGroups := rfl

/-- pinned variant (before 4cde097, `Flags().Changed("id-groups")`): the default spelled out was accepted, omitted refused -/
theorem acceptsPinned_explicit_default_fails : acceptsPinned true defaultGroups = true ∧ acceptsPinned false defaultGroups = false := by decide

end Repopulate

/-! ### what the documented defaults "stdout" of --output and "stdin" of --input mean (Model/C19IO; cmd/root.go
    openWriteFile / closeWriteFile / readTree, io/utils OpenFile); table (g) Gen/C19Sentinels.lean -/

namespace IO

theorem openWrite_default : openWriteTarget defaultOutput = .stdout ∧ openWriteTarget "-" = .stdout := by decide

theorem openWrite_stdout_iff (f : String) : openWriteTarget f = .stdout ↔ f = "stdout" ∨ f = "-" := by
  unfold openWriteTarget stdoutNames
  by_cases h1 : f = "stdout" <;> by_cases h2 : f = "-" <;> simp [h1, h2]

theorem openWrite_file (f : String) (h1 : f ≠ "stdout") (h2 : f ≠ "-") : openWriteTarget f = .file f := by
  unfold openWriteTarget stdoutNames
  simp [h1, h2]

theorem closes_iff_file (f : String) : closesFile f = true ↔ openWriteTarget f = .file f := by
  unfold closesFile keepOpenNames openWriteTarget stdoutNames
  by_cases h1 : f = "stdout" <;> by_cases h2 : f = "-" <;> simp [h1, h2]

theorem openRead_stdin_iff (f : String) : openReadSource f = .stdin ↔ f = "" ∨ f = "stdin" ∨ f = "-" := by
  unfold openReadSource stdinNames
  by_cases h0 : f = "" <;> by_cases h1 : f = "stdin" <;> by_cases h2 : f = "-" <;> simp [h0, h1, h2]

theorem openRead_default : openReadSource defaultInput = .stdin := by decide

theorem predictOutput_default (printed : String) :
    predictOutput defaultOutput printed = "exit=0\nstdout:\n" ++ printed ∧ predictOutput "-" printed = predictOutput defaultOutput printed := by
  constructor <;> rfl

theorem predictOutput_file (f printed : String) (h1 : f ≠ "stdout") (h2 : f ≠ "-") :
    predictOutput f printed = outcomeInFile f printed := by
  unfold predictOutput
  rw [openWrite_file f h1 h2]

theorem readTree_agrees (f : String) : readTreeAccepts f = Glue.readTreeAccepts f := by
  unfold readTreeAccepts refusedTreeNames Glue.readTreeAccepts
  simp

theorem readTree_default : readTreeAccepts defaultInput = true ∧ readTreeAccepts "none" = false := by decide

theorem formatCases_agree :
    formatCases.all (fun p => p.1 == "*" || constName (PreRun.formatOf p.1) == p.2) = true ∧
    (formatCases.lookup "*") = some (constName (PreRun.formatOf "any other text")) ∧
    (formatCases.lookup PreRun.defaultFormat) = formatCases.lookup "*" := by decide

theorem seedSentinel_agrees (s : Int) : PreRun.seedOf s = none ↔ s = seedSentinel := by
  unfold PreRun.seedOf seedSentinel
  by_cases h : s = -1 <;> simp [h]

theorem sentinels_check : Gotree.Gen.C19Sentinels.rows = expectedRows ∧ Gotree.Gen.C19Sentinels.problems = [] := by
  decide +kernel

example : openWriteTarget "out.nw" = .file "out.nw" ∧ closesFile "out.nw" = true ∧ closesFile "stdout" = false := by decide

end IO

end Gotree.C19
