/-
  C15 — vocabulary of table (d) of DESIGN §4.1: the fields of `tree.Node` and
  `tree.Edge`, their kinds, and how `CopyNode` / `CopyEdge` treat each of them.
  The table itself (`Gotree/Gen/C15Fields.lean`) is REGENERATED from the Go
  source on every run by `harness/c15/extract.go`; this file only fixes the
  types and the two decidable predicates the theorems take as hypotheses.
  Core Lean only.
-/
namespace Gotree.C15

/-- kind of a struct field, from its Go type -/
inductive Kind
  | value      -- basic type (string, int, float64, uint64, bool)
  | slice
  | pointer
  | map
  | extStruct  -- a struct value of another package
  | other
  deriving DecidableEq, Repr

/-- what the copy function does with the field -/
inductive Treat
  | valueCopy  -- `dst.f = src.f` on a value field
  | deepCopy   -- fresh allocation (`make` + element-wise copy / `copy` / `append` onto a fresh slice / `src.f.Clone()`)
  | shared     -- `dst.f = src.f` on a slice / pointer / map: both structs reference the same cells
  | notCopied  -- never assigned by the copy function: keeps the value given by `NewNode` / `NewEdge`
  deriving DecidableEq, Repr

structure Field where
  owner : String   -- "Node" | "Edge"
  name : String
  kind : Kind
  treat : Treat
  deriving DecidableEq, Repr

/-- facts about `copyTreeRecur` / `Clone` / `SubTree` read off the source -/
structure RecurFacts where
  /-- `copyTreeRecur` creates the child with `CopyNode` and joins it to the copy of the
      parent with `ConnectNodes` of the *copy* tree (fresh edge, `neigh`/`br`/`left`/`right`
      only ever receive copies) -/
  connectsCopies : Bool
  /-- the branch data go through `CopyEdge` -/
  usesCopyEdge : Bool
  /-- `Clone` and `SubTree` create their root with `CopyNode` -/
  rootsCopied : Bool
  /-- `NewNode` and `NewEdge` give every reference-typed field a fresh value (`make(...)`) or none
      (nil / left out): a field the copy function does not touch shares nothing either -/
  newFresh : Bool
  deriving DecidableEq, Repr

abbrev Table := List Field

def Table.treat (tb : Table) (owner name : String) : Option Treat :=
  (tb.find? fun f => f.owner == owner && f.name == name).map (·.treat)

/-- the field reaches the copy with the value it has in the source -/
def Table.copied (tb : Table) (owner name : String) : Bool :=
  match tb.treat owner name with
  | some .valueCopy | some .deepCopy | some .shared => true
  | _ => false

/-- The fields the α dump and the Newick writer read (what a clone must reproduce). -/
def observableFields : List (String × String) :=
  [("Node", "name"), ("Node", "comment"), ("Node", "id"),
   ("Edge", "length"), ("Edge", "support"), ("Edge", "pvalue"), ("Edge", "comment"), ("Edge", "id")]

/-- hypothesis of `clone_eq` -/
def allObservableFieldsCopied (tb : Table) : Bool :=
  observableFields.all fun (o, n) => tb.copied o n

def Kind.isRef : Kind → Bool
  | .slice | .pointer | .map => true
  | _ => false

/-- hypothesis of `copy_fresh`: no reference-typed field of the copy points into the source:
    it is either deep-copied or left at the fresh value of `NewNode`/`NewEdge` (and then only
    filled by `ConnectNodes` with copies, which is `RecurFacts.connectsCopies`); and no field
    has a kind the extractor does not understand. -/
def allRefFieldsFresh (tb : Table) (rf : RecurFacts) : Bool :=
  (tb.all fun f => f.kind != .other && (!f.kind.isRef || f.treat == .deepCopy || f.treat == .notCopied)) &&
  (tb.all fun f => f.kind != .extStruct || f.treat != .shared) &&
  rf.connectsCopies && rf.usesCopyEdge && rf.rootsCopied && rf.newFresh


/-- why a field of `Node` / `Edge` / `Tree` does or does not have to reach a copy by `CopyNode` / `CopyEdge` -/
inductive Policy
  | mustCopy     -- printed or answered by some accessor (name, comments, ids, lengths, supports, p-values, depths
                 -- incl. the depth to the root shown by `Edge.ToStatsString`, tip counts, hash codes, bitsets)
  | structural   -- the pointer structure itself: rebuilt by `ConnectNodes` / `SetRoot` with copies (facts of `RecurFacts`)
  | recomputed   -- derived state the copy recomputes itself: `tipid` and the tip index map (`UpdateTipIndex`)
  deriving DecidableEq, Repr

/-- EVERY field of the three structs, reviewed (round 6).  A field the source has and this list has not
    makes `allFieldsReviewed` fail, so a new field cannot go unnoticed. -/
def fieldPolicy : List ((String × String) × Policy) :=
  [ (("Node", "name"), .mustCopy), (("Node", "comment"), .mustCopy), (("Node", "neigh"), .structural),
    (("Node", "br"), .structural), (("Node", "depth"), .mustCopy), (("Node", "rootdepth"), .mustCopy),
    (("Node", "id"), .mustCopy), (("Node", "tipid"), .recomputed),
    (("Edge", "left"), .structural), (("Edge", "right"), .structural), (("Edge", "length"), .mustCopy),
    (("Edge", "comment"), .mustCopy), (("Edge", "support"), .mustCopy), (("Edge", "pvalue"), .mustCopy),
    (("Edge", "bitset"), .mustCopy), (("Edge", "hashcoderight"), .mustCopy), (("Edge", "hashcodeleft"), .mustCopy),
    (("Edge", "ntaxright"), .mustCopy), (("Edge", "ntaxleft"), .mustCopy), (("Edge", "id"), .mustCopy),
    (("Tree", "root"), .structural), (("Tree", "tipIndex"), .recomputed) ]

/-- every field of the regenerated table has a reviewed policy, every reviewed field exists, and every
    `mustCopy` field is copied (by value, deeply, or — flagged elsewhere — shared) -/
def allFieldsReviewed (tb : Table) : Bool :=
  (tb.all fun f => (fieldPolicy.lookup (f.owner, f.name)).isSome) &&
  (fieldPolicy.all fun (k, _) => (tb.treat k.1 k.2).isSome) &&
  (fieldPolicy.all fun (k, pol) => pol != .mustCopy || tb.copied k.1 k.2)

end Gotree.C15
