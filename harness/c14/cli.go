package c14

import (
	"bufio"
	"fmt"
	"os"
	"path/filepath"
	"strconv"
	"strings"
	"time"

	"verifharness/core"

	"github.com/evolbioinfo/gotree/io/utils"
)

// CLI tier: `gotree matrix` and `gotree brlen cut` as functions of their flags.  The input text
// is also read in-process with the library's own multi-tree reader, so that the case line
// carries what the command was handed (alpha dump of every delivered tree, "!" for a record
// carrying an error); the model then predicts exit code and the exact bytes written.

const brokenTree = "(a:1,(b:1,c:2);\n"

var metricFlags = []string{"brlen", "boot", "none"}
var badMetricFlags = []string{"boots", "BRLEN", "", "Boot", "length", "0", "none ", "brlen,boot"}

// what ReadMultiTrees delivers for this text
func delivered(text string) string {
	var b strings.Builder
	for tr := range utils.ReadMultiTrees(bufio.NewReader(strings.NewReader(text)), utils.FORMAT_NEWICK) {
		if tr.Err != nil || tr.Tree == nil {
			msg := "nil tree"
			if tr.Err != nil {
				msg = tr.Err.Error()
			}
			b.WriteString("!" + core.Escape(msg) + "|")
			continue
		}
		n, wf := core.Alpha(tr.Tree)
		if !wf.OK() {
			panic(fmt.Sprintf("c14: delivered tree not well formed: %v", wf.Problems))
		}
		b.WriteString(n.Dump())
		b.WriteByte('|')
	}
	return b.String()
}

// textOfDumps rebuilds an input text from the dumps field of a request (replay)
func textOfDumps(field string) string {
	if strings.HasPrefix(field, "NOFILE") {
		return ""
	}
	var b strings.Builder
	for _, d := range strings.Split(strings.TrimSuffix(field, "|"), "|") {
		if d == "" {
			continue
		}
		if strings.HasPrefix(d, "!") {
			b.WriteString(brokenTree)
			continue
		}
		n, err := core.ParseDump(d)
		if err != nil {
			panic(err)
		}
		t, err := core.Build(n)
		if err != nil {
			panic(err)
		}
		b.WriteString(t.Newick() + "\n")
	}
	return b.String()
}

// mode 0: independent trees; 1: same taxa; 2: same number of tips, other names in later trees
func cliTrees(c *core.Ctx, mode int) string {
	sameTaxa := mode != 0
	o := opts(c.G)
	if o.MaxTips > 12 {
		o.MinTips, o.MaxTips = 3, 12
	}
	k := 1 + c.G.Intn(3)
	if c.G.Chance(0.05) {
		k = 0 // empty input: the reader delivers one error record
	}
	var b strings.Builder
	ntips := 0
	for i := 0; i < k; i++ {
		o2 := o
		if sameTaxa && i > 0 {
			o2.MinTips, o2.MaxTips = ntips, ntips
			if mode == 2 && i == k-1 && c.G.Chance(0.4) {
				o2.TipPrefix = "u"
			}
		}
		n, _ := c.G.Tree(o2)
		if sameTaxa && i > 0 && mode == 2 && i == k-1 && o2.TipPrefix != "u" {
			lv := leavesOf(n)
			l := lv[c.G.Intn(len(lv))]
			l.Name = []string{"zz", "a", l.Name + "x"}[c.G.Intn(3)]
		}
		if !sameTaxa || i == 0 {
			n = degenerate(c.G, n, true)
		}
		if i == 0 {
			ntips = len(n.TipNames())
			if ntips < 2 {
				ntips = 2
			}
		}
		t, err := core.Build(n)
		if err != nil {
			panic(err)
		}
		b.WriteString(t.Newick())
		if c.G.Chance(0.8) {
			b.WriteString("\n")
		}
	}
	return b.String()
}

func cliMatrixCase(c *core.Ctx) {
	avg := c.G.Chance(0.4)
	mflag := metricFlags[c.G.Intn(3)]
	switch r := c.G.Intn(100); {
	case r < 8:
		mflag = badMetricFlags[c.G.Intn(len(badMetricFlags))]
	case r < 16:
		mflag = []string{"boots", "brlens", "None", "bootstrap", "support", "brlen "}[c.G.Intn(6)] // near misses of the three spellings
	case r < 28:
		mflag = "OMIT" // option not given: default brlen
	}
	mode := 0
	if avg {
		mode = 1
		if c.G.Chance(0.15) {
			mode = 2
			if c.G.Chance(0.5) {
				mode = 0 // independent trees: usually another number of tips
			}
		}
	}
	text := cliTrees(c, mode)
	if c.G.Chance(0.12) {
		// an unreadable tree somewhere: the matrices before it are printed, then the error
		// (with --avg: the error of the tree, unless an earlier tree had other taxa; fix 55aaa9d)
		lines := strings.SplitAfter(text, ";")
		i := c.G.Intn(len(lines))
		text = strings.Join(lines[:i], "") + "\n" + brokenTree + strings.Join(lines[i:], "")
	}
	outmode := []string{"stdout", "file", "dash", "stdin"}[c.G.Intn(4)]
	doCliMatrix(c, mflag, avg, outmode, text, c.G.Chance(0.04))
}

// outmode: stdout (no -o), file (-o <file>), dash (-o -), stdin (no -i: tree text on stdin, no -o)
func runWithIO(c *core.Ctx, outmode, text string, nofile bool, args []string) (exit int, written string, inpath string) {
	stdin := ""
	var outfile string
	if outmode == "stdin" && !nofile {
		stdin = text
	} else {
		in := c.TmpFile(text)
		if nofile {
			in = filepath.Join(c.Tmp, "does-not-exist.nw")
		}
		args = append(args, "-i", in)
		inpath = in
	}
	switch outmode {
	case "file":
		outfile = c.TmpFile("stale content\n")
		args = append(args, "-o", outfile)
	case "dash":
		args = append(args, "-o", "-")
	}
	r := c.RunCLI(stdin, 30*time.Second, args...)
	written = r.Stdout
	if outfile != "" {
		b, err := os.ReadFile(outfile)
		if err != nil {
			written = "NOOUTFILE"
		} else {
			written = string(b)
			if written == "stale content\n" {
				written = "" // the command ended before opening its output (pflag rejected a value)
			}
		}
		if r.Stdout != "" {
			written += "STDOUT:" + r.Stdout
		}
	}
	return r.Exit, written, inpath
}

func doCliMatrix(c *core.Ctx, mflag string, avg bool, outmode, text string, nofile bool) {
	args := []string{"matrix"}
	shown := mflag
	if mflag == "OMIT" {
		shown = "brlen"
	} else if c.G.Chance(0.5) {
		args = append(args, "-m", mflag)
	} else {
		args = append(args, "--metric="+mflag)
	}
	if avg {
		args = append(args, "--avg")
	}
	exit, written, inpath := runWithIO(c, outmode, text, nofile, args)
	dumps := "NOFILE" + core.Escape(inpath)
	if !nofile {
		dumps = delivered(text)
	}
	avgs := "0"
	if avg {
		avgs = "1"
	}
	c.Emit("C14.climatrix", core.Escape(shown), avgs, outmode, dumps, strconv.Itoa(exit), core.Escape(written))
}

// what strconv.ParseFloat accepts beyond decimals (inf / infinity with an optional sign, nan without; any case),
// and near misses that it refuses
var specialLFlags = []string{"inf", "+Inf", "-inf", "Infinity", "-INFINITY", "+infinity", "nan", "NaN", "+nan", "-nan", "infin", "in", "nanx"}

// fixed hexadecimal / separated spellings, accepted (0.5, 3, 1, 1000, 1, -0.25, 102.5) and refused
var hexLFlags = []string{"0x1p-1", "0X1.8P+1", "0x_1p0", "1_000", "0x.8p1", "-0x1p-2", "+1_0.2_5e0_1",
	"0x1p", "0x10", "1__0", "_1", "1_", "1e_5", "1_e5", "0_.5", "0x1.8", "0xp1", "0x1.8p+_1"}

var badLFlags = []string{"abc", "", "1,5", "0.5.1", "--", "1e", "½"}

func spellings(thr float64) []string {
	s := []string{
		strconv.FormatFloat(thr, 'f', -1, 64),
		strconv.FormatFloat(thr, 'e', -1, 64),
		strconv.FormatFloat(thr, 'E', 3, 64), // exact for multiples of 1/16 below 1000? no: keep only when exact
		strconv.FormatFloat(thr, 'f', 6, 64),
	}
	// drop spellings that do not denote thr exactly
	var out []string
	for _, x := range s {
		if v, err := strconv.ParseFloat(x, 64); err == nil && v == thr {
			out = append(out, x)
		}
	}
	if thr > 0 && thr < 1 {
		out = append(out, strings.TrimPrefix(strconv.FormatFloat(thr, 'f', -1, 64), "0")) // ".5"
	}
	if thr >= 0 {
		out = append(out, "+"+strconv.FormatFloat(thr, 'f', -1, 64))
	}
	return out
}

func cliCutCase(c *core.Ctx) {
	o := opts(c.G)
	if o.MaxTips > 12 {
		o.MinTips, o.MaxTips = 3, 12
	}
	// a negative cutoff on trees whose branches all have a length: every branch is "greater than or equal", every
	// tip is alone (a cutoff read as its absolute value, clamped to 0 or refused shows here)
	negative := c.G.Chance(0.06)
	if negative {
		o.Lengths = 3
	}
	k := 1 + c.G.Intn(3)
	var b strings.Builder
	var first *core.N
	for i := 0; i < k; i++ {
		n, _ := c.G.Tree(o)
		n = degenerate(c.G, n, true)
		if first == nil {
			first = n
		}
		t, err := core.Build(n)
		if err != nil {
			panic(err)
		}
		b.WriteString(t.Newick() + "\n")
	}
	text := b.String()
	if c.G.Chance(0.1) {
		lines := strings.SplitAfter(text, "\n")
		i := c.G.Intn(len(lines))
		text = strings.Join(lines[:i], "") + brokenTree + strings.Join(lines[i:], "")
	}
	lflag := "omit"
	switch r := c.G.Intn(100); {
	case negative:
		lflag = "v:" + []string{"-0.125", "-0.5", "-1", "-2.5", "-1e-1", "-37.5"}[c.G.Intn(6)]
	case r < 10:
	case r < 20:
		lflag = "v:" + badLFlags[c.G.Intn(len(badLFlags))]
	case r < 26:
		lflag = "v:" + specialLFlags[c.G.Intn(len(specialLFlags))]
	case r < 34:
		// hexadecimal floats and digit separators: ParseFloat accepts them (round 7b: inside the model)
		thr := drawThreshold(c.G, first, o)
		if o.LenDenom != 8 {
			thr = float64(c.G.Intn(40)) / 8
		}
		sp := []string{strconv.FormatFloat(thr, 'x', -1, 64), strings.ToUpper(strconv.FormatFloat(thr, 'x', -1, 64))}
		if d := strconv.FormatFloat(thr, 'f', -1, 64); thr >= 0 {
			sp = append(sp, d[:1]+"_"+d[1:], "0_"+d, "0x_"+strconv.FormatFloat(thr, 'x', -1, 64)[2:]) // the first may be refused (`1_.5`): then both must refuse
		}
		sp = append(sp, hexLFlags...)
		lflag = "v:" + sp[c.G.Intn(len(sp))]
	default:
		thr := drawThreshold(c.G, first, o)
		if o.LenDenom != 8 {
			thr = float64(c.G.Intn(40)) / 8 // decimal lengths: a threshold the model reads exactly from its spelling
		}
		sp := spellings(thr)
		lflag = "v:" + sp[c.G.Intn(len(sp))]
	}
	outmode := []string{"stdout", "file", "dash", "stdin"}[c.G.Intn(4)]
	doCliCut(c, lflag, outmode, text, c.G.Chance(0.04))
}

func doCliCut(c *core.Ctx, lflag, outmode, text string, nofile bool) {
	args := []string{"brlen", "cut"}
	if lflag != "omit" {
		v := strings.TrimPrefix(lflag, "v:")
		if c.G.Chance(0.5) && !strings.HasPrefix(v, "-") {
			args = append(args, "-l", v)
		} else {
			args = append(args, "--max-length="+v)
		}
	}
	exit, written, inpath := runWithIO(c, outmode, text, nofile, args)
	dumps := "NOFILE" + core.Escape(inpath)
	if !nofile {
		dumps = delivered(text)
	}
	c.Emit("C14.clicut", core.Escape(lflag), outmode, dumps, strconv.Itoa(exit), core.Escape(written))
}
