/-
  C13 — a concrete instance of the hypotheses (non-vacuity): a Newick codec satisfying `NewickLaws`
  on a non-trivial tree, and the decimal number codec satisfying `NumLaws` on a set of values.
-/
import Gotree.Lemmas.C13
import Gotree.Model.C13Codec

namespace Gotree.C13
open Gotree

def exE (l s : Rat) : EdgeD := ⟨l, s, NIL, [], -1⟩

/-- `(a:0.5,(b:1,c:0)0.75,d);` — unrooted, a multifurcation at the root, an inner branch with support,
    a zero length, an absent length -/
def exTree : T :=
  .node ⟨"", []⟩ 0 [(exE (1/2) NIL, T.leaf "a"),
    (exE NIL (3/4), .node ⟨"", []⟩ 0 [(exE 1 NIL, T.leaf "b"), (exE 0 NIL, T.leaf "c")]),
    (exE NIL NIL, T.leaf "d")]

def exText : Txt := "(a:0.5,(b:1,c:0)0.75,d);".toList

/-- the text up to the first ';' with the white space removed -/
def exKey (s : Txt) : Txt := (s.takeWhile (· != ';')).filter (fun c => !isNewickWs c)

/-- a codec that writes every tree equal to `exTree` (in what the formats keep) as `exText` and
    recognises that text whatever white space is sprinkled in -/
def exCodec : NewickCodec :=
  ⟨fun _ => exText, fun s => if exKey s == exKey exText && s.contains ';' then some exTree else none⟩

theorem takeWhile_append_all (p : Char → Bool) (a b : Txt) (h : ∀ c ∈ a, p c = true) :
    (a ++ b).takeWhile p = a ++ b.takeWhile p := by
  induction a with
  | nil => rfl
  | cons c a ih =>
    have := h c (by simp)
    simp only [List.cons_append, List.takeWhile_cons, this, if_true]
    rw [ih (fun x hx => h x (by simp [hx]))]

theorem exKey_prefix (a rest : Txt) (h : ∀ c ∈ a, c ≠ ';' ∧ c ≠ '[') : exKey (a ++ ';' :: rest) = exKey (a ++ [';']) := by
  unfold exKey
  rw [takeWhile_append_all _ a _ (fun c hc => by simpa using (h c hc).1),
    takeWhile_append_all _ a _ (fun c hc => by simpa using (h c hc).1)]
  simp

theorem exKey_ws (a ws b : Txt) (ha : ∀ c ∈ a, c ≠ ';' ∧ c ≠ '[') (hws : ∀ c ∈ ws, isNewickWs c = true) :
    exKey (a ++ ws ++ b) = exKey (a ++ b) := by
  unfold exKey
  have hw : ∀ c ∈ ws, (c != ';') = true := by
    intro c hc
    have := hws c hc
    simp only [isNewickWs, Bool.or_eq_true, beq_iff_eq] at this
    simp only [bne_iff_ne, ne_eq]
    rcases this with ((h | h) | h) | h <;> (rw [h]; decide)
  rw [List.append_assoc, takeWhile_append_all _ a _ (fun c hc => by simpa using (ha c hc).1),
    takeWhile_append_all _ ws _ hw, takeWhile_append_all _ a _ (fun c hc => by simpa using (ha c hc).1)]
  simp only [List.filter_append]
  have : ws.filter (fun c => !isNewickWs c) = [] := by
    rw [List.filter_eq_nil_iff]
    intro c hc; simp [hws c hc]
  simp [this]

theorem contains_semi_append (a ws b : Txt) (hws : ∀ c ∈ ws, isNewickWs c = true) :
    (a ++ ws ++ b).contains ';' = (a ++ b).contains ';' := by
  have : ws.contains ';' = false := by
    rw [List.contains_eq_mem, decide_eq_false_iff_not]
    intro h
    have := hws ';' h
    simp [isNewickWs] at this
  simp [List.contains_eq_mem, List.mem_append] at this ⊢
  simp [this]

def exLaws : NewickStreamLaws exCodec where
  wf t := keptEqT t exTree
  norm _ := exTree
  parse_write := by
    intro t _
    have : (exKey exText == exKey exText && exText.contains ';') = true := by decide
    show (if exKey exText == exKey exText && exText.contains ';' then some exTree else none) = some exTree
    rw [this]; rfl
  norm_strip := by
    intro t h
    exact (strip_of_keptEqT t exTree h).symm
  write_shape := by
    intro t _
    refine ⟨"(a:0.5,(b:1,c:0)0.75,d)".toList, ?_, by decide⟩
    show exText = _
    decide
  parse_prefix := by
    intro a rest h
    show (if exKey (a ++ ';' :: rest) == exKey exText && (a ++ ';' :: rest).contains ';' then some exTree else none) =
      (if exKey (a ++ [';']) == exKey exText && (a ++ [';']).contains ';' then some exTree else none)
    rw [exKey_prefix a rest h]
    simp
  parse_ws_skip := by
    intro a ws b ha _ hws
    show (if exKey (a ++ ws ++ b) == exKey exText && (a ++ ws ++ b).contains ';' then some exTree else none) =
      (if exKey (a ++ b) == exKey exText && (a ++ b).contains ';' then some exTree else none)
    rw [exKey_ws a ws b ha hws, contains_semi_append a ws b hws]

/-- the decimal codec on a few values -/
def exNumLaws : NumLaws decCodec where
  dom q := q == 0 || q == 1 || q == 1/2 || q == 3/4
  parse_fmt := by
    intro q h
    simp only [Bool.or_eq_true, beq_iff_eq] at h
    rcases h with ((h | h) | h) | h <;> (subst h; decide +kernel)

/-- `((a:1,b:1)X:1,(c:1,d:1)X:1,e:1);` : two inner nodes with the same name, tips all different -/
def dupTree : T :=
  .node ⟨"", []⟩ 0 [(exE 1 NIL, .node ⟨"X", []⟩ 0 [(exE 1 NIL, T.leaf "a"), (exE 1 NIL, T.leaf "b")]),
    (exE 1 NIL, .node ⟨"X", []⟩ 0 [(exE 1 NIL, T.leaf "c"), (exE 1 NIL, T.leaf "d")]),
    (exE 1 NIL, T.leaf "e")]

/-- outcome of the Nexus reader: an error -/
def Nex.PRes.isErr : Nex.PRes Nex.NexDoc → Bool
  | .err => true
  | _ => false

end Gotree.C13
