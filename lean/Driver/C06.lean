import Driver.Proto
import Gotree.Spec.C06
import Gotree.Model.C06Index
import Gotree.Model.C06Stale

namespace Gotree.Driver.C06
open Gotree Gotree.Driver Gotree.C06

def errName : Err → String
  | .notATip => "notATip" | .rootTip => "rootTip" | .noNewRoot => "noNewRoot" | .dupIndex => "dupIndex"

mutual
def maxDeg : T → Nat
  | .node _ _ k => max k.length (maxDegL k)
def maxDegL : Kids → Nat
  | [] => 0
  | (_, t) :: r => max (maxDeg t) (maxDegL r)
end

/- a node all of whose kids are leaves to be removed (≥ 2 of them): a whole clade / a cherry goes -/
mutual
def cladeGone (rm : List String) : T → Bool
  | .node _ _ k => (k.length ≥ 2 && k.all (fun et => et.2.isLeaf && rm.contains et.2.name)) || cladeGoneL rm k
def cladeGoneL (rm : List String) : Kids → Bool
  | [] => false
  | (_, t) :: r => cladeGone rm t || cladeGoneL rm r
end

/- a tip to remove hanging below a single-child node that itself hangs below a single-child node -/
mutual
def chainGone (rm : List String) : T → Bool
  | .node _ _ k => chainGoneL rm k
def chainGoneL (rm : List String) : Kids → Bool
  | [] => false
  | (_, t) :: r =>
    (match t with
     | .node _ _ [(_, .node _ _ [(_, .node d _ [])])] => rm.contains d.name
     | _ => false) || chainGone rm t || chainGoneL rm r
end

/- what survives a trip through the Newick writer and reader: shape, child order, names, comments,
   lengths, supports; parent positions and branch ids are reset (fidelity figure of the CLI tier) -/
mutual
def normIO : T → T
  | .node d _ k => .node d 0 (normIOL k)
def normIOL : Kids → Kids
  | [] => []
  | (e, t) :: r => ({ e with id := 0, pval := NIL }, normIO t) :: normIOL r
end

/-- the observation `obs_C06` of a tree (DESIGN §4.2) -/
structure Obs where
  tips : List String
  us : List USplit
  tl : List (List String × Rat)
  dm : List (List Rat)
  single : Bool
  rootDeg2 : Bool
  tipSup : List Rat
  /-- the rooted view (clades, depths relative to the first tip), filled in for rooted inputs only -/
  cl : List (List String)
  rd : List Rat
  deriving BEq

def obs (rootedInput : Bool) (t : T) : Obs :=
  let tips := sortS t.tipNames
  ⟨tips, t.usplits, t.tipLens, t.distMatrix.2, t.noSingle, t.kids.length == 2,
    (t.tipEdges.map (·.sup)).mergeSort (fun a b => decide (a ≤ b)),
    if rootedInput then canonSet (clades t) else [],
    if rootedInput then (match tips with
      | [] => []
      | a0 :: _ => tips.map fun a => t.rootDist a - t.rootDist a0) else []⟩

def diffObs (a b : Obs) : String :=
  (if a.tips != b.tips then "tips " else "") ++ (if a.us != b.us then "splits/data " else "") ++
  (if a.tl != b.tl then "tip-lengths " else "") ++ (if a.dm != b.dm then "distances " else "") ++
  (if a.single != b.single then "single-nodes " else "") ++ (if a.rootDeg2 != b.rootDeg2 then "root-degree-2 " else "") ++
  (if a.tipSup != b.tipSup then "tip-branch-supports " else "") ++
  (if a.cl != b.cl then "clades(rooted) " else "") ++ (if a.rd != b.rd then "depths(rooted) " else "")

/-- evaluation of one `RemoveTips` result: shared by the library and the CLI cases.
    `ixo` = the index answers (absent for the CLI). -/
def judge (extraTags : List String) (rev : Bool) (names : List String) (before : T) (outcome : String)
    (afterDump : String) (ixo : Option (List String × List Int × Int × Bool)) : Verdict :=
  let uniq := C06.uniq before
  let nos := before.noSingle
  let rootTip := before.kids.length == 1
  let lok := lensOK before
  let k := kept before names rev
  let rm := toRemove before names rev
  let big := k.length ≥ 3
  -- hypotheses of the theorems (Proofs: removeTips_*_roottip): unique tips, no single-child inner node,
  -- ≥ 3 tips kept; the root may be a tip, kept or removed (0cfc52b)
  let rootTipRemoved := rootTip && rm.contains before.name
  let hyp := uniq && nos && big
  let rootKidRemoved := before.kids.any fun et => et.2.isLeaf && rm.contains et.2.name
  let tags0 := extraTags ++ tagIf uniq "uniq" ++ tagIf nos "nosingle" ++ tagIf (!nos) "singles" ++ tagIf (!nos) "outside-quantifier:single-child-input(tie-only,exact)" ++ tagIf rootTip "roottip" ++ tagIf rootTipRemoved "roottip-removed" ++ tagIf (rootTip && !rootTipRemoved) "roottip-kept" ++
    tagIf lok "lens-ok" ++ tagIf (goodNames before) "good-names" ++ tagIf big "kept>=3" ++ tagIf (!big) "small" ++ tagIf hyp "hyp" ++
    tagIf before.rooted "rooted" ++ tagIf (rootedBin before) "rooted-bin" ++ tagIf (!before.rooted) "unrooted" ++ tagIf (maxDeg before ≥ 4 || (before.rooted && maxDeg before ≥ 3)) "multif" ++
    tagIf rev "revert" ++ tagIf (names.any fun n => !before.tipNames.contains n) "absent-names" ++
    tagIf rm.isEmpty "nothing-removed" ++ tagIf (chainGone rm before) "chain" ++ tagIf rootKidRemoved "root-child" ++ tagIf (rootKidRemoved && before.rooted) "rooted-loses-root-child" ++ tagIf (cladeGone rm before) "clade-or-cherry" ++
    tagIf (before.edges.any (·.len == NIL)) "len-absent" ++ tagIf (before.edges.any (·.len == 0)) "len-zero" ++
    tagIf (before.edges.any (·.sup != NIL)) "supports"
  let model := removeTips rev names before
  match outcome with
  | "ok" =>
    match T.undump afterDump with
    | none => bad "C06: after dump"
    | some after =>
      let suppressed := before.size - after.size > rm.length
      let inj := sidesInj (after.usplitsAll.map (·.side))
      let tags := tags0 ++ tagIf (hyp && suppressed && !rm.isEmpty) "nontrivial" ++ tagIf suppressed "suppression" ++
        tagIf inj "sides-inj" ++ tagIf (!inj) "sides-look-alike" ++
        tagIf (after.name != before.name || after.kids.length != before.kids.length) "root-changed" ++
        tagIf (!nos && !rootTip && after.kids.length == 1) "single-root-left"
      -- oracle
      let fail : Option String :=
        if !uniq || !big then none
        else if nos && !(tipsOK before names rev after) then some "tip set is not the requested one"
        -- input with single-child nodes (outside the hypotheses): a single-child node of the input that
        -- ends as the root counts as a tip for Go (tag single-root-left, see Proofs: removeTips_single_root_witness);
        -- the leaves below the root must still be exactly the requested ones
        else if !nos && sortS (leavesL after.kids) != sortS (k.filter (leavesL before.kids).contains) then
          some "the leaves below the root are not the requested tips (input with single-child nodes)"
        else if !hyp then none
        -- literal comparison of the sorted lists when the rendering tells the sides apart (proved:
        -- removeTips_oracle_literal), as sets / up to order otherwise (removeTips_oracle_roottip, _data_roottip)
        else if inj && !(splitsOK before names rev after) then some "splits are not the non-trivial restrictions"
        else if !inj && !(splitsOKm before names rev after) then some "splits are not the non-trivial restrictions (as sets)"
        else if lok && !(distOK before names rev after) then some "a path length between remaining tips changed"
        else if !(noSingleAfterR before names rev after) then some "a single-child / degree-2 node or a wrong root is left behind"
        else if lok && inj && !(dataOK before names rev after) then some "merged branch data (length sum / support max) wrong"
        else if lok && !inj && !(dataOKm before names rev after) then some "merged branch data (length sum / support max) wrong (up to order)"
        else if !(tipSupOK before after) then some "a tip branch received a support"
        else if !(rootedOK before names rev after) then
          some "rooted input: the result is not the rooted induced subtree (clades / root position / depths)"
        else none
      let failIx : Option String :=
        match ixo with
        | none => none
        | some (ex, ti, nb, nodeok) =>
          if !uniq || after.tipNames.isEmpty then none
          else if !(indexOK after ex ti nb) then some "index look-ups do not reflect the new tip set"
          else if !nodeok then some "TipNode returns a node that is not the tip of that name"
          else none
      match fail, failIx with
      | some m, _ => ⟨.oracle, tags, m⟩
      | none, some m => ⟨.oracle, tags, m⟩
      | none, none =>
        if !uniq then ⟨.pass, "skip-dupnames" :: tags, ""⟩ else
        match model with
        | .error e =>
          -- outside the hypotheses the outcome class is no part of obs_C06 (it depends on the order of removals)
          if !big then ⟨.pass, "outcome-differs-degenerate" :: tags, ""⟩
          else ⟨.tie, tags, "model fails with " ++ errName e ++ ", implementation succeeds"⟩
        | .ok (mt, mix) =>
          let exact := mt.dump == after.dump
          let exactIO := (normIO mt).dump == (normIO after).dump
          let tags := tags ++ tagIf exact "exact" ++ tagIf (!exact) "inexact" ++
            tagIf (!exact && exactIO) "exact-up-to-io" ++ tagIf (!exact && !exactIO) "order-or-data-differs"
          if !big && obs before.rooted mt != obs before.rooted after then ⟨.pass, "obs-differs-degenerate" :: tags, ""⟩
          else if obs before.rooted mt != obs before.rooted after then ⟨.tie, tags, "model differs on: " ++ diffObs (obs before.rooted mt) (obs before.rooted after) ++ " model " ++ mt.dump⟩
          -- inputs with single-child nodes are outside the quantifier: no induced-subtree oracle, but the
          -- model must reproduce the code EXACTLY there (whole α dump: shape, order, names, branch data)
          else if !nos && !exact then ⟨.tie, tags, "single-child input: the model's α dump differs: " ++ mt.dump⟩
          else match ixo with
            | some (ex, _, _, _) =>
              if !after.tipNames.isEmpty && mix != ex then ⟨.tie, tags, "model index " ++ showStrList mix⟩ else ⟨.pass, tags, ""⟩
            | none => ⟨.pass, tags, ""⟩
  | "err" =>
    let tags := "impl-err" :: tags0
    if hyp then ⟨.oracle, tags, "pruning failed although the hypotheses hold (≥3 tips kept, no single node)"⟩
    else if !uniq then ⟨.pass, "skip-dupnames" :: tags, ""⟩
    else match model with
      | .error _ => ⟨.pass, tags, ""⟩
      | .ok _ =>
        -- with ≥ 3 tips kept the outcome class is tied even outside the hypotheses (single-child inputs);
        -- with fewer it depends on the order of removals and is no part of obs_C06
        if big then ⟨.tie, tags, "model succeeds, implementation fails"⟩
        else ⟨.pass, "outcome-differs-degenerate" :: tags, ""⟩
  | o =>
    let tags := (if o.startsWith "panic" then "impl-panic" else "impl-other-outcome") :: tags0
    -- a crash, a malformed heap or an unreadable output is never acceptable when ≥ 3 tips are kept
    if big then ⟨.oracle, tags, "pruning ended with " ++ o⟩
    else ⟨.pass, "skip-degenerate" :: tags, o⟩

def parseBool : String → Option Bool
  | "0" => some false | "1" => some true | _ => none

/-- a library-level `RemoveTips` case (ops `remove` and `stale`): the induced-subtree oracle and the tie
    of `judge`, then the raw index answers, bitsets and `CommonEdges` -/
def handleRemove (extra : List String) (revs namess dump outcome adump exs tis nbs tnns tnds tnps rowss ces : String) : Verdict :=
  match parseBool revs, parseStrList namess, T.undump dump, parseStrList exs, parseIntList tis, nbs.toInt?,
    parseStrList tnns, parseIntList tnds, parseIntList tnps, parseIntList ces with
  | some rev, some names, some before, some ex, some ti, some nb, some tnn, some tnd, some tnp, some ce =>
    let rows : List (Option (List Bool)) := (splitTerm ";" rowss).map fun r =>
      if r == "nil" then none else some (r.toList.map (· == '1'))
    let after? := T.undump adump
    -- TipNode, judged on its raw answers (Spec.tipNodesOK)
    let nodeok := match after? with
      | some after => tipNodesOK after ex tnn tnd tnp
      | none => true
    let v := judge (extra ++ ["lib"]) rev names before outcome adump (some (ex, ti, nb, nodeok))
    -- the branch indexes (bitsets) are refreshed against the NEW tip index: every branch carries the split
    -- it induces on the remaining tips (Spec.bitsetsOK on the raw bitsets), and the pruned tree shares its
    -- branches with an independently built copy (Spec.commonEdgesOK on the raw CommonEdges answers)
    match after? with
    | some after =>
      if v.status == .pass && C06.uniq before && (kept before names rev).length ≥ 3 then
        if !(bitsetsOK after ex ti rows) then
          ⟨.oracle, "bitsets-wrong" :: v.tags, "the branch bitsets do not carry the restricted splits (width " ++
            toString ((rows.head?.getD none).map (·.length)) ++ " for " ++ toString after.tipNames.length ++ " tips)"⟩
        else if !(commonEdgesOK ce) then
          ⟨.oracle, "bitsets-wrong" :: v.tags, "CommonEdges with an independently built copy of the result: " ++ ces⟩
        -- tie of the model of the refresh (Model/C06Index: bitsets = UpdateBitSet against the tip index, tipNodeOf =
        -- TipNode): run on the implementation's own tree and index, it must give the implementation's rows / nodes
        else if bitsets ex after != rows.mapM id then
          ⟨.tie, "bitsets-ok" :: v.tags, "model of UpdateBitSet differs from the bitsets of the implementation: " ++
            toString ((bitsets ex after).map fun l => l.map fun r => String.ofList (r.map fun b => if b then '1' else '0'))⟩
        else if ex.map (tipNodeOf ex after) != (List.zip tnn (List.zip tnd tnp)).map
            (fun x => if x.2.1 ≥ 0 && x.2.2 ≥ 0 then some (x.1, x.2.1.toNat, x.2.2.toNat) else none) then
          ⟨.tie, "bitsets-ok" :: v.tags, "model of TipNode differs from the answers of the implementation"⟩
        else { v with tags := "index-model-tied" :: "bitsets-ok" :: v.tags }
      else { v with tags := "bitsets-unchecked" :: v.tags }
    | none => v
  | _, _, _, _, _, _, _, _, _, _ => bad "C06.remove/stale fields"

/-- `kind:a:b;…` with percent-escaped names -/
def parseEdits (s : String) : Option (List Edit) :=
  (splitTerm ";" s).mapM fun e =>
    match e.splitOn ":" with
    | [k, a, b] =>
      match unescape a, unescape b with
      | some a, some b =>
        if k == "rename" then some (.rename a b) else if k == "swap" then some (.swap a b)
        else if k == "graft" then some (.graft a b) else if k == "prune" then some (.prune a) else none
      | _, _ => none
    | _ => none

def handle (op : String) (f : List String) : Verdict :=
  match op, f with
  | "remove", [revs, namess, pre, dump, outcome, adump, exs, tis, nbs, tnns, tnds, tnps, rowss, ces] =>
    handleRemove (tagIf (pre == "1") "preindex") revs namess dump outcome adump exs tis nbs tnns tnds tnps rowss ces
  -- a history on one in-memory tree: index built, tree edited behind the index's back (`edits`, applied by the
  -- harness on the real tree `n0`), then RemoveTips on the tree whose α dump is `dump`; judged exactly like
  -- `remove` (RemoveTips works from the tree, never from the cached name → tip map)
  | "stale", [revs, namess, edits, n0, dump, outcome, adump, exs, tis, nbs, tnns, tnds, tnps, rowss, ces] =>
    let kinds := ((splitTerm ";" edits).map fun e => "edit-" ++ ((e.splitOn ":").headD "")).eraseDups
    let v := handleRemove (["stale-index", "preindex"] ++ kinds) revs namess dump outcome adump exs tis nbs tnns tnds tnps rowss ces
    -- tie of the model of the edits (Model/C06Stale): applied to the tree before the history it must give the
    -- tree `RemoveTips` was called on (same observation; the whole α dump as fidelity, tag edits-exact)
    if v.status != .pass then v else
    match parseEdits edits, T.undump n0, T.undump dump with
    | some es, some t0, some before =>
      if !(C06.uniq t0) then { v with tags := "edits-untied" :: v.tags } else
      match applyEdits es t0 with
      | none => ⟨.tie, v.tags, "model of the edits: an edit the harness applied does not apply in the model"⟩
      | some mt =>
        if obs before.rooted mt != obs before.rooted before then
          ⟨.tie, v.tags, "model of the edits differs on: " ++ diffObs (obs before.rooted mt) (obs before.rooted before) ++ " model " ++ mt.dump⟩
        else { v with tags := "edits-tied" :: (tagIf (mt.dump == before.dump) "edits-exact" ++ v.tags) }
    | _, _, _ => bad "C06.stale edits / dumps"
  | "cli", [revs, hasF, fnamess, hasC, cdump, randoms, _seed, argss, dump, outcome, adump, hook] =>
    match parseBool revs, parseBool hasF, parseStrList fnamess, parseBool hasC, randoms.toInt?, parseStrList argss, T.undump dump with
    | some rev, some hf, some fnames, some hc, some random, some args, some before =>
      let comp : Option (Option T) := if hc then (T.undump cdump).map some else some none
      match comp with
      | none => bad "C06.cli comp dump"
      | some comp =>
        let flags : PruneFlags := ⟨if hf then some fnames else none, comp, random, args, rev⟩
        let src := flags.source
        let conflict := (hf && (hc || random > 0 || !args.isEmpty)) || (hc && (random > 0 || !args.isEmpty)) ||
          (random > 0 && !args.isEmpty)
        let tags := ["cli", "src-" ++ (match src with | .file => "file" | .comp => "comp" | .random => "random" | .args => "args")] ++
          tagIf conflict "conflicting-options"
        -- the hook: specificTips as computed by the command
        let hookBad : Option String :=
          match comp with
          | some c =>
            if hook.startsWith "h" then
              match parseStrList (dropFirst hook) with
              | some hs => if hs == specificTips before c then none else some ("specificTips: hook " ++ showStrList hs ++ " model " ++ showStrList (specificTips before c))
              | none => some "unparsable hook"
            else none
          | none => none
        match src with
        | .random =>
          -- the sampled names are not known: whatever was removed must be `min random N` tips
          -- (kept with -r), and the result must be the induced subtree on the others
          match outcome, T.undump adump with
          | "ok", some after =>
            let n := before.tipNames.length
            let k := min random.toNat n
            let removed := before.tipNames.filter fun x => !after.tipNames.contains x
            let expectRemoved := if rev then n - k else k
            if C06.uniq before && n - expectRemoved ≥ 3 && removed.length != expectRemoved then
              ⟨.oracle, tags, "--random " ++ toString random ++ " removed " ++ toString removed.length ++ " tips of " ++ toString n⟩
            else judge tags false removed before outcome adump none
          | _, _ =>
            let n := before.tipNames.length
            let k := min random.toNat n
            let left := if rev then k else n - k
            if outcome != "ok" && wfR before && left ≥ 3 then ⟨.oracle, "impl-err" :: tags, "prune --random failed: " ++ outcome⟩
            else ⟨.pass, "skip-degenerate" :: tags, outcome⟩
        | _ =>
          let names := flags.names before []
          let v := judge tags rev names before outcome adump none
          match hookBad, v.status with
          | some m, .pass => ⟨.tie, v.tags, m⟩
          | _, _ => v
    | _, _, _, _, _, _, _ => bad "C06.cli fields"
  | "run", [revs, hasF, fnamess, hasC, cdump, randoms, _seed, argss, dumps, exits, nouts, mode] =>
    match parseBool revs, parseBool hasF, parseStrList fnamess, parseBool hasC, randoms.toInt?, parseStrList argss,
      (splitTerm "|" dumps).mapM T.undump, nouts.toNat? with
    | some rev, some hf, some fnames, some hc, some random, some args, some refs, some nout =>
      let comp : Option (Option T) := if hc then (T.undump cdump).map some else some none
      match comp with
      | none => bad "C06.run comp dump"
      | some comp =>
        let flags : PruneFlags := ⟨if hf then some fnames else none, comp, random, args, rev⟩
        let failed := exits != "0"
        let tags := ["run", "run-" ++ mode] ++ tagIf (refs.length ≥ 2) "several-trees"
        match flags.source with
        | .random =>
          -- the sampled names are unknown: the number of tips left decides whether the command must succeed
          let good := refs.all fun ref =>
            let n := ref.tipNames.length
            let k := min random.toNat n
            wfR ref && decide ((if rev then k else n - k) ≥ 3)
          if good && (failed || nout != refs.length) then
            ⟨.oracle, tags, "prune --random failed or wrote " ++ toString nout ++ " trees for " ++ toString refs.length⟩
          else ⟨.pass, tagIf good "nontrivial" ++ tags, ""⟩
        | _ =>
          let goodTree := fun (ref : T) => wfR ref && decide (3 ≤ (kept ref (flags.names ref []) rev).length)
          let good := refs.all goodTree
          -- the trees before the first one outside the hypotheses must all be written
          let prefixLen := (refs.takeWhile goodTree).length
          let (outs, err) := pruneAll flags refs []
          if good && (failed || nout != refs.length) then
            ⟨.oracle, "all-good" :: tags, "prune failed or wrote " ++ toString nout ++ " trees for " ++ toString refs.length ++
              " although every input tree satisfies the hypotheses"⟩
          else if nout < prefixLen then
            ⟨.oracle, tags, "prune wrote " ++ toString nout ++ " trees although the first " ++ toString prefixLen ++
              " input trees satisfy the hypotheses"⟩
          else if good && (err.isSome || outs.length != refs.length) then ⟨.tie, tags, "model of the command fails"⟩
          else if outs.length < prefixLen then ⟨.tie, tags, "model of the command stops before the first tree outside the hypotheses"⟩
          else if !good && (outs.length != nout || err.isSome != failed) then
            ⟨.pass, "run-differs-after-first-tree-outside-hyp" :: tags, ""⟩
          else ⟨.pass, tagIf good "all-good" ++ tagIf (good && refs.length ≥ 2) "nontrivial" ++ tags, ""⟩
    | _, _, _, _, _, _, _, _ => bad "C06.run fields"
  | "tipfile", [contents, tipss, outcome, removeds] =>
    match unescape contents, parseStrList tipss, parseStrList removeds with
    | some content, some tips, some removed =>
      let names := tipFileNames content
      let expect := sortStrings (tips.filter names.contains)
      -- oracle: the tips named by the tokens of the file (Spec.fileTokens) are exactly the ones removed
      let spec := sortStrings (tips.filter (fileTokens content).contains)
      let tags := ["tipfile"] ++ tagIf (content.contains '\r') "crlf" ++ tagIf (!content.endsWith "\n") "no-final-newline" ++
        tagIf (names.contains "") "empty-name" ++ tagIf (content.length > 65536) "long-line" ++ tagIf (spec.length ≥ 2) "nontrivial"
      if outcome != "ok" then
        (if tips.length - spec.length ≥ 3 then ⟨.oracle, tags, "prune -f failed: " ++ outcome⟩ else ⟨.pass, "skip-degenerate" :: tags, ""⟩)
      else if sortStrings removed != spec then
        ⟨.oracle, tags, "tip file: the tips named in the file are " ++ showStrList spec ++ " the command removed " ++ showStrList removed⟩
      else if expect != spec then ⟨.tie, tags, "tip file: the model reads other names than the tokens of the file"⟩
      else ⟨.pass, tags, ""⟩
    | _, _, _ => bad "C06.tipfile fields"
  | _, _ => bad ("C06: unknown op " ++ op)

end Gotree.Driver.C06
