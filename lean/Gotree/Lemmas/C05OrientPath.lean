/-
  C05 — `Reroot` inverts exactly the branches between the old and the new root.
-/
import Gotree.Lemmas.C05Orient
import Gotree.Lemmas.C05Mid

namespace Gotree.C05
open Gotree

theorem wrongL_append : ∀ (a b : OKids), wrongL (a ++ b) = wrongL a ++ wrongL b
  | [], b => by simp [wrongL]
  | (oe, t) :: r, b => by simp [wrongL, wrongL_append r b]

theorem wrongL_cons (oe : OEdge) (t : OT) (r : OKids) :
    wrongL ((oe, t) :: r) = (if oe.fwd then [] else [oe.e]) ++ t.wrong ++ wrongL r := by simp [wrongL]

theorem OT.wrong_node (d : NodeD) (p : Nat) (k : OKids) : (OT.node d p k).wrong = wrongL k := by simp [OT.wrong]

theorem orientL_eq_map : ∀ (k : Kids), orientL k = k.map (fun x => (⟨x.1, true⟩, orient x.2))
  | [] => rfl
  | (e, t) :: r => by simp [orientL, orientL_eq_map r]

/-- the kids of the root of the moment: the raw kids `K` of the node it is, correctly oriented,
    plus (when the root has moved) the branch towards the old root, seen from its far end -/
def OInv (o : OT) (adj : Option Nat) (K : Kids) : Prop :=
  match adj with
  | none => o.kids = orientL K
  | some pos => pos ≤ K.length ∧ ∃ e old, o.kids = insertAt (orientL K) pos (⟨e, false⟩, old)

theorem OInv.get {o : OT} {adj : Option Nat} {K : Kids} (h : OInv o adj K) (i : Nat) (e : EdgeD) (c : T)
    (hk : K[i]? = some (e, c)) : o.kids[adjIdx adj i]? = some (⟨e, true⟩, orient c) := by
  have hm : (orientL K)[i]? = some (⟨e, true⟩, orient c) := by
    rw [orientL_eq_map, List.getElem?_map, hk]; rfl
  cases adj with
  | none => simp only [OInv] at h; simpa [adjIdx, h] using hm
  | some pos =>
    obtain ⟨hp, e0, old, hx⟩ := h
    rw [hx, getElem_insertAt_adj _ pos i _ (by rw [orientL_eq_map, List.length_map]; exact hp)]
    exact hm

/-- wrong branches outside a correctly oriented kid -/
theorem wrongL_eraseIdx_fwd (k : OKids) (i : Nat) (e : EdgeD) (c : T) (hk : k[i]? = some (⟨e, true⟩, orient c)) :
    wrongL (k.eraseIdx i) = wrongL k := by
  obtain ⟨h1, h2⟩ := list_split_at k i _ hk
  rw [h2]
  conv => rhs; rw [h1]
  simp [wrongL_append, wrongL_cons, wrong_orient]

/-- **The branches that point the wrong way after `t.root = n` are the branches between the old
    and the new root**, from the new root outwards. -/
theorem setRootO_wrong : ∀ (path : List Nat) (o : OT) (adj : Option Nat) (K : Kids),
    OInv o adj K → ValidK K path →
    (setRootO o path adj).wrong = (edgesAlongK K path).reverse ++ o.wrong
  | [], o, adj, K, _, _ => by simp [setRootO, edgesAlongK]
  | i :: rest, o, adj, K, hinv, hv => by
    simp only [ValidK, edgesAlongK] at hv
    cases hk : K[i]? with
    | none => simp [hk] at hv
    | some ec =>
      obtain ⟨e, c⟩ := ec
      simp only [hk, List.length_cons] at hv
      have hget := hinv.get i e c hk
      simp only [setRootO, hget]
      obtain ⟨d, p, kids⟩ := o
      obtain ⟨dc, pc, kc⟩ := c
      simp only [OT.kids] at hget
      have hmove : moveRootO (.node d p kids) (adjIdx adj i) =
          .node dc 0 (insertAt (orientL kc) pc (⟨e, false⟩, .node d (adjIdx adj i) (kids.eraseIdx (adjIdx adj i)))) := by
        simp [moveRootO, hget, orient]
      have hlen : (orientL kc).length = kc.length := by rw [orientL_eq_map, List.length_map]
      have hinv' : OInv (moveRootO (.node d p kids) (adjIdx adj i))
          (some (min (orient (.node dc pc kc)).ppos (orient (.node dc pc kc)).kids.length)) kc := by
        simp only [orient, OT.ppos, OT.kids, hlen]
        refine ⟨Nat.min_le_right _ _, e, .node d (adjIdx adj i) (kids.eraseIdx (adjIdx adj i)), ?_⟩
        rw [hmove, OT.kids, insertAt_min, hlen]
      have hv' : ValidK kc rest := by simp only [ValidK, T.kids_node] at hv ⊢; omega
      rw [setRootO_wrong rest _ _ kc hinv' hv', hmove]
      simp only [edgesAlongK, hk, T.kids_node, List.reverse_cons, List.append_assoc, List.singleton_append]
      congr 1
      simp only [OT.wrong_node, insertAt, wrongL_append, wrongL_cons, Bool.false_eq_true, if_false]
      have h0 : ∀ l : Kids, wrongL (orientL l) = [] := wrongL_orientL
      have ht : wrongL (List.take pc (orientL kc)) = [] := by
        rw [orientL_eq_map, ← List.map_take, ← orientL_eq_map]; exact h0 _
      have hd : wrongL (List.drop pc (orientL kc)) = [] := by
        rw [orientL_eq_map, ← List.map_drop, ← orientL_eq_map]; exact h0 _
      rw [ht, hd, wrongL_eraseIdx_fwd kids _ e (.node dc pc kc) hget]
      simp

/-- `Reroot(n)` on a correctly oriented heap inverts exactly the branches on the path from the old
    root to `n`, and reports them from `n` outwards -/
theorem rerootO_reversed_path (t : T) (path : List Nat) (hv : ValidK t.kids path) :
    (rerootO t path).2 = (edgesAlong t path).reverse := by
  rw [rerootO_reversed, edgesAlong_eq]
  have hinv : OInv (orient t) none t.kids := by
    obtain ⟨d, p, k⟩ := t; simp [OInv, orient, OT.kids]
  rw [setRootO_wrong path (orient t) none t.kids hinv hv, wrong_orient]
  simp


end Gotree.C05
