/-
  Driver handler of C13 (format conversions and reader entry points).

  Case lines (fields tab-separated; texts percent-escaped):
    C13.chain  fmt via dumps wres text xml mrecs first
        fmt   ∈ nexus | nexustr | nexus1 | phyloxml | newick     (writer used)
        via   ∈ lib | cli
        dumps   the input trees, each followed by "|"
        wres    ok | err | panic:…          (writer outcome)
        text    the document the implementation wrote
        xml     (phyloxml) its element tree as read by encoding/xml's tokenizer; "BAD" if not XML
        mrecs   records of ReadMultiTrees on that text:  id:ok:dump| … id:err:|
        first   result of ReadTreeReader on that text:   ok:dump | err: | skip
    C13.multi  layout items text mrecs first
        items   the file's content in order: T<dump>| for a well-formed tree, B| for a broken one
    C13.doc    fmt text xml mrecs first          (a hand-made / mutated document; no expected trees)
    C13.ns     dump nsdoc text mrecs first       (Nextstrain JSON made from the tree)
-/
import Driver.Proto
import Gotree.Spec.C13
import Gotree.Spec.C01
import Gotree.Model.C13Codec
import Gotree.Model.C13Std
import Gotree.Model.C13PxForms
import Gotree.Model.C13NsSpec
import Gotree.Model.C13Tips
import Gotree.Model.C13Flags

namespace Gotree.Driver.C13
open Gotree Gotree.Driver Gotree.C13

def env : Env := ⟨c01Go, goNum⟩

def parseOut (kind dump : String) : Option Out :=
  match kind with
  | "ok" => (T.undump dump).map Out.ok
  | "err" => some .err
  | _ => none

/-- `id:ok:dump|id:err:|` -/
def parseRecs (s : String) : Option (List Rec) :=
  (splitTerm "|" s).mapM fun item =>
    match item.splitOn ":" with
    | [i, k, d] => (match i.toNat?, parseOut k d with
                    | some n, some o => some ⟨n, o⟩
                    | _, _ => none)
    | _ => none

/-- `ok:dump` | `err:` ; `skip` and `panic:…` are handled by the caller -/
def parseFirst (s : String) : Option Out :=
  match s.splitOn ":" with
  | [k, d] => parseOut k d
  | _ => none

def showOut : Out → String
  | .ok t => "ok:" ++ t.dump
  | .err => "err:"

def showRecs (l : List Rec) : String := joinTerm "|" (l.map fun r => toString r.id ++ ":" ++ showOut r.out)

def recsKeptEq : List Rec → List Rec → Bool
  | [], [] => true
  | a :: r, b :: s => a.id == b.id && a.out.keptEq b.out && recsKeptEq r s
  | _, _ => false

def recsExactEq : List Rec → List Rec → Bool
  | [], [] => true
  | a :: r, b :: s => a.id == b.id && a.out.beq b.out && recsExactEq r s
  | _, _ => false

/- element tree tokens: `<tag` `@key=val` `"text` `>` -/
mutual
def parseXml : Nat → List String → Option (Px.Xml × List String)
  | 0, _ => none
  | fuel + 1, tok :: r =>
    if tok.front == '"' then (unescape (dropFirst tok)).map fun s => (.text s, r)
    else if tok.front == '<' then
      match unescape (dropFirst tok) with
      | none => none
      | some tag =>
        match parseXmlKids fuel r [] [] with
        | some ((attrs, kids), r') => some (.elem tag attrs kids, r')
        | none => none
    else none
  | _ + 1, [] => none
def parseXmlKids : Nat → List String → List (String × String) → List Px.Xml → Option ((List (String × String) × List Px.Xml) × List String)
  | 0, _, _, _ => none
  | _ + 1, [], _, _ => none
  | fuel + 1, tok :: r, attrs, kids =>
    if tok == ">" then some ((attrs.reverse, kids.reverse), r)
    else if tok.front == '@' then
      match (dropFirst tok).splitOn "=" with
      | [k, v] => (match unescape k, unescape v with
                   | some k', some v' => parseXmlKids fuel r ((k', v') :: attrs) kids
                   | _, _ => none)
      | _ => none
    else
      match parseXml fuel (tok :: r) with
      | some (x, r') => parseXmlKids fuel r' attrs (x :: kids)
      | none => none
end

/- Nextstrain document tokens: `(` `n<name>` `<div>` kids… `)` -/
mutual
def parseNsNode : Nat → List String → Option (Ns.Node × List String)
  | 0, _ => none
  | fuel + 1, "(" :: nm :: dv :: r =>
    if nm.front != 'n' then none else
    match unescape (dropFirst nm), parseRat? dv with
    | some name, some div =>
      (match parseNsKids fuel r [] with
       | some (ks, r') => some (.mk name div ks, r')
       | none => none)
    | _, _ => none
  | _ + 1, _ => none
def parseNsKids : Nat → List String → List Ns.Node → Option (List Ns.Node × List String)
  | 0, _, _ => none
  | _ + 1, ")" :: r, acc => some (acc.reverse, r)
  | fuel + 1, toks, acc =>
    match parseNsNode fuel toks with
    | some (n, r) => parseNsKids fuel r (n :: acc)
    | none => none
end

/-- `BAD` = the JSON did not decode or its version is not "v2" -/
def parseNs (s : String) : Option (Option Ns.Node) :=
  if s == "BAD" then some none else
  let toks := splitToks s
  match parseNsNode (toks.length + 1) toks with
  | some (n, []) => some (some n)
  | _ => none

def parseXmlDoc (s : String) : Option (Option Px.Xml) :=
  if s == "BAD" || s == "" then some none else
  let toks := splitToks s
  match parseXml (toks.length + 1) toks with
  | some (x, []) => some (some x)
  | _ => none

mutual
def xmlEq : Px.Xml → Px.Xml → Bool
  | .text a, .text b => a == b
  | .elem t a k, .elem t' a' k' => t == t' && a == a' && xmlEqL k k'
  | _, _ => false
def xmlEqL : List Px.Xml → List Px.Xml → Bool
  | [], [] => true
  | x :: r, y :: s => xmlEq x y && xmlEqL r s
  | _, _ => false
end

/-- drop the attributes of the document element (name-space declarations are not modelled) -/
def dropRootAttrs : Px.Xml → Px.Xml
  | .elem t _ k => .elem t [] k
  | x => x

mutual
/-- some node below has exactly one child -/
def anySingle : T → Bool
  | .node _ _ k => anySingleL k
def anySingleL : Kids → Bool
  | [] => false
  | (_, t) :: r => t.kids.length == 1 || anySingle t || anySingleL r
end

mutual
def anyMultif : T → Bool
  | .node _ _ k => k.length > 2 && false || anyMultifL k
def anyMultifL : Kids → Bool
  | [] => false
  | (_, t) :: r => t.kids.length > 2 || anyMultif t || anyMultifL r
end

def treeTags (ts : List T) : List String :=
  let edges := ts.flatMap T.edges
  tagIf (ts.any T.rooted) "rooted" ++ tagIf (ts.any fun t => !t.rooted) "unrooted" ++
  tagIf (ts.any fun t => t.kids.length > 3 || anyMultif t) "multif" ++
  tagIf (edges.any (·.len == 0)) "zerolen" ++ tagIf (edges.any (·.len == NIL)) "nolen" ++
  tagIf (edges.any fun e => e.len != NIL && e.len != 0) "haslen" ++
  tagIf (edges.any (·.sup != NIL)) "hassup" ++
  -- a support / length that needs more than 6 decimals (a writer that rounds to 1e-6 loses it)
  tagIf (edges.any fun e => e.sup != NIL && (e.sup * 1000000).den != 1) "fine-support" ++
  tagIf (edges.any fun e => e.len != NIL && (e.len * 1000000).den != 1) "fine-length" ++ tagIf (ts.any fun t => t.name != "") "rootname" ++
  tagIf (ts.any fun t => t.kids.any fun et => et.2.isLeaf) "tipatroot" ++
  tagIf (ts.any fun t => t.kids.length == 1) "tiproot"

/-- hypothesis of `first_eq_head` for Newick: the first tree is on its own lines and the line breaks
    inside it come right after a delimiter (see Spec) -/
def firstHyp (doc : Txt) : Bool := newickFirstHyp doc

/-- instance of the stream law `parse_prefix` on a text: if no '[' precedes the first ';', the parser's
    answer on the whole text is its answer on the text cut right after that ';' -/
def lawPrefixHolds (C : NewickCodec) (text : Txt) : Bool :=
  let a := text.takeWhile (· != ';')
  if a.length == text.length || a.contains '[' then true
  else (match C.parse text, C.parse (a ++ [';']) with
        | some x, some y => x == y
        | none, none => true
        | _, _ => false)

/-- instance of the stream law `parse_ws_skip`: under the hypothesis of `first_eq_head` the line breaks
    before the first ';' can be removed without changing the parser's answer -/
def lawWsHolds (C : NewickCodec) (text : Txt) : Bool :=
  if !newickFirstHyp text then true else
  let a := text.takeWhile (· != ';')
  let flat := a.filter (fun c => c != '\n' && c != '\r') ++ text.drop a.length
  (match C.parse text, C.parse flat with
   | some x, some y => x == y
   | none, none => true
   | _, _ => false)

def docOf (fmt : String) (text : Txt) (xml : Option Px.Xml) : Option Doc :=
  match fmt with
  | "newick" => some (.newick text)
  | "nexus" | "nexustr" | "nexus1" => some (.nexus text)
  | "phyloxml" => some (.phyloxml xml)
  | _ => none

/-- the model's document for the same trees -/
def modelText (fmt : String) (ts : List T) : Txt :=
  let its := (List.range ts.length).zip ts
  match fmt with
  | "newick" => joinMap (fun x => x.toList) (ts.map fun t => String.ofList (c01Go.write t ++ ['\n']))
  | "nexus" => writeNexus c01Go false its
  | "nexustr" => writeNexus c01Go true its
  | "nexus1" => (match ts with | t :: _ => treeNexus c01Go t | [] => [])
  | _ => Px.render goNum ts

/-- the model declines (`unsupported`) only on constructs it is known not to follow, FOUND HERE in the
    document itself: a Nexus DATA block, a lone CR in a Nexus text, a PhyloXML phylogeny with several root
    clades.  A decline on any other document is a broken correspondence (TIE). -/
def knownUnsupported (doc : Doc) : Bool :=
  match doc with
  | .nexus s =>
    let toks := Nex.scan s
    toks.contains .loneCR || toks.any fun t => match t with | .kw .data _ => true | _ => false
  | .phyloxml (some (.elem _ _ kids)) =>
    kids.any fun k => k.tag? == some "phylogeny" && (Px.childrenTagged "clade" k.kids).length ≥ 2
  | _ => false

/-- compare the model's readers with the implementation's on one document; returns extra tags or a verdict -/
def tieReaders (doc : Doc) (mrecs : List Rec) (first : Option Out) (tags : List String) : Verdict :=
  match readMulti env doc, readFirst env doc with
  | some mm, some mf =>
    if !recsKeptEq mm mrecs then ⟨.tie, tags, "model multi-reader records: " ++ showRecs mm⟩
    else match first with
      | some f => if mf.keptEq f then ⟨.pass, tagIf (recsExactEq mm mrecs) "exact-eq" ++ tags, ""⟩
                  else ⟨.tie, tags, "model first-tree reader: " ++ showOut mf⟩
      | none => ⟨.pass, tagIf (recsExactEq mm mrecs) "exact-eq" ++ tags, ""⟩
  | _, _ =>
    if knownUnsupported doc then ⟨.pass, "model-unsupported" :: tags, ""⟩
    else ⟨.tie, "model-unsupported" :: tags, "the model declines this document although it holds none of the constructs it is known not to follow"⟩

/-- the instance of `Px.encodeAlt` the harness writes (flag `forms-spec`): the style is a function of the
    name (sum of its bytes mod 6), two unknown elements in front of every clade's fields -/
def formsStyle (n : String) : Px.NameStyle :=
  match (n.toUTF8.foldl (fun a b => a + b.toNat) 0) % 6 with
  | 0 => .name | 1 => .sci | 2 => .code | 3 => .sciCode | 4 => .nameTax | _ => .twice

def formsJunk : List Px.Xml := [.elem "color" [] [Px.el "red" "255"], .elem "events" [] [Px.el "name" "x"]]

/- Oracle gates are decided here from the document itself, not from the harness's labels (a mislabelling
   harness must not be able to silence an oracle). -/

/-- a TREE command with a star (`tree * name = …`) -/
def hasStarTree : List Nex.Tok → Bool
  | [] => false
  | .kw .tree _ :: .ident "*" :: _ => true
  | _ :: r => hasStarTree r

mutual
/-- some element carries a `branch_length` ATTRIBUTE (legal PhyloXML that gotree does not read) -/
def hasAttrLength : Px.Xml → Bool
  | .elem _ attrs kids => attrs.any (fun a => a.1 == "branch_length") || hasAttrLengthL kids
  | .text _ => false
def hasAttrLengthL : List Px.Xml → Bool
  | [] => false
  | x :: r => hasAttrLength x || hasAttrLengthL r
end

/-- some `<phylogeny>` has a `rooted` attribute that is not a Go boolean (not a legal document) -/
def rootedInvalid : Px.Xml → Bool
  | .elem _ _ kids => kids.any fun k => match k with
    | .elem _ attrs _ => attrs.any fun a => a.1 == "rooted" && !Px.parseBoolOk a.2
    | .text _ => false
  | .text _ => false

/-- the error message of `tree.Rename` / `NewNodeIndex` on a repeated node name (percent-escaped field) -/
def renameDupMsg (errS : String) : Bool :=
  match unescape errS with
  | some m => (m.splitOn "several node with the same name").length > 1
  | none => false

def handle (op : String) (f : List String) : Verdict :=
  match op, f with
  | "chain", [fmt, via, dumps, wres, text, xml, mrecsS, firstS] =>
    match (splitTerm "|" dumps).mapM T.undump, unescape text, parseXmlDoc xml, parseRecs mrecsS with
    | some ts, some textS, some xdoc, some mrecs =>
      let text := textS.toList
      let first : Option Out := parseFirst firstS
      if firstS != "skip" && first.isNone && !firstS.startsWith "panic" then bad "C13.chain first" else
      let isNexus := fmt == "nexus" || fmt == "nexustr" || fmt == "nexus1"
      let wf := WF13list ts
      -- tree LISTS with differing tip sets are inside the quantifier (Nexus too since fix 6a194b0)
      let hyp := wf
      -- open finding F60: a repeated node name under a translate table
      let f60 := isF60Lists (fmt == "nexustr") ts mrecs
      let lawPW := ts.all fun t => match c01Go.parse (c01Go.write t) with
        | some u => sameKept u t
        | none => false
      let textOK := ts.all fun t => treeTextOK (c01Go.write t)
      let tags := tagIf lawPW "law-parse-write" ++ tagIf (isNexus && textOK) "tree-text-ok" ++
        tagIf (isNexus && nexusStateOK ts) "nexus-state-ok" ++ tagIf (ts.all tipsOK) "tips-ok" ++
        tagIf (fmt == "nexus" && lawPW && textOK && ts.all tipsOK && sameTaxa ts) "hyp-nexus-roundtrip-plain" ++
        tagIf (fmt == "nexustr" && nexusTrStateOK ts &&
          (writtenList (enumFrom 0 ts) {}).all (fun w =>
            (match c01Go.parse (c01Go.write w.2) with | some u => sameKept u w.2 | none => false) &&
            treeTextOK (c01Go.write w.2))) "hyp-nexus-roundtrip-translate" ++
        tagIf (isNexus && ts.all innerNamesDistinct) "inner-names-distinct" ++
        tagIf (fmt == "phyloxml" && ts.all (pxOK fun _ => true)) "hyp-phyloxml-roundtrip" ++
        -- the hypothesis of phyloxml_chain_go: every number in C01's domain of the executable codec
        tagIf (fmt == "phyloxml" && ts.all (pxOK Newick.goDomS)) "hyp-phyloxml-chain-go" ++
        [fmt, via] ++ tagIf wf "wf13" ++ tagIf (sameTaxa ts) "sametaxa" ++ tagIf hyp "hyp" ++
        tagIf (ts.length ≥ 2) "nontrivial" ++ treeTags ts
      -- oracle on the implementation's own output
      if firstS.startsWith "panic" || wres.startsWith "panic" then ⟨.oracle, tags, "panic: " ++ wres ++ " " ++ firstS⟩
      -- the harness dumps the trees before and after the writer call and writes them twice
      else if wres == "mutated-input" then
        ⟨.oracle, tags, "the writer changed the trees it was given (their dump differs after the call, or a second call writes another text)"⟩
      else if hyp && wres != "ok" then ⟨.oracle, tags, "writer failed on well-formed trees"⟩
      else if hyp && !(recsAre (if fmt == "nexus1" then ts.take 1 else ts) mrecs 0) then
        -- on a case of the open finding F60, run the repaired variant of the model (rename tips only,
        -- Model/C13Tips.lean, theorem nexus_roundtrip_translate_tipsOnly): does it deliver the trees?
        let repaired := f60 && (match Nex.parseTips c01Go (writeNexusTips c01Go true ((List.range ts.length).zip ts)) with
          | .ok d => recsAre ts (recsOfTrees (d.map (·.2)) 0) 0
          | _ => false)
        ⟨.oracle, tagIf f60 "f60-region" ++ tagIf repaired "f60-tipsonly-variant-ok" ++ tags,
          (if f60 then "class=NexusTranslateDuplicateNodeNames " else "") ++
          "conversion chain: the trees read back differ from the trees written (shape/names/lengths/supports), or a tree is missing"⟩
      else if isNexus && fmt != "nexus1" && wres == "ok" && ts.all (fun t => t.tipNames.all labelOK) && !(taxaBlockOK ts text) then
        ⟨.oracle, tags, "Nexus taxa block: TAXLABELS / NTAX are not the tips of all the trees"⟩
      else if first.isSome && !(firstIsHead (first.getD .err) mrecs) then
        ⟨.oracle, tags, "first-tree reader differs from the head of the multi-tree reader"⟩
      else if wres != "ok" then ⟨.pass, ("writer-" ++ wres) :: tags, ""⟩
      -- the quantifier of the oracle (WF13 …) must lie inside the hypotheses of the theorem for this format
      -- (no lemma `WF13 → hypotheses` is proved: it is checked on every case instead); F60's region excepted
      else if hyp &&
          ((fmt == "nexus" && sameTaxa ts && !tags.contains "hyp-nexus-roundtrip-plain") ||
           (fmt == "nexustr" && sameTaxa ts && !(ts.any fun t => !innerNamesDistinct t) && !tags.contains "hyp-nexus-roundtrip-translate") ||
           (fmt == "phyloxml" && !tags.contains "hyp-phyloxml-chain-go")) then
        ⟨.tie, tags, "a case inside the oracle's domain is not an instance of the round-trip theorem of its format (hypotheses not satisfied)"⟩
      else
        -- correspondence
        let mtext := modelText fmt ts
        let tags := tagIf (mtext == text) "text-eq" ++ tags
        let xtag := match fmt, xdoc with
          | "phyloxml", some x => tagIf (xmlEq (dropRootAttrs x) (Px.encode goNum ts)) "xml-eq"
          | _, _ => []
        match docOf fmt text xdoc, docOf fmt mtext (some (Px.encode goNum ts)) with
        | some d, some dm =>
          (match tieReaders d mrecs first (xtag ++ tags) with
           | ⟨.pass, tg, _⟩ =>
             -- the model's writer followed by the model's reader
             (match readMulti env dm with
              | some mm => if recsKeptEq mm mrecs then ⟨.pass, tg, ""⟩ else ⟨.tie, tg, "model writer+reader records: " ++ showRecs mm⟩
              | none => if knownUnsupported dm then ⟨.pass, "model-unsupported-w" :: tg, ""⟩
                        else ⟨.tie, "model-unsupported-w" :: tg, "the model declines its own writer's document"⟩)
           | v => v)
        | _, _ => bad "C13.chain fmt"
    | _, _, _, _ => bad "C13.chain fields"
  | "multi", [layout, itemsS, text, mrecsS, firstS] =>
    let items? : Option (List (Option T)) := (splitTerm "|" itemsS).mapM fun it =>
      if it == "B" then some none else if it.front == 'T' then (T.undump (dropFirst it)).map some else none
    match items?, unescape text, parseRecs mrecsS with
    | some items, some textS, some mrecs =>
      let text := textS.toList
      let first : Option Out := parseFirst firstS
      if first.isNone && !firstS.startsWith "panic" && !mrecsS.startsWith "panic" then bad "C13.multi first" else
      let good := items.filterMap id
      let wf := good.all WF13
      let fh := firstHyp text
      -- a lone CR as line end is outside the property's domain (Spec `newickDomain`): decided HERE from the
      -- text, not from the harness's layout label; correspondence only.  Several trees on one line are
      -- inside the domain since fix 3850fd2 (before: theorem multi_sameline_drops_second)
      let outside := !newickDomain text
      let tags := (layout.splitOn ",").filter (· != "") ++ tagIf outside "outside-domain" ++
        tagIf (!treesEndLines text) "dom-semicolon-inside-line" ++ tagIf (!noLoneCR text) "dom-lone-cr" ++
        tagIf wf "wf13" ++ tagIf fh "first-hyp" ++
        tagIf (items.length ≥ 2) "nontrivial" ++ tagIf (items.any Option.isNone) "broken" ++ treeTags good
      if firstS.startsWith "panic" || mrecsS.startsWith "panic" then ⟨.oracle, tags, "panic: " ++ firstS⟩
      else if wf && !outside && !(recsExpected items mrecs 0) then
        ⟨.oracle, tags, "multi-tree file: a tree is skipped / out of order / wrong identifier, or an error is not reported"⟩
      else if fh && !(firstIsHead (first.getD .err) mrecs) then
        ⟨.oracle, tags, "first-tree reader differs from the head of the multi-tree reader"⟩
      else if !(lawPrefixHolds c01Go text) || !(lawWsHolds c01Go text) then
        ⟨.tie, tags, "a Newick stream law (parse_prefix / parse_ws_skip) fails for the model codec on this text"⟩
      else tieReaders (.newick text) mrecs first ("stream-laws-ok" :: tags)
    | _, _, _ => bad "C13.multi fields"
  | "doc", [fmt, text, xml, mrecsS, firstS] =>
    match unescape text, parseXmlDoc xml, parseRecs mrecsS with
    | some textS, some xdoc, some mrecs =>
      let first : Option Out := parseFirst firstS
      if first.isNone && !firstS.startsWith "panic" then bad "C13.doc first" else
      -- first tree = head of the multi-tree reader: every format; for Newick under the hypothesis of
      -- first_eq_head_newick (the first tree on its own lines), decided here from the text
      let fh := fmt != "newick" || firstHyp textS.toList
      let tags := [fmt, "doc"] ++ tagIf (mrecs.any fun r => !r.out.isOk) "err-record" ++ tagIf (mrecs.length ≥ 2) "nontrivial" ++
        tagIf (fmt == "newick" && fh) "first-hyp"
      if firstS.startsWith "panic" then ⟨.oracle, tags, "panic: " ++ firstS⟩
      else if fh && !(firstIsHead (first.getD .err) mrecs) then
        ⟨.oracle, tags, "first-tree reader differs from the head of the multi-tree reader"⟩
      else match docOf fmt textS.toList xdoc with
        | some d => tieReaders d mrecs first tags
        | none => bad "C13.doc fmt"
    | _, _, _ => bad "C13.doc fields"
  | "ns", [kind, dump, nsd, _text, mrecsS, firstS] =>
    match T.undump dump, parseNs nsd, parseRecs mrecsS with
    | some t, some nd, some mrecs =>
      let first : Option Out := parseFirst firstS
      if first.isNone && !firstS.startsWith "panic" then bad "C13.ns first" else
      -- is the decoded document the specification's (`nsOf`, theorem nextstrain_reads_tree), and does its
      -- hypothesis hold?
      let specEq := match nd with
        | some (.mk nm dv ks) => nsEq (.mk nm dv ks) (nsOf dv t)
        | none => false
      let nsHyp := nsNodeOK t
      let tags := ["nextstrain", kind] ++ tagIf (kind == "ok") "nontrivial" ++ tagIf specEq "ns-spec-eq" ++
        tagIf nsHyp "hyp-nextstrain-reads-tree" ++ treeTags [t]
      if firstS.startsWith "panic" || mrecsS.startsWith "panic" then ⟨.oracle, tags, "panic: " ++ firstS⟩
      else if specEq && nsHyp && !(recsAre [t] mrecs 0) then
        ⟨.oracle, tags, "Nextstrain document nsOf inside the hypothesis of nextstrain_reads_tree: the tree read differs from the tree it describes"⟩
      else if kind == "ok" && !(recsAre [t] mrecs 0) then
        ⟨.oracle, tags, "Nextstrain: the tree read differs from the tree the document describes (shape/names/lengths)"⟩
      else if kind != "ok" && mrecs.any (·.out.isOk) then ⟨.oracle, tags, "Nextstrain: a broken document is delivered as a tree"⟩
      else if !(firstIsHead (first.getD .err) mrecs) then
        ⟨.oracle, tags, "first-tree reader differs from the head of the multi-tree reader"⟩
      else tieReaders (.nextstrain nd) mrecs first tags
    | _, _, _ => bad "C13.ns fields"
  | "foreign", [flagsS, dumps, text, mrecsS, firstS] =>
    match (splitTerm "|" dumps).mapM T.undump, unescape text, parseRecs mrecsS with
    | some ts, some textS, some mrecs =>
      let first : Option Out := parseFirst firstS
      if first.isNone && !firstS.startsWith "panic" then bad "C13.foreign first" else
      let flags := (flagsS.splitOn ",").filter (· != "")
      -- forms the reader is not expected to accept (`tree * name`, quoted labels): correspondence only
      let outside := hasStarTree (Nex.scan textS.toList) || textS.toList.contains (Char.ofNat 39)
      let wf := WF13list ts
      let hyp := wf && sameTaxa ts && !outside
      -- the standard-form documents of `writeNexusStd` (theorem nexus_std_roundtrip): is the harness's text
      -- the specification's text, and do the theorem's hypotheses hold?
      let std := flags.contains "std-form"
      let labels := (taxlabelsOf (Nex.scan textS.toList)).getD []
      let stdText := std && writeNexusStd c01Go labels ts == textS.toList
      let stdHyp := std && decide (labels.length ≤ 9223372036854775807) && labels.all labelOK && !hasDup labels &&
        ts.all (fun t => sameSet t.tipNames labels && !hasDup t.tipNames && namesOK t &&
          (match c01Go.parse (c01Go.write (renameT (stdMap 1 labels) t)) with
           | some u => sameKept u (renameT (stdMap 1 labels) t)
           | none => false) &&
          treeTextOK (c01Go.write (renameT (stdMap 1 labels) t)))
      let tags := ["foreign-nexus"] ++ flags ++ tagIf outside "outside-domain" ++ tagIf wf "wf13" ++ tagIf hyp "hyp" ++ tagIf (ts.length ≥ 2) "nontrivial" ++
        tagIf stdText "std-text-eq" ++ tagIf stdHyp "hyp-nexus-std-roundtrip" ++ treeTags ts
      if firstS.startsWith "panic" || mrecsS.startsWith "panic" then ⟨.oracle, tags, "panic: " ++ firstS⟩
      else if stdHyp && stdText && !(recsAre ts mrecs 0) then
        ⟨.oracle, tags, "standard-form Nexus document inside the hypotheses of nexus_std_roundtrip: the trees read differ from the trees it holds"⟩
      else if hyp && !(recsAre ts mrecs 0) then
        let f60 := isF60 (flags.any fun f => f.startsWith "translate-") ts mrecs
        ⟨.oracle, tagIf f60 "f60-region" ++ tags, (if f60 then "class=NexusTranslateDuplicateNodeNames " else "") ++
          "legal Nexus document: the trees read differ from the trees it holds, or a tree is missing"⟩
      else if !(firstIsHead (first.getD .err) mrecs) then
        ⟨.oracle, tags, "first-tree reader differs from the head of the multi-tree reader"⟩
      else tieReaders (.nexus textS.toList) mrecs first tags
    | _, _, _ => bad "C13.foreign fields"
  | "foreignpx", [flagsS, dumps, _text, xml, mrecsS, firstS] =>
    match (splitTerm "|" dumps).mapM T.undump, parseXmlDoc xml, parseRecs mrecsS with
    | some ts, some xdoc, some mrecs =>
      let first : Option Out := parseFirst firstS
      if first.isNone && !firstS.startsWith "panic" then bad "C13.foreignpx first" else
      let flags := (flagsS.splitOn ",").filter (· != "")
      -- `branch_length` given as an ATTRIBUTE of <clade> (legal PhyloXML) is not read by gotree: the lengths
      -- are lost; correspondence only for those documents
      let lossy := match xdoc with | some x => hasAttrLength x | none => false
      -- a `rooted` attribute that is not a Go boolean: not a legal document, model against code only
      let invalid := match xdoc with | some x => rootedInvalid x | none => false
      let wf := WF13list ts
      let hyp := wf && !lossy && !invalid
      -- documents in exactly the layout of the specification writer `Px.encodeAlt` (theorem
      -- phyloxml_forms_roundtrip): is the harness's element tree the specification's, do the hypotheses hold?
      let forms := flags.contains "forms-spec"
      let formsEq := forms && (match xdoc with
        | some x => xmlEq (dropRootAttrs x) (Px.encodeAlt goNum formsStyle formsJunk [' '] ['\n'] ts)
        | none => false)
      let formsHyp := forms && Px.junkOK formsJunk && ts.all (pxOK Newick.goDomS)
      let tags := ["foreign-phyloxml"] ++ flags ++ tagIf lossy "dom-attr-length" ++ tagIf invalid "dom-rooted-invalid" ++
        tagIf wf "wf13" ++ tagIf hyp "hyp" ++ tagIf (ts.length ≥ 2) "nontrivial" ++
        tagIf formsEq "forms-xml-eq" ++ tagIf formsHyp "hyp-phyloxml-forms" ++ treeTags ts
      if firstS.startsWith "panic" || mrecsS.startsWith "panic" then ⟨.oracle, tags, "panic: " ++ firstS⟩
      else if formsEq && formsHyp && !(recsAre ts mrecs 0) then
        ⟨.oracle, tags, "PhyloXML document of encodeAlt inside the hypotheses of phyloxml_forms_roundtrip: the trees read differ from the trees it holds"⟩
      else if hyp && !(recsAre ts mrecs 0) then
        ⟨.oracle, tags, "legal PhyloXML document: the trees read differ from the trees it holds"⟩
      else if !(firstIsHead (first.getD .err) mrecs) then
        ⟨.oracle, tags, "first-tree reader differs from the head of the multi-tree reader"⟩
      else tieReaders (.phyloxml xdoc) mrecs first tags
    | _, _, _ => bad "C13.foreignpx fields"
  | "reformat", [infmt, outfmt, trS, omode, brS, dumps, intext, aux, exit, outtext, _outx, mrecsS, errS] =>
    match (splitTerm "|" dumps).mapM T.undump, unescape intext, unescape outtext, parseRecs mrecsS with
    | some ts, some inS, some outS, some mrecs =>
      let translate := trS == "1"
      let broken := brS == "1"
      let doc? : Option Doc := match infmt with
        | "newick" => some (.newick inS.toList)
        | "nexus" | "nexustr" => some (.nexus inS.toList)
        | "phyloxml" => (parseXmlDoc aux).map Doc.phyloxml
        | "nextstrain" => (parseNs aux).map Doc.nextstrain
        | _ => none
      match doc? with
      | none => bad "C13.reformat input"
      | some doc =>
      let nexusInvolved := outfmt == "nexus" || infmt == "nexus" || infmt == "nexustr"
      let wf := WF13list ts
      let hyp := wf && !broken
      let dupNames := ts.any fun t => !innerNamesDistinct t
      -- open finding F60, as narrow as the finding: either the WRITER was asked for a translate table (output
      -- nexus with --translate: the command succeeds and its document is read back as the single error
      -- record), or the READER met a translate table over a repeated inner name (input written with a
      -- table: the command fails with tree.Rename's duplicate-name message).  Any other failure — a crash,
      -- another message, --translate with another output format — does not carry the class.
      let f60 := ts.all tipsOK && ts.all nonTipNamesNotNumeral && dupNames &&
        ((outfmt == "nexus" && translate && exit == "ok" && isF60Lists true ts mrecs) ||
         (infmt == "nexustr" && exit == "fail" && renameDupMsg errS))
      let tags := ["reformat", "in-" ++ infmt, "out-" ++ outfmt, "o-" ++ omode] ++ tagIf translate "translate" ++
        tagIf broken "broken-input" ++ tagIf wf "wf13" ++ tagIf hyp "hyp" ++ tagIf (ts.length ≥ 2) "nontrivial" ++
        tagIf f60 "f60-region" ++ tagIf (nexusInvolved && !sameTaxa ts) "differing-taxa" ++ treeTags ts
      let cls := if f60 then "class=NexusTranslateDuplicateNodeNames " else ""
      if outS.startsWith "STDOUT-NOT-EMPTY:" then ⟨.oracle, tags, "reformat -o: output also went to stdout"⟩
      else if exit == "timeout" || mrecsS.startsWith "panic" then ⟨.oracle, tags, "reformat: timeout / panic"⟩
      else if broken && exit != "fail" then ⟨.oracle, tags, "reformat: a broken input tree is not reported (exit 0)"⟩
      else if hyp && exit != "ok" then ⟨.oracle, tags, cls ++ "reformat fails on well-formed trees"⟩
      else if hyp && !(recsAre ts mrecs 0) then
        ⟨.oracle, tags, cls ++ "reformat: the output read back differs from the input trees, or a tree is missing"⟩
      else if hyp && outfmt == "nexus" && exit == "ok" && hasTranslate outS.toList != translate then
        ⟨.oracle, tags, "reformat nexus: a TRANSLATE table is written iff --translate is given"⟩
      else
        -- the glue as a function of the flags: read everything, stop at the first error record
        match readMulti env doc with
        | none => if knownUnsupported doc then ⟨.pass, "model-unsupported" :: tags, ""⟩
                  else ⟨.tie, "model-unsupported" :: tags, "the model declines this input document although it holds none of the constructs it is known not to follow"⟩
        | some recs =>
          let good := (recs.takeWhile (·.out.isOk)).filterMap fun r => match r.out with | .ok t => some (r.id, t) | .err => none
          let ofmt : OutFmt := match outfmt with | "newick" => .newick | "nexus" => .nexus | _ => .phyloxml
          let (mok, mout) := reformatGlue env ofmt translate recs
          let mexit := if mok then "ok" else "fail"
          let tags := tagIf (mout == outS.toList) "out-eq" ++ tags
          if mexit != exit then ⟨.tie, tags, "model of the reformat glue: exit " ++ mexit⟩
          else if outfmt == "newick" && !(recsAre (good.map (·.2)) mrecs 0) then
            ⟨.tie, tags, "model of the reformat glue: trees written before the error"⟩
          else ⟨.pass, tags, ""⟩
    | _, _, _, _ => bad "C13.reformat fields"
  | "fmtflag", [flagE, docfmt, dumps, intext, xaux, exit, outtext, mrecsS] =>
    match unescape flagE, (splitTerm "|" dumps).mapM T.undump, unescape intext, unescape outtext with
    | some flag, some ts, some inS, some outS =>
      match parseRecs mrecsS, parseXmlDoc xaux with
      | some mrecs, some xdoc =>
        -- cmd/root.go: the switch on rootInputFormat (formatOfFlag, theorem format_flag_table_check)
        let sel := formatOfFlag flag
        let documented := flag == "newick" || flag == "nexus" || flag == "phyloxml" || flag == "nextstrain"
        let wf := WF13list ts
        -- a documented word given together with a file of that format must select that format's reader
        let hyp := wf && documented && flag == docfmt
        let tags := ["fmtflag", "doc-" ++ docfmt, "sel-" ++ sel.constName] ++
          tagIf documented ("flag-" ++ flag) ++ tagIf (!documented) "flag-other" ++ tagIf hyp "hyp" ++
          tagIf wf "wf13" ++ tagIf (ts.length ≥ 2) "nontrivial" ++ treeTags ts
        if exit == "timeout" || mrecsS.startsWith "panic" then ⟨.oracle, tags, "reformat --format: timeout / panic"⟩
        else if hyp && exit != "ok" then
          ⟨.oracle, tags, "reformat newick --format " ++ flag ++ " fails on a well-formed " ++ docfmt ++ " file"⟩
        else if hyp && !(recsAre ts mrecs 0) then
          ⟨.oracle, tags, "reformat newick --format " ++ flag ++ ": the trees written differ from the trees of the file, or a tree is missing"⟩
        else
          -- an element tree is handed to the PhyloXML reader only when the text is XML; these texts are
          -- never JSON (they start with '(' or '#'): the Nextstrain reader refuses them
          let doc := docForFlag sel inS.toList xdoc none
          match reformatNewickFlag env flag inS.toList xdoc none, readMulti env doc with
          | some (mok, mout), some recs =>
            let good := (recs.takeWhile (·.out.isOk)).filterMap fun r => match r.out with | .ok t => some t | .err => none
            let mexit := if mok then "ok" else "fail"
            let tags := tagIf (mout == outS.toList) "out-eq" ++ tags
            if mexit != exit then ⟨.tie, tags, "model of the format flag (" ++ sel.constName ++ "): exit " ++ mexit⟩
            else if !(recsAre good mrecs 0) then ⟨.tie, tags, "model of the format flag (" ++ sel.constName ++ "): trees written"⟩
            else ⟨.pass, tags, ""⟩
          | _, _ =>
            if knownUnsupported doc then ⟨.pass, "model-unsupported" :: tags, ""⟩
            else ⟨.tie, "model-unsupported" :: tags, "the model declines this input document although it holds none of the constructs it is known not to follow"⟩
      | _, _ => bad "C13.fmtflag records"
    | _, _, _, _ => bad "C13.fmtflag fields"
  | "clifirst", [infmt, dumps, _text, _aux, exit, rowsS, errS] =>
    match (splitTerm "|" dumps).mapM T.undump with
    | some ts =>
      let rows := (rowsS.splitOn "|").filter (· != "")
      let isNexus := infmt == "nexus" || infmt == "nexustr"
      let wf := WF13list ts
      -- `compare edges` needs all trees on the same tips; it matches branches by bipartition, which is
      -- ambiguous for the two root branches of a rooted tree and around single-child nodes
      let hyp := wf && sameTaxa ts
      let unambiguous := match ts with | t :: _ => !t.rooted && !anySingle t && t.kids.length != 1 | [] => false
      let dupNames := ts.any fun t => !innerNamesDistinct t
      let f60 := infmt == "nexustr" && ts.all tipsOK && sameTaxa ts && ts.all nonTipNamesNotNumeral && dupNames &&
        exit == "fail" && renameDupMsg errS
      let tags := ["clifirst", "in-" ++ infmt] ++ tagIf hyp "hyp" ++ tagIf (hyp && unambiguous) "hyp-values" ++
        tagIf (ts.length ≥ 2) "nontrivial" ++ tagIf f60 "f60-region"
      let rowOK (r : String) : Bool := match r.splitOn ";" with
        | [l, s, found, cl, cs] => found == "true" && l == cl && s == cs
        | _ => false
      let nedges := match ts with | t :: _ => t.edges.length | [] => 0
      if exit == "timeout" then ⟨.oracle, tags, "compare edges: timeout"⟩
      else if hyp && exit != "ok" then
        ⟨.oracle, tags, (if f60 then "class=NexusTranslateDuplicateNodeNames " else "") ++ "single-tree reader (CLI) fails on a well-formed file"⟩
      else if hyp && !(rows.all fun r => (r.splitOn ";").getD 2 "" == "true") then
        ⟨.oracle, tags, "CLI: a branch of the single-tree reader's tree is not in the first tree of the multi-tree reader"⟩
      else if hyp && unambiguous && !(rows.all rowOK) then
        ⟨.oracle, tags, "CLI: the tree of the single-tree reader differs from the first tree of the multi-tree reader"⟩
      else if hyp && rows.length != nedges then ⟨.tie, tags, "CLI: number of branches of the first tree"⟩
      else ⟨.pass, tags, ""⟩
    | none => bad "C13.clifirst fields"
  | _, _ => bad ("C13: unknown op " ++ op)

end Gotree.Driver.C13
