package c20

import (
	"math/rand"
	"strconv"
	"strings"
	"time"

	"github.com/evolbioinfo/gotree/tree"

	"verifharness/core"
)

// doSeedCmd: the seed of the commands (cmd/root.go PersistentPreRun).  `gotree generate uniformtree -l 12`
// is run twice with the same `--seed flag` (flag "-": option absent); the third output is the library call
// in this process after rand.Seed(flag) (-1 when absent).  A fixed seed must be reproducible and must be
// the seed of math/rand as it is; -1 (the default) must mean the clock.
func doSeedCmd(c *core.Ctx, flag string) {
	args := []string{"generate", "uniformtree", "-l", "12"}
	lit := int64(-1)
	if flag != "-" {
		v, err := strconv.ParseInt(flag, 10, 64)
		if err != nil {
			return
		}
		lit = v
		args = append(args, "--seed", flag)
	}
	class := "ok"
	run := func() string {
		r := c.RunCLI("", 20*time.Second, args...)
		if r.Exit != 0 || r.Timeout {
			class = "exit" + itoa(r.Exit)
			return ""
		}
		return core.Escape(strings.TrimRight(r.Stdout, "\n"))
	}
	out1 := run()
	time.Sleep(2 * time.Millisecond)
	out2 := run()
	outLit := ""
	rand.Seed(lit)
	if p, msg := core.Safe(func() {
		if t, err := tree.RandomUniformBinaryTree(12, false); err == nil {
			outLit = core.Escape(t.Newick())
		}
	}); p {
		outLit = "panic:" + core.Escape(msg)
	}
	c.Emit("C20.seedcmd", flag, class, out1, out2, outLit)
}
