/-
  C14 round 2 — helper lemmas: invariance of the matrix and of the cut under a root move
  and under reordering, threshold monotonicity, average of one tree / order independence,
  and the exact outcome of the literal name check of `AvgDistanceMatrix`.
  Core Lean only.
-/
import Gotree.Lemmas.C05Splits
import Gotree.Model.C14Go

namespace Gotree.C14
open Gotree

/-! ## matrix: it depends on the tip set and on the path sums only -/

theorem matrix_fst (m : Metric) (t : T) : (matrix m t).1 = sortNames t.tipNames := rfl

/-- Two trees with the same tips (as a multiset) and the same path sums have the same
    matrix, rows included. -/
theorem matrix_congr (m : Metric) (t u : T) (hu : t.tipNames.Nodup) (hp : u.tipNames.Perm t.tipNames)
    (hd : ∀ a ∈ t.tipNames, ∀ b ∈ t.tipNames, pathSum m u a b = pathSum m t a b) :
    matrix m u = matrix m t := by
  have hu' : u.tipNames.Nodup := hp.nodup_iff.2 hu
  have hs : sortNames u.tipNames = sortNames t.tipNames := sortNames_eq_of_perm hp
  apply Prod.ext
  · rw [matrix_fst, matrix_fst, hs]
  · rw [matrix_spec m u hu', matrix_spec m t hu, hs]
    apply List.map_congr_left
    intro a ha
    apply List.map_congr_left
    intro b hb
    rw [hd a (mem_sortNames.1 ha) b (mem_sortNames.1 hb)]

theorem matrix_moveRoot' (m : Metric) (t : T) (i : Nat) (hu : t.tipNames.Nodup) :
    matrix m (C05.moveRoot t i) = matrix m t :=
  matrix_congr m t _ hu (C05.moveRoot_tips t i)
    (fun a ha b hb => C05.moveRoot_distW m.w t i hu a b ha hb)

/-! ## reordering: entries up to the order in which the leaves below are listed -/

theorem sep_of_perm {s s' : SplitE} (h : s'.below.Perm s.below) (a b : String) : s'.sep a b = s.sep a b := by
  simp [SplitE.sep, List.contains_eq_mem, h.mem_iff]

/-- `u` lists the same branches as `t`, each with the same leaves below in some order:
    what any reordering of children, at any depth, produces. -/
inductive BrRel : List SplitE → List SplitE → Prop
  | nil : BrRel [] []
  | cons {s s' : SplitE} {l l' : List SplitE} : s'.e = s.e → s'.below.Perm s.below → BrRel l l' →
      BrRel (s :: l) (s' :: l')

def SameBranches (l l' : List SplitE) : Prop :=
  ∃ l₂ : List SplitE, l'.Perm l₂ ∧ BrRel l l₂

theorem distW_forall₂ (w : EdgeD → Rat) (a b : String) : ∀ {l l₂ : List SplitE},
    BrRel l l₂ → distW w l₂ a b = distW w l a b
  | _, _, .nil => rfl
  | _, _, .cons he hb hr => by
    rw [distW_cons, distW_cons, distW_forall₂ w a b hr, sep_of_perm hb, he]

theorem distW_sameBranches (w : EdgeD → Rat) {l l' : List SplitE} (h : SameBranches l l') (a b : String) :
    distW w l' a b = distW w l a b := by
  obtain ⟨l₂, hp, hf⟩ := h
  rw [distW_perm w hp, distW_forall₂ w a b hf]

theorem SameBranches.refl (l : List SplitE) : SameBranches l l :=
  ⟨l, List.Perm.refl _, by induction l with
    | nil => exact .nil
    | cons s l ih => exact .cons rfl (List.Perm.refl _) ih⟩

theorem BrRel.append : ∀ {a a' b b' : List SplitE}, BrRel a a' → BrRel b b' → BrRel (a ++ b) (a' ++ b')
  | _, _, _, _, .nil, hb => by simpa using hb
  | _, _, _, _, .cons h h' hr, hb => .cons h h' (BrRel.append hr hb)

theorem SameBranches.append {l₁ l₁' l₂ l₂' : List SplitE} (h₁ : SameBranches l₁ l₁') (h₂ : SameBranches l₂ l₂') :
    SameBranches (l₁ ++ l₂) (l₁' ++ l₂') := by
  obtain ⟨a, pa, fa⟩ := h₁
  obtain ⟨b, pb, fb⟩ := h₂
  exact ⟨a ++ b, pa.append pb, fa.append fb⟩

theorem SameBranches.cons {s s' : SplitE} {l l' : List SplitE} (he : s'.e = s.e) (hb : s'.below.Perm s.below)
    (h : SameBranches l l') : SameBranches (s :: l) (s' :: l') := by
  obtain ⟨a, pa, fa⟩ := h
  exact ⟨s' :: a, pa.cons _, .cons he hb fa⟩

theorem SameBranches.of_perm {l l' : List SplitE} (h : l'.Perm l) : SameBranches l l' := by
  obtain ⟨a, pa, fa⟩ := SameBranches.refl l
  exact ⟨a, h.trans pa, fa⟩

theorem forall₂_trans {l₁ l₂ l₃ : List SplitE}
    (h₁ : BrRel l₁ l₂)
    (h₂ : BrRel l₂ l₃) :
    BrRel l₁ l₃ := by
  induction h₁ generalizing l₃ with
  | nil => cases h₂; exact .nil
  | cons he hb _ ih =>
    cases h₂ with
    | cons he' hb' hr' => exact .cons (he'.trans he) (hb'.trans hb) (ih hr')

/-- a permutation can be pushed through a pointwise relation -/
theorem forall₂_perm_left : ∀ {l l₂ l' : List SplitE},
    BrRel l l₂ → l'.Perm l → ∃ l₂' : List SplitE, l₂'.Perm l₂ ∧ BrRel l' l₂' := by
  intro l l₂ l' hf hp
  induction hp generalizing l₂ with
  | nil => cases hf; exact ⟨[], List.Perm.refl _, .nil⟩
  | cons x _ ih =>
    cases hf with
    | cons he hb hr =>
      obtain ⟨r', pr, fr⟩ := ih hr
      exact ⟨_ :: r', pr.cons _, .cons he hb fr⟩
  | swap x y l =>
    cases hf with
    | cons he hb hr =>
      cases hr with
      | cons he' hb' hr' => exact ⟨_ :: _ :: _, List.Perm.swap _ _ _, .cons he' hb' (.cons he hb hr')⟩
  | trans _ _ ih₁ ih₂ =>
    obtain ⟨a, pa, fa⟩ := ih₂ hf
    obtain ⟨b, pb, fb⟩ := ih₁ fa
    exact ⟨b, pb.trans pa, fb⟩

theorem SameBranches.trans {l₁ l₂ l₃ : List SplitE} (h₁ : SameBranches l₁ l₂) (h₂ : SameBranches l₂ l₃) :
    SameBranches l₁ l₃ := by
  obtain ⟨a, pa, fa⟩ := h₁
  obtain ⟨b, pb, fb⟩ := h₂
  -- l₂ ~ a, Forall₂ l₁ a; l₃ ~ b, Forall₂ l₂ b.  Push l₂ ~ a through Forall₂ l₂ b.
  obtain ⟨b', pb', fb'⟩ := forall₂_perm_left fb pa.symm
  exact ⟨b', pb.trans pb'.symm, forall₂_trans fa fb'⟩

/- Reordering the children of nodes, at any depth. -/
mutual
inductive Reord : T → T → Prop
  | node (d : NodeD) (p p' : Nat) {k k₂ k' : Kids} : ReordL k k₂ → k'.Perm k₂ → Reord (.node d p k) (.node d p' k')
inductive ReordL : Kids → Kids → Prop
  | nil : ReordL [] []
  | cons (e : EdgeD) {t t' : T} {r r' : Kids} : Reord t t' → ReordL r r' → ReordL ((e, t) :: r) ((e, t') :: r')
end

theorem leavesL_perm' {k₁ k₂ : Kids} (h : k₁.Perm k₂) : (leavesL k₁).Perm (leavesL k₂) := by
  induction h with
  | nil => exact List.Perm.refl _
  | cons x _ ih => obtain ⟨e, t⟩ := x; simp only [leavesL_cons]; exact List.Perm.append_left _ ih
  | swap x y l =>
    obtain ⟨e, t⟩ := x; obtain ⟨e', t'⟩ := y
    simp only [leavesL_cons, ← List.append_assoc]
    exact List.Perm.append_right _ List.perm_append_comm
  | trans _ _ ih₁ ih₂ => exact ih₁.trans ih₂

theorem splitsL_perm' {k₁ k₂ : Kids} (h : k₁.Perm k₂) : (splitsL k₁).Perm (splitsL k₂) := by
  induction h with
  | nil => exact List.Perm.refl _
  | cons x _ ih =>
    obtain ⟨e, t⟩ := x; simp only [splitsL_cons]
    exact List.Perm.cons _ (List.Perm.append_left _ ih)
  | swap x y l =>
    obtain ⟨e, t⟩ := x; obtain ⟨e', t'⟩ := y
    have h1 : splitsL ((e', t') :: (e, t) :: l) = splitsL [(e', t')] ++ (splitsL [(e, t)] ++ splitsL l) := by
      rw [← splitsL_append, ← splitsL_append]; rfl
    have h2 : splitsL ((e, t) :: (e', t') :: l) = splitsL [(e, t)] ++ (splitsL [(e', t')] ++ splitsL l) := by
      rw [← splitsL_append, ← splitsL_append]; rfl
    rw [h1, h2]
    exact List.perm_append_comm_assoc _ _ _
  | trans _ _ ih₁ ih₂ => exact ih₁.trans ih₂

/-- what a reordering keeps: the leaves (as a multiset), leaf-ness, the number of children
    and the branches with the leaves below them -/
def ReordOK (t t' : T) : Prop :=
  t'.leaves.Perm t.leaves ∧ t'.isLeaf = t.isLeaf ∧ t'.kids.length = t.kids.length ∧ t'.name = t.name ∧
  SameBranches t.splitsBelow t'.splitsBelow

def ReordLOK (k k' : Kids) : Prop :=
  (leavesL k').Perm (leavesL k) ∧ k'.length = k.length ∧ SameBranches (splitsL k) (splitsL k')

mutual
theorem reord_ok : ∀ {t t' : T}, Reord t t' → ReordOK t t'
  | _, _, .node d p p' (k := k) (k₂ := k₂) (k' := k') hr hp => by
    obtain ⟨h1, h2, h3⟩ := reordL_ok hr
    have hlen : k'.length = k.length := hp.length_eq.trans h2
    have hemp : k'.isEmpty = k.isEmpty := by
      cases k' <;> cases k <;> simp_all
    refine ⟨?_, by simp [T.isLeaf_node, hemp], by simpa using hlen, rfl, ?_⟩
    · simp only [T.leaves_node, hemp]
      split
      · exact List.Perm.refl _
      · exact (leavesL_perm' hp).trans h1
    · simp only [T.splitsBelow_node]
      exact h3.trans (SameBranches.of_perm (splitsL_perm' hp))
theorem reordL_ok : ∀ {k k' : Kids}, ReordL k k' → ReordLOK k k'
  | _, _, .nil => ⟨List.Perm.refl _, rfl, SameBranches.refl _⟩
  | _, _, .cons e (t := t) (t' := t') (r := r) (r' := r') ht hr => by
    obtain ⟨a1, a2, _, _, a5⟩ := reord_ok ht
    obtain ⟨b1, b2, b3⟩ := reordL_ok hr
    refine ⟨?_, by simp [b2], ?_⟩
    · simp only [leavesL_cons]; exact a1.append b1
    · simp only [splitsL_cons]
      exact SameBranches.cons rfl a1 (a5.append b3)
end

theorem reord_tipNames {t t' : T} (h : Reord t t') : t'.tipNames.Perm t.tipNames := by
  cases h with
  | node d p p' hr hp =>
    obtain ⟨h1, h2, _⟩ := reordL_ok hr
    have hlen := hp.length_eq.trans h2
    simp only [T.tipNames, T.kids_node, T.name, T.d_node, hlen]
    exact List.Perm.append_left _ ((leavesL_perm' hp).trans h1)

theorem reord_splits {t t' : T} (h : Reord t t') : SameBranches t.splits t'.splits := by
  cases h with
  | node d p p' hr hp =>
    obtain ⟨_, _, h3⟩ := reordL_ok hr
    simp only [T.splits, T.kids_node]
    exact h3.trans (SameBranches.of_perm (splitsL_perm' hp))

/-! ## cut: a root move / a reordering keeps "every branch between a and b is short" -/

theorem pathShort_perm (thr : Rat) {l l' : List SplitE} (h : l'.Perm l) (a b : String) :
    (l'.all fun s => !(s.sep a b) || decide (s.e.len < thr)) =
    (l.all fun s => !(s.sep a b) || decide (s.e.len < thr)) := by
  induction h with
  | nil => rfl
  | cons x _ ih => simp only [List.all_cons, ih]
  | swap x y l => simp only [List.all_cons]; grind
  | trans _ _ ih₁ ih₂ => exact ih₁.trans ih₂

theorem pathShort_forall₂ (thr : Rat) (a b : String) : ∀ {l l₂ : List SplitE},
    BrRel l l₂ →
    (l₂.all fun s => !(s.sep a b) || decide (s.e.len < thr)) =
    (l.all fun s => !(s.sep a b) || decide (s.e.len < thr))
  | _, _, .nil => rfl
  | _, _, .cons he hb hr => by
    simp only [List.all_cons, pathShort_forall₂ thr a b hr, sep_of_perm hb, he]

theorem pathShort_sameBranches (thr : Rat) {t u : T} (h : SameBranches t.splits u.splits) (a b : String) :
    pathShort thr u a b = pathShort thr t a b := by
  obtain ⟨l₂, hp, hf⟩ := h
  unfold pathShort
  rw [pathShort_perm thr hp, pathShort_forall₂ thr a b hf]

theorem pathShort_moveRoot (thr : Rat) (t : T) (i : Nat) (hu : t.tipNames.Nodup) (a b : String)
    (ha : a ∈ t.tipNames) (hb : b ∈ t.tipNames) :
    pathShort thr (C05.moveRoot t i) a b = pathShort thr t a b := by
  cases h : t.kids[i]? with
  | none => rw [C05.moveRoot_of_none t i h]
  | some ec =>
    obtain ⟨e, c⟩ := ec
    obtain ⟨rest, p1, p2⟩ := C05.moveRoot_splits_perm t i e c h
    obtain ⟨q1, _⟩ := C05.moveRoot_tipNames_split t i e c h
    unfold pathShort
    rw [pathShort_perm thr p1, pathShort_perm thr p2]
    simp only [List.all_cons]
    have q1' : ((C05.oldRoot t i).leaves ++ c.leaves).Perm t.tipNames := List.perm_append_comm.trans q1
    rw [sep_compl hu q1' e e (C05.oldRoot t i).isLeaf c.isLeaf ha hb]

theorem cut_sameBag_moveRoot (thr : Rat) (t : T) (i : Nat) (hu : t.tipNames.Nodup) (a b : String)
    (ha : a ∈ t.tipNames) (hb : b ∈ t.tipNames) :
    sameBag (cut thr (C05.moveRoot t i)) a b = sameBag (cut thr t) a b := by
  have hp := C05.moveRoot_tips t i
  rw [cut_sameBag thr _ (hp.nodup_iff.2 hu) a b (hp.mem_iff.2 ha) (hp.mem_iff.2 hb),
    cut_sameBag thr t hu a b ha hb, pathShort_moveRoot thr t i hu a b ha hb]

/-! ## threshold monotonicity -/

theorem pathShort_mono {thr thr' : Rat} (h : thr ≤ thr') (t : T) (a b : String)
    (hs : pathShort thr t a b = true) : pathShort thr' t a b = true := by
  unfold pathShort at *
  simp only [List.all_eq_true, Bool.or_eq_true, Bool.not_eq_eq_eq_not, Bool.not_true, decide_eq_true_eq] at *
  intro s hm
  rcases hs s hm with h1 | h1
  · exact Or.inl h1
  · exact Or.inr (by grind)

/-- in a list of lists whose concatenation has no repetition, an element lies in one list only -/
theorem unique_bag {L : List (List String)} (hn : L.flatten.Nodup) {g₁ g₂ : List String} {x : String}
    (h₁ : g₁ ∈ L) (h₂ : g₂ ∈ L) (x₁ : x ∈ g₁) (x₂ : x ∈ g₂) : g₁ = g₂ := by
  induction L with
  | nil => cases h₁
  | cons g L ih =>
    simp only [List.flatten_cons, List.nodup_append] at hn
    obtain ⟨_, hn2, hd⟩ := hn
    rcases List.mem_cons.1 h₁ with e₁ | h₁ <;> rcases List.mem_cons.1 h₂ with e₂ | h₂
    · rw [e₁, e₂]
    · exact absurd rfl (hd x (e₁ ▸ x₁) x (List.mem_flatten.2 ⟨_, h₂, x₂⟩))
    · exact absurd rfl (hd x (e₂ ▸ x₂) x (List.mem_flatten.2 ⟨_, h₁, x₁⟩))
    · exact ih hn2 h₁ h₂

theorem sameBag_true_iff (bags : List (List String)) (a b : String) :
    sameBag bags a b = true ↔ ∃ g ∈ bags, a ∈ g ∧ b ∈ g := by
  simp [sameBag, List.any_eq_true, List.contains_eq_mem]

/-- Every bag for the smaller threshold lies inside one bag for the larger threshold. -/
theorem cut_refines (thr thr' : Rat) (hle : thr ≤ thr') (t : T) (hu : t.tipNames.Nodup) :
    ∀ g ∈ cut thr t, ∃ g' ∈ cut thr' t, ∀ x ∈ g, x ∈ g' := by
  intro g hg
  have hne := cut_nonempty thr t g hg
  have hsub : ∀ x ∈ g, x ∈ t.tipNames := fun x hx =>
    (cut_perm thr t).mem_iff.1 (List.mem_flatten.2 ⟨g, hg, hx⟩)
  cases g with
  | nil => exact absurd rfl hne
  | cons x₀ g =>
    have hx₀ : x₀ ∈ t.tipNames := hsub x₀ (by simp)
    obtain ⟨g', hg', hx₀'⟩ := List.mem_flatten.1 ((cut_perm thr' t).mem_iff.2 hx₀)
    refine ⟨g', hg', fun x hx => ?_⟩
    have h1 : sameBag (cut thr t) x₀ x = true := (sameBag_true_iff _ _ _).2 ⟨_, hg, by simp, hx⟩
    rw [cut_sameBag thr t hu x₀ x hx₀ (hsub x hx)] at h1
    have h2 := pathShort_mono hle t x₀ x h1
    rw [← cut_sameBag thr' t hu x₀ x hx₀ (hsub x hx)] at h2
    obtain ⟨g'', hg'', y₀, y⟩ := (sameBag_true_iff _ _ _).1 h2
    have hn : (cut thr' t).flatten.Nodup := (cut_perm thr' t).nodup_iff.2 hu
    rw [unique_bag hn hg' hg'' hx₀' y₀]
    exact y

/-! ## average -/

theorem map_div_one (M : List (List Rat)) : (M.map fun r => r.map fun x => x / ((0 + 1 : Nat) : Rat)) = M := by
  have : ∀ x : Rat, x / ((0 + 1 : Nat) : Rat) = x := by
    intro x
    have h1 : ((0 + 1 : Nat) : Rat) = 1 := by simp
    rw [h1]; grind
  simp only [this, List.map_id']

theorem avg_one' (m : Metric) (t : T) : avgMatrix m [t] = some (matrix m t) := by
  rw [avgMatrix_cons]
  simp only [List.all_nil, if_true, sumM, List.foldl_nil, List.length_nil]
  rw [map_div_one]

theorem sum_perm {l₁ l₂ : List Rat} (h : l₁.Perm l₂) : l₁.sum = l₂.sum := by
  induction h with
  | nil => rfl
  | cons x _ ih => simp only [List.sum_cons, ih]
  | swap x y l => simp only [List.sum_cons]; grind
  | trans _ _ ih₁ ih₂ => exact ih₁.trans ih₂

/-- a table is determined by its shape and its entries -/
theorem square_ext {n : Nat} {A B : List (List Rat)} (hA : Square n A) (hB : Square n B)
    (h : ∀ i j, (A.getD i []).getD j 0 = (B.getD i []).getD j 0) : A = B := by
  apply List.ext_getElem (hA.length.trans hB.length.symm)
  intro i h1 h2
  have ra : A[i].length = n := hA.row_length _ (List.getElem_mem h1)
  have rb : B[i].length = n := hB.row_length _ (List.getElem_mem h2)
  apply List.ext_getElem (ra.trans rb.symm)
  intro j h3 h4
  have := h i j
  simpa [List.getD_eq_getElem?_getD, List.getElem?_eq_getElem, h1, h2, h3, h4] using this

theorem square_of_lengths {n : Nat} {M : List (List Rat)} (h1 : M.length = n) (h2 : ∀ r ∈ M, r.length = n) :
    Square n M := by
  unfold Square
  rw [List.eq_replicate_iff]
  exact ⟨by simpa using h1, fun x hx => by
    obtain ⟨r, hr, rfl⟩ := List.mem_map.1 hx
    exact h2 r hr⟩

/-! ## the literal name check of `AvgDistanceMatrix` -/

open Go in
/-- `checkNames tips i tips2` succeeds iff `tips` is, from position `i` on, a prefix of `tips2` -/
theorem checkNames_ok_iff : ∀ (tips : List String) (i : Nat) (tips2 : List String),
    (∃ u, checkNames tips i tips2 = .ok u) ↔ tips <+: tips2.drop i
  | [], i, tips2 => by simp [checkNames]
  | a :: r, i, tips2 => by
    unfold checkNames
    cases h : tips2[i]? with
    | none =>
      have : tips2.drop i = [] := by
        rw [List.drop_eq_nil_iff]; exact List.getElem?_eq_none_iff.1 h
      simp [this]
    | some b =>
      have hd : tips2.drop i = b :: tips2.drop (i + 1) := by
        have hi : i < tips2.length := by
          rcases Nat.lt_or_ge i tips2.length with h' | h'
          · exact h'
          · rw [List.getElem?_eq_none_iff.2 h'] at h; cases h
        rw [List.drop_eq_getElem_cons hi]
        rw [List.getElem?_eq_getElem hi] at h
        cases h; rfl
      by_cases hab : a = b
      · subst hab
        simp only [bne_self_eq_false, Bool.false_eq_true, if_false, hd, List.cons_prefix_cons, true_and]
        exact checkNames_ok_iff r (i + 1) tips2
      · have : (a != b) = true := by simpa using hab
        simp [this, hd, List.cons_prefix_cons, hab]

open Go in
/-- it panics iff `tips2` runs out first: what is left of `tips2` is a strict prefix of `tips` -/
theorem checkNames_panic_iff : ∀ (tips : List String) (i : Nat) (tips2 : List String),
    (∃ msg, checkNames tips i tips2 = .panic msg) ↔
      (tips2.drop i <+: tips ∧ (tips2.drop i).length < tips.length)
  | [], i, tips2 => by simp [checkNames]
  | a :: r, i, tips2 => by
    unfold checkNames
    cases h : tips2[i]? with
    | none =>
      have : tips2.drop i = [] := by
        rw [List.drop_eq_nil_iff]; exact List.getElem?_eq_none_iff.1 h
      simp [this]
    | some b =>
      have hd : tips2.drop i = b :: tips2.drop (i + 1) := by
        have hi : i < tips2.length := by
          rcases Nat.lt_or_ge i tips2.length with h' | h'
          · exact h'
          · rw [List.getElem?_eq_none_iff.2 h'] at h; cases h
        rw [List.drop_eq_getElem_cons hi]
        rw [List.getElem?_eq_getElem hi] at h
        cases h; rfl
      by_cases hab : a = b
      · subst hab
        simp only [bne_self_eq_false, Bool.false_eq_true, if_false, hd, List.cons_prefix_cons, true_and,
          List.length_cons, Nat.add_lt_add_iff_right]
        exact checkNames_panic_iff r (i + 1) tips2
      · have : (a != b) = true := by simpa using hab
        have hba : ¬ b = a := fun h => hab h.symm
        simp [this, hd, List.cons_prefix_cons, hba]

end Gotree.C14
