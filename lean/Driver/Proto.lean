/-
  Line protocol shared by all property handlers of the driver.

  A case line is  `<Cxx.op>\t<field>\t<field>…`.  The driver answers with one
  verdict line  `<STATUS>\t<tags>\t<detail>`:
    PASS    model and implementation agree on obs_P and the Spec oracle holds
    TIE     obs_P(model) ≠ obs_P(implementation)          (correspondence broken)
    ORACLE  the property's Spec predicate is false on the implementation's own output
    BAD     the line could not be understood (harness bug)
  `tags` is a comma-separated list used for the evidence (branches of the model
  taken, hypotheses satisfied, non-triviality).
-/
import Gotree.Model.Dump

namespace Gotree.Driver
open Gotree

inductive Status | pass | tie | oracle | bad
  deriving BEq, Repr

def Status.str : Status → String
  | .pass => "PASS" | .tie => "TIE" | .oracle => "ORACLE" | .bad => "BAD"

structure Verdict where
  status : Status
  tags : List String := []
  detail : String := ""

def Verdict.line (v : Verdict) : String :=
  v.status.str ++ "\t" ++ ",".intercalate v.tags ++ "\t" ++ v.detail

def bad (msg : String) : Verdict := ⟨.bad, [], msg⟩

/-- items each *followed* by the separator: `[] ↦ ""`, `[""] ↦ ","`. -/
def splitTerm (sep : String) (s : String) : List String :=
  (s.splitOn sep).dropLast

def joinTerm (sep : String) (l : List String) : String :=
  String.join (l.map (· ++ sep))

def parseStrList (s : String) : Option (List String) :=
  (splitTerm "," s).mapM unescape

def showStrList (l : List String) : String := joinTerm "," (l.map escape)

def parseRatList (s : String) : Option (List Rat) :=
  (splitTerm "," s).mapM parseRat?

def showRatList (l : List Rat) : String := joinTerm "," (l.map showRat)

def parseRatMatrix (s : String) : Option (List (List Rat)) :=
  (splitTerm ";" s).mapM parseRatList

def showRatMatrix (m : List (List Rat)) : String := joinTerm ";" (m.map showRatList)

def parseStrLists (s : String) : Option (List (List String)) :=
  (splitTerm ";" s).mapM parseStrList

def showStrLists (m : List (List String)) : String := joinTerm ";" (m.map showStrList)

def parseNatList (s : String) : Option (List Nat) :=
  (splitTerm "," s).mapM (·.toNat?)

def parseIntList (s : String) : Option (List Int) :=
  (splitTerm "," s).mapM (·.toInt?)

/-- insertion sort on strings (bytewise = code-point order for valid UTF-8, as Go's `<`) -/
def sortStrings (l : List String) : List String := l.mergeSort (fun a b => decide (a ≤ b))

def tagIf (c : Bool) (t : String) : List String := if c then [t] else []

end Gotree.Driver
