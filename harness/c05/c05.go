// Package c05: re-rooting, unrooting and reordering never change the tree itself.
//
// Every case runs the REAL code (tree.Reroot, UnRoot, RerootOutGroup, RerootMidPoint,
// RotateInternalNodes, SortNeighborsByTips) on a tree built through the public API and
// emits: the α dump before, the arguments, the outcome class and the α dump after.
package c05

import (
	"fmt"
	"log"
	"math/rand"
	"os"
	"strconv"
	"strings"

	"verifharness/core"

	"github.com/evolbioinfo/gotree/tree"
)

var devnull *os.File

// quiet runs f with the warnings the library prints on stderr discarded.
func quiet(f func()) (bool, string) {
	if devnull == nil {
		devnull, _ = os.OpenFile(os.DevNull, os.O_WRONLY, 0)
		log.SetOutput(devnull)
	}
	old := os.Stderr
	os.Stderr = devnull
	defer func() { os.Stderr = old }()
	return core.Safe(f)
}

// after classifies what the implementation left behind.
func after(t *tree.Tree, err error, panicked bool, msg string) (string, string) {
	if panicked {
		return "panic:" + core.Escape(msg), ""
	}
	if err != nil {
		return "err", ""
	}
	var n *core.N
	var wf *core.WF
	if p, m := core.Safe(func() { n, wf = core.Alpha(t) }); p {
		return "malformed:" + core.Escape("alpha panics: "+m), ""
	}
	if !wf.OK() {
		return "malformed:" + core.Escape(wf.Problems[0]), ""
	}
	return "ok", n.Dump()
}

func build(n *core.N) *tree.Tree {
	t, err := core.Build(n)
	if err != nil {
		panic(err)
	}
	return t
}

// ---- generator ---------------------------------------------------------------------

func opts(g *core.G) core.TreeOpts {
	o := core.DefaultOpts()
	o.Lengths = 3
	if g.Chance(0.15) {
		o.Lengths = 2 // some absent
	}
	o.Supports = 2
	o.InnerNames = 0.08
	if g.Chance(0.3) {
		o.LenMax = 4 // many ties between paths
	}
	if g.Chance(0.05) {
		o.MinTips, o.MaxTips = 2, 3
	}
	if g.Chance(0.1) {
		o.MaxTips = 25
	}
	if g.Chance(0.08) {
		o.Singles = 0.15 // inner nodes with a single child (two neighbours)
	}
	return o
}

func zeroAll(n *core.N) {
	for _, k := range n.Kids {
		k.E.Len = 0
		zeroAll(k)
	}
}

func genTree(c *core.Ctx) *core.N {
	o := opts(c.G)
	if c.G.Chance(0.1) {
		o.FunnyNames = true // blanks, quotes, slashes, numeric-looking and non-ASCII tip names, look-alikes (t1 / t10)
	}
	n, _ := c.G.Tree(o)
	switch r := c.G.Intn(100); {
	case r < 6:
		n = tipRooted(c, n)
	case r < 12:
		n = tipChildRooted(c, n, true)
	case r < 18:
		n = tipChildRooted(c, n, false)
	}
	return n
}

// tipChildRooted makes a rooted tree whose first (or second) root child is a tip: a new
// bifurcating root above the generated tree and a new tip.
func tipChildRooted(c *core.Ctx, n *core.N, first bool) *core.N {
	o := opts(c.G)
	n.E = core.NewE()
	n.E.Len = c.G.Length(&o)
	if len(n.Kids) > 0 && n.Name == "" {
		n.E.Sup = c.G.Support(&o)
	}
	n.PPos = 0
	if c.G.Chance(0.3) {
		n.PPos = len(n.Kids)
	}
	tip := &core.N{Name: "tx", E: core.NewE()}
	tip.E.Len = c.G.Length(&o)
	if first {
		return &core.N{Kids: []*core.N{tip, n}}
	}
	return &core.N{Kids: []*core.N{n, tip}}
}

// tipRooted hangs the tree below a new root that is itself a tip (a root with a single
// neighbour, as the Newick text "(...)name;" with one child gives).
func tipRooted(c *core.Ctx, n *core.N) *core.N {
	o := opts(c.G)
	n.E = core.NewE()
	n.E.Len = c.G.Length(&o)
	n.PPos = 0
	if c.G.Chance(0.5) {
		n.PPos = len(n.Kids)
	}
	return &core.N{Name: "r0", Kids: []*core.N{n}}
}

// Run generates the cases of C05.
func Run(c *core.Ctx) {
	if c.Arg != "" {
		Replay(c, core.ReadRequests(c.Arg))
		return
	}
	n := c.Scale(800, 25000)
	for i := 0; i < n; i++ {
		switch i % 8 {
		case 0:
			rerootCase(c)
		case 1:
			doUnroot(c, rootedTree(c))
		case 2, 3, 4:
			outgroupCase(c, i)
		case 5:
			midpointCase(c)
		case 6:
			doRotate(c, genTree(c), c.G.R.Int63())
		default:
			doSort(c, genTree(c))
		}
	}
	for i := 0; i < c.Scale(40, 2000); i++ {
		n := genTree(c)
		if i%4 == 3 {
			doRerootFirst(c, n)
			continue
		}
		paths := n.Paths()
		doOrient(c, n, paths[c.G.Intn(len(paths))])
	}
	for i := 0; i < c.Scale(150, 4000); i++ {
		indexCase(c)
	}
	if c.Gotree != "" {
		m := c.Scale(112, 1400)
		for i := 0; i < m; i++ {
			cliCase(c, i)
		}
	}
}

func rootedTree(c *core.Ctx) *core.N {
	o := opts(c.G)
	if c.G.Chance(0.8) {
		o.Rooted = 1
	}
	n, _ := c.G.Tree(o)
	switch r := c.G.Intn(100); {
	case r < 20:
		n = tipChildRooted(c, n, true)
	case r < 35:
		n = tipChildRooted(c, n, false)
	case r < 42:
		n = tipRooted(c, n)
	}
	return n
}

func rerootCase(c *core.Ctx) {
	n := genTree(c)
	var inner, tips [][]int
	for _, p := range n.Paths() {
		x := n.At(p)
		deg := len(x.Kids)
		if len(p) > 0 {
			deg++
		}
		if deg >= 2 {
			inner = append(inner, p)
		} else {
			tips = append(tips, p)
		}
	}
	// trees of at most 10 tips: EVERY inner node in turn as new root (and one tip); larger trees: one
	// random inner node (8 %: a tip)
	if len(n.TipNames()) <= 10 {
		for _, p := range inner {
			doReroot(c, n.Clone(), p)
		}
		if len(tips) > 0 {
			doReroot(c, n.Clone(), tips[c.G.Intn(len(tips))])
		}
		return
	}
	var p []int
	if (c.G.Chance(0.08) || len(inner) == 0) && len(tips) > 0 {
		p = tips[c.G.Intn(len(tips))]
	} else if len(inner) > 0 {
		p = inner[c.G.Intn(len(inner))]
	}
	doReroot(c, n, p)
}

var kinds = []string{"clade", "complement", "nonclade", "absent"}

func outgroupCase(c *core.Ctx, i int) {
	n := genTree(c)
	kind := kinds[(i/8)%4]
	all := n.TipNames()
	var S []string
	// a non-root node
	paths := n.Paths()
	pick := func() *core.N {
		if len(paths) <= 1 {
			return n
		}
		return n.At(paths[1+c.G.Intn(len(paths)-1)])
	}
	if c.G.Chance(0.04) {
		// two inner nodes with the same name: the node index, hence the rooting, is refused
		var inner []*core.N
		for _, p := range paths {
			if x := n.At(p); len(p) > 0 && len(x.Kids) > 0 {
				inner = append(inner, x)
			}
		}
		if len(inner) >= 2 {
			inner[0].Name, inner[len(inner)-1].Name = "same", "same"
		}
	}
	// an inner node labelled like a tip that comes after it in the node order (below it, or in a later
	// subtree): the node index must refuse the tree; an index that kept the first node met would take the inner
	// node for the tip
	var shadow *core.N
	shadowTip := ""
	if c.G.Chance(0.05) {
		var cands [][]int
		for _, p := range paths {
			if x := n.At(p); len(p) > 0 && len(x.Kids) > 0 {
				cands = append(cands, p)
			}
		}
		if len(cands) > 0 {
			x := n.At(cands[c.G.Intn(len(cands))])
			lv := x.Leaves()
			shadow, shadowTip = x, lv[c.G.Intn(len(lv))]
			x.Name = shadowTip
			if x.E != nil {
				x.E.Sup = -1 // a named inner node carries no support in Newick
			}
		}
	}
	remove, strict := c.G.Chance(0.3), c.G.Chance(0.5)
	forced := kind == "nonclade" && c.G.Chance(0.4)
	if forced {
		remove, strict = true, false // everything below the ancestor of the outgroup is removed
	}
	switch kind {
	case "clade":
		x := pick()
		if x.E != nil {
			switch r := c.G.Intn(100); {
			case r < 10:
				x.E.Len = -1 // the separating branch has no length
			case r < 20:
				x.E.Len = 0
			}
		}
		S = x.Leaves()
	case "complement":
		in := map[string]bool{}
		x := pick()
		for j := 0; remove && len(x.Leaves()) < 2 && j < 5; j++ {
			x = pick() // with removal at least two tips must stay for the rooting to be possible
		}
		for _, x := range x.Leaves() {
			in[x] = true
		}
		for _, x := range all {
			if !in[x] {
				S = append(S, x)
			}
		}
	case "nonclade":
		// half of the time a proper part of a clade that meets every child of its top node, the clade
		// lying away from the first tip and leaving at least two tips outside: the ancestor of the
		// outgroup is that node, non-strict rooting (and removal) succeeds
		if S = partOfClade(c, n, forced); S != nil {
			break
		}
		k := 2
		if len(all) > 3 {
			k += c.G.Intn(len(all) - 2)
		}
		perm := c.G.R.Perm(len(all))
		for j := 0; j < k && j < len(all); j++ {
			S = append(S, all[perm[j]])
		}
	default: // a clade / a random set, plus names that are not tips of the tree
		if c.G.Chance(0.7) {
			S = pick().Leaves()
		} else if c.G.Chance(0.5) {
			perm := c.G.R.Perm(len(all))
			for j := 0; j < 2 && j < len(all); j++ {
				S = append(S, all[perm[j]])
			}
		}
		S = append(S, fmt.Sprintf("zz%d", c.G.Intn(5)))
		if c.G.Chance(0.3) {
			S = append(S, "zz9")
		}
		if c.G.Chance(0.3) {
			// the name of an inner node, if any: found in the node index but not a tip
			for _, p := range paths {
				x := n.At(p)
				if len(x.Kids) > 0 && x.Name != "" {
					S = append(S, x.Name)
					break
				}
			}
		}
		if c.G.Chance(0.2) && len(S) > 0 {
			S = append(S, S[0]) // a repeated name
		}
	}
	if shadow != nil {
		// the outgroup names the shadowed tip: the clade of the labelled node, or the tip and one tip elsewhere
		if c.G.Chance(0.5) {
			S = shadow.Leaves()
		} else {
			S = []string{shadowTip}
			in := map[string]bool{}
			for _, l := range shadow.Leaves() {
				in[l] = true
			}
			for _, l := range all {
				if !in[l] {
					S = append(S, l)
					break
				}
			}
		}
	} else if rootedOn := kind != "absent" && c.G.Chance(0.15); rootedOn && len(n.Kids) >= 2 {
		// the tree is ALREADY rooted on the branch of the outgroup, the root lying off the middle of it: the
		// outgroup is one of the two root clades, the two root branches have different lengths
		n, S = rootedOnOutgroup(c, n, kind == "complement")
		if c.G.Chance(0.8) {
			remove = false
		}
	}
	c.G.R.Shuffle(len(S), func(a, b int) { S[a], S[b] = S[b], S[a] })
	doOutgroup(c, n, remove, strict, S, kind)
}

// rootedOnOutgroup hangs the tree on a bifurcating root: the first child of the old top node on one side, the
// rest on the other, the two root branches of different lengths; the outgroup is one of the two root clades.
func rootedOnOutgroup(c *core.Ctx, n *core.N, second bool) (*core.N, []string) {
	o := opts(c.G)
	o.Lengths = 1
	var a, b *core.N
	if len(n.Kids) == 2 {
		a, b = n.Kids[0], n.Kids[1]
	} else {
		a = n.Kids[0]
		b = &core.N{Name: n.Name, Comments: n.Comments, Kids: n.Kids[1:], E: core.NewE()}
		if c.G.Chance(0.5) {
			b.PPos = len(b.Kids)
		}
	}
	la := c.G.Length(&o)
	a.E.Len, b.E.Len = la, la+1+float64(c.G.Intn(4))
	if c.G.Chance(0.5) {
		a.E.Len, b.E.Len = b.E.Len, a.E.Len
	}
	if c.G.Chance(0.1) {
		a.E.Len = 0
	}
	r := &core.N{Kids: []*core.N{a, b}}
	if c.G.Chance(0.5) {
		r.Kids = []*core.N{b, a}
	}
	if second {
		return r, b.Leaves()
	}
	return r, a.Leaves()
}

func partOfClade(c *core.Ctx, n *core.N, always bool) []string {
	if !always && c.G.Chance(0.5) {
		return nil
	}
	all := n.TipNames()
	var cands []*core.N
	for _, p := range n.Paths() {
		if len(p) == 0 {
			continue
		}
		x := n.At(p)
		lv := x.Leaves()
		if len(x.Kids) < 2 || len(lv) < 3 || len(all)-len(lv) < 2 {
			continue
		}
		first := false
		for _, l := range lv {
			if l == all[0] {
				first = true
			}
		}
		if !first {
			cands = append(cands, x)
		}
	}
	if len(cands) == 0 {
		return nil
	}
	x := cands[c.G.Intn(len(cands))]
	var S, extra []string
	for _, k := range x.Kids {
		lv := k.Leaves()
		m := c.G.Intn(len(lv))
		for j, l := range lv {
			if j == m {
				S = append(S, l)
			} else if c.G.Chance(0.5) {
				S = append(S, l)
				extra = append(extra, l)
			}
		}
	}
	if len(S) == len(x.Leaves()) {
		if len(extra) == 0 {
			return nil
		}
		drop := extra[c.G.Intn(len(extra))]
		var S2 []string
		for _, l := range S {
			if l != drop {
				S2 = append(S2, l)
			}
		}
		S = S2
	}
	return S
}

func midpointCase(c *core.Ctx) {
	o := opts(c.G)
	if c.G.Chance(0.85) {
		o.Lengths = 3
	}
	n, _ := c.G.Tree(o)
	switch r := c.G.Intn(100); {
	case r >= 88:
		midpointOnNode(c, n)
	case r < 4:
		zeroAll(n)
	case r < 12:
		// zero lengths everywhere but below the first root child: the longest paths end at an inner
		// node reached towards the root (the region of the repaired defect MidpointZeroLengthFarEnd)
		for _, k := range n.Kids[1:] {
			k.E.Len = 0
			zeroAll(k)
		}
	}
	doMidpoint(c, n)
}

// midpointOnNode arranges the lengths so that the longest path is UNIQUE and its middle falls exactly on an
// inner node x (the cut is 0: one of the two new root branches has length 0), the branches around x carrying
// supports: all lengths present, two tips a (below x) and b (elsewhere) pushed 100 away, the difference of
// their distances to x added to the nearer one.
func midpointOnNode(c *core.Ctx, n *core.N) {
	var fix func(x *core.N)
	fix = func(x *core.N) {
		for _, k := range x.Kids {
			if k.E.Len < 0 {
				k.E.Len = 1
			}
			fix(k)
		}
	}
	fix(n)
	var inner, tips [][]int
	for _, p := range n.Paths() {
		x := n.At(p)
		if len(p) > 0 && len(x.Kids) >= 2 {
			inner = append(inner, p)
		} else if len(x.Kids) == 0 {
			tips = append(tips, p)
		}
	}
	if len(inner) == 0 {
		return
	}
	px := inner[c.G.Intn(len(inner))]
	isPrefix := func(p, q []int) bool {
		if len(p) > len(q) {
			return false
		}
		for i := range p {
			if p[i] != q[i] {
				return false
			}
		}
		return true
	}
	var below, outside [][]int
	for _, p := range tips {
		if isPrefix(px, p) {
			below = append(below, p)
		} else {
			outside = append(outside, p)
		}
	}
	if len(below) == 0 || len(outside) == 0 {
		return
	}
	pa, pb := below[c.G.Intn(len(below))], outside[c.G.Intn(len(outside))]
	sum := func(p []int, from int) float64 {
		v := 0.0
		for i := from; i < len(p); i++ {
			v += n.At(p[:i+1]).E.Len
		}
		return v
	}
	k := 0
	for k < len(px) && k < len(pb) && px[k] == pb[k] {
		k++
	}
	da := sum(pa, len(px))
	db := sum(px, k) + sum(pb, k)
	a, b := n.At(pa), n.At(pb)
	a.E.Len += 100
	b.E.Len += 100
	if da < db {
		a.E.Len += db - da
	} else {
		b.E.Len += da - db
	}
	x := n.At(px)
	if x.Name == "" {
		x.E.Sup = 0.5
	}
	for _, kk := range x.Kids {
		if len(kk.Kids) > 0 && kk.Name == "" {
			kk.E.Sup = 0.75
		}
	}
}

// ---- the operations on the real code -------------------------------------------------

func doReroot(c *core.Ctx, n *core.N, path []int) {
	t := build(n)
	node, _, err := core.NodeAt(t, path)
	if err != nil {
		panic(err)
	}
	p, msg := quiet(func() { err = t.Reroot(node) })
	oc, dump := after(t, err, p, msg)
	c.Emit("C05.reroot", n.Dump(), core.IntList(path), oc, dump)
}

func doUnroot(c *core.Ctx, n *core.N) {
	t := build(n)
	p, msg := quiet(func() { t.UnRoot() })
	oc, dump := after(t, nil, p, msg)
	c.Emit("C05.unroot", n.Dump(), oc, dump)
}

func b01(b bool) string {
	if b {
		return "1"
	}
	return "0"
}

func doOutgroup(c *core.Ctx, n *core.N, remove, strict bool, S []string, kind string) {
	t := build(n)
	var err error
	p, msg := quiet(func() { err = t.RerootOutGroup(remove, strict, S...) })
	oc, dump := after(t, err, p, msg)
	if oc == "err" {
		// a refusal: the last field carries the message of the error and the state the tree was left in
		// ("E" message "|" dump, or "|!" when that state is not a well-formed tree any more)
		_, st := after(t, nil, false, "")
		if st == "" {
			st = "!"
		}
		dump = "E" + core.Escape(err.Error()) + "|" + st
	}
	c.Emit("C05.outgroup", n.Dump(), b01(remove), b01(strict), core.StrList(S), kind, oc, dump)
}

func doMidpoint(c *core.Ctx, n *core.N) {
	t := build(n)
	var err error
	p, msg := quiet(func() { err = t.RerootMidPoint() })
	oc, dump := after(t, err, p, msg)
	c.Emit("C05.midpoint", n.Dump(), oc, dump)
}

// degrees lists, in the order of Tree.Nodes() (pre-order), the number of neighbours.
func degrees(n *core.N, isRoot bool, out *[]int) {
	d := len(n.Kids)
	if !isRoot {
		d++
	}
	*out = append(*out, d)
	for _, k := range n.Kids {
		degrees(k, false, out)
	}
}

func doRotate(c *core.Ctx, n *core.N, seed int64) {
	t := build(n)
	rand.Seed(seed)
	p, msg := quiet(func() { t.RotateInternalNodes() })
	v1 := rand.Int63()
	// replay of the draw script the model prescribes: Intn(i+1) for every neighbour of every node
	rand.Seed(seed)
	var degs []int
	degrees(n, true, &degs)
	var draws []int
	for _, d := range degs {
		for i := 0; i < d; i++ {
			draws = append(draws, rand.Intn(i+1))
		}
	}
	v2 := rand.Int63()
	oc, dump := after(t, nil, p, msg)
	c.Emit("C05.rotate", n.Dump(), strconv.FormatInt(seed, 10), core.IntList(draws), b01(v1 == v2), oc, dump)
}

func doSort(c *core.Ctx, n *core.N) {
	t := build(n)
	p, msg := quiet(func() { t.SortNeighborsByTips() })
	oc, dump := after(t, nil, p, msg)
	c.Emit("C05.sort", n.Dump(), oc, dump)
}

// doOrient: `t.root = n` alone (SetRoot), then ReorderEdges with the list of reversed branches,
// then Parent()/ParentEdge() of every node.  Orientation is read directly from Left()/Right().
func doOrient(c *core.Ctx, n *core.N, path []int) {
	core.NumberEdges(n)
	t := build(n)
	node, _, err := core.NodeAt(t, path)
	if err != nil {
		panic(err)
	}
	var flags1, flags2, parents, parents0 []string
	var rev []*tree.Edge
	p, msg := quiet(func() {
		t.SetRoot(node)
		walkFlags(node, nil, &flags1)
		parents0 = append(parents0, parentClass(node, nil, nil))
		walkParents(node, nil, &parents0)
		t.ReorderEdges(node, nil, &rev)
		walkFlags(node, nil, &flags2)
		parents = append(parents, parentClass(node, nil, nil))
		walkParents(node, nil, &parents)
	})
	if p {
		c.Emit("C05.orient", n.Dump(), core.IntList(path), "panic:"+core.Escape(msg), "", "", "", "")
		return
	}
	var ids []int
	for _, e := range rev {
		ids = append(ids, e.Id())
	}
	c.Emit("C05.orient", n.Dump(), core.IntList(path), strings.Join(flags1, ""), core.IntList(ids),
		strings.Join(flags2, ""), core.StrList(parents), core.StrList(parents0))
}

// walkFlags: pre-order over the neighbours; "1" when Left() is the nearer end.
func walkFlags(cur, prev *tree.Node, out *[]string) {
	for i, nb := range cur.Neigh() {
		if nb == prev {
			continue
		}
		b := cur.Edges()[i]
		if b.Left() == cur && b.Right() == nb {
			*out = append(*out, "1")
		} else {
			*out = append(*out, "0")
		}
		walkFlags(nb, cur, out)
	}
}

// parentClass: what Parent()/ParentEdge() answer, relative to the walk.
func parentClass(cur, prev *tree.Node, up *tree.Edge) string {
	pn, e1 := cur.Parent()
	pe, e2 := cur.ParentEdge()
	if (e1 == nil) != (e2 == nil) {
		return "inconsistent"
	}
	if e1 != nil {
		if strings.Contains(e1.Error(), "more than one") {
			return "several"
		}
		return "none"
	}
	if pn == prev && pe == up {
		return "parent"
	}
	return "child"
}

func walkParents(cur, prev *tree.Node, out *[]string) {
	for i, nb := range cur.Neigh() {
		if nb == prev {
			continue
		}
		*out = append(*out, parentClass(nb, cur, cur.Edges()[i]))
		walkParents(nb, cur, out)
	}
}

func doRerootFirst(c *core.Ctx, n *core.N) {
	t := build(n)
	var err error
	p, msg := quiet(func() { err = t.RerootFirst() })
	oc, dump := after(t, err, p, msg)
	c.Emit("C05.rerootfirst", n.Dump(), oc, dump)
}

// ---- replay ------------------------------------------------------------------------

func parseInts(s string) []int {
	var out []int
	for _, x := range strings.Split(s, ",") {
		if x == "" {
			continue
		}
		v, err := strconv.Atoi(x)
		if err != nil {
			panic(err)
		}
		out = append(out, v)
	}
	return out
}

func parseStrs(s string) []string {
	var out []string
	parts := strings.Split(s, ",")
	for _, x := range parts[:len(parts)-1] {
		u, err := core.Unescape(x)
		if err != nil {
			panic(err)
		}
		out = append(out, u)
	}
	return out
}

// Replay re-executes the requests of a corpus / replay file on the real code (the recorded
// outputs, if any, are ignored).
func Replay(c *core.Ctx, lines []string) {
	for _, l := range lines {
		f := strings.Split(l, "\t")
		if len(f) < 2 {
			continue
		}
		if f[0] == "C05.cli" {
			replayCLI(c, f)
			continue
		}
		if f[0] == "C05.index" && len(f) >= 3 {
			replayIndex(c, f)
			continue
		}
		n, err := core.ParseDump(f[1])
		if err != nil {
			panic(err)
		}
		switch {
		case f[0] == "C05.reroot" && len(f) >= 3:
			doReroot(c, n, parseInts(f[2]))
		case f[0] == "C05.orient" && len(f) >= 3:
			doOrient(c, n, parseInts(f[2]))
		case f[0] == "C05.rerootfirst":
			doRerootFirst(c, n)
		case f[0] == "C05.unroot":
			doUnroot(c, n)
		case f[0] == "C05.outgroup" && len(f) >= 6:
			doOutgroup(c, n, f[2] == "1", f[3] == "1", parseStrs(f[4]), f[5])
		case f[0] == "C05.midpoint":
			doMidpoint(c, n)
		case f[0] == "C05.rotate" && len(f) >= 3:
			seed, err := strconv.ParseInt(f[2], 10, 64)
			if err != nil {
				panic(err)
			}
			doRotate(c, n, seed)
		case f[0] == "C05.sort":
			doSort(c, n)
		}
	}
}
