/-
  C07 — helper lemmas for `Resolve`.
-/
import Gotree.Lemmas.C07

namespace Gotree.C07
open Gotree

/- ## child lists up to order -/

def entry {β : Type} (f : List String → β) (x : EdgeD × T) : Obs β := (f x.2.leaves, x.1, x.2.isLeaf, x.2.d)

theorem obsL_flatMap {β : Type} (f : List String → β) :
    ∀ k : Kids, obsL f k = k.flatMap (fun x => entry f x :: obsT f x.2)
  | [] => by simp [obsL]
  | (e, c) :: r => by simp [obsL, entry, obsL_flatMap f r]

theorem leavesL_flatMap : ∀ k : Kids, leavesL k = k.flatMap (fun x => x.2.leaves)
  | [] => by simp [leavesL]
  | (e, c) :: r => by simp [leavesL, leavesL_flatMap r]

theorem obsL_perm {β : Type} (f : List String → β) {k1 k2 : Kids} (h : k1.Perm k2) : (obsL f k1).Perm (obsL f k2) := by
  rw [obsL_flatMap, obsL_flatMap]; exact h.flatMap_right _

theorem leavesL_perm {k1 k2 : Kids} (h : k1.Perm k2) : (leavesL k1).Perm (leavesL k2) := by
  rw [leavesL_flatMap, leavesL_flatMap]; exact h.flatMap_right _

theorem binaryL_all : ∀ k : Kids, binaryL k = k.all (fun x => x.2.binaryBelow)
  | [] => by simp [binaryL]
  | (e, c) :: r => by simp [binaryL, binaryL_all r]

theorem binaryL_perm {k1 k2 : Kids} (h : k1.Perm k2) : binaryL k1 = binaryL k2 := by
  rw [binaryL_all, binaryL_all]; exact h.all_eq

/- ## sorting by key is a permutation -/

theorem insK_perm {α : Type} (x : Nat × α) : ∀ l : List (Nat × α), (insK x l).Perm (x :: l)
  | [] => by simp [insK]
  | y :: r => by
    unfold insK
    split
    · exact List.Perm.refl _
    · exact ((insK_perm x r).cons y).trans (List.Perm.swap x y r)

theorem sortK_perm {α : Type} : ∀ l : List (Nat × α), (sortK l).Perm l
  | [] => by simp [sortK]
  | x :: r => by
    show (insK x (sortK r)).Perm (x :: r)
    exact (insK_perm x _).trans ((sortK_perm r).cons x)

/- ## `rand.Perm` delivers a list of the right length -/

theorem goPermAux_length : ∀ (ds m r : List Nat), goPermAux ds m = some r → r.length = m.length + ds.length
  | [], m, r, h => by simp [goPermAux] at h; subst h; simp
  | j :: ds, m, r, h => by
    unfold goPermAux at h
    split at h
    · have := goPermAux_length ds _ r h
      simp at this
      simp; omega
    · cases h

theorem goPerm_length (ds r : List Nat) (h : goPerm ds = some r) : r.length = ds.length := by
  have := goPermAux_length ds [] r h
  simpa using this

/- ## what is observed, for Resolve -/

/-- a moved branch is a fresh `Edge` object: its comments and id are not carried over (the
    property does not mention them); everything else is observed -/
abbrev ObsR (β : Type) := β × Rat × Rat × Rat × Bool × NodeD

def obsR {β : Type} (x : Obs β) : ObsR β := (x.1, x.2.1.len, x.2.1.sup, x.2.1.pval, x.2.2.1, x.2.2.2)

/-- an added branch: length 0, no support, no p-value, inner, under an unnamed node -/
def IsNew {β : Type} (x : ObsR β) : Prop :=
  x.2.1 = 0 ∧ x.2.2.1 = NIL ∧ x.2.2.2.1 = NIL ∧ x.2.2.2.2.1 = false ∧ x.2.2.2.2.2 = ⟨"", []⟩

def RL {β : Type} (f : List String → β) (k : Kids) : List (ObsR β) := (obsL f k).map obsR
def RT {β : Type} (f : List String → β) (t : T) : List (ObsR β) := (obsT f t).map obsR

theorem RL_append {β : Type} (f : List String → β) (a b : Kids) : RL f (a ++ b) = RL f a ++ RL f b := by
  simp [RL, obsL_append]

theorem RL_cons {β : Type} (f : List String → β) (x : EdgeD × T) (r : Kids) :
    RL f (x :: r) = obsR (entry f x) :: (RT f x.2 ++ RL f r) := by
  obtain ⟨e, c⟩ := x
  simp [RL, RT, obsL, entry]

theorem RL_nil {β : Type} (f : List String → β) : RL f [] = [] := by simp [RL, obsL]

theorem RL_perm {β : Type} (f : List String → β) {k1 k2 : Kids} (h : k1.Perm k2) : (RL f k1).Perm (RL f k2) :=
  (obsL_perm f h).map _

theorem RT_kids {β : Type} (f : List String → β) (t : T) : RT f t = RL f t.kids := by
  simp [RT, RL, obsT_kids]

/- ## moving a neighbour under a new node -/

theorem moveKid_leaves (x : EdgeD × T) : (moveKid x).2.leaves = x.2.leaves := by
  obtain ⟨e, c⟩ := x; cases c; simp [moveKid, leaves_node]

theorem moveKid_isLeaf (x : EdgeD × T) : (moveKid x).2.isLeaf = x.2.isLeaf := by
  obtain ⟨e, c⟩ := x; cases c; simp [moveKid, T.isLeaf]

theorem moveKid_d (x : EdgeD × T) : (moveKid x).2.d = x.2.d := by
  obtain ⟨e, c⟩ := x; cases c; simp [moveKid]

theorem moveKid_kids (x : EdgeD × T) : (moveKid x).2.kids = x.2.kids := by
  obtain ⟨e, c⟩ := x; cases c; simp [moveKid]

theorem moveKid_binary (x : EdgeD × T) : (moveKid x).2.binaryBelow = x.2.binaryBelow := by
  obtain ⟨e, c⟩ := x; cases c; simp [moveKid, T.binaryBelow]

theorem RL_moveKid {β : Type} (f : List String → β) (x : EdgeD × T) (r : Kids) :
    RL f (moveKid x :: r) = RL f (x :: r) := by
  rw [RL_cons, RL_cons, RT_kids, RT_kids, moveKid_kids]
  congr 1
  simp only [obsR, entry, moveKid_leaves, moveKid_isLeaf, moveKid_d]
  rfl

theorem joinTwo_RL {β : Type} (f : List String → β) (a b : EdgeD × T) (r : Kids) :
    ∃ nw : ObsR β, IsNew nw ∧ RL f (joinTwo a b :: r) = nw :: RL f (a :: b :: r) := by
  refine ⟨obsR (entry f (joinTwo a b)), ⟨rfl, rfl, rfl, rfl, rfl⟩, ?_⟩
  rw [RL_cons]
  congr 1
  rw [RT_kids]
  show RL f [moveKid a, moveKid b] ++ RL f r = RL f (a :: b :: r)
  have : a :: b :: r = [a, b] ++ r := rfl
  rw [this, RL_append]
  congr 1
  rw [RL_moveKid, RL_cons, RL_moveKid, ← RL_cons]

theorem joinTwo_leaves (a b : EdgeD × T) (r : Kids) : leavesL (joinTwo a b :: r) = leavesL (a :: b :: r) := by
  obtain ⟨ea, ca⟩ := a
  obtain ⟨eb, cb⟩ := b
  simp [joinTwo, leavesL, leaves_node, moveKid_leaves]

theorem joinTwo_binary (a b : EdgeD × T) : (joinTwo a b).2.binaryBelow = (a.2.binaryBelow && b.2.binaryBelow) := by
  simp [joinTwo, T.binaryBelow, binaryL, moveKid_binary]

end Gotree.C07

namespace Gotree.C07
open Gotree

/- ## the loop `for len(current.Neigh()) > 3` -/

theorem ladder_step (extra dummy fuel : Nat) (a b : Nat × (EdgeD × T)) (rest : List (Nat × (EdgeD × T))) :
    ladder extra dummy (fuel + 1) (a :: b :: rest) =
      if rest.length + 2 + extra > 3 then ladder extra dummy fuel ((dummy, joinTwo a.2 b.2) :: rest) else a :: b :: rest := by
  rw [ladder]

theorem ladder_id (extra dummy : Nat) : ∀ (fuel : Nat) (l : List (Nat × (EdgeD × T))), l.length + extra ≤ 3 →
    ladder extra dummy fuel l = l
  | 0, l, _ => by cases l <;> simp [ladder]
  | fuel + 1, [], _ => by simp [ladder]
  | fuel + 1, [a], _ => by simp [ladder]
  | fuel + 1, a :: b :: rest, h => by
    rw [ladder_step]
    simp only [List.length_cons] at h
    have : ¬ (rest.length + 2 + extra > 3) := by omega
    rw [if_neg this]

theorem ladder_length (extra dummy : Nat) (hx : extra ≤ 1) : ∀ (fuel : Nat) (r : List (Nat × (EdgeD × T))),
    r.length ≤ fuel → 3 < r.length + extra → (ladder extra dummy fuel r).length + extra = 3
  | 0, r, h1, h2 => by
    have : r.length = 0 := by omega
    omega
  | fuel + 1, [], _, h2 => by simp at h2; omega
  | fuel + 1, [a], _, h2 => by simp at h2; omega
  | fuel + 1, a :: b :: rest, h1, h2 => by
    rw [ladder_step]
    simp only [List.length_cons] at h1 h2
    have hc : rest.length + 2 + extra > 3 := by omega
    rw [if_pos hc]
    by_cases h3 : 3 < rest.length + 1 + extra
    · exact ladder_length extra dummy hx fuel _ (by simp; omega) (by simpa using h3)
    · rw [ladder_id]
      · simp; omega
      · simp; omega

theorem ladder_spec {β : Type} (f : List String → β) (extra dummy : Nat) :
    ∀ (fuel : Nat) (r : List (Nat × (EdgeD × T))),
      ∃ ex : List (ObsR β), (∀ x ∈ ex, IsNew x) ∧
        (RL f ((ladder extra dummy fuel r).map (·.2))).Perm (RL f (r.map (·.2)) ++ ex) ∧
        leavesL ((ladder extra dummy fuel r).map (·.2)) = leavesL (r.map (·.2)) ∧
        (binaryL (r.map (·.2)) = true → binaryL ((ladder extra dummy fuel r).map (·.2)) = true)
  | 0, r => ⟨[], by simp, by cases r <;> simp [ladder], by cases r <;> simp [ladder], by cases r <;> simp [ladder]⟩
  | fuel + 1, [] => ⟨[], by simp, by simp [ladder], by simp [ladder], by simp [ladder]⟩
  | fuel + 1, [a] => ⟨[], by simp, by simp [ladder], by simp [ladder], by simp [ladder]⟩
  | fuel + 1, a :: b :: rest => by
    rw [ladder_step]
    by_cases hc : rest.length + 2 + extra > 3
    · rw [if_pos hc]
      obtain ⟨ex, hnew, hperm, hleaves, hbin⟩ := ladder_spec f extra dummy fuel ((dummy, joinTwo a.2 b.2) :: rest)
      obtain ⟨nw, hnw, hj⟩ := joinTwo_RL f a.2 b.2 (rest.map (·.2))
      refine ⟨nw :: ex, ?_, ?_, ?_, ?_⟩
      · intro x hx
        rcases List.mem_cons.mp hx with rfl | hx'
        · exact hnw
        · exact hnew x hx'
      · refine hperm.trans ?_
        simp only [List.map_cons]
        rw [hj]
        exact (List.perm_middle (a := nw) (l₁ := RL f (a.2 :: b.2 :: rest.map (·.2))) (l₂ := ex)).symm
      · rw [hleaves]
        simp only [List.map_cons]
        exact joinTwo_leaves a.2 b.2 _
      · intro hb
        apply hbin
        simp only [List.map_cons, binaryL, joinTwo_binary] at hb ⊢
        simpa [Bool.and_assoc] using hb
    · rw [if_neg hc]
      exact ⟨[], by simp, by simp, rfl, id⟩

end Gotree.C07

namespace Gotree.C07
open Gotree

/-- `togroup`, whatever the permutation drawn, is a rearrangement of the children -/
theorem togroup_perm (perm : List Nat) (k : Kids) (hl : perm.length = k.length) :
    ((((sortK (perm.zip ((List.range k.length).zip k))).map (·.2)).reverse).map (·.2)).Perm k := by
  have h1 : ((sortK (perm.zip ((List.range k.length).zip k))).map (·.2)).Perm ((perm.zip ((List.range k.length).zip k)).map (·.2)) :=
    (sortK_perm _).map _
  have h2 : (perm.zip ((List.range k.length).zip k)).map Prod.snd = (List.range k.length).zip k := by
    apply List.map_snd_zip
    simp [hl]
  have h3 : ((List.range k.length).zip k).map Prod.snd = k := by
    apply List.map_snd_zip
    simp
  have h4 := (List.reverse_perm ((sortK (perm.zip ((List.range k.length).zip k))).map (·.2))).trans h1
  have h5 := h4.map (·.2)
  rw [show (fun x : Nat × Nat × EdgeD × T => x.2) = Prod.snd from rfl, h2] at h5
  rw [show (fun x : Nat × EdgeD × T => x.2) = Prod.snd from rfl, h3] at h5
  exact h5

/-- everything the theorems need about the treatment of one node -/
theorem resolveNode_spec {β : Type} (f : List String → β) (isRoot : Bool) (d : NodeD) (p : Nat) (k : Kids)
    (ds : List Nat) (t' : T) (ds' : List Nat) (h : resolveNode isRoot d p k ds = some (t', ds')) :
    t'.d = d ∧
    (∃ ex : List (ObsR β), (∀ x ∈ ex, IsNew x) ∧ (RL f t'.kids).Perm (RL f k ++ ex)) ∧
    (leavesL t'.kids).Perm (leavesL k) ∧
    (k = [] ↔ t'.kids = []) ∧
    (binaryL k = true → binaryL t'.kids = true) ∧
    (if k.length + (if isRoot then 0 else 1) ≤ 3 then t'.kids.length = k.length
     else t'.kids.length + (if isRoot then 0 else 1) = 3) := by
  unfold resolveNode at h
  simp only at h
  have hx : (if isRoot = true then 0 else 1) ≤ 1 := by split <;> omega
  generalize (if isRoot = true then 0 else 1) = extra at h hx ⊢
  split at h
  · rename_i hle
    injection h with h; injection h with h _; subst h
    refine ⟨rfl, ⟨[], by simp, by simp⟩, List.Perm.refl _, Iff.rfl, id, ?_⟩
    rw [if_pos hle]; rfl
  · rename_i hgt
    split at h
    · cases h
    · rename_i hds
      split at h
      · cases h
      · rename_i perm hperm
        split at h
        · cases h
        · rename_i nw surv hlad
          injection h with h; injection h with h _; subst h
          have hpl : perm.length = k.length := by
            rw [goPerm_length _ _ hperm]; simp; omega
          obtain ⟨ex, hnew, hp, hlv, hbin⟩ := ladder_spec f extra k.length k.length
            ((sortK (perm.zip ((List.range k.length).zip k))).map (·.2)).reverse
          rw [hlad] at hp hlv hbin
          have htg := togroup_perm perm k hpl
          have hkids : ((sortK surv).map (·.2) ++ [nw.2]).Perm ((nw :: surv).map (·.2)) := by
            simp only [List.map_cons]
            exact (List.perm_append_singleton _ _).trans (((sortK_perm surv).map _).cons _)
          have hlr : (((sortK (perm.zip ((List.range k.length).zip k))).map (·.2)).reverse).length = k.length := by
            simp [(sortK_perm (perm.zip ((List.range k.length).zip k))).length_eq, hpl]
          have hlen := ladder_length extra k.length hx k.length
            ((sortK (perm.zip ((List.range k.length).zip k))).map (·.2)).reverse
            (by rw [hlr]; exact Nat.le_refl _) (by rw [hlr]; omega)
          rw [hlad] at hlen
          refine ⟨rfl, ⟨ex, hnew, ?_⟩, ?_, ?_, ?_, ?_⟩
          · exact (RL_perm f hkids).trans (hp.trans ((RL_perm f htg).append (List.Perm.refl _)))
          · refine (leavesL_perm hkids).trans ?_
            rw [hlv]; exact leavesL_perm htg
          · constructor
            · intro hk; subst hk; simp at hgt; omega
            · intro hk; simp at hk
          · intro hb
            rw [T.kids_node, binaryL_perm hkids]
            apply hbin
            rw [binaryL_perm htg]; exact hb
          · rw [if_neg hgt]
            simp only [T.kids_node, List.length_append, List.length_map, List.length_cons, List.length_nil]
            have := (sortK_perm surv).length_eq
            simp only [List.length_cons] at hlen
            omega

end Gotree.C07

namespace Gotree.C07
open Gotree

theorem resolveT_unfold (isRoot : Bool) (d : NodeD) (p : Nat) (k : Kids) (ds : List Nat) (c' : T) (ds' : List Nat)
    (h : resolveT isRoot (.node d p k) ds = some (c', ds')) :
    ∃ k1 ds1, resolveL k ds = some (k1, ds1) ∧ resolveNode isRoot d p k1 ds1 = some (c', ds') := by
  rw [resolveT] at h
  split at h
  · cases h
  · rename_i k1 ds1 hk
    exact ⟨k1, ds1, hk, h⟩

theorem resolveL_unfold (e : EdgeD) (c : T) (r : Kids) (ds : List Nat) (k' : Kids) (ds' : List Nat)
    (h : resolveL ((e, c) :: r) ds = some (k', ds')) :
    ∃ c1 ds1 r1, resolveT false c ds = some (c1, ds1) ∧ resolveL r ds1 = some (r1, ds') ∧ k' = (e, c1) :: r1 := by
  rw [resolveL] at h
  split at h
  · cases h
  · rename_i c1 ds1 hc
    split at h
    · cases h
    · rename_i r1 ds2 hr
      injection h with h; injection h with h1 h2
      subst h1; subst h2
      exact ⟨c1, ds1, r1, hc, hr, rfl⟩

theorem leaves_eq_kids (t : T) : t.leaves = if t.kids = [] then [t.d.name] else leavesL t.kids := by
  cases t; rw [leaves_node]; rfl

/- Resolve keeps the tips and the node data, and what is observed of the branches afterwards is
   what was observed before plus added branches. -/
mutual
theorem resolveT_spec {β : Type} (f : List String → β) (hf : PermInv f) (isRoot : Bool) :
    ∀ (c : T) (ds : List Nat) (c' : T) (ds' : List Nat), resolveT isRoot c ds = some (c', ds') →
      c'.leaves.Perm c.leaves ∧ c'.isLeaf = c.isLeaf ∧ c'.d = c.d ∧
      ∃ ex : List (ObsR β), (∀ x ∈ ex, IsNew x) ∧ (RT f c').Perm (RT f c ++ ex)
  | .node d p k, ds, c', ds', h => by
    obtain ⟨k1, ds1, hk, hn⟩ := resolveT_unfold isRoot d p k ds c' ds' h
    obtain ⟨hl, hlen, ex1, hnew1, hp1⟩ := resolveL_spec f hf k ds k1 ds1 hk
    obtain ⟨hd, ⟨ex2, hnew2, hp2⟩, hlv, hnil, _, _⟩ := resolveNode_spec f isRoot d p k1 ds1 c' ds' hn
    have hkk : k = [] ↔ k1 = [] := by
      constructor
      · intro h0; subst h0; simpa using hlen
      · intro h0; subst h0; simpa using hlen.symm
    refine ⟨?_, ?_, hd, ex1 ++ ex2, ?_, ?_⟩
    · rw [leaves_eq_kids c', leaves_node, hd]
      by_cases h0 : k = []
      · have h1 := hkk.mp h0
        rw [if_pos h0, if_pos (hnil.mp h1)]
      · have h1 : ¬ k1 = [] := fun hh => h0 (hkk.mpr hh)
        rw [if_neg h0, if_neg (fun hh => h1 (hnil.mpr hh))]
        exact hlv.trans hl
    · show c'.kids.isEmpty = k.isEmpty
      by_cases h0 : k = []
      · have h1 := hnil.mp (hkk.mp h0)
        rw [h0, h1]
      · have h1 : ¬ c'.kids = [] := fun hh => h0 (hkk.mpr (hnil.mpr hh))
        rw [List.isEmpty_eq_false_iff.mpr h0, List.isEmpty_eq_false_iff.mpr h1]
    · intro x hx
      rcases List.mem_append.mp hx with hx | hx
      · exact hnew1 x hx
      · exact hnew2 x hx
    · rw [RT_kids, RT_kids, T.kids_node, ← List.append_assoc]
      exact hp2.trans (hp1.append (List.Perm.refl _))
theorem resolveL_spec {β : Type} (f : List String → β) (hf : PermInv f) :
    ∀ (k : Kids) (ds : List Nat) (k' : Kids) (ds' : List Nat), resolveL k ds = some (k', ds') →
      (leavesL k').Perm (leavesL k) ∧ k'.length = k.length ∧
      ∃ ex : List (ObsR β), (∀ x ∈ ex, IsNew x) ∧ (RL f k').Perm (RL f k ++ ex)
  | [], ds, k', ds', h => by
    rw [resolveL] at h
    injection h with h; injection h with h _; subst h
    exact ⟨List.Perm.refl _, rfl, [], by simp, by simp⟩
  | (e, c) :: r, ds, k', ds', h => by
    obtain ⟨c1, ds1, r1, hc, hr, hk'⟩ := resolveL_unfold e c r ds k' ds' h
    subst hk'
    obtain ⟨hl1, hleaf1, hd1, ex1, hnew1, hp1⟩ := resolveT_spec f hf false c ds c1 ds1 hc
    obtain ⟨hl2, hlen2, ex2, hnew2, hp2⟩ := resolveL_spec f hf r ds1 r1 ds' hr
    refine ⟨?_, by simp [hlen2], ex1 ++ ex2, ?_, ?_⟩
    · simp only [leavesL]; exact hl1.append hl2
    · intro x hx
      rcases List.mem_append.mp hx with hx | hx
      · exact hnew1 x hx
      · exact hnew2 x hx
    · rw [RL_cons, RL_cons]
      have he : obsR (entry f (e, c1)) = obsR (entry f (e, c)) := by
        simp only [entry, hf _ _ hl1, hleaf1, hd1]
      rw [he]
      simp only [List.cons_append]
      refine List.Perm.cons _ ?_
      refine (hp1.append hp2).trans ?_
      simp only [List.append_assoc]
      exact List.Perm.append_left _ (List.perm_append_comm_assoc _ _ _)
end

theorem permInv_unit : PermInv (fun _ : List String => ()) := fun _ _ _ => rfl

/- Resolve makes every node below binary, on a tree without single-child nodes. -/
mutual
theorem resolveT_binary : ∀ (c : T) (ds : List Nat) (c' : T) (ds' : List Nat),
    resolveT false c ds = some (c', ds') → c.noSingleBelow = true → c'.binaryBelow = true
  | .node d p k, ds, c', ds', h, hns => by
    obtain ⟨k1, ds1, hk, hn⟩ := resolveT_unfold false d p k ds c' ds' h
    rw [noSingleBelow_node] at hns
    simp only [Bool.and_eq_true, bne_iff_ne, ne_eq] at hns
    have hb := resolveL_binary k ds k1 ds1 hk hns.2
    obtain ⟨_, hlen, _⟩ := resolveL_spec (fun _ => ()) permInv_unit k ds k1 ds1 hk
    obtain ⟨_, _, _, _, hbin, hcount⟩ := resolveNode_spec (fun _ => ()) false d p k1 ds1 c' ds' hn
    have hb' := hbin hb
    cases c' with
    | node d' p' k' =>
      simp only [T.kids_node, Bool.false_eq_true, if_false] at hcount hb'
      simp only [T.binaryBelow, Bool.and_eq_true, Bool.or_eq_true, beq_iff_eq]
      refine ⟨?_, hb'⟩
      split at hcount <;> omega
theorem resolveL_binary : ∀ (k : Kids) (ds : List Nat) (k' : Kids) (ds' : List Nat),
    resolveL k ds = some (k', ds') → noSingleL k = true → binaryL k' = true
  | [], ds, k', ds', h, _ => by
    rw [resolveL] at h
    injection h with h; injection h with h _; subst h
    simp [binaryL]
  | (e, c) :: r, ds, k', ds', h, hns => by
    obtain ⟨c1, ds1, r1, hc, hr, hk'⟩ := resolveL_unfold e c r ds k' ds' h
    subst hk'
    rw [noSingleL_cons] at hns
    simp only [Bool.and_eq_true] at hns
    simp only [binaryL, Bool.and_eq_true]
    exact ⟨resolveT_binary c ds c1 ds1 hc hns.1, resolveL_binary r ds1 r1 ds' hr hns.2⟩
end

theorem resolve_some (t : T) (ds : List Nat) (t' : T) (h : resolve t ds = some t') :
    resolveT true t ds = some (t', []) := by
  unfold resolve at h
  split at h
  · rename_i t1 heq
    injection h with h; subst h; exact heq
  · cases h

end Gotree.C07

namespace Gotree.C07
open Gotree

/- ## the model of Resolve is defined exactly on the draws of the script -/

/-- `draws` answers the successive `Intn(bound)` calls: same number, each within its bound -/
def okDraws : List Nat → List Nat → Bool
  | [], [] => true
  | b :: bs, d :: ds => decide (d < b) && okDraws bs ds
  | _, _ => false

theorem okDraws_length : ∀ (bs ds : List Nat), okDraws bs ds = true → ds.length = bs.length
  | [], [], _ => rfl
  | [], _ :: _, h => by simp [okDraws] at h
  | _ :: _, [], h => by simp [okDraws] at h
  | b :: bs, d :: ds, h => by
    simp only [okDraws, Bool.and_eq_true] at h
    simp [okDraws_length bs ds h.2]

theorem okDraws_append : ∀ (b1 b2 ds : List Nat), okDraws (b1 ++ b2) ds = true →
    ∃ d1 d2, ds = d1 ++ d2 ∧ okDraws b1 d1 = true ∧ okDraws b2 d2 = true
  | [], b2, ds, h => ⟨[], ds, rfl, rfl, h⟩
  | b :: b1, b2, [], h => by simp [okDraws] at h
  | b :: b1, b2, d :: ds, h => by
    simp only [List.cons_append, okDraws, Bool.and_eq_true] at h
    obtain ⟨d1, d2, he, h1, h2⟩ := okDraws_append b1 b2 ds h.2
    exact ⟨d :: d1, d2, by simp [he], by simp [okDraws, h.1, h1], h2⟩

theorem goPermAux_ok : ∀ (ds m : List Nat), okDraws (List.range' (m.length + 1) ds.length) ds = true →
    ∃ r, goPermAux ds m = some r
  | [], m, _ => ⟨m, rfl⟩
  | j :: ds, m, h => by
    simp only [List.length_cons, List.range'_succ, okDraws, Bool.and_eq_true, decide_eq_true_eq] at h
    unfold goPermAux
    rw [if_pos (by omega)]
    apply goPermAux_ok ds
    simpa using h.2

theorem goPerm_ok (l : Nat) (ds : List Nat) (h : okDraws (List.range' 1 l) ds = true) : ∃ r, goPerm ds = some r := by
  have hl := okDraws_length _ _ h
  simp at hl
  apply goPermAux_ok ds []
  simpa [hl] using h

theorem resolveNode_ok (isRoot : Bool) (d : NodeD) (p : Nat) (k : Kids) (dl rest : List Nat)
    (h : okDraws (if k.length + (if isRoot then 0 else 1) ≤ 3 then [] else List.range' 1 k.length) dl = true) :
    ∃ t', resolveNode isRoot d p k (dl ++ rest) = some (t', rest) := by
  unfold resolveNode
  simp only
  have hx : (if isRoot = true then 0 else 1) ≤ 1 := by split <;> omega
  generalize (if isRoot = true then 0 else 1) = extra at h hx ⊢
  by_cases hle : k.length + extra ≤ 3
  · rw [if_pos hle] at h ⊢
    cases dl with
    | nil => exact ⟨_, rfl⟩
    | cons _ _ => simp [okDraws] at h
  · rw [if_neg hle] at h ⊢
    have hl := okDraws_length _ _ h
    simp at hl
    have h1 : ¬ (dl ++ rest).length < k.length := by simp; omega
    rw [if_neg h1]
    have htake : List.take k.length (dl ++ rest) = dl := by
      rw [← hl]; simp
    have hdrop : List.drop k.length (dl ++ rest) = rest := by
      rw [← hl]; simp
    obtain ⟨perm, hperm⟩ := goPerm_ok k.length dl h
    rw [htake, hperm]
    have hpl : perm.length = k.length := by rw [goPerm_length _ _ hperm, hl]
    have hlr : (((sortK (perm.zip ((List.range k.length).zip k))).map (·.2)).reverse).length = k.length := by
      simp [(sortK_perm (perm.zip ((List.range k.length).zip k))).length_eq, hpl]
    have hlen := ladder_length extra k.length hx k.length
      ((sortK (perm.zip ((List.range k.length).zip k))).map (·.2)).reverse
      (by rw [hlr]; exact Nat.le_refl _) (by rw [hlr]; omega)
    simp only
    cases hlad : ladder extra k.length k.length ((sortK (perm.zip ((List.range k.length).zip k))).map (·.2)).reverse with
    | nil => rw [hlad] at hlen; simp at hlen; omega
    | cons nw surv => simp only [hdrop]; exact ⟨_, rfl⟩

theorem scriptT_node (isRoot : Bool) (d p k) :
    scriptT isRoot (.node d p k) =
      scriptL k ++ (if k.length + (if isRoot then 0 else 1) ≤ 3 then [] else List.range' 1 k.length) := by
  rw [scriptT]

/- Resolve is defined on every draw list that follows the script of the tree, and leaves the rest. -/
mutual
theorem resolveT_ok (isRoot : Bool) : ∀ (c : T) (ds rest : List Nat), okDraws (scriptT isRoot c) ds = true →
    ∃ c', resolveT isRoot c (ds ++ rest) = some (c', rest)
  | .node d p k, ds, rest, h => by
    rw [scriptT_node] at h
    obtain ⟨d1, d2, he, h1, h2⟩ := okDraws_append _ _ ds h
    subst he
    obtain ⟨k1, hk⟩ := resolveL_ok k d1 (d2 ++ rest) h1
    obtain ⟨_, hlen, _⟩ := resolveL_spec (fun _ => ()) permInv_unit k _ k1 _ hk
    rw [← hlen] at h2
    obtain ⟨t', ht⟩ := resolveNode_ok isRoot d p k1 d2 rest h2
    refine ⟨t', ?_⟩
    rw [resolveT, List.append_assoc, hk]
    exact ht
theorem resolveL_ok : ∀ (k : Kids) (ds rest : List Nat), okDraws (scriptL k) ds = true →
    ∃ k', resolveL k (ds ++ rest) = some (k', rest)
  | [], ds, rest, h => by
    cases ds with
    | nil => exact ⟨[], by simp [resolveL]⟩
    | cons _ _ => simp [scriptL, okDraws] at h
  | (e, c) :: r, ds, rest, h => by
    rw [scriptL] at h
    obtain ⟨d1, d2, he, h1, h2⟩ := okDraws_append _ _ ds h
    subst he
    obtain ⟨c1, hc⟩ := resolveT_ok false c d1 (d2 ++ rest) h1
    obtain ⟨r1, hr⟩ := resolveL_ok r d2 rest h2
    refine ⟨(e, c1) :: r1, ?_⟩
    rw [resolveL, List.append_assoc, hc]
    simp only [hr]
end

end Gotree.C07

namespace Gotree.C07
open Gotree

/- ## … and only on those -/

theorem okDraws_app : ∀ (b1 b2 d1 d2 : List Nat), okDraws b1 d1 = true → okDraws b2 d2 = true →
    okDraws (b1 ++ b2) (d1 ++ d2) = true
  | [], b2, [], d2, _, h2 => h2
  | [], _, _ :: _, _, h1, _ => by simp [okDraws] at h1
  | _ :: _, _, [], _, h1, _ => by simp [okDraws] at h1
  | b :: b1, b2, d :: d1, d2, h1, h2 => by
    simp only [okDraws, Bool.and_eq_true] at h1
    simp only [List.cons_append, okDraws, Bool.and_eq_true]
    exact ⟨h1.1, okDraws_app b1 b2 d1 d2 h1.2 h2⟩

theorem goPermAux_some_ok : ∀ (ds m r : List Nat), goPermAux ds m = some r →
    okDraws (List.range' (m.length + 1) ds.length) ds = true
  | [], m, r, _ => by simp [okDraws]
  | j :: ds, m, r, h => by
    unfold goPermAux at h
    split at h
    · rename_i hj
      have := goPermAux_some_ok ds _ r h
      simp only [List.length_cons, List.range'_succ, okDraws, Bool.and_eq_true, decide_eq_true_eq]
      refine ⟨by omega, ?_⟩
      simpa using this
    · cases h

theorem resolveNode_some_ok (isRoot : Bool) (d : NodeD) (p : Nat) (k : Kids) (ds : List Nat) (t' : T) (ds' : List Nat)
    (h : resolveNode isRoot d p k ds = some (t', ds')) :
    ∃ dl, ds = dl ++ ds' ∧
      okDraws (if k.length + (if isRoot then 0 else 1) ≤ 3 then [] else List.range' 1 k.length) dl = true := by
  unfold resolveNode at h
  simp only at h
  generalize (if isRoot = true then 0 else 1) = extra at h ⊢
  split at h
  · rename_i hle
    injection h with h; injection h with _ h2; subst h2
    exact ⟨[], rfl, by rw [if_pos hle]; rfl⟩
  · rename_i hgt
    split at h
    · cases h
    · rename_i hds
      split at h
      · cases h
      · rename_i perm hperm
        split at h
        · cases h
        · injection h with h; injection h with _ h2; subst h2
          refine ⟨ds.take k.length, (List.take_append_drop _ _).symm, ?_⟩
          rw [if_neg hgt]
          have := goPermAux_some_ok (ds.take k.length) [] perm hperm
          have hl : (ds.take k.length).length = k.length := by simp; omega
          rw [hl] at this
          simpa using this

mutual
theorem resolveT_some_ok (isRoot : Bool) : ∀ (c : T) (ds : List Nat) (c' : T) (ds' : List Nat),
    resolveT isRoot c ds = some (c', ds') → ∃ dl, ds = dl ++ ds' ∧ okDraws (scriptT isRoot c) dl = true
  | .node d p k, ds, c', ds', h => by
    obtain ⟨k1, ds1, hk, hn⟩ := resolveT_unfold isRoot d p k ds c' ds' h
    obtain ⟨d1, he1, ho1⟩ := resolveL_some_ok k ds k1 ds1 hk
    obtain ⟨_, hlen, _⟩ := resolveL_spec (fun _ => ()) permInv_unit k ds k1 ds1 hk
    obtain ⟨d2, he2, ho2⟩ := resolveNode_some_ok isRoot d p k1 ds1 c' ds' hn
    rw [hlen] at ho2
    refine ⟨d1 ++ d2, by rw [he1, he2, List.append_assoc], ?_⟩
    rw [scriptT_node]
    exact okDraws_app _ _ _ _ ho1 ho2
theorem resolveL_some_ok : ∀ (k : Kids) (ds : List Nat) (k' : Kids) (ds' : List Nat),
    resolveL k ds = some (k', ds') → ∃ dl, ds = dl ++ ds' ∧ okDraws (scriptL k) dl = true
  | [], ds, k', ds', h => by
    rw [resolveL] at h
    injection h with h; injection h with _ h2; subst h2
    exact ⟨[], rfl, by simp [scriptL, okDraws]⟩
  | (e, c) :: r, ds, k', ds', h => by
    obtain ⟨c1, ds1, r1, hc, hr, _⟩ := resolveL_unfold e c r ds k' ds' h
    obtain ⟨d1, he1, ho1⟩ := resolveT_some_ok false c ds c1 ds1 hc
    obtain ⟨d2, he2, ho2⟩ := resolveL_some_ok r ds1 r1 ds' hr
    refine ⟨d1 ++ d2, by rw [he1, he2, List.append_assoc], ?_⟩
    rw [scriptL]
    exact okDraws_app _ _ _ _ ho1 ho2
end

end Gotree.C07
