/-
  C05 — what the model of UpdateTipIndex / UpdateBitSet computes: a tip is numbered by its rank among
  the tip names, a branch's bitset holds the numbers of the tips below it.
-/
import Gotree.Model.C05Index
import Gotree.Spec.C05

namespace Gotree.C05
open Gotree

/-! ## fillRightBitSet -/

mutual
theorem fillT_eq (tid : String → Nat) : ∀ t : T,
    (fillT tid t).1 = t.leaves.map tid ∧ (fillT tid t).2 = t.splitsBelow.map (fun s => s.below.map tid)
  | .node d p [] => by simp [fillT, T.leaves, T.splitsBelow, splitsL]
  | .node d p (k :: ks) => by
    have h := fillL_eq tid (k :: ks)
    simp only [fillT, T.leaves, T.splitsBelow]
    exact h
theorem fillL_eq (tid : String → Nat) : ∀ k : Kids,
    (fillL tid k).1 = (leavesL k).map tid ∧ (fillL tid k).2 = (splitsL k).map (fun s => s.below.map tid)
  | [] => by simp [fillL, leavesL, splitsL]
  | (e, t) :: r => by
    have a := fillT_eq tid t
    have b := fillL_eq tid r
    simp [fillL, leavesL, splitsL, a.1, a.2, b.1, b.2]
end

theorem bitsets_eq (tid : String → Nat) (t : T) :
    bitsets tid t = t.splits.map (fun s => s.below.map tid) := (fillL_eq tid t.kids).2

/- the leaves below a branch are leaves of the tree -/
mutual
theorem below_sub : ∀ (t : T), ∀ s ∈ t.splitsBelow, ∀ x ∈ s.below, x ∈ t.leaves
  | .node d p [], s, hs => by simp [T.splitsBelow, splitsL] at hs
  | .node d p (k :: ks), s, hs => by
    simp only [T.splitsBelow] at hs
    simp only [T.leaves]
    exact below_subL (k :: ks) s hs
theorem below_subL : ∀ (k : Kids), ∀ s ∈ splitsL k, ∀ x ∈ s.below, x ∈ leavesL k
  | [], s, hs => by simp [splitsL] at hs
  | (e, t) :: r, s, hs => by
    simp only [splitsL, List.mem_cons, List.mem_append] at hs
    intro x hx
    simp only [leavesL, List.mem_append]
    rcases hs with rfl | hs | hs
    · exact Or.inl hx
    · exact Or.inl (below_sub t s hs x hx)
    · exact Or.inr (below_subL r s hs x hx)
end

theorem below_sub_tipNames (t : T) : ∀ s ∈ t.splits, ∀ x ∈ s.below, x ∈ t.tipNames := by
  intro s hs x hx
  unfold T.tipNames
  exact List.mem_append_right _ (below_subL t.kids s hs x hx)

/-! ## UpdateTipIndex -/

theorem str_le_of_lt {a b : String} (h : a < b) : a ≤ b := by
  rcases String.le_total a b with h' | h'
  · exact h'
  · exact absurd h (String.not_lt.2 h')

theorem str_lt_of_le_ne {a b : String} (h : a ≤ b) (hne : a ≠ b) : a < b := by
  apply Classical.byContradiction
  intro hn
  exact hne (String.le_antisymm h (String.not_lt.1 hn))

theorem insName_perm (x : String) : ∀ l : List String, (insName x l).Perm (x :: l)
  | [] => List.Perm.refl _
  | y :: r => by
    unfold insName
    split
    · exact List.Perm.refl _
    · exact ((insName_perm x r).cons y).trans (List.Perm.swap x y r)

theorem sortNames_perm : ∀ l : List String, (sortNames l).Perm l
  | [] => List.Perm.refl _
  | x :: r => by
    show (insName x (sortNames r)).Perm (x :: r)
    exact (insName_perm x _).trans ((sortNames_perm r).cons x)

theorem insName_sorted (x : String) : ∀ l : List String, l.Pairwise (· ≤ ·) → (insName x l).Pairwise (· ≤ ·)
  | [], _ => by simp [insName]
  | y :: r, h => by
    have hy := (List.pairwise_cons.1 h).1
    have hr := (List.pairwise_cons.1 h).2
    unfold insName
    split
    · rename_i hxy
      refine List.pairwise_cons.2 ⟨?_, h⟩
      intro z hz
      rcases List.mem_cons.1 hz with rfl | hz
      · exact str_le_of_lt hxy
      · exact String.le_trans (str_le_of_lt hxy) (hy z hz)
    · rename_i hxy
      refine List.pairwise_cons.2 ⟨?_, insName_sorted x r hr⟩
      intro z hz
      rcases List.mem_cons.1 ((insName_perm x r).mem_iff.1 hz) with rfl | hz
      · exact String.not_lt.1 hxy
      · exact hy z hz

theorem sortNames_sorted : ∀ l : List String, (sortNames l).Pairwise (· ≤ ·)
  | [] => List.Pairwise.nil
  | x :: r => insName_sorted x _ (sortNames_sorted r)

/-- in a sorted list the position of an entry is the number of entries strictly before it -/
theorem idx_rank (x : String) : ∀ L : List String, L.Pairwise (· ≤ ·) → x ∈ L →
    idxOfName x L = (L.filter (· < x)).length
  | [], _, hx => by cases hx
  | y :: r, hs, hx => by
    have hy := (List.pairwise_cons.1 hs).1
    have hr := (List.pairwise_cons.1 hs).2
    by_cases hyx : y = x
    · subst hyx
      have h0 : (r.filter (· < y)) = [] := by
        apply List.filter_eq_nil_iff.2
        intro z hz
        simpa using String.not_lt.2 (hy z hz)
      have hirr : ¬ y < y := String.not_lt.2 (String.le_refl y)
      simp [idxOfName, hirr, h0]
    · have hxr : x ∈ r := by
        rcases List.mem_cons.1 hx with h | h
        · exact absurd h.symm hyx
        · exact h
      have hlt : y < x := str_lt_of_le_ne (hy x hxr) hyx
      have ih := idx_rank x r hr hxr
      simp [idxOfName, hyx, hlt, ih]

/-- `UpdateTipIndex` numbers a tip by its rank among the tip names -/
theorem tipid_rank (names : List String) (x : String) (hx : x ∈ names) :
    idxOfName x (sortNames names) = tipRank names x := by
  rw [idx_rank x _ (sortNames_sorted names) ((sortNames_perm names).mem_iff.2 hx)]
  exact ((sortNames_perm names).filter _).length_eq

theorem sameBits_refl (a : List Nat) : sameBits a a = true := by
  simp [sameBits]

theorem mem_zip_map {α β : Type} (g : α → β) : ∀ (l : List α) (x : α × β), x ∈ l.zip (l.map g) → x.2 = g x.1
  | [], x, hx => by simp at hx
  | a :: l, x, hx => by
    simp only [List.map_cons, List.zip_cons_cons, List.mem_cons] at hx
    rcases hx with rfl | hx
    · rfl
    · exact mem_zip_map g l x hx

/-- the Spec predicate holds of the modelled indexes of any tree -/
theorem indexOK_indexOf (t : T) :
    indexOK t (indexOf t).nb ((indexOf t).ids.map Int.ofNat) ((indexOf t).bits.map some) [] = true := by
  have hlen : (sortNames t.tipNames).length = t.tipNames.length := (sortNames_perm _).length_eq
  have hids : t.tipNames.map (fun x => idxOfName x (sortNames t.tipNames)) = t.tipNames.map (tipRank t.tipNames) :=
    List.map_congr_left (fun x hx => tipid_rank _ x hx)
  have hbits : bitsets (fun x => idxOfName x (sortNames t.tipNames)) t = t.splits.map (fun s => s.below.map (tipRank t.tipNames)) := by
    rw [bitsets_eq]
    apply List.map_congr_left
    intro s hs
    apply List.map_congr_left
    intro x hx
    exact tipid_rank _ x (below_sub_tipNames t s hs x hx)
  simp only [indexOK, indexOf, hlen, hids, hbits, List.map_map, List.length_map, List.isEmpty_nil,
    Bool.and_true, Bool.and_eq_true, beq_iff_eq, List.all_eq_true]
  refine ⟨⟨⟨trivial, ?_⟩, trivial⟩, ?_⟩
  · rfl
  · intro x hx
    have h := mem_zip_map _ _ x hx
    rw [h]
    simp [sameBits_refl]

end Gotree.C05
