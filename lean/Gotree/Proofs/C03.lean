/-
  C03 — property theorems about the model functions the driver runs
  (`Gotree.C03.nodes / tips / edges / internalEdges / tipEdges`, the transliterations of
  `nodesRecur / tipsRecur / edgesRecur / internalEdgesRecur / tipEdgesRecur` of tree/tree.go)
  and about the Spec's plain walk (`allPaths`, `subtreeAt`, `isTipAt`) the oracle uses.
  All statements quantify over every tree value `t : T` (any size, any degrees, rooted or
  not, single-child nodes and degenerate roots included).
-/
import Gotree.Lemmas.C03
import Gotree.Lemmas.C03Ops
import Gotree.Lemmas.C03More
import Gotree.Lemmas.C03Text
import Gotree.Model.C01

namespace Gotree.C03
open Gotree

/-! ### the enumerations list exactly what the plain walk meets -/

/-- `Nodes()` lists the nodes of the plain walk, in pre-order -/
theorem nodes_paths (t : T) : (nodes t).map (·.path) = allPaths t :=
  nodesRecur_paths t []

/-- `Edges()` lists one branch per non-root node (the branch above it), in the same order -/
theorem edges_paths (t : T) : (edges t).map (·.path) = (allPaths t).tail := by
  cases t with
  | node d pp k => simp [edges, allPaths, allPathsFrom, edgesLoop_paths k [] 0]

/-- ★ branches = nodes − 1 -/
theorem edges_nodes (t : T) : (edges t).length + 1 = (nodes t).length := by
  have h1 := congrArg List.length (edges_paths t)
  have h2 := congrArg List.length (nodes_paths t)
  simp only [List.length_map, List.length_tail] at h1 h2
  cases t with
  | node d pp k =>
    have : (allPaths (.node d pp k)).length ≥ 1 := by simp [allPaths, allPathsFrom]
    omega

/-- no node is listed twice by `Nodes()`, no branch twice by `Edges()` -/
theorem nodes_nodup (t : T) : ((nodes t).map (·.path)).Nodup ∧ ((edges t).map (·.path)).Nodup := by
  rw [nodes_paths, edges_paths]
  have h : (allPaths t).Nodup := allPathsFrom_nodup t []
  exact ⟨h, h.sublist (List.tail_sublist _)⟩

/-- each listed node is the node of the tree at its path, with its data -/
theorem nodes_valid (t : T) : ∀ r ∈ nodes t, ∃ s, subtreeAt t r.path = some s ∧ s.d = r.d :=
  nodesRecur_valid t t [] rfl

/-- ★ each listed branch is a (parent, child) link of the tree VALUE: it sits in the kids of the node at
    the parent path, carries that link's data, and its lower end is the child's subtree.  This is
    validity of the listed paths; it says nothing about `Left()/Right()` of the heap: the
    transliteration assumes that a branch with `left == n` leads to a kid (Model/C03.lean, header).
    Orientation of the real heap is judged per step by `graphProblems` on the raw pointer graph. -/
theorem edges_oriented (t : T) : ∀ r ∈ edges t, Oriented t r := by
  cases t with
  | node d pp k => exact edgesLoop_oriented (.node d pp k) k [] d pp [] rfl

/-! ### tips, internal and external branches -/

/-- ★ `Tips()` = the listed nodes having exactly one neighbour (a non-root node without child,
    or a root with exactly one child), in the same order -/
theorem tips_are_leaves (t : T) : tips t = (nodes t).filter (fun r => isTipAt t r.path) :=
  tipsRecur_filter t t [] rfl

/-- `TipEdges()` = the listed branches whose lower end is a tip -/
theorem tipEdges_are_tip_branches (t : T) :
    tipEdges t = (edges t).filter (fun r => isTipAt t r.path) := by
  cases t with
  | node d pp k => exact tipEdgesLoop_filter (.node d pp k) k [] d pp [] rfl

/-- `InternalEdges()` = the listed branches whose lower end is not a tip -/
theorem internalEdges_are_inner_branches (t : T) :
    internalEdges t = (edges t).filter (fun r => !isTipAt t r.path) := by
  cases t with
  | node d pp k => exact internalLoop_filter (.node d pp k) k [] d pp [] rfl

/-- ★ all branches = internal + external ones (as multisets of branch identities) -/
theorem edges_partition (t : T) : (edges t).Perm (internalEdges t ++ tipEdges t) := by
  rw [internalEdges_are_inner_branches, tipEdges_are_tip_branches]
  have h := List.filter_append_perm (fun r : EdgeRef => !isTipAt t r.path) (edges t)
  simpa using h.symm

/-- the counts of the statement -/
theorem edges_count (t : T) : (edges t).length = (internalEdges t).length + (tipEdges t).length := by
  simpa using (edges_partition t).length_eq

/-! ### the oracle the driver evaluates holds of the model's own enumerations -/

/-- a listed branch as the public API shows it when the heap is the tree: `Left()` is the parent -/
def obsOfEdge (r : EdgeRef) : ObsEdge := ⟨some r.path, some r.path.dropLast, some r.path⟩

/-- The Spec predicate `enumProblems` (what the driver evaluates on the implementation's five
    enumerations after every step) finds nothing wrong with the model's enumerations, for every tree:
    the oracle asks nothing the transliterated code does not deliver. -/
theorem enum_oracle_holds (t : T) :
    enumProblems t ((nodes t).map (fun r => some r.path)) ((tips t).map (fun r => some r.path))
      ((edges t).map obsOfEdge) ((internalEdges t).map obsOfEdge) ((tipEdges t).map obsOfEdge) = [] := by
  have hn : ((nodes t).map (fun r => some r.path)).filterMap id = allPaths t := by
    rw [← nodes_paths]; simp [List.filterMap_map]
  have hid : ∀ l : List EdgeRef, (l.map obsOfEdge).filterMap (·.id) = l.map (·.path) := by
    intro l; induction l <;> simp_all [obsOfEdge]
  have ht : ((tips t).map (fun r => some r.path)).filterMap id = (allPaths t).filter (isTipAt t) := by
    rw [tips_are_leaves, ← nodes_paths]; simp [List.filterMap_map, List.filter_map, Function.comp_def]
  have c3 : sameBag (allPaths t) (allPaths t) = true := sameBag_of_perm (List.Perm.refl _)
  have c4 : sameBag ((edges t).map (·.path)) (allPaths t).tail = true := by
    rw [edges_paths]; exact sameBag_of_perm (List.Perm.refl _)
  have c5 : (((edges t).map obsOfEdge).length + 1 == ((nodes t).map (fun r => some r.path)).length) = true := by
    simpa using edges_nodes t
  have c6 : sameBag ((edges t).map (·.path)) ((internalEdges t).map (·.path) ++ (tipEdges t).map (·.path)) = true := by
    rw [← List.map_append]
    exact sameBag_of_perm ((edges_partition t).map _)
  have c7 : (((edges t).map obsOfEdge ++ (internalEdges t).map obsOfEdge ++ (tipEdges t).map obsOfEdge).all
      (fun e => e.right == e.id && e.left == e.id.map List.dropLast)) = true := by
    simp [obsOfEdge]
  have c8 : sameBag ((allPaths t).filter (isTipAt t)) ((allPaths t).filter (isTipAt t)) = true :=
    sameBag_of_perm (List.Perm.refl _)
  have c9 : sameBag ((tipEdges t).map (·.path)) ((allPaths t).tail.filter (isTipAt t)) = true := by
    rw [tipEdges_are_tip_branches, ← edges_paths]
    simp only [List.filter_map, Function.comp_def]
    exact sameBag_of_perm (List.Perm.refl _)
  have c1 : (((nodes t).map (fun r => some r.path)).any (·.isNone) || ((tips t).map (fun r => some r.path)).any (·.isNone)) = false := by
    simp
  have c2 : (((edges t).map obsOfEdge ++ (internalEdges t).map obsOfEdge ++ (tipEdges t).map obsOfEdge).any (·.id.isNone)) = false := by
    simp [obsOfEdge]
  unfold enumProblems
  simp only [hn, hid, ht, c1, c2, c3, c4, c5, c6, c7, c8, c9, if_true, Bool.false_eq_true, if_false, List.append_nil]

/-! ### the transliterations equal Core's spec-level definitions -/

theorem nodes_eq_core (t : T) : (nodes t).map (·.d.name) = t.nodeNames := nodesRecur_names t []

theorem tips_eq_core (t : T) : (tips t).map (·.d.name) = t.tipNames := by
  cases t with
  | node d pp k =>
    simp [tips, tipsRecur, T.tipNames, T.name, tipsLoop_names k [] 0]
    split <;> simp_all

theorem edges_eq_core (t : T) : (edges t).map (·.e) = t.edges := by
  cases t with
  | node d pp k => simp [edges, T.edges, T.splits, edgesLoop_data k [] 0]

theorem tipEdges_eq_core (t : T) : (tipEdges t).map (·.e) = t.tipEdges := by
  cases t with
  | node d pp k => simp [tipEdges, T.tipEdges, T.splits, tipEdgesLoop_data k [] 0]

theorem internalEdges_eq_core (t : T) : (internalEdges t).map (·.e) = t.internalEdges := by
  cases t with
  | node d pp k => simp [internalEdges, T.internalEdges, T.splits, internalLoop_data k [] 0]

/-! ### the repaired defect F8, on a variant of the model -/

/-- with the pre-eb1b1d0 recursion (`internalEdgesRecur` continuing through `edgesRecur`)
    `InternalEdges` lists tip branches too and the partition fails (18-node witness: 15 ≠ 7) -/
theorem internalEdges_pinned_fails :
    ¬ (edges witness18).Perm (internalEdgesPinned witness18 ++ tipEdges witness18) := by
  intro h
  have := h.length_eq
  revert this
  decide

/-! ### the repaired defect F39 (331c4ae), with the pinned writer variant kept by C01 -/

/-- what `UnRoot` leaves of a rooted two-tip tree: a root that is a tip -/
def witnessRootTip : T := T.node ⟨"t0", []⟩ 0 [(EdgeD.blank, T.leaf "t1")]

/-- before 331c4ae the writer printed no parentheses for a root with a single neighbour
    (`t1t0;`): the text, re-read, is not the tree; the repaired writer's text (`(t1)t0;`) is -/
theorem rootTipNewick_pinned_fails :
    textProblems witnessRootTip (String.ofList (Gotree.Newick.writePinned Gotree.Newick.goCodec witnessRootTip)) ≠ [] ∧
    textProblems witnessRootTip (Gotree.Newick.writeStr Gotree.Newick.goCodec witnessRootTip) = [] := by
  decide +kernel

/-! ### the pointer-graph oracle (`graphProblems`, `graphIsTree`) on concrete graphs

  No general theorem links `graphProblems` to `T` (it is an oracle evaluated on the real heap after
  every step); these examples only show that it accepts the graph of a tree, reads it as that tree,
  and names the defect of graphs that are not trees oriented away from node 0. -/

/-- `((a,b),c);` : node 0 the root, 1 the inner node, 2 3 4 the tips; branches 0:0–1, 1:1–2, 2:1–3, 3:0–4 -/
def exGraph : Graph :=
  [some [⟨1, 0, 0, 1⟩, ⟨4, 3, 0, 4⟩], some [⟨0, 0, 0, 1⟩, ⟨2, 1, 1, 2⟩, ⟨3, 2, 1, 3⟩],
   some [⟨1, 1, 1, 2⟩], some [⟨1, 2, 1, 3⟩], some [⟨0, 3, 0, 4⟩]]

def exGraphTree : T := T.node ⟨"", []⟩ 0 [inn [lf "a", lf "b"], lf "c"]

example : graphProblems exGraph = [] ∧ graphIsTree exGraph exGraphTree = true := by decide

/-- branch 1 turned towards the root (what a missing `ReorderEdges` leaves) -/
example : graphProblems (exGraph.set 2 (some [⟨1, 1, 2, 1⟩]) |>.set 1 (some [⟨0, 0, 0, 1⟩, ⟨2, 1, 2, 1⟩, ⟨3, 2, 1, 3⟩])) =
    ["a branch does not point away from the root"] := by decide

/-- node 2 forgot its neighbour (one `delNeighbor` too many): asymmetric adjacency -/
example : "adjacency is not symmetric (no back-pointer with the same branch)" ∈
    graphProblems (exGraph.set 2 (some [])) := by decide

/-! ### the Newick text describes the tree -/

/-- ★ `write_describes`: for every tree whose names, comments and numbers can be told apart in a
    Newick text (`textWF`: no metacharacter in a name, no `]` in a comment, branch comments only
    after a length, numbers printed without metacharacter or `/` and denoting their value), the
    text that the writer model of C01 (transliteration of `Node.Newick` / `Tree.Newick`; the driver
    ties it byte for byte to the implementation's text on every step) writes, re-read by the
    reference reader of the oracle, is that tree: same shape and child order, names or supports,
    comments, lengths.  Any codec `C` (number printing) that satisfies `textWF` is allowed. -/
theorem write_describes (C : Gotree.Newick.Codec) (t : T) (h : textWF C t = true) :
    textProblems t (Gotree.Newick.writeStr C t) = [] :=
  textProblems_write C t h

/-- the region `write_describes` excludes is not empty (open finding F85, class
    NewickUnquotedMetacharName): the writer prints a name containing a metacharacter unquoted, and
    the text `(x,y:1,b:1);` of the 2-tip tree below, re-read, has three tips -/
def witnessMetaName : T :=
  T.node ⟨"", []⟩ 0 [(⟨1, NIL, NIL, [], 0⟩, T.leaf "x,y"), (⟨1, NIL, NIL, [], 1⟩, T.leaf "b")]

theorem unquoted_metachar_name_fails :
    textWF Gotree.Newick.goCodec witnessMetaName = false ∧ hasMetaName witnessMetaName = true ∧
    textProblems witnessMetaName (Gotree.Newick.writeStr Gotree.Newick.goCodec witnessMetaName) ≠ [] := by
  decide +kernel

/-! ### CollapseClade (model `collapseClade` over `lcaT` = LeastCommonAncestorRecur, tied exactly) -/

/-- a successful `CollapseClade` replaces exactly ONE node, which is not the root, by a tip carrying the
    given name (on the same branch, at the same position among its parent's children) and touches nothing
    else; which node: the one `lcaT` (LeastCommonAncestorRecur) finds for the given names that exist -/
theorem collapseClade_ok (strict : Bool) (name : String) (tips : List String) (t t' : T)
    (h : collapseClade strict name tips t = .ok t') :
    ∃ p r, p ≠ [] ∧ lcaT ((tips.filter fun x => x != "" && t.nodeNames.contains x).eraseDups) false [] t = .ok r ∧
      r.found = some p ∧ (strict = true → r.diff = 0) ∧ t' = modAt (fun _ _ => T.leaf name) true p t := by
  unfold collapseClade at h
  split at h
  · cases h
  · simp only at h
    split at h
    · cases h
    · split at h
      · cases h
      · rename_i r hr
        split at h
        · cases h
        · rename_i p hp
          split at h
          · cases h
          · split at h
            · cases h
            · rename_i h1 h2
              simp only [Gotree.C05.Res.ok.injEq] at h
              refine ⟨p, r, ?_, hr, hp, ?_, h.symm⟩
              · intro hpe; subst hpe; simp at h2
              · intro hs; subst hs
                simpa using h1

/-! ### Annotate (model `annotate`: the index built once, `lcaT` on the current names; tied exactly) -/

/-- `Annotate(lines, comment = true)`: a successful call leaves the tip names (as a multiset) and the absence
    of single-child nodes as they were — it only appends comments, at the nodes found by name or by `lcaT`.
    (In renaming mode tips may be renamed and the tip index is left stale; the driver then compares the
    model's tree exactly and treats the index as out of date, `indexInSync`.) -/
theorem annotate_comment_inv (lines : List (List String)) (t t' : T) (h : annotate true lines t = .ok t') :
    t'.tipNames.Perm t.tipNames ∧ t'.noSingle = t.noSingle := by
  unfold annotate at h
  split at h
  · cases h
  · exact annotateLoop_comment_inv t lines t t' h

/-! ### AddBipartition (model `addBipAt`, tied exactly on every generated case) -/

/-- the refusal clause of `AddBipartition`: fewer than two branches, or all but at most one of the
    node's branches ("the bipartition already exists") -/
theorem addBip_refuses (isRoot : Bool) (S : List Nat) (len sup : Rat) (t : T)
    (h : S.length ≤ 1 ∨ t.kids.length + (if isRoot then 0 else 1) ≤ S.length + 1) :
    (match addBipNode isRoot S len sup t with | .err => true | _ => false) = true := by
  obtain ⟨d, p, k⟩ := t
  have hl : (if isRoot then k.map some else Gotree.C05.insertAt (k.map some) p (none : Option (EdgeD × T))).length =
      k.length + (if isRoot then 0 else 1) := by
    cases isRoot <;> simp [insertAt_length]
  simp only [T.kids_node] at h
  simp only [addBipNode]
  rw [if_pos]
  simp only [hl, decide_eq_true_eq, Bool.or_eq_true]
  rcases h with h | h
  · exact Or.inl h
  · exact Or.inr h


/-- ★ what `AddBipartition` computes at its node: the children are split into those that stay (`A`) and
    those grouped below the new node (`B`, re-attached by fresh branches that keep length, support and
    p-value, each with its parent as last neighbour); either the new node hangs below n as its last child
    (`inner`), or — the parent's branch being among the selected ones — n hangs below the new node as ITS last
    child (`outer`).  Nothing is lost and nothing is duplicated: `A ++ B` is a permutation of the children. -/
theorem addBip_node_spec (isRoot : Bool) (S : List Nat) (len sup : Rat) (d : NodeD) (p : Nat) (k : Kids)
    (hnd : S.Nodup) :
    match addBipNode isRoot S len sup (.node d p k) with
    | .err => True
    | .inner n' => ∃ (A B : Kids) (pp m : Nat), (A ++ B).Perm k ∧
        n' = .node d pp (A ++ [(⟨len, sup, NIL, [], -1⟩,
          .node ⟨"", []⟩ m (B.map fun ec => (freshE ec.1, reparent ec.2)))])
    | .outer n2 => ∃ (A B : Kids) (pp : Nat), (A ++ B).Perm k ∧
        n2 = .node ⟨"", []⟩ pp ((B.map fun ec => (freshE ec.1, reparent ec.2)) ++
          [(⟨len, sup, NIL, [], -1⟩, .node d A.length A)]) := by
  have key : ∀ sel, S.mapM (fun i => (if isRoot then k.map some else Gotree.C05.insertAt (k.map some) p (none : Option (EdgeD × T)))[i]?) = some sel →
      ((dropSlots S 0 (if isRoot then k.map some else Gotree.C05.insertAt (k.map some) p (none : Option (EdgeD × T)))).filterMap id ++
        sel.filterMap id).Perm k := by
    intro sel hsel
    have hk := (pick_drop_perm S _ sel hnd hsel).filterMap id
    rwa [ng_filterMap, List.filterMap_append] at hk
  cases hres : addBipNode isRoot S len sup (.node d p k) with
  | err => trivial
  | inner n' =>
    simp only
    unfold addBipNode at hres
    cases isRoot <;> simp only [Bool.false_eq_true, if_false, if_true] at hres key <;>
    · split at hres
      · cases hres
      · split at hres
        · cases hres
        · rename_i sel hsel
          split at hres
          · cases hres
          · injection hres with hres
            subst hres
            exact ⟨_, _, _, _, key sel hsel, rfl⟩
  | outer n2 =>
    simp only
    unfold addBipNode at hres
    cases isRoot <;> simp only [Bool.false_eq_true, if_false, if_true] at hres key <;>
    · split at hres
      · cases hres
      · split at hres
        · cases hres
        · rename_i sel hsel
          split at hres
          · injection hres with hres
            subst hres
            exact ⟨_, _, _, key sel hsel, rfl⟩
          · cases hres

/-- ★ `AddBipartition` keeps the tips: for distinct slots, a successful call at any node of any tree leaves
    the tip names as they were (as a multiset) -/
theorem addBip_tips (S : List Nat) (len sup : Rat) (p : List Nat) (t t' : T) (hnd : S.Nodup)
    (h : addBipAt S len sup p t = some t') : t'.tipNames.Perm t.tipNames := by
  cases p with
  | nil =>
    obtain ⟨d, pp, k⟩ := t
    have hn := addBipNode_leaves true S len sup d pp k hnd
    simp only [addBipAt] at h
    split at h
    · rename_i n' hres
      rw [hres] at hn
      simp only [Option.some.injEq] at h; subst h
      obtain ⟨h1, h2, _, _, h5⟩ := hn
      obtain ⟨h6, h7⟩ := h5 rfl
      unfold T.tipNames
      simp only [T.kids_node, beq_iff_eq, h6, h7, if_false, List.nil_append]
      exact h1
    · cases h
  | cons i q =>
    obtain ⟨a1, a2, a3⟩ := addBipAt_inv S len sup hnd i q t t' h
    unfold T.tipNames
    rw [a3, a2]
    exact List.Perm.append_left _ a1

/-- `AddBipartition` creates no single-child node (distinct slots) -/
theorem addBip_noSingle (S : List Nat) (len sup : Rat) (p : List Nat) (t t' : T) (hnd : S.Nodup)
    (h : addBipAt S len sup p t = some t') (hk : t.noSingle = true) : t'.noSingle = true := by
  cases p with
  | nil =>
    obtain ⟨d, pp, k⟩ := t
    have hn := addBipNode_ns true S len sup d pp k hnd hk
    simp only [addBipAt] at h
    split at h
    · rename_i n' hres
      rw [hres] at hn
      simp only [Option.some.injEq] at h; subst h
      exact hn.1
    · cases h
  | cons i q => exact addBipAt_ns S len sup hnd i q t t' h hk

/-- a node `x` with four children below the root: the two branches of `b c` grouped below `x`; the parent's
    branch and `d` grouped (the new node takes x's place as the LAST child of the root, x hangs below it);
    the same with the slots in the other order (order of the new node's children = order of the slots) -/
def bipEx : T := T.node ⟨"r", []⟩ 0 [(EdgeD.blank, T.leaf "a"),
  (⟨2, 1/2, NIL, ["c"], 7⟩, T.node ⟨"x", []⟩ 0 [(EdgeD.blank, T.leaf "b"), (EdgeD.blank, T.leaf "c"), (EdgeD.blank, T.leaf "d"), (EdgeD.blank, T.leaf "e")]),
  (EdgeD.blank, T.leaf "f")]

example : ((addBipAt [1, 2] 1 (3/4) [1] bipEx).map (·.tipNames)) = some ["a", "d", "e", "b", "c", "f"] := by decide +kernel
example : ((addBipAt [0, 3] 1 (3/4) [1] bipEx).map (·.tipNames)) = some ["a", "f", "d", "b", "c", "e"] := by decide +kernel
example : ((addBipAt [3, 0] 1 (3/4) [1] bipEx).map (·.nodeNames)) = some ["r", "a", "f", "", "d", "x", "b", "c", "e"] := by decide +kernel

/-! ### histories: the invariant is closed under every composed operation model -/

/-- the invariant of edit histories: unique tip names, and no single-child inner node as long as
    the property's quantifier promises it (`ns`) -/
def Inv (ns : Bool) (t : T) : Prop := t.tipNames.Nodup ∧ (ns = true → t.noSingle = true)

/-- the driver evaluates the invariant as the Boolean `InvB` -/
theorem InvB_iff (ns : Bool) (t : T) : InvB ns t = true ↔ Inv ns t := by
  cases ns <;> simp [InvB, Inv, uniqueTipsB]

/-- closure, one operation: from a tree satisfying the invariant (and the operation's
    precondition: only pruning has one), a SUCCESSFUL edit yields a tree satisfying it, with the
    promise updated by `promised` (dropped exactly by re-rooting a rooted tree at another node;
    restored by RemoveSingleNodes) -/
theorem op_ok (ns : Bool) (op : EditOp) (t t' : T) (h : Inv ns t) (hp : opPre ns op t = true)
    (ho : applyOp op t = .ok t') : Inv (promised ns op t) t' := by
  obtain ⟨hu, hns⟩ := h
  cases op with
  | reroot p =>
    have ht := Gotree.C03.reroot_ok (by simpa [applyOp] using ho)
    subst ht
    refine ⟨(rerootP_tips p t none []).nodup_iff.mpr hu, fun hpr => ?_⟩
    simp only [promised, Bool.and_eq_true, Bool.not_eq_true', T.rooted, beq_eq_false_iff_ne, ne_eq] at hpr
    exact (rerootP_rootFree p t none [] ⟨hns hpr.1, hpr.2⟩).1
  | unroot =>
    simp only [applyOp, Gotree.C05.Res.ok.injEq] at ho
    subst ho
    exact ⟨(unroot_tips t).nodup_iff.mpr hu, fun hpr => unroot_noSingle t (hns hpr)⟩
  | sortTips =>
    simp only [applyOp, Gotree.C05.Res.ok.injEq] at ho
    subst ho
    exact ⟨(sortT_tips t).nodup_iff.mpr hu, fun hpr => by rw [sortT_noSingle]; exact hns hpr⟩
  | rotate ds =>
    simp only [applyOp, Gotree.C05.Res.ok.injEq] at ho
    subst ho
    exact ⟨(rotate_tips t ds).nodup_iff.mpr hu, fun hpr => by rw [rotate_noSingle]; exact hns hpr⟩
  | prune rev names =>
    simp only [opPre, Bool.and_eq_true, bne_iff_ne, ne_eq, decide_eq_true_eq] at hp
    obtain ⟨⟨hn, hk⟩, h3⟩ := hp
    have hwf : Gotree.C06.wf t = true := (Gotree.C06.wf_iff t).2 ⟨hu, hns hn, hk⟩
    obtain ⟨t₂, he, _, _, _, hwf₂, _⟩ := Gotree.C06.removeTips_induced t names rev hwf h3
    simp only [applyOp, he, Gotree.C05.Res.ok.injEq] at ho
    subst ho
    obtain ⟨hu₂, hns₂, _⟩ := (Gotree.C06.wf_iff _).1 hwf₂
    exact ⟨hu₂, fun _ => hns₂⟩
  | rerootFirst =>
    simp only [applyOp] at ho
    cases hf : Gotree.C16.firstDeg3 0 t with
    | none => simp [hf] at ho
    | some p =>
      simp only [hf] at ho
      have ht := Gotree.C03.reroot_ok ho
      subst ht
      refine ⟨(rerootP_tips p t none []).nodup_iff.mpr hu, fun hpr => ?_⟩
      simp only [promised, Bool.and_eq_true, Bool.not_eq_true', T.rooted, beq_eq_false_iff_ne, ne_eq] at hpr
      exact (rerootP_rootFree p t none [] ⟨hns hpr.1, hpr.2⟩).1
  | removeEdges rr rt ids =>
    simp only [opPre, decide_eq_true_eq] at hp
    simp only [applyOp, Gotree.C05.Res.ok.injEq] at ho
    subst ho
    exact ⟨(removeEdges_tipNames_c03 rr rt ids t hp).nodup_iff.mpr hu,
      fun hpr => removeEdges_noSingle rr rt ids t (hns hpr)⟩
  | collapseLen l rr rt =>
    simp only [opPre, decide_eq_true_eq] at hp
    simp only [applyOp, Gotree.C05.Res.ok.injEq] at ho
    subst ho
    exact ⟨(removeEdges_tipNames_c03 rr rt _ t hp).nodup_iff.mpr hu,
      fun hpr => removeEdges_noSingle rr rt _ t (hns hpr)⟩
  | collapseSup x rr =>
    simp only [opPre, decide_eq_true_eq] at hp
    simp only [applyOp, Gotree.C05.Res.ok.injEq] at ho
    subst ho
    exact ⟨(removeEdges_tipNames_c03 rr false _ t hp).nodup_iff.mpr hu,
      fun hpr => removeEdges_noSingle rr false _ t (hns hpr)⟩
  | removeSingle =>
    simp only [applyOp, Gotree.C05.Res.ok.injEq] at ho
    subst ho
    exact ⟨(Gotree.C15.removeSingle_tips' t).nodup_iff.mpr hu, fun _ => Gotree.C15.removeSingle_noSingle' t⟩
  | clone =>
    simp only [applyOp, Gotree.C05.Res.ok.injEq] at ho
    subst ho
    refine ⟨by rw [Gotree.C15.zeroPpos_tipNames]; exact hu, fun hpr => ?_⟩
    rw [zeroPpos_noSingle]; exact hns hpr
  | merge t2 =>
    simp only [opPre, Bool.and_eq_true, decide_eq_true_eq, Bool.or_eq_true, Bool.not_eq_true'] at hp
    simp only [applyOp] at ho
    cases hm : Gotree.C15.merge true true t t2 with
    | error m => simp [hm] at ho
    | ok t₂ =>
      simp only [hm, Gotree.C05.Res.ok.injEq] at ho
      subst ho
      refine ⟨merge_nodup_c03 hm hu hp.1, fun hpr => ?_⟩
      · simp only [promised] at hpr
        have h2 : t2.noSingle = true := by
          rcases hp.2 with h | h
          · rw [hpr] at h; cases h
          · exact h
        exact merge_noSingle hm (hns hpr) h2
  | resolve ds =>
    simp only [opPre, Bool.or_eq_true, Bool.not_eq_true', decide_eq_true_eq] at hp
    simp only [applyOp] at ho
    cases hr : Gotree.C07.resolve t ds with
    | none => simp [hr] at ho
    | some t₂ =>
      simp only [hr, Gotree.C05.Res.ok.injEq] at ho
      subst ho
      refine ⟨(Gotree.C07.resolve_tipNames t _ ds hr).nodup_iff.mpr hu, fun hpr => ?_⟩
      simp only [promised] at hpr
      have h2 : 2 ≤ t.kids.length := by
        rcases hp with h | h
        · rw [hpr] at h; cases h
        · exact h
      exact binary_noSingle _
        ((Gotree.C07.resolve_refines (fun _ => ()) (fun _ _ _ => rfl) t _ ds hr).2.2.2.2 (hns hpr) h2)
  | nni k undo =>
    simp only [opPre] at hp
    simp only [applyOp] at ho
    by_cases he : (Gotree.C17.rearrangements t).isEmpty = true
    · simp only [he, if_true, Gotree.C05.Res.ok.injEq] at ho
      subst ho
      exact ⟨hu, hns⟩
    · simp only [he, Bool.false_eq_true, if_false] at ho
      cases hr : (Gotree.C17.rearrangements t)[k % (Gotree.C17.rearrangements t).length]? with
      | none => simp [hr] at ho
      | some r =>
        simp only [hr] at ho
        have hmem : r ∈ Gotree.C17.rearrangements t := List.mem_of_getElem? hr
        cases ha : Gotree.C17.apply t r with
        | none => simp [ha] at ho
        | some t1 =>
          simp only [ha] at ho
          cases undo with
          | true =>
            obtain ⟨t₁, ha', hu'⟩ := Gotree.C17.undo_apply t r hp hmem
            rw [ha] at ha'
            cases ha'
            simp only [if_true, hu', Gotree.C05.Res.ok.injEq] at ho
            subst ho
            exact ⟨hu, hns⟩
          | false =>
            simp only [Bool.false_eq_true, if_false, Gotree.C05.Res.ok.injEq] at ho
            subst ho
            obtain ⟨_, _, _, hnd⟩ := Gotree.C17.apply_wf t _ r hp hmem ha
            exact ⟨hnd hu, fun hpr => Gotree.C17.apply_noSingle_tree t _ r hp hmem ha (hns hpr)⟩
  | collapseDepth mn mx rr rt =>
    simp only [opPre, decide_eq_true_eq] at hp
    simp only [applyOp, Gotree.C07.collapseDepth, Gotree.C07.depth_never_errs t, Bool.false_eq_true, if_false,
      Gotree.C05.Res.ok.injEq] at ho
    subst ho
    exact ⟨(removeEdges_tipNames_c03 rr rt _ t hp).nodup_iff.mpr hu,
      fun hpr => removeEdges_noSingle rr rt _ t (hns hpr)⟩
  | subTree p =>
    simp only [applyOp] at ho
    cases hn : Gotree.C15.nodeAt t p with
    | none => simp [hn] at ho
    | some n =>
      simp only [hn, Gotree.C05.Res.ok.injEq] at ho
      subst ho
      simp only [opPre, hn, bne_iff_ne, ne_eq] at hp
      obtain ⟨hsub, hnsn⟩ := nodeAt_sublist p t n hn
      refine ⟨?_, fun hpr => ?_⟩
      · rw [Gotree.C15.zeroPpos_tipNames]
        have h1 : n.tipNames = leavesL n.kids := by
          simp [T.tipNames, hp]
        rw [h1]
        have h2 : (leavesL t.kids).Sublist t.tipNames := by
          unfold T.tipNames; exact List.sublist_append_right _ _
        exact (hsub.trans h2).nodup hu
      · simp only [promised] at hpr
        have := hnsn (hns hpr)
        obtain ⟨d, pp, k⟩ := n
        simpa [Gotree.C15.zeroPpos, T.noSingle, zeroPposL_noSingle k] using this
  | graftTree tip g =>
    simp only [opPre, Bool.and_eq_true, decide_eq_true_eq, List.all_eq_true, Bool.not_eq_true',
      Bool.or_eq_true, bne_iff_ne, ne_eq] at hp
    obtain ⟨⟨hgn, hdis⟩, hg⟩ := hp
    simp only [applyOp] at ho
    cases hgr : Gotree.C15.graft true t tip g with
    | error m => simp [hgr] at ho
    | ok t₂ =>
      simp only [hgr, Gotree.C05.Res.ok.injEq] at ho
      subst ho
      refine ⟨?_, fun hpr => ?_⟩
      · refine (graft_tips_c03 hgr).nodup_iff.mpr ?_
        refine List.nodup_append.mpr ⟨hu.erase tip, hgn, fun a ha b hb hab => ?_⟩
        subst hab
        have h1 := hdis a hb
        have h2 : a ∈ t.tipNames := List.mem_of_mem_erase ha
        simp [h2] at h1
      · simp only [promised] at hpr
        obtain ⟨_, k', hk, rfl⟩ := Gotree.C15.graft_ok hgr
        have hg' : g.noSingle = true ∧ ¬ g.kids.length = 1 := by
          rcases hg with h | h
          · rw [hpr] at h; cases h
          · exact h
        have hG : (Gotree.C15.asGraft g).noSingleBelow = true := by
          simp only [Gotree.C15.asGraft, noSingleBelow_node, Bool.and_eq_true, bne_iff_ne, ne_eq]
          exact ⟨hg'.2, hg'.1⟩
        exact graftKids_ns hG t.kids k' hk (hns hpr)
  | insertIdentical groups =>
    simp only [opPre, List.all_eq_true, Bool.not_eq_true'] at hp
    simp only [applyOp] at ho
    cases hi : Gotree.C15.insertIdentical true t groups with
    | mk t₂ om =>
      cases om with
      | some m => simp [hi] at ho
      | none =>
        simp only [hi, Gotree.C05.Res.ok.injEq] at ho
        subst ho
        have hne : ∀ g ∈ groups, "" ∉ g := fun g hg hm => by
          have := hp g hg
          simp [hm] at this
        exact ⟨insertIdentical_nodup_c03 hi hu hne,
          fun hpr => insertIdentical_ns hi (hns hpr)⟩
  | outgroup remove strict S =>
    simp only [applyOp] at ho
    refine ⟨?_, fun hpr => outgroup_noSingle ho (hns hpr)⟩
    cases remove with
    | true => exact outgroup_remove_nodup ho hu
    | false =>
      simp only [opPre, Bool.false_or, Bool.and_eq_true] at hp
      exact ((Gotree.C05.P.outgroup_preserves t t' strict S ((Gotree.C05.uniq_iff t).2 hu) hp.1 hp.2 ho).1).nodup_iff.mpr hu
  | midpoint =>
    simp only [opPre, Bool.and_eq_true] at hp
    simp only [applyOp] at ho
    have := (Gotree.C05.P.midpoint_preserves t t' ((Gotree.C05.uniq_iff t).2 hu) hp.1 hp.2 ho).2.1
    exact ⟨this.nodup_iff.mpr hu, fun hpr => midpoint_noSingle ho (hns hpr)⟩
  | graftEdge name k =>
    simp only [opPre, Bool.not_eq_true', List.contains_eq_mem, decide_eq_false_iff_not] at hp
    simp only [applyOp] at ho
    split at ho
    · rename_i hk
      simp only [Gotree.C05.Res.ok.injEq] at ho
      subst ho
      refine ⟨?_, fun hpr => ?_⟩
      · exact (Gotree.C16.tipNames_applyAt _ name (graftF_leaves name) t k hk).nodup_iff.mpr
          (List.nodup_cons.mpr ⟨hp, hu⟩)
      · simp only [promised] at hpr
        have h1 := hns hpr
        simp only [T.noSingle] at h1 ⊢
        rw [Gotree.C16.applyAt_kids]
        exact applyAtL_ns _ (fun e t h => graftF_ns name e t h) _ k h1
    · cases ho
  | rename m =>
    simp only [applyOp, renameMap] at ho
    split at ho
    · cases ho
    · split at ho
      · cases ho
      · rename_i hd
        simp only [Gotree.C05.Res.ok.injEq] at ho
        subst ho
        exact ⟨hasDupS_false_nodup _ (by simpa using hd), fun hpr => by rw [mapNames_noSingle]; exact hns hpr⟩
  | relabel names =>
    simp only [applyOp, relabel] at ho
    split at ho
    · cases ho
    · rename_i hd
      simp only [Gotree.C05.Res.ok.injEq] at ho
      subst ho
      exact ⟨hasDupS_false_nodup _ (by simpa using hd), fun hpr => by rw [setNames_noSingle]; exact hns hpr⟩
  | clearLengths i x =>
    simp only [applyOp, Gotree.C05.Res.ok.injEq] at ho; subst ho
    obtain ⟨h1, h2⟩ := mapData_inv id (fun tip e => if selEdge i x tip then { e with len := NIL } else e) (fun _ => rfl) t
    exact ⟨by rw [clearLengths, h1]; exact hu, fun hpr => by rw [clearLengths, h2]; exact hns hpr⟩
  | clearSupports =>
    simp only [applyOp, Gotree.C05.Res.ok.injEq] at ho; subst ho
    obtain ⟨h1, h2⟩ := mapData_inv id (fun _ e => { e with sup := NIL, pval := NIL }) (fun _ => rfl) t
    exact ⟨by rw [clearSupports, h1]; exact hu, fun hpr => by rw [clearSupports, h2]; exact hns hpr⟩
  | clearComments =>
    simp only [applyOp, Gotree.C05.Res.ok.injEq] at ho; subst ho
    obtain ⟨h1, h2⟩ := mapData_inv (fun d => { d with comments := [] }) (fun _ e => { e with comments := [] }) (fun _ => rfl) t
    exact ⟨by rw [clearComments, h1]; exact hu, fun hpr => by rw [clearComments, h2]; exact hns hpr⟩
  | scaleLengths q i x =>
    simp only [applyOp, Gotree.C05.Res.ok.injEq] at ho; subst ho
    obtain ⟨h1, h2⟩ := mapData_inv id (fun tip e => if e.len != NIL && selEdge i x tip then { e with len := e.len * q } else e) (fun _ => rfl) t
    exact ⟨by rw [scaleLengths, h1]; exact hu, fun hpr => by rw [scaleLengths, h2]; exact hns hpr⟩
  | roundLengths0 i x =>
    simp only [applyOp, Gotree.C05.Res.ok.injEq] at ho; subst ho
    obtain ⟨h1, h2⟩ := mapData_inv id (fun tip e => if e.len != NIL && selEdge i x tip then { e with len := roundRat e.len } else e) (fun _ => rfl) t
    exact ⟨by rw [roundLengths0, h1]; exact hu, fun hpr => by rw [roundLengths0, h2]; exact hns hpr⟩
  | renameAuto internals tips length =>
    simp only [applyOp, renameAuto] at ho
    split at ho
    · cases ho
    · simp only [relabel] at ho
      split at ho
      · cases ho
      · rename_i hd
        simp only [Gotree.C05.Res.ok.injEq] at ho
        subst ho
        exact ⟨hasDupS_false_nodup _ (by simpa using hd), fun hpr => by rw [setNames_noSingle]; exact hns hpr⟩
  | shuffle draws =>
    simp only [applyOp, shuffle] at ho
    split at ho
    · cases ho
    · split at ho
      · cases ho
      · simp only [relabel] at ho
        split at ho
        · cases ho
        · rename_i hd
          simp only [Gotree.C05.Res.ok.injEq] at ho
          subst ho
          exact ⟨hasDupS_false_nodup _ (by simpa using hd), fun hpr => by rw [setNames_noSingle]; exact hns hpr⟩
  | quotes add internals tips =>
    simp only [applyOp, quotes] at ho
    split at ho
    · cases ho
    · split at ho
      · cases ho
      · rename_i hd
        simp only [Gotree.C05.Res.ok.injEq] at ho
        subst ho
        exact ⟨hasDupS_false_nodup _ (by simpa using hd), fun hpr => by rw [mapSel_noSingle]; exact hns hpr⟩
  | rotateOne p ds =>
    simp only [applyOp, Gotree.C05.Res.ok.injEq] at ho; subst ho
    exact ⟨(rotateOne_tips p ds t).nodup_iff.mpr hu, fun hpr => by rw [rotateOne_noSingle]; exact hns hpr⟩
  | addLength q i x =>
    simp only [applyOp, Gotree.C05.Res.ok.injEq] at ho; subst ho
    obtain ⟨h1, h2⟩ := mapData_inv id (fun tip e => if selEdge i x tip then { e with len := if e.len != NIL then e.len + q else q } else e) (fun _ => rfl) t
    exact ⟨by rw [addLength, h1]; exact hu, fun hpr => by rw [addLength, h2]; exact hns hpr⟩
  | clearPvalues =>
    simp only [applyOp, Gotree.C05.Res.ok.injEq] at ho; subst ho
    obtain ⟨h1, h2⟩ := mapData_inv id (fun _ e => { e with pval := NIL }) (fun _ => rfl) t
    exact ⟨by rw [clearPvalues, h1]; exact hu, fun hpr => by rw [clearPvalues, h2]; exact hns hpr⟩
  | clearNodeComments =>
    simp only [applyOp, Gotree.C05.Res.ok.injEq] at ho; subst ho
    obtain ⟨h1, h2⟩ := mapData_inv (fun d => { d with comments := [] }) (fun _ e => e) (fun _ => rfl) t
    exact ⟨by rw [clearNodeComments, h1]; exact hu, fun hpr => by rw [clearNodeComments, h2]; exact hns hpr⟩
  | clearEdgeComments =>
    simp only [applyOp, Gotree.C05.Res.ok.injEq] at ho; subst ho
    obtain ⟨h1, h2⟩ := mapData_inv id (fun _ e => { e with comments := [] }) (fun _ => rfl) t
    exact ⟨by rw [clearEdgeComments, h1]; exact hu, fun hpr => by rw [clearEdgeComments, h2]; exact hns hpr⟩
  | clearTermEdgeComments =>
    simp only [applyOp, Gotree.C05.Res.ok.injEq] at ho; subst ho
    obtain ⟨h1, h2⟩ := mapData_inv id (fun tip e => if tip then { e with comments := [] } else e) (fun _ => rfl) t
    exact ⟨by rw [clearTermEdgeComments, h1]; exact hu, fun hpr => by rw [clearTermEdgeComments, h2]; exact hns hpr⟩
  | scaleSupports q =>
    simp only [applyOp, Gotree.C05.Res.ok.injEq] at ho; subst ho
    obtain ⟨h1, h2⟩ := mapData_inv id (fun _ e => if e.sup != NIL then { e with sup := truncRat (1000000 * (e.sup * q)) / 1000000 } else e) (fun _ => rfl) t
    exact ⟨by rw [scaleSupports, h1]; exact hu, fun hpr => by rw [scaleSupports, h2]; exact hns hpr⟩
  | roundSupports0 =>
    simp only [applyOp, Gotree.C05.Res.ok.injEq] at ho; subst ho
    obtain ⟨h1, h2⟩ := mapData_inv id (fun _ e => if e.sup != NIL then { e with sup := roundRat e.sup } else e) (fun _ => rfl) t
    exact ⟨by rw [roundSupports0, h1]; exact hu, fun hpr => by rw [roundSupports0, h2]; exact hns hpr⟩
  | collapseClade strict name tips =>
    simp only [opPre, Bool.not_eq_true', List.contains_eq_mem, decide_eq_false_iff_not] at hp
    simp only [applyOp] at ho
    obtain ⟨p, r, hpne, _, _, _, rfl⟩ := collapseClade_ok strict name tips t t' ho
    cases p with
    | nil => exact absurd rfl hpne
    | cons i q =>
      obtain ⟨h1, h2⟩ := replaceAt_inv name i q t hu hp
      exact ⟨h1, fun hpr => h2 (hns hpr)⟩
  | annotate comment lines =>
    simp only [opPre] at hp
    subst hp
    simp only [applyOp] at ho
    obtain ⟨h1, h2⟩ := annotate_comment_inv lines t t' ho
    exact ⟨h1.nodup_iff.mpr hu, fun hpr => by rw [h2]; exact hns hpr⟩
  | addBip p S l sp =>
    simp only [opPre, decide_eq_true_eq] at hp
    simp only [applyOp] at ho
    cases hb : addBipAt S l sp p t with
    | none => simp [hb] at ho
    | some t₂ =>
      simp only [hb, Gotree.C05.Res.ok.injEq] at ho
      subst ho
      exact ⟨(addBip_tips S l sp p t _ hp hb).nodup_iff.mpr hu, fun hpr => addBip_noSingle S l sp p t _ hp hb (hns hpr)⟩
  | reinit =>
    simp only [applyOp, reinit] at ho
    split at ho
    · cases ho
    · split at ho
      · cases ho
      · simp only [Gotree.C05.Res.ok.injEq] at ho
        subst ho
        exact ⟨hu, hns⟩

/-- Orientation is not lost by treating trees as values: in C05's model with explicit orientation
    flags (`OT`: every branch says whether its `left` is the end nearer the root), `t.root = n`
    followed by `ReorderEdges(n, nil, nil)` — on a correctly oriented heap — yields exactly the
    correctly oriented heap of the tree value the history continues with, every branch pointing
    away from the new root (re-export of C05's `reroot_oriented` for the `reroot` step of `applyOp`). -/
theorem reroot_step_oriented (t t' : T) (p : List Nat) (h : applyOp (.reroot p) t = .ok t') :
    (Gotree.C05.rerootO t p).1 = Gotree.C05.orient t' ∧ (∀ f ∈ (Gotree.C05.rerootO t p).1.flags, f = true) ∧
      (Gotree.C05.rerootO t p).1.wrong = [] := by
  have ht := Gotree.C03.reroot_ok (by simpa [applyOp] using h)
  subst ht
  obtain ⟨h1, _, h3, h4⟩ := Gotree.C05.P.reroot_oriented t p
  exact ⟨h1, h3, h4⟩

/-- ★ every finite history of successful edits, from any tree with unique tip names (single-child
    nodes allowed unless `ns₀` promises their absence), ends in a tree that satisfies the invariant.
    WHAT THIS IS: the side conditions of the property's quantifier (unique tip names; no single-child
    inner node, which pruning needs) are re-established by every composed operation model, so the
    per-tree theorems of this file apply at every step.  It states none of the heap clauses
    (connected, acyclic, symmetric, oriented): those cannot fail for a value of `T` and are judged on
    the real heap by the oracle.  The second conjunct (`edges_nodes`) holds of every tree,
    independently of the history; it is kept because DESIGN Appendix B fixed this statement.  `preAll` is the property's quantifier
    (pruning only on trees free of single-child inner nodes, keeping at least three tips). -/
theorem history_inv (t₀ : T) (ops : List EditOp) (ns₀ : Bool) (h₀ : Inv ns₀ t₀)
    (hp : preAll ns₀ t₀ ops = true) :
    ∀ t, runOps t₀ ops = .ok t →
      Inv (promisedAfter ns₀ t₀ ops) t ∧ (edges t).length + 1 = (nodes t).length := by
  induction ops generalizing t₀ ns₀ with
  | nil =>
    intro t h
    simp only [runOps, Gotree.C05.Res.ok.injEq] at h
    subst h
    exact ⟨h₀, edges_nodes _⟩
  | cons op r ih =>
    intro t h
    simp only [runOps] at h
    simp only [preAll, Bool.and_eq_true] at hp
    cases ho : applyOp op t₀ with
    | ok t₁ =>
      simp only [ho] at h hp
      simp only [promisedAfter, ho]
      exact ih t₁ (promised ns₀ op t₀) (op_ok ns₀ op t₀ t₁ h₀ hp.1 ho) hp.2 t h
    | err m => simp [ho] at h
    | panic m => simp [ho] at h

/-! ### the statements are not vacuous -/

def eL (l : Rat) (id : Int) : EdgeD := ⟨l, NIL, NIL, [], id⟩

/-- a rooted multifurcating tree with unique tips, no single-child node, one zero-length inner branch -/
def exHist : T :=
  T.node ⟨"", []⟩ 0
    [(eL 1 0, T.node ⟨"", []⟩ 0 [(eL 1 1, T.leaf "a"), (eL 2 2, T.leaf "b"), (eL 1 3, T.leaf "c")]),
     (eL 2 4, T.node ⟨"", []⟩ 0
        [(eL 0 5, T.node ⟨"", []⟩ 0 [(eL 1 6, T.leaf "d"), (eL 1 7, T.leaf "e")]),
         (eL 3 8, T.leaf "f"),
         (eL 1 9, T.node ⟨"", []⟩ 0 [(eL 2 10, T.leaf "g"), (eL 1 11, T.leaf "h")])])]

def exOps : List EditOp :=
  [.unroot, .collapseLen 0 false false, .rerootFirst, .sortTips, .prune false ["a", "zz"], .reroot [2],
   .rotate [0, 0, 1, 0, 1, 2, 0, 1], .removeEdges true false [9], .clone, .removeSingle, .resolve [0, 1, 0, 2, 4, 1], .nni 1 false, .nni 0 true]

/-- a second rooted tree with other tip names, for `Merge` -/
def exSecond : T :=
  T.node ⟨"", []⟩ 0 [(eL 1 0, T.leaf "x"), (eL 1 1, T.node ⟨"", []⟩ 0 [(eL 1 2, T.leaf "y"), (eL 1 3, T.leaf "z")])]

/-- the hypotheses of `write_describes` hold of the example tree with Go's number printing -/
example : textWF Gotree.Newick.goCodec exHist = true := by decide +kernel

/-- every precondition (`opPre`) is satisfiable, with the promise on, and the operation succeeds -/
example :
    (∀ op ∈ ([.outgroup false true ["g", "h"], .outgroup true false ["d", "e"], .midpoint,
              .graftTree "a" exSecond, .graftEdge "new" 3, .insertIdentical [["b", "b2", "b3"]],
              .collapseDepth 1 2 false false, .collapseSup (1/2) false, .subTree [1], .rename [("a", "A")],
              .shuffle [0, 1, 0, 3, 2, 1, 0, 4], .quotes true false true, .renameAuto true true 4, .relabel ["r"],
              .reinit, .clone, .removeSingle, .clearLengths true false, .clearSupports, .clearComments,
              .scaleLengths (3/4) true true, .roundLengths0 true true, .rotateOne [1] [0, 0, 1, 2], .rotateOne [] [0, 0],
              .addLength (1/2) true false, .clearPvalues, .clearNodeComments, .clearEdgeComments, .clearTermEdgeComments,
              .scaleSupports (1/2), .roundSupports0, .collapseClade true "cc" ["d", "e"], .annotate true [["k", "a"], ["l", "g", "h"]],
              .addBip [1] [1, 3] 1 (1/2), .addBip [1] [0, 2] 1 (1/2)] : List EditOp),
      opPre true op exHist = true ∧ (match applyOp op exHist with | .ok t => InvB (promised true op exHist) t | _ => false) = true) := by
  decide +kernel

example : preAll true exHist [.merge exSecond, .unroot] = true ∧
    (match runOps exHist [.merge exSecond, .unroot] with | .ok t => InvB true t && t.tipNames.length == 11 | _ => false) = true := by
  decide +kernel

example : InvB true exHist = true ∧ preAll true exHist exOps = true ∧
    (match runOps exHist exOps with | .ok t => InvB (promisedAfter true exHist exOps) t | _ => false) = true := by
  decide +kernel


example : (nodes witness18).length = 18 ∧ (edges witness18).length = 17 ∧
    (internalEdges witness18).length = 7 ∧ (tipEdges witness18).length = 10 ∧ (tips witness18).length = 10 := by
  decide

end Gotree.C03
