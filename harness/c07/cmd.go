package c07

// Whole commands: `gotree collapse length|support|depth`, `gotree resolve`, as functions of the flags
// and of the records of the input file (several trees, a record in error, -o, --seed).
//
//	C07.cmd  cmd flags outmode seed records | exit outputs draws
//
// flags: "l=1/2,root=1,…" — an option that is absent is NOT on the command line (default of init());
// records: dumps (α of each Newick line as re-read by the harness) or ERR (an unparsable line), each
// followed by "|"; outputs: α of every line the command wrote (stdout, or the file of -o).

import (
	"math/rand"
	"os"
	"strconv"
	"strings"
	"time"

	"verifharness/core"

	"github.com/evolbioinfo/gotree/io/newick"
)

const errLine = "(a,b;"

type kv struct{ k, v string }

func flagString(fl []kv) string {
	var b strings.Builder
	for _, x := range fl {
		b.WriteString(x.k + "=" + x.v + ",")
	}
	return b.String()
}

func parseFlagString(s string) []kv {
	var out []kv
	for _, x := range strings.Split(strings.TrimSuffix(s, ","), ",") {
		if p := strings.SplitN(x, "=", 2); len(p) == 2 {
			out = append(out, kv{p[0], p[1]})
		}
	}
	return out
}

func doCmd(c *core.Ctx, cmd string, fl []kv, outmode string, seed int64, recs []string) {
	if c.Gotree == "" {
		return
	}
	var text strings.Builder
	var seen []string
	var good []*core.N // the records before the first one in error
	stopped := false
	for _, r := range recs {
		if r == "ERR" {
			text.WriteString(errLine + "\n")
			seen = append(seen, "ERR")
			stopped = true
			continue
		}
		nw := mustBuild(mustDump(r)).Newick()
		text.WriteString(nw + "\n")
		pt, err := newick.NewParser(strings.NewReader(nw)).Parse()
		if err != nil {
			panic(err)
		}
		a, wf := core.Alpha(pt)
		if !wf.OK() {
			panic("parsed tree malformed")
		}
		seen = append(seen, a.Dump())
		if !stopped {
			good = append(good, a)
		}
	}
	file := c.TmpFile(text.String())
	var args []string
	if cmd == "resolve" {
		args = []string{"resolve", "-i", file, "--seed", strconv.FormatInt(seed, 10)}
	} else {
		args = []string{"collapse", cmd, "-i", file}
	}
	for _, x := range fl {
		switch x.k {
		case "l", "s":
			f, _ := core.ParseRat(x.v)
			args = append(args, "-"+x.k, fmtF(f))
		case "m", "M":
			args = append(args, "-"+x.k, x.v)
		case "root", "tips":
			args = append(args, "--"+x.k)
		}
	}
	outfile := ""
	if outmode == "file" {
		outfile = c.TmpFile("")
		os.Remove(outfile)
		args = append(args, "-o", outfile)
	}
	r := c.RunCLI("", 30*time.Second, args...)
	exit := strconv.Itoa(r.Exit)
	if r.Timeout {
		exit = "timeout"
	}
	written := r.Stdout
	if outmode == "file" {
		b, err := os.ReadFile(outfile)
		if err != nil {
			exit = "no-output-file"
		}
		written = string(b)
		if r.Stdout != "" {
			exit = "stdout-not-empty"
		}
	}
	var outs strings.Builder
	for _, l := range strings.Split(strings.TrimRight(written, "\n"), "\n") {
		if l == "" {
			continue
		}
		st, a := parseOut(core.CLIResult{Stdout: l})
		if st != "ok" {
			exit = "unparsable-output"
			continue
		}
		outs.WriteString(a + "|")
	}
	var draws []int
	if cmd == "resolve" {
		rand.Seed(seed)
		for _, g := range good {
			var bounds []int
			script(g, true, &bounds)
			for _, b := range bounds {
				draws = append(draws, rand.Intn(b))
			}
		}
	}
	c.Emit("C07.cmd", cmd, flagString(fl), outmode, strconv.FormatInt(seed, 10), strings.Join(seen, "|")+"|", exit, outs.String(), core.IntList(draws))
}

func replayCmd(c *core.Ctx, f []string) {
	seed, _ := strconv.ParseInt(f[4], 10, 64)
	var recs []string
	for _, r := range strings.Split(strings.TrimSuffix(f[5], "|"), "|") {
		if r != "" {
			recs = append(recs, r)
		}
	}
	doCmd(c, f[1], parseFlagString(f[2]), f[3], seed, recs)
}

// cmdCases runs every combination of the flags of the four commands once.
func cmdCases(c *core.Ctx) {
	k := 0
	forceErr := -1 // >= 0: a record in error is put at that position (clipped), whatever the draw says
	one := func(cmd string, fl []kv) {
		k++
		outmode := "stdout"
		if k%2 == 0 {
			outmode = "file"
		}
		n := 1 + c.G.Intn(3)
		var recs []string
		for i := 0; i < n; i++ {
			var t *core.N
			if cmd == "resolve" {
				o := opts(c.G)
				o.Multif, o.MaxDeg, o.Singles = 0.6, 7, 0
				if o.MinTips < 3 {
					o.MinTips = 3
				}
				t, _ = c.G.Tree(o)
				core.NumberEdges(t)
			} else {
				t = genTree(c, true)
			}
			if cmd == "length" && (len(fl) == 0 || fl[0].k != "l") {
				// no -l: the default 0.0 applies; short positive lengths tell it from any other default
				collect(t, func(k *core.N) {
					if k.E.Len > 0 {
						k.E.Len /= 32
					}
				})
			}
			if cmd == "depth" && c.G.Chance(0.12) {
				// two tips with the same name: ReinitIndexes must refuse the tree
				tips := collectTips(t)
				if len(tips) >= 2 {
					tips[1].Name = tips[0].Name
				}
			}
			recs = append(recs, t.Dump())
		}
		if forceErr >= 0 {
			i := forceErr
			if i > len(recs) {
				i = len(recs)
			}
			recs = append(recs[:i:i], append([]string{"ERR"}, recs[i:]...)...)
		} else if c.G.Chance(0.2) {
			i := c.G.Intn(len(recs) + 1)
			recs = append(recs[:i:i], append([]string{"ERR"}, recs[i:]...)...)
		}
		doCmd(c, cmd, fl, outmode, int64(c.G.Intn(1<<30)), recs)
	}
	b := []bool{false, true}
	add := func(fl []kv, on bool, k, v string) []kv {
		if on {
			return append(append([]kv{}, fl...), kv{k, v})
		}
		return fl
	}
	for _, lg := range b {
		for _, root := range b {
			for _, tips := range b {
				thr := core.Rat(float64(c.G.Intn(24)) / 8)
				one("length", add(add(add(nil, lg, "l", thr), root, "root", "1"), tips, "tips", "1"))
			}
		}
	}
	for _, sg := range b {
		for _, root := range b {
			thr := core.Rat(float64(c.G.Intn(18)) / 16)
			one("support", add(add(nil, sg, "s", thr), root, "root", "1"))
		}
	}
	for _, mg := range b {
		for _, Mg := range b {
			for _, root := range b {
				for _, tips := range b {
					mn := c.G.Intn(3)
					mx := mn + c.G.Intn(3)
					one("depth", add(add(add(add(nil, mg, "m", strconv.Itoa(mn)), Mg, "M", strconv.Itoa(mx)), root, "root", "1"), tips, "tips", "1"))
				}
			}
		}
	}
	one("resolve", nil)
	one("resolve", nil)
	// every command on a file with a record in error: first, and after one or more good trees (the earlier
	// trees are written, the exit status is not 0) — round 7: the random 20 % left some commands without one
	for _, pos := range []int{0, 1, 3} {
		forceErr = pos
		one("length", []kv{{"l", core.Rat(float64(1+c.G.Intn(16)) / 8)}})
		one("support", []kv{{"s", core.Rat(float64(1+c.G.Intn(16)) / 16)}})
		one("depth", []kv{{"m", "2"}, {"M", strconv.Itoa(2 + c.G.Intn(2))}})
		one("resolve", nil)
	}
	forceErr = -1
	// --root and --tips together, on thresholds that select tips and root branches (each flag must act
	// whatever the other says)
	for i := 0; i < 3; i++ {
		one("length", []kv{{"l", core.Rat(float64(4+c.G.Intn(12)) / 8)}, {"root", "1"}, {"tips", "1"}})
		one("depth", []kv{{"m", "1"}, {"M", strconv.Itoa(1 + c.G.Intn(3))}, {"root", "1"}, {"tips", "1"}})
	}
	// rooted (and unrooted) trees with EXACTLY ONE multifurcation of the smallest kind: the branch count is
	// the one of a binary unrooted tree, so no shortcut by counting branches may skip them
	for i := 0; i < 4; i++ {
		k++
		outmode := "stdout"
		if k%2 == 0 {
			outmode = "file"
		}
		recs := []string{oneTrifurcation(c, i%2 == 0).Dump()}
		if i == 3 {
			recs = append(recs, oneTrifurcation(c, true).Dump())
		}
		doCmd(c, "resolve", nil, outmode, int64(c.G.Intn(1<<30)), recs)
	}
}

// oneTrifurcation draws a binary tree and contracts one inner branch that does not hang off the root:
// exactly one node with three children (four neighbours), everything else binary.
func oneTrifurcation(c *core.Ctx, rooted bool) *core.N {
	o := core.DefaultOpts()
	o.Multif, o.Singles, o.InnerNames = 0, 0, 0
	o.MinTips, o.MaxTips = 5, 9
	o.Rooted = 0
	if rooted {
		o.Rooted = 1
	}
	for {
		t, _ := c.G.Tree(o)
		type cand struct {
			par *core.N
			i   int
		}
		var cs []cand
		var rec func(x *core.N, isRoot bool)
		rec = func(x *core.N, isRoot bool) {
			for i, k := range x.Kids {
				if !isRoot && len(k.Kids) > 0 {
					cs = append(cs, cand{x, i})
				}
				rec(k, false)
			}
		}
		rec(t, true)
		if len(cs) == 0 {
			continue
		}
		pick := cs[c.G.Intn(len(cs))]
		x := pick.par.Kids[pick.i]
		kids := append(append(append([]*core.N{}, pick.par.Kids[:pick.i]...), x.Kids...), pick.par.Kids[pick.i+1:]...)
		pick.par.Kids = kids
		core.NumberEdges(t)
		return t
	}
}

func collectTips(n *core.N) []*core.N {
	var out []*core.N
	var rec func(x *core.N)
	rec = func(x *core.N) {
		if len(x.Kids) == 0 {
			out = append(out, x)
		}
		for _, k := range x.Kids {
			rec(k)
		}
	}
	rec(n)
	return out
}
