/-
  C04 — the property theorems (audited with `#print axioms`).
-/
import Gotree.Lemmas.C04Q
import Gotree.Lemmas.C04HM
import Gotree.Lemmas.C04Idx
import Gotree.Lemmas.C04Fill
import Gotree.Lemmas.C04Hash
import Gotree.Lemmas.C04Quart
import Gotree.Lemmas.C04Transport
import Gotree.Lemmas.C05
import Gotree.Model.C04Facts
import Gotree.Lemmas.C04DumpCli
import Gotree.Lemmas.C04Depth
import Gotree.Gen.C04Facts

namespace Gotree.C04
open Gotree


/-! ## the split index -/

/-- a rooted, multifurcating example: ((A,B)x,(C,D,E)y); — and the same tips on a tree whose
    root is the tip E: (E)--((A,B),C,D) -/
def exT : T := .node ⟨"", []⟩ 0
  [(⟨1, NIL, NIL, [], 0⟩, .node ⟨"x", []⟩ 0 [(⟨1, NIL, NIL, [], 1⟩, .leaf "A"), (⟨2, NIL, NIL, [], 2⟩, .leaf "B")]),
   (⟨3, NIL, NIL, [], 3⟩, .node ⟨"y", []⟩ 0 [(⟨1, NIL, NIL, [], 4⟩, .leaf "C"), (⟨1, NIL, NIL, [], 5⟩, .leaf "D"), (⟨1, NIL, NIL, [], 6⟩, .leaf "E")])]

def exTipRoot : T := .node ⟨"E", []⟩ 0
  [(⟨1, NIL, NIL, [], 0⟩, .node ⟨"", []⟩ 0
    [(⟨1, NIL, NIL, [], 1⟩, .node ⟨"", []⟩ 0 [(⟨1, NIL, NIL, [], 2⟩, .leaf "B"), (⟨2, NIL, NIL, [], 3⟩, .leaf "A")]),
     (⟨1, NIL, NIL, [], 4⟩, .leaf "D"), (⟨1, NIL, NIL, [], 5⟩, .leaf "C")])]

example : exT.tipNames = ["A", "B", "C", "D", "E"] ∧ exT.tipNames.Nodup := by decide
example : exTipRoot.tipNames = ["E", "B", "A", "D", "C"] ∧ exTipRoot.tipNames.Nodup ∧ exT.tipNames.Perm exTipRoot.tipNames := by
  refine ⟨by decide, by decide, ?_⟩
  exact List.isPerm_iff.mp (by decide)

/-- `ReinitIndexes` (the model the driver runs: ranks, bitsets, both tip counts and both
    additive hashes of every branch, computed by the two passes) equals the direct definition
    from the split of each branch — for every tree with unique tip names (any shape, rooted or
    not, multifurcations, single-child nodes, a tip at the root), and every name hash `H`. -/
theorem reinit_correct (H : String → UInt64) (t : T) (hn : t.tipNames.Nodup) (hne : t.tipNames ≠ []) :
    reinit H t = .ok (sortNames t.tipNames, t.splits.map fun s => specIdx H t.tipNames s.below) :=
  reinit_eq H t hn hne

/-- `reinitLit` — what the driver runs: `ReinitIndexes` with the bitsets filled statement by statement
    as `UpdateBitSet`/`fillRightBitSet` do (a stack of the bitsets of the branches above, `ClearAll` on
    entry, `Set` of the tip id in every member of the stack at a tip, push/pop around each child) — is
    `reinit`, for every tree and every `H`.  All theorems about `reinit`/`indexOf` are about it. -/
theorem reinitLit_eq (H : String → UInt64) (t : T) : reinitLit H t = reinit H t := reinitLit_eq_reinit H t

/-- `reinitLit2` — what the driver runs now: besides the stack-based bitsets, both hash passes statement by
    statement (`e.hashcoderight += …` over the children from 0; the loop over `prev.Neigh()` in slice order
    with the parent at `ppos`, skipping `cur`, reading the stored right fields of the children and the left
    fields of the branch above; the `prev.Tip()` addition) — is `reinit`, for every tree and every `H`:
    the order of the wrap-around additions is immaterial. -/
theorem reinitLit2_eq (H : String → UInt64) (t : T) : reinitLit2 H t = reinit H t := reinitLit2_eq_reinit H t

/-- `reinitLit3` — what the driver runs: `UpdateTipIndex` entering the sorted names one by one (a name already
    entered is the error), then `ClearBitSets` / `UpdateBitSet` / `ComputeEdgeHashes` statement by statement,
    nothing taken from the summarised `reinit` — is `reinit`, for every tree and every `H`. -/
theorem reinitLit3_eq (H : String → UInt64) (t : T) : reinitLit3 H t = reinit H t := reinitLit3_eq_reinit H t

/-- `ReinitInternalIndexes` with the tip index left by an earlier `UpdateTipIndex` gives the indexes of
    `ReinitIndexes` as long as the tip names have not changed since (the index is still the sorted names). -/
theorem reinitInternal_eq (H : String → UInt64) (t : T) (hn : t.tipNames.Nodup) :
    reinitInternalLit H (sortNames t.tipNames) t = reinit H t :=
  reinitInternalLit_eq_reinit H t ((sortNames_perm _).nodup_iff.mpr hn)

/-- the literal `UpdateBitSet` alone: one bitset per branch, bit `rank x` set iff `x` is below -/
theorem updateBitSet_correct (rank : String → Nat) (n : Nat) (t : T) :
    updateBitSet rank n t.kids = t.splits.map fun s => mkBits n (s.below.map rank) :=
  updateBitSet_eq rank n t.kids

/-- every branch has its record, and it is `specIdx` of the branch's split -/
theorem indexOf_eq (H : String → UInt64) (t : T) (hn : t.tipNames.Nodup) (i : Nat) (hi : i < t.splits.length) :
    indexOf H t i = some (specIdx H t.tipNames (t.splits[i]).below) := by
  have hne : t.tipNames ≠ [] := by
    intro h
    have := (below_proper t t.splits[i] (List.getElem_mem hi)).2
    rw [h] at this; exact absurd this (Nat.not_lt_zero _)
  unfold indexOf
  rw [reinit_eq H t hn hne]
  simp [hi]

/-- `bitset_correct`: bit `j` of the branch's bitset is set iff the tip of rank `j` (position in
    the sorted tip names) lies below the branch. -/
theorem bitset_correct (H : String → UInt64) (t : T) (hn : t.tipNames.Nodup) (i : Nat) (hi : i < t.splits.length)
    (e : EdgeIdx) (he : indexOf H t i = some e) :
    e.bits.length = t.tipNames.length ∧
    ∀ (j : Nat) (hj : j < (sortNames t.tipNames).length),
      e.bits[j]? = some ((t.splits[i]).below.contains (sortNames t.tipNames)[j]) := by
  rw [indexOf_eq H t hn i hi] at he
  cases he
  refine ⟨by simp [specIdx, (sortNames_perm _).length_eq], ?_⟩
  intro j hj
  simp [specIdx, hj]

/-- `ntax_correct`: `NumTipsRight` / `NumTipsLeft` are the numbers of tips below / not below,
    and they add up to the number of tips. -/
theorem ntax_correct (H : String → UInt64) (t : T) (hn : t.tipNames.Nodup) (i : Nat) (hi : i < t.splits.length)
    (e : EdgeIdx) (he : indexOf H t i = some e) :
    e.nright = (t.splits[i]).below.length ∧ e.nleft = (compl t.tipNames (t.splits[i]).below).length ∧
    e.nleft + e.nright = t.tipNames.length := by
  rw [indexOf_eq H t hn i hi] at he
  cases he
  refine ⟨rfl, rfl, ?_⟩
  exact compl_length hn (below_sublist t _ (List.getElem_mem hi))

/-- `topoDepth_correct`: `TopoDepth` never fails after `ReinitIndexes` and is the size of the
    light side of the split. -/
theorem topoDepth_correct (H : String → UInt64) (t : T) (hn : t.tipNames.Nodup) (i : Nat) (hi : i < t.splits.length)
    (e : EdgeIdx) (he : indexOf H t i = some e) :
    e.topoDepth = some (specTopoDepth t.tipNames (t.splits[i]).below) := by
  have hm := List.getElem_mem hi
  have hp := below_proper t _ hm
  have hl := compl_length hn (below_sublist t _ hm)
  rw [indexOf_eq H t hn i hi] at he
  cases he
  unfold EdgeIdx.topoDepth specIdx specTopoDepth
  have h1 : ((compl t.tipNames t.splits[i].below).length == 0) = false := beq_eq_false_iff_ne.mpr (by omega)
  have h2 : (t.splits[i].below.length == 0) = false := beq_eq_false_iff_ne.mpr (by omega)
  simp only [h1, h2, Bool.or_self, Bool.false_eq_true, if_false, Nat.min_comm]

/-- The per-branch oracle of the driver (`branchOK`: bitset, both counts, depth) accepts what the model
    computes: oracle and model cannot disagree on a tree with unique tip names. -/
theorem model_passes_oracle (H : String → UInt64) (t : T) (hn : t.tipNames.Nodup) (i : Nat) (hi : i < t.splits.length)
    (e : EdgeIdx) (he : indexOf H t i = some e) :
    branchOK t.tipNames (t.splits[i]).below e.bits e.nleft e.nright (e.topoDepth.map fun (x : Nat) => (x : Int)) = true := by
  have htd := topoDepth_correct H t hn i hi e he
  rw [indexOf_eq H t hn i hi] at he
  cases he
  rw [htd]
  simp [branchOK, specIdx]

/-- `hash_sums`: the two-pass additive hashes are the sums of the name hashes over the tips
    below / not below the branch (wrap-around `uint64` sums). -/
theorem hash_sums (H : String → UInt64) (t : T) (hn : t.tipNames.Nodup) (i : Nat) (hi : i < t.splits.length)
    (e : EdgeIdx) (he : indexOf H t i = some e) :
    e.hright = sumH H (t.splits[i]).below ∧ e.hleft = sumH H (compl t.tipNames (t.splits[i]).below) := by
  rw [indexOf_eq H t hn i hi] at he
  cases he
  exact ⟨rfl, rfl⟩

/-- ★ `hashCode_split_invariant`: for every name hash `H`, two branches — of the same tree or of
    two trees on the same (uniquely named) taxa — that define the same split get the same
    `HashCode`, and `HashEquals` answers true: independent of the rooting, of the orientation of
    the branch (which side is "below") and of child order, since those only change the
    presentation `below` of the split. -/
theorem hashCode_split_invariant (H : String → UInt64) (t₁ t₂ : T)
    (hu₁ : t₁.tipNames.Nodup) (hu₂ : t₂.tipNames.Nodup) (hT : t₁.tipNames.Perm t₂.tipNames)
    (i j : Nat) (hi : i < t₁.splits.length) (hj : j < t₂.splits.length)
    (hs : sameSplit t₁.tipNames (t₁.splits[i]).below (t₂.splits[j]).below = true) :
    ∃ e₁ e₂, indexOf H t₁ i = some e₁ ∧ indexOf H t₂ j = some e₂ ∧
      e₁.hashCode = e₂.hashCode ∧ e₁.equals e₂ = true ∧ e₁.sameBipartition e₂ = true := by
  have S : Sides t₁.tipNames t₂.tipNames (t₁.splits[i]).below (t₂.splits[j]).below :=
    ⟨hu₁, hu₂, hT, below_sublist t₁ _ (List.getElem_mem hi), below_sublist t₂ _ (List.getElem_mem hj)⟩
  have hh := spec_hashCode_of_sameSplit H S hs
  have he := spec_equals_iff_sameSplit H S
  refine ⟨_, _, indexOf_eq H t₁ hu₁ i hi, indexOf_eq H t₂ hu₂ j hj, hh, by rw [he, hs], ?_⟩
  unfold EdgeIdx.sameBipartition
  rw [hh]
  unfold EdgeIdx.equals at he
  rw [he, hs]; simp

-- the same side in another order, and the complementary side
example : sameSplit exT.tipNames (exT.splits[0]).below (exTipRoot.splits[1]).below = true := by decide
example : sameSplit exT.tipNames (exT.splits[3]).below (exTipRoot.splits[1]).below = true := by decide

/-- (A corollary of `hashCode_split_invariant`, nothing more: the edit hypothesis is used only to know that
    the tips are the same.  It is not evidence for "after any edit" — `reinit` is a function of the tree
    alone, every field being overwritten before it is read; stale state is a matter for the oracle.)
    Re-rooting, unrooting and rotating (the models of C05, tied to `Reroot`, `UnRoot`,
    `RotateInternalNodes` there) keep the hash code of every split: a branch of the edited tree and a
    branch of the original that define the same split have the same `HashCode`, are `HashEquals` and
    `SameBipartition` after `ReinitIndexes` on both. -/
theorem edits_keep_hashes (H : String → UInt64) (t t' : T) (hu : t.tipNames.Nodup)
    (hop : (∃ p, C05.reroot t p = .ok t' ∧ C05.lensOK t = true) ∨
           (t' = C05.unroot t ∧ C05.lensOK t = true ∧ C05.supsOK t = true) ∨
           (∃ draws, t' = C05.rotate t draws ∧ C05.lensOK t = true))
    (i j : Nat) (hi : i < t.splits.length) (hj : j < t'.splits.length)
    (hs : sameSplit t.tipNames (t.splits[i]).below (t'.splits[j]).below = true) :
    ∃ e e', indexOf H t i = some e ∧ indexOf H t' j = some e' ∧
      e.hashCode = e'.hashCode ∧ e.equals e' = true ∧ e.sameBipartition e' = true := by
  have hu5 : C05.uniq t = true := by simp [C05.uniq, hu]
  have hperm : t'.tipNames.Perm t.tipNames := by
    -- (the three facts are `reroot_preserves` / `unroot_preserves` / `rotate_preserves` of C05, re-derived here from
    --  C05's lemma library so that this module does not depend on C05's proof module and its tables)
    rcases hop with ⟨p, h, hl⟩ | ⟨rfl, hl, hsup⟩ | ⟨draws, rfl, hl⟩
    · have ht : t' = (C05.rerootP t p none []).1 := by
        unfold C05.reroot at h
        cases hn : C05.nodeAt t p with
        | none => simp [hn] at h
        | some n =>
          simp only [hn] at h
          by_cases h2 : (if p.isEmpty then n.kids.length else n.kids.length + 1) < 2
          · rw [if_pos h2] at h; cases h
          · rw [if_neg h2] at h; cases h; rfl
      subst ht
      obtain ⟨s, _⟩ := C05.rerootP_same p t none [] ((C05.uniq_iff t).1 hu5) ((C05.lensOK_iff t).1 hl)
      exact s.spec.1
    · exact (C05.unroot_same t ((C05.uniq_iff t).1 hu5) ((C05.lensOK_iff t).1 hl) ((C05.supsOK_iff t).1 hsup)).spec.1
    · exact (C05.rotate_same t draws ((C05.lensOK_iff t).1 hl)).spec.1
  exact hashCode_split_invariant H t t' hu (hperm.nodup_iff.mpr hu) hperm.symm i j hi hj hs
/-- `equals_iff_sameSplit`: `HashEquals` and `SameBipartition` hold exactly for branches that define
    the same split. -/
theorem equals_iff_sameSplit (H : String → UInt64) (t₁ t₂ : T)
    (hu₁ : t₁.tipNames.Nodup) (hu₂ : t₂.tipNames.Nodup) (hT : t₁.tipNames.Perm t₂.tipNames)
    (i j : Nat) (hi : i < t₁.splits.length) (hj : j < t₂.splits.length)
    (e₁ e₂ : EdgeIdx) (h₁ : indexOf H t₁ i = some e₁) (h₂ : indexOf H t₂ j = some e₂) :
    e₁.equals e₂ = sameSplit t₁.tipNames (t₁.splits[i]).below (t₂.splits[j]).below ∧
    e₁.sameBipartition e₂ = sameSplit t₁.tipNames (t₁.splits[i]).below (t₂.splits[j]).below := by
  have S : Sides t₁.tipNames t₂.tipNames (t₁.splits[i]).below (t₂.splits[j]).below :=
    ⟨hu₁, hu₂, hT, below_sublist t₁ _ (List.getElem_mem hi), below_sublist t₂ _ (List.getElem_mem hj)⟩
  rw [indexOf_eq H t₁ hu₁ i hi] at h₁
  rw [indexOf_eq H t₂ hu₂ j hj] at h₂
  cases h₁; cases h₂
  have he := spec_equals_iff_sameSplit H S
  refine ⟨he, ?_⟩
  unfold EdgeIdx.sameBipartition
  unfold EdgeIdx.equals at he
  rw [he]
  cases hs : sameSplit t₁.tipNames (t₁.splits[i]).below (t₂.splits[j]).below with
  | false => simp
  | true => rw [spec_hashCode_of_sameSplit H S hs]; simp

/-- `FindEdge` finds a branch exactly when the other tree (same taxa) has a branch with the same
    split whose lower node is of the same kind (tip / inner), and never reports an error. -/
theorem findEdge_correct (H : String → UInt64) (t₁ t₂ : T)
    (hu₁ : t₁.tipNames.Nodup) (hu₂ : t₂.tipNames.Nodup) (hT : t₁.tipNames.Perm t₂.tipNames)
    (i : Nat) (hi : i < t₁.splits.length) (e₁ : EdgeIdx) (h₁ : indexOf H t₁ i = some e₁)
    (r₂ : List String × List EdgeIdx) (h₂ : reinit H t₂ = .ok r₂) :
    findEdge e₁ (t₁.splits[i]).tip (r₂.2.zip (t₂.splits.map (·.tip))) =
      some (specFindEdge t₁.tipNames (t₁.splits[i]).below (t₁.splits[i]).tip t₂.splits) := by
  have hm := List.getElem_mem hi
  have hb := below_sublist t₁ _ hm
  have hne₂ : t₂.tipNames ≠ [] := by
    intro h
    have h0 := (below_proper t₁ _ hm).2
    rw [hT.length_eq, h] at h0
    exact absurd h0 (Nat.not_lt_zero _)
  rw [indexOf_eq H t₁ hu₁ i hi] at h₁
  cases h₁
  rw [reinit_eq H t₂ hu₂ hne₂] at h₂
  cases h₂
  simp only [List.zip_map']
  unfold findEdge
  rw [spec_bits_not_all_zero H hb (below_proper t₁ _ hm).1]
  simp only [Bool.false_eq_true, if_false]
  exact findEdge_go_spec H _ hu₁ hu₂ hT hb t₂.splits
    fun s hs => ⟨below_sublist t₂ s hs, (below_proper t₂ s hs).1⟩

/-- `CommonEdges` (the glue over `FindEdge`) on two indexed trees on the same uniquely named taxa:
    never an error; `common` counts the considered branches of the first tree (inner ones, or all with
    `tipEdges`) whose split is carried by a branch of the same kind in the second, `tree1` the others. -/
theorem commonEdges_correct (H : String → UInt64) (t₁ t₂ : T)
    (hu₁ : t₁.tipNames.Nodup) (hu₂ : t₂.tipNames.Nodup) (hT : t₁.tipNames.Perm t₂.tipNames) (hne : t₁.tipNames ≠ [])
    (r₁ r₂ : List String × List EdgeIdx) (h₁ : reinit H t₁ = .ok r₁) (h₂ : reinit H t₂ = .ok r₂) (tipEdges : Bool) :
    commonEdges t₁.tipNames t₂.tipNames (r₁.2.zip (t₁.splits.map (·.tip))) (r₂.2.zip (t₂.splits.map (·.tip))) tipEdges =
      some (specCommon t₁.tipNames tipEdges t₁.splits t₂.splits) := by
  have hne₂ : t₂.tipNames ≠ [] := fun h => hne (List.length_eq_zero_iff.mp (by rw [hT.length_eq, h]; rfl))
  rw [reinit_eq H t₁ hu₁ hne] at h₁
  rw [reinit_eq H t₂ hu₂ hne₂] at h₂
  cases h₁; cases h₂
  have hc : compareTipIndexes t₁.tipNames t₂.tipNames = true := by
    unfold compareTipIndexes
    have l2 : t₂.tipNames.length ≠ 0 := fun h => hne₂ (List.length_eq_zero_iff.mp h)
    simp only [Bool.and_eq_true, Bool.not_eq_true', Bool.or_eq_false_iff, beq_eq_false_iff_ne, ne_eq,
      not_false_eq_true, l2, bne_eq_false_iff_eq, hT.length_eq, and_self, List.all_eq_true, true_and]
    intro x hx; exact List.contains_iff_mem.mpr (hT.mem_iff.mp hx)
  unfold commonEdges
  simp only [hc, Bool.not_true, Bool.false_eq_true, if_false, List.zip_map']
  have := commonEdgesLoop_spec H t₂ tipEdges hu₁ hu₂ hT t₁.splits
    (fun s hs => ⟨below_sublist t₁ s hs, (below_proper t₁ s hs).1⟩) 0 0
  simp only [Int.natCast_zero, Nat.zero_add] at this
  rw [this]
  unfold specCommon
  simp only [Option.some.injEq, Prod.mk.injEq, and_true]
  have hle := List.length_filter_le (fun s => specFindEdge t₁.tipNames s.below s.tip t₂.splits)
    (t₁.splits.filter fun s => tipEdges || !s.tip)
  omega

/-- the oracle's fast form of `sameSplit` (membership vectors) is `sameSplit` -/
theorem sameSplit_vec (all a b : List String) :
    sameSplit all a b = sameSplitV (memVec all a) (memVec all b) := sameSplit_eq_vec all a b

/-- F6 (before fix 6e33baa): `ReinitIndexes` on a tree whose root has a single neighbour
    dereferenced a nil branch; the repaired model indexes it. -/
theorem reinit_roottip_pinned_panics :
    reinitPinned fnv1a exTipRoot = none ∧ (∃ r, reinit fnv1a exTipRoot = .ok r) := by
  refine ⟨by decide, ?_⟩
  exact ⟨_, reinit_eq fnv1a exTipRoot (by decide) (by decide)⟩

/-! ## quartets -/

/-- ★ Quartets that `HashEquals` identifies (equal or conflicting: any of the 24
    presentations of the same four taxa) have the same `HashCode` — for all taxon
    indexes, distinct or not. -/
theorem q_hash_compat (a b : Quartet) (h : a.hashEquals b = true) : a.hashCode = b.hashCode := by
  unfold Quartet.hashCode
  rw [sorted4_of_hashEquals a b h]

example : Quartet.hashEquals ⟨7, 2, 9, 4⟩ ⟨9, 2, 4, 7⟩ = true ∧ Quartet.distinct ⟨7, 2, 9, 4⟩ = true := by decide

/-- `q_equals_iff_same_taxa`: `HashEquals` holds exactly for quartets on the same four taxa
    (as multisets): any of the 24 presentations, equal or conflicting topology. -/
theorem q_equals_iff_same_taxa (a b : Quartet) : a.hashEquals b = true ↔ a.taxa.Perm b.taxa :=
  ⟨perm_of_hashEquals a b, hashEquals_of_perm a b⟩

/-- the executable form used by the oracle -/
theorem q_equals_eq_sameTaxa (a b : Quartet) : a.hashEquals b = a.sameTaxa b := by
  rw [Bool.eq_iff_iff, q_equals_iff_same_taxa, Quartet.sameTaxa, List.isPerm_iff]

/-- `Compare` answers EQUALS for the same two unordered pairs, CONFLICT for the same taxa paired
    differently, DIFF otherwise — for all quartets. -/
theorem q_compare_spec (a b : Quartet) : a.compare b = a.specCompare b := by
  unfold Quartet.specCompare
  rw [← q_equals_eq_sameTaxa]
  exact cmp_abs _ _ _ _ _ _

/-- Quartets are lawful keys of `hashmap.HashMap` (`IndexQuartets`): `HashEquals` is an equivalence
    and compatible with `HashCode`, so `hm_refines` applies to a quartet-keyed map. -/
theorem quartet_keys_lawful : KeyLaws Quartet.hashCode Quartet.hashEquals := by
  refine ⟨?_, ?_, ?_, q_hash_compat⟩
  · intro a; exact (q_equals_iff_same_taxa a a).mpr (List.Perm.refl _)
  · intro a b h; exact (q_equals_iff_same_taxa b a).mpr ((q_equals_iff_same_taxa a b).mp h).symm
  · intro a b c h1 h2
    exact (q_equals_iff_same_taxa a c).mpr (((q_equals_iff_same_taxa a b).mp h1).trans ((q_equals_iff_same_taxa b c).mp h2))

/-- `Tree.Quartets(false, ·)` (post-order "right" lists, pre-order "left" lists concatenated in
    neighbour order with the parent at `ppos`, one quartet set per branch whose two ends have three
    neighbours, `iterate`) delivers exactly the quartets of the tree — two tips away from the branch,
    two tips below it — as a multiset, for every tree with unique tip names whose root is not a tip. -/
theorem quartets_plain_correct (rank : String → Nat) (t : T) (hn : t.tipNames.Nodup) (hr : t.kids.length ≠ 1) :
    ((quartets rank false t).map Quartet.canon).Perm ((specQuartets rank false t).map Quartet.canon) :=
  quartets_plain_eq rank t hn hr

/-- The same for both modes of `Quartets`: with `specific` the quartets take one tip behind each of two
    other branches of the upper node and one tip below each of two child branches of the lower node
    (`iterate`'s eight nested loops over the branch groups, the parent's group being the "left" list). -/
theorem quartets_correct (rank : String → Nat) (specific : Bool) (t : T) (hn : t.tipNames.Nodup) (hr : t.kids.length ≠ 1) :
    ((quartets rank specific t).map Quartet.canon).Perm ((specQuartets rank specific t).map Quartet.canon) :=
  quartets_eq rank specific t hn hr

/-- an unrooted example with quartets: ((A,B),C,D,E) -/
def exU : T := .node ⟨"", []⟩ 0
  [(⟨1, NIL, NIL, [], 0⟩, .node ⟨"", []⟩ 0 [(⟨1, NIL, NIL, [], 1⟩, .leaf "A"), (⟨2, NIL, NIL, [], 2⟩, .leaf "B")]),
   (⟨1, NIL, NIL, [], 3⟩, .leaf "C"), (⟨1, NIL, NIL, [], 4⟩, .leaf "D"), (⟨1, NIL, NIL, [], 5⟩, .leaf "E")]

example : exU.tipNames.Nodup ∧ exU.kids.length ≠ 1 ∧
    (quartets (fun x => (sortNames exU.tipNames).idxOf x) false exU).length = 3 := by decide

/-- a root that is a tip: `postOrderQuartetSet` stops at the root and nothing is enumerated, whereas
    the same topology rooted on the inner node has its three quartets -/
theorem quartets_roottip_empty :
    quartets (fun x => (sortNames exTipRoot.tipNames).idxOf x) false exTipRoot = [] ∧
    quartets (fun x => (sortNames exU.tipNames).idxOf x) false exU ≠ [] := by
  decide

/-- F9 (before fix cf649d5): two presentations of one quartet that `HashEquals` identifies
    got different hash codes. -/
theorem q_hash_pinned_fails :
    Quartet.hashEquals ⟨1, 2, 3, 4⟩ ⟨3, 4, 1, 2⟩ = true ∧
    Quartet.hashCodePinned ⟨1, 2, 3, 4⟩ ≠ Quartet.hashCodePinned ⟨3, 4, 1, 2⟩ := by
  decide

/-! ## the hash map -/

/-- ★ `hashmap.HashMap` behaves like a plain association list: for every initial
    capacity (0 means one bucket since fix b2a7fc8), every rehash policy, every key type
    whose `HashEquals` is an equivalence compatible with `HashCode`, and every script of
    `PutValue` / `Value` / `KeyValues`, the replies are those of the association list
    (`KeyValues` up to order) — in particular no reply is a panic. -/
theorem hm_refines {κ ν : Type} {hash : κ → UInt64} {eqv : κ → κ → Bool} (L : KeyLaws hash eqv)
    (cap : Nat) (policy : Nat → Nat → Bool) (ops : List (HMOp κ ν)) :
    HMOut.simL (HM.run hash eqv policy ops (HM.new cap)) (Assoc.run eqv ops []) := by
  apply run_refines L policy ops _ _ (inv_new cap)
  · rw [flatten_new]
  · exact List.Pairwise.nil

/-- `EdgeIndex` scripts (`AddEdgeCount` / `PutEdgeValue` / `Value` / `Edges`) answer exactly like a
    plain map keyed by the key's equivalence class, for every capacity and rehash policy. -/
theorem ei_refines {κ : Type} {hash : κ → UInt64} {eqv : κ → κ → Bool} (L : KeyLaws hash eqv)
    (cap : Nat) (policy : Nat → Nat → Bool) (ops : List (EIOp κ)) :
    EI.run hash eqv policy ops (HM.new cap) = Assoc.runEI eqv ops [] := by
  apply ei_run_refines L policy ops _ _ (inv_new cap)
  · rw [flatten_new]
  · exact List.Pairwise.nil

/-- `edgeIndex_counts`: after `AddEdgeCount` over any list of branches, looking a branch up finds
    the number of inserted branches equal to it and the sum of their lengths (nothing if none). -/
theorem edgeIndex_counts {κ : Type} {hash : κ → UInt64} {eqv : κ → κ → Bool} (L : KeyLaws hash eqv)
    (cap : Nat) (policy : Nat → Nat → Bool) (es : List (κ × Rat)) (k : κ) :
    EI.run hash eqv policy (es.map (fun e => EIOp.add e.1 e.2) ++ [.value k]) (HM.new cap) =
      List.replicate es.length EIOut.unit ++
        [.val (if countOf eqv k es = 0 then none else some ⟨(countOf eqv k es : Nat), lenOf eqv k es⟩)] := by
  rw [ei_refines L, runEI_adds]
  simp only [Assoc.runEI, get_addAll L, Assoc.get, merged]

/-- The keys of the split index are lawful: on the index records of the branches of trees on one
    set of uniquely named taxa (`specIdx` of a sub-list of the tips — what `ReinitIndexes` computes,
    theorem `indexOf_eq`), `HashEquals` is an equivalence and equal keys have equal `HashCode`.
    So `hm_refines`, `ei_refines` and `edgeIndex_counts` apply to `tree.EdgeIndex`. -/
theorem edge_keys_lawful (H : String → UInt64) (tips : List String) (hn : tips.Nodup) :
    KeyLaws (κ := { b : List String // b.Sublist tips })
      (fun b => (specIdx H tips b.1).hashCode)
      (fun b b' => (specIdx H tips b.1).equals (specIdx H tips b'.1)) := by
  have S : ∀ b b' : { b : List String // b.Sublist tips }, Sides tips tips b.1 b'.1 :=
    fun b b' => ⟨hn, hn, List.Perm.refl _, b.2, b'.2⟩
  refine ⟨?_, ?_, ?_, ?_⟩
  · intro a; rw [spec_equals_iff_sameSplit H (S a a)]; exact sameSplit_refl _ _
  · intro a b h
    rw [spec_equals_iff_sameSplit H (S a b)] at h
    rw [spec_equals_iff_sameSplit H (S b a)]; exact sameSplit_symm h
  · intro a b c h1 h2
    rw [spec_equals_iff_sameSplit H (S a b)] at h1
    rw [spec_equals_iff_sameSplit H (S b c)] at h2
    rw [spec_equals_iff_sameSplit H (S a c)]; exact sameSplit_trans h1 h2
  · intro a b h
    rw [spec_equals_iff_sameSplit H (S a b)] at h
    exact spec_hashCode_of_sameSplit H (S a b) h

/-- `tree.EdgeIndex` as the driver runs it — keys are the index records of branches of trees on one set
    of uniquely named taxa, hashed by `HashCode`, compared by `HashEquals` — answers every script of
    `AddEdgeCount` / `PutEdgeValue` / `Value` / `Edges` exactly like a plain map keyed by the *split*
    (`sameSplit`), for every capacity and rehash policy. -/
theorem edgeIndex_on_trees (H : String → UInt64) (tips : List String) (hn : tips.Nodup)
    (cap : Nat) (policy : Nat → Nat → Bool) (ops : List (EIOp { b : List String // b.Sublist tips })) :
    EI.run EdgeIdx.hashCode EdgeIdx.equals policy
        (ops.map (EIOp.mapKey fun b => specIdx H tips b.1)) (HM.new cap) =
      Assoc.runEI (fun b b' => sameSplit tips b.1 b'.1) ops [] := by
  rw [← new_map (fun (b : { b : List String // b.Sublist tips }) => specIdx H tips b.1), ei_run_map]
  rw [ei_refines (edge_keys_lawful H tips hn)]
  congr 1
  funext b b'
  exact spec_equals_iff_sameSplit H ⟨hn, hn, List.Perm.refl _, b.2, b'.2⟩

/-- `hashmap.HashMap` keyed by index records of branches (as `Compare`, the consensus and the supports use
    it, and as the driver runs it): every `PutValue` / `Value` / `KeyValues` / `Keys` script answers like a
    plain map keyed by the split, for every capacity and rehash policy. -/
theorem hashmap_on_trees {ν : Type} (H : String → UInt64) (tips : List String) (hn : tips.Nodup)
    (cap : Nat) (policy : Nat → Nat → Bool) (ops : List (HMOp { b : List String // b.Sublist tips } ν)) :
    HMOut.simL
      (HM.run EdgeIdx.hashCode EdgeIdx.equals policy (ops.map (HMOp.mapKey fun b => specIdx H tips b.1)) (HM.new cap))
      ((Assoc.run (fun b b' => sameSplit tips b.1 b'.1) ops []).map (HMOut.mapKey fun b => specIdx H tips b.1)) := by
  rw [← new_map (fun (b : { b : List String // b.Sublist tips }) => specIdx H tips b.1), hm_run_map]
  apply simL_map
  have hE : (fun (b b' : { b : List String // b.Sublist tips }) => sameSplit tips b.1 b'.1) =
      fun b b' => (specIdx H tips b.1).equals (specIdx H tips b'.1) := by
    funext b b'
    exact (spec_equals_iff_sameSplit H ⟨hn, hn, List.Perm.refl _, b.2, b'.2⟩).symm
  rw [hE]
  exact hm_refines (edge_keys_lawful H tips hn) cap policy ops

/-- Keys coming from SEVERAL trees on the same taxa (each with its own tip order — rotated, re-rooted or
    different trees): the index records of all their branches form a lawful key set — `HashEquals` is
    "same split of `tips`" and compatible with `HashCode`. -/
theorem tree_keys_lawful (H : String → UInt64) (tips : List String) (hn : tips.Nodup) :
    KeyLaws (κ := TreeKey tips) (fun k => (k.idx H).hashCode) (fun k k' => (k.idx H).equals (k'.idx H)) := by
  refine ⟨?_, ?_, ?_, ?_⟩
  · intro a; rw [TreeKey.equals_eq H hn]; exact sameSplit_refl _ _
  · intro a b h
    rw [TreeKey.equals_eq H hn] at h ⊢; exact sameSplit_symm h
  · intro a b c h1 h2
    rw [TreeKey.equals_eq H hn] at h1 h2 ⊢; exact sameSplit_trans h1 h2
  · intro a b h
    have hs : sameSplit a.order a.below b.below = true := by
      rw [sameSplit_perm a.perm]; rw [TreeKey.equals_eq H hn] at h; exact h
    exact spec_hashCode_of_sameSplit H (TreeKey.sides hn a b) hs

/-- every branch of every tree on the taxa is such a key, and its record after `ReinitIndexes` is the key's -/
theorem branch_is_treeKey (H : String → UInt64) (tips : List String) (t : T) (hn : t.tipNames.Nodup)
    (hp : t.tipNames.Perm tips) (i : Nat) (hi : i < t.splits.length) :
    ∃ k : TreeKey tips, k.order = t.tipNames ∧ k.below = (t.splits[i]).below ∧ indexOf H t i = some (k.idx H) :=
  ⟨⟨t.tipNames, (t.splits[i]).below, hp, below_sublist t _ (List.getElem_mem hi)⟩, rfl, rfl, indexOf_eq H t hn i hi⟩

/-- `tree.EdgeIndex` over the branches of any number of trees on the same uniquely named taxa (what the
    consensus, the supports and the driver's `several-trees` scripts do): every script answers like a plain
    map keyed by the split of `tips`, for every capacity and rehash policy. -/
theorem edgeIndex_across_trees (H : String → UInt64) (tips : List String) (hn : tips.Nodup)
    (cap : Nat) (policy : Nat → Nat → Bool) (ops : List (EIOp (TreeKey tips))) :
    EI.run EdgeIdx.hashCode EdgeIdx.equals policy (ops.map (EIOp.mapKey fun k => k.idx H)) (HM.new cap) =
      Assoc.runEI (fun k k' => sameSplit tips k.below k'.below) ops [] := by
  rw [← new_map (fun (k : TreeKey tips) => k.idx H), ei_run_map]
  rw [ei_refines (tree_keys_lawful H tips hn)]
  congr 1
  funext a b
  exact TreeKey.equals_eq H hn a b

/-- the same for `hashmap.HashMap` scripts (`PutValue` / `Value` / `KeyValues` / `Keys`) -/
theorem hashmap_across_trees {ν : Type} (H : String → UInt64) (tips : List String) (hn : tips.Nodup)
    (cap : Nat) (policy : Nat → Nat → Bool) (ops : List (HMOp (TreeKey tips) ν)) :
    HMOut.simL
      (HM.run EdgeIdx.hashCode EdgeIdx.equals policy (ops.map (HMOp.mapKey fun k => k.idx H)) (HM.new cap))
      ((Assoc.run (fun k k' => sameSplit tips k.below k'.below) ops []).map (HMOut.mapKey fun k => k.idx H)) := by
  rw [← new_map (fun (k : TreeKey tips) => k.idx H), hm_run_map]
  apply simL_map
  have hE : (fun (k k' : TreeKey tips) => sameSplit tips k.below k'.below) =
      fun k k' => (k.idx H).equals (k'.idx H) := by
    funext a b; exact (TreeKey.equals_eq H hn a b).symm
  rw [hE]
  exact hm_refines (tree_keys_lawful H tips hn) cap policy ops

-- two trees with different tip orders (`exT`, `exTipRoot`): a branch of each as keys over `exT.tipNames`
example : ∃ a b : TreeKey exT.tipNames, a.order = exT.tipNames ∧ b.order = exTipRoot.tipNames ∧
    a.order ≠ b.order ∧ sameSplit exT.tipNames a.below b.below = true :=
  ⟨⟨exT.tipNames, (exT.splits[0]).below, List.Perm.refl _, by decide⟩,
   ⟨exTipRoot.tipNames, (exTipRoot.splits[1]).below, (List.isPerm_iff.mp (by decide)), by decide⟩,
   rfl, rfl, by decide, by decide⟩

/-- `IndexQuartets`: for every capacity (the code's 12 800 000 included) and rehash policy the map holds
    one entry per set of four taxa — first quartet met as key, last one as value (`specIndexQuartets`),
    up to the order of `KeyValues`. -/
theorem indexQuartets_plain_map (policy : Nat → Nat → Bool) (cap : Nat) (qs : List Quartet) :
    HMOut.simL (indexQuartets policy cap qs)
      (List.replicate qs.length HMOut.unit ++ [.kvs (specIndexQuartets qs)]) := by
  unfold indexQuartets specIndexQuartets
  rw [← assoc_run_puts]
  exact hm_refines quartet_keys_lawful cap policy _

/-- F36 (before fix b2a7fc8): a map created with capacity 0 panics on the first `PutValue`. -/
theorem hm_cap0_pinned_panics (hash : Nat → UInt64) (eqv : Nat → Nat → Bool) (policy : Nat → Nat → Bool) (k v : Nat) :
    HM.run hash eqv policy [.put k v] (HM.newPinned 0) = [.panic] := by
  simp [HM.run, HM.put, HM.newPinned]

/-! ## `Edge.DumpBitSet` and `gotree stats splits` -/

/-- `dumpBitSet_correct`: on a tree with unique tip names (any number of tips since fix 405e36d), after `ReinitIndexes`
    the dump of every branch (`Edge.DumpBitSet`, what `gotree stats splits` prints after the tree number) shows one
    digit per tip in the order of the header — the sorted names from the last to the first — '1' exactly for the
    tips below the branch, then a dot. -/
theorem dumpBitSet_correct (H : String → UInt64) (t : T) (hn : t.tipNames.Nodup)
    (i : Nat) (hi : i < t.splits.length) (e : EdgeIdx) (he : indexOf H t i = some e) :
    dumpBitSet (some e.bits) = specDumpLine t.tipNames (t.splits[i]).below := by
  rw [indexOf_eq H t hn i hi] at he
  cases he
  exact dumpBitSet_spec H _ _

/-- `statsSplits_correct`: the body of `gotree stats splits` for one tree with unique tip names prints the header
    (`Tree<TAB>` and the sorted names from the last to the first joined by `|`) and, per branch in `Edges()` order,
    the tree number, a tab and one aligned digit per tip followed by a dot — never an error. -/
theorem statsSplits_correct (id : Nat) (t : T) (hn : t.tipNames.Nodup) (hne : t.tipNames ≠ []) :
    statsSplits id t = .ok (specSplitsHeader t.tipNames ++ "\n" ++
      String.join (t.splits.map fun s => toString id ++ "\t" ++ specDumpLine t.tipNames s.below ++ "\n")) :=
  statsSplits_eq id t hn hne

-- five tips, the two lowest ranks below the branch
example : dumpBitSetL (some [true, true, false, false, false]) = ['0', '0', '0', '1', '1', '.'] := by decide
example : exT.tipNames.Nodup ∧ exT.tipNames ≠ [] := by decide

/-- Fix 405e36d changes nothing up to 64 tips: the pinned `DumpBitSet` (slice of `DumpAsBits`) printed the same. -/
theorem dumpBitSet_pinned_le64 (b : List Bool) (h1 : 1 ≤ b.length) (h2 : b.length ≤ 64) :
    dumpBitSetPinnedL (some b) = some (dumpBitSetL (some b)) := by
  rw [dumpBitSetPinnedL_le64 b h1 h2, dumpBitSetL_eq]

/-- the pinned `DumpBitSet` never panicked on the bitsets `ClearBitSets` creates: it returned `Len + 1` characters
    (one of them a dot per 64-bit word, hence too few digits above 64 tips) -/
theorem dumpBitSet_pinned_total (b : List Bool) (h1 : 1 ≤ b.length) :
    ∃ s, dumpBitSetPinnedL (some b) = some s ∧ s.length = b.length + 1 := dumpBitSetPinnedL_total b h1

set_option maxRecDepth 8000 in
/-- F95 (before fix 405e36d): above 64 tips `DumpBitSet` kept the last `Len+1` characters of a dump that holds one dot
    per 64-bit word, so one leading digit was lost per word above the first: with 65 tips the bitset of the branch
    above the tip of rank 64 and the empty bitset printed the same 66 characters — `gotree stats splits` showed that
    tip's own branch as all zeros.  The repaired model tells them apart. -/
theorem dumpBitSet_pinned_fails :
    dumpBitSetPinnedL (some (mkBits 65 [64])) = dumpBitSetPinnedL (some (mkBits 65 [])) ∧
    dumpBitSetL (some (mkBits 65 [64])) ≠ dumpBitSetL (some (mkBits 65 [])) ∧
    (dumpBitSetPinnedL (some (mkBits 65 [64]))).map (·.length) = some 66 ∧
    (dumpBitSetL (some (mkBits 65 [64]))).length = 66 := by
  refine ⟨by decide, by decide, by decide, by decide⟩

/-! ## node depths (`ComputeDepths`, the last step of `ReinitIndexes` / `ReinitInternalIndexes`) -/

/-- On a rooted tree (root with two neighbours) `ComputeDepths` — `computeDepthRecurRooted`: tips 0, else one more than
    the least depth among the children — gives every node its distance to the closest tip below it, whatever depths
    the nodes carried before. -/
theorem computeDepths_rooted (t : T) (hr : t.kids.length = 2) (before : List Int) :
    computeDepths t before = specDepths t := by
  simp [computeDepths, specDepths, hr, (depthRootedT_eq t).1]

/-- ((t3,t5),(t0,t4),t2) — what ((t2,t1),(t3,t5),(t0,t4)) becomes when t1 is removed -/
def exDepth : T := .node ⟨"", []⟩ 0
  [(⟨1, NIL, NIL, [], 0⟩, .node ⟨"", []⟩ 0 [(⟨1, NIL, NIL, [], 1⟩, .leaf "t3"), (⟨1, NIL, NIL, [], 2⟩, .leaf "t5")]),
   (⟨1, NIL, NIL, [], 3⟩, .node ⟨"", []⟩ 0 [(⟨1, NIL, NIL, [], 4⟩, .leaf "t0"), (⟨1, NIL, NIL, [], 5⟩, .leaf "t4")]),
   (⟨1, NIL, NIL, [], 6⟩, .leaf "t2")]

/-- F98 (before fix 7dc6678): on a tree that is not rooted `computeDepthUnRooted` filled only the depths that were
    still unset.  On fresh nodes it gave the distance to the closest tip (here 1 for the root, which touches t2); on
    nodes that carried the depths of the shape before the edit (root 2) it changed nothing.  The repaired model
    forgets them first. -/
theorem computeDepths_unrooted_pinned_fails :
    computeDepthsPinned exDepth [-1, -1, -1, -1, -1, -1, -1, -1] = specDepths exDepth ∧
    specDepths exDepth = [1, 1, 0, 0, 1, 0, 0, 0] ∧
    computeDepthsPinned exDepth [2, 1, 0, 0, 1, 0, 0, 0] = [2, 1, 0, 0, 1, 0, 0, 0] ∧
    computeDepths exDepth [2, 1, 0, 0, 1, 0, 0, 0] = specDepths exDepth := by decide

/-- since 7dc6678 the depths carried before the call do not matter, rooted or not (same number of nodes) -/
theorem computeDepths_forgets (t : T) (b b' : List Int) (h : b.length = b'.length) :
    computeDepths t b = computeDepths t b' := by
  have : (b.map fun _ => (-1 : Int)) = b'.map fun _ => (-1 : Int) := by
    rw [List.map_const', List.map_const', h]
  simp only [computeDepths, this]

/-! ## facts about the source, regenerated on every run (`vh gen-tables`, harness/c04/extract.go) -/

/-- Table (a) `Gen.C04Facts.reach`: every edit of the histories that the harness reads "straight after its own
    recompute" (and `ReinitIndexes` / `ReinitInternalIndexes` themselves) still reaches, through calls inside
    package tree, the index routines the model runs for it (`Facts.assumedReach`).  When this fails, an edit has
    stopped recomputing something: the `own-recompute` cases of `C04.index` are the replay (stale bitsets, counts
    or ranks are judged there against the splits of the edited tree). -/
theorem recompute_table_check :
    Facts.reachOK Gotree.Gen.C04Facts.reach = true ∧ Gotree.Gen.C04Facts.problems = [] := by decide

/-- Table (b) `Gen.C04Facts.facts`: the one-line decisions the model copies by hand — the
    rehash test (`>=`, float64 product) and growth factor 2, `NewHashMap`'s size 0 → 1, the three-way choice of
    `Edge.HashCode`, `HashEquals`, `SameBipartition`, `TopoDepth`, the filter of `EdgeIndex.Edges`, the five
    compare-and-swap steps and the polynomial of `Quartet.HashCode`, `fnv.New64a`, the bytewise comparator of
    `SortedTips`, the capacity of `IndexQuartets`, the width `ClearBitSets` gives the bitsets — read today as
    `Facts.assumedFacts` says.  When this fails, the listed function was rewritten: the generated cases (hm / ei /
    pairs / quartet, every capacity and tie) look for a failing input; if none is found the model must be re-read. -/
theorem facts_table_check : Facts.factsDiff Gotree.Gen.C04Facts.facts = [] := by decide

/-- Table (c) `Gen.C04Facts.sem` / `hashCodeChain`: the expressions of `indexFor`, of the guard and value of
    `Edge.TopoDepth`, of the filter of `EdgeIndex.Edges` and the decision list of `Edge.HashCode`, handed over as terms
    and EVALUATED on probes (uint64 wrap-around for the hashes): they compute what `indexFor`, `EdgeIdx.topoDepth`,
    `eiKeep` and `EdgeIdx.hashCode` of the model compute.  An equivalent rewrite of the Go expression stays green; a
    change of meaning fails here and the hm / ei / pairs cases look for the failing input. -/
theorem sem_table_check :
    Facts.indexForOK (Facts.semLookup Gotree.Gen.C04Facts.sem "indexFor.ret") = true ∧
    Facts.topoDepthOK (Facts.semLookup Gotree.Gen.C04Facts.sem "Edge.TopoDepth.err")
      (Facts.semLookup Gotree.Gen.C04Facts.sem "Edge.TopoDepth.ret") = true ∧
    Facts.edgesKeepOK (Facts.semLookup Gotree.Gen.C04Facts.sem "EdgeIndex.Edges.keep") = true ∧
    Facts.hashCodeOK Gotree.Gen.C04Facts.hashCodeChain = true := by
  refine ⟨by decide, by decide, by decide, by decide⟩

end Gotree.C04
