/-
  C13 — a SPECIFICATION writer for PhyloXML documents in forms gotree's own writer never emits but its
  reader accepts: the node name given by `<name>`, by `<taxonomy><scientific_name>`, by
  `<taxonomy><code>`, by both (the scientific name wins), by `<name>` next to a taxonomy (the name
  wins), by a repeated `<name>` (the last wins); and elements the reader does not know (`<color>`,
  `<events>`, `<date>` …) in front of every clade's own fields; white space `padL`, `padR` around every
  number.  It is not a model of Go code: it
  describes input documents (element level, like `Px.encode`) for the theorem that the reader model
  (`Px.decode`, `cladeToTree`) gives the trees back (`phyloxml_forms_roundtrip`).  The harness produces
  these forms in its `foreignpx` cases.
  Core Lean only.
-/
import Gotree.Model.C13

namespace Gotree.C13
open Gotree
namespace Px

/-- how the name of a node is written -/
inductive NameStyle where
  | name | sci | code | sciCode | nameTax | twice
  deriving Repr, DecidableEq, Inhabited

def el (tag : String) (s : String) : Xml := .elem tag [] [.text s]

def nameElemsAlt (s : NameStyle) (name : String) : List Xml :=
  if name != "" then
    match s with
    | .name => [el "name" name]
    | .sci => [.elem "taxonomy" [] [el "scientific_name" name]]
    | .code => [.elem "taxonomy" [] [.elem "id" [("provider", "x")] [.text "7"], el "code" name]]
    | .sciCode => [.elem "taxonomy" [] [el "code" "ZZZ", el "scientific_name" name]]
    | .nameTax => [.elem "taxonomy" [] [el "scientific_name" "Y y", el "code" "ZZZ"], el "name" name]
    | .twice => [el "name" "zz", el "name" name]
  else []

mutual
/-- a clade: unknown elements `junk`, the name in the style `sty` chooses for it, length and support where
    `writeClade` writes them but padded with `padL`, `padR`, the sub-clades -/
def encCladeAlt (N : NumCodec) (sty : String → NameStyle) (junk : List Xml) (padL padR : Txt) : Option EdgeD → T → Xml
  | oe, .node d _ k =>
    .elem "clade" []
      (junk ++ (nameElemsAlt (sty d.name) d.name ++
       (match oe with
        | none => []
        | some e =>
          (if e.len != NIL then [.elem "branch_length" [] [txt (padL ++ (N.fmt e.len ++ padR))]] else []) ++
          (if !k.isEmpty && e.sup != NIL then [.elem "confidence" [("type", "bootstrap")] [txt (padL ++ (N.fmt e.sup ++ padR))]] else [])) ++
       encKidsAlt N sty junk padL padR k))
def encKidsAlt (N : NumCodec) (sty : String → NameStyle) (junk : List Xml) (padL padR : Txt) : Kids → List Xml
  | [] => []
  | (e, t) :: r => encCladeAlt N sty junk padL padR (some e) t :: encKidsAlt N sty junk padL padR r
end

def encPhylogenyAlt (N : NumCodec) (sty : String → NameStyle) (junk : List Xml) (padL padR : Txt) (t : T) : Xml :=
  .elem "phylogeny" [("rooted", if t.rooted then "true" else "false")] [encCladeAlt N sty junk padL padR none t]

def encodeAlt (N : NumCodec) (sty : String → NameStyle) (junk : List Xml) (padL padR : Txt) (ts : List T) : Xml :=
  .elem "phyloxml" [] (ts.map (encPhylogenyAlt N sty junk padL padR))

/-- the unknown elements carry none of the tags the reader follows inside a clade -/
def junkOK (junk : List Xml) : Bool :=
  ["name", "branch_length", "confidence", "taxonomy", "clade"].all fun tag => (childrenTagged tag junk).isEmpty

/-- white space in the sense of `trim` -/
def padOK (p : Txt) : Bool := p.all fun c => c == ' ' || c == '\t' || c == '\n' || c == '\r'

end Px
end Gotree.C13
