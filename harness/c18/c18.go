// Package c18: determinism.  Every command template (gotree binary, ≥ 2 separate
// processes, same --seed) and every library template (same call repeated inside one
// process on freshly parsed inputs) is run several times on the same generated input;
// the case line carries the request (template, arguments, input files — enough to
// re-execute it) and one digest per run (threaded templates: the records themselves);
// the Lean Spec oracle is "one distinct output" ("equal up to record order" when threaded).
package c18

import (
	"context"
	"crypto/sha1"
	"fmt"
	"os"
	"os/exec"
	"path/filepath"
	"sort"
	"strings"
	"time"

	"verifharness/core"

	gotreecmd "github.com/evolbioinfo/gotree/cmd"
)

// a request: everything needed to re-execute a case
type request struct {
	kind     string // cli | lib
	tpl      string
	threaded bool
	args     []string          // cli: arguments with @in:NAME@ / @out:NAME@ placeholders; lib: parameters
	files    map[string]string // input files by NAME
	early    *runOut           // cli: one run made more than a second before the others (see earlyRuns)
}

func encFiles(m map[string]string) string {
	names := make([]string, 0, len(m))
	for k := range m {
		names = append(names, k)
	}
	sort.Strings(names)
	var l []string
	for _, k := range names {
		l = append(l, k+"="+m[k])
	}
	return core.StrList(l)
}

func decList(s string) []string {
	var out []string
	if s == "" {
		return out
	}
	parts := strings.Split(s, ",")
	for _, p := range parts[:len(parts)-1] {
		u, err := core.Unescape(p)
		if err != nil {
			panic(err)
		}
		out = append(out, u)
	}
	return out
}

func decFiles(s string) map[string]string {
	m := map[string]string{}
	for _, e := range decList(s) {
		i := strings.Index(e, "=")
		if i < 0 {
			continue
		}
		m[e[:i]] = e[i+1:]
	}
	return m
}

func digest(s string) string {
	return fmt.Sprintf("%x", sha1.Sum([]byte(s)))[:16]
}

type runOut struct {
	mode string // proc | lib
	blob string
}

// one execution of the gotree binary in a fresh process and a fresh directory
func runCLIOnce(c *core.Ctx, r *request, n int) runOut {
	dir := filepath.Join(c.Tmp, fmt.Sprintf("c18_%d_%d", os.Getpid(), n))
	os.MkdirAll(dir, 0755)
	defer os.RemoveAll(dir)
	for name, content := range r.files {
		if err := os.WriteFile(filepath.Join(dir, "in_"+name), []byte(content), 0644); err != nil {
			panic(err)
		}
	}
	var outs []string
	args := make([]string, len(r.args))
	for i, a := range r.args {
		for {
			j := strings.Index(a, "@in:")
			if j < 0 {
				break
			}
			k := strings.Index(a[j+4:], "@")
			name := a[j+4 : j+4+k]
			a = a[:j] + filepath.Join(dir, "in_"+name) + a[j+4+k+1:]
		}
		for {
			j := strings.Index(a, "@out:")
			if j < 0 {
				break
			}
			k := strings.Index(a[j+5:], "@")
			name := a[j+5 : j+5+k]
			outs = append(outs, name)
			a = a[:j] + filepath.Join(dir, "out_"+name) + a[j+5+k+1:]
		}
		args[i] = a
	}
	// configurations: the separate processes do not all get the same number of OS threads
	switch n % 3 {
	case 0:
		os.Setenv("GOMAXPROCS", "1")
	case 1:
		os.Setenv("GOMAXPROCS", "4")
	default:
		os.Unsetenv("GOMAXPROCS")
	}
	// … nor the same garbage-collection rhythm (other heap addresses and allocation order)
	switch n % 4 {
	case 0:
		os.Setenv("GOGC", "1")
	case 1:
		os.Setenv("GOGC", "off")
	default:
		os.Unsetenv("GOGC")
	}
	// … nor the same user environment: none of these is an input, an option or the seed
	envKeys := []string{"TZ", "LANG", "LC_ALL", "USER", "LOGNAME", "COLUMNS", "LINES", "TERM", "HOSTNAME"}
	saved := map[string]*string{}
	for _, k := range envKeys {
		if v, ok := os.LookupEnv(k); ok {
			vv := v
			saved[k] = &vv
		} else {
			saved[k] = nil
		}
	}
	if n%2 == 1 {
		// UTC+14 and UTC-12 are never on the same calendar day: a local DATE written into the output differs
		// between these two runs at any moment
		tz := "Pacific/Kiritimati"
		if n%4 == 3 {
			tz = "Etc/GMT+12"
		}
		for k, v := range map[string]string{"TZ": tz, "LANG": "fr_FR.UTF-8", "LC_ALL": "fr_FR.UTF-8", "USER": "someoneelse", "LOGNAME": "someoneelse",
			"COLUMNS": "40", "LINES": "10", "TERM": "dumb", "HOSTNAME": "otherhost"} {
			os.Setenv(k, v)
		}
	}
	res := c.RunCLI("", 60*time.Second, args...)
	for _, k := range envKeys {
		if saved[k] == nil {
			os.Unsetenv(k)
		} else {
			os.Setenv(k, *saved[k])
		}
	}
	os.Unsetenv("GOMAXPROCS")
	os.Unsetenv("GOGC")
	var b strings.Builder
	if res.Timeout {
		b.WriteString("exit=timeout\n")
	} else {
		fmt.Fprintf(&b, "exit=%d\n", res.Exit)
	}
	b.WriteString(strings.ReplaceAll(res.Stdout, dir, "@DIR@"))
	// every file the command created in its directory, in name order (prefix-named outputs included)
	ents, _ := os.ReadDir(dir)
	var names []string
	for _, e := range ents {
		if strings.HasPrefix(e.Name(), "out_") {
			names = append(names, e.Name())
		}
	}
	sort.Strings(names)
	for _, nm := range names {
		content, _ := os.ReadFile(filepath.Join(dir, nm))
		fmt.Fprintf(&b, "--file %s--\n", nm)
		b.WriteString(dropLogDates(nm, strings.ReplaceAll(string(content), dir, "@DIR@")))
	}
	return runOut{"proc", b.String()}
}

// the same command line executed twice INSIDE ONE PROCESS (cmd.RootCmd, as the gotree console does):
// a child process (re-exec of the harness) runs both, since commands may call os.Exit
func runInprocPair(c *core.Ctx, r *request, n int) []runOut {
	dir := filepath.Join(c.Tmp, fmt.Sprintf("c18i_%d_%d", os.Getpid(), n))
	os.MkdirAll(dir, 0755)
	defer os.RemoveAll(dir)
	for name, content := range r.files {
		if err := os.WriteFile(filepath.Join(dir, "in_"+name), []byte(content), 0644); err != nil {
			panic(err)
		}
	}
	var spec strings.Builder
	for it := 1; it <= 2; it++ {
		args := make([]string, len(r.args))
		for i, a := range r.args {
			for {
				j := strings.Index(a, "@in:")
				if j < 0 {
					break
				}
				k := strings.Index(a[j+4:], "@")
				a = a[:j] + filepath.Join(dir, "in_"+a[j+4:j+4+k]) + a[j+4+k+1:]
			}
			for {
				j := strings.Index(a, "@out:")
				if j < 0 {
					break
				}
				k := strings.Index(a[j+5:], "@")
				a = a[:j] + filepath.Join(dir, fmt.Sprintf("out%d_", it)+a[j+5:j+5+k]) + a[j+5+k+1:]
			}
			args[i] = a
		}
		spec.WriteString(core.StrList(args) + "\n")
	}
	specfile := filepath.Join(dir, "spec")
	os.WriteFile(specfile, []byte(spec.String()), 0644)
	ctx, cancel := context.WithTimeout(context.Background(), 120*time.Second)
	defer cancel()
	child := exec.CommandContext(ctx, os.Args[0], "C18", "-arg", "inproc:"+specfile, "-tmp", dir)
	child.Env = append(os.Environ(), "GOMEMLIMIT=2GiB")
	child.Stdout = nil
	child.Stderr = nil
	cerr := child.Run()
	var outs []runOut
	for it := 1; it <= 2; it++ {
		var b strings.Builder
		st, err := os.ReadFile(filepath.Join(dir, fmt.Sprintf("status%d", it)))
		if err != nil {
			// the child died (os.Exit inside the command, panic, timeout) before finishing this run
			fmt.Fprintf(&b, "exit=died(%v)\n", cerr)
		} else {
			b.WriteString(string(st))
		}
		so, _ := os.ReadFile(filepath.Join(dir, fmt.Sprintf("stdout%d", it)))
		pre := fmt.Sprintf("out%d_", it)
		norm := func(x string) string {
			return strings.ReplaceAll(strings.ReplaceAll(x, dir, "@DIR@"), pre, "out_")
		}
		b.WriteString(norm(string(so)))
		ents, _ := os.ReadDir(dir)
		var names []string
		for _, e := range ents {
			if strings.HasPrefix(e.Name(), pre) {
				names = append(names, e.Name())
			}
		}
		sort.Strings(names)
		for _, nm := range names {
			content, _ := os.ReadFile(filepath.Join(dir, nm))
			fmt.Fprintf(&b, "--file %s--\n", norm(nm))
			b.WriteString(dropLogDates(norm(nm), norm(string(content))))
		}
		outs = append(outs, runOut{"inproc", b.String()})
	}
	return outs
}

// child side of runInprocPair
func inprocChild(specfile, dir string) {
	b, err := os.ReadFile(specfile)
	if err != nil {
		os.Exit(3)
	}
	for it, l := range strings.Split(strings.TrimSuffix(string(b), "\n"), "\n") {
		args := decList(l)
		f, err := os.Create(filepath.Join(dir, fmt.Sprintf("stdout%d", it+1)))
		if err != nil {
			os.Exit(3)
		}
		old := os.Stdout
		os.Stdout = f
		gotreecmd.RootCmd.SetArgs(args)
		xerr := gotreecmd.RootCmd.Execute()
		if xerr != nil {
			fmt.Println(xerr) // as cmd.Execute() does before os.Exit(1)
		}
		os.Stdout = old
		f.Close()
		status := "exit=0\n"
		if xerr != nil {
			status = "exit=1\n"
		}
		os.WriteFile(filepath.Join(dir, fmt.Sprintf("status%d", it+1)), []byte(status), 0644)
	}
}

// the support logs carry a date and timings by design: those lines are dropped, the rest (the --moved-taxa
// and --per-branches tables, the input and output names) is compared like any other output
func dropLogDates(name, content string) string {
	if !strings.Contains(name, "_log") {
		return content
	}
	var b strings.Builder
	for _, l := range strings.SplitAfter(content, "\n") {
		t := strings.TrimSpace(l)
		if strings.HasPrefix(t, "Date ") || strings.HasPrefix(t, "Start ") || strings.HasPrefix(t, "End ") || strings.HasPrefix(t, "Date\t") {
			continue
		}
		b.WriteString(l)
	}
	return b.String()
}

func firstDiff(a, b string) string {
	la, lb := strings.Split(a, "\n"), strings.Split(b, "\n")
	for i := 0; i < len(la) || i < len(lb); i++ {
		var x, y string
		if i < len(la) {
			x = la[i]
		}
		if i < len(lb) {
			y = lb[i]
		}
		if x != y {
			if len(x) > 300 {
				x = x[:300] + "…"
			}
			if len(y) > 300 {
				y = y[:300] + "…"
			}
			return fmt.Sprintf("line %d: <%s> vs <%s>", i+1, x, y)
		}
	}
	return ""
}

func sortedLines(s string) string {
	l := strings.Split(s, "\n")
	sort.Strings(l)
	return strings.Join(l, "\n")
}

// thread sweep: a request whose arguments contain the placeholder @threads@ is run once per thread count of
// threadSweep (in separate processes) instead of repeatedly with one count: the number of threads is a
// configuration, not an input — apart from the order of id-carrying records the bytes must be those of -t 1.
// The counts include ones that do not divide the number of branches and ones larger than it.
var threadSweep = []string{"1", "2", "3", "5", "7", "8", "64", "200"}

func hasThreadSweep(r *request) bool {
	for _, a := range r.args {
		if a == "@threads@" {
			return true
		}
	}
	return false
}

func withThreads(r *request, t string) *request {
	r2 := *r
	r2.args = make([]string, len(r.args))
	for i, a := range r.args {
		if a == "@threads@" {
			a = t
		}
		r2.args[i] = a
	}
	return &r2
}

// execute a request `nruns` times and emit its case line
func execute(c *core.Ctx, r *request, nruns int) {
	var outs []runOut
	if strings.Contains(r.tpl, "reroot-outgroup-nonmono") && nruns < 20 {
		nruns = 20 // a dependence that shows in few runs only (a handful of possible outcomes)
	}
	if r.kind == "cli" && hasThreadSweep(r) {
		for i, t := range threadSweep {
			o := runCLIOnce(c, withThreads(r, t), i)
			o.mode = "proc-t" + t
			outs = append(outs, o)
		}
		nruns = 0
	} else {
		if r.early != nil {
			outs = append(outs, *r.early)
		}
		if r.kind == "cli" {
			outs = append(outs, runInprocPair(c, r, 0)...)
		}
	}
	for i := 0; i < nruns; i++ {
		switch r.kind {
		case "cli":
			outs = append(outs, runCLIOnce(c, r, i))
		case "lib":
			outs = append(outs, runLibOnce(c, r))
		}
	}
	// a run that timed out, or an in-process pair whose child died (os.Exit inside the command), is
	// inconclusive for byte comparison: it is dropped and reported on stderr (hangs are C11's subject)
	kept := outs[:0]
	for _, o := range outs {
		if strings.HasPrefix(o.blob, "exit=timeout") || strings.HasPrefix(o.blob, "exit=died") {
			fmt.Fprintf(os.Stderr, "c18: dropped an inconclusive %s run of %s: %s\n", o.mode, r.tpl, strings.SplitN(o.blob, "\n", 2)[0])
			continue
		}
		kept = append(kept, o)
	}
	outs = kept
	if len(outs) < 2 {
		return
	}
	thr := "0"
	if r.threaded {
		thr = "1"
	}
	var runs [][]string
	diff := ""
	orderDiff := ""
	for i, o := range outs {
		if r.threaded {
			lines := strings.Split(strings.TrimSuffix(o.blob, "\n"), "\n")
			runs = append(runs, append([]string{o.mode}, lines...))
			if diff == "" && i > 0 && sortedLines(o.blob) != sortedLines(outs[0].blob) {
				diff = firstDiff(sortedLines(outs[0].blob), sortedLines(o.blob))
			}
			if orderDiff == "" && i > 0 && o.blob != outs[0].blob {
				orderDiff = "same records in another order: " + firstDiff(outs[0].blob, o.blob)
			}
		} else {
			runs = append(runs, []string{o.mode, digest(o.blob)})
			if diff == "" && i > 0 && o.blob != outs[0].blob {
				diff = firstDiff(outs[0].blob, o.blob)
			}
		}
	}
	if diff == "" {
		diff = orderDiff
	}
	nlines := 0
	exit0 := "1"
	if len(outs) > 0 {
		nlines = strings.Count(outs[0].blob, "\n")
		if r.kind == "cli" && !strings.HasPrefix(outs[0].blob, "exit=0\n") {
			exit0 = "0"
		}
		if r.kind == "lib" && strings.HasPrefix(outs[0].blob, "panic") {
			exit0 = "0"
		}
	}
	c.Emit("C18.run", r.kind, r.tpl, thr, fmt.Sprint(nlines), core.StrList(r.args), encFiles(r.files), exit0, core.StrLists(runs), core.Escape(diff))
}

// the seed is used: the random templates give another output for another seed (non-vacuity of
// "deterministic for a given seed": a command that ignored --seed and used a constant would also be deterministic)
func seedUse(c *core.Ctx, in *inputs) {
	random := map[string]bool{"shuffletips": true, "gen-yule": true, "gen-uniform": true, "prune-random": true, "sample": true,
		"brlen-setrand": true, "support-setrand": true, "rotate-rand": true}
	var res []string
	for _, r := range cliTemplates(c, in) {
		if !random[r.tpl] {
			continue
		}
		if r.files["tree"] == in.tree {
			// a star tree has no inner branch to give a support to, nothing to rotate …: the resolved rooted tree instead
			r.files = map[string]string{"tree": in.rooted}
		}
		a := runCLIOnce(c, r, 0)
		r2 := *r
		r2.args = append([]string{}, r.args...)
		r2.args[len(r2.args)-1] = fmt.Sprint(in.seed + 12345) // the last argument is the seed
		b := runCLIOnce(c, &r2, 1)
		same := "differs"
		if a.blob == b.blob {
			same = "same"
		}
		res = append(res, r.tpl+"="+same)
	}
	c.Emit("C18.seeduse", core.StrList(res))
}

// which runnable command of the live command tree each CLI template exercises
func commandsCase(c *core.Ctx, in *inputs) {
	var pairs []string
	for _, r := range cliTemplates(c, in) {
		found, _, err := gotreecmd.RootCmd.Find(r.args)
		path := "?"
		if err == nil && found != nil {
			path = strings.TrimPrefix(found.CommandPath(), "gotree ")
		}
		threads := "1"
		for i, a := range r.args {
			if a == "-t" && i+1 < len(r.args) {
				threads = r.args[i+1]
			}
		}
		pairs = append(pairs, r.tpl+"="+path+"="+threads)
	}
	c.Emit("C18.commands", core.StrList(liveCommands()), core.StrList(pairs))
}

// the extractor on a synthetic package containing one of everything it must find
func selfTest(c *core.Ctx) {
	got, err := SelfTest(c.Tmp)
	if err != nil {
		got = "ERROR: " + err.Error()
	}
	c.Emit("C18.selftest", core.Escape(got))
}

// A clock read with a coarse unit (a date, a time in seconds written into the output) gives the same bytes to
// runs made within the same second, and the runs of one template take a few milliseconds each.  So every CLI
// request is first run ONCE, then the harness waits for more than a second, and only then come the usual runs:
// the early output is compared with them like any other run.
func earlyRuns(c *core.Ctx, reqs []*request) {
	any := false
	for i, r := range reqs {
		if r.kind == "cli" && !hasThreadSweep(r) {
			o := runCLIOnce(c, r, 1000+i)
			o.mode = "proc-early"
			r.early = &o
			any = true
		}
	}
	if any {
		time.Sleep(1100 * time.Millisecond)
	}
}

func replay(c *core.Ctx, lines []string) {
	var reqs []*request
	byLine := map[int]*request{}
	for i, l := range lines {
		f := strings.Split(l, "\t")
		if f[0] == "C18.run" && len(f) >= 7 {
			r := &request{kind: f[1], tpl: f[2], threaded: f[3] == "1", args: decList(f[5]), files: decFiles(f[6])}
			reqs = append(reqs, r)
			byLine[i] = r
		}
	}
	if c.Gotree != "" {
		earlyRuns(c, reqs)
	}
	for i, l := range lines {
		f := strings.Split(l, "\t")
		switch {
		case f[0] == "C18.run" && len(f) >= 7:
			execute(c, byLine[i], c.Scale(5, 14))
		case f[0] == "C18.table":
			c.Emit("C18.table")
		case f[0] == "C18.selftest":
			selfTest(c)
		case f[0] == "C18.commands":
			commandsCase(c, genInputs(c, 0))
		case strings.HasPrefix(f[0], "C18.site-"):
			replaySite(c, f)
		}
	}
}

// Run generates the cases of C18.
func Run(c *core.Ctx) {
	if strings.HasPrefix(c.Arg, "inproc:") {
		inprocChild(strings.TrimPrefix(c.Arg, "inproc:"), c.Tmp)
		return
	}
	if strings.HasPrefix(c.Arg, "shrink:") {
		shrinkFile(c, strings.TrimPrefix(c.Arg, "shrink:"))
		return
	}
	if c.Arg != "" && c.Arg != "race" {
		replay(c, core.ReadRequests(c.Arg))
		return
	}
	if c.Arg == "race" {
		// thorough tier, binaries built with -race: only the templates that start goroutines; a reported
		// race ends the process with another exit status and text, i.e. shows up as a differing output
		for rep := 0; rep < 2; rep++ {
			in := genInputs(c, rep)
			for _, r := range cliTemplates(c, in) {
				if r.threaded || strings.HasPrefix(r.tpl, "support-") || r.tpl == "consensus" || strings.HasPrefix(r.tpl, "edgetrees") || r.tpl == "roccurve" || strings.HasPrefix(r.tpl, "reformat-") {
					execute(c, r, 4)
				}
			}
		}
		return
	}
	// the table tie is one case of every run: the driver compares the regenerated site list with the proved one
	c.Emit("C18.table")
	selfTest(c)
	inputs := c.Scale(3, 5)
	nruns := c.Scale(4, 14)
	for rep := 0; rep < inputs; rep++ {
		in := genInputs(c, rep)
		if c.Gotree != "" {
			reqs := cliTemplates(c, in)
			if rep >= c.Scale(2, 3) {
				// the thread sweeps (8 processes per template) on the first inputs only
				kept := reqs[:0]
				for _, r := range reqs {
					if !hasThreadSweep(r) {
						kept = append(kept, r)
					}
				}
				reqs = kept
			}
			earlyRuns(c, reqs)
			for _, r := range reqs {
				execute(c, r, nruns)
			}
		}
		for _, r := range libTemplates(c, in) {
			execute(c, r, nruns)
		}
		siteCases(c, in)
		if c.Gotree != "" && rep == 0 {
			seedUse(c, in)
			commandsCase(c, in)
		}
	}
}
